(* C02 proofs: UNSUBSCRIBE and SUBSCRIBE (with the refutation for the MQTT5 subscription identifier) *)
From GM Require Import Base.Prelude Base.Outcome Codec.Prim Codec.Packets Codec.Steps Codec.ImplEncode
  Codec.SpecDecodeC2S Codec.ValidC2S CodecProofs.EncPrim CodecProofs.EncProps CodecProofs.EncAck CodecProofs.EncDisc.
Open Scope N_scope.

Lemma pid_facts pid : pid_ok pid = true -> pid <= 65535 /\ negb (pid =? 0) = true.
Proof. unfold pid_ok, U16_MAX. intros H. apply andb_true_iff in H. lia. Qed.

Lemma fl_eq steps a b : fl steps a -> a = b -> fl steps b.
Proof. intros H <-. exact H. Qed.
Ltac app_norm := cbn [app]; rewrite <- ?app_assoc; cbn [app]; reflexivity.

(* ---------------- topic filter lists ---------------- *)
Definition filter_bytes (f : bytes) : bytes := be16 (u16 (len f)) ++ f.
Definition filters_bytes (fs : list bytes) : bytes := flat_map filter_bytes fs.

Lemma fl_filters fs : fl (flat_map lp_data fs) (filters_bytes fs).
Proof.
  induction fs as [|f fs IH]; [apply fl_nil|]. cbn [flat_map filters_bytes].
  apply fl_app; [apply fl_lp_data | exact IH].
Qed.
Lemma len_filters fs : len (filters_bytes fs) = strsz fs.
Proof.
  induction fs as [|f fs IH]; [reflexivity|]. cbn [filters_bytes flat_map strsz]. fold (filters_bytes fs).
  unfold filter_bytes. rewrite !len_app, len_be16, IH. lia.
Qed.
Lemma filters_sum_strsz fs : len fs * 2 + filters_sum fs = strsz fs.
Proof. induction fs as [|f fs IH]; [reflexivity|]. cbn [filters_sum strsz]. rewrite len_cons. lia. Qed.
Lemma filters_length fs : (length fs <= length (filters_bytes fs))%nat.
Proof.
  induction fs as [|f fs IH]; [cbn; lia|]. cbn [filters_bytes flat_map]. fold (filters_bytes fs).
  rewrite app_length. unfold filter_bytes, be16. cbn [app length]. lia.
Qed.

Lemma d_filters_rt fs : forall fuel,
  forallb filter_valid fs = true -> (length fs < fuel)%nat -> d_filters fuel (filters_bytes fs) = Some fs.
Proof.
  induction fs as [|f fs IH]; intros fuel Hv Hf.
  - destruct fuel; reflexivity.
  - cbn [forallb] in Hv. apply andb_true_iff in Hv as [H1 H2]. unfold filter_valid in H1. apply andb_true_iff in H1 as [H1 H1'].
    destruct fuel as [|fu]; [cbn in Hf; lia|].
    cbn [filters_bytes flat_map]. fold (filters_bytes fs). unfold filter_bytes.
    pose proof (p_str_rt f (filters_bytes fs) H1) as P. rewrite <- app_assoc.
    unfold be16 in *. cbn [app] in *. cbn [d_filters]. rewrite P. rewrite H1'.
    rewrite IH; [reflexivity | assumption | cbn in Hf; lia].
Qed.

(* ---------------- UNSUBSCRIBE ---------------- *)
Lemma unsubscribe_rt5 : forall u r, valid_unsubscribe V5 u = true ->
  exists bs, impl_encode_all V5 (Unsubscribe u) r = Ok bs /\ spec_decode V5 bs = Some (canon V5 r (Unsubscribe u), []).
Proof.
  intros u r H. unfold valid_unsubscribe in H. split_andb.
  match goal with H : pid_ok _ = true |- _ => destruct (pid_facts _ H) as [Hpid Hpidnz] end.
  match goal with H : negb (len (u_filters u) =? 0) = true |- _ => rename H into Hne end.
  match goal with H : forallb filter_valid _ = true |- _ => rename H into Hfs end.
  match goal with H : ups_valid _ = true |- _ => rename H into Hups end.
  set (pl := oupsz (u_up u)) in *.
  pose proof (vbisz_bounds pl) as Hvb.
  assert (pl <= VLI_MAX) as Hple by (unfold VLI_MAX in *; lia).
  set (its := up_items (u_up u)).
  assert (len (items_bytes its) = pl) as Hil by apply len_items_ups.
  set (body := be16 (u_pid u) ++ vli_bytes (len (items_bytes its)) ++ items_bytes its ++ filters_bytes (u_filters u)).
  assert (len body = 2 + vbisz pl + pl + strsz (u_filters u)) as Hbody.
  { unfold body. rewrite !len_app, len_be16, Hil, len_filters. rewrite len_vli_bytes by assumption. lia. }
  apply (round_trip V5 _ r 162 body).
  - eexists. split.
    + cbn [impl_steps impl_steps5]. unfold unsubscribe_steps5, unsubscribe_lengths5. rewrite up_length_oupsz. fold pl.
      rewrite vli_size_vbisz by assumption. cbn [obind]. reflexivity.
    + assert (u32 (2 + vbisz pl + pl + len (u_filters u) * 2 + filters_sum (u_filters u)) = len body) as ->.
      { rewrite Hbody. pose proof (filters_sum_strsz (u_filters u)). unfold VLI_MAX in *. rewrite u32_small by lia. lia. }
      rewrite (u32_small pl) by (unfold VLI_MAX in *; lia).
      eapply fl_eq.
      { apply (fl_app [SU8 162; SVli _; SU16 _; SVli _] _ (162 :: vli_bytes (len body) ++ be16 (u_pid u) ++ vli_bytes pl)).
        { apply (fl_app [SU8 162] _ [162]); [apply fl_u8|].
          apply (fl_app [SVli _] _); [apply fl_vli; rewrite Hbody; unfold VLI_MAX in *; lia|].
          apply (fl_app [SU16 _] [SVli _]); [apply fl_u16 | apply fl_vli; assumption]. }
        apply fl_app; [apply fl_ups | apply fl_filters]. }
      unfold body. rewrite Hil. unfold its. app_norm.
  - rewrite Hbody. unfold VLI_MAX in *. lia.
  - change (d_body V5 (162 / 16) (162 mod 16) body) with (d_unsubscribe V5 body).
    unfold d_unsubscribe, body. rewrite p_u16_rt by assumption. rewrite Hpidnz.
    rewrite p_props_rt.
    + rewrite d_filters_rt; [| assumption | pose proof (filters_length (u_filters u)); lia].
      rewrite Hne. cbn [canon canon_unsubscribe]. unfold its. solve_get_ups.
    + apply wf_up_items. assumption.
    + rewrite Hil. assumption.
    + apply allowed_ups. reflexivity.
    + reflexivity.
Qed.

Lemma unsubscribe_rt311 : forall u r, valid_unsubscribe V311 u = true ->
  exists bs, impl_encode_all V311 (Unsubscribe u) r = Ok bs /\ spec_decode V311 bs = Some (canon V311 r (Unsubscribe u), []).
Proof.
  intros u r H. unfold valid_unsubscribe in H. split_andb.
  match goal with H : pid_ok _ = true |- _ => destruct (pid_facts _ H) as [Hpid Hpidnz] end.
  match goal with H : negb (len (u_filters u) =? 0) = true |- _ => rename H into Hne end.
  match goal with H : forallb filter_valid _ = true |- _ => rename H into Hfs end.
  set (body := be16 (u_pid u) ++ filters_bytes (u_filters u)).
  assert (len body = 2 + strsz (u_filters u)) as Hbody.
  { unfold body. rewrite !len_app, len_be16, len_filters. lia. }
  apply (round_trip V311 _ r 162 body).
  - eexists. split; [reflexivity|].
    unfold unsubscribe_length311.
    assert (u32 (2 + len (u_filters u) * 2 + filters_sum (u_filters u)) = len body) as ->.
    { rewrite Hbody. pose proof (filters_sum_strsz (u_filters u)). unfold VLI_MAX in *. rewrite u32_small by lia. lia. }
    eapply fl_eq.
    { apply (fl_app [SU8 162; SVli _; SU16 _] _ (162 :: vli_bytes (len body) ++ be16 (u_pid u))).
      { apply (fl_app [SU8 162] _ [162]); [apply fl_u8|].
        apply (fl_app [SVli _] [SU16 _]); [apply fl_vli; rewrite Hbody; unfold VLI_MAX in *; lia | apply fl_u16]. }
      apply fl_filters. }
    unfold body. app_norm.
  - rewrite Hbody. unfold VLI_MAX in *. lia.
  - change (d_body V311 (162 / 16) (162 mod 16) body) with (d_unsubscribe V311 body).
    unfold d_unsubscribe, body. rewrite p_u16_rt by assumption. rewrite Hpidnz.
    rewrite d_filters_rt; [| assumption | pose proof (filters_length (u_filters u)); lia].
    rewrite Hne. reflexivity.
Qed.

(* ---------------- SUBSCRIBE ---------------- *)
Definition sub_opts (v : version) (x : subscription) : N :=
  match v with V5 => subscription_options5 x | V311 => sub_qos x end.
Definition sub_bytes (v : version) (x : subscription) : bytes := be16 (u16 (len (sub_filter x))) ++ sub_filter x ++ [sub_opts v x].
Definition subs_bytes (v : version) (l : list subscription) : bytes := flat_map (sub_bytes v) l.

Lemma fl_subs v l :
  fl (flat_map (fun x => lp_data (sub_filter x) ++ [SU8 (sub_opts v x)]) l) (subs_bytes v l).
Proof.
  induction l as [|x l IH]; [apply fl_nil|]. cbn [flat_map subs_bytes].
  apply fl_app; [|exact IH]. unfold sub_bytes. rewrite app_assoc.
  apply fl_app; [apply fl_lp_data | apply fl_u8].
Qed.
Lemma len_subs v l : len (subs_bytes v l) = strsz (map sub_filter l) + len l.
Proof.
  induction l as [|x l IH]; [reflexivity|]. cbn [subs_bytes flat_map map strsz]. fold (subs_bytes v l).
  unfold sub_bytes. rewrite !len_app, len_be16, len_1, len_cons, IH. lia.
Qed.
Lemma subs_sum_strsz (l : list subscription) : len l * 3 + filters_sum (map sub_filter l) = strsz (map sub_filter l) + len l.
Proof. induction l as [|x l IH]; [reflexivity|]. cbn [map filters_sum strsz]. rewrite len_cons. lia. Qed.
Lemma subs_length v l : (length l <= length (subs_bytes v l))%nat.
Proof.
  induction l as [|x l IH]; [cbn; lia|]. cbn [subs_bytes flat_map]. fold (subs_bytes v l).
  rewrite app_length. unfold sub_bytes, be16. cbn [app length]. lia.
Qed.

Lemma d_subscription_rt v x rest : subscription_valid v x = true ->
  d_subscription v (sub_bytes v x ++ rest) = Some (canon_subscription v x, rest).
Proof.
  unfold subscription_valid, filter_valid. intros H. split_andb.
  unfold d_subscription, sub_bytes. rewrite <- !app_assoc.
  match goal with H : str_valid _ = true |- _ => rewrite (p_str_rt _ _ H) end.
  match goal with H : negb (len _ =? 0) = true |- _ => rewrite H end.
  cbn [app p_u8]. destruct x as [f q nl rap rh]. cbn [sub_filter sub_qos sub_no_local sub_rap sub_rh] in *.
  destruct v; cbn [sub_opts subscription_options5 sub_qos sub_no_local sub_rap sub_rh canon_subscription sub_filter].
  - assert (q <= 2) as Hq by lia. assert (rh <= 2) as Hrh by lia.
    unfold subscription_options5. cbn [sub_qos sub_no_local sub_rap sub_rh].
    set (o := q + (if nl then 4 else 0) + (if rap then 8 else 0) + rh * 16).
    assert (o mod 4 = q) as E1 by (unfold o; destruct nl, rap; lia).
    assert (o / 16 mod 4 = rh) as E2 by (unfold o; destruct nl, rap; lia).
    assert (o / 64 = 0) as E3 by (unfold o; destruct nl, rap; lia).
    assert ((o / 4 mod 2 =? 1) = nl) as E4 by (unfold o; destruct nl, rap; lia).
    assert ((o / 8 mod 2 =? 1) = rap) as E5 by (unfold o; destruct nl, rap; lia).
    rewrite E1, E2, E3, E4, E5.
    assert (negb (q =? 3) = true) as -> by lia. assert (negb (rh =? 3) = true) as -> by lia.
    reflexivity.
  - assert (q <= 2) as Hq by lia.
    assert (q mod 4 = q) as -> by lia. assert (q / 4 = 0) as -> by lia.
    assert (negb (q =? 3) = true) as -> by lia. reflexivity.
Qed.

Lemma d_subscriptions_rt v l : forall fuel,
  forallb (subscription_valid v) l = true -> (length l < fuel)%nat ->
  d_subscriptions fuel v (subs_bytes v l) = Some (map (canon_subscription v) l).
Proof.
  induction l as [|x l IH]; intros fuel Hv Hf.
  - destruct fuel; reflexivity.
  - cbn [forallb] in Hv. apply andb_true_iff in Hv as [H1 H2].
    destruct fuel as [|fu]; [cbn in Hf; lia|].
    cbn [subs_bytes flat_map]. fold (subs_bytes v l).
    pose proof (d_subscription_rt v x (subs_bytes v l) H1) as P.
    unfold sub_bytes, be16 in *. cbn [app] in *. cbn [d_subscriptions]. rewrite P.
    rewrite IH; [reflexivity | assumption | cbn in Hf; lia].
Qed.

Lemma map_canon_sub5 l : map (canon_subscription V5) l = l.
Proof. induction l as [|x l IH]; [reflexivity|]. cbn [map]. rewrite IH. reflexivity. Qed.

(* the subscription identifier property (variable byte integer) *)
Lemma fl_opt_vli k o : prop_type k = Some TVbi -> opt_ok (fun x => x <=? VLI_MAX) o = true ->
  fl (opt_vli_prop k o) (items_bytes (oi_num k o)).
Proof.
  intros E H. destruct o as [x|]; [|apply fl_nil]. cbn [opt_vli_prop oi_num items_bytes flat_map opt_ok] in *.
  unfold item_bytes. cbn [fst snd]. rewrite E, app_nil_r. cbn [val_bytes].
  apply (fl_app [SU8 k] [SVli x] [k]); [apply fl_u8 | apply fl_vli; lia].
Qed.
Lemma len_items_vbi k o : prop_type k = Some TVbi -> opt_ok (fun x => x <=? VLI_MAX) o = true ->
  len (items_bytes (oi_num k o)) = match o with Some x => 1 + vbisz x | None => 0 end.
Proof.
  intros E H. destruct o as [x|]; [|reflexivity]. cbn [oi_num items_bytes flat_map opt_ok] in *.
  unfold item_bytes. cbn [fst snd]. rewrite E, app_nil_r. cbn [val_bytes]. rewrite len_cons, len_vli_bytes by lia. reflexivity.
Qed.

Definition subscribe_items (s : subscribe) : list item := oi_num 11 (s_subid s) ++ up_items (s_up s).

Lemma subscribe_rt5 : forall s r, valid_subscribe V5 s = true ->
  exists bs, impl_encode_all V5 (Subscribe s) r = Ok bs /\ spec_decode V5 bs = Some (canon V5 r (Subscribe s), []).
Proof.
  intros s r H. unfold valid_subscribe in H. split_andb.
  match goal with H : pid_ok _ = true |- _ => destruct (pid_facts _ H) as [Hpid Hpidnz] end.
  match goal with H : negb (len (s_subs s) =? 0) = true |- _ => rename H into Hne end.
  match goal with H : forallb (subscription_valid V5) _ = true |- _ => rename H into Hfs end.
  match goal with H : ups_valid _ = true |- _ => rename H into Hups end.
  match goal with H : opt_ok _ (s_subid s) = true |- _ => rename H into Hid end.
  match goal with H : (_ <=? VLI_MAX) = true |- _ => rename H into Hsz end.
  assert (opt_ok (fun x => x <=? VLI_MAX) (s_subid s) = true) as Hid'.
  { destruct (s_subid s); [|reflexivity]. cbn [opt_ok] in *. lia. }
  set (pl := subscribe_props_size s) in *.
  pose proof (vbisz_bounds pl) as Hvb.
  assert (pl <= VLI_MAX) as Hple by (unfold VLI_MAX in *; lia).
  set (its := subscribe_items s).
  assert (len (items_bytes its) = pl) as Hil.
  { unfold its, subscribe_items, pl, subscribe_props_size. rewrite items_bytes_app, len_app.
    rewrite (len_items_vbi 11) by (reflexivity || assumption). rewrite len_items_ups. reflexivity. }
  set (body := be16 (s_pid s) ++ vli_bytes (len (items_bytes its)) ++ items_bytes its ++ subs_bytes V5 (s_subs s)).
  assert (len body = 2 + vbisz pl + pl + (strsz (map sub_filter (s_subs s)) + len (s_subs s))) as Hbody.
  { unfold body. rewrite !len_app, len_be16, Hil, len_subs. rewrite len_vli_bytes by assumption. lia. }
  apply (round_trip V5 _ r 130 body).
  - eexists. split.
    + cbn [impl_steps impl_steps5]. unfold subscribe_steps5, subscribe_lengths5. rewrite up_length_oupsz.
      assert (match s_subid s with
              | Some id => do sz <- vli_size id; Ok (oupsz (s_up s) + (1 + sz))
              | None => Ok (oupsz (s_up s))
              end = Ok pl) as ->.
      { unfold pl, subscribe_props_size. destruct (s_subid s) as [x|]; cbn [opt_ok] in *.
        - rewrite vli_size_vbisz by lia. cbn [obind]. f_equal; lia.
        - f_equal; lia. }
      cbn [obind]. rewrite vli_size_vbisz by assumption. cbn [obind]. reflexivity.
    + assert (u32 (2 + vbisz pl + pl + len (s_subs s) * 3 + filters_sum (map sub_filter (s_subs s))) = len body) as ->.
      { rewrite Hbody. pose proof (subs_sum_strsz (s_subs s)). unfold VLI_MAX in *. rewrite u32_small by lia. lia. }
      rewrite (u32_small pl) by (unfold VLI_MAX in *; lia).
      eapply fl_eq.
      { apply (fl_app [SU8 130; SVli _; SU16 _; SVli _] _ (130 :: vli_bytes (len body) ++ be16 (s_pid s) ++ vli_bytes pl)).
        { apply (fl_app [SU8 130] _ [130]); [apply fl_u8|].
          apply (fl_app [SVli _] _); [apply fl_vli; rewrite Hbody; unfold VLI_MAX in *; lia|].
          apply (fl_app [SU16 _] [SVli _]); [apply fl_u16 | apply fl_vli; assumption]. }
        apply fl_app; [apply fl_opt_vli; [reflexivity | assumption]|].
        apply fl_app; [apply fl_ups | apply (fl_subs V5)]. }
      unfold body. rewrite Hil. unfold its, subscribe_items. rewrite items_bytes_app. app_norm.
  - rewrite Hbody. unfold VLI_MAX in *. lia.
  - change (d_body V5 (130 / 16) (130 mod 16) body) with (d_subscribe V5 body).
    unfold d_subscribe, body. rewrite p_u16_rt by assumption. rewrite Hpidnz.
    rewrite p_props_rt.
    + rewrite d_subscriptions_rt; [| assumption | pose proof (subs_length V5 (s_subs s)); lia].
      rewrite map_canon_sub5. rewrite Hne. cbn [canon canon_subscribe]. unfold its, subscribe_items.
      solve_get. solve_get_ups.
    + unfold its, subscribe_items. rewrite forallb_app. apply andb_true_iff. split.
      * eapply wf_oi_num; [exact Hid|]. intros y Hy. unfold item_wf. cbn [fst snd prop_type val_wf value_ok].
        eval_eqb. cbn [orb]. cbv beta in Hy. lia.
      * apply wf_up_items. assumption.
    + rewrite Hil. assumption.
    + unfold its, subscribe_items. solve_allowed.
    + unfold its, subscribe_items, allowed_subscribe. solve_once.
Qed.

Lemma subscribe_rt311 : forall s r, valid_subscribe V311 s = true ->
  exists bs, impl_encode_all V311 (Subscribe s) r = Ok bs /\ spec_decode V311 bs = Some (canon V311 r (Subscribe s), []).
Proof.
  intros s r H. unfold valid_subscribe in H. split_andb.
  match goal with H : pid_ok _ = true |- _ => destruct (pid_facts _ H) as [Hpid Hpidnz] end.
  match goal with H : negb (len (s_subs s) =? 0) = true |- _ => rename H into Hne end.
  match goal with H : forallb (subscription_valid V311) _ = true |- _ => rename H into Hfs end.
  set (body := be16 (s_pid s) ++ subs_bytes V311 (s_subs s)).
  assert (len body = 2 + (strsz (map sub_filter (s_subs s)) + len (s_subs s))) as Hbody.
  { unfold body. rewrite !len_app, len_be16, len_subs. lia. }
  apply (round_trip V311 _ r 130 body).
  - eexists. split; [reflexivity|].
    unfold subscribe_length311.
    assert (u32 (2 + len (s_subs s) * 3 + filters_sum (map sub_filter (s_subs s))) = len body) as ->.
    { rewrite Hbody. pose proof (subs_sum_strsz (s_subs s)). unfold VLI_MAX in *. rewrite u32_small by lia. lia. }
    eapply fl_eq.
    { apply (fl_app [SU8 130; SVli _; SU16 _] _ (130 :: vli_bytes (len body) ++ be16 (s_pid s))).
      { apply (fl_app [SU8 130] _ [130]); [apply fl_u8|].
        apply (fl_app [SVli _] [SU16 _]); [apply fl_vli; rewrite Hbody; unfold VLI_MAX in *; lia | apply fl_u16]. }
      apply (fl_subs V311). }
    unfold body. app_norm.
  - rewrite Hbody. unfold VLI_MAX in *. lia.
  - change (d_body V311 (130 / 16) (130 mod 16) body) with (d_subscribe V311 body).
    unfold d_subscribe, body. rewrite p_u16_rt by assumption. rewrite Hpidnz.
    rewrite d_subscriptions_rt; [| assumption | pose proof (subs_length V311 (s_subs s)); lia].
    assert (negb (len (map (canon_subscription V311) (s_subs s)) =? 0) = true) as ->.
    { unfold len in *. rewrite map_length. exact Hne. }
    reflexivity.
Qed.

(* D3 (repaired in /repo): write_subscribe_encoding_steps5 used to emit the Subscription Identifier property as a
   four-byte integer (the specification, 3.8.2.1.2 / Table 2-4, says Variable Byte Integer); with the faithful model
   of that code this file proved  exists s r bs, valid .. /\ impl_encode_all .. = Ok bs /\ spec_decode .. <> Some (canon ..)
   for the witness below.  The witness stays as a regression example and in corpus/C02/d3_subscribe_subid.txt. *)
Definition d3_witness : subscribe :=
  {| s_pid := 1;
     s_subs := [{| sub_filter := [97]; sub_qos := 0; sub_no_local := false; sub_rap := false; sub_rh := 0 |}];
     s_subid := Some 1; s_up := None |}.

Lemma d3_witness_now_conformant :
  valid V5 no_resolution (Subscribe d3_witness) = true /\
  impl_encode_all V5 (Subscribe d3_witness) no_resolution = Ok [130; 9; 0; 1; 2; 11; 1; 0; 1; 97; 0] /\
  spec_decode V5 [130; 9; 0; 1; 2; 11; 1; 0; 1; 97; 0] = Some (Subscribe d3_witness, []).
Proof. vm_compute. repeat split; reflexivity. Qed.
