(* C02 proofs, part 3: property sections.  The implementation emits a fixed sequence of optional
   properties; the reference decoder accepts any sequence of items.  [oi_*] / [up_items] describe the
   item list a packet's optional fields stand for; the lemmas relate (a) the emitted steps to the wire
   form of that list, (b) the implementation's length sums to its size, (c) the decoder's result to it. *)
From GM Require Import Base.Prelude Base.Outcome Codec.Prim Codec.Packets Codec.Steps Codec.ImplEncode
  Codec.SpecDecodeC2S Codec.ValidC2S CodecProofs.EncPrim.
Open Scope N_scope.

Definition oi_num (k : N) (o : option N) : list item := match o with Some n => [(k, VNum n)] | None => [] end.
Definition oi_bool (k : N) (o : option bool) : list item := oi_num k (option_map bool_n o).
Definition oi_data (k : N) (o : option bytes) : list item := match o with Some d => [(k, VData d)] | None => [] end.
Definition up_item (p : user_property) : item := (38, VPair (up_name p) (up_value p)).
Definition up_items (o : option (list user_property)) : list item :=
  match o with Some l => map up_item l | None => [] end.

(* wire form *)
Definition val_bytes (t : ptype) (v : pval) : bytes :=
  match t, v with
  | TByte, VNum n => [n]
  | TU16, VNum n => be16 n
  | TU32, VNum n => be32 n
  | TVbi, VNum n => vli_bytes n
  | TStr, VData s => be16 (u16 (len s)) ++ s
  | TBin, VData s => be16 (u16 (len s)) ++ s
  | TPair, VPair a b => be16 (u16 (len a)) ++ a ++ be16 (u16 (len b)) ++ b
  | _, _ => []
  end.
Definition item_bytes (it : item) : bytes :=
  match prop_type (fst it) with Some t => fst it :: val_bytes t (snd it) | None => [] end.
Definition items_bytes (its : list item) : bytes := flat_map item_bytes its.

Definition val_wf (t : ptype) (v : pval) : bool :=
  match t, v with
  | TByte, VNum n => n <=? 255
  | TU16, VNum n => n <=? 65535
  | TU32, VNum n => n <=? U32_MAX
  | TVbi, VNum n => n <=? VLI_MAX
  | TStr, VData s => str_valid s
  | TBin, VData s => bin_valid s
  | TPair, VPair a b => str_valid a && str_valid b
  | _, _ => false
  end.
Definition item_wf (it : item) : bool :=
  match prop_type (fst it) with
  | Some t => (fst it <? 128) && val_wf t (snd it) && value_ok (fst it) (snd it)
  | None => false
  end.

Lemma items_bytes_app a b : items_bytes (a ++ b) = items_bytes a ++ items_bytes b.
Proof. apply flat_map_app. Qed.

Lemma p_vbi_small k r : k < 128 -> p_vbi (k :: r) = Some (k, r).
Proof. intros H. unfold p_vbi. cbn [p_vbi_n]. assert (k <? 128 = true) as -> by lia. reflexivity. Qed.

Lemma p_value_rt t v r : val_wf t v = true -> p_value t (val_bytes t v ++ r) = Some (v, r).
Proof.
  destruct t, v; cbn [val_wf val_bytes p_value]; try discriminate; intros H.
  - reflexivity.
  - rewrite p_u16_rt by lia. reflexivity.
  - unfold U32_MAX in H. rewrite p_u32_rt by lia. reflexivity.
  - rewrite p_vbi_rt by lia. reflexivity.
  - rewrite <- app_assoc. rewrite p_str_rt by assumption. reflexivity.
  - rewrite <- app_assoc. rewrite p_bin_rt by (apply bin_valid_len; assumption). reflexivity.
  - apply andb_true_iff in H as [Ha Hb]. rewrite <- !app_assoc.
    rewrite p_str_rt by assumption. rewrite p_str_rt by assumption. reflexivity.
Qed.

Lemma p_item_rt it r : item_wf it = true -> p_item (item_bytes it ++ r) = Some (it, r).
Proof.
  destruct it as [k v]. unfold item_wf, item_bytes. cbn [fst snd].
  destruct (prop_type k) as [t|] eqn:Ht; [|discriminate].
  intros H. apply andb_true_iff in H as [H H3]. apply andb_true_iff in H as [H1 H2].
  unfold p_item. cbn [app]. rewrite p_vbi_small by lia. rewrite Ht.
  rewrite p_value_rt by assumption. rewrite H3. reflexivity.
Qed.

Lemma item_bytes_nonempty it : item_wf it = true -> exists x t, item_bytes it = x :: t.
Proof.
  unfold item_wf, item_bytes. destruct (prop_type (fst it)); [|discriminate]. intros _. eauto.
Qed.

Lemma parse_items_rt its : forall fuel,
  forallb item_wf its = true -> (length its < fuel)%nat -> parse_items fuel (items_bytes its) = Some its.
Proof.
  induction its as [|it its IH]; intros fuel Hwf Hf.
  - destruct fuel; reflexivity.
  - cbn [forallb] in Hwf. apply andb_true_iff in Hwf as [H1 H2].
    destruct fuel as [|f]; [cbn in Hf; lia|].
    change (items_bytes (it :: its)) with (item_bytes it ++ items_bytes its).
    destruct (item_bytes_nonempty it H1) as (x & t & E).
    pose proof (p_item_rt it (items_bytes its) H1) as P. rewrite E in *. cbn [app parse_items] in *.
    rewrite P. rewrite IH; [reflexivity | assumption | cbn in Hf; lia].
Qed.

Lemma items_bytes_length its : forallb item_wf its = true -> (length its <= length (items_bytes its))%nat.
Proof.
  induction its as [|it its IH]; intros H; [cbn; lia|].
  cbn [forallb] in H. apply andb_true_iff in H as [H1 H2].
  change (items_bytes (it :: its)) with (item_bytes it ++ items_bytes its).
  destruct (item_bytes_nonempty it H1) as (x & t & E). rewrite E, app_length. cbn [length]. specialize (IH H2). lia.
Qed.

Lemma p_props_rt allowed its r :
  forallb item_wf its = true -> len (items_bytes its) <= VLI_MAX ->
  forallb (fun it => mem (fst it) allowed) its = true ->
  forallb (fun k => (k =? USER_PROPERTY) || (count_key k its <=? 1)) allowed = true ->
  p_props allowed (vli_bytes (len (items_bytes its)) ++ items_bytes its ++ r) = Some (its, r).
Proof.
  intros Hwf Hlen Hall Honce. unfold p_props.
  rewrite p_vbi_rt by assumption. rewrite p_take_rt.
  rewrite parse_items_rt; [| assumption | pose proof (items_bytes_length its Hwf); lia].
  rewrite Hall, Honce. reflexivity.
Qed.

Lemma p_props_rt0 allowed its :
  forallb item_wf its = true -> len (items_bytes its) <= VLI_MAX ->
  forallb (fun it => mem (fst it) allowed) its = true ->
  forallb (fun k => (k =? USER_PROPERTY) || (count_key k its <=? 1)) allowed = true ->
  p_props allowed (vli_bytes (len (items_bytes its)) ++ items_bytes its) = Some (its, []).
Proof.
  intros. rewrite <- (app_nil_r (items_bytes its)) at 2. apply p_props_rt; assumption.
Qed.

(* ---- (a) steps -> wire form ---- *)
Lemma fl_opt_u8 k o : prop_type k = Some TByte -> fl (opt_u8_prop k o) (items_bytes (oi_num k o)).
Proof. intros E. destruct o; cbn; [|apply fl_nil]. unfold item_bytes. cbn [fst snd]. rewrite E. reflexivity. Qed.
Lemma fl_opt_bool k o : prop_type k = Some TByte -> fl (opt_bool_prop k o) (items_bytes (oi_bool k o)).
Proof. intros E. destruct o; cbn; [|apply fl_nil]. unfold item_bytes. cbn [fst snd]. rewrite E. reflexivity. Qed.
Lemma fl_opt_u16 k o : prop_type k = Some TU16 -> fl (opt_u16_prop k o) (items_bytes (oi_num k o)).
Proof. intros E. destruct o; cbn; [|apply fl_nil]. unfold item_bytes. cbn [fst snd]. rewrite E. reflexivity. Qed.
Lemma fl_opt_u32 k o : prop_type k = Some TU32 -> fl (opt_u32_prop k o) (items_bytes (oi_num k o)).
Proof. intros E. destruct o; cbn; [|apply fl_nil]. unfold item_bytes. cbn [fst snd]. rewrite E. reflexivity. Qed.
Lemma fl_opt_data k o : prop_type k = Some TStr \/ prop_type k = Some TBin ->
  fl (opt_data_prop k o) (items_bytes (oi_data k o)).
Proof.
  intros E. destruct o as [s|]; cbn [opt_data_prop oi_data items_bytes flat_map]; [|apply fl_nil].
  unfold item_bytes. cbn [fst snd]. rewrite app_nil_r.
  destruct E as [-> | ->]; cbn [val_bytes];
    apply (fl_app [SU8 k] [SU16 _; SBytes s] [k]); try apply fl_u8;
    apply (fl_app [SU16 _] [SBytes s]); [apply fl_u16 | apply fl_bytes | apply fl_u16 | apply fl_bytes].
Qed.

Lemma fl_up1 p : fl (up_steps1 p) (item_bytes (up_item p)).
Proof.
  unfold up_steps1, up_item, item_bytes. cbn [fst snd prop_type val_bytes K_USER_PROPERTY].
  apply (fl_app [SU8 38] _ [38]); [apply fl_u8|].
  apply (fl_app [SU16 _] _); [apply fl_u16|].
  apply (fl_app [SBytes _] _); [apply fl_bytes|].
  apply (fl_app [SU16 _] [SBytes _]); [apply fl_u16 | apply fl_bytes].
Qed.

Lemma fl_ups o : fl (up_steps o) (items_bytes (up_items o)).
Proof.
  destruct o as [l|]; [|apply fl_nil]. cbn [up_steps up_items].
  induction l as [|p l IH]; [apply fl_nil|].
  cbn [flat_map map items_bytes]. apply fl_app; [apply fl_up1 | exact IH].
Qed.

(* ---- (b) sizes ---- *)
Lemma len_items_num k o t n :
  prop_type k = Some t -> (forall x, len (val_bytes t (VNum x)) = n) -> len (items_bytes (oi_num k o)) = fsz (1 + n) o.
Proof.
  intros E H. destruct o as [x|]; [|reflexivity]. cbn [oi_num items_bytes flat_map fsz]. rewrite app_nil_r.
  unfold item_bytes. cbn [fst snd]. rewrite E, len_cons, H. reflexivity.
Qed.
Lemma len_items_byte k o : prop_type k = Some TByte -> len (items_bytes (oi_num k o)) = fsz 2 o.
Proof. intros E. apply (len_items_num k o TByte 1 E). reflexivity. Qed.
Lemma len_items_bool k o : prop_type k = Some TByte -> len (items_bytes (oi_bool k o)) = fsz 2 o.
Proof. intros E. unfold oi_bool. rewrite (len_items_byte _ _ E). destruct o; reflexivity. Qed.
Lemma len_items_u16 k o : prop_type k = Some TU16 -> len (items_bytes (oi_num k o)) = fsz 3 o.
Proof. intros E. apply (len_items_num k o TU16 2 E). reflexivity. Qed.
Lemma len_items_u32 k o : prop_type k = Some TU32 -> len (items_bytes (oi_num k o)) = fsz 5 o.
Proof. intros E. apply (len_items_num k o TU32 4 E). reflexivity. Qed.
Lemma len_items_data k o : prop_type k = Some TStr \/ prop_type k = Some TBin ->
  len (items_bytes (oi_data k o)) = dsz o.
Proof.
  intros E. destruct o as [s|]; [|reflexivity]. cbn [oi_data items_bytes flat_map dsz]. rewrite app_nil_r.
  unfold item_bytes. cbn [fst snd]. destruct E as [-> | ->]; cbn [val_bytes]; rewrite len_cons, len_app, len_be16; lia.
Qed.
Lemma len_items_ups o : len (items_bytes (up_items o)) = oupsz o.
Proof.
  destruct o as [l|]; [|reflexivity]. cbn [up_items oupsz].
  induction l as [|p l IH]; [reflexivity|].
  cbn [map items_bytes flat_map upsz]. fold (items_bytes (map up_item l)). rewrite len_app, IH.
  unfold item_bytes, up_item. cbn [fst snd prop_type val_bytes]. rewrite len_cons, !len_app, !len_be16. lia.
Qed.

Lemma up_length_oupsz o : up_length o = oupsz o.
Proof.
  destruct o as [l|]; [|reflexivity]. cbn [up_length oupsz].
  induction l as [|p l IH]; [reflexivity|]. cbn [up_sum upsz]. rewrite len_cons. lia.
Qed.
Lemma opt_fixed_len_fsz {A} n (o : option A) : opt_fixed_len n o = fsz n o.
Proof. reflexivity. Qed.
Lemma opt_data_prop_len_dsz o : opt_data_prop_len o = dsz o.
Proof. reflexivity. Qed.

(* ---- well-formedness of the item lists ---- *)
Lemma wf_oi_num k o (f : N -> bool) :
  opt_ok f o = true -> (forall x, f x = true -> item_wf (k, VNum x) = true) -> forallb item_wf (oi_num k o) = true.
Proof. intros H1 H2. destruct o as [x|]; [|reflexivity]. cbn [oi_num forallb]. rewrite (H2 x H1). reflexivity. Qed.
Lemma wf_oi_bool k o : prop_type k = Some TByte -> k <? 128 = true -> (k =? 1) || (k =? 23) || (k =? 25) = true ->
  forallb item_wf (oi_bool k o) = true.
Proof.
  intros E Hk Hb. destruct o as [b|]; [|reflexivity]. cbn [oi_bool oi_num option_map forallb].
  unfold item_wf. cbn [fst snd]. rewrite E, Hk. unfold value_ok. rewrite Hb. destruct b; reflexivity.
Qed.
Lemma wf_oi_data k o (f : bytes -> bool) :
  opt_ok f o = true -> (forall x, f x = true -> item_wf (k, VData x) = true) -> forallb item_wf (oi_data k o) = true.
Proof. intros H1 H2. destruct o as [x|]; [|reflexivity]. cbn [oi_data forallb]. rewrite (H2 x H1). reflexivity. Qed.
Lemma wf_up_items o : ups_valid o = true -> forallb item_wf (up_items o) = true.
Proof.
  destruct o as [l|]; [|reflexivity]. cbn [ups_valid opt_ok up_items].
  induction l as [|p l IH]; [reflexivity|]. cbn [forallb map]. intros H. apply andb_true_iff in H as [H1 H2].
  rewrite (IH H2), andb_true_r. unfold item_wf, up_item. cbn [fst snd prop_type val_wf value_ok]. change (38 <? 128) with true. cbn [andb]. rewrite andb_true_r. exact H1.
Qed.

(* ---- (c) what the decoder reads back from such a list ---- *)
Lemma get_num_app k a b : get_num k (a ++ b) = match get_num k a with Some n => Some n | None => get_num k b end.
Proof.
  induction a as [|[k' v] a IH]; [reflexivity|]. cbn [app get_num]. destruct v; try exact IH.
  destruct (k' =? k); [reflexivity | exact IH].
Qed.
Lemma get_data_app k a b : get_data k (a ++ b) = match get_data k a with Some n => Some n | None => get_data k b end.
Proof.
  induction a as [|[k' v] a IH]; [reflexivity|]. cbn [app get_data]. destruct v; try exact IH.
  destruct (k' =? k); [reflexivity | exact IH].
Qed.
Lemma get_pairs_app a b : get_pairs (a ++ b) = get_pairs a ++ get_pairs b.
Proof.
  induction a as [|[k' v] a IH]; [reflexivity|]. cbn [app get_pairs]. destruct v; try exact IH.
  cbn [app]. f_equal. exact IH.
Qed.
Lemma count_key_app k a b : count_key k (a ++ b) = count_key k a + count_key k b.
Proof. induction a as [|[k' v] a IH]; [reflexivity|]. cbn [app count_key]. rewrite IH. lia. Qed.

Lemma get_num_oi_num k k' o : get_num k (oi_num k' o) = if k' =? k then o else None.
Proof. destruct o; cbn; destruct (k' =? k); reflexivity. Qed.
Lemma get_num_oi_data k k' o : get_num k (oi_data k' o) = None.
Proof. destruct o; reflexivity. Qed.
Lemma get_num_ups k o : get_num k (up_items o) = None.
Proof. destruct o as [l|]; [|reflexivity]. cbn [up_items]. induction l; [reflexivity | exact IHl]. Qed.
Lemma get_data_oi_data k k' o : get_data k (oi_data k' o) = if k' =? k then o else None.
Proof. destruct o; cbn; destruct (k' =? k); reflexivity. Qed.
Lemma get_data_oi_num k k' o : get_data k (oi_num k' o) = None.
Proof. destruct o; reflexivity. Qed.
Lemma get_data_ups k o : get_data k (up_items o) = None.
Proof. destruct o as [l|]; [|reflexivity]. cbn [up_items]. induction l; [reflexivity | exact IHl]. Qed.
Lemma get_pairs_oi_num k o : get_pairs (oi_num k o) = [].
Proof. destruct o; reflexivity. Qed.
Lemma get_pairs_oi_data k o : get_pairs (oi_data k o) = [].
Proof. destruct o; reflexivity. Qed.
Lemma get_pairs_ups o : get_pairs (up_items o) = match o with Some l => l | None => [] end.
Proof.
  destruct o as [l|]; [|reflexivity]. cbn [up_items]. induction l as [|p l IH]; [reflexivity|].
  cbn [map get_pairs up_item]. rewrite IH. destruct p; reflexivity.
Qed.
Lemma count_oi_num k k' o : count_key k (oi_num k' o) = if k' =? k then fsz 1 o else 0.
Proof. destruct o; cbn [oi_num count_key fsz]; destruct (k' =? k); reflexivity. Qed.
Lemma count_oi_data k k' o : count_key k (oi_data k' o) = if k' =? k then fsz 1 o else 0.
Proof. destruct o; cbn [oi_data count_key fsz]; destruct (k' =? k); reflexivity. Qed.
Lemma count_ups k o : (38 =? k) = false -> count_key k (up_items o) = 0.
Proof.
  intros E. destruct o as [l|]; [|reflexivity]. cbn [up_items]. induction l as [|p l IH]; [reflexivity|].
  cbn [map count_key up_item]. rewrite E, IH. reflexivity.
Qed.
Lemma fsz1_le {A} (o : option A) : fsz 1 o <= 1.
Proof. destruct o; cbn; lia. Qed.

Lemma allowed_oi_num allowed k o : mem k allowed = true -> forallb (fun it : item => mem (fst it) allowed) (oi_num k o) = true.
Proof. intros H. destruct o; cbn; [rewrite H|]; reflexivity. Qed.
Lemma allowed_oi_data allowed k o : mem k allowed = true -> forallb (fun it : item => mem (fst it) allowed) (oi_data k o) = true.
Proof. intros H. destruct o; cbn; [rewrite H|]; reflexivity. Qed.
Lemma allowed_ups allowed o : mem 38 allowed = true -> forallb (fun it : item => mem (fst it) allowed) (up_items o) = true.
Proof.
  intros H. destruct o as [l|]; [|reflexivity]. cbn [up_items]. induction l as [|p l IH]; [reflexivity|].
  cbn [map forallb up_item fst]. rewrite H, IH. reflexivity.
Qed.

Lemma get_ups_up_items o rest :
  get_pairs rest = [] -> get_ups (up_items o ++ rest) = norm_up o.
Proof.
  intros H. unfold get_ups. rewrite get_pairs_app, get_pairs_ups, H, app_nil_r.
  destruct o as [[|p l]|]; reflexivity.
Qed.

Lemma opt_match_id {A} (o : option A) : match o with Some n => Some n | None => None end = o.
Proof. destruct o; reflexivity. Qed.
