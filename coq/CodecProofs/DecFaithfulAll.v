(* C03 faithfulness, part 5: every server-to-client packet at the level of decode_packet; the
   executable order check of the specification encoder implies the relational one; whole
   frames through the framing decoder. *)
From GM Require Import Base.Prelude Base.Outcome Codec.Packets Codec.Prim Codec.ReasonCodes
  Codec.ImplDecode Codec.Framing Codec.SpecEncodeS2C.
From GM Require Import CodecProofs.DecPrim CodecProofs.FramingP CodecProofs.DecFaithful CodecProofs.DecReasonCodes
  CodecProofs.DecFaithfulAck CodecProofs.DecFaithfulDisc CodecProofs.DecFaithfulConn.
Open Scope N_scope.

Ltac div_compute :=
  repeat match goal with
         | |- context [N.div (Npos ?a) (Npos ?b)] =>
           let r := eval vm_compute in (N.div (Npos a) (Npos b)) in change (N.div (Npos a) (Npos b)) with r
         end.
Ltac dispatch := unfold impl_decode_packet, decode_packet5, decode_packet311; div_compute; eqb_compute; cbn iota.

Lemma ack5_case : forall fbx pt impl_ok spec_ok a its compact fb body,
  (forall b, b < 256 -> impl_ok b = spec_ok b) ->
  pt = 4 \/ pt = 5 \/ pt = 6 \/ pt = 7 ->
  legal_ack V5 spec_ok a = true -> same_per_id (items_ack a) its ->
  (if items_allowed pt its then let? b := ack_body (ack_pid a) (ack_rc a) its compact in Some (fbx, b) else None) = Some (fb, body) ->
  fb = fbx /\ decode_ack5 fbx impl_ok fbx body = Ok a.
Proof.
  intros fbx pt impl_ok spec_ok a its compact fb body Htab Hpt Hleg Hs Hb.
  rewrite (items_allowed_rsup pt its) in Hb by tauto.
  destruct (items_allowed 4 its) eqn:Hal; [|discriminate].
  destruct (ack_body _ _ _ _) as [b|] eqn:Ab; [|discriminate]. inversion Hb; subst. split; [reflexivity|].
  cbn [legal_ack] in Hleg. apply andb_true_iff in Hleg. destruct Hleg as [Hrc Hup].
  eapply decode_ack5_faithful; eauto.
Qed.

Lemma ack311_case : forall fbx spec_ok a fb body,
  legal_ack V311 spec_ok a = true ->
  (let? b := w_u16 (ack_pid a) in Some (fbx, b)) = Some (fb, body) ->
  fb = fbx /\ decode_ack311 fbx fbx body = Ok a.
Proof.
  intros fbx spec_ok a fb body Hleg Hb.
  destruct (w_u16 (ack_pid a)) as [b|] eqn:W; [|discriminate]. inversion Hb; subst. split; [reflexivity|].
  cbn [legal_ack] in Hleg. repeat (apply andb_true_iff in Hleg; destruct Hleg as [Hleg ?]).
  apply N.eqb_eq in Hleg. destruct (ack_reason a) eqn:?, (ack_up a) eqn:?; try discriminate.
  apply decode_ack311_faithful; auto.
Qed.

Theorem faithful_packet : forall v p its compact fb body,
  legal_packet v p = true ->
  same_per_id (items_of p) its ->
  spec_body v p its compact = Some (fb, body) ->
  impl_decode_packet v fb body = Ok p.
Proof.
  intros v p its compact fb body Hleg Hs Hb.
  destruct p; cbn [legal_packet] in Hleg; try discriminate Hleg; destruct v; cbn [items_of] in Hs.
  - (* CONNACK 5 *) pose proof (decode_connack5_faithful _ _ _ _ _ Hleg Hs Hb) as H.
    cbn [spec_body] in Hb. destruct (items_allowed 2 its); [|discriminate]. destruct (w_u8 _); [|discriminate].
    destruct (print_properties its); [|discriminate]. inversion Hb; subst. dispatch. exact H.
  - pose proof (decode_connack311_faithful _ _ _ _ _ Hleg Hb) as H.
    cbn [spec_body] in Hb. destruct (spec_connack311_of_v5 _); [|discriminate]. inversion Hb; subst. dispatch. exact H.
  - (* PUBLISH *) destruct (decode_publish5_faithful _ _ _ _ _ Hleg Hs Hb) as [H Hd].
    unfold impl_decode_packet, decode_packet5. rewrite Hd. eqb_compute. cbn iota. exact H.
  - destruct (decode_publish311_faithful _ _ _ _ _ Hleg Hb) as [H Hd].
    unfold impl_decode_packet, decode_packet311. rewrite Hd. eqb_compute. cbn iota. exact H.
  - (* PUBACK *) cbn [spec_body] in Hb.
    destruct (ack5_case 64 4 impl_puback_code_ok _ _ _ _ _ _ reason_codes_puback ltac:(tauto) Hleg Hs Hb) as [-> H].
    dispatch. unfold omap. rewrite H. reflexivity.
  - cbn [spec_body] in Hb. destruct (ack311_case 64 _ _ _ _ Hleg Hb) as [-> H]. dispatch. unfold omap. rewrite H. reflexivity.
  - (* PUBREC *) cbn [spec_body] in Hb.
    destruct (ack5_case 80 5 impl_pubrec_code_ok _ _ _ _ _ _ reason_codes_pubrec ltac:(tauto) Hleg Hs Hb) as [-> H].
    dispatch. unfold omap. rewrite H. reflexivity.
  - cbn [spec_body] in Hb. destruct (ack311_case 80 _ _ _ _ Hleg Hb) as [-> H]. dispatch. unfold omap. rewrite H. reflexivity.
  - (* PUBREL *) cbn [spec_body] in Hb.
    destruct (ack5_case 98 6 impl_pubrel_code_ok _ _ _ _ _ _ reason_codes_pubrel ltac:(tauto) Hleg Hs Hb) as [-> H].
    dispatch. unfold omap. rewrite H. reflexivity.
  - cbn [spec_body] in Hb. destruct (ack311_case 98 _ _ _ _ Hleg Hb) as [-> H]. dispatch. unfold omap. rewrite H. reflexivity.
  - (* PUBCOMP *) cbn [spec_body] in Hb.
    destruct (ack5_case 112 7 impl_pubcomp_code_ok _ _ _ _ _ _ reason_codes_pubcomp ltac:(tauto) Hleg Hs Hb) as [-> H].
    dispatch. unfold omap. rewrite H. reflexivity.
  - cbn [spec_body] in Hb. destruct (ack311_case 112 _ _ _ _ Hleg Hb) as [-> H]. dispatch. unfold omap. rewrite H. reflexivity.
  - (* SUBACK *) pose proof (decode_suback5_faithful _ _ _ _ _ Hleg Hs Hb) as H.
    cbn [spec_body] in Hb. destruct (items_allowed 9 its); [|discriminate]. destruct (w_u16 _); [|discriminate].
    destruct (print_properties its); [|discriminate]. destruct (w_codes _); [|discriminate]. inversion Hb; subst. dispatch. exact H.
  - pose proof (decode_suback311_faithful _ _ _ _ _ Hleg Hb) as H.
    cbn [spec_body] in Hb. destruct (w_u16 _); [|discriminate]. destruct (w_codes _); [|discriminate]. inversion Hb; subst. dispatch. exact H.
  - (* UNSUBACK *) pose proof (decode_unsuback5_faithful _ _ _ _ _ Hleg Hs Hb) as H.
    cbn [spec_body] in Hb. destruct (items_allowed 11 its); [|discriminate]. destruct (w_u16 _); [|discriminate].
    destruct (print_properties its); [|discriminate]. destruct (w_codes _); [|discriminate]. inversion Hb; subst. dispatch. exact H.
  - pose proof (decode_unsuback311_faithful _ _ _ _ _ Hleg Hb) as H.
    cbn [spec_body] in Hb. destruct (w_u16 _); [|discriminate]. inversion Hb; subst. dispatch. exact H.
  - (* PINGRESP *) eapply decode_pingresp_faithful; eauto.
  - eapply decode_pingresp_faithful; eauto.
  - (* DISCONNECT *) pose proof (decode_disconnect5_faithful _ _ _ _ _ Hleg Hs Hb) as H.
    cbn [spec_body] in Hb. destruct (items_allowed 14 its); [|discriminate]. destruct (disconnect_body _ _ _); [|discriminate].
    inversion Hb; subst. dispatch. exact H.
  - pose proof (decode_disconnect311_faithful _ _ _ _ _ Hleg Hb) as H.
    cbn [spec_body] in Hb. inversion Hb; subst. dispatch. exact H.
  - (* AUTH *) pose proof (decode_auth5_faithful _ _ _ _ _ Hleg Hs Hb) as H.
    cbn [spec_body] in Hb. destruct (items_allowed 15 its); [|discriminate]. destruct (auth_body _ _ _); [|discriminate].
    inversion Hb; subst. dispatch. exact H.
  - discriminate Hleg.
Qed.

(* ---- the executable order check implies the relational one ---- *)
Lemma bytes_eqb_eq a b : bytes_eqb a b = true -> a = b.
Proof.
  revert b. induction a as [|x a IH]; intros [|y b]; cbn [bytes_eqb]; try discriminate; [reflexivity|].
  intros H. apply andb_true_iff in H. destruct H as [H1 H2]. apply N.eqb_eq in H1. f_equal; auto.
Qed.
Lemma pvalue_eqb_eq a b : pvalue_eqb a b = true -> a = b.
Proof.
  destruct a, b; cbn [pvalue_eqb]; try discriminate; intros H;
    try (apply N.eqb_eq in H; subst; reflexivity); try (apply bytes_eqb_eq in H; subst; reflexivity).
  apply andb_true_iff in H. destruct H as [H1 H2]. apply bytes_eqb_eq in H1, H2. subst. reflexivity.
Qed.
Lemma pitems_eqb_eq a b : pitems_eqb a b = true -> a = b.
Proof.
  revert b. induction a as [|[k v] a IH]; intros [|[k' v'] b]; cbn [pitems_eqb]; try discriminate; [reflexivity|].
  intros H. apply andb_true_iff in H. destruct H as [H1 H2]. unfold pitem_eqb in H1. cbn [fst snd] in H1.
  apply andb_true_iff in H1. destruct H1 as [Hk Hv]. apply N.eqb_eq in Hk. apply pvalue_eqb_eq in Hv. subst. f_equal. auto.
Qed.

Lemma with_id_absent k its : forallb (fun it => id_mem (fst it) all_ids) its = true -> id_mem k all_ids = false -> with_id k its = [].
Proof.
  induction its as [|[k' v] r IH]; [reflexivity|]. cbn [forallb fst with_id filter]. intros H Hk.
  apply andb_true_iff in H. destruct H as [H1 H2].
  destruct (N.eqb_spec k' k) as [->|]; [congruence|]. apply IH; assumption.
Qed.

Lemma same_per_id_b_sound a b : same_per_id_b a b = true -> same_per_id a b.
Proof.
  unfold same_per_id_b. intros H. apply andb_true_iff in H. destruct H as [H Hb]. apply andb_true_iff in H. destruct H as [H Ha].
  intros k. destruct (id_mem k all_ids) eqn:M.
  - unfold id_mem in M. apply existsb_exists in M. destruct M as [k' [Hin Hk]]. apply N.eqb_eq in Hk. subst k'.
    rewrite forallb_forall in H. apply pitems_eqb_eq. apply H. exact Hin.
  - rewrite (with_id_absent k a Ha M), (with_id_absent k b Hb M). reflexivity.
Qed.

Lemma reorder_sound its order its' : reorder its order = Some its' -> same_per_id its its'.
Proof.
  unfold reorder. destruct (pick_items its order) as [l|]; [|discriminate].
  destruct (same_per_id_b its l) eqn:E; [|discriminate]. intros H; inversion H; subst. apply same_per_id_b_sound. exact E.
Qed.

(* ---- what the reference encoder emits is decoded, through the framing decoder, to exactly the packet ---- *)
Theorem faithful_stream : forall v p order compact bs rest max_size,
  spec_encode_with v p order compact = Some bs ->
  len bs <= effective_max max_size ->
  decode_bytes v max_size decoder_init (bs ++ rest) =
  (let '(d2, ps, r) := decode_bytes v max_size decoder_init rest in (d2, p :: ps, r)).
Proof.
  intros v p order compact bs rest max_size He Hmax.
  unfold spec_encode_with in He. destruct (reorder (items_of p) order) as [its|] eqn:R; [|discriminate].
  apply reorder_sound in R. unfold spec_encode_items in He.
  destruct (legal_packet v p) eqn:Hleg; [|discriminate].
  destruct (spec_body v p its compact) as [[fb body]|] eqn:Hb; [|discriminate]. cbn [fst snd] in He.
  pose proof (faithful_packet v p its compact fb body Hleg R Hb) as Hd.
  unfold decode_bytes.
  apply (frame_decodes (impl_decode_packet v) max_size fb body bs p rest decoder_init He Hd eq_refl eq_refl).
  destruct (frame_inv _ _ _ He) as [l [Hl ->]]. rewrite len_cons, len_app in *. lia.
Qed.
