(* C03 faithfulness, part 1: what the specification's printers (the w_ functions of SpecEncodeS2C) write is read
   back by the implementation's primitive decoders; the generic theorem about property
   sections in ANY legal order; framing of one packet. *)
From GM Require Import Base.Prelude Base.Outcome Codec.Packets Codec.Prim Codec.ReasonCodes
  Codec.ImplDecode Codec.Framing Codec.SpecEncodeS2C.
From GM Require Import CodecProofs.DecPrim CodecProofs.FramingP.
Open Scope N_scope.

(* ---- inversion of the printers ---- *)
Lemma w_u8_inv n bs : w_u8 n = Some bs -> n < 256 /\ bs = [n].
Proof. unfold w_u8. destruct (n <? 256) eqn:E; [|discriminate]. intros H; inversion H. split; [lia | reflexivity]. Qed.
Lemma w_u16_inv n bs : w_u16 n = Some bs -> n < 65536 /\ bs = [n / 256; n mod 256].
Proof. unfold w_u16. destruct (n <? 65536) eqn:E; [|discriminate]. intros H; inversion H. split; [lia | reflexivity]. Qed.
Lemma w_u32_inv n bs : w_u32 n = Some bs ->
  n < 4294967296 /\ bs = [n / 16777216; (n / 65536) mod 256; (n / 256) mod 256; n mod 256].
Proof. unfold w_u32. destruct (n <? 4294967296) eqn:E; [|discriminate]. intros H; inversion H. split; [lia | reflexivity]. Qed.

Lemma take_all_app (s rest : bytes) : take (len s) (s ++ rest) = s.
Proof. unfold take, len. rewrite Nat2N.id. rewrite firstn_app, Nat.sub_diag, firstn_all. cbn. apply app_nil_r. Qed.
Lemma drop_all_app (s rest : bytes) : drop (len s) (s ++ rest) = rest.
Proof. unfold drop, len. rewrite Nat2N.id. rewrite skipn_app, Nat.sub_diag, skipn_all. reflexivity. Qed.

(* ---- integers ---- *)
Lemma dec_u16_w n bs rest : w_u16 n = Some bs -> decode_u16 (bs ++ rest) = Ok (n, rest).
Proof.
  intros H. apply w_u16_inv in H. destruct H as [Hn ->]. rewrite decode_u16_spec. cbn [app].
  f_equal. f_equal. lia.
Qed.
Lemma dec_opt_u16_w n bs rest : w_u16 n = Some bs -> decode_optional_u16 (bs ++ rest) None = Ok (Some n, rest).
Proof.
  intros H. apply w_u16_inv in H. destruct H as [Hn ->]. rewrite decode_optional_u16_spec. cbn [app].
  f_equal. f_equal. f_equal. lia.
Qed.
Lemma dec_opt_u32_w n bs rest : w_u32 n = Some bs -> decode_optional_u32 (bs ++ rest) None = Ok (Some n, rest).
Proof.
  intros H. apply w_u32_inv in H. destruct H as [Hn ->]. rewrite decode_optional_u32_spec. cbn [app].
  f_equal. f_equal. f_equal.
  assert (E1 : n / 65536 = n / 16777216 * 256 + (n / 65536) mod 256).
  { replace 16777216 with (65536 * 256) by reflexivity. rewrite <- N.div_div by lia.
    pose proof (N.div_mod' (n / 65536) 256). lia. }
  assert (E2 : n / 256 = n / 65536 * 256 + (n / 256) mod 256).
  { replace 65536 with (256 * 256) by reflexivity. rewrite <- N.div_div by lia.
    pose proof (N.div_mod' (n / 256) 256). lia. }
  pose proof (N.div_mod' n 256). lia.
Qed.
Lemma dec_u8_enum_w n bs rest conv v :
  w_u8 n = Some bs -> conv n = Ok v -> decode_u8_as_enum (bs ++ rest) conv = Ok (v, rest).
Proof.
  intros H Hc. apply w_u8_inv in H. destruct H as [Hn ->]. rewrite decode_u8_as_enum_spec. cbn [app].
  rewrite Hc. reflexivity.
Qed.
Lemma dec_opt_u8_enum_w n bs rest conv v :
  w_u8 n = Some bs -> conv n = Ok v -> decode_optional_u8_as_enum (bs ++ rest) None conv = Ok (Some v, rest).
Proof.
  intros H Hc. apply w_u8_inv in H. destruct H as [Hn ->]. rewrite decode_optional_u8_as_enum_spec. cbn [app].
  rewrite Hc. reflexivity.
Qed.
Lemma dec_opt_bool_w b rest :
  decode_optional_u8_as_bool (bool_byte b :: rest) None = Ok (Some b, rest).
Proof. rewrite decode_optional_u8_as_bool_spec. destruct b; reflexivity. Qed.

(* ---- Variable Byte Integer ---- *)
Lemma dec_vli_w x bs rest : w_vbi x = Some bs -> decode_vli (bs ++ rest) = VliValue x rest.
Proof.
  unfold w_vbi. destruct (x <=? 268435455) eqn:E; [|discriminate]. intros H; inversion H; subst; clear H.
  unfold decode_vli. cbn [w_vbi_digits].
  destruct (x / 128 =? 0) eqn:E1.
  { cbn [app decode_vli_aux]. replace (x mod 128 <? 128) with true by lia. f_equal. lia. }
  destruct (x / 128 / 128 =? 0) eqn:E2.
  { cbn [app decode_vli_aux]. replace (x mod 128 + 128 <? 128) with false by lia.
    replace (x / 128 mod 128 <? 128) with true by lia. f_equal. lia. }
  destruct (x / 128 / 128 / 128 =? 0) eqn:E3.
  { cbn [app decode_vli_aux]. replace (x mod 128 + 128 <? 128) with false by lia.
    replace (x / 128 mod 128 + 128 <? 128) with false by lia.
    replace (x / 128 / 128 mod 128 <? 128) with true by lia. f_equal. lia. }
  assert (E4 : x / 128 / 128 / 128 / 128 = 0) by lia. rewrite E4. cbn [N.eqb].
  replace (0 =? 0) with true by reflexivity.
  cbn [app decode_vli_aux]. replace (x mod 128 + 128 <? 128) with false by lia.
  replace (x / 128 mod 128 + 128 <? 128) with false by lia.
  replace (x / 128 / 128 mod 128 + 128 <? 128) with false by lia.
  replace (x / 128 / 128 / 128 mod 128 <? 128) with true by lia. f_equal. lia.
Qed.

Lemma dec_vli_mut_w x bs rest : w_vbi x = Some bs -> decode_vli_into_mutable (bs ++ rest) = Ok (x, rest).
Proof. intros H. unfold decode_vli_into_mutable. rewrite (dec_vli_w _ _ _ H). reflexivity. Qed.

(* the shape of a printed Variable Byte Integer: continuation bytes then one final byte, at most 4 *)
Lemma w_vbi_shape x bs : w_vbi x = Some bs ->
  exists cont last, bs = cont ++ [last] /\ Forall (fun b => 128 <= b) cont /\ (length cont <= 3)%nat /\ last < 128.
Proof.
  unfold w_vbi. destruct (x <=? 268435455) eqn:E; [|discriminate]. intros H; inversion H; subst; clear H.
  cbn [w_vbi_digits].
  destruct (x / 128 =? 0) eqn:E1.
  { exists [], (x mod 128). repeat split; [constructor | cbn; lia | lia]. }
  destruct (x / 128 / 128 =? 0) eqn:E2.
  { exists [x mod 128 + 128], (x / 128 mod 128). repeat split; [repeat constructor; lia | cbn; lia | lia]. }
  destruct (x / 128 / 128 / 128 =? 0) eqn:E3.
  { exists [x mod 128 + 128; x / 128 mod 128 + 128], (x / 128 / 128 mod 128).
    repeat split; [repeat constructor; lia | cbn; lia | lia]. }
  assert (E4 : x / 128 / 128 / 128 / 128 = 0) by lia. rewrite E4. replace (0 =? 0) with true by reflexivity.
  exists [x mod 128 + 128; x / 128 mod 128 + 128; x / 128 / 128 mod 128 + 128], (x / 128 / 128 / 128 mod 128).
  repeat split; [repeat constructor; lia | cbn; lia | lia].
Qed.

(* ---- strings and binary data ---- *)
Lemma w_string_inv s bs : w_string s = Some bs ->
  string_ok s = true /\ bs = [len s / 256; len s mod 256] ++ s.
Proof.
  unfold w_string. destruct (string_ok s) eqn:E; [|discriminate].
  destruct (w_u16 (len s)) eqn:W; [|discriminate]. apply w_u16_inv in W. destruct W as [_ ->].
  intros H; inversion H. split; reflexivity.
Qed.
Lemma str_contains_nul_no_null s : str_contains_nul s = negb (no_null s).
Proof.
  unfold str_contains_nul, no_null. induction s as [|x t IH]; [reflexivity|].
  cbn [existsb forallb]. rewrite IH. destruct (x =? 0); reflexivity.
Qed.
Definition str_clean (s : bytes) : bool := utf8_ok s && negb (str_contains_nul s).
Lemma string_ok_parts s : string_ok s = true -> len s < 65536 /\ str_clean s = true.
Proof.
  unfold string_ok, str_clean. rewrite str_contains_nul_no_null, negb_involutive. intros H.
  apply andb_true_iff in H. destruct H as [H Hn]. apply andb_true_iff in H. destruct H as [H Hu].
  rewrite Hu, Hn. split; [lia | reflexivity].
Qed.

Lemma lp_tail_app c s rest : (c = true -> str_clean s = true) -> lp_tail c (len s) (s ++ rest) = Ok (s, rest).
Proof.
  intros H. unfold lp_tail. rewrite len_app. replace (len s + len rest <? len s) with false by lia.
  rewrite take_all_app, drop_all_app. destruct c; [|reflexivity].
  specialize (H eq_refl). unfold str_clean in H. apply andb_true_iff in H. destruct H as [Hu Hn].
  rewrite Hu. destruct (str_contains_nul s); [discriminate|]. reflexivity.
Qed.

Lemma dec_string_w s bs rest : w_string s = Some bs -> decode_length_prefixed_string (bs ++ rest) = Ok (s, rest).
Proof.
  intros H. apply w_string_inv in H. destruct H as [Hok ->]. apply string_ok_parts in Hok. destruct Hok as [Hl Hu].
  rewrite decode_length_prefixed_string_spec. cbn [app].
  replace (len s / 256 * 256 + len s mod 256) with (len s) by lia.
  apply lp_tail_app. intros _. exact Hu.
Qed.
Lemma dec_opt_string_w s bs rest : w_string s = Some bs ->
  decode_optional_length_prefixed_string (bs ++ rest) None = Ok (Some s, rest).
Proof.
  intros H. apply w_string_inv in H. destruct H as [Hok ->]. apply string_ok_parts in Hok. destruct Hok as [Hl Hu].
  rewrite decode_optional_length_prefixed_string_spec. cbn [app].
  replace (len s / 256 * 256 + len s mod 256) with (len s) by lia.
  rewrite lp_tail_app by (intros _; exact Hu). reflexivity.
Qed.
Lemma dec_opt_binary_w s bs rest : w_binary s = Some bs ->
  decode_optional_length_prefixed_bytes (bs ++ rest) None = Ok (Some s, rest).
Proof.
  unfold w_binary. destruct (binary_ok s) eqn:E; [|discriminate].
  destruct (w_u16 (len s)) eqn:W; [|discriminate]. apply w_u16_inv in W. destruct W as [Hl ->].
  intros H; inversion H; subst; clear H.
  rewrite decode_optional_length_prefixed_bytes_spec. cbn [app].
  replace (len s / 256 * 256 + len s mod 256) with (len s) by lia.
  rewrite lp_tail_app by discriminate. reflexivity.
Qed.
Lemma dec_user_property_w k v kb vb rest props :
  w_string k = Some kb -> w_string v = Some vb ->
  decode_user_property ((kb ++ vb) ++ rest) props =
  Ok (Some (match props with None => [] | Some l => l end ++ [{| up_name := k; up_value := v |}]), rest).
Proof.
  intros Hk Hv. unfold decode_user_property. rewrite <- app_assoc.
  rewrite (dec_string_w _ _ _ Hk). cbn [obind]. rewrite (dec_string_w _ _ _ Hv). reflexivity.
Qed.

(* ---- items ---- *)
Lemma with_id_app k a b : with_id k (a ++ b) = with_id k a ++ with_id k b.
Proof. unfold with_id. apply filter_app. Qed.
Lemma with_id_opt_item {A} k id (f : A -> pvalue) o :
  with_id k (opt_item id f o) = if id =? k then opt_item id f o else [].
Proof. destruct o; cbn [opt_item with_id filter fst]; destruct (id =? k); reflexivity. Qed.
Lemma with_id_up_items k o : with_id k (up_items o) = if 38 =? k then up_items o else [].
Proof.
  destruct o as [l|]; cbn [up_items]; [|destruct (38 =? k); reflexivity].
  induction l as [|u l IH]; cbn [map with_id filter fst]; [destruct (38 =? k); reflexivity|].
  unfold with_id in IH. rewrite IH. destruct (38 =? k); reflexivity.
Qed.
Lemma with_id_subid_items k o : with_id k (subid_items o) = if 11 =? k then subid_items o else [].
Proof.
  destruct o as [l|]; cbn [subid_items]; [|destruct (11 =? k); reflexivity].
  induction l as [|u l IH]; cbn [map with_id filter fst]; [destruct (11 =? k); reflexivity|].
  unfold with_id in IH. rewrite IH. destruct (11 =? k); reflexivity.
Qed.

(* every identifier of Table 2-4 is < 128: its Variable Byte Integer form is the byte itself *)
Lemma print_item_inv id v bs : print_item (id, v) = Some bs ->
  exists t vb, prop_wire_type id = Some t /\ wire_type_eqb t (pvalue_type v) = true
               /\ (match v with PByte n => byte_prop_ok id n | _ => true end) = true
               /\ print_value v = Some vb /\ bs = id :: vb /\ id < 128.
Proof.
  unfold print_item. destruct (prop_wire_type id) as [t|] eqn:T; [|discriminate].
  destruct (wire_type_eqb t (pvalue_type v)) eqn:W; [|discriminate].
  destruct (match v with PByte n => byte_prop_ok id n | _ => true end) eqn:B; [|discriminate].
  destruct (print_value v) as [vb|] eqn:P; [|discriminate].
  assert (Hid : id < 128).
  { unfold prop_wire_type, prop_table in T. cbn [lookup] in T.
    repeat match type of T with (if ?c then _ else _) = _ => destruct c eqn:?; [lia|] end. discriminate. }
  unfold w_vbi. replace (id <=? 268435455) with true by lia. cbn [w_vbi_digits].
  replace (id / 128 =? 0) with true by lia. replace (id mod 128) with id by lia.
  intros H; inversion H; subst. exists t, vb. repeat split; auto.
Qed.

(* ---- the generic theorem about a property section ---- *)
Section Properties.
  Context {St H : Type}.
  Variable arm : N -> bytes -> St -> outcome (St * bytes).
  Variable items : St -> list pitem.       (* the property items a state carries (the items_ functions of SpecEncodeS2C) *)
  Variable hdr : St -> H.                  (* everything else *)
  Variable ptype : N.                      (* control packet type, for allowed_props / repeatable *)
  Variable inv : St -> Prop.               (* representation invariant kept by every arm (lists never Some []) *)

  (* what reading one item does: it is appended to the items carrying its identifier, nothing else moves *)
  Definition absorbed (s s' : St) (it : pitem) : Prop :=
    (forall k, with_id k (items s') = with_id k (items s) ++ with_id k [it]) /\ hdr s' = hdr s /\ (inv s -> inv s').

  Hypothesis arm_step : forall id v vb s rest,
    id_mem id (allowed_props ptype) = true ->
    print_item (id, v) = Some (id :: vb) ->
    (repeatable ptype id = true \/ with_id id (items s) = []) ->
    exists s', arm id (vb ++ rest) s = Ok (s', rest) /\ absorbed s s' (id, v).

  Definition at_most_once (s : St) (its : list pitem) : Prop :=
    forall k, repeatable ptype k = false -> (length (with_id k (items s)) + count_id k its <= 1)%nat.

  Lemma count_id_with_id k its : count_id k its = length (with_id k its).
  Proof.
    induction its as [|[k' v] r IH]; [reflexivity|]. cbn [count_id with_id filter fst].
    unfold with_id in IH. rewrite N.eqb_sym. destruct (k' =? k); cbn [length]; rewrite IH; reflexivity.
  Qed.

  Lemma prop_loop_items : forall its bs s fuel,
    print_items its = Some bs ->
    forallb (fun it => id_mem (fst it) (allowed_props ptype)) its = true ->
    at_most_once s its ->
    (length bs <= fuel)%nat ->
    exists s', prop_loop arm fuel bs s = Ok s'
               /\ (forall k, with_id k (items s') = with_id k (items s) ++ with_id k its) /\ hdr s' = hdr s
               /\ (inv s -> inv s').
  Proof.
    induction its as [|[id v] its IH]; intros bs s fuel Hp Ha Hm Hf.
    - cbn in Hp. inversion Hp; subst. exists s. destruct fuel; cbn [prop_loop]; (split; [reflexivity|]);
        (split; [intros k; cbn [with_id filter]; rewrite app_nil_r; reflexivity | split; [reflexivity | auto]]).
    - cbn [print_items] in Hp. destruct (print_item (id, v)) as [ib|] eqn:Pi; [|discriminate].
      destruct (print_items its) as [rb|] eqn:Pr; [|discriminate]. inversion Hp; subst; clear Hp.
      destruct (print_item_inv _ _ _ Pi) as [t [vb [_ [_ [_ [_ [-> _]]]]]]].
      cbn [forallb fst] in Ha. apply andb_true_iff in Ha. destruct Ha as [Ha1 Ha2].
      assert (Hpre : repeatable ptype id = true \/ with_id id (items s) = []).
      { destruct (repeatable ptype id) eqn:R; [left; reflexivity | right].
        specialize (Hm id R). cbn [count_id] in Hm. rewrite N.eqb_refl in Hm.
        destruct (with_id id (items s)); [reflexivity | cbn [length] in Hm; lia]. }
      destruct (arm_step id v vb s rb Ha1 Pi Hpre) as [s1 [Harm [Hab [Hh Hinv1]]]].
      destruct fuel as [|fuel]; [cbn [app length] in Hf; lia|].
      cbn [app prop_loop index0 obind]. unfold slice_from. rewrite len_cons.
      replace (1 <=? 1 + len (vb ++ rb)) with true by lia. change (drop 1 (id :: vb ++ rb)) with (vb ++ rb).
      cbn [obind]. rewrite Harm. cbn [obind].
      destruct (IH rb s1 fuel eq_refl Ha2) as [s' [Hl [Hi [Hh' Hinv2]]]].
      + intros k R. specialize (Hm k R). rewrite (Hab k). rewrite app_length.
        cbn [count_id] in Hm. cbn [with_id filter fst].
        destruct (N.eqb_spec id k) as [->|Hne].
        * rewrite N.eqb_refl in Hm. cbn [length]. lia.
        * replace (k =? id) with false in Hm by lia. cbn [length]. lia.
      + cbn [app length] in Hf. rewrite app_length in Hf. lia.
      + exists s'. split; [exact Hl|]. split; [|split; [congruence | auto]].
        intros k. rewrite (Hi k), (Hab k). rewrite <- app_assoc. f_equal.
        change ((id, v) :: its) with ([(id, v)] ++ its). rewrite with_id_app. reflexivity.
  Qed.

  (* the whole section, read by decode_properties from a state without properties, in any legal order *)
  Theorem properties_any_order : forall its bs s0 p,
    print_items its = Some bs ->
    items_allowed ptype its = true ->
    items s0 = [] ->
    same_per_id (items p) its ->
    hdr p = hdr s0 ->
    exists s', decode_properties arm bs s0 = Ok s'
               /\ (forall k, with_id k (items s') = with_id k (items p)) /\ hdr s' = hdr p /\ (inv s0 -> inv s').
  Proof.
    intros its bs s0 p Hp Hal H0 Hsame Hh.
    unfold items_allowed in Hal. apply andb_true_iff in Hal. destruct Hal as [Ha Hc].
    destruct (prop_loop_items its bs s0 (length bs) Hp Ha) as [s' [Hl [Hi [Hh' Hinv]]]].
    - intros k R. rewrite H0. cbn [with_id filter length].
      rewrite forallb_forall in Hc.
      destruct (id_mem k (allowed_props ptype)) eqn:M.
      + unfold id_mem in M. apply existsb_exists in M. destruct M as [k' [Hin Hk]]. apply N.eqb_eq in Hk. subst k'.
        specialize (Hc k Hin). rewrite R in Hc. cbn [orb] in Hc. apply Nat.leb_le in Hc. lia.
      + (* k is not allowed, so it does not occur *)
        assert (count_id k its = 0)%nat; [|lia].
        clear -Ha M. induction its as [|[k' v] r IH]; [reflexivity|].
        cbn [forallb fst] in Ha. apply andb_true_iff in Ha. destruct Ha as [A1 A2].
        cbn [count_id]. destruct (k =? k') eqn:E; [apply N.eqb_eq in E; subst; congruence | auto].
    - lia.
    - exists s'. split; [exact Hl|]. split; [|split; [congruence | exact Hinv]].
      intros k. rewrite (Hi k), H0. cbn [with_id filter app]. symmetry. apply Hsame.
  Qed.
End Properties.

(* ---- framing of one packet ---- *)
Lemma frame_inv fb body bs : frame fb body = Some bs ->
  exists l, w_vbi (len body) = Some l /\ bs = fb :: l ++ body.
Proof. unfold frame. destruct (w_vbi (len body)) as [l|]; [|discriminate]. intros H; inversion H. eauto. Qed.

Section OnePacket.
  Variable bodydec : N -> bytes -> outcome packet.
  Variable max_size : N.
  Notation run := (decode_bytes_with bodydec max_size).

  (* a framed packet whose body decodes, followed by anything: the packet is delivered and the
     decoder continues with what follows, from its initial state *)
  Theorem frame_decodes : forall fb body bs p rest d,
    frame fb body = Some bs ->
    bodydec fb body = Ok p ->
    d_state d = ReadPacketType -> d_scratch d = [] ->
    1 + (len bs - 1 - len body) + len body <= effective_max max_size ->
    run d (bs ++ rest) =
      (let '(d2, ps, r) := run decoder_init rest in (d2, p :: ps, r)).
  Proof.
    intros fb body bs p rest d Hf Hb St Sc Hmax.
    destruct (frame_inv _ _ _ Hf) as [l [Hl ->]].
    destruct (w_vbi_shape _ _ Hl) as [cont [last [-> [Hc [Hlen Hlast]]]]].
    pose proof (dec_vli_w _ _ [] Hl) as Hv. rewrite app_nil_r in Hv.
    cbn [app]. rewrite run_unfold. unfold Framing.turn. rewrite St. unfold process_read_packet_type. cbn [cons_opt].
    set (d1 := {| d_state := ReadTotalRemainingLength; d_scratch := d_scratch d; d_first_byte := Some fb;
                  d_remaining_length := d_remaining_length d |}).
    (* the continuation bytes *)
    assert (Hphase : forall c (dd : decoder) tail,
               d_state dd = ReadTotalRemainingLength -> d_first_byte dd = Some fb ->
               Forall (fun x => 128 <= x) (d_scratch dd ++ c) -> (length (d_scratch dd ++ c) <= 3)%nat ->
               decode_vli (d_scratch dd ++ c ++ [last]) = VliValue (len body) [] ->
               len body + 1 + len (d_scratch dd ++ c ++ [last]) <= effective_max max_size ->
               run dd (c ++ last :: tail) =
               (let '(d2, ps, r) := run {| d_state := ReadPacketBody; d_scratch := []; d_first_byte := Some fb;
                                           d_remaining_length := Some (len body) |} tail in (d2, ps, r))).
    { induction c as [|x c IH]; intros dd tail Hs Hfb Hfc Hlc Hvc Hmc.
      - cbn [app] in *. rewrite run_unfold. unfold Framing.turn. rewrite Hs.
        unfold process_read_total_remaining_length. rewrite Hvc.
        replace (len body + 1 + len (d_scratch dd ++ [last]) <=? effective_max max_size) with true by lia.
        rewrite Hfb. cbn [cons_opt].
        destruct (run _ tail) as [[d2 ps] r]. reflexivity.
      - cbn [app]. rewrite run_unfold. unfold Framing.turn. rewrite Hs.
        unfold process_read_total_remaining_length.
        assert (Hins : decode_vli (d_scratch dd ++ [x]) = VliInsufficient).
        { apply decode_vli_all_cont.
          - apply Forall_app. apply Forall_app in Hfc. destruct Hfc as [H1 H2]. split; [exact H1|].
            inversion H2; subst. constructor; [assumption | constructor].
          - rewrite app_length in *. cbn [length] in *. lia. }
        rewrite Hins.
        replace (4 <=? len (d_scratch dd ++ [x])) with false
          by (unfold len; rewrite app_length in *; cbn [length] in *; lia).
        replace (is_empty (c ++ last :: tail)) with false by (destruct c; reflexivity).
        cbn [negb cons_opt].
        rewrite (IH (set_scratch dd (d_scratch dd ++ [x])) tail).
        + destruct (run _ tail) as [[d2 ps] r]. reflexivity.
        + cbn. exact Hs.
        + cbn. exact Hfb.
        + cbn [set_scratch d_scratch]. rewrite <- app_assoc. exact Hfc.
        + cbn [set_scratch d_scratch]. rewrite <- app_assoc. exact Hlc.
        + cbn [set_scratch d_scratch]. rewrite <- !app_assoc. exact Hvc.
        + cbn [set_scratch d_scratch]. rewrite <- !app_assoc. exact Hmc. }
    rewrite <- !app_assoc. cbn [app].
    rewrite (Hphase cont d1 (body ++ rest)); try reflexivity.
    2:{ unfold d1. cbn [d_scratch]. rewrite Sc. exact Hc. }
    2:{ unfold d1. cbn [d_scratch]. rewrite Sc. exact Hlen. }
    2:{ unfold d1. cbn [d_scratch]. rewrite Sc. exact Hv. }
    2:{ unfold d1. cbn [d_scratch]. rewrite Sc. cbn [app].
        rewrite len_cons, !len_app in Hmax. rewrite len_app. cbn [app] in *.
        replace (len [last]) with 1 in * by reflexivity. lia. }
    (* the body *)
    rewrite run_unfold. unfold Framing.turn. cbn [d_state]. unfold process_read_packet_body.
    cbn [d_remaining_length d_scratch d_first_byte]. change (len (@nil N)) with 0.
    replace (len body <? 0) with false by lia. rewrite N.sub_0_r.
    rewrite len_app. replace (len body + len rest <? len body) with false by lia.
    unfold slice_to, slice_from. rewrite len_app. replace (len body <=? len body + len rest) with true by lia.
    rewrite take_all_app, drop_all_app. cbn [is_empty negb]. rewrite Hb. cbn [cons_opt].
    destruct (run decoder_init rest) as [[d2 ps] r]. reflexivity.
  Qed.
End OnePacket.
