(* C03: the packet decoders of Codec/ImplDecode.v are total — no [Panic] outcome (slice bound,
   `unwrap`, loop fuel) is reachable for ANY first byte and ANY body bytes, in either protocol
   version; hence the framing decoder never panics from a well-formed state. *)
From GM Require Import Base.Prelude Base.Outcome Codec.Packets Codec.Prim Codec.ReasonCodes Codec.ImplDecode Codec.Framing.
From GM Require Import CodecProofs.DecPrim CodecProofs.FramingP.
Open Scope N_scope.

(* ---- the arms of the property loops ---- *)
Ltac helper_good :=
  first [ apply decode_optional_u32_good | apply decode_optional_u16_good | apply decode_optional_u8_as_bool_good
        | apply decode_optional_u8_as_enum_good; apply conv_table_total
        | apply decode_optional_length_prefixed_string_good | apply decode_optional_length_prefixed_bytes_good
        | apply decode_user_property_good | apply decode_vli_into_mutable_good ].

Ltac arm_good :=
  repeat (match goal with |- good (if ?c then _ else _) _ => destruct c end);
  first [ exact I | (cbv zeta; eapply good_bind_store; helper_good) ].

Lemma ack_arm_good k b s : good (ack_arm k b s) b.
Proof. unfold ack_arm. arm_good. Qed.
Lemma connack_arm_good k b s : good (connack_arm k b s) b.
Proof. unfold connack_arm. arm_good. Qed.
Lemma publish_arm_good k b s : good (publish_arm k b s) b.
Proof.
  unfold publish_arm.
  repeat match goal with |- good (if ?c then _ else _) _ => destruct c end; try exact I;
    try (eapply good_bind_store; helper_good).
Qed.
Lemma suback_arm_good k b s : good (suback_arm k b s) b.
Proof. unfold suback_arm. arm_good. Qed.
Lemma unsuback_arm_good k b s : good (unsuback_arm k b s) b.
Proof. unfold unsuback_arm. arm_good. Qed.
Lemma disconnect_arm_good k b s : good (disconnect_arm k b s) b.
Proof. unfold disconnect_arm. arm_good. Qed.
Lemma auth_arm_good k b s : good (auth_arm k b s) b.
Proof. unfold auth_arm. arm_good. Qed.

(* ---- leaves ---- *)
Lemma index0_total site b : (len b =? 0) = false -> is_panic (index0 site b) = false.
Proof. destruct b; [intros H; change (len (@nil N)) with 0 in H; lia | reflexivity]. Qed.
Lemma index0_total2 site b : (len b =? 2) = true -> is_panic (index0 site b) = false.
Proof. destruct b; [intros H; change (len (@nil N)) with 0 in H; lia | reflexivity]. Qed.

Ltac np_leaf :=
  first
    [ reflexivity
    | eapply good_no_panic;
      first [ apply decode_u16_good | apply decode_vli_into_mutable_good | apply decode_length_prefixed_string_good
            | apply decode_u8_as_enum_good; first [apply conv_table_total | apply conv_connack311_total] ]
    | apply decode_properties_total;
      first [ apply ack_arm_good | apply connack_arm_good | apply publish_arm_good | apply suback_arm_good
            | apply unsuback_arm_good | apply disconnect_arm_good | apply auth_arm_good ]
    | apply decode_codes_total; apply conv_table_total
    | apply conv_table_total
    | apply index0_total; assumption
    | apply index0_total2; lia
    | unfold slice_to, slice_from;
      match goal with |- context [?n <=? ?l] => destruct (n <=? l) eqn:?; [reflexivity | lia] end ].

Ltac np :=
  repeat match goal with
         | |- is_panic (if ?c then _ else _) = false => destruct c eqn:?
         | |- is_panic (obind ?o _) = false => apply is_panic_bind; [np_leaf | intros ? ?]
         | |- is_panic (let (_, _) := ?x in _) = false => destruct x
         | |- is_panic (match ?x with (_, _) => _ end) = false => destruct x
         | |- _ => np_leaf
         end.

Lemma decode_ack5_total fbx ok fb body : is_panic (decode_ack5 fbx ok fb body) = false.
Proof. unfold decode_ack5. np. Qed.
Lemma decode_ack311_total fbx fb body : is_panic (decode_ack311 fbx fb body) = false.
Proof. unfold decode_ack311. np. Qed.

Lemma omap_total {A B} (f : A -> B) (o : outcome A) : is_panic o = false -> is_panic (omap f o) = false.
Proof. destruct o; cbn; auto. Qed.

Lemma decode_connack_packet5_total fb body : is_panic (decode_connack_packet5 fb body) = false.
Proof.
  unfold decode_connack_packet5. np.
Qed.

Lemma decode_connack_packet311_total fb body : is_panic (decode_connack_packet311 fb body) = false.
Proof.
  unfold decode_connack_packet311. np.
Qed.

Lemma publish_flags_total fb : is_panic (publish_flags fb) = false.
Proof. unfold publish_flags. np. Qed.

Lemma decode_publish_packet5_total fb body : is_panic (decode_publish_packet5 fb body) = false.
Proof.
  unfold decode_publish_packet5.
  apply is_panic_bind; [apply publish_flags_total | intros p0 _].
  apply is_panic_bind; [np_leaf | intros [topic b1] _].
  apply is_panic_bind.
  { destruct (negb _); [|reflexivity]. np. }
  intros [p2 b2] _. np.
Qed.

Lemma decode_publish_packet311_total fb body : is_panic (decode_publish_packet311 fb body) = false.
Proof.
  unfold decode_publish_packet311.
  apply is_panic_bind; [apply publish_flags_total | intros p0 _].
  apply is_panic_bind; [np_leaf | intros [topic b1] _].
  apply is_panic_bind.
  { destruct (negb _); [|reflexivity]. np. }
  intros [p2 b2] _. np.
Qed.

Lemma decode_suback_packet5_total fb body : is_panic (decode_suback_packet5 fb body) = false.
Proof. unfold decode_suback_packet5. np. Qed.
Lemma decode_suback_packet311_total fb body : is_panic (decode_suback_packet311 fb body) = false.
Proof. unfold decode_suback_packet311. np. Qed.
Lemma decode_unsuback_packet5_total fb body : is_panic (decode_unsuback_packet5 fb body) = false.
Proof. unfold decode_unsuback_packet5. np. Qed.
Lemma decode_unsuback_packet311_total fb body : is_panic (decode_unsuback_packet311 fb body) = false.
Proof. unfold decode_unsuback_packet311. np. Qed.
Lemma decode_pingresp_packet_total fb body : is_panic (decode_pingresp_packet fb body) = false.
Proof. unfold decode_pingresp_packet. np. Qed.
Lemma decode_disconnect_packet5_total fb body : is_panic (decode_disconnect_packet5 fb body) = false.
Proof. unfold decode_disconnect_packet5. np. Qed.
Lemma decode_disconnect_packet311_total fb body : is_panic (decode_disconnect_packet311 fb body) = false.
Proof. unfold decode_disconnect_packet311. np. Qed.
Lemma decode_auth_packet5_total fb body : is_panic (decode_auth_packet5 fb body) = false.
Proof. unfold decode_auth_packet5. np. Qed.

Theorem impl_decode_packet_total : forall v fb body, is_panic (impl_decode_packet v fb body) = false.
Proof.
  intros v fb body. destruct v; cbn [impl_decode_packet].
  - unfold decode_packet5.
    repeat match goal with |- is_panic (if ?c then _ else _) = false => destruct c end;
      first [ reflexivity
            | apply omap_total; apply decode_ack5_total
            | apply decode_connack_packet5_total | apply decode_publish_packet5_total
            | apply decode_suback_packet5_total | apply decode_unsuback_packet5_total
            | apply decode_pingresp_packet_total | apply decode_disconnect_packet5_total
            | apply decode_auth_packet5_total ].
  - unfold decode_packet311.
    repeat match goal with |- is_panic (if ?c then _ else _) = false => destruct c end;
      first [ reflexivity
            | apply omap_total; apply decode_ack311_total
            | apply decode_connack_packet311_total | apply decode_publish_packet311_total
            | apply decode_suback_packet311_total | apply decode_unsuback_packet311_total
            | apply decode_pingresp_packet_total | apply decode_disconnect_packet311_total ].
Qed.

(* ---- the whole decoder ---- *)
Theorem decode_bytes_no_panic : forall v max_size d data,
  wf d ->
  let '(d', ps, r) := decode_bytes v max_size d data in is_panic r = false /\ wf d'.
Proof.
  intros v max_size d data Hw.
  exact (run_no_panic (impl_decode_packet v) max_size (impl_decode_packet_total v) d data Hw).
Qed.

(* any sequence of reads, starting from a fresh decoder *)
Theorem decode_chunks_no_panic : forall v max_size chunks d i,
  wf d ->
  let '(d', ps, r, j) := decode_chunks v max_size d chunks i in is_panic r = false /\ wf d'.
Proof.
  intros v max_size. induction chunks as [|c rest IH]; intros d i Hw; cbn [decode_chunks].
  - split; [reflexivity | exact Hw].
  - pose proof (decode_bytes_no_panic v max_size d c Hw) as H.
    destruct (decode_bytes v max_size d c) as [[d1 ps1] r1]. destruct H as [Hp Hw1].
    destruct r1 as [u|k|s].
    + specialize (IH d1 (i + 1) Hw1). destruct (decode_chunks v max_size d1 rest (i + 1)) as [[[d2 ps2] r2] j]. exact IH.
    + split; [reflexivity | exact Hw1].
    + discriminate.
Qed.

(* the driver's [decode_chunks] is [feed] (plus the index of the failing call) *)
Lemma decode_chunks_feed : forall v max_size chunks d i, chunks <> [] ->
  let '(d', ps, r, j) := decode_chunks v max_size d chunks i in
  feed (impl_decode_packet v) max_size d chunks = (d', ps, r).
Proof.
  intros v max_size. induction chunks as [|c rest IH]; intros d i Hne; [congruence|].
  destruct rest as [|c2 rest].
  - cbn [decode_chunks feed]. unfold decode_bytes.
    destruct (decode_bytes_with (impl_decode_packet v) max_size d c) as [[d1 ps1] r1].
    destruct r1 as [[]| |]; try reflexivity. rewrite app_nil_r. reflexivity.
  - change (decode_chunks v max_size d (c :: c2 :: rest) i) with
      (let '(d', ps, r) := decode_bytes v max_size d c in
       match r with
       | Ok _ => let '(d2, ps2, r2, i2) := decode_chunks v max_size d' (c2 :: rest) (i + 1) in (d2, ps ++ ps2, r2, i2)
       | _ => (d', ps, r, i)
       end).
    change (feed (impl_decode_packet v) max_size d (c :: c2 :: rest)) with
      (let '(d1, ps1, r1) := decode_bytes_with (impl_decode_packet v) max_size d c in
       match r1 with
       | Ok _ => let '(d2, ps2, r2) := feed (impl_decode_packet v) max_size d1 (c2 :: rest) in (d2, ps1 ++ ps2, r2)
       | _ => (d1, ps1, r1)
       end).
    unfold decode_bytes.
    destruct (decode_bytes_with (impl_decode_packet v) max_size d c) as [[d1 ps1] r1].
    destruct r1; try reflexivity.
    specialize (IH d1 (i + 1) ltac:(discriminate)).
    destruct (decode_chunks v max_size d1 (c2 :: rest) (i + 1)) as [[[d2 ps2] r2] j].
    rewrite IH. reflexivity.
Qed.
