(* C03 faithfulness, part 3: DISCONNECT and AUTH. *)
From GM Require Import Base.Prelude Base.Outcome Codec.Packets Codec.Prim Codec.ReasonCodes
  Codec.ImplDecode Codec.Framing Codec.SpecEncodeS2C.
From GM Require Import CodecProofs.DecPrim CodecProofs.FramingP CodecProofs.DecFaithful CodecProofs.DecReasonCodes
  CodecProofs.DecFaithfulAck.
Open Scope N_scope.

(* ================================================================================== *)
(* DISCONNECT                                                                           *)
(* ================================================================================== *)
Definition d_hdr (d : disconnect) := d_rc d.
Definition d_canon (d : disconnect) : Prop := nonempty_list (d_up d) = true.

Lemma d_ext a a' :
  (forall k, with_id k (items_disconnect a) = with_id k (items_disconnect a')) -> d_hdr a = d_hdr a' ->
  d_canon a -> d_canon a' -> a = a'.
Proof.
  destruct a as [rc sei r u sr], a' as [rc' sei' r' u' sr']. unfold d_hdr, d_canon, items_disconnect. cbn.
  intros H Hh C C'. subst rc'.
  pose proof (H 17) as H17. pose proof (H 31) as H31. pose proof (H 38) as H38. pose proof (H 28) as H28.
  rewrite !with_id_app, !with_id_opt_item, !with_id_up_items in H17, H31, H38, H28.
  eqb_compute. cbn iota in *. rewrite ?app_nil_r in *. cbn [app] in *.
  apply opt_item_inj in H17; [|intros x y E; inversion E; reflexivity].
  apply opt_item_inj in H31; [|intros x y E; inversion E; reflexivity].
  apply opt_item_inj in H28; [|intros x y E; inversion E; reflexivity].
  apply up_items_inj in H38; auto. subst. reflexivity.
Qed.

Ltac up_case arm items canon upf setf :=
  let kb := fresh "kb" in let vb' := fresh "vb'" in let Wk := fresh "Wk" in let Wv := fresh "Wv" in
  match goal with P : (match w_string ?name with _ => _ end) = Some _ |- _ =>
    destruct (w_string name) as [kb|] eqn:Wk; [|discriminate P];
    match type of P with (match w_string ?value with _ => _ end) = Some _ =>
      destruct (w_string value) as [vb'|] eqn:Wv; [|discriminate P] end;
    inversion P; subst; clear P;
    rewrite (dec_user_property_w _ _ _ _ _ _ Wk Wv); cbn [obind]; eexists; split; [reflexivity|];
    split; [|split; [reflexivity | intros _; unfold canon; cbn; apply snoc_nonempty]]
  end.

Lemma disconnect_arm_step : forall id v vb s rest,
  id_mem id (allowed_props 14) = true ->
  print_item (id, v) = Some (id :: vb) ->
  (repeatable 14 id = true \/ with_id id (items_disconnect s) = []) ->
  exists s', disconnect_arm id (vb ++ rest) s = Ok (s', rest) /\ absorbed items_disconnect d_hdr d_canon s s' (id, v).
Proof.
  intros id v vb s rest Hal Pi Hpre. split_allowed Hal.
  - invert_item Pi. unfold disconnect_arm. eqb_compute. cbn iota.
    none_from_pre Hpre ltac:(fun H => unfold items_disconnect in H).
    rewrite Hn. rewrite (dec_opt_u32_w _ _ _ P). cbn [obind]. eexists. split; [reflexivity|].
    solve_absorbed ltac:(unfold items_disconnect; cbn [d_sei d_reason d_up d_server_ref d_set_sei]; rewrite ?Hn).
  - invert_item Pi. unfold disconnect_arm. eqb_compute. cbn iota.
    none_from_pre Hpre ltac:(fun H => unfold items_disconnect in H).
    rewrite Hn. rewrite (dec_opt_string_w _ _ _ P). cbn [obind]. eexists. split; [reflexivity|].
    solve_absorbed ltac:(unfold items_disconnect; cbn [d_sei d_reason d_up d_server_ref d_set_reason]; rewrite ?Hn).
  - invert_item Pi. unfold disconnect_arm. eqb_compute. cbn iota.
    up_case disconnect_arm items_disconnect d_canon d_up d_set_up.
    intros k. unfold items_disconnect. cbn [d_sei d_reason d_up d_server_ref d_set_up].
    rewrite !with_id_app, !with_id_opt_item, !with_id_up_items. cbn [with_id filter fst].
    destruct (N.eqb_spec 38 k) as [<-|Hne].
    + eqb_compute. cbn iota. cbn [app]. rewrite up_items_snoc, ?app_nil_r. reflexivity.
    + rewrite ?app_nil_r. reflexivity.
  - invert_item Pi. unfold disconnect_arm. eqb_compute. cbn iota.
    none_from_pre Hpre ltac:(fun H => unfold items_disconnect in H).
    rewrite Hn. rewrite (dec_opt_string_w _ _ _ P). cbn [obind]. eexists. split; [reflexivity|].
    solve_absorbed ltac:(unfold items_disconnect; cbn [d_sei d_reason d_up d_server_ref d_set_server_ref]; rewrite ?Hn).
Qed.

Theorem decode_disconnect5_faithful : forall d its compact fb body,
  legal_disconnect V5 d = true -> same_per_id (items_disconnect d) its ->
  spec_body V5 (Disconnect d) its compact = Some (fb, body) ->
  decode_disconnect_packet5 fb body = Ok (Disconnect d).
Proof.
  intros d its compact fb body Hleg Hs Hb. cbn [spec_body] in Hb.
  destruct (items_allowed 14 its) eqn:Hal; [|discriminate].
  destruct (disconnect_body (d_rc d) its compact) as [b|] eqn:Db; [|discriminate].
  inversion Hb; subst fb body; clear Hb.
  cbn [legal_disconnect] in Hleg. apply andb_true_iff in Hleg. destruct Hleg as [Hrc Hup].
  unfold disconnect_body in Db.
  destruct (w_u8 (d_rc d)) as [rcb|] eqn:Wr; [|discriminate].
  pose proof (w_u8_inv _ _ Wr) as [Hrc256 ->].
  assert (Hconv : conv_table impl_disconnect_code_ok (d_rc d) = Ok (d_rc d)).
  { unfold conv_table. rewrite (reason_codes_disconnect _ Hrc256), Hrc. reflexivity. }
  unfold decode_disconnect_packet5. rewrite N.eqb_refl. cbn [negb].
  destruct its as [|it its'].
  - apply same_per_id_nil in Hs. unfold items_disconnect in Hs.
    apply app_eq_nil in Hs. destruct Hs as [H1 Hs]. apply app_eq_nil in Hs. destruct Hs as [H2 Hs].
    apply app_eq_nil in Hs. destruct Hs as [H3 H4].
    apply opt_item_nil in H1. apply opt_item_nil in H2. apply up_items_nil in H3; [|exact Hup]. apply opt_item_nil in H4.
    assert (Ea : d = d_set_rc d_default (d_rc d)) by (destruct d; cbn in *; subst; reflexivity).
    destruct ((2 <=? compact) && (d_rc d =? 0)) eqn:C2.
    + inversion Db; subst b. change (len (@nil N) =? 0) with true. cbn iota.
      apply andb_true_iff in C2. destruct C2 as [_ C2]. apply N.eqb_eq in C2. f_equal. f_equal.
      rewrite Ea. rewrite C2. reflexivity.
    + destruct (1 <=? compact).
      * inversion Db; subst b. change (len [d_rc d] =? 0) with false. cbn iota.
        rewrite decode_u8_as_enum_spec. rewrite Hconv. cbn [obind].
        change (len (@nil N) =? 0) with true. cbn iota. f_equal. f_equal. symmetry. exact Ea.
      * inversion Db; subst b. cbn [app]. change (len [d_rc d; 0] =? 0) with false. cbn iota.
        rewrite decode_u8_as_enum_spec. rewrite Hconv. cbn [obind].
        change (len [0] =? 0) with false. cbn iota.
        change (decode_vli_into_mutable [0]) with (@Ok (N * bytes) (0, [])). cbn [obind].
        change (negb (0 =? len (@nil N))) with false. cbn iota.
        unfold decode_properties. cbn [length prop_loop obind]. f_equal. f_equal. symmetry. exact Ea.
  - destruct (print_properties (it :: its')) as [props|] eqn:Pp; [|discriminate]. inversion Db; subst b; clear Db.
    destruct (print_properties_inv _ _ Pp) as [ps [l [Hps [Hl ->]]]].
    cbn [app]. rewrite len_cons. replace (1 + len (l ++ ps) =? 0) with false by lia.
    rewrite decode_u8_as_enum_spec. rewrite Hconv. cbn [obind].
    replace (len (l ++ ps) =? 0) with false by (pose proof (w_vbi_nonempty _ _ Hl); rewrite len_app; lia).
    rewrite (dec_vli_mut_w _ _ _ Hl). cbn [obind]. rewrite N.eqb_refl. cbn [negb].
    destruct (properties_any_order disconnect_arm items_disconnect d_hdr 14 d_canon disconnect_arm_step
                (it :: its') ps (d_set_rc d_default (d_rc d)) d Hps Hal eq_refl Hs eq_refl) as [s' [Hd [Hv [Hh Hi]]]].
    rewrite Hd. cbn [obind]. f_equal. f_equal. apply d_ext; auto. apply Hi. reflexivity.
Qed.

Theorem decode_disconnect311_faithful : forall d its compact fb body,
  legal_disconnect V311 d = true ->
  spec_body V311 (Disconnect d) its compact = Some (fb, body) ->
  decode_disconnect_packet311 fb body = Ok (Disconnect d).
Proof.
  intros d its compact fb body Hleg Hb. cbn [spec_body] in Hb. inversion Hb; subst.
  destruct d as [rc [sei|] [r|] [u|] [sr|]]; cbn in Hleg; try discriminate; try (rewrite ?andb_false_r in Hleg; discriminate).
  rewrite !andb_true_r in Hleg. apply N.eqb_eq in Hleg. subst. reflexivity.
Qed.

(* ================================================================================== *)
(* AUTH                                                                                 *)
(* ================================================================================== *)
Definition au_hdr (a : auth) := au_rc a.
Definition au_canon (a : auth) : Prop := nonempty_list (au_up a) = true.

Lemma au_ext a a' :
  (forall k, with_id k (items_auth a) = with_id k (items_auth a')) -> au_hdr a = au_hdr a' ->
  au_canon a -> au_canon a' -> a = a'.
Proof.
  destruct a as [rc m dt r u], a' as [rc' m' dt' r' u']. unfold au_hdr, au_canon, items_auth. cbn.
  intros H Hh C C'. subst rc'.
  pose proof (H 21) as H21. pose proof (H 22) as H22. pose proof (H 31) as H31. pose proof (H 38) as H38.
  rewrite !with_id_app, !with_id_opt_item, !with_id_up_items in H21, H22, H31, H38.
  eqb_compute. cbn iota in *. rewrite ?app_nil_r in *. cbn [app] in *.
  apply opt_item_inj in H21; [|intros x y E; inversion E; reflexivity].
  apply opt_item_inj in H22; [|intros x y E; inversion E; reflexivity].
  apply opt_item_inj in H31; [|intros x y E; inversion E; reflexivity].
  apply up_items_inj in H38; auto. subst. reflexivity.
Qed.

Lemma auth_arm_step : forall id v vb s rest,
  id_mem id (allowed_props 15) = true ->
  print_item (id, v) = Some (id :: vb) ->
  (repeatable 15 id = true \/ with_id id (items_auth s) = []) ->
  exists s', auth_arm id (vb ++ rest) s = Ok (s', rest) /\ absorbed items_auth au_hdr au_canon s s' (id, v).
Proof.
  intros id v vb s rest Hal Pi Hpre. split_allowed Hal.
  - invert_item Pi. unfold auth_arm. eqb_compute. cbn iota.
    none_from_pre Hpre ltac:(fun H => unfold items_auth in H).
    rewrite Hn. rewrite (dec_opt_string_w _ _ _ P). cbn [obind]. eexists. split; [reflexivity|].
    solve_absorbed ltac:(unfold items_auth; cbn [au_method au_data au_reason au_up au_set_method]; rewrite ?Hn).
  - invert_item Pi. unfold auth_arm. eqb_compute. cbn iota.
    none_from_pre Hpre ltac:(fun H => unfold items_auth in H).
    rewrite Hn. rewrite (dec_opt_binary_w _ _ _ P). cbn [obind]. eexists. split; [reflexivity|].
    solve_absorbed ltac:(unfold items_auth; cbn [au_method au_data au_reason au_up au_set_data]; rewrite ?Hn).
  - invert_item Pi. unfold auth_arm. eqb_compute. cbn iota.
    none_from_pre Hpre ltac:(fun H => unfold items_auth in H).
    rewrite Hn. rewrite (dec_opt_string_w _ _ _ P). cbn [obind]. eexists. split; [reflexivity|].
    solve_absorbed ltac:(unfold items_auth; cbn [au_method au_data au_reason au_up au_set_reason]; rewrite ?Hn).
  - invert_item Pi. unfold auth_arm. eqb_compute. cbn iota.
    up_case auth_arm items_auth au_canon au_up au_set_up.
    intros k. unfold items_auth. cbn [au_method au_data au_reason au_up au_set_up].
    rewrite !with_id_app, !with_id_opt_item, !with_id_up_items. cbn [with_id filter fst].
    destruct (N.eqb_spec 38 k) as [<-|Hne].
    + eqb_compute. cbn iota. cbn [app]. rewrite up_items_snoc, ?app_nil_r. reflexivity.
    + rewrite ?app_nil_r. reflexivity.
Qed.

Theorem decode_auth5_faithful : forall a its compact fb body,
  legal_auth V5 a = true -> same_per_id (items_auth a) its ->
  spec_body V5 (Auth a) its compact = Some (fb, body) ->
  decode_auth_packet5 fb body = Ok (Auth a).
Proof.
  intros a its compact fb body Hleg Hs Hb. cbn [spec_body] in Hb.
  destruct (items_allowed 15 its) eqn:Hal; [|discriminate].
  destruct (auth_body (au_rc a) its compact) as [b|] eqn:Db; [|discriminate].
  inversion Hb; subst fb body; clear Hb.
  cbn [legal_auth] in Hleg. apply andb_true_iff in Hleg. destruct Hleg as [Hrc Hup].
  unfold auth_body in Db.
  destruct (w_u8 (au_rc a)) as [rcb|] eqn:Wr; [|discriminate].
  pose proof (w_u8_inv _ _ Wr) as [Hrc256 ->].
  assert (Hconv : conv_table impl_auth_code_ok (au_rc a) = Ok (au_rc a)).
  { unfold conv_table. rewrite (reason_codes_auth _ Hrc256), Hrc. reflexivity. }
  unfold decode_auth_packet5. rewrite N.eqb_refl. cbn [negb].
  destruct its as [|it its'].
  - apply same_per_id_nil in Hs. unfold items_auth in Hs.
    apply app_eq_nil in Hs. destruct Hs as [H1 Hs]. apply app_eq_nil in Hs. destruct Hs as [H2 Hs].
    apply app_eq_nil in Hs. destruct Hs as [H3 H4].
    apply opt_item_nil in H1. apply opt_item_nil in H2. apply opt_item_nil in H3. apply up_items_nil in H4; [|exact Hup].
    assert (Ea : a = au_set_rc au_default (au_rc a)) by (destruct a; cbn in *; subst; reflexivity).
    destruct ((2 <=? compact) && (au_rc a =? 0)) eqn:C2.
    + inversion Db; subst b. change (len (@nil N) =? 0) with true. cbn iota.
      apply andb_true_iff in C2. destruct C2 as [_ C2]. apply N.eqb_eq in C2. f_equal. f_equal.
      rewrite Ea. rewrite C2. reflexivity.
    + inversion Db; subst b. cbn [app]. change (len [au_rc a; 0] =? 0) with false. cbn iota.
      rewrite decode_u8_as_enum_spec. rewrite Hconv. cbn [obind].
      change (decode_vli_into_mutable [0]) with (@Ok (N * bytes) (0, [])). cbn [obind].
      change (negb (0 =? len (@nil N))) with false. cbn iota.
      unfold decode_properties. cbn [length prop_loop obind]. f_equal. f_equal. symmetry. exact Ea.
  - destruct (print_properties (it :: its')) as [props|] eqn:Pp; [|discriminate]. inversion Db; subst b; clear Db.
    destruct (print_properties_inv _ _ Pp) as [ps [l [Hps [Hl ->]]]].
    cbn [app]. rewrite len_cons. replace (1 + len (l ++ ps) =? 0) with false by lia.
    rewrite decode_u8_as_enum_spec. rewrite Hconv. cbn [obind].
    rewrite (dec_vli_mut_w _ _ _ Hl). cbn [obind]. rewrite N.eqb_refl. cbn [negb].
    destruct (properties_any_order auth_arm items_auth au_hdr 15 au_canon auth_arm_step
                (it :: its') ps (au_set_rc au_default (au_rc a)) a Hps Hal eq_refl Hs eq_refl) as [s' [Hd [Hv [Hh Hi]]]].
    rewrite Hd. cbn [obind]. f_equal. f_equal. apply au_ext; auto. apply Hi. reflexivity.
Qed.
