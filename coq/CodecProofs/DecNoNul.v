(* C03 (MQTT-1.5.4-2, defect D27 repaired by /repo a42e3b8): no UTF-8 string field of any packet the
   decoder model returns contains U+0000 — for ANY first byte and ANY body bytes, both protocol
   versions.  Binary fields (payload, correlation data, authentication data, password) are not
   strings and are not constrained. *)
From GM Require Import Base.Prelude Base.Outcome Codec.Packets Codec.Prim Codec.ReasonCodes Codec.ImplDecode
  Codec.Framing Codec.SpecEncodeS2C Codec.StringsNoNul.
From GM Require Import CodecProofs.DecPrim CodecProofs.DecFaithful.
Open Scope N_scope.

(* ---- "if the outcome is Ok, the value satisfies P" ---- *)
Definition osat {A} (P : A -> Prop) (o : outcome A) : Prop := match o with Ok a => P a | _ => True end.

Lemma osat_bind {A B} (Q : A -> Prop) (P : B -> Prop) (o : outcome A) (f : A -> outcome B) :
  osat Q o -> (forall a, Q a -> osat P (f a)) -> osat P (obind o f).
Proof. destruct o; cbn; auto. Qed.
Lemma osat_any {A} (o : outcome A) : osat (fun _ => True) o.
Proof. destruct o; exact I. Qed.
Lemma osat_ok {A} (P : A -> Prop) (o : outcome A) a : osat P o -> o = Ok a -> P a.
Proof. intros H ->. exact H. Qed.
Lemma osat_omap {A B} (f : A -> B) (P : B -> Prop) (o : outcome A) : osat (fun a => P (f a)) o -> osat P (omap f o).
Proof. destruct o; cbn; auto. Qed.

(* ---- the string helpers ---- *)
Lemma lp_tail_nn l t : osat (fun r => no_null (fst r) = true) (lp_tail true l t).
Proof.
  unfold lp_tail. destruct (len t <? l); [exact I|]. cbn [andb].
  destruct (negb _); [exact I|]. destruct (str_contains_nul (take l t)) eqn:E; [exact I|].
  cbn [osat fst]. rewrite str_contains_nul_no_null in E. destruct (no_null (take l t)); [reflexivity | discriminate].
Qed.

Lemma decode_length_prefixed_string_nn b :
  osat (fun r => no_null (fst r) = true) (decode_length_prefixed_string b).
Proof.
  rewrite decode_length_prefixed_string_spec. destruct b as [|x [|y t]]; try exact I. apply lp_tail_nn.
Qed.

Lemma decode_optional_length_prefixed_string_nn b v :
  osat (fun r => ostr_nn (fst r) = true) (decode_optional_length_prefixed_string b v).
Proof.
  rewrite decode_optional_length_prefixed_string_spec. destruct b as [|x [|y t]]; try exact I.
  destruct v; [exact I|]. eapply osat_bind; [apply lp_tail_nn|]. intros [s r] H. exact H.
Qed.

Lemma decode_user_property_nn b props : ups_nn props = true ->
  osat (fun r => ups_nn (fst r) = true) (decode_user_property b props).
Proof.
  intros Hp. unfold decode_user_property.
  eapply osat_bind; [apply decode_length_prefixed_string_nn|]. intros [name b1] Hn.
  eapply osat_bind; [apply decode_length_prefixed_string_nn|]. intros [value b2] Hv.
  cbn [fst] in *. cbn [osat fst ups_nn]. rewrite forallb_app. cbn [forallb]. unfold up_nn at 2.
  cbn [up_name up_value]. rewrite Hn, Hv. destruct props as [l|]; cbn [ups_nn] in Hp; [rewrite Hp|]; reflexivity.
Qed.

(* ---- the property loops preserve any invariant the arms preserve ---- *)
Lemma prop_loop_inv {St} (arm : N -> bytes -> St -> outcome (St * bytes)) (Inv : St -> Prop) :
  (forall k b s, Inv s -> osat (fun r => Inv (fst r)) (arm k b s)) ->
  forall fuel b s, Inv s -> osat Inv (prop_loop arm fuel b s).
Proof.
  intros Harm. induction fuel as [|f IH]; intros b s Hs; destruct b as [|x t]; cbn [prop_loop]; try exact Hs; try exact I.
  cbn [index0 obind]. unfold slice_from. destruct (1 <=? len (x :: t)); [|exact I]. cbn [obind].
  eapply osat_bind; [apply Harm; exact Hs|]. intros [s' r'] H. apply IH. exact H.
Qed.
Lemma decode_properties_inv {St} (arm : N -> bytes -> St -> outcome (St * bytes)) (Inv : St -> Prop) :
  (forall k b s, Inv s -> osat (fun r => Inv (fst r)) (arm k b s)) ->
  forall b s, Inv s -> osat Inv (decode_properties arm b s).
Proof. intros Harm b s. apply prop_loop_inv. exact Harm. Qed.

(* ---- the arms ---- *)
Ltac split_and := repeat match goal with H : _ && _ = true |- _ => apply andb_true_iff in H; destruct H end.
Ltac close_nn := repeat (apply andb_true_iff; split); assumption.

(* one arm: [do (v, r) <- helper b (field s); Ok (set s v, r)] *)
Ltac arm_step unf :=
  first
    [ exact I
    | eapply osat_bind; [apply decode_optional_length_prefixed_string_nn|]; intros [? ?] ?; cbn [fst] in *; cbn; unf; cbn; close_nn
    | eapply osat_bind; [apply decode_user_property_nn; assumption|]; intros [? ?] ?; cbn [fst] in *; cbn; unf; cbn; close_nn
    | eapply osat_bind; [apply osat_any|]; intros [? ?] _; cbn; unf; cbn; close_nn ].
Ltac arm_nn unf :=
  repeat (match goal with |- osat _ (if ?c then _ else _) => destruct c end); arm_step unf.

Lemma ack_arm_nn k b s : ack_nn s = true -> osat (fun r => ack_nn (fst r) = true) (ack_arm k b s).
Proof. unfold ack_nn at 1. intros H. split_and. unfold ack_arm. arm_nn ltac:(unfold ack_nn). Qed.
Lemma connack_arm_nn k b s : connack_nn s = true -> osat (fun r => connack_nn (fst r) = true) (connack_arm k b s).
Proof. unfold connack_nn at 1. intros H. split_and. unfold connack_arm. arm_nn ltac:(unfold connack_nn). Qed.
Lemma publish_arm_nn k b s : publish_nn s = true -> osat (fun r => publish_nn (fst r) = true) (publish_arm k b s).
Proof. unfold publish_nn at 1. intros H. split_and. unfold publish_arm. arm_nn ltac:(unfold publish_nn). Qed.
Lemma suback_arm_nn k b s : suback_nn s = true -> osat (fun r => suback_nn (fst r) = true) (suback_arm k b s).
Proof. unfold suback_nn at 1. intros H. split_and. unfold suback_arm. arm_nn ltac:(unfold suback_nn). Qed.
Lemma unsuback_arm_nn k b s : unsuback_nn s = true -> osat (fun r => unsuback_nn (fst r) = true) (unsuback_arm k b s).
Proof. unfold unsuback_nn at 1. intros H. split_and. unfold unsuback_arm. arm_nn ltac:(unfold unsuback_nn). Qed.
Lemma disconnect_arm_nn k b s : disconnect_nn s = true -> osat (fun r => disconnect_nn (fst r) = true) (disconnect_arm k b s).
Proof. unfold disconnect_nn at 1. intros H. split_and. unfold disconnect_arm. arm_nn ltac:(unfold disconnect_nn). Qed.
Lemma auth_arm_nn k b s : auth_nn s = true -> osat (fun r => auth_nn (fst r) = true) (auth_arm k b s).
Proof. unfold auth_nn at 1. intros H. split_and. unfold auth_arm. arm_nn ltac:(unfold auth_nn). Qed.

(* ---- the packet decoders ---- *)
(* walk a decoder body: tests, helper calls whose result carries no string, the property loop *)
Ltac walk :=
  repeat match goal with
         | |- osat _ (if ?c then _ else _) => destruct c
         | |- osat _ dfail => exact I
         | |- osat _ (Err _) => exact I
         | |- osat _ unimplemented => exact I
         | |- osat _ (Ok _) => cbn [osat]
         | |- osat _ (obind (decode_properties ack_arm _ _) _) =>
           eapply osat_bind; [apply (decode_properties_inv _ (fun s => ack_nn s = true) ack_arm_nn); reflexivity | intros ? ?]
         | |- osat _ (obind (decode_properties connack_arm _ _) _) =>
           eapply osat_bind; [apply (decode_properties_inv _ (fun s => connack_nn s = true) connack_arm_nn); reflexivity | intros ? ?]
         | |- osat _ (obind (decode_properties suback_arm _ _) _) =>
           eapply osat_bind; [apply (decode_properties_inv _ (fun s => suback_nn s = true) suback_arm_nn); reflexivity | intros ? ?]
         | |- osat _ (obind (decode_properties unsuback_arm _ _) _) =>
           eapply osat_bind; [apply (decode_properties_inv _ (fun s => unsuback_nn s = true) unsuback_arm_nn); reflexivity | intros ? ?]
         | |- osat _ (obind (decode_properties disconnect_arm _ _) _) =>
           eapply osat_bind; [apply (decode_properties_inv _ (fun s => disconnect_nn s = true) disconnect_arm_nn); reflexivity | intros ? ?]
         | |- osat _ (obind (decode_properties auth_arm _ _) _) =>
           eapply osat_bind; [apply (decode_properties_inv _ (fun s => auth_nn s = true) auth_arm_nn); reflexivity | intros ? ?]
         | |- osat _ (obind _ _) => eapply osat_bind; [apply osat_any | intros ? _]
         | |- osat _ (let (_, _) := ?x in _) => destruct x
         | |- osat _ (match ?x with (_, _) => _ end) => destruct x
         end.

Lemma decode_ack5_nn fbx ok fb body : osat (fun a => ack_nn a = true) (decode_ack5 fbx ok fb body).
Proof. unfold decode_ack5. walk; try reflexivity. apply (decode_properties_inv _ (fun s => ack_nn s = true) ack_arm_nn). reflexivity. Qed.
Lemma decode_ack311_nn fbx fb body : osat (fun a => ack_nn a = true) (decode_ack311 fbx fb body).
Proof. unfold decode_ack311. walk; reflexivity. Qed.

Lemma decode_connack_packet5_nn fb body : osat (fun p => packet_strings_no_nul p = true) (decode_connack_packet5 fb body).
Proof. unfold decode_connack_packet5. walk; try assumption. Qed.
Lemma decode_connack_packet311_nn fb body : osat (fun p => packet_strings_no_nul p = true) (decode_connack_packet311 fb body).
Proof. unfold decode_connack_packet311. walk; reflexivity. Qed.

Lemma publish_flags_nn fb : osat (fun p => publish_nn p = true) (publish_flags fb).
Proof. unfold publish_flags. walk. reflexivity. Qed.

Lemma publish_set_topic_nn p t : publish_nn p = true -> no_null t = true -> publish_nn (pub_set_topic p t) = true.
Proof. unfold publish_nn. cbn. intros H Ht. split_and. close_nn. Qed.
Lemma publish_set_pid_nn p v : publish_nn (pub_set_pid p v) = publish_nn p.
Proof. reflexivity. Qed.
Lemma publish_set_payload_nn p v : publish_nn (pub_set_payload p v) = publish_nn p.
Proof. reflexivity. Qed.

Lemma publish_pid_step_nn p1 b1 : publish_nn p1 = true ->
  osat (fun r => publish_nn (fst r) = true)
    (if negb (pub_qos p1 =? 0) then (do (pid, r) <- decode_u16 b1; Ok (pub_set_pid p1 pid, r)) else Ok (p1, b1)).
Proof.
  intros H. destruct (negb _); [|exact H].
  eapply osat_bind; [apply osat_any|]. intros [pid r] _. cbn [osat fst]. rewrite publish_set_pid_nn. exact H.
Qed.

Lemma decode_publish_packet5_nn fb body : osat (fun p => packet_strings_no_nul p = true) (decode_publish_packet5 fb body).
Proof.
  unfold decode_publish_packet5.
  eapply osat_bind; [apply publish_flags_nn|]. intros p0 H0.
  eapply osat_bind; [apply decode_length_prefixed_string_nn|]. intros [topic b1] Ht. cbn [fst] in Ht.
  cbv zeta. eapply osat_bind; [apply publish_pid_step_nn; apply publish_set_topic_nn; assumption|].
  intros [p2 b2] H2. cbn [fst] in H2.
  eapply osat_bind; [apply osat_any|]. intros [pl b3] _.
  destruct (len b3 <? pl); [exact I|].
  eapply osat_bind; [apply osat_any|]. intros pb _.
  eapply osat_bind; [apply osat_any|]. intros payload _.
  eapply osat_bind; [apply (decode_properties_inv _ (fun s => publish_nn s = true) publish_arm_nn); exact H2|].
  intros p3 H3. cbn [osat packet_strings_no_nul]. destruct (negb _); [rewrite publish_set_payload_nn|]; exact H3.
Qed.

Lemma decode_publish_packet311_nn fb body : osat (fun p => packet_strings_no_nul p = true) (decode_publish_packet311 fb body).
Proof.
  unfold decode_publish_packet311.
  eapply osat_bind; [apply publish_flags_nn|]. intros p0 H0.
  eapply osat_bind; [apply decode_length_prefixed_string_nn|]. intros [topic b1] Ht. cbn [fst] in Ht.
  cbv zeta. eapply osat_bind; [apply publish_pid_step_nn; apply publish_set_topic_nn; assumption|].
  intros [p2 b2] H2. cbn [fst] in H2.
  cbn [osat packet_strings_no_nul]. destruct (negb _); [rewrite publish_set_payload_nn|]; exact H2.
Qed.

Lemma decode_suback_packet5_nn fb body : osat (fun p => packet_strings_no_nul p = true) (decode_suback_packet5 fb body).
Proof. unfold decode_suback_packet5. walk; try assumption. Qed.
Lemma decode_suback_packet311_nn fb body : osat (fun p => packet_strings_no_nul p = true) (decode_suback_packet311 fb body).
Proof. unfold decode_suback_packet311. walk; reflexivity. Qed.
Lemma decode_unsuback_packet5_nn fb body : osat (fun p => packet_strings_no_nul p = true) (decode_unsuback_packet5 fb body).
Proof. unfold decode_unsuback_packet5. walk; try assumption. Qed.
Lemma decode_unsuback_packet311_nn fb body : osat (fun p => packet_strings_no_nul p = true) (decode_unsuback_packet311 fb body).
Proof. unfold decode_unsuback_packet311. walk; reflexivity. Qed.
Lemma decode_pingresp_packet_nn fb body : osat (fun p => packet_strings_no_nul p = true) (decode_pingresp_packet fb body).
Proof. unfold decode_pingresp_packet. walk; reflexivity. Qed.
Lemma decode_disconnect_packet5_nn fb body : osat (fun p => packet_strings_no_nul p = true) (decode_disconnect_packet5 fb body).
Proof. unfold decode_disconnect_packet5. walk; try assumption; reflexivity. Qed.
Lemma decode_disconnect_packet311_nn fb body : osat (fun p => packet_strings_no_nul p = true) (decode_disconnect_packet311 fb body).
Proof. unfold decode_disconnect_packet311. walk; reflexivity. Qed.
Lemma decode_auth_packet5_nn fb body : osat (fun p => packet_strings_no_nul p = true) (decode_auth_packet5 fb body).
Proof. unfold decode_auth_packet5. walk; try assumption; reflexivity. Qed.

Lemma impl_decode_packet_nn v fb body : osat (fun p => packet_strings_no_nul p = true) (impl_decode_packet v fb body).
Proof.
  destruct v; cbn [impl_decode_packet]; [unfold decode_packet5 | unfold decode_packet311]; cbv zeta;
    repeat match goal with |- osat _ (if ?c then _ else _) => destruct c end;
    first [ exact I
          | apply osat_omap; first [apply decode_ack5_nn | apply decode_ack311_nn]
          | apply decode_connack_packet5_nn | apply decode_connack_packet311_nn
          | apply decode_publish_packet5_nn | apply decode_publish_packet311_nn
          | apply decode_suback_packet5_nn | apply decode_suback_packet311_nn
          | apply decode_unsuback_packet5_nn | apply decode_unsuback_packet311_nn
          | apply decode_pingresp_packet_nn
          | apply decode_disconnect_packet5_nn | apply decode_disconnect_packet311_nn
          | apply decode_auth_packet5_nn ].
Qed.

(* ---- the statements pinned in Properties/C03.v (vocabulary: Codec/StringsNoNul.v) ---- *)
Theorem strings_no_nul_helpers :
  (forall b s rest, decode_length_prefixed_string b = Ok (s, rest) -> no_null s = true) /\
  (forall b s rest, decode_optional_length_prefixed_string b None = Ok (Some s, rest) -> no_null s = true) /\
  (forall b props name value l rest, decode_user_property b props = Ok (Some (l ++ [{| up_name := name; up_value := value |}]), rest) ->
     no_null name = true /\ no_null value = true).
Proof.
  split; [|split].
  - intros b s rest H. exact (osat_ok _ _ _ (decode_length_prefixed_string_nn b) H).
  - intros b s rest H. exact (osat_ok _ _ _ (decode_optional_length_prefixed_string_nn b None) H).
  - intros b props name value l rest H. unfold decode_user_property in H.
    pose proof (decode_length_prefixed_string_nn b) as H1.
    destruct (decode_length_prefixed_string b) as [[n b1]| |]; cbn [obind] in H; try discriminate.
    pose proof (decode_length_prefixed_string_nn b1) as H2.
    destruct (decode_length_prefixed_string b1) as [[v2 b2]| |]; cbn [obind] in H; try discriminate.
    cbn [osat fst] in H1, H2. inversion H as [[Hl Hr]]. apply app_inj_tail in Hl. destruct Hl as [_ Hu].
    inversion Hu; subst. split; assumption.
Qed.

Theorem strings_no_nul : forall v first_byte body p,
  impl_decode_packet v first_byte body = Ok p -> packet_strings_no_nul p = true.
Proof. intros v fb body p H. exact (osat_ok _ _ _ (impl_decode_packet_nn v fb body) H). Qed.

(* through the framing decoder: every packet delivered from any byte stream, in any chunking *)
Section Stream.
  Variable body : N -> bytes -> outcome packet.
  Variable max_size : N.
  Variable P : packet -> Prop.
  Hypothesis Hbody : forall fb b p, body fb b = Ok p -> P p.

  Lemma turn_packet d b d' dir b' p : turn body max_size d b = (d', dir, b', Some p) -> P p.
  Proof.
    unfold turn. destruct (d_state d).
    - destruct (process_read_packet_type d b) as [[? ?] ?]. discriminate.
    - destruct (process_read_total_remaining_length max_size d b) as [[? ?] ?]. discriminate.
    - unfold process_read_packet_body.
      destruct (d_remaining_length d); [|discriminate].
      destruct (_ <? _); [discriminate|]. destruct (len b <? _); [discriminate|].
      destruct (slice_to _ _ _); try discriminate.
      destruct (if negb (is_empty (d_scratch d)) then _ else _) as [d1 ps].
      destruct (d_first_byte d) as [fb|]; [|discriminate].
      destruct (body fb ps) eqn:E; try discriminate.
      destruct (slice_from _ _ _); intros H; inversion H; subst; eapply Hbody; exact E.
    - discriminate.
  Qed.

  Lemma loop_packets : forall fuel d b, Forall P (snd (fst (loop body max_size fuel d b))).
  Proof.
    induction fuel as [|f IH]; intros d b; cbn [loop]; [constructor|].
    destruct (turn body max_size d b) as [[[d' dir] b'] pk] eqn:T.
    assert (Hpk : forall l, Forall P l -> Forall P (cons_opt pk l)).
    { destruct pk as [p|]; cbn [cons_opt]; auto. intros l Hl. constructor; [eapply turn_packet; exact T | exact Hl]. }
    destruct dir; try (cbn [fst snd]; apply Hpk; constructor).
    pose proof (IH d' b') as IH'. destruct (loop body max_size f d' b') as [[d2 ps] r]. cbn [fst snd] in *. apply Hpk, IH'.
  Qed.
End Stream.

Theorem strings_no_nul_stream : forall v max_size chunks d i,
  let '(d', ps, r, j) := decode_chunks v max_size d chunks i in
  Forall (fun p => packet_strings_no_nul p = true) ps.
Proof.
  intros v max_size chunks. induction chunks as [|c rest IH]; intros d i; cbn [decode_chunks]; [constructor|].
  pose proof (loop_packets (impl_decode_packet v) max_size (fun p => packet_strings_no_nul p = true)
                (strings_no_nul v) (fuel_for c) d c) as H.
  unfold decode_bytes, decode_bytes_with. destruct (loop _ _ _ d c) as [[d1 ps] r]. cbn [fst snd] in H.
  destruct r; try exact H.
  specialize (IH d1 (i + 1)). destruct (decode_chunks v max_size d1 rest (i + 1)) as [[[d2 ps2] r2] i2].
  apply Forall_app. split; assumption.
Qed.
