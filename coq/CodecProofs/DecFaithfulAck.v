(* C03 faithfulness, part 2: shared tactics; PINGRESP, the PUBACK family, SUBACK, UNSUBACK,
   DISCONNECT, AUTH — specification encoding (any legal property order, any compact form)
   decoded by the implementation to exactly the packet. *)
From GM Require Import Base.Prelude Base.Outcome Codec.Packets Codec.Prim Codec.ReasonCodes
  Codec.ImplDecode Codec.Framing Codec.SpecEncodeS2C.
From GM Require Import CodecProofs.DecPrim CodecProofs.FramingP CodecProofs.DecFaithful CodecProofs.DecReasonCodes.
Open Scope N_scope.

(* ---- helpers about items ---- *)
Lemma opt_item_inj {A} id (f : A -> pvalue) o o' :
  (forall x y, f x = f y -> x = y) -> opt_item id f o = opt_item id f o' -> o = o'.
Proof. intros Hf. destruct o, o'; cbn [opt_item]; intros H; inversion H; try reflexivity. f_equal. auto. Qed.

Lemma up_item_inj u u' : (38, PPair (up_name u) (up_value u)) = (38, PPair (up_name u') (up_value u')) -> u = u'.
Proof. destruct u, u'; cbn. intros H; inversion H; reflexivity. Qed.

Lemma up_items_inj o o' : nonempty_list o = true -> nonempty_list o' = true -> up_items o = up_items o' -> o = o'.
Proof.
  destruct o as [l|], o' as [l'|]; cbn [up_items nonempty_list].
  - intros _ _ H. f_equal. revert l' H. induction l as [|u l IH]; intros [|u' l'] H; cbn [map] in H; try discriminate; [reflexivity|].
    inversion H. f_equal; [destruct u, u'; cbn in *; congruence | apply IH; assumption].
  - destruct l; [discriminate|]. intros _ _ H. discriminate.
  - destruct l'; [intros _ H; discriminate|]. intros _ _ H. discriminate.
  - reflexivity.
Qed.

Lemma subid_items_inj o o' : nonempty_list o = true -> nonempty_list o' = true -> subid_items o = subid_items o' -> o = o'.
Proof.
  destruct o as [l|], o' as [l'|]; cbn [subid_items nonempty_list].
  - intros _ _ H. f_equal. revert l' H. induction l as [|u l IH]; intros [|u' l'] H; cbn [map] in H; try discriminate; [reflexivity|].
    inversion H. f_equal. apply IH; assumption.
  - destruct l; [discriminate|]. intros _ _ H. discriminate.
  - destruct l'; [intros _ H; discriminate|]. intros _ _ H. discriminate.
  - reflexivity.
Qed.

Lemma up_items_snoc o u :
  up_items (Some ((match o with None => [] | Some l => l end) ++ [u])) = up_items o ++ [(38, PPair (up_name u) (up_value u))].
Proof. destruct o; cbn [up_items]; [rewrite map_app; reflexivity | reflexivity]. Qed.
Lemma subid_items_snoc o i :
  subid_items (Some ((match o with None => [] | Some l => l end) ++ [i])) = subid_items o ++ [(11, PVbi i)].
Proof. destruct o; cbn [subid_items]; [rewrite map_app; reflexivity | reflexivity]. Qed.

Lemma snoc_nonempty {A} (o : option (list A)) x :
  nonempty_list (Some ((match o with None => [] | Some l => l end) ++ [x])) = true.
Proof. destruct o as [[|]|]; reflexivity. Qed.

Lemma all_with_id_nil its : (forall k, with_id k its = []) -> its = [].
Proof.
  destruct its as [|[k v] r]; [reflexivity|]. intros H. specialize (H k).
  cbn [with_id filter fst] in H. rewrite N.eqb_refl in H. discriminate.
Qed.

Lemma same_per_id_nil a : same_per_id a [] -> a = [].
Proof. intros H. apply all_with_id_nil. intros k. rewrite (H k). reflexivity. Qed.

Lemma opt_item_nil {A} id (f : A -> pvalue) o : opt_item id f o = [] -> o = None.
Proof. destruct o; [discriminate | reflexivity]. Qed.
Lemma up_items_nil o : nonempty_list o = true -> up_items o = [] -> o = None.
Proof. destruct o as [[|]|]; cbn; try discriminate; reflexivity. Qed.
Lemma subid_items_nil o : nonempty_list o = true -> subid_items o = [] -> o = None.
Proof. destruct o as [[|]|]; cbn; try discriminate; reflexivity. Qed.

Lemma w_vbi_nonempty x l : w_vbi x = Some l -> len l =? 0 = false.
Proof.
  intros H. destruct (w_vbi_shape _ _ H) as [c [last [-> _]]]. rewrite len_app.
  change (len [last]) with 1. lia.
Qed.

Lemma print_properties_inv its props : print_properties its = Some props ->
  exists ps l, print_items its = Some ps /\ w_vbi (len ps) = Some l /\ props = l ++ ps.
Proof.
  unfold print_properties. destruct (print_items its) as [ps|]; [|discriminate].
  destruct (w_vbi (len ps)) as [l|] eqn:W; [|discriminate]. intros H; inversion H. eauto.
Qed.

(* closed comparisons of identifiers *)
Ltac eqb_compute :=
  repeat match goal with
         | |- context [N.eqb (Npos ?a) (Npos ?b)] =>
           let r := eval vm_compute in (N.eqb (Npos a) (Npos b)) in change (N.eqb (Npos a) (Npos b)) with r
         | H : context [N.eqb (Npos ?a) (Npos ?b)] |- _ =>
           let r := eval vm_compute in (N.eqb (Npos a) (Npos b)) in change (N.eqb (Npos a) (Npos b)) with r in H
         end.

(* value shape from the wire type recorded in Table 2-4 *)
Ltac invert_item Pi :=
  let t := fresh "t" in let vb := fresh "vb" in let T := fresh "T" in let W := fresh "W" in
  let B := fresh "B" in let P := fresh "P" in let E := fresh "E" in
  destruct (print_item_inv _ _ _ Pi) as [t [vb [T [W [B [P [E _]]]]]]];
  vm_compute in T; inversion T; subst t; clear T;
  match type of W with wire_type_eqb _ (pvalue_type ?v) = true => destruct v; try discriminate W end;
  clear W; inversion E; subst; clear E; cbn [print_value] in P.

(* the "exactly these items were added" part of an arm step, for the field of identifier [id] *)
Ltac solve_absorbed unfold_items :=
  split;
  [ intros k; unfold_items;
    rewrite ?with_id_app, ?with_id_opt_item, ?with_id_up_items, ?with_id_subid_items;
    cbn [with_id filter fst];
    match goal with
    | |- context [N.eqb ?id k] =>
      destruct (N.eqb_spec id k) as [<-|Hne];
      [ eqb_compute; cbn [app opt_item]; rewrite ?app_nil_r, ?up_items_snoc, ?subid_items_snoc; reflexivity
      | rewrite ?app_nil_r; reflexivity ]
    end
  | split; [reflexivity | try (intros; assumption)] ].

(* ================================================================================== *)
(* PUBACK / PUBREC / PUBREL / PUBCOMP                                                   *)
(* ================================================================================== *)
Definition ack_hdr (a : ack) := (ack_pid a, ack_rc a).
Definition ack_canon (a : ack) : Prop := nonempty_list (ack_up a) = true.

Lemma ack_ext a a' :
  (forall k, with_id k (items_ack a) = with_id k (items_ack a')) -> ack_hdr a = ack_hdr a' ->
  ack_canon a -> ack_canon a' -> a = a'.
Proof.
  destruct a as [pid rc r u], a' as [pid' rc' r' u']. unfold ack_hdr, ack_canon, items_ack. cbn.
  intros H Hh C C'. inversion Hh; subst.
  pose proof (H 31) as H31. pose proof (H 38) as H38.
  rewrite !with_id_app, !with_id_opt_item, !with_id_up_items in H31, H38. eqb_compute. rewrite ?app_nil_r in *. cbn [app] in *.
  apply opt_item_inj in H31; [|intros x y E; inversion E; reflexivity].
  apply up_items_inj in H38; auto. subst. reflexivity.
Qed.

Lemma ack_arm_step : forall id v vb s rest,
  id_mem id (allowed_props 4) = true ->
  print_item (id, v) = Some (id :: vb) ->
  (repeatable 4 id = true \/ with_id id (items_ack s) = []) ->
  exists s', ack_arm id (vb ++ rest) s = Ok (s', rest) /\
             (forall k, with_id k (items_ack s') = with_id k (items_ack s) ++ with_id k [(id, v)]) /\
             ack_hdr s' = ack_hdr s /\ (ack_canon s -> ack_canon s').
Proof.
  intros id v vb s rest Hal Pi Hpre.
  unfold id_mem, allowed_props in Hal. cbn [existsb] in Hal. eqb_compute. cbn in Hal.
  repeat (apply orb_true_iff in Hal; destruct Hal as [Hal|Hal]); try discriminate; apply N.eqb_eq in Hal; subst id.
  - (* 31 reason string *)
    invert_item Pi. unfold ack_arm. eqb_compute.
    destruct Hpre as [Hr|Hn]; [discriminate Hr|].
    unfold items_ack in Hn. rewrite with_id_app, with_id_opt_item, with_id_up_items in Hn. eqb_compute.
    rewrite app_nil_r in Hn. apply opt_item_nil in Hn.
    rewrite Hn. rewrite (dec_opt_string_w _ _ _ P). cbn [obind]. eexists. split; [reflexivity|].
    solve_absorbed ltac:(unfold items_ack; cbn [ack_reason ack_up ack_set_reason]; rewrite ?Hn).
  - (* 38 user property *)
    invert_item Pi. unfold ack_arm. eqb_compute.
    destruct (w_string name) as [kb|] eqn:Wk; [|discriminate]. destruct (w_string value) as [vb'|] eqn:Wv; [|discriminate].
    inversion P; subst; clear P.
    rewrite (dec_user_property_w _ _ _ _ _ _ Wk Wv). cbn [obind]. eexists. split; [reflexivity|].
    split; [|split; [reflexivity | intros _; unfold ack_canon; cbn [ack_up ack_set_up]; apply snoc_nonempty]].
    intros k. unfold items_ack. cbn [ack_reason ack_up ack_set_up].
    rewrite !with_id_app, !with_id_opt_item, !with_id_up_items. cbn [with_id filter fst].
    destruct (N.eqb_spec 38 k) as [<-|Hne].
    + eqb_compute. cbn [app]. rewrite up_items_snoc. reflexivity.
    + rewrite ?app_nil_r. reflexivity.
Qed.

(* allowed_props / repeatable are the same for the packet types that carry only reason string + user property *)
Lemma items_allowed_rsup pt its :
  pt = 4 \/ pt = 5 \/ pt = 6 \/ pt = 7 \/ pt = 9 \/ pt = 11 -> items_allowed pt its = items_allowed 4 its.
Proof. intros [->|[->|[->|[->|[->| ->]]]]]; reflexivity. Qed.

Lemma ack_properties : forall its ps pid rc a,
  print_items its = Some ps -> items_allowed 4 its = true ->
  same_per_id (items_ack a) its -> ack_pid a = pid -> ack_rc a = rc -> ack_canon a ->
  decode_properties ack_arm ps {| ack_pid := pid; ack_rc := rc; ack_reason := None; ack_up := None |} = Ok a.
Proof.
  intros its ps pid rc a Hp Hal Hs Hpid Hrc Hc.
  set (s0 := {| ack_pid := pid; ack_rc := rc; ack_reason := None; ack_up := None |}).
  destruct (properties_any_order ack_arm items_ack ack_hdr 4 ack_canon ack_arm_step its ps s0 a Hp Hal eq_refl Hs)
    as [s' [Hd [Hv [Hh Hi]]]].
  { unfold ack_hdr, s0. cbn. congruence. }
  rewrite Hd. f_equal. apply ack_ext; auto. apply Hi. reflexivity.
Qed.

Theorem decode_ack5_faithful : forall fbx impl_ok spec_ok a its compact body,
  (forall b, b < 256 -> impl_ok b = spec_ok b) ->
  spec_ok (ack_rc a) = true -> nonempty_list (ack_up a) = true ->
  items_allowed 4 its = true ->
  same_per_id (items_ack a) its ->
  ack_body (ack_pid a) (ack_rc a) its compact = Some body ->
  decode_ack5 fbx impl_ok fbx body = Ok a.
Proof.
  intros fbx impl_ok spec_ok a its compact body Htab Hrc Hup Hal Hs Hb.
  unfold ack_body in Hb.
  destruct (w_u16 (ack_pid a)) as [pidb|] eqn:Wp; [|discriminate].
  destruct (w_u8 (ack_rc a)) as [rcb|] eqn:Wr; [|discriminate].
  pose proof (w_u8_inv _ _ Wr) as [Hrc256 ->].
  assert (Hconv : conv_table impl_ok (ack_rc a) = Ok (ack_rc a)).
  { unfold conv_table. rewrite (Htab _ Hrc256), Hrc. reflexivity. }
  unfold decode_ack5. rewrite N.eqb_refl. cbn [negb].
  destruct its as [|it its'].
  - (* no properties *)
    apply same_per_id_nil in Hs. unfold items_ack in Hs. apply app_eq_nil in Hs. destruct Hs as [H1 H2].
    apply opt_item_nil in H1. apply up_items_nil in H2; [|exact Hup].
    assert (Ea : a = {| ack_pid := ack_pid a; ack_rc := ack_rc a; ack_reason := None; ack_up := None |})
      by (destruct a; cbn in *; subst; reflexivity).
    destruct ((2 <=? compact) && (ack_rc a =? 0)) eqn:C2.
    + inversion Hb; subst body. rewrite <- (app_nil_r pidb). rewrite (dec_u16_w _ _ _ Wp). cbn [obind].
      change (len (@nil N) =? 0) with true. cbn iota.
      apply andb_true_iff in C2. destruct C2 as [_ C2]. apply N.eqb_eq in C2. f_equal.
      transitivity {| ack_pid := ack_pid a; ack_rc := ack_rc a; ack_reason := None; ack_up := None |}; [rewrite C2; reflexivity | symmetry; exact Ea].
    + destruct (1 <=? compact).
      * inversion Hb; subst body. rewrite (dec_u16_w _ _ _ Wp). cbn [obind].
        change (len [ack_rc a] =? 0) with false. cbn iota.
        rewrite decode_u8_as_enum_spec. rewrite Hconv. cbn [obind].
        change (len (@nil N) =? 0) with true. cbn iota. f_equal. symmetry. exact Ea.
      * inversion Hb; subst body. rewrite (dec_u16_w _ _ _ Wp). cbn [obind app].
        change (len [ack_rc a; 0] =? 0) with false. cbn iota.
        rewrite decode_u8_as_enum_spec. rewrite Hconv. cbn [obind].
        change (len [0] =? 0) with false. cbn iota.
        change (decode_vli_into_mutable [0]) with (@Ok (N * bytes) (0, [])). cbn [obind].
        change (negb (0 =? len (@nil N))) with false. cbn iota.
        unfold decode_properties. cbn [length prop_loop]. f_equal. symmetry. exact Ea.
  - (* with properties *)
    destruct (print_properties (it :: its')) as [props|] eqn:Pp; [|discriminate]. inversion Hb; subst body; clear Hb.
    destruct (print_properties_inv _ _ Pp) as [ps [l [Hps [Hl ->]]]].
    rewrite (dec_u16_w _ _ _ Wp). cbn [obind].
    cbn [app]. rewrite len_cons. replace (1 + len (l ++ ps) =? 0) with false by lia.
    rewrite decode_u8_as_enum_spec. rewrite Hconv. cbn [obind].
    replace (len (l ++ ps) =? 0) with false by (pose proof (w_vbi_nonempty _ _ Hl); rewrite len_app; lia).
    rewrite (dec_vli_mut_w _ _ _ Hl). cbn [obind]. rewrite N.eqb_refl. cbn [negb].
    apply (ack_properties (it :: its')); auto.
Qed.

(* MQTT 3.1.1: two bytes of packet identifier *)
Theorem decode_ack311_faithful : forall fbx a body,
  ack_rc a = 0 -> ack_reason a = None -> ack_up a = None ->
  w_u16 (ack_pid a) = Some body -> decode_ack311 fbx fbx body = Ok a.
Proof.
  intros fbx a body H1 H2 H3 W. unfold decode_ack311. rewrite N.eqb_refl. cbn [negb].
  pose proof (w_u16_inv _ _ W) as [_ E]. rewrite E at 1. change (len [ack_pid a / 256; ack_pid a mod 256] =? 2) with true.
  cbn [negb]. rewrite <- (app_nil_r body). rewrite (dec_u16_w _ _ _ W). cbn [obind].
  destruct a; cbn in *; subst. reflexivity.
Qed.

(* ================================================================================== *)
(* a tactic for one arm of a property loop                                              *)
(* ================================================================================== *)
Ltac none_from_pre Hpre unfold_items :=
  let Hr := fresh "Hr" in let Hn := fresh "Hn" in
  destruct Hpre as [Hr|Hn]; [vm_compute in Hr; discriminate Hr|];
  unfold_items Hn;
  rewrite ?with_id_app, ?with_id_opt_item, ?with_id_up_items, ?with_id_subid_items in Hn;
  eqb_compute; cbn iota in Hn; rewrite ?app_nil_r in Hn; cbn [app] in Hn;
  apply opt_item_nil in Hn.

Ltac split_allowed Hal :=
  unfold id_mem, allowed_props in Hal; eqb_compute; cbn iota in Hal; cbn [existsb] in Hal;
  repeat (apply orb_true_iff in Hal; destruct Hal as [Hal|Hal]); try discriminate Hal;
  apply N.eqb_eq in Hal; subst.

Lemma byte01 n : (n <? 2) = true -> n = 0 \/ n = 1.
Proof. lia. Qed.

(* ================================================================================== *)
(* SUBACK                                                                               *)
(* ================================================================================== *)
Definition sa_hdr (s : suback) := (sa_pid s, sa_codes s).
Definition sa_canon (s : suback) : Prop := nonempty_list (sa_up s) = true.

Lemma sa_ext a a' :
  (forall k, with_id k (items_suback a) = with_id k (items_suback a')) -> sa_hdr a = sa_hdr a' ->
  sa_canon a -> sa_canon a' -> a = a'.
Proof.
  destruct a as [pid r u codes], a' as [pid' r' u' codes']. unfold sa_hdr, sa_canon, items_suback. cbn.
  intros H Hh C C'. inversion Hh; subst.
  pose proof (H 31) as H31. pose proof (H 38) as H38.
  rewrite !with_id_app, !with_id_opt_item, !with_id_up_items in H31, H38. eqb_compute. rewrite ?app_nil_r in *. cbn [app] in *.
  apply opt_item_inj in H31; [|intros x y E; inversion E; reflexivity].
  apply up_items_inj in H38; auto. subst. reflexivity.
Qed.

Lemma suback_arm_step : forall id v vb s rest,
  id_mem id (allowed_props 9) = true ->
  print_item (id, v) = Some (id :: vb) ->
  (repeatable 9 id = true \/ with_id id (items_suback s) = []) ->
  exists s', suback_arm id (vb ++ rest) s = Ok (s', rest) /\ absorbed items_suback sa_hdr sa_canon s s' (id, v).
Proof.
  intros id v vb s rest Hal Pi Hpre. split_allowed Hal.
  - invert_item Pi. unfold suback_arm. eqb_compute. cbn iota.
    none_from_pre Hpre ltac:(fun H => unfold items_suback in H).
    rewrite Hn. rewrite (dec_opt_string_w _ _ _ P). cbn [obind]. eexists. split; [reflexivity|].
    solve_absorbed ltac:(unfold items_suback; cbn [sa_reason sa_up sa_set_reason]; rewrite ?Hn).
  - invert_item Pi. unfold suback_arm. eqb_compute. cbn iota.
    destruct (w_string name) as [kb|] eqn:Wk; [|discriminate]. destruct (w_string value) as [vb'|] eqn:Wv; [|discriminate].
    inversion P; subst; clear P.
    rewrite (dec_user_property_w _ _ _ _ _ _ Wk Wv). cbn [obind]. eexists. split; [reflexivity|].
    split; [|split; [reflexivity | intros _; unfold sa_canon; cbn [sa_up sa_set_up]; apply snoc_nonempty]].
    intros k. unfold items_suback. cbn [sa_reason sa_up sa_set_up].
    rewrite !with_id_app, !with_id_opt_item, !with_id_up_items. cbn [with_id filter fst].
    destruct (N.eqb_spec 38 k) as [<-|Hne].
    + eqb_compute. cbn [app]. rewrite up_items_snoc. reflexivity.
    + rewrite ?app_nil_r. reflexivity.
Qed.

Lemma w_codes_decode ok_spec ok_impl : (forall b, b < 256 -> ok_spec b = true -> ok_impl b = true) ->
  forall codes bs, forallb ok_spec codes = true -> w_codes codes = Some bs ->
  decode_codes (conv_table ok_impl) bs = Ok codes.
Proof.
  intros Hok. induction codes as [|c r IH]; intros bs Hall Hw; cbn [w_codes] in Hw.
  - inversion Hw. reflexivity.
  - destruct (w_u8 c) as [cb|] eqn:Wc; [|discriminate]. destruct (w_codes r) as [rb|] eqn:Wr; [|discriminate].
    inversion Hw; subst; clear Hw. apply w_u8_inv in Wc. destruct Wc as [Hc ->].
    cbn [forallb] in Hall. apply andb_true_iff in Hall. destruct Hall as [H1 H2].
    cbn [app decode_codes]. unfold conv_table at 1. rewrite (Hok c Hc H1). cbn [obind].
    rewrite (IH rb H2 eq_refl). reflexivity.
Qed.

Theorem decode_suback5_faithful : forall s its compact fb body,
  legal_suback V5 s = true -> same_per_id (items_suback s) its ->
  spec_body V5 (Suback s) its compact = Some (fb, body) ->
  decode_suback_packet5 fb body = Ok (Suback s).
Proof.
  intros s its compact fb body Hleg Hs Hb. cbn [spec_body] in Hb.
  destruct (items_allowed 9 its) eqn:Hal; [|discriminate].
  destruct (w_u16 (sa_pid s)) as [pidb|] eqn:Wp; [|discriminate].
  destruct (print_properties its) as [props|] eqn:Pp; [|discriminate].
  destruct (w_codes (sa_codes s)) as [cb|] eqn:Wc; [|discriminate].
  inversion Hb; subst fb body; clear Hb.
  destruct (print_properties_inv _ _ Pp) as [ps [l [Hps [Hl ->]]]].
  cbn [legal_suback] in Hleg. apply andb_true_iff in Hleg. destruct Hleg as [Hcodes Hup].
  unfold decode_suback_packet5. rewrite N.eqb_refl. cbn [negb].
  rewrite (dec_u16_w _ _ _ Wp). cbn [obind]. rewrite <- app_assoc.
  rewrite (dec_vli_mut_w _ _ _ Hl). cbn [obind].
  rewrite len_app. replace (len ps + len cb <? len ps) with false by lia.
  unfold slice_to, slice_from. rewrite len_app. replace (len ps <=? len ps + len cb) with true by lia.
  rewrite take_all_app, drop_all_app. cbn [obind].
  set (s0 := {| sa_pid := sa_pid s; sa_reason := None; sa_up := None; sa_codes := [] |}).
  pose (p := sa_set_codes s []).
  destruct (properties_any_order suback_arm items_suback sa_hdr 9 sa_canon suback_arm_step its ps s0 p Hps Hal eq_refl)
    as [s' [Hd [Hv [Hh Hi]]]]; [exact Hs | reflexivity |].
  rewrite Hd. cbn [obind].
  rewrite (w_codes_decode spec_suback_code_ok impl_suback_code_ok) with (codes := sa_codes s);
    [| intros b Hb Hok; rewrite reason_codes_suback; auto | exact Hcodes | exact Wc].
  cbn [obind]. f_equal. f_equal.
  assert (E : s' = p) by (apply sa_ext; auto; apply Hi; reflexivity).
  rewrite E. unfold p. destruct s; reflexivity.
Qed.

Theorem decode_suback311_faithful : forall s its compact fb body,
  legal_suback V311 s = true ->
  spec_body V311 (Suback s) its compact = Some (fb, body) ->
  decode_suback_packet311 fb body = Ok (Suback s).
Proof.
  intros s its compact fb body Hleg Hb. cbn [spec_body] in Hb.
  destruct (w_u16 (sa_pid s)) as [pidb|] eqn:Wp; [|discriminate].
  destruct (w_codes (sa_codes s)) as [cb|] eqn:Wc; [|discriminate].
  inversion Hb; subst fb body; clear Hb.
  cbn [legal_suback] in Hleg. apply andb_true_iff in Hleg. destruct Hleg as [Hleg Hup].
  apply andb_true_iff in Hleg. destruct Hleg as [Hcodes Hr].
  unfold decode_suback_packet311. rewrite N.eqb_refl. cbn [negb].
  rewrite (dec_u16_w _ _ _ Wp). cbn [obind].
  rewrite (w_codes_decode spec_suback311_code_ok impl_suback311_code_ok) with (codes := sa_codes s);
    [| intros b Hb Hok; rewrite reason_codes_suback311; auto | exact Hcodes | exact Wc].
  cbn [obind]. destruct s as [pid [r|] [u|] codes]; cbn in *; try discriminate. reflexivity.
Qed.

(* ================================================================================== *)
(* UNSUBACK                                                                             *)
(* ================================================================================== *)
Definition ua_hdr (s : unsuback) := (ua_pid s, ua_codes s).
Definition ua_canon (s : unsuback) : Prop := nonempty_list (ua_up s) = true.

Lemma ua_ext a a' :
  (forall k, with_id k (items_unsuback a) = with_id k (items_unsuback a')) -> ua_hdr a = ua_hdr a' ->
  ua_canon a -> ua_canon a' -> a = a'.
Proof.
  destruct a as [pid r u codes], a' as [pid' r' u' codes']. unfold ua_hdr, ua_canon, items_unsuback. cbn.
  intros H Hh C C'. inversion Hh; subst.
  pose proof (H 31) as H31. pose proof (H 38) as H38.
  rewrite !with_id_app, !with_id_opt_item, !with_id_up_items in H31, H38. eqb_compute. rewrite ?app_nil_r in *. cbn [app] in *.
  apply opt_item_inj in H31; [|intros x y E; inversion E; reflexivity].
  apply up_items_inj in H38; auto. subst. reflexivity.
Qed.

Lemma unsuback_arm_step : forall id v vb s rest,
  id_mem id (allowed_props 11) = true ->
  print_item (id, v) = Some (id :: vb) ->
  (repeatable 11 id = true \/ with_id id (items_unsuback s) = []) ->
  exists s', unsuback_arm id (vb ++ rest) s = Ok (s', rest) /\ absorbed items_unsuback ua_hdr ua_canon s s' (id, v).
Proof.
  intros id v vb s rest Hal Pi Hpre. split_allowed Hal.
  - invert_item Pi. unfold unsuback_arm. eqb_compute. cbn iota.
    none_from_pre Hpre ltac:(fun H => unfold items_unsuback in H).
    rewrite Hn. rewrite (dec_opt_string_w _ _ _ P). cbn [obind]. eexists. split; [reflexivity|].
    solve_absorbed ltac:(unfold items_unsuback; cbn [ua_reason ua_up ua_set_reason]; rewrite ?Hn).
  - invert_item Pi. unfold unsuback_arm. eqb_compute. cbn iota.
    destruct (w_string name) as [kb|] eqn:Wk; [|discriminate]. destruct (w_string value) as [vb'|] eqn:Wv; [|discriminate].
    inversion P; subst; clear P.
    rewrite (dec_user_property_w _ _ _ _ _ _ Wk Wv). cbn [obind]. eexists. split; [reflexivity|].
    split; [|split; [reflexivity | intros _; unfold ua_canon; cbn [ua_up ua_set_up]; apply snoc_nonempty]].
    intros k. unfold items_unsuback. cbn [ua_reason ua_up ua_set_up].
    rewrite !with_id_app, !with_id_opt_item, !with_id_up_items. cbn [with_id filter fst].
    destruct (N.eqb_spec 38 k) as [<-|Hne].
    + eqb_compute. cbn [app]. rewrite up_items_snoc. reflexivity.
    + rewrite ?app_nil_r. reflexivity.
Qed.

Theorem decode_unsuback5_faithful : forall s its compact fb body,
  legal_unsuback V5 s = true -> same_per_id (items_unsuback s) its ->
  spec_body V5 (Unsuback s) its compact = Some (fb, body) ->
  decode_unsuback_packet5 fb body = Ok (Unsuback s).
Proof.
  intros s its compact fb body Hleg Hs Hb. cbn [spec_body] in Hb.
  destruct (items_allowed 11 its) eqn:Hal; [|discriminate].
  destruct (w_u16 (ua_pid s)) as [pidb|] eqn:Wp; [|discriminate].
  destruct (print_properties its) as [props|] eqn:Pp; [|discriminate].
  destruct (w_codes (ua_codes s)) as [cb|] eqn:Wc; [|discriminate].
  inversion Hb; subst fb body; clear Hb.
  destruct (print_properties_inv _ _ Pp) as [ps [l [Hps [Hl ->]]]].
  cbn [legal_unsuback] in Hleg. apply andb_true_iff in Hleg. destruct Hleg as [Hcodes Hup].
  unfold decode_unsuback_packet5. rewrite N.eqb_refl. cbn [negb].
  rewrite (dec_u16_w _ _ _ Wp). cbn [obind]. rewrite <- app_assoc.
  rewrite (dec_vli_mut_w _ _ _ Hl). cbn [obind].
  rewrite len_app. replace (len ps + len cb <? len ps) with false by lia.
  unfold slice_to, slice_from. rewrite len_app. replace (len ps <=? len ps + len cb) with true by lia.
  rewrite take_all_app, drop_all_app. cbn [obind].
  set (s0 := {| ua_pid := ua_pid s; ua_reason := None; ua_up := None; ua_codes := [] |}).
  pose (p := ua_set_codes s []).
  destruct (properties_any_order unsuback_arm items_unsuback ua_hdr 11 ua_canon unsuback_arm_step its ps s0 p Hps Hal eq_refl)
    as [s' [Hd [Hv [Hh Hi]]]]; [exact Hs | reflexivity |].
  rewrite Hd. cbn [obind].
  rewrite (w_codes_decode spec_unsuback_code_ok impl_unsuback_code_ok) with (codes := ua_codes s);
    [| intros b Hb Hok; apply reason_codes_unsuback_spec_accepted; assumption | exact Hcodes | exact Wc].
  cbn [obind]. f_equal. f_equal.
  assert (E : s' = p) by (apply ua_ext; auto; apply Hi; reflexivity).
  rewrite E. unfold p. destruct s; reflexivity.
Qed.

(* regression of the former defect D1 (fixed by 4bdb294): 0x8F decodes *)
Example decode_unsuback5_143 :
  decode_unsuback_packet5 176 [0; 1; 0; 143] =
  Ok (Unsuback {| ua_pid := 1; ua_reason := None; ua_up := None; ua_codes := [143] |}).
Proof. vm_compute. reflexivity. Qed.

Theorem decode_unsuback311_faithful : forall s its compact fb body,
  legal_unsuback V311 s = true ->
  spec_body V311 (Unsuback s) its compact = Some (fb, body) ->
  decode_unsuback_packet311 fb body = Ok (Unsuback s).
Proof.
  intros s its compact fb body Hleg Hb. cbn [spec_body] in Hb.
  destruct (w_u16 (ua_pid s)) as [pidb|] eqn:Wp; [|discriminate].
  inversion Hb; subst fb body; clear Hb.
  unfold decode_unsuback_packet311. rewrite N.eqb_refl. cbn [negb].
  pose proof (w_u16_inv _ _ Wp) as [_ E]. rewrite E at 1.
  change (len [ua_pid s / 256; ua_pid s mod 256] =? 2) with true. cbn [negb].
  rewrite <- (app_nil_r pidb). rewrite (dec_u16_w _ _ _ Wp). cbn [obind].
  destruct s as [pid [r|] [u|] [|c codes]]; cbn in *; try discriminate. reflexivity.
Qed.

(* ================================================================================== *)
(* PINGRESP                                                                             *)
(* ================================================================================== *)
Theorem decode_pingresp_faithful : forall v its compact fb body,
  spec_body v Pingresp its compact = Some (fb, body) -> impl_decode_packet v fb body = Ok Pingresp.
Proof. intros v its compact fb body H. destruct v; cbn [spec_body] in H; inversion H; subst; vm_compute; reflexivity. Qed.
