(* C02 proofs: PUBLISH *)
From GM Require Import Base.Prelude Base.Outcome Codec.Prim Codec.Packets Codec.Steps Codec.ImplEncode
  Codec.SpecDecodeC2S Codec.ValidC2S CodecProofs.EncPrim CodecProofs.EncProps CodecProofs.EncAck CodecProofs.EncDisc
  CodecProofs.EncSub.
Open Scope N_scope.

Definition pub_flags (p : publish) : N :=
  (if pub_dup p then 8 else 0) + pub_qos p * 2 + (if pub_retain p then 1 else 0).
Definition pid_bytes (p : publish) : bytes := if pub_qos p =? 0 then [] else be16 (pub_pid p).
Definition payload_bytes (p : publish) : bytes := match pub_payload p with Some d => d | None => [] end.

Lemma publish_d_body v p body : pub_qos p <= 2 ->
  d_body v (publish_first_byte p / 16) (publish_first_byte p mod 16) body = d_publish v (pub_flags p) body.
Proof.
  intros Hq. unfold publish_first_byte.
  assert (48 + (if pub_dup p then 8 else 0) + pub_qos p * 2 + (if pub_retain p then 1 else 0) = 48 + pub_flags p) as ->
    by (unfold pub_flags; lia).
  assert (pub_flags p <= 13) as Hf by (unfold pub_flags; destruct (pub_dup p), (pub_retain p); lia).
  assert ((48 + pub_flags p) / 16 = 3) as -> by lia.
  assert ((48 + pub_flags p) mod 16 = pub_flags p) as -> by lia.
  reflexivity.
Qed.

Lemma pub_flags_bits p : pub_qos p <= 2 ->
  pub_flags p mod 2 = (if pub_retain p then 1 else 0) /\ pub_flags p / 2 mod 4 = pub_qos p /\
  pub_flags p / 8 = (if pub_dup p then 1 else 0).
Proof. intros Hq. unfold pub_flags. destruct (pub_dup p), (pub_retain p); lia. Qed.

Lemma nonempty_payload p : nonempty (payload_bytes p) = norm_data (pub_payload p).
Proof. unfold payload_bytes. destruct (pub_payload p) as [[|x d]|]; reflexivity. Qed.

Lemma len_payload p : len (payload_bytes p) = osz (pub_payload p).
Proof. unfold payload_bytes. destruct (pub_payload p); reflexivity. Qed.

Lemma fl_payload p : fl (match pub_payload p with Some d => [SBytes d] | None => [] end) (payload_bytes p).
Proof. unfold payload_bytes. destruct (pub_payload p); [apply fl_bytes | apply fl_nil]. Qed.

Lemma fl_pid p : fl (if pub_qos p =? 0 then [] else [SU16 (pub_pid p)]) (pid_bytes p).
Proof. unfold pid_bytes. destruct (pub_qos p =? 0); [apply fl_nil | apply fl_u16]. Qed.

Lemma len_pid p : len (pid_bytes p) = if pub_qos p =? 0 then 0 else 2.
Proof. unfold pid_bytes. destruct (pub_qos p =? 0); reflexivity. Qed.

(* the packet identifier part, as the reference decoder reads it *)
Lemma pid_part p rest :
  (pub_qos p =? 0) && negb (pub_dup p) || negb (pub_qos p =? 0) && pid_ok (pub_pid p) = true ->
  (if pub_qos p =? 0 then @Some (N * bytes) (@pair N bytes 0 (pid_bytes p ++ rest)) else p_u16 (pid_bytes p ++ rest))
  = Some ((if pub_qos p =? 0 then 0 else pub_pid p), rest)
  /\ ((pub_qos p =? 0) || negb ((if pub_qos p =? 0 then 0 else pub_pid p) =? 0)) = true.
Proof.
  intros H. unfold pid_bytes. destruct (pub_qos p =? 0) eqn:E.
  - split; reflexivity.
  - cbn [andb orb negb] in H. destruct (pid_facts _ H) as [H1 H2]. rewrite p_u16_rt by assumption. split; [reflexivity | exact H2].
Qed.

Definition publish_items (r : resolution) (p : publish) : list item :=
  oi_num 1 (pub_pfi p) ++ oi_num 2 (pub_mei p) ++ oi_num 35 (r_alias r) ++ oi_data 8 (pub_response_topic p)
  ++ oi_data 9 (pub_correlation p) ++ oi_data 3 (pub_content_type p) ++ up_items (pub_up p).

Lemma publish_items_len r p : len (items_bytes (publish_items r p)) = publish_props_size r p.
Proof.
  unfold publish_items, publish_props_size. rewrite !items_bytes_app, !len_app.
  rewrite (len_items_byte 1) by reflexivity. rewrite (len_items_u32 2) by reflexivity.
  rewrite (len_items_u16 35) by reflexivity. rewrite (len_items_data 8) by (left; reflexivity).
  rewrite (len_items_data 9) by (right; reflexivity). rewrite (len_items_data 3) by (left; reflexivity).
  rewrite len_items_ups. lia.
Qed.

Lemma publish_rt5 : forall p r, valid_publish V5 r p = true ->
  exists bs, impl_encode_all V5 (Publish p) r = Ok bs /\ spec_decode V5 bs = Some (canon V5 r (Publish p), []).
Proof.
  intros p r H. unfold valid_publish in H.
  set (topic := if r_skip_topic r then [] else pub_topic p) in *.
  cbv zeta in H. fold topic in H. split_andb.
  match goal with H : (pub_qos p <=? 2) = true |- _ => rename H into Hq end.
  match goal with H : _ || _ = true |- _ => match type of H with context [pid_ok] => rename H into Hpid end end.
  match goal with H : str_valid topic = true |- _ => rename H into Htopic end.
  match goal with H : negb (len topic =? 0) || _ = true |- _ => rename H into Hte end.
  match goal with H : opt_ok _ (r_alias r) = true |- _ => rename H into Halias end.
  match goal with H : opt_ok _ (pub_pfi p) = true |- _ => rename H into Hpfi end.
  match goal with H : opt_ok _ (pub_mei p) = true |- _ => rename H into Hmei end.
  match goal with H : opt_ok _ (pub_response_topic p) = true |- _ => rename H into Hrt end.
  match goal with H : opt_ok _ (pub_correlation p) = true |- _ => rename H into Hcorr end.
  match goal with H : opt_ok _ (pub_content_type p) = true |- _ => rename H into Hct end.
  match goal with H : ups_valid _ = true |- _ => rename H into Hups end.
  match goal with H : match pub_subids p with _ => _ end = true |- _ => rename H into Hsub end.
  match goal with H : (_ <=? VLI_MAX) = true |- _ => rename H into Hsz end.
  assert (pub_qos p <= 2) as Hq' by lia.
  set (pl := publish_props_size r p) in *.
  pose proof (vbisz_bounds pl) as Hvb.
  assert (pl <= VLI_MAX) as Hple by (unfold VLI_MAX in *; lia).
  set (its := publish_items r p).
  assert (len (items_bytes its) = pl) as Hil by apply publish_items_len.
  set (body := be16 (u16 (len topic)) ++ topic ++ pid_bytes p ++ vli_bytes (len (items_bytes its)) ++ items_bytes its
               ++ payload_bytes p).
  assert (len body = 2 + len topic + (if pub_qos p =? 0 then 0 else 2) + vbisz pl + pl + osz (pub_payload p)) as Hbody.
  { unfold body. rewrite !len_app, len_be16, Hil, len_pid, len_payload. rewrite len_vli_bytes by assumption. lia. }
  assert (subid_steps (pub_subids p) = []) as Hsub_steps.
  { destruct (pub_subids p) as [[|? ?]|]; try discriminate; reflexivity. }
  apply (round_trip V5 _ r (publish_first_byte p) body).
  - eexists. split.
    + cbn [impl_steps impl_steps5]. unfold publish_steps5, publish_lengths5.
      assert (up_length (pub_up p) + opt_fixed_len 2 (pub_pfi p) + opt_fixed_len 5 (pub_mei p) + opt_fixed_len 3 (r_alias r)
              + opt_data_prop_len (pub_content_type p) + opt_data_prop_len (pub_response_topic p)
              + opt_data_prop_len (pub_correlation p) = pl) as ->.
      { unfold pl, publish_props_size. rewrite up_length_oupsz. change opt_data_prop_len with dsz.
        change (@opt_fixed_len) with (@fsz). lia. }
      assert (match pub_subids p with Some ids => subid_lengths ids pl | None => Ok pl end = Ok pl) as ->.
      { destruct (pub_subids p) as [[|? ?]|]; try discriminate; reflexivity. }
      cbn [obind]. rewrite vli_size_vbisz by assumption. cbn [obind]. rewrite Hsub_steps. reflexivity.
    + assert (u32 (match pub_payload p with
                   | Some d => (if pub_qos p =? 0 then (if r_skip_topic r then vbisz pl + 2 else vbisz pl + 2 + len (pub_topic p))
                                else (if r_skip_topic r then vbisz pl + 2 else vbisz pl + 2 + len (pub_topic p)) + 2) + pl + len d
                   | None => (if pub_qos p =? 0 then (if r_skip_topic r then vbisz pl + 2 else vbisz pl + 2 + len (pub_topic p))
                              else (if r_skip_topic r then vbisz pl + 2 else vbisz pl + 2 + len (pub_topic p)) + 2) + pl
                   end) = len body) as ->.
      { rewrite Hbody. clear Hbody. clearbody body. unfold topic in *. unfold osz in *. unfold VLI_MAX in *.
        destruct (pub_payload p), (pub_qos p =? 0), (r_skip_topic r); rewrite ?len_nil in *; rewrite u32_small; lia. }
      rewrite (u32_small pl) by (unfold VLI_MAX in *; lia).
      eapply fl_eq.
      { apply (fl_app [SU8 _; SVli _] _ (publish_first_byte p :: vli_bytes (len body))).
        { apply (fl_app [SU8 _] [SVli _] [_]); [apply fl_u8 | apply fl_vli; rewrite Hbody; unfold VLI_MAX in *; lia]. }
        apply (fl_app _ _ (be16 (u16 (len topic)) ++ topic)).
        { unfold topic. destruct (r_skip_topic r); [reflexivity | apply fl_lp_data]. }
        apply fl_app; [apply fl_pid|].
        apply (fl_app [SVli _] _); [apply fl_vli; assumption|].
        apply fl_app; [apply fl_opt_u8; reflexivity|].
        apply fl_app; [apply fl_opt_u32; reflexivity|].
        apply fl_app; [apply fl_opt_u16; reflexivity|].
        apply fl_app; [apply fl_opt_data; left; reflexivity|].
        apply fl_app; [apply fl_opt_data; right; reflexivity|].
        apply (fl_app [] _ []); [apply fl_nil|].
        apply fl_app; [apply fl_opt_data; left; reflexivity|].
        apply fl_app; [apply fl_ups | apply fl_payload]. }
      unfold body. rewrite Hil. unfold its, publish_items. rewrite !items_bytes_app. app_norm.
  - rewrite Hbody. unfold VLI_MAX in *. lia.
  - rewrite publish_d_body by assumption.
    destruct (pub_flags_bits p Hq') as (B1 & B2 & B3).
    unfold d_publish. cbv zeta. rewrite B1, B2, B3.
    assert (negb (pub_qos p =? 3) = true) as -> by lia.
    assert (negb ((pub_qos p =? 0) && ((if pub_dup p then 1 else 0) =? 1)) = true) as ->.
    { destruct (pub_qos p =? 0) eqn:E; [|reflexivity]. cbn [andb orb negb] in Hpid.
      rewrite orb_false_r in Hpid. destruct (pub_dup p); [discriminate | reflexivity]. }
    unfold body. rewrite (p_str_rt _ _ Htopic).
    destruct (pid_part p (vli_bytes (len (items_bytes its)) ++ items_bytes its ++ payload_bytes p) Hpid) as [P1 P2].
    rewrite P1, P2.
    rewrite p_props_rt.
    + assert (negb (len topic =? 0) || match get_num 35 its with Some _ => true | None => false end = true) as ->.
      { unfold its, publish_items. solve_get. destruct (r_alias r); [apply orb_true_r|]. cbn [is_some] in Hte. exact Hte. }
      cbn [canon canon_publish]. fold topic. rewrite nonempty_payload. unfold its, publish_items. solve_get.
      assert (((if pub_dup p then 1 else 0) =? 1) = pub_dup p) as -> by (destruct (pub_dup p); reflexivity).
      assert (((if pub_retain p then 1 else 0) =? 1) = pub_retain p) as -> by (destruct (pub_retain p); reflexivity).
      solve_get_ups.
    + unfold its, publish_items. rewrite !forallb_app. repeat (apply andb_true_iff; split).
      * eapply wf_oi_num; [exact Hpfi|]. intros y Hy. unfold item_wf. cbn [fst snd prop_type val_wf value_ok].
        eval_eqb. cbn [orb]. cbv beta in Hy. unfold U32_MAX, U16_MAX in *. lia.
      * eapply wf_oi_num; [exact Hmei|]. intros y Hy. unfold item_wf. cbn [fst snd prop_type val_wf value_ok].
        eval_eqb. cbn [orb]. cbv beta in Hy. unfold U32_MAX, U16_MAX in *. lia.
      * eapply wf_oi_num; [exact Halias|]. intros y Hy. unfold item_wf. cbn [fst snd prop_type val_wf value_ok].
        eval_eqb. cbn [orb]. cbv beta in Hy. unfold U32_MAX, U16_MAX in *. lia.
      * eapply wf_oi_data; [exact Hrt|]. intros s Hs. apply wf_str_item; [reflexivity | reflexivity | exact Hs].
      * eapply wf_oi_data; [exact Hcorr|]. intros s Hs. apply wf_bin_item; [reflexivity | reflexivity | exact Hs].
      * eapply wf_oi_data; [exact Hct|]. intros s Hs. apply wf_str_item; [reflexivity | reflexivity | exact Hs].
      * apply wf_up_items. exact Hups.
    + rewrite Hil. assumption.
    + unfold its, publish_items. solve_allowed.
    + unfold its, publish_items, allowed_publish. solve_once.
Qed.

Lemma publish_rt311 : forall p r, valid_publish V311 r p = true ->
  exists bs, impl_encode_all V311 (Publish p) r = Ok bs /\ spec_decode V311 bs = Some (canon V311 r (Publish p), []).
Proof.
  intros p r H. unfold valid_publish in H. split_andb.
  match goal with H : (pub_qos p <=? 2) = true |- _ => rename H into Hq end.
  match goal with H : _ || _ = true |- _ => match type of H with context [pid_ok] => rename H into Hpid end end.
  match goal with H : str_valid (pub_topic p) = true |- _ => rename H into Htopic end.
  match goal with H : negb (len (pub_topic p) =? 0) = true |- _ => rename H into Hte end.
  match goal with H : (_ <=? VLI_MAX) = true |- _ => rename H into Hsz end.
  assert (pub_qos p <= 2) as Hq' by lia.
  set (body := be16 (u16 (len (pub_topic p))) ++ pub_topic p ++ pid_bytes p ++ payload_bytes p).
  assert (len body = 2 + len (pub_topic p) + (if pub_qos p =? 0 then 0 else 2) + osz (pub_payload p)) as Hbody.
  { unfold body. rewrite !len_app, len_be16, len_pid, len_payload. lia. }
  apply (round_trip V311 _ r (publish_first_byte p) body).
  - eexists. split; [reflexivity|].
    assert (publish_length311 p = len body) as ->.
    { rewrite Hbody. unfold publish_length311. unfold osz in *. unfold VLI_MAX in *.
      destruct (pub_payload p), (pub_qos p =? 0); rewrite u32_small; lia. }
    eapply fl_eq.
    { apply (fl_app [SU8 _; SVli _] _ (publish_first_byte p :: vli_bytes (len body))).
      { apply (fl_app [SU8 _] [SVli _] [_]); [apply fl_u8 | apply fl_vli; rewrite Hbody; unfold VLI_MAX in *; lia]. }
      apply fl_app; [apply fl_lp_data|].
      apply fl_app; [apply fl_pid | apply fl_payload]. }
    unfold body. app_norm.
  - rewrite Hbody. unfold VLI_MAX in *. lia.
  - rewrite publish_d_body by assumption.
    destruct (pub_flags_bits p Hq') as (B1 & B2 & B3).
    unfold d_publish. cbv zeta. rewrite B1, B2, B3.
    assert (negb (pub_qos p =? 3) = true) as -> by lia.
    assert (negb ((pub_qos p =? 0) && ((if pub_dup p then 1 else 0) =? 1)) = true) as ->.
    { destruct (pub_qos p =? 0) eqn:E; [|reflexivity]. cbn [andb orb negb] in Hpid.
      rewrite orb_false_r in Hpid. destruct (pub_dup p); [discriminate | reflexivity]. }
    unfold body. rewrite (p_str_rt _ _ Htopic).
    destruct (pid_part p (payload_bytes p) Hpid) as [P1 P2].
    rewrite P1, P2. rewrite Hte. cbn [orb get_num get_data get_ups get_pairs canon canon_publish].
    rewrite nonempty_payload.
    assert (((if pub_dup p then 1 else 0) =? 1) = pub_dup p) as -> by (destruct (pub_dup p); reflexivity).
    assert (((if pub_retain p then 1 else 0) =? 1) = pub_retain p) as -> by (destruct (pub_retain p); reflexivity).
    reflexivity.
Qed.
