(* C03: the implementation's reason-code acceptance tables against the specification's, on all
   256 byte values (finite domain enumerated completely: forallb over 0..255 by vm_compute,
   lifted with forallb_forall; the bound is in the statement). *)
From GM Require Import Base.Prelude Codec.ReasonCodes.
Open Scope N_scope.

Definition agree256 (f g : N -> bool) : bool :=
  forallb (fun i => Bool.eqb (f (N.of_nat i)) (g (N.of_nat i))) (seq 0 256).

Lemma agree256_sound f g : agree256 f g = true -> forall b, b < 256 -> f b = g b.
Proof.
  unfold agree256. intros H b Hb.
  rewrite forallb_forall in H.
  specialize (H (N.to_nat b)).
  rewrite N2Nat.id in H.
  apply Bool.eqb_prop. apply H.
  apply in_seq. lia.
Qed.

(* agreement everywhere except on a given list of values *)
Definition agree256_except (ex : list N) (f g : N -> bool) : bool :=
  forallb (fun i => code_in ex (N.of_nat i) || Bool.eqb (f (N.of_nat i)) (g (N.of_nat i))) (seq 0 256).

Lemma agree256_except_sound ex f g :
  agree256_except ex f g = true -> forall b, b < 256 -> ~ In b ex -> f b = g b.
Proof.
  unfold agree256_except. intros H b Hb Hn.
  rewrite forallb_forall in H.
  specialize (H (N.to_nat b)).
  rewrite N2Nat.id in H.
  assert (Hin : In (N.to_nat b) (seq 0 256)) by (apply in_seq; lia).
  specialize (H Hin). apply orb_true_iff in H. destruct H as [H | H].
  - exfalso. apply Hn. unfold code_in in H. apply existsb_exists in H.
    destruct H as [x [Hx Heq]]. apply N.eqb_eq in Heq. subst. exact Hx.
  - apply Bool.eqb_prop. exact H.
Qed.

Ltac table := apply agree256_sound; vm_compute; reflexivity.

Lemma reason_codes_connack : forall b, b < 256 -> impl_connack_code_ok b = spec_connack_code_ok b.
Proof. table. Qed.
Lemma reason_codes_puback : forall b, b < 256 -> impl_puback_code_ok b = spec_puback_code_ok b.
Proof. table. Qed.
Lemma reason_codes_pubrec : forall b, b < 256 -> impl_pubrec_code_ok b = spec_pubrec_code_ok b.
Proof. table. Qed.
Lemma reason_codes_pubrel : forall b, b < 256 -> impl_pubrel_code_ok b = spec_pubrel_code_ok b.
Proof. table. Qed.
Lemma reason_codes_pubcomp : forall b, b < 256 -> impl_pubcomp_code_ok b = spec_pubcomp_code_ok b.
Proof. table. Qed.
Lemma reason_codes_suback : forall b, b < 256 -> impl_suback_code_ok b = spec_suback_code_ok b.
Proof. table. Qed.
Lemma reason_codes_disconnect : forall b, b < 256 -> impl_disconnect_code_ok b = spec_disconnect_code_ok b.
Proof. table. Qed.
Lemma reason_codes_auth : forall b, b < 256 -> impl_auth_code_ok b = spec_auth_code_ok b.
Proof. table. Qed.
Lemma reason_codes_connack311 : forall b, b < 256 -> impl_connack311_code_ok b = spec_connack311_code_ok b.
Proof. table. Qed.
Lemma reason_codes_suback311 : forall b, b < 256 -> impl_suback311_code_ok b = spec_suback311_code_ok b.
Proof. table. Qed.
Lemma reason_codes_qos : forall b, b < 256 -> impl_qos_ok b = spec_qos_ok b.
Proof. table. Qed.
Lemma reason_codes_pfi : forall b, b < 256 -> impl_pfi_ok b = spec_pfi_ok b.
Proof. table. Qed.

(* UNSUBACK: the tables agree everywhere except at 144 (0x90 Topic Name invalid), which the
   implementation accepts although the specification does not list it for UNSUBACK (kept for API
   compatibility after fix 4bdb294, which added the missing 0x8F = 143).  Accepting MORE than the
   specification is not a violation of C03: the property demands that every specification-legal
   packet decodes faithfully ([reason_codes_unsuback_spec_accepted]) and that other input does not
   panic. *)
Lemma reason_codes_unsuback : forall b, b < 256 -> b <> 144 -> impl_unsuback_code_ok b = spec_unsuback_code_ok b.
Proof.
  intros b Hb H. apply (agree256_except_sound [144]); [vm_compute; reflexivity | exact Hb |].
  intros [E | []]; congruence.
Qed.

Lemma reason_codes_unsuback_144 : spec_unsuback_code_ok 144 = false /\ impl_unsuback_code_ok 144 = true.
Proof. split; vm_compute; reflexivity. Qed.

(* 144 is the only difference: wherever the two tables differ, the value is 144 (and there the
   implementation is the lenient side) *)
Lemma reason_codes_unsuback_only_144 : forall b, b < 256 ->
  impl_unsuback_code_ok b <> spec_unsuback_code_ok b -> b = 144.
Proof.
  intros b Hb Hd. destruct (N.eq_dec b 144) as [E|E]; [exact E|].
  exfalso. apply Hd. apply reason_codes_unsuback; assumption.
Qed.

(* every code the specification allows is accepted *)
Lemma reason_codes_unsuback_spec_accepted : forall b, b < 256 ->
  spec_unsuback_code_ok b = true -> impl_unsuback_code_ok b = true.
Proof.
  intros b Hb Hs. destruct (N.eq_dec b 144) as [->|E]; [vm_compute in Hs; discriminate|].
  rewrite reason_codes_unsuback; assumption.
Qed.

(* the 3.1.1 CONNACK conversion stores the MQTT 5 number the specification's correspondence gives *)
Definition connack311_convert_ok (b : N) : bool :=
  match impl_connack311_convert b with
  | Some v => match spec_connack311_of_v5 v with Some b' => b' =? b | None => false end
  | None => negb (spec_connack311_code_ok b)
  end.

Lemma connack311_convert_spec : forall b, b < 256 -> connack311_convert_ok b = true.
Proof.
  intros b Hb.
  assert (H : forallb (fun i => connack311_convert_ok (N.of_nat i)) (seq 0 256) = true) by (vm_compute; reflexivity).
  rewrite forallb_forall in H. specialize (H (N.to_nat b)). rewrite N2Nat.id in H.
  apply H. apply in_seq. lia.
Qed.

(* and conversely every 3.1.1 return code the specification can express is converted back *)
Lemma connack311_of_v5_convert : forall v b, spec_connack311_of_v5 v = Some b -> impl_connack311_convert b = Some v.
Proof.
  intros v b. unfold spec_connack311_of_v5.
  repeat match goal with |- (if ?c then _ else _) = _ -> _ => destruct c eqn:?E end;
  intros H; inversion H; subst;
  repeat match goal with E : (_ =? _) = true |- _ => apply N.eqb_eq in E; subst end; reflexivity.
Qed.
