(* C03 faithfulness, part 4: CONNACK and PUBLISH.  (The per-identifier cases are generated from the
   tables of identifiers / fields / setters; each is the same three steps: invert the printed
   item, run the matching primitive decoder lemma, account for the items of the new state.) *)
From GM Require Import Base.Prelude Base.Outcome Codec.Packets Codec.Prim Codec.ReasonCodes
  Codec.ImplDecode Codec.Framing Codec.SpecEncodeS2C.
From GM Require Import CodecProofs.DecPrim CodecProofs.FramingP CodecProofs.DecFaithful CodecProofs.DecReasonCodes
  CodecProofs.DecFaithfulAck CodecProofs.DecFaithfulDisc.
Open Scope N_scope.

(* ================================================================================== *)
(* CONNACK                                                                              *)
(* ================================================================================== *)
Definition ca_hdr (c : connack) := (ca_session_present c, ca_rc c).
Definition ca_canon (c : connack) : Prop := nonempty_list (ca_up c) = true.

Lemma ca_ext a a' :
  (forall k, with_id k (items_connack a) = with_id k (items_connack a')) -> ca_hdr a = ca_hdr a' ->
  ca_canon a -> ca_canon a' -> a = a'.
Proof.
  destruct a, a'. unfold ca_hdr, ca_canon, items_connack. cbn.
  intros H Hh C C'. inversion Hh; subst.
  pose proof (H 17) as H17. pose proof (H 33) as H33. pose proof (H 36) as H36. pose proof (H 37) as H37. pose proof (H 39) as H39. pose proof (H 18) as H18. pose proof (H 34) as H34. pose proof (H 31) as H31. pose proof (H 38) as H38. pose proof (H 40) as H40. pose proof (H 41) as H41. pose proof (H 42) as H42. pose proof (H 19) as H19. pose proof (H 26) as H26. pose proof (H 28) as H28. pose proof (H 21) as H21. pose proof (H 22) as H22.
  rewrite !with_id_app, !with_id_opt_item, !with_id_up_items in H17, H33, H36, H37, H39, H18, H34, H31, H38, H40, H41, H42, H19, H26, H28, H21, H22.
  eqb_compute. cbn iota in *. rewrite ?app_nil_r in *. cbn [app] in *.
  apply opt_item_inj in H17; [|intros x y E; inversion E; reflexivity].
  apply opt_item_inj in H33; [|intros x y E; inversion E; reflexivity].
  apply opt_item_inj in H36; [|intros x y E; inversion E; reflexivity].
  apply opt_item_inj in H37; [|intros [|] [|] E; inversion E; reflexivity].
  apply opt_item_inj in H39; [|intros x y E; inversion E; reflexivity].
  apply opt_item_inj in H18; [|intros x y E; inversion E; reflexivity].
  apply opt_item_inj in H34; [|intros x y E; inversion E; reflexivity].
  apply opt_item_inj in H31; [|intros x y E; inversion E; reflexivity].
  apply up_items_inj in H38; auto.
  apply opt_item_inj in H40; [|intros [|] [|] E; inversion E; reflexivity].
  apply opt_item_inj in H41; [|intros [|] [|] E; inversion E; reflexivity].
  apply opt_item_inj in H42; [|intros [|] [|] E; inversion E; reflexivity].
  apply opt_item_inj in H19; [|intros x y E; inversion E; reflexivity].
  apply opt_item_inj in H26; [|intros x y E; inversion E; reflexivity].
  apply opt_item_inj in H28; [|intros x y E; inversion E; reflexivity].
  apply opt_item_inj in H21; [|intros x y E; inversion E; reflexivity].
  apply opt_item_inj in H22; [|intros x y E; inversion E; reflexivity].
  subst. reflexivity.
Qed.

Lemma connack_arm_step : forall id v vb s rest,
  id_mem id (allowed_props 2) = true ->
  print_item (id, v) = Some (id :: vb) ->
  (repeatable 2 id = true \/ with_id id (items_connack s) = []) ->
  exists s', connack_arm id (vb ++ rest) s = Ok (s', rest) /\ absorbed items_connack ca_hdr ca_canon s s' (id, v).
Proof.
  intros id v vb s rest Hal Pi Hpre. split_allowed Hal.
  - invert_item Pi. unfold connack_arm. eqb_compute. cbn iota.
    none_from_pre Hpre ltac:(fun H => unfold items_connack in H).
    rewrite Hn. rewrite (dec_opt_u32_w _ _ _ P). cbn [obind]. eexists. split; [reflexivity|].
    solve_absorbed ltac:(unfold items_connack; cbn [ca_with ca_sei ca_receive_max ca_max_qos ca_retain_avail ca_max_packet ca_assigned_id ca_tam ca_reason ca_up ca_wildcard ca_subid_avail ca_shared ca_server_keep_alive ca_response_info ca_server_ref ca_auth_method ca_auth_data ca_set_sei ca_set_receive_max ca_set_max_qos ca_set_retain_avail ca_set_max_packet ca_set_assigned_id ca_set_tam ca_set_reason ca_set_up ca_set_wildcard ca_set_subid_avail ca_set_shared ca_set_server_keep_alive ca_set_response_info ca_set_server_ref ca_set_auth_method ca_set_auth_data ca_session_present ca_rc]; rewrite ?Hn).
  - invert_item Pi. unfold connack_arm. eqb_compute. cbn iota.
    none_from_pre Hpre ltac:(fun H => unfold items_connack in H).
    rewrite Hn. rewrite (dec_opt_u16_w _ _ _ P). cbn [obind]. eexists. split; [reflexivity|].
    solve_absorbed ltac:(unfold items_connack; cbn [ca_with ca_sei ca_receive_max ca_max_qos ca_retain_avail ca_max_packet ca_assigned_id ca_tam ca_reason ca_up ca_wildcard ca_subid_avail ca_shared ca_server_keep_alive ca_response_info ca_server_ref ca_auth_method ca_auth_data ca_set_sei ca_set_receive_max ca_set_max_qos ca_set_retain_avail ca_set_max_packet ca_set_assigned_id ca_set_tam ca_set_reason ca_set_up ca_set_wildcard ca_set_subid_avail ca_set_shared ca_set_server_keep_alive ca_set_response_info ca_set_server_ref ca_set_auth_method ca_set_auth_data ca_session_present ca_rc]; rewrite ?Hn).
  - invert_item Pi. unfold connack_arm. eqb_compute. cbn iota.
    none_from_pre Hpre ltac:(fun H => unfold items_connack in H).
    rewrite Hn. apply w_u8_inv in P. destruct P as [_ ->]. cbn [app].
    vm_compute in B. apply byte01 in B.
    rewrite decode_optional_u8_as_enum_spec.
    destruct B as [-> | ->]; (change (conv_table impl_qos_ok _) with (@Ok N 0) || change (conv_table impl_qos_ok _) with (@Ok N 1));
     cbn [obind]; (eexists; split; [reflexivity|]);
     solve_absorbed ltac:(unfold items_connack; cbn [ca_with ca_sei ca_receive_max ca_max_qos ca_retain_avail ca_max_packet ca_assigned_id ca_tam ca_reason ca_up ca_wildcard ca_subid_avail ca_shared ca_server_keep_alive ca_response_info ca_server_ref ca_auth_method ca_auth_data ca_set_sei ca_set_receive_max ca_set_max_qos ca_set_retain_avail ca_set_max_packet ca_set_assigned_id ca_set_tam ca_set_reason ca_set_up ca_set_wildcard ca_set_subid_avail ca_set_shared ca_set_server_keep_alive ca_set_response_info ca_set_server_ref ca_set_auth_method ca_set_auth_data ca_session_present ca_rc]; rewrite ?Hn).
  - invert_item Pi. unfold connack_arm. eqb_compute. cbn iota.
    none_from_pre Hpre ltac:(fun H => unfold items_connack in H).
    rewrite Hn. apply w_u8_inv in P. destruct P as [_ ->]. cbn [app].
    vm_compute in B. apply byte01 in B.
    destruct B as [-> | ->]; [change 0 with (bool_byte false) at 1 | change 1 with (bool_byte true) at 1];
     rewrite dec_opt_bool_w; cbn [obind]; (eexists; split; [reflexivity|]);
     solve_absorbed ltac:(unfold items_connack; cbn [ca_with ca_sei ca_receive_max ca_max_qos ca_retain_avail ca_max_packet ca_assigned_id ca_tam ca_reason ca_up ca_wildcard ca_subid_avail ca_shared ca_server_keep_alive ca_response_info ca_server_ref ca_auth_method ca_auth_data ca_set_sei ca_set_receive_max ca_set_max_qos ca_set_retain_avail ca_set_max_packet ca_set_assigned_id ca_set_tam ca_set_reason ca_set_up ca_set_wildcard ca_set_subid_avail ca_set_shared ca_set_server_keep_alive ca_set_response_info ca_set_server_ref ca_set_auth_method ca_set_auth_data ca_session_present ca_rc]; rewrite ?Hn).
  - invert_item Pi. unfold connack_arm. eqb_compute. cbn iota.
    none_from_pre Hpre ltac:(fun H => unfold items_connack in H).
    rewrite Hn. rewrite (dec_opt_u32_w _ _ _ P). cbn [obind]. eexists. split; [reflexivity|].
    solve_absorbed ltac:(unfold items_connack; cbn [ca_with ca_sei ca_receive_max ca_max_qos ca_retain_avail ca_max_packet ca_assigned_id ca_tam ca_reason ca_up ca_wildcard ca_subid_avail ca_shared ca_server_keep_alive ca_response_info ca_server_ref ca_auth_method ca_auth_data ca_set_sei ca_set_receive_max ca_set_max_qos ca_set_retain_avail ca_set_max_packet ca_set_assigned_id ca_set_tam ca_set_reason ca_set_up ca_set_wildcard ca_set_subid_avail ca_set_shared ca_set_server_keep_alive ca_set_response_info ca_set_server_ref ca_set_auth_method ca_set_auth_data ca_session_present ca_rc]; rewrite ?Hn).
  - invert_item Pi. unfold connack_arm. eqb_compute. cbn iota.
    none_from_pre Hpre ltac:(fun H => unfold items_connack in H).
    rewrite Hn. rewrite (dec_opt_string_w _ _ _ P). cbn [obind]. eexists. split; [reflexivity|].
    solve_absorbed ltac:(unfold items_connack; cbn [ca_with ca_sei ca_receive_max ca_max_qos ca_retain_avail ca_max_packet ca_assigned_id ca_tam ca_reason ca_up ca_wildcard ca_subid_avail ca_shared ca_server_keep_alive ca_response_info ca_server_ref ca_auth_method ca_auth_data ca_set_sei ca_set_receive_max ca_set_max_qos ca_set_retain_avail ca_set_max_packet ca_set_assigned_id ca_set_tam ca_set_reason ca_set_up ca_set_wildcard ca_set_subid_avail ca_set_shared ca_set_server_keep_alive ca_set_response_info ca_set_server_ref ca_set_auth_method ca_set_auth_data ca_session_present ca_rc]; rewrite ?Hn).
  - invert_item Pi. unfold connack_arm. eqb_compute. cbn iota.
    none_from_pre Hpre ltac:(fun H => unfold items_connack in H).
    rewrite Hn. rewrite (dec_opt_u16_w _ _ _ P). cbn [obind]. eexists. split; [reflexivity|].
    solve_absorbed ltac:(unfold items_connack; cbn [ca_with ca_sei ca_receive_max ca_max_qos ca_retain_avail ca_max_packet ca_assigned_id ca_tam ca_reason ca_up ca_wildcard ca_subid_avail ca_shared ca_server_keep_alive ca_response_info ca_server_ref ca_auth_method ca_auth_data ca_set_sei ca_set_receive_max ca_set_max_qos ca_set_retain_avail ca_set_max_packet ca_set_assigned_id ca_set_tam ca_set_reason ca_set_up ca_set_wildcard ca_set_subid_avail ca_set_shared ca_set_server_keep_alive ca_set_response_info ca_set_server_ref ca_set_auth_method ca_set_auth_data ca_session_present ca_rc]; rewrite ?Hn).
  - invert_item Pi. unfold connack_arm. eqb_compute. cbn iota.
    none_from_pre Hpre ltac:(fun H => unfold items_connack in H).
    rewrite Hn. rewrite (dec_opt_string_w _ _ _ P). cbn [obind]. eexists. split; [reflexivity|].
    solve_absorbed ltac:(unfold items_connack; cbn [ca_with ca_sei ca_receive_max ca_max_qos ca_retain_avail ca_max_packet ca_assigned_id ca_tam ca_reason ca_up ca_wildcard ca_subid_avail ca_shared ca_server_keep_alive ca_response_info ca_server_ref ca_auth_method ca_auth_data ca_set_sei ca_set_receive_max ca_set_max_qos ca_set_retain_avail ca_set_max_packet ca_set_assigned_id ca_set_tam ca_set_reason ca_set_up ca_set_wildcard ca_set_subid_avail ca_set_shared ca_set_server_keep_alive ca_set_response_info ca_set_server_ref ca_set_auth_method ca_set_auth_data ca_session_present ca_rc]; rewrite ?Hn).
  - invert_item Pi. unfold connack_arm. eqb_compute. cbn iota.
    up_case connack_arm items_connack ca_canon ca_up ca_set_up.
    intros k. unfold items_connack. cbn [ca_with ca_sei ca_receive_max ca_max_qos ca_retain_avail ca_max_packet ca_assigned_id ca_tam ca_reason ca_up ca_wildcard ca_subid_avail ca_shared ca_server_keep_alive ca_response_info ca_server_ref ca_auth_method ca_auth_data ca_set_sei ca_set_receive_max ca_set_max_qos ca_set_retain_avail ca_set_max_packet ca_set_assigned_id ca_set_tam ca_set_reason ca_set_up ca_set_wildcard ca_set_subid_avail ca_set_shared ca_set_server_keep_alive ca_set_response_info ca_set_server_ref ca_set_auth_method ca_set_auth_data ca_session_present ca_rc].
    rewrite !with_id_app, !with_id_opt_item, !with_id_up_items. cbn [with_id filter fst].
    destruct (N.eqb_spec 38 k) as [<-|Hne].
    + eqb_compute. cbn iota. cbn [app]. rewrite up_items_snoc, ?app_nil_r. reflexivity.
    + rewrite ?app_nil_r. reflexivity.
  - invert_item Pi. unfold connack_arm. eqb_compute. cbn iota.
    none_from_pre Hpre ltac:(fun H => unfold items_connack in H).
    rewrite Hn. apply w_u8_inv in P. destruct P as [_ ->]. cbn [app].
    vm_compute in B. apply byte01 in B.
    destruct B as [-> | ->]; [change 0 with (bool_byte false) at 1 | change 1 with (bool_byte true) at 1];
     rewrite dec_opt_bool_w; cbn [obind]; (eexists; split; [reflexivity|]);
     solve_absorbed ltac:(unfold items_connack; cbn [ca_with ca_sei ca_receive_max ca_max_qos ca_retain_avail ca_max_packet ca_assigned_id ca_tam ca_reason ca_up ca_wildcard ca_subid_avail ca_shared ca_server_keep_alive ca_response_info ca_server_ref ca_auth_method ca_auth_data ca_set_sei ca_set_receive_max ca_set_max_qos ca_set_retain_avail ca_set_max_packet ca_set_assigned_id ca_set_tam ca_set_reason ca_set_up ca_set_wildcard ca_set_subid_avail ca_set_shared ca_set_server_keep_alive ca_set_response_info ca_set_server_ref ca_set_auth_method ca_set_auth_data ca_session_present ca_rc]; rewrite ?Hn).
  - invert_item Pi. unfold connack_arm. eqb_compute. cbn iota.
    none_from_pre Hpre ltac:(fun H => unfold items_connack in H).
    rewrite Hn. apply w_u8_inv in P. destruct P as [_ ->]. cbn [app].
    vm_compute in B. apply byte01 in B.
    destruct B as [-> | ->]; [change 0 with (bool_byte false) at 1 | change 1 with (bool_byte true) at 1];
     rewrite dec_opt_bool_w; cbn [obind]; (eexists; split; [reflexivity|]);
     solve_absorbed ltac:(unfold items_connack; cbn [ca_with ca_sei ca_receive_max ca_max_qos ca_retain_avail ca_max_packet ca_assigned_id ca_tam ca_reason ca_up ca_wildcard ca_subid_avail ca_shared ca_server_keep_alive ca_response_info ca_server_ref ca_auth_method ca_auth_data ca_set_sei ca_set_receive_max ca_set_max_qos ca_set_retain_avail ca_set_max_packet ca_set_assigned_id ca_set_tam ca_set_reason ca_set_up ca_set_wildcard ca_set_subid_avail ca_set_shared ca_set_server_keep_alive ca_set_response_info ca_set_server_ref ca_set_auth_method ca_set_auth_data ca_session_present ca_rc]; rewrite ?Hn).
  - invert_item Pi. unfold connack_arm. eqb_compute. cbn iota.
    none_from_pre Hpre ltac:(fun H => unfold items_connack in H).
    rewrite Hn. apply w_u8_inv in P. destruct P as [_ ->]. cbn [app].
    vm_compute in B. apply byte01 in B.
    destruct B as [-> | ->]; [change 0 with (bool_byte false) at 1 | change 1 with (bool_byte true) at 1];
     rewrite dec_opt_bool_w; cbn [obind]; (eexists; split; [reflexivity|]);
     solve_absorbed ltac:(unfold items_connack; cbn [ca_with ca_sei ca_receive_max ca_max_qos ca_retain_avail ca_max_packet ca_assigned_id ca_tam ca_reason ca_up ca_wildcard ca_subid_avail ca_shared ca_server_keep_alive ca_response_info ca_server_ref ca_auth_method ca_auth_data ca_set_sei ca_set_receive_max ca_set_max_qos ca_set_retain_avail ca_set_max_packet ca_set_assigned_id ca_set_tam ca_set_reason ca_set_up ca_set_wildcard ca_set_subid_avail ca_set_shared ca_set_server_keep_alive ca_set_response_info ca_set_server_ref ca_set_auth_method ca_set_auth_data ca_session_present ca_rc]; rewrite ?Hn).
  - invert_item Pi. unfold connack_arm. eqb_compute. cbn iota.
    none_from_pre Hpre ltac:(fun H => unfold items_connack in H).
    rewrite Hn. rewrite (dec_opt_u16_w _ _ _ P). cbn [obind]. eexists. split; [reflexivity|].
    solve_absorbed ltac:(unfold items_connack; cbn [ca_with ca_sei ca_receive_max ca_max_qos ca_retain_avail ca_max_packet ca_assigned_id ca_tam ca_reason ca_up ca_wildcard ca_subid_avail ca_shared ca_server_keep_alive ca_response_info ca_server_ref ca_auth_method ca_auth_data ca_set_sei ca_set_receive_max ca_set_max_qos ca_set_retain_avail ca_set_max_packet ca_set_assigned_id ca_set_tam ca_set_reason ca_set_up ca_set_wildcard ca_set_subid_avail ca_set_shared ca_set_server_keep_alive ca_set_response_info ca_set_server_ref ca_set_auth_method ca_set_auth_data ca_session_present ca_rc]; rewrite ?Hn).
  - invert_item Pi. unfold connack_arm. eqb_compute. cbn iota.
    none_from_pre Hpre ltac:(fun H => unfold items_connack in H).
    rewrite Hn. rewrite (dec_opt_string_w _ _ _ P). cbn [obind]. eexists. split; [reflexivity|].
    solve_absorbed ltac:(unfold items_connack; cbn [ca_with ca_sei ca_receive_max ca_max_qos ca_retain_avail ca_max_packet ca_assigned_id ca_tam ca_reason ca_up ca_wildcard ca_subid_avail ca_shared ca_server_keep_alive ca_response_info ca_server_ref ca_auth_method ca_auth_data ca_set_sei ca_set_receive_max ca_set_max_qos ca_set_retain_avail ca_set_max_packet ca_set_assigned_id ca_set_tam ca_set_reason ca_set_up ca_set_wildcard ca_set_subid_avail ca_set_shared ca_set_server_keep_alive ca_set_response_info ca_set_server_ref ca_set_auth_method ca_set_auth_data ca_session_present ca_rc]; rewrite ?Hn).
  - invert_item Pi. unfold connack_arm. eqb_compute. cbn iota.
    none_from_pre Hpre ltac:(fun H => unfold items_connack in H).
    rewrite Hn. rewrite (dec_opt_string_w _ _ _ P). cbn [obind]. eexists. split; [reflexivity|].
    solve_absorbed ltac:(unfold items_connack; cbn [ca_with ca_sei ca_receive_max ca_max_qos ca_retain_avail ca_max_packet ca_assigned_id ca_tam ca_reason ca_up ca_wildcard ca_subid_avail ca_shared ca_server_keep_alive ca_response_info ca_server_ref ca_auth_method ca_auth_data ca_set_sei ca_set_receive_max ca_set_max_qos ca_set_retain_avail ca_set_max_packet ca_set_assigned_id ca_set_tam ca_set_reason ca_set_up ca_set_wildcard ca_set_subid_avail ca_set_shared ca_set_server_keep_alive ca_set_response_info ca_set_server_ref ca_set_auth_method ca_set_auth_data ca_session_present ca_rc]; rewrite ?Hn).
  - invert_item Pi. unfold connack_arm. eqb_compute. cbn iota.
    none_from_pre Hpre ltac:(fun H => unfold items_connack in H).
    rewrite Hn. rewrite (dec_opt_string_w _ _ _ P). cbn [obind]. eexists. split; [reflexivity|].
    solve_absorbed ltac:(unfold items_connack; cbn [ca_with ca_sei ca_receive_max ca_max_qos ca_retain_avail ca_max_packet ca_assigned_id ca_tam ca_reason ca_up ca_wildcard ca_subid_avail ca_shared ca_server_keep_alive ca_response_info ca_server_ref ca_auth_method ca_auth_data ca_set_sei ca_set_receive_max ca_set_max_qos ca_set_retain_avail ca_set_max_packet ca_set_assigned_id ca_set_tam ca_set_reason ca_set_up ca_set_wildcard ca_set_subid_avail ca_set_shared ca_set_server_keep_alive ca_set_response_info ca_set_server_ref ca_set_auth_method ca_set_auth_data ca_session_present ca_rc]; rewrite ?Hn).
  - invert_item Pi. unfold connack_arm. eqb_compute. cbn iota.
    none_from_pre Hpre ltac:(fun H => unfold items_connack in H).
    rewrite Hn. rewrite (dec_opt_binary_w _ _ _ P). cbn [obind]. eexists. split; [reflexivity|].
    solve_absorbed ltac:(unfold items_connack; cbn [ca_with ca_sei ca_receive_max ca_max_qos ca_retain_avail ca_max_packet ca_assigned_id ca_tam ca_reason ca_up ca_wildcard ca_subid_avail ca_shared ca_server_keep_alive ca_response_info ca_server_ref ca_auth_method ca_auth_data ca_set_sei ca_set_receive_max ca_set_max_qos ca_set_retain_avail ca_set_max_packet ca_set_assigned_id ca_set_tam ca_set_reason ca_set_up ca_set_wildcard ca_set_subid_avail ca_set_shared ca_set_server_keep_alive ca_set_response_info ca_set_server_ref ca_set_auth_method ca_set_auth_data ca_session_present ca_rc]; rewrite ?Hn).
Qed.

(* ================================================================================== *)
(* PUBLISH                                                                              *)
(* ================================================================================== *)
Definition pub_hdr (p : publish) := (pub_pid p, pub_topic p, pub_qos p, pub_dup p, pub_retain p, pub_payload p).
Definition pub_canon (p : publish) : Prop := nonempty_list (pub_up p) = true /\ nonempty_list (pub_subids p) = true.

Lemma pub_ext a a' :
  (forall k, with_id k (items_publish a) = with_id k (items_publish a')) -> pub_hdr a = pub_hdr a' ->
  pub_canon a -> pub_canon a' -> a = a'.
Proof.
  destruct a, a'. unfold pub_hdr, pub_canon, items_publish. cbn.
  intros H Hh [C1 C2] [C1' C2']. inversion Hh; subst.
  pose proof (H 1) as H1. pose proof (H 2) as H2. pose proof (H 35) as H35. pose proof (H 8) as H8. pose proof (H 9) as H9. pose proof (H 38) as H38. pose proof (H 11) as H11. pose proof (H 3) as H3.
  rewrite !with_id_app, !with_id_opt_item, !with_id_up_items, ?with_id_subid_items in H1, H2, H35, H8, H9, H38, H11, H3.
  eqb_compute. cbn iota in *. rewrite ?app_nil_r in *. cbn [app] in *.
  apply opt_item_inj in H1; [|intros x y E; inversion E; reflexivity].
  apply opt_item_inj in H2; [|intros x y E; inversion E; reflexivity].
  apply opt_item_inj in H35; [|intros x y E; inversion E; reflexivity].
  apply opt_item_inj in H8; [|intros x y E; inversion E; reflexivity].
  apply opt_item_inj in H9; [|intros x y E; inversion E; reflexivity].
  apply up_items_inj in H38; auto.
  apply subid_items_inj in H11; auto.
  apply opt_item_inj in H3; [|intros x y E; inversion E; reflexivity].
  subst. reflexivity.
Qed.

Lemma publish_arm_step : forall id v vb s rest,
  id_mem id (allowed_props 3) = true ->
  print_item (id, v) = Some (id :: vb) ->
  (repeatable 3 id = true \/ with_id id (items_publish s) = []) ->
  exists s', publish_arm id (vb ++ rest) s = Ok (s', rest) /\ absorbed items_publish pub_hdr pub_canon s s' (id, v).
Proof.
  intros id v vb s rest Hal Pi Hpre. split_allowed Hal.
  - invert_item Pi. unfold publish_arm. eqb_compute. cbn iota.
    none_from_pre Hpre ltac:(fun H => unfold items_publish in H).
    rewrite Hn. apply w_u8_inv in P. destruct P as [_ ->]. cbn [app].
    vm_compute in B. apply byte01 in B.
    rewrite decode_optional_u8_as_enum_spec.
    destruct B as [-> | ->]; (change (conv_table impl_pfi_ok _) with (@Ok N 0) || change (conv_table impl_pfi_ok _) with (@Ok N 1));
     cbn [obind]; (eexists; split; [reflexivity|]);
     solve_absorbed ltac:(unfold items_publish; cbn [pub_with pub_pfi pub_mei pub_alias pub_response_topic pub_correlation pub_up pub_subids pub_content_type pub_set_pfi pub_set_mei pub_set_alias pub_set_response_topic pub_set_correlation pub_set_up pub_set_subids pub_set_content_type pub_pid pub_topic pub_qos pub_dup pub_retain pub_payload]; rewrite ?Hn).
  - invert_item Pi. unfold publish_arm. eqb_compute. cbn iota.
    none_from_pre Hpre ltac:(fun H => unfold items_publish in H).
    rewrite Hn. rewrite (dec_opt_u32_w _ _ _ P). cbn [obind]. eexists. split; [reflexivity|].
    solve_absorbed ltac:(unfold items_publish; cbn [pub_with pub_pfi pub_mei pub_alias pub_response_topic pub_correlation pub_up pub_subids pub_content_type pub_set_pfi pub_set_mei pub_set_alias pub_set_response_topic pub_set_correlation pub_set_up pub_set_subids pub_set_content_type pub_pid pub_topic pub_qos pub_dup pub_retain pub_payload]; rewrite ?Hn).
  - invert_item Pi. unfold publish_arm. eqb_compute. cbn iota.
    none_from_pre Hpre ltac:(fun H => unfold items_publish in H).
    rewrite Hn. rewrite (dec_opt_u16_w _ _ _ P). cbn [obind]. eexists. split; [reflexivity|].
    solve_absorbed ltac:(unfold items_publish; cbn [pub_with pub_pfi pub_mei pub_alias pub_response_topic pub_correlation pub_up pub_subids pub_content_type pub_set_pfi pub_set_mei pub_set_alias pub_set_response_topic pub_set_correlation pub_set_up pub_set_subids pub_set_content_type pub_pid pub_topic pub_qos pub_dup pub_retain pub_payload]; rewrite ?Hn).
  - invert_item Pi. unfold publish_arm. eqb_compute. cbn iota.
    none_from_pre Hpre ltac:(fun H => unfold items_publish in H).
    rewrite Hn. rewrite (dec_opt_string_w _ _ _ P). cbn [obind]. eexists. split; [reflexivity|].
    solve_absorbed ltac:(unfold items_publish; cbn [pub_with pub_pfi pub_mei pub_alias pub_response_topic pub_correlation pub_up pub_subids pub_content_type pub_set_pfi pub_set_mei pub_set_alias pub_set_response_topic pub_set_correlation pub_set_up pub_set_subids pub_set_content_type pub_pid pub_topic pub_qos pub_dup pub_retain pub_payload]; rewrite ?Hn).
  - invert_item Pi. unfold publish_arm. eqb_compute. cbn iota.
    none_from_pre Hpre ltac:(fun H => unfold items_publish in H).
    rewrite Hn. rewrite (dec_opt_binary_w _ _ _ P). cbn [obind]. eexists. split; [reflexivity|].
    solve_absorbed ltac:(unfold items_publish; cbn [pub_with pub_pfi pub_mei pub_alias pub_response_topic pub_correlation pub_up pub_subids pub_content_type pub_set_pfi pub_set_mei pub_set_alias pub_set_response_topic pub_set_correlation pub_set_up pub_set_subids pub_set_content_type pub_pid pub_topic pub_qos pub_dup pub_retain pub_payload]; rewrite ?Hn).
  - invert_item Pi. unfold publish_arm. eqb_compute. cbn iota.
    destruct (w_string name) as [kb|] eqn:Wk; [|discriminate P].
    destruct (w_string value) as [vb'|] eqn:Wv; [|discriminate P].
    inversion P; subst; clear P.
    rewrite (dec_user_property_w _ _ _ _ _ _ Wk Wv). cbn [obind]. eexists. split; [reflexivity|].
    split; [|split; [reflexivity | intros [C1 C2]; split; [cbn; apply snoc_nonempty | exact C2]]].
    intros k. unfold items_publish. cbn [pub_with pub_pfi pub_mei pub_alias pub_response_topic pub_correlation pub_up pub_subids pub_content_type pub_set_pfi pub_set_mei pub_set_alias pub_set_response_topic pub_set_correlation pub_set_up pub_set_subids pub_set_content_type pub_pid pub_topic pub_qos pub_dup pub_retain pub_payload].
    rewrite !with_id_app, !with_id_opt_item, !with_id_up_items, ?with_id_subid_items. cbn [with_id filter fst].
    destruct (N.eqb_spec 38 k) as [<-|Hne].
    + eqb_compute. cbn iota. cbn [app]. rewrite up_items_snoc, ?app_nil_r. reflexivity.
    + rewrite ?app_nil_r. reflexivity.
  - invert_item Pi. unfold publish_arm. eqb_compute. cbn iota.
    rewrite (dec_vli_mut_w _ _ _ P). cbn [obind]. eexists. split; [reflexivity|].
    split; [|split; [reflexivity | intros [C1 C2]; split; [exact C1 | cbn; apply snoc_nonempty]]].
    intros k. unfold items_publish. cbn [pub_with pub_pfi pub_mei pub_alias pub_response_topic pub_correlation pub_up pub_subids pub_content_type pub_set_pfi pub_set_mei pub_set_alias pub_set_response_topic pub_set_correlation pub_set_up pub_set_subids pub_set_content_type pub_pid pub_topic pub_qos pub_dup pub_retain pub_payload].
    rewrite !with_id_app, !with_id_opt_item, !with_id_up_items, ?with_id_subid_items. cbn [with_id filter fst].
    destruct (N.eqb_spec 11 k) as [<-|Hne].
    + eqb_compute. cbn iota. cbn [app]. rewrite subid_items_snoc, ?app_nil_r. reflexivity.
    + rewrite ?app_nil_r. reflexivity.
  - invert_item Pi. unfold publish_arm. eqb_compute. cbn iota.
    none_from_pre Hpre ltac:(fun H => unfold items_publish in H).
    rewrite Hn. rewrite (dec_opt_string_w _ _ _ P). cbn [obind]. eexists. split; [reflexivity|].
    solve_absorbed ltac:(unfold items_publish; cbn [pub_with pub_pfi pub_mei pub_alias pub_response_topic pub_correlation pub_up pub_subids pub_content_type pub_set_pfi pub_set_mei pub_set_alias pub_set_response_topic pub_set_correlation pub_set_up pub_set_subids pub_set_content_type pub_pid pub_topic pub_qos pub_dup pub_retain pub_payload]; rewrite ?Hn).
Qed.

(* ================================================================================== *)
(* packet level: CONNACK                                                                *)
(* ================================================================================== *)
Theorem decode_connack5_faithful : forall c its compact fb body,
  legal_connack V5 c = true -> same_per_id (items_connack c) its ->
  spec_body V5 (Connack c) its compact = Some (fb, body) ->
  decode_connack_packet5 fb body = Ok (Connack c).
Proof.
  intros c its compact fb body Hleg Hs Hb. cbn [spec_body] in Hb.
  destruct (items_allowed 2 its) eqn:Hal; [|discriminate].
  destruct (w_u8 (ca_rc c)) as [rcb|] eqn:Wr; [|discriminate].
  destruct (print_properties its) as [props|] eqn:Pp; [|discriminate].
  inversion Hb; subst fb body; clear Hb.
  pose proof (w_u8_inv _ _ Wr) as [Hrc256 ->].
  destruct (print_properties_inv _ _ Pp) as [ps [l [Hps [Hl ->]]]].
  cbn [legal_connack] in Hleg. apply andb_true_iff in Hleg. destruct Hleg as [Hrc Hup].
  assert (Hconv : conv_table impl_connack_code_ok (ca_rc c) = Ok (ca_rc c)).
  { unfold conv_table. rewrite (reason_codes_connack _ Hrc256), Hrc. reflexivity. }
  unfold decode_connack_packet5. rewrite N.eqb_refl. cbn [negb app].
  rewrite len_cons. replace (1 + len (ca_rc c :: l ++ ps) =? 0) with false by lia.
  cbn [index0 obind]. unfold slice_from. rewrite len_cons.
  replace (1 <=? 1 + len (ca_rc c :: l ++ ps)) with true by lia.
  change (drop 1 (bool_byte (ca_session_present c) :: ca_rc c :: l ++ ps)) with (ca_rc c :: l ++ ps). cbn [obind].
  replace (negb (bool_byte (ca_session_present c) =? 1) && negb (bool_byte (ca_session_present c) =? 0)) with false
    by (destruct (ca_session_present c); reflexivity).
  rewrite decode_u8_as_enum_spec. rewrite Hconv. cbn [obind].
  rewrite (dec_vli_mut_w _ _ _ Hl). cbn [obind]. rewrite N.eqb_refl. cbn [negb].
  set (c1 := ca_set_rc (ca_set_session_present ca_default (bool_byte (ca_session_present c) =? 1)) (ca_rc c)).
  destruct (properties_any_order connack_arm items_connack ca_hdr 2 ca_canon connack_arm_step
              its ps c1 c Hps Hal eq_refl Hs) as [s' [Hd [Hv [Hh Hi]]]].
  { unfold ca_hdr, c1. cbn. destruct (ca_session_present c); reflexivity. }
  rewrite Hd. cbn [obind]. f_equal. f_equal. apply ca_ext; auto. apply Hi. reflexivity.
Qed.

Theorem decode_connack311_faithful : forall c its compact fb body,
  legal_connack V311 c = true ->
  spec_body V311 (Connack c) its compact = Some (fb, body) ->
  decode_connack_packet311 fb body = Ok (Connack c).
Proof.
  intros c its compact fb body Hleg Hb. cbn [spec_body] in Hb.
  destruct (spec_connack311_of_v5 (ca_rc c)) as [code|] eqn:Hc; [|discriminate].
  inversion Hb; subst fb body; clear Hb.
  apply connack311_of_v5_convert in Hc.
  unfold decode_connack_packet311. rewrite N.eqb_refl. cbn [negb].
  change (len [bool_byte (ca_session_present c); code] =? 2) with true. cbn [negb index0 obind].
  unfold slice_from. change (1 <=? len [bool_byte (ca_session_present c); code]) with true.
  change (drop 1 [bool_byte (ca_session_present c); code]) with [code]. cbn [obind].
  replace (negb (bool_byte (ca_session_present c) =? 1) && negb (bool_byte (ca_session_present c) =? 0)) with false
    by (destruct (ca_session_present c); reflexivity).
  rewrite decode_u8_as_enum_spec. unfold conv_connack311. rewrite Hc. cbn [obind].
  f_equal. f_equal.
  cbn [legal_connack] in Hleg.
  repeat (apply andb_true_iff in Hleg; destruct Hleg as [Hleg ?]).
  destruct c as [sp rc f1 f2 f3 f4 f5 f6 f7 f8 f9 f10 f11 f12 f13 f14 f15 f16 f17]. cbn [ca_sei ca_receive_max ca_max_qos
    ca_retain_avail ca_max_packet ca_assigned_id ca_tam ca_reason ca_up ca_wildcard ca_subid_avail ca_shared
    ca_server_keep_alive ca_response_info ca_server_ref ca_auth_method ca_auth_data ca_session_present ca_rc] in *.
  destruct f1; [discriminate|]. destruct f2; [discriminate|]. destruct f3; [discriminate|]. destruct f4; [discriminate|].
  destruct f5; [discriminate|]. destruct f6; [discriminate|]. destruct f7; [discriminate|]. destruct f8; [discriminate|].
  destruct f9; [discriminate|]. destruct f10; [discriminate|]. destruct f11; [discriminate|]. destruct f12; [discriminate|].
  destruct f13; [discriminate|]. destruct f14; [discriminate|]. destruct f15; [discriminate|]. destruct f16; [discriminate|].
  destruct f17; [discriminate|].
  destruct sp; reflexivity.
Qed.

(* ================================================================================== *)
(* packet level: PUBLISH                                                                *)
(* ================================================================================== *)
Lemma qos_cases q : spec_qos_ok q = true -> q = 0 \/ q = 1 \/ q = 2.
Proof.
  unfold spec_qos_ok, code_in. cbn [existsb]. intros H.
  repeat (apply orb_true_iff in H; destruct H as [H|H]); try discriminate; apply N.eqb_eq in H; auto.
Qed.

Lemma publish_flags_spec dup retain qos : spec_qos_ok qos = true ->
  publish_flags (48 + 8 * bool_byte dup + 2 * qos + bool_byte retain) =
  Ok (pub_set_qos (pub_set_retain (pub_set_dup pub_default dup) retain) qos)
  /\ (48 + 8 * bool_byte dup + 2 * qos + bool_byte retain) / 16 = 3.
Proof.
  intros H. apply qos_cases in H. destruct H as [->|[->| ->]]; destruct dup, retain; split; vm_compute; reflexivity.
Qed.

Lemma payload_result (q : publish) (pb : bytes) :
  nonempty_list (pub_payload q) = true -> pb = payload_bytes (pub_payload q) ->
  (if negb (len pb =? 0) then pub_set_payload (pub_set_payload q None) (Some pb) else pub_set_payload q None) = q.
Proof.
  destruct q as [pid topic qos dup retain [pl|] pfi mei alias rt corr subids ct up]; cbn; intros Hn ->.
  - destruct pl; [discriminate|]. rewrite len_cons. replace (1 + len pl =? 0) with false by lia. reflexivity.
  - reflexivity.
Qed.

Theorem decode_publish5_faithful : forall q its compact fb body,
  legal_publish V5 q = true -> same_per_id (items_publish q) its ->
  spec_body V5 (Publish q) its compact = Some (fb, body) ->
  decode_publish_packet5 fb body = Ok (Publish q) /\ fb / 16 = 3.
Proof.
  intros q its compact fb body Hleg Hs Hb. cbn [spec_body] in Hb.
  destruct (w_string (pub_topic q)) as [topicb|] eqn:Wt; [|discriminate].
  destruct (if 0 <? pub_qos q then w_u16 (pub_pid q) else Some []) as [pidb|] eqn:Wp; [|discriminate].
  destruct (items_allowed 3 its) eqn:Hal; [|discriminate].
  destruct (print_properties its) as [props|] eqn:Pp; [|discriminate].
  inversion Hb; subst fb body; clear Hb.
  destruct (print_properties_inv _ _ Pp) as [ps [l [Hps [Hl ->]]]].
  assert (Hq : spec_qos_ok (pub_qos q) = true /\ ((0 <? pub_qos q) || (pub_pid q =? 0)) = true /\
               nonempty_list (pub_payload q) = true /\ nonempty_list (pub_up q) = true /\ nonempty_list (pub_subids q) = true).
  { unfold legal_publish in Hleg.
    repeat match goal with H : _ && _ = true |- _ => apply andb_true_iff in H; destruct H end.
    repeat split; assumption. }
  destruct Hq as [Hqos [Hpid [Hpay [Hup Hsub]]]].
  unfold publish_first_byte.
  destruct (publish_flags_spec (pub_dup q) (pub_retain q) (pub_qos q) Hqos) as [Hflags Hdiv].
  split; [|exact Hdiv].
  unfold decode_publish_packet5. rewrite Hflags. cbn [obind].
  rewrite <- !app_assoc. rewrite (dec_string_w _ _ _ Wt). cbn [obind].
  cbn [pub_qos pub_set_topic pub_set_qos pub_with].
  set (pl := payload_bytes (pub_payload q)).
  set (target := pub_set_payload q None).
  assert (Hprops : forall p2, pub_hdr p2 = pub_hdr target -> items_publish p2 = [] -> pub_canon p2 ->
             (do (properties_length, b3) <- decode_vli_into_mutable (l ++ ps ++ pl);
              if len b3 <? properties_length then dfail else
              do properties_bytes <- slice_to 54 properties_length b3;
              do payload_bytes <- slice_from 55 properties_length b3;
              do p3 <- decode_properties publish_arm properties_bytes p2;
              Ok (Publish (if negb (len payload_bytes =? 0) then pub_set_payload p3 (Some payload_bytes) else p3)))
             = Ok (Publish q)).
  { intros p2 Hh H0 Hc2. rewrite (dec_vli_mut_w _ _ _ Hl). cbn [obind].
    rewrite len_app. replace (len ps + len pl <? len ps) with false by lia.
    unfold slice_to, slice_from. rewrite len_app. replace (len ps <=? len ps + len pl) with true by lia.
    rewrite take_all_app, drop_all_app. cbn [obind].
    destruct (properties_any_order publish_arm items_publish pub_hdr 3 pub_canon publish_arm_step
                its ps p2 target Hps Hal H0) as [s' [Hd [Hv [Hh' Hi]]]].
    { unfold target. destruct q; exact Hs. }
    { symmetry. exact Hh. }
    rewrite Hd. cbn [obind]. f_equal. f_equal.
    assert (E : s' = target).
    { apply pub_ext; auto.
      unfold pub_canon, target. destruct q; cbn in *. auto. }
    rewrite E. unfold target. apply payload_result; [exact Hpay | reflexivity]. }
  destruct (0 <? pub_qos q) eqn:Q.
  - replace (negb (pub_qos q =? 0)) with true by lia.
    rewrite (dec_u16_w _ _ _ Wp). cbn [obind]. apply Hprops; [|reflexivity | split; reflexivity].
    unfold pub_hdr, target. destruct q; reflexivity.
  - replace (negb (pub_qos q =? 0)) with false by lia. inversion Wp; subst pidb. cbn [app obind].
    apply Hprops; [|reflexivity | split; reflexivity].
    unfold pub_hdr, target. try rewrite Q in Hpid. cbn [orb] in Hpid. apply N.eqb_eq in Hpid.
    destruct q; cbn in *. subst. reflexivity.
Qed.

Theorem decode_publish311_faithful : forall q its compact fb body,
  legal_publish V311 q = true ->
  spec_body V311 (Publish q) its compact = Some (fb, body) ->
  decode_publish_packet311 fb body = Ok (Publish q) /\ fb / 16 = 3.
Proof.
  intros q its compact fb body Hleg Hb. cbn [spec_body] in Hb.
  destruct (w_string (pub_topic q)) as [topicb|] eqn:Wt; [|discriminate].
  destruct (if 0 <? pub_qos q then w_u16 (pub_pid q) else Some []) as [pidb|] eqn:Wp; [|discriminate].
  inversion Hb; subst fb body; clear Hb.
  assert (Hqos : spec_qos_ok (pub_qos q) = true).
  { unfold legal_publish in Hleg.
    repeat match goal with H : _ && _ = true |- _ => apply andb_true_iff in H; destruct H end. assumption. }
  unfold publish_first_byte.
  destruct (publish_flags_spec (pub_dup q) (pub_retain q) (pub_qos q) Hqos) as [Hflags Hdiv].
  split; [|exact Hdiv].
  unfold decode_publish_packet311. rewrite Hflags. cbn [obind app].
  rewrite <- ?app_assoc. rewrite (dec_string_w _ _ _ Wt). cbn [obind].
  cbn [pub_qos pub_set_topic pub_set_qos pub_with].
  unfold legal_publish in Hleg.
  repeat match goal with H : _ && _ = true |- _ => apply andb_true_iff in H; destruct H end.
  destruct q as [pid topic qos dup retain pl f1 f2 f3 f4 f5 f6 f7 f8].
  cbn [pub_pid pub_topic pub_qos pub_dup pub_retain pub_payload pub_pfi pub_mei pub_alias pub_response_topic
       pub_correlation pub_subids pub_content_type pub_up] in *.
  destruct f1; [discriminate|]. destruct f2; [discriminate|]. destruct f3; [discriminate|]. destruct f4; [discriminate|].
  destruct f5; [discriminate|]. destruct f6; [discriminate|]. destruct f7; [discriminate|]. destruct f8; [discriminate|].
  cbn [pub_set_pid pub_set_topic pub_set_qos pub_set_retain pub_set_dup pub_set_payload pub_default pub_with
       pub_pid pub_topic pub_qos pub_dup pub_retain pub_payload pub_pfi pub_mei pub_alias pub_response_topic
       pub_correlation pub_subids pub_content_type pub_up payload_bytes].
  destruct (0 <? qos) eqn:Q.
  - replace (negb (qos =? 0)) with true by lia.
    rewrite (dec_u16_w _ _ _ Wp). cbn [obind].
    destruct pl as [[|x pl]|]; try discriminate.
    + cbn [payload_bytes]. rewrite len_cons. replace (1 + len pl =? 0) with false by lia. reflexivity.
    + reflexivity.
  - replace (negb (qos =? 0)) with false by lia. inversion Wp; subst pidb. cbn [app obind].
    assert (pid = 0) by lia. subst pid.
    destruct pl as [[|x pl]|]; try discriminate.
    + cbn [payload_bytes]. rewrite len_cons. replace (1 + len pl =? 0) with false by lia. reflexivity.
    + reflexivity.
Qed.
