(* C02 proofs: CONNECT, both protocol versions.  MQTT5 in two halves: the frame (the separately computed
   remaining length, property length and will-property length are the real sizes of what is emitted:
   connect_frame5) and the decode half (connect_decode5). *)
From GM Require Import Base.Prelude Base.Outcome Codec.Prim Codec.Packets Codec.Steps Codec.ImplEncode
  Codec.SpecDecodeC2S Codec.ValidC2S CodecProofs.EncPrim CodecProofs.EncProps CodecProofs.EncAck CodecProofs.EncDisc
  CodecProofs.EncSub.
Open Scope N_scope.

Definition od (o : option bytes) : bytes := match o with Some s => s | None => [] end.
Definition lp_bytes (s : bytes) : bytes := be16 (u16 (len s)) ++ s.
Definition opt_lp_bytes (o : option bytes) : bytes := match o with Some s => lp_bytes s | None => [] end.

Lemma fl_lp_opt o : fl (lp_opt_data o) (lp_bytes (od o)).
Proof. destruct o as [s|]; [apply fl_lp_data | reflexivity]. Qed.
Lemma fl_opt_lp (o : option bytes) :
  fl (match o with Some _ => lp_opt_data o | None => [] end) (opt_lp_bytes o).
Proof. destruct o as [s|]; [apply fl_lp_data | apply fl_nil]. Qed.
Lemma len_lp_bytes s : len (lp_bytes s) = 2 + len s.
Proof. unfold lp_bytes. rewrite len_app, len_be16. reflexivity. Qed.
Lemma len_opt_lp o : len (opt_lp_bytes o) = lpsz o.
Proof. destruct o; [apply len_lp_bytes | reflexivity]. Qed.
Lemma len_od o : len (od o) = osz o.
Proof. destruct o; reflexivity. Qed.

Definition b2n (b : bool) : N := if b then 1 else 0.

Lemma connect_flags_bits c :
  opt_ok (fun w => pub_qos w <=? 2) (con_will c) = true ->
  let f := connect_flags c in
  f mod 2 = 0 /\ f / 2 mod 2 = b2n (con_clean_start c) /\ f / 4 mod 2 = b2n (is_some (con_will c))
  /\ f / 8 mod 4 = match con_will c with Some w => pub_qos w | None => 0 end
  /\ f / 32 mod 2 = match con_will c with Some w => b2n (pub_retain w) | None => 0 end
  /\ f / 64 mod 2 = b2n (is_some (con_password c)) /\ f / 128 = b2n (is_some (con_username c)).
Proof.
  intros H. unfold connect_flags.
  destruct (con_clean_start c), (con_will c) as [w|], (con_password c), (con_username c); cbn [opt_ok is_some b2n] in *;
    try destruct (pub_retain w); cbn [b2n]; repeat split; lia.
Qed.

Lemma p_str_mqtt x rest : p_str (0 :: 4 :: 77 :: 81 :: 84 :: 84 :: x :: rest) = Some (MQTT_NAME, x :: rest).
Proof.
  unfold p_str, p_bin, p_u16. change (0 * 256 + 4) with 4. unfold p_take.
  assert (4 <=? len (77 :: 81 :: 84 :: 84 :: x :: rest) = true) as ->.
  { rewrite !len_cons. lia. }
  unfold take, drop. change (N.to_nat 4) with 4%nat. cbn [firstn skipn].
  change (str_ok [77; 81; 84; 84]) with true. reflexivity.
Qed.

Lemma str_valid_od o : opt_ok str_valid o = true -> str_valid (od o) = true.
Proof. destruct o; [trivial | reflexivity]. Qed.
Lemma bin_len_od o : opt_ok bin_valid o = true -> len (od o) <= 65535.
Proof. destruct o; cbn [opt_ok od]; [apply bin_valid_len | rewrite len_nil; lia]. Qed.
Lemma nonempty_od o : nonempty (od o) = norm_data o.
Proof. destruct o as [[|x s]|]; reflexivity. Qed.

(* ---------------- MQTT 3.1.1 ---------------- *)
Definition will_bytes311 (w : publish) : bytes := lp_bytes (pub_topic w) ++ lp_bytes (od (pub_payload w)).
Definition connect_body311 (c : connect) : bytes :=
  CONNECT_PROTOCOL_BYTES311 ++ [connect_flags c] ++ be16 (con_keep_alive c) ++ lp_bytes (od (con_client_id c))
  ++ match con_will c with Some w => will_bytes311 w | None => [] end
  ++ opt_lp_bytes (con_username c) ++ opt_lp_bytes (con_password c).

Lemma connect_rt311 : forall c r, valid_connect V311 c = true ->
  exists bs, impl_encode_all V311 (Connect c) r = Ok bs /\ spec_decode V311 bs = Some (canon V311 r (Connect c), []).
Proof.
  intros c r H. unfold valid_connect in H. split_andb.
  match goal with H : (con_keep_alive c <=? U16_MAX) = true |- _ => rename H into Hka end.
  match goal with H : opt_ok str_valid (con_client_id c) = true |- _ => rename H into Hcid end.
  match goal with H : opt_ok str_valid (con_username c) = true |- _ => rename H into Huser end.
  match goal with H : opt_ok bin_valid (con_password c) = true |- _ => rename H into Hpass end.
  match goal with H : opt_ok (valid_will V311 c) (con_will c) = true |- _ => rename H into Hwill end.
  match goal with H : is_some (con_username c) || _ = true |- _ => rename H into Hup end.
  match goal with H : negb (osz (con_client_id c) =? 0) || _ = true |- _ => rename H into Hcc end.
  match goal with H : (_ <=? VLI_MAX) = true |- _ => rename H into Hsz end.
  set (body := connect_body311 c).
  assert (len body = 10 + 2 + osz (con_client_id c)
                     + (match con_will c with Some w => 2 + len (pub_topic w) + 2 + osz (pub_payload w) | None => 0 end)
                     + lpsz (con_username c) + lpsz (con_password c)) as Hbody.
  { unfold body, connect_body311. rewrite !len_app, len_be16, len_1, len_lp_bytes, len_od, !len_opt_lp.
    change (len CONNECT_PROTOCOL_BYTES311) with 7.
    destruct (con_will c) as [w|]; [unfold will_bytes311; rewrite len_app, !len_lp_bytes, len_od | rewrite len_nil]; lia. }
  assert (opt_ok (fun w => pub_qos w <=? 2) (con_will c) = true) as Hwq.
  { destruct (con_will c) as [w|]; [|reflexivity]. cbn [opt_ok] in *. unfold valid_will in Hwill. split_andb. assumption. }
  apply (round_trip V311 _ r 16 body).
  - eexists. split.
    + cbn [impl_steps impl_steps311]. unfold connect_steps311, connect_length311.
      assert (VLI_MAX <? (match con_password c with
                          | Some u => (match con_username c with
                                       | Some u0 => (match con_will c with
                                                     | Some w => 0 + opt_data_len (con_client_id c) + (2 + len (pub_topic w)) + opt_data_len (pub_payload w)
                                                     | None => 0 + opt_data_len (con_client_id c) end) + (2 + len u0)
                                       | None => (match con_will c with
                                                  | Some w => 0 + opt_data_len (con_client_id c) + (2 + len (pub_topic w)) + opt_data_len (pub_payload w)
                                                  | None => 0 + opt_data_len (con_client_id c) end) end) + (2 + len u)
                          | None => (match con_username c with
                                     | Some u0 => (match con_will c with
                                                   | Some w => 0 + opt_data_len (con_client_id c) + (2 + len (pub_topic w)) + opt_data_len (pub_payload w)
                                                   | None => 0 + opt_data_len (con_client_id c) end) + (2 + len u0)
                                     | None => (match con_will c with
                                                | Some w => 0 + opt_data_len (con_client_id c) + (2 + len (pub_topic w)) + opt_data_len (pub_payload w)
                                                | None => 0 + opt_data_len (con_client_id c) end) end)
                          end) + 10 = false) as E.
      { unfold opt_data_len, lpsz, osz in *. unfold VLI_MAX in *.
        destruct (con_password c), (con_username c), (con_will c) as [w|], (con_client_id c);
          try destruct (pub_payload w); lia. }
      cbv zeta. rewrite E. cbn [obind]. reflexivity.
    + match goal with |- context [SVli ?t] => assert (t = len body) as -> end.
      { rewrite Hbody. unfold opt_data_len, lpsz, osz in *. unfold VLI_MAX in *.
        destruct (con_password c), (con_username c), (con_will c) as [w|], (con_client_id c);
          try destruct (pub_payload w); rewrite u32_small; lia. }
      eapply fl_eq.
      { apply (fl_app [SU8 16; SVli _; SBytes _; SU8 _; SU16 _] _
                 (16 :: vli_bytes (len body) ++ CONNECT_PROTOCOL_BYTES311 ++ [connect_flags c] ++ be16 (con_keep_alive c))).
        { apply (fl_app [SU8 16] _ [16]); [apply fl_u8|].
          apply (fl_app [SVli _] _); [apply fl_vli; rewrite Hbody; unfold VLI_MAX in *; lia|].
          apply (fl_app [SBytes _] _); [apply fl_bytes|].
          apply (fl_app [SU8 _] [SU16 _]); [apply fl_u8 | apply fl_u16]. }
        apply fl_app; [apply fl_lp_opt|].
        apply (fl_app _ _ (match con_will c with Some w => will_bytes311 w | None => [] end)).
        { destruct (con_will c) as [w|]; [|apply fl_nil]. apply fl_app; [apply fl_lp_data | apply fl_lp_opt]. }
        apply fl_app; apply fl_opt_lp. }
      unfold body, connect_body311. app_norm.
  - rewrite Hbody. unfold VLI_MAX in *. lia.
  - change (d_body V311 (16 / 16) (16 mod 16) body) with (d_connect V311 body).
    unfold d_connect, body, connect_body311, CONNECT_PROTOCOL_BYTES311. cbn [app].
    rewrite p_str_mqtt. change (bytes_eqb MQTT_NAME MQTT_NAME) with true. cbn [p_u8]. change (4 =? 4) with true.
    destruct (connect_flags_bits c Hwq) as (F0 & F1 & F2 & F3 & F4 & F5 & F6).
    cbv zeta. rewrite F0, F1, F2, F3, F4, F5, F6. change (0 =? 0) with true.
    unfold U16_MAX in Hka. rewrite p_u16_rt by lia.
    unfold lp_bytes at 1. rewrite <- app_assoc. rewrite (p_str_rt _ _ (str_valid_od _ Hcid)).
    rewrite len_od. cbn [get_data].
    (* case analysis on the optional parts *)
    destruct (con_will c) as [w|] eqn:Ew; cbn [is_some b2n opt_ok] in *.
    + unfold valid_will in Hwill. split_andb.
      match goal with H : str_valid (pub_topic w) = true |- _ => rename H into Hwt end.
      match goal with H : opt_ok bin_valid (pub_payload w) = true |- _ => rename H into Hwp end.
      assert (negb (pub_qos w =? 3) = true) as -> by lia.
      change (1 =? 1) with true. cbn [orb].
      unfold will_bytes311, lp_bytes at 1 2. rewrite <- !app_assoc.
      destruct (con_username c) as [u|] eqn:Eu, (con_password c) as [pw|] eqn:Ep;
        cbn [is_some b2n opt_ok opt_lp_bytes orb negb app] in *; try discriminate;
        eval_eqb; cbn [orb andb negb];
        destruct (con_clean_start c) eqn:Ec; cbn [b2n] in *; eval_eqb; rewrite ?orb_true_r, ?orb_false_r in *; try rewrite Hcc;
        rewrite (p_str_rt _ _ Hwt); rewrite (p_bin_rt _ _ (bin_len_od _ Hwp));
        unfold lp_bytes; rewrite <- ?app_assoc, ?app_nil_r;
        try (rewrite <- (app_nil_r u) at 2; rewrite (p_str_rt u [] Huser));
        try rewrite (p_str_rt u _ Huser);
        try (rewrite <- (app_nil_r pw) at 2; rewrite (p_bin_rt pw [] (bin_valid_len _ Hpass)));
        cbn [canon canon_connect option_map canon_will]; rewrite ?Eu, ?Ep, ?Ec, ?Ew; cbn [option_map canon_will];
        rewrite !nonempty_od; destruct (pub_retain w); reflexivity.
    + change (0 =? 3) with false. change (0 =? 1) with false. change (0 =? 0) with true. cbn [negb orb andb].
      destruct (con_username c) as [u|] eqn:Eu, (con_password c) as [pw|] eqn:Ep;
        cbn [is_some b2n opt_ok opt_lp_bytes orb negb app] in *; try discriminate;
        eval_eqb; cbn [orb andb negb];
        destruct (con_clean_start c) eqn:Ec; cbn [b2n] in *; eval_eqb; rewrite ?orb_true_r, ?orb_false_r in *; try rewrite Hcc;
        unfold lp_bytes; rewrite <- ?app_assoc, ?app_nil_r;
        try (rewrite <- (app_nil_r u) at 2; rewrite (p_str_rt u [] Huser));
        try rewrite (p_str_rt u _ Huser);
        try (rewrite <- (app_nil_r pw) at 2; rewrite (p_bin_rt pw [] (bin_valid_len _ Hpass)));
        cbn [canon canon_connect option_map]; rewrite ?Eu, ?Ep, ?Ec, ?Ew; cbn [option_map];
        rewrite !nonempty_od; reflexivity.
Qed.

(* ---------------- MQTT5: the frame ---------------- *)
Definition connect_items (c : connect) : list item :=
  oi_num 17 (con_sei c) ++ oi_num 33 (con_receive_max c) ++ oi_num 39 (con_max_packet c) ++ oi_num 34 (con_tam c)
  ++ oi_bool 25 (con_rri c) ++ oi_bool 23 (con_rpi c) ++ oi_data 21 (con_auth_method c) ++ oi_data 22 (con_auth_data c)
  ++ up_items (con_up c).
Definition will_items (c : connect) (w : publish) : list item :=
  oi_num 24 (con_will_delay c) ++ oi_num 1 (pub_pfi w) ++ oi_num 2 (pub_mei w) ++ oi_data 3 (pub_content_type w)
  ++ oi_data 8 (pub_response_topic w) ++ oi_data 9 (pub_correlation w) ++ up_items (pub_up w).

Definition will_bytes5 (c : connect) (w : publish) : bytes :=
  vli_bytes (len (items_bytes (will_items c w))) ++ items_bytes (will_items c w)
  ++ lp_bytes (pub_topic w) ++ lp_bytes (od (pub_payload w)).
(* the MQTT5 CONNECT body in the specification's layout (3.1.2, 3.1.3), property sections as item lists *)
Definition connect_body5 (c : connect) : bytes :=
  CONNECT_PROTOCOL_BYTES5 ++ [connect_flags c] ++ be16 (con_keep_alive c)
  ++ vli_bytes (len (items_bytes (connect_items c))) ++ items_bytes (connect_items c)
  ++ lp_bytes (od (con_client_id c))
  ++ match con_will c with Some w => will_bytes5 c w | None => [] end
  ++ opt_lp_bytes (con_username c) ++ opt_lp_bytes (con_password c).

Lemma connect_items_len c : len (items_bytes (connect_items c)) = connect_props_size c.
Proof.
  unfold connect_items, connect_props_size. rewrite !items_bytes_app, !len_app.
  rewrite (len_items_u32 17), (len_items_u16 33), (len_items_u32 39), (len_items_u16 34) by reflexivity.
  rewrite (len_items_bool 25), (len_items_bool 23) by reflexivity.
  rewrite (len_items_data 21) by (left; reflexivity). rewrite (len_items_data 22) by (right; reflexivity).
  rewrite len_items_ups. lia.
Qed.
Lemma will_items_len c w : len (items_bytes (will_items c w)) = will_props_size c w.
Proof.
  unfold will_items, will_props_size. rewrite !items_bytes_app, !len_app.
  rewrite (len_items_u32 24), (len_items_byte 1), (len_items_u32 2) by reflexivity.
  rewrite (len_items_data 3), (len_items_data 8) by (left; reflexivity). rewrite (len_items_data 9) by (right; reflexivity).
  rewrite len_items_ups. lia.
Qed.

Lemma connect_frame5 : forall c r, valid_connect V5 c = true ->
  impl_encode_all V5 (Connect c) r = Ok (16 :: vli_bytes (len (connect_body5 c)) ++ connect_body5 c)
  /\ len (connect_body5 c) <= VLI_MAX.
Proof.
  intros c r H. unfold valid_connect in H. split_andb.
  match goal with H : (_ <=? VLI_MAX) = true |- _ => rename H into Hsz end.
  set (cpl := connect_props_size c) in *.
  pose proof (vbisz_bounds cpl) as Hvb.
  assert (cpl <= VLI_MAX) as Hcple by (unfold VLI_MAX in *; lia).
  assert (forall w, con_will c = Some w -> will_props_size c w <= VLI_MAX) as Hwple.
  { intros w Ew. rewrite Ew in Hsz. pose proof (vbisz_bounds (will_props_size c w)). unfold VLI_MAX in *. lia. }
  set (body := connect_body5 c).
  assert (len body = 10 + vbisz cpl + cpl + 2 + osz (con_client_id c)
                     + (match con_will c with
                        | Some w => vbisz (will_props_size c w) + will_props_size c w + 2 + len (pub_topic w) + 2 + osz (pub_payload w)
                        | None => 0 end)
                     + lpsz (con_username c) + lpsz (con_password c)) as Hbody.
  { unfold body, connect_body5. rewrite !len_app, len_be16, len_1, len_lp_bytes, len_od, !len_opt_lp, connect_items_len.
    fold cpl. rewrite len_vli_bytes by assumption. change (len CONNECT_PROTOCOL_BYTES5) with 7.
    destruct (con_will c) as [w|] eqn:Ew.
    - unfold will_bytes5. rewrite !len_app, !len_lp_bytes, len_od, will_items_len.
      rewrite len_vli_bytes by (apply Hwple; reflexivity). lia.
    - rewrite len_nil. lia. }
  split; [|rewrite Hbody; unfold VLI_MAX in *; lia].
  unfold impl_encode_all. cbn [impl_steps impl_steps5]. unfold connect_steps5, connect_lengths5.
  assert (up_length (con_up c) + opt_fixed_len 5 (con_sei c) + opt_fixed_len 3 (con_receive_max c)
          + opt_fixed_len 5 (con_max_packet c) + opt_fixed_len 3 (con_tam c) + opt_fixed_len 2 (con_rri c)
          + opt_fixed_len 2 (con_rpi c) + opt_data_prop_len (con_auth_method c) + opt_data_prop_len (con_auth_data c) = cpl) as ->.
  { unfold cpl, connect_props_size. rewrite up_length_oupsz. change opt_data_prop_len with dsz.
    change (@opt_fixed_len) with (@fsz). lia. }
  rewrite vli_size_vbisz by assumption. cbn [obind]. cbv zeta.
  destruct (con_will c) as [w|] eqn:Ew.
  - assert (up_length (pub_up w) + opt_fixed_len 5 (con_will_delay c) + opt_fixed_len 2 (pub_pfi w)
            + opt_fixed_len 5 (pub_mei w) + opt_data_prop_len (pub_content_type w)
            + opt_data_prop_len (pub_response_topic w) + opt_data_prop_len (pub_correlation w) = will_props_size c w) as ->.
    { unfold will_props_size. rewrite up_length_oupsz. change opt_data_prop_len with dsz.
      change (@opt_fixed_len) with (@fsz). lia. }
    set (wpl := will_props_size c w) in *.
    assert (wpl <= VLI_MAX) as Hw by (apply Hwple; reflexivity).
    pose proof (vbisz_bounds wpl) as Hvbw.
    rewrite vli_size_vbisz by assumption. cbn [obind].
    match goal with |- context [VLI_MAX <? ?t] => assert (t = len body) as Et end.
    { rewrite Hbody. unfold opt_data_len, lpsz, osz in *.
      destruct (con_password c), (con_username c), (con_client_id c), (pub_payload w); lia. }
    rewrite Et. assert (VLI_MAX <? len body = false) as -> by (rewrite Hbody; unfold VLI_MAX in *; lia).
    cbn [obind]. unfold VLI_MAX in *. rewrite !u32_small by (rewrite ?Hbody; lia).
    eapply fl_eq.
    { apply (fl_app [SU8 16; SVli _; SBytes _; SU8 _; SU16 _; SVli _] _
               (16 :: vli_bytes (len body) ++ CONNECT_PROTOCOL_BYTES5 ++ [connect_flags c] ++ be16 (con_keep_alive c)
                ++ vli_bytes cpl)).
      { apply (fl_app [SU8 16] _ [16]); [apply fl_u8|].
        apply (fl_app [SVli _] _); [apply fl_vli; rewrite Hbody; unfold VLI_MAX; lia|].
        apply (fl_app [SBytes _] _); [apply fl_bytes|].
        apply (fl_app [SU8 _] _); [apply fl_u8|].
        apply (fl_app [SU16 _] [SVli _]); [apply fl_u16 | apply fl_vli; unfold VLI_MAX; lia]. }
      apply fl_app; [apply fl_opt_u32; reflexivity|].
      apply fl_app; [apply fl_opt_u16; reflexivity|].
      apply fl_app; [apply fl_opt_u32; reflexivity|].
      apply fl_app; [apply fl_opt_u16; reflexivity|].
      apply fl_app; [apply fl_opt_bool; reflexivity|].
      apply fl_app; [apply fl_opt_bool; reflexivity|].
      apply fl_app; [apply fl_opt_data; left; reflexivity|].
      apply fl_app; [apply fl_opt_data; right; reflexivity|].
      apply fl_app; [apply fl_ups|].
      apply fl_app; [apply fl_lp_opt|].
      apply (fl_app _ _ (will_bytes5 c w)).
      { unfold will_bytes5. rewrite will_items_len. fold wpl.
        apply (fl_app [SVli _] _); [apply fl_vli; unfold VLI_MAX; lia|].
        unfold will_items. rewrite !items_bytes_app. rewrite <- !app_assoc.
        apply fl_app; [apply fl_opt_u32; reflexivity|].
        apply fl_app; [apply fl_opt_u8; reflexivity|].
        apply fl_app; [apply fl_opt_u32; reflexivity|].
        apply fl_app; [apply fl_opt_data; left; reflexivity|].
        apply fl_app; [apply fl_opt_data; left; reflexivity|].
        apply fl_app; [apply fl_opt_data; right; reflexivity|].
        apply fl_app; [apply fl_ups|].
        apply fl_app; [apply fl_lp_data | apply fl_lp_opt]. }
      apply fl_app; apply fl_opt_lp. }
    unfold body, connect_body5. rewrite Ew. rewrite connect_items_len. fold cpl.
    unfold connect_items. rewrite !items_bytes_app. app_norm.
  - cbn [obind].
    match goal with |- context [VLI_MAX <? ?t] => assert (t = len body) as Et end.
    { rewrite Hbody. unfold opt_data_len, lpsz, osz in *.
      destruct (con_password c), (con_username c), (con_client_id c); lia. }
    rewrite Et. assert (VLI_MAX <? len body = false) as -> by (rewrite Hbody; unfold VLI_MAX in *; lia).
    cbn [obind]. unfold VLI_MAX in *. rewrite !u32_small by (rewrite ?Hbody; lia).
    eapply fl_eq.
    { apply (fl_app [SU8 16; SVli _; SBytes _; SU8 _; SU16 _; SVli _] _
               (16 :: vli_bytes (len body) ++ CONNECT_PROTOCOL_BYTES5 ++ [connect_flags c] ++ be16 (con_keep_alive c)
                ++ vli_bytes cpl)).
      { apply (fl_app [SU8 16] _ [16]); [apply fl_u8|].
        apply (fl_app [SVli _] _); [apply fl_vli; rewrite Hbody; unfold VLI_MAX; lia|].
        apply (fl_app [SBytes _] _); [apply fl_bytes|].
        apply (fl_app [SU8 _] _); [apply fl_u8|].
        apply (fl_app [SU16 _] [SVli _]); [apply fl_u16 | apply fl_vli; unfold VLI_MAX; lia]. }
      apply fl_app; [apply fl_opt_u32; reflexivity|].
      apply fl_app; [apply fl_opt_u16; reflexivity|].
      apply fl_app; [apply fl_opt_u32; reflexivity|].
      apply fl_app; [apply fl_opt_u16; reflexivity|].
      apply fl_app; [apply fl_opt_bool; reflexivity|].
      apply fl_app; [apply fl_opt_bool; reflexivity|].
      apply fl_app; [apply fl_opt_data; left; reflexivity|].
      apply fl_app; [apply fl_opt_data; right; reflexivity|].
      apply fl_app; [apply fl_ups|].
      apply fl_app; [apply fl_lp_opt|].
      apply (fl_app [] _ []); [apply fl_nil|].
      apply fl_app; apply fl_opt_lp. }
    unfold body, connect_body5. rewrite Ew. rewrite connect_items_len. fold cpl.
    unfold connect_items. rewrite !items_bytes_app. app_norm.
Qed.

(* ---------------- MQTT5: the decode half ---------------- *)
Ltac wf_num H :=
  eapply wf_oi_num; [exact H|];
  let y := fresh "y" in let Hy := fresh "Hy" in
  intros y Hy; unfold item_wf; cbn [fst snd prop_type val_wf value_ok]; eval_eqb; cbn [orb]; cbv beta in Hy;
  unfold U32_MAX, U16_MAX in *; lia.
Ltac wf_str H := eapply wf_oi_data; [exact H|]; let s := fresh "s" in let Hs := fresh "Hs" in
  intros s Hs; apply wf_str_item; [reflexivity | reflexivity | exact Hs].
Ltac wf_bin H := eapply wf_oi_data; [exact H|]; let s := fresh "s" in let Hs := fresh "Hs" in
  intros s Hs; apply wf_bin_item; [reflexivity | reflexivity | exact Hs].

Lemma get_bool_rt (o : option bool) :
  match option_map bool_n o with Some n => Some (negb (n =? 0)) | None => None end = o.
Proof. destruct o as [[|]|]; reflexivity. Qed.

Lemma connect_decode5 : forall c, valid_connect V5 c = true ->
  d_connect V5 (connect_body5 c) = Some (Connect (canon_connect V5 c)).
Proof.
  intros c H. pose proof H as Hvalid. unfold valid_connect in H. split_andb.
  match goal with H : (con_keep_alive c <=? U16_MAX) = true |- _ => rename H into Hka end.
  match goal with H : opt_ok str_valid (con_client_id c) = true |- _ => rename H into Hcid end.
  match goal with H : opt_ok str_valid (con_username c) = true |- _ => rename H into Huser end.
  match goal with H : opt_ok bin_valid (con_password c) = true |- _ => rename H into Hpass end.
  match goal with H : opt_ok (valid_will V5 c) (con_will c) = true |- _ => rename H into Hwill end.
  match goal with H : opt_ok _ (con_sei c) = true |- _ => rename H into Hsei end.
  match goal with H : opt_ok _ (con_receive_max c) = true |- _ => rename H into Hrm end.
  match goal with H : opt_ok _ (con_max_packet c) = true |- _ => rename H into Hmp end.
  match goal with H : opt_ok _ (con_tam c) = true |- _ => rename H into Htam end.
  match goal with H : opt_ok _ (con_auth_method c) = true |- _ => rename H into Ham end.
  match goal with H : opt_ok _ (con_auth_data c) = true |- _ => rename H into Had end.
  match goal with H : is_some (con_auth_method c) || _ = true |- _ => rename H into Hamd end.
  match goal with H : ups_valid (con_up c) = true |- _ => rename H into Hups end.
  match goal with H : (_ <=? VLI_MAX) = true |- _ => rename H into Hsz end.
  assert (opt_ok (fun w => pub_qos w <=? 2) (con_will c) = true) as Hwq.
  { destruct (con_will c) as [w|]; [|reflexivity]. cbn [opt_ok] in *. unfold valid_will in Hwill. split_andb. assumption. }
  pose proof (vbisz_bounds (connect_props_size c)) as Hvb.
  assert (connect_props_size c <= VLI_MAX) as Hcple by (unfold VLI_MAX in *; lia).
  unfold d_connect, connect_body5, CONNECT_PROTOCOL_BYTES5. cbn [app].
  rewrite p_str_mqtt. change (bytes_eqb MQTT_NAME MQTT_NAME) with true. cbn [p_u8]. change (5 =? 5) with true.
  destruct (connect_flags_bits c Hwq) as (F0 & F1 & F2 & F3 & F4 & F5 & F6).
  cbv zeta. rewrite F0, F1, F2, F3, F4, F5, F6. change (0 =? 0) with true.
  unfold U16_MAX in Hka. rewrite p_u16_rt by lia.
  rewrite p_props_rt.
  2:{ unfold connect_items. rewrite !forallb_app. repeat (apply andb_true_iff; split).
      - wf_num Hsei.
      - wf_num Hrm.
      - wf_num Hmp.
      - wf_num Htam.
      - apply wf_oi_bool; reflexivity.
      - apply wf_oi_bool; reflexivity.
      - wf_str Ham.
      - wf_bin Had.
      - apply wf_up_items. exact Hups. }
  2:{ rewrite connect_items_len. assumption. }
  2:{ unfold connect_items, oi_bool. solve_allowed. }
  2:{ unfold connect_items, oi_bool, allowed_connect. solve_once. }
  assert (match get_data 22 (connect_items c), get_data 21 (connect_items c) with Some _, None => false | _, _ => true end = true) as ->.
  { unfold connect_items, oi_bool. solve_get. destruct (con_auth_data c), (con_auth_method c); try reflexivity. discriminate. }
  unfold lp_bytes at 1. rewrite <- app_assoc. rewrite (p_str_rt _ _ (str_valid_od _ Hcid)).
  assert (forall its, its = connect_items c ->
          (get_num 17 its = con_sei c /\ get_bool 25 its = con_rri c /\ get_bool 23 its = con_rpi c /\
           get_num 33 its = con_receive_max c /\ get_num 34 its = con_tam c /\ get_num 39 its = con_max_packet c /\
           get_data 21 its = con_auth_method c /\ get_data 22 its = con_auth_data c /\ get_ups its = norm_up (con_up c))) as Hget.
  { intros its ->. unfold connect_items, oi_bool. repeat split; try (solve_get; apply get_bool_rt). solve_get_ups. }
  destruct (Hget _ eq_refl) as (G1 & G2 & G3 & G4 & G5 & G6 & G7 & G8 & G9).
  rewrite G1, G2, G3, G4, G5, G6, G7, G8, G9. clear Hget G1 G2 G3 G4 G5 G6 G7 G8 G9.
  destruct (con_will c) as [w|] eqn:Ew; cbn [is_some b2n opt_ok] in *.
  - unfold valid_will in Hwill. split_andb.
    match goal with H : str_valid (pub_topic w) = true |- _ => rename H into Hwt end.
    match goal with H : opt_ok bin_valid (pub_payload w) = true |- _ => rename H into Hwp end.
    match goal with H : opt_ok _ (con_will_delay c) = true |- _ => rename H into Hwd end.
    match goal with H : opt_ok _ (pub_pfi w) = true |- _ => rename H into Hpfi end.
    match goal with H : opt_ok _ (pub_mei w) = true |- _ => rename H into Hmei end.
    match goal with H : opt_ok _ (pub_content_type w) = true |- _ => rename H into Hct end.
    match goal with H : opt_ok _ (pub_response_topic w) = true |- _ => rename H into Hrt end.
    match goal with H : opt_ok _ (pub_correlation w) = true |- _ => rename H into Hcorr end.
    match goal with H : ups_valid (pub_up w) = true |- _ => rename H into Hwups end.
    assert (negb (pub_qos w =? 3) = true) as -> by lia.
    change (1 =? 1) with true. cbn [orb].
    pose proof (vbisz_bounds (will_props_size c w)) as Hvbw.
    assert (will_props_size c w <= VLI_MAX) as Hwple by (unfold VLI_MAX in *; lia).
    unfold will_bytes5. rewrite <- !app_assoc.
    rewrite p_props_rt.
    2:{ unfold will_items. rewrite !forallb_app. repeat (apply andb_true_iff; split).
        - wf_num Hwd.
        - wf_num Hpfi.
        - wf_num Hmei.
        - wf_str Hct.
        - wf_str Hrt.
        - wf_bin Hcorr.
        - apply wf_up_items. exact Hwups. }
    2:{ rewrite will_items_len. assumption. }
    2:{ unfold will_items. solve_allowed. }
    2:{ unfold will_items, allowed_will. solve_once. }
    unfold lp_bytes at 1 2. rewrite <- !app_assoc.
    rewrite (p_str_rt _ _ Hwt). rewrite (p_bin_rt _ _ (bin_len_od _ Hwp)).
    assert (forall its, its = will_items c w ->
            (get_num 24 its = con_will_delay c /\ get_num 1 its = pub_pfi w /\ get_num 2 its = pub_mei w /\
             get_data 3 its = pub_content_type w /\ get_data 8 its = pub_response_topic w /\
             get_data 9 its = pub_correlation w /\ get_ups its = norm_up (pub_up w))) as Hget.
    { intros its ->. unfold will_items. repeat split; try solve_get. solve_get_ups. }
    destruct (Hget _ eq_refl) as (G1 & G2 & G3 & G4 & G5 & G6 & G7).
    rewrite G1, G2, G3, G4, G5, G6, G7. clear Hget G1 G2 G3 G4 G5 G6 G7.
    destruct (con_username c) as [u|] eqn:Eu, (con_password c) as [pw|] eqn:Ep;
      cbn [is_some b2n opt_ok opt_lp_bytes app] in *; eval_eqb;
      unfold lp_bytes; rewrite <- ?app_assoc, ?app_nil_r;
      try (rewrite <- (app_nil_r u) at 2; rewrite (p_str_rt u [] Huser));
      try rewrite (p_str_rt u _ Huser);
      try (rewrite <- (app_nil_r pw) at 2; rewrite (p_bin_rt pw [] (bin_valid_len _ Hpass)));
      unfold canon_connect; rewrite ?Eu, ?Ep, ?Ew; cbn [option_map canon_will];
      rewrite !nonempty_od; destruct (pub_retain w), (con_clean_start c); reflexivity.
  - change (0 =? 3) with false. change (0 =? 1) with false. change (0 =? 0) with true. cbn [negb orb andb].
    destruct (con_username c) as [u|] eqn:Eu, (con_password c) as [pw|] eqn:Ep;
      cbn [is_some b2n opt_ok opt_lp_bytes app] in *; eval_eqb;
      unfold lp_bytes; rewrite <- ?app_assoc, ?app_nil_r;
      try (rewrite <- (app_nil_r u) at 2; rewrite (p_str_rt u [] Huser));
      try rewrite (p_str_rt u _ Huser);
      try (rewrite <- (app_nil_r pw) at 2; rewrite (p_bin_rt pw [] (bin_valid_len _ Hpass)));
      unfold canon_connect; rewrite ?Eu, ?Ep, ?Ew; cbn [option_map];
      rewrite !nonempty_od; destruct (con_clean_start c); reflexivity.
Qed.

Lemma connect_rt5 : forall c r, valid_connect V5 c = true ->
  exists bs, impl_encode_all V5 (Connect c) r = Ok bs /\ spec_decode V5 bs = Some (canon V5 r (Connect c), []).
Proof.
  intros c r H. destruct (connect_frame5 c r H) as [He Hl].
  eexists. split; [exact He|].
  apply spec_decode_frame; [exact Hl|].
  change (d_body V5 (16 / 16) (16 mod 16) (connect_body5 c)) with (d_connect V5 (connect_body5 c)).
  rewrite (connect_decode5 c H). reflexivity.
Qed.
