(* C02 proofs, part 2: the resumable step encoder (Encoder::encode) is fragmentation-invariant. *)
From GM Require Import Base.Prelude Base.Outcome Codec.Prim Codec.Packets Codec.Steps CodecProofs.EncPrim.
Open Scope N_scope.

(* what remains to be emitted after a call, as a continuation of the bytes already emitted *)
Definition then_rest (out : bytes) (rest : list step) : outcome bytes :=
  do r' <- flatten rest ; Ok (out ++ r').

(* lia does not know N.min *)
Ltac mlia :=
  repeat match goal with
  | H : context [N.min ?a ?b] |- _ => let E := fresh in destruct (N.min_spec a b) as [[? E]|[? E]]; rewrite E in *; clear E
  | |- context [N.min ?a ?b] => let E := fresh in destruct (N.min_spec a b) as [[? E]|[? E]]; rewrite E in *; clear E
  end; lia.

Lemma take_drop (n : N) (b : bytes) : take n b ++ drop n b = b.
Proof. unfold take, drop. apply firstn_skipn. Qed.

Lemma len_take_le (n : N) (b : bytes) : n <= len b -> len (take n b) = n.
Proof. unfold take, len. intros H. rewrite firstn_length. lia. Qed.

(* integral steps never need more than the 4 bytes the loop condition guarantees *)
Lemma step_bytes_integral_le4 s bs :
  (forall b, s <> SBytes b) -> step_bytes s = Ok bs -> 1 <= len bs <= 4.
Proof.
  intros Hs H. destruct s; cbn [step_bytes] in H.
  - injection H as <-. cbn. lia.
  - injection H as <-. rewrite len_be16. lia.
  - injection H as <-. rewrite len_be32. lia.
  - unfold encode_vli in H. destruct (VLI_MAX <? v) eqn:E; [discriminate|]. injection H as <-.
    rewrite len_vli_bytes by lia. pose proof (vbisz_bounds v). lia.
  - exfalso. eapply Hs. reflexivity.
Qed.

(* One loop run: the emitted bytes followed by what the remaining steps produce is what all steps
   produce; nothing is written beyond the capacity; the queue never grows. *)
Lemma encode_loop_spec steps : forall l cap out rest,
  l <= cap -> encode_loop steps l cap = Ok (out, rest) ->
  flatten steps = then_rest out rest /\ l + len out <= cap /\ (length rest <= length steps)%nat.
Proof.
  induction steps as [|s steps IH]; intros l cap out rest Hl H.
  - cbn in H. injection H as <- <-. cbn. repeat split; try lia. 
  - cbn [encode_loop] in H. destruct (l + 4 <=? cap) eqn:Hroom.
    2:{ injection H as <- <-. unfold then_rest. cbn [app]. split; [|split; [rewrite len_nil; lia | lia]].
        destruct (flatten (s :: steps)); reflexivity. }
    destruct s as [v|v|v|v|b].
    1-4: match type of H with context [step_bytes ?s] => destruct (step_bytes s) as [bs| |] eqn:Hs end;
         cbn [obind] in H; try discriminate;
         destruct (encode_loop steps (l + len bs) cap) as [[out' rest']| |] eqn:Hrec; cbn [obind] in H; try discriminate;
         injection H as <- <-;
         (assert (1 <= len bs <= 4) as Hb by (eapply step_bytes_integral_le4; [|exact Hs]; intros; discriminate));
         (destruct (IH (l + len bs) cap out' rest' ltac:(lia) Hrec) as (IH1 & IH2 & IH3));
         (split; [|split; [rewrite len_app; lia | cbn [length]; lia]]);
         cbn [flatten]; rewrite Hs; cbn [obind]; rewrite IH1; unfold then_rest;
         destruct (flatten rest'); cbn [obind]; try reflexivity; rewrite app_assoc; reflexivity.
    (* slice step *)
    cbn zeta in H.
    destruct (N.min (cap - l) (len b) <? len b) eqn:Hpart.
    + injection H as <- <-.
      split; [|split].
      * unfold then_rest. cbn [flatten step_bytes obind].
        destruct (flatten steps); cbn [obind]; try reflexivity.
        rewrite app_assoc, take_drop. reflexivity.
      * rewrite len_take_le by mlia. mlia.
      * cbn [length]. lia.
    + destruct (encode_loop steps (l + N.min (cap - l) (len b)) cap) as [[out' rest']| |] eqn:Hrec;
        cbn [obind] in H; try discriminate.
      injection H as <- <-.
      assert (l + len b <= cap) as Hfit by mlia.
      assert (N.min (cap - l) (len b) = len b) as Hmin by mlia.
      rewrite Hmin in Hrec.
      destruct (IH _ cap out' rest' Hfit Hrec) as (IH1 & IH2 & IH3).
      split; [|split; [rewrite len_app; lia | cbn [length]; lia]].
      cbn [flatten step_bytes obind]. rewrite IH1. unfold then_rest.
      destruct (flatten rest'); cbn [obind]; try reflexivity. rewrite app_assoc. reflexivity.
Qed.

(* the re-queued slice leaves the buffer full: the `while` condition of Encoder::encode fails *)
Lemma Steps_requeue_exits l cap (b : bytes) :
  l <= cap -> N.min (cap - l) (len b) <? len b = true -> l + N.min (cap - l) (len b) = cap.
Proof. intros. mlia. Qed.

(* progress: with 4 free bytes and a non-empty queue a call emits something or retires a step
   (a retired step that emits nothing is an empty slice) *)
Lemma encode_loop_progress steps l cap out rest :
  l + 4 <= cap -> steps <> [] -> encode_loop steps l cap = Ok (out, rest) ->
  out <> [] \/ (length rest < length steps)%nat.
Proof.
  intros Hroom Hne H. destruct steps as [|s steps]; [contradiction|].
  cbn [encode_loop] in H. assert (l + 4 <=? cap = true) as E by lia. rewrite E in H.
  destruct s as [v|v|v|v|b].
  1-4: match type of H with context [step_bytes ?s] => destruct (step_bytes s) as [bs| |] eqn:Hs end;
       cbn [obind] in H; try discriminate;
       destruct (encode_loop steps (l + len bs) cap) as [[out' rest']| |] eqn:Hrec; cbn [obind] in H; try discriminate;
       injection H as <- <-;
       (assert (1 <= len bs <= 4) as Hb by (eapply step_bytes_integral_le4; [|exact Hs]; intros; discriminate));
       left; destruct bs; [rewrite len_nil in Hb; lia | discriminate].
  cbn zeta in H. destruct (N.min (cap - l) (len b) <? len b) eqn:Hpart.
  - injection H as <- <-. left. intro E0.
    assert (len (take (N.min (cap - l) (len b)) b) = 0) as E1 by (rewrite E0; reflexivity).
    rewrite len_take_le in E1 by mlia. mlia.
  - destruct (encode_loop steps (l + N.min (cap - l) (len b)) cap) as [[out' rest']| |] eqn:Hrec;
      cbn [obind] in H; try discriminate.
    injection H as <- <-. right.
    assert (l + len b <= cap) as Hle by mlia.
    assert (N.min (cap - l) (len b) = len b) as Hmin by mlia. rewrite Hmin in Hrec.
    destruct (encode_loop_spec steps _ cap out' rest' Hle Hrec) as (_ & _ & H3). cbn [length]. lia.
Qed.

(* ---- the drain after the loop (leading empty slice steps are retired) ---- *)
Lemma flatten_drop_empty steps : flatten (drop_empty steps) = flatten steps.
Proof.
  induction steps as [|s steps IH]; [reflexivity|].
  destruct s as [v|v|v|v|[|x b]]; try reflexivity.
  cbn [drop_empty]. rewrite IH. cbn [flatten step_bytes obind]. destruct (flatten steps); reflexivity.
Qed.
Lemma length_drop_empty steps : (length (drop_empty steps) <= length steps)%nat.
Proof.
  induction steps as [|s steps IH]; [cbn; lia|].
  destruct s as [v|v|v|v|[|x b]]; cbn [drop_empty length]; lia.
Qed.
Lemma drop_empty_idem steps : drop_empty (drop_empty steps) = drop_empty steps.
Proof.
  induction steps as [|s steps IH]; [reflexivity|].
  destruct s as [v|v|v|v|[|x b]]; try reflexivity. cbn [drop_empty]. exact IH.
Qed.
Lemma then_rest_drop_empty out rest : then_rest out (drop_empty rest) = then_rest out rest.
Proof. unfold then_rest. rewrite flatten_drop_empty. reflexivity. Qed.

(* steps that produce no byte at all are empty slices only; the drain removes all of them *)
Lemma flatten_nil_drop_empty steps : flatten steps = Ok [] -> drop_empty steps = [].
Proof.
  induction steps as [|s steps IH]; [reflexivity|]. intros H. cbn [flatten] in H.
  destruct (step_bytes s) as [sb| |] eqn:Hs; cbn [obind] in H; try discriminate.
  destruct (flatten steps) as [t| |]; cbn [obind] in H; try discriminate.
  injection H as H. apply app_eq_nil in H as [-> ->].
  destruct s as [v|v|v|v|b].
  1-4: exfalso; assert (1 <= len (@nil N) <= 4) as Hb
         by (eapply step_bytes_integral_le4; [|exact Hs]; intros; discriminate); rewrite len_nil in Hb; lia.
  cbn [step_bytes] in Hs. injection Hs as ->. cbn [drop_empty]. apply IH. reflexivity.
Qed.

(* the flatten relation of one loop run needs no assumption on the fill: work happens only when l + 4 <= cap *)
Lemma encode_loop_flatten steps l cap out rest :
  encode_loop steps l cap = Ok (out, rest) -> flatten steps = then_rest out rest.
Proof.
  intros H. destruct (N.le_gt_cases l cap) as [Hle|Hgt].
  - exact (proj1 (encode_loop_spec steps l cap out rest Hle H)).
  - destruct steps as [|s steps].
    + cbn in H. injection H as <- <-. reflexivity.
    + cbn [encode_loop] in H. assert (l + 4 <=? cap = false) as E by lia. rewrite E in H.
      injection H as <- <-. unfold then_rest. cbn [app]. destruct (flatten (s :: steps)); reflexivity.
Qed.

(* ---- statements about encode_call ---- *)
Lemma encode_call_inv steps fill cap out rest :
  encode_call steps fill cap = Ok (out, rest) ->
  4 <= cap /\ exists rest0, encode_loop steps fill cap = Ok (out, rest0) /\ rest = drop_empty rest0.
Proof.
  unfold encode_call. destruct (cap <? 4) eqn:E; [discriminate|].
  destruct (encode_loop steps fill cap) as [[o r0]| |]; cbn [obind]; try discriminate.
  intros [= <- <-]. split; [lia|]. eauto.
Qed.

Lemma encode_call_prefix steps fill cap out rest :
  fill <= cap -> 4 <= cap -> encode_call steps fill cap = Ok (out, rest) ->
  flatten steps = then_rest out rest /\ fill + len out <= cap.
Proof.
  intros Hf Hc H. destruct (encode_call_inv _ _ _ _ _ H) as (_ & rest0 & Hl & ->).
  destruct (encode_loop_spec steps fill cap out rest0 Hf Hl) as (H1 & H2 & _).
  rewrite then_rest_drop_empty. split; assumption.
Qed.

Lemma encode_call_ok_form steps fill cap out rest r' :
  fill <= cap -> 4 <= cap -> encode_call steps fill cap = Ok (out, rest) -> flatten rest = Ok r' ->
  flatten steps = Ok (out ++ r').
Proof.
  intros Hf Hc H Hr. destruct (encode_call_prefix _ _ _ _ _ Hf Hc H) as [E _]. rewrite E. unfold then_rest.
  rewrite Hr. reflexivity.
Qed.

Lemma encode_call_progress steps fill cap out rest :
  fill + 4 <= cap -> steps <> [] -> encode_call steps fill cap = Ok (out, rest) ->
  out <> [] \/ (length rest < length steps)%nat.
Proof.
  intros Hroom Hne H. destruct (encode_call_inv _ _ _ _ _ H) as (_ & rest0 & Hl & ->).
  destruct (encode_loop_progress steps fill cap out rest0 Hroom Hne Hl) as [?|?]; [left; assumption|].
  right. pose proof (length_drop_empty rest0). lia.
Qed.

(* once every byte of the packet is out, the encoder reports Complete (what /repo commit 00b5d35 establishes:
   before it, a trailing empty string / empty payload kept the packet "Full" when the buffer filled up
   right before it) *)
Lemma encode_call_complete steps fill cap out rest :
  encode_call steps fill cap = Ok (out, rest) -> flatten steps = Ok out -> rest = [].
Proof.
  intros H Hall. destruct (encode_call_inv _ _ _ _ _ H) as (_ & rest0 & Hl & ->).
  pose proof (encode_loop_flatten _ _ _ _ _ Hl) as E. rewrite Hall in E. unfold then_rest in E.
  destruct (flatten rest0) as [r'| |] eqn:Hr; cbn [obind] in E; try discriminate.
  injection E as E. rewrite <- (app_nil_r out) in E at 1. apply app_inv_head in E. subst r'.
  apply flatten_nil_drop_empty. exact Hr.
Qed.

(* any sequence of calls (any fills and capacities) that ends with an empty queue *)
Inductive enc_run : list step -> bytes -> Prop :=
| enc_run_done : enc_run [] []
| enc_run_call steps fill cap out rest outs :
    fill <= cap -> 4 <= cap -> encode_call steps fill cap = Ok (out, rest) -> enc_run rest outs ->
    enc_run steps (out ++ outs).

Lemma enc_run_flatten steps bs : enc_run steps bs -> flatten steps = Ok bs.
Proof.
  induction 1 as [|steps fill cap out rest outs Hf Hc Hcall Hrun IH].
  - reflexivity.
  - exact (encode_call_ok_form _ _ _ _ _ _ Hf Hc Hcall IH).
Qed.

(* the facade's driver loop (Steps.encode_seq) *)
Lemma encode_seq_flatten fuel : forall steps bufs last bs,
  encode_seq fuel steps bufs last = Ok (Some bs) -> flatten steps = Ok bs.
Proof.
  induction fuel as [|f IH]; intros steps bufs last bs H; [discriminate|].
  cbn [encode_seq] in H.
  destruct (match bufs with b :: _ => b | [] => last end) as [cap fill0].
  set (fill := N.min fill0 cap) in *.
  destruct (encode_call steps fill cap) as [[out rest]| |] eqn:Hcall; cbn [obind] in H; try discriminate.
  assert (4 <= cap) as Hc by (apply (encode_call_inv _ _ _ _ _ Hcall)).
  assert (fill <= cap) as Hf by (unfold fill; mlia).
  destruct rest as [|s rest].
  - injection H as <-. rewrite (encode_call_ok_form _ _ _ _ _ [] Hf Hc Hcall eq_refl). rewrite app_nil_r. reflexivity.
  - destruct (encode_seq f (s :: rest) (tl bufs) last) as [[t|]| |] eqn:Hrec; cbn [obind] in H; try discriminate.
    injection H as <-. exact (encode_call_ok_form _ _ _ _ _ _ Hf Hc Hcall (IH _ _ _ _ Hrec)).
Qed.

(* with unlimited room one call writes everything *)
Lemma encode_loop_unfragmented steps : forall bs fill cap,
  flatten steps = Ok bs -> fill + len bs + 4 <= cap -> encode_loop steps fill cap = Ok (bs, []).
Proof.
  intros bs fill cap Hfl Hroom.
  revert bs fill Hfl Hroom. induction steps as [|s steps IH]; intros bs fill Hfl Hroom.
  - cbn in Hfl. injection Hfl as <-. reflexivity.
  - cbn [flatten] in Hfl. destruct (step_bytes s) as [sb| |] eqn:Hs; cbn [obind] in Hfl; try discriminate.
    destruct (flatten steps) as [t| |] eqn:Ht; cbn [obind] in Hfl; try discriminate. injection Hfl as <-.
    rewrite len_app in Hroom.
    cbn [encode_loop]. assert (fill + 4 <=? cap = true) as -> by lia.
    destruct s as [v|v|v|v|b].
    1-4: rewrite Hs; cbn [obind]; rewrite (IH t (fill + len sb) eq_refl ltac:(lia)); reflexivity.
    cbn [step_bytes] in Hs. injection Hs as <-. cbn zeta.
    assert (N.min (cap - fill) (len b) = len b) as -> by mlia.
    assert (len b <? len b = false) as -> by lia.
    rewrite (IH t (fill + len b) eq_refl ltac:(lia)). reflexivity.
Qed.

Lemma encode_call_unfragmented steps : forall bs fill cap,
  flatten steps = Ok bs -> 4 <= cap -> fill + len bs + 4 <= cap -> encode_call steps fill cap = Ok (bs, []).
Proof.
  intros bs fill cap Hfl Hc Hroom. unfold encode_call. assert (cap <? 4 = false) as -> by lia.
  rewrite (encode_loop_unfragmented steps bs fill cap Hfl Hroom). reflexivity.
Qed.
