(* C03: characterisation of the primitive decoders of Codec/ImplDecode.v by pattern matching
   (all slice checks shown sufficient), and the two facts the packet-level proofs need from
   them: they never panic, and what they return as "remaining bytes" is no longer than what
   they were given. *)
From GM Require Import Base.Prelude Base.Outcome Codec.Packets Codec.Prim Codec.ReasonCodes Codec.ImplDecode.
Open Scope N_scope.

Lemma is_panic_bind {A B} (o : outcome A) (f : A -> outcome B) :
  is_panic o = false -> (forall a, o = Ok a -> is_panic (f a) = false) -> is_panic (obind o f) = false.
Proof. destruct o; cbn; intros H1 H2; auto. Qed.

Lemma take_length_le (n : N) (b : bytes) : (length (take n b) <= length b)%nat.
Proof. unfold take. rewrite firstn_length. lia. Qed.
Lemma drop_length_le (n : N) (b : bytes) : (length (drop n b) <= length b)%nat.
Proof. unfold drop. rewrite skipn_length. lia. Qed.

(* ---- pattern-matching characterisations ---- *)
Lemma decode_u16_spec b :
  decode_u16 b = match b with x :: y :: t => Ok (x * 256 + y, t) | _ => dfail end.
Proof.
  destruct b as [|x [|y t]]; try reflexivity.
  unfold decode_u16, slice_to, slice_from. rewrite !len_cons.
  replace (1 + (1 + len t) <? 2) with false by lia. replace (2 <=? 1 + (1 + len t)) with true by lia.
  reflexivity.
Qed.

Lemma decode_optional_u16_spec b v :
  decode_optional_u16 b v =
  match b with
  | x :: y :: t => match v with Some _ => dfail | None => Ok (Some (x * 256 + y), t) end
  | _ => dfail
  end.
Proof.
  destruct b as [|x [|y t]]; try reflexivity.
  unfold decode_optional_u16, slice_to, slice_from. rewrite !len_cons.
  replace (1 + (1 + len t) <? 2) with false by lia. replace (2 <=? 1 + (1 + len t)) with true by lia.
  destruct v; reflexivity.
Qed.

Lemma decode_optional_u32_spec b v :
  decode_optional_u32 b v =
  match b with
  | a :: b' :: c :: d :: t =>
    match v with Some _ => dfail | None => Ok (Some (((a * 256 + b') * 256 + c) * 256 + d), t) end
  | _ => dfail
  end.
Proof.
  destruct b as [|a [|b' [|c [|d t]]]]; try reflexivity.
  unfold decode_optional_u32, slice_to, slice_from. rewrite !len_cons.
  replace (1 + (1 + (1 + (1 + len t))) <? 4) with false by lia.
  replace (4 <=? 1 + (1 + (1 + (1 + len t)))) with true by lia.
  destruct v; reflexivity.
Qed.

Lemma decode_u8_as_enum_spec b conv :
  decode_u8_as_enum b conv = match b with x :: t => (do v <- conv x; Ok (v, t)) | [] => dfail end.
Proof.
  destruct b as [|x t]; try reflexivity.
  unfold decode_u8_as_enum, slice_from. rewrite !len_cons.
  replace (1 + len t =? 0) with false by lia. replace (1 <=? 1 + len t) with true by lia.
  cbn [index0 obind]. destruct (conv x); reflexivity.
Qed.

Lemma decode_optional_u8_as_enum_spec b v conv :
  decode_optional_u8_as_enum b v conv =
  match b with
  | x :: t => match v with Some _ => dfail | None => (do w <- conv x; Ok (Some w, t)) end
  | [] => dfail
  end.
Proof.
  destruct b as [|x t]; try reflexivity.
  unfold decode_optional_u8_as_enum, slice_from. rewrite !len_cons.
  replace (1 + len t =? 0) with false by lia. replace (1 <=? 1 + len t) with true by lia.
  destruct v; [reflexivity|]. cbn [index0 obind]. destruct (conv x); reflexivity.
Qed.

Lemma decode_optional_u8_as_bool_spec b v :
  decode_optional_u8_as_bool b v =
  match b with
  | x :: t =>
    match v with
    | Some _ => dfail
    | None => if x =? 0 then Ok (Some false, t) else if x =? 1 then Ok (Some true, t) else dfail
    end
  | [] => dfail
  end.
Proof.
  destruct b as [|x t]; try reflexivity.
  unfold decode_optional_u8_as_bool, slice_from. rewrite !len_cons.
  replace (1 + len t =? 0) with false by lia. replace (1 <=? 1 + len t) with true by lia.
  destruct v; [reflexivity|]. cbn [index0 obind]. destruct (x =? 0); [reflexivity|]. destruct (x =? 1); reflexivity.
Qed.

Definition lp_tail (check_utf8 : bool) (l : N) (t : bytes) : outcome (bytes * bytes) :=
  if len t <? l then dfail
  else if check_utf8 && negb (utf8_ok (take l t)) then dfail
  else if check_utf8 && str_contains_nul (take l t) then dfail
  else Ok (take l t, drop l t).

Lemma decode_length_prefixed_string_spec b :
  decode_length_prefixed_string b =
  match b with x :: y :: t => lp_tail true (x * 256 + y) t | _ => dfail end.
Proof.
  destruct b as [|x [|y t]]; try reflexivity.
  unfold decode_length_prefixed_string, slice_to, slice_from, lp_tail. rewrite !len_cons.
  replace (1 + (1 + len t) <? 2) with false by lia. replace (2 <=? 1 + (1 + len t)) with true by lia.
  change (take 2 (x :: y :: t)) with [x; y]. change (drop 2 (x :: y :: t)) with t.
  cbn [be16_of obind].
  destruct (len t <? x * 256 + y) eqn:E; [reflexivity|].
  replace (x * 256 + y <=? len t) with true by lia. cbn [obind andb].
  destruct (utf8_ok _); [|reflexivity]. cbn [negb]. destruct (str_contains_nul _); reflexivity.
Qed.

Lemma decode_optional_length_prefixed_string_spec b v :
  decode_optional_length_prefixed_string b v =
  match b with
  | x :: y :: t =>
    match v with Some _ => dfail | None => (do r <- lp_tail true (x * 256 + y) t; Ok (Some (fst r), snd r)) end
  | _ => dfail
  end.
Proof.
  destruct b as [|x [|y t]]; try reflexivity.
  unfold decode_optional_length_prefixed_string, slice_to, slice_from, lp_tail. rewrite !len_cons.
  replace (1 + (1 + len t) <? 2) with false by lia. replace (2 <=? 1 + (1 + len t)) with true by lia.
  destruct v; [reflexivity|].
  change (take 2 (x :: y :: t)) with [x; y]. change (drop 2 (x :: y :: t)) with t.
  cbn [be16_of obind].
  destruct (len t <? x * 256 + y) eqn:E; [reflexivity|].
  replace (x * 256 + y <=? len t) with true by lia. cbn [obind andb].
  destruct (utf8_ok _); [|reflexivity]. cbn [negb]. destruct (str_contains_nul _); reflexivity.
Qed.

Lemma decode_optional_length_prefixed_bytes_spec b v :
  decode_optional_length_prefixed_bytes b v =
  match b with
  | x :: y :: t =>
    match v with Some _ => dfail | None => (do r <- lp_tail false (x * 256 + y) t; Ok (Some (fst r), snd r)) end
  | _ => dfail
  end.
Proof.
  destruct b as [|x [|y t]]; try reflexivity.
  unfold decode_optional_length_prefixed_bytes, slice_to, slice_from, lp_tail. rewrite !len_cons.
  replace (1 + (1 + len t) <? 2) with false by lia. replace (2 <=? 1 + (1 + len t)) with true by lia.
  destruct v; [reflexivity|].
  change (take 2 (x :: y :: t)) with [x; y]. change (drop 2 (x :: y :: t)) with t.
  cbn [be16_of obind].
  destruct (len t <? x * 256 + y) eqn:E; [reflexivity|].
  replace (x * 256 + y <=? len t) with true by lia. reflexivity.
Qed.

(* ---- "good": no panic, and the remaining bytes are not longer than the input ---- *)
Definition good {A} (o : outcome (A * bytes)) (b : bytes) : Prop :=
  match o with
  | Ok (_, r) => (length r <= length b)%nat
  | Err _ => True
  | Panic _ => False
  end.

Lemma good_no_panic {A} (o : outcome (A * bytes)) b : good o b -> is_panic o = false.
Proof. destruct o as [[? ?]| |]; cbn; auto. contradiction. Qed.

Lemma lp_tail_good c l t : good (lp_tail c l t) t.
Proof.
  unfold lp_tail. destruct (len t <? l); [exact I|]. destruct (c && negb _); [exact I|]. destruct (c && _); [exact I|]. cbn. apply drop_length_le.
Qed.

Lemma good_weaken {A} (o : outcome (A * bytes)) b b' : good o b -> (length b <= length b')%nat -> good o b'.
Proof. destruct o as [[? ?]| |]; cbn; auto. lia. Qed.

Lemma decode_vli_rest_le : forall n s v b x r, decode_vli_aux n s v b = VliValue x r -> (length r <= length b)%nat.
Proof.
  induction n; intros s v b x r; cbn [decode_vli_aux]; [discriminate|].
  destruct b as [|y t]; [discriminate|]. destruct (y <? 128).
  - intros H; inversion H; subst. cbn [length]. lia.
  - intros H. apply IHn in H. cbn [length]. lia.
Qed.

Lemma decode_vli_into_mutable_good b : good (decode_vli_into_mutable b) b.
Proof.
  unfold decode_vli_into_mutable, decode_vli. destruct (decode_vli_aux 4 1 0 b) eqn:E; cbn; auto.
  eapply decode_vli_rest_le; exact E.
Qed.

Lemma decode_u16_good b : good (decode_u16 b) b.
Proof. rewrite decode_u16_spec. destruct b as [|x [|y t]]; cbn; auto. Qed.
Lemma decode_optional_u16_good b v : good (decode_optional_u16 b v) b.
Proof. rewrite decode_optional_u16_spec. destruct b as [|x [|y t]]; cbn; auto. destruct v; cbn; auto. Qed.
Lemma decode_optional_u32_good b v : good (decode_optional_u32 b v) b.
Proof. rewrite decode_optional_u32_spec. destruct b as [|x [|y [|z [|w t]]]]; cbn; auto. destruct v; cbn; auto. Qed.

Definition conv_total (conv : N -> outcome N) : Prop := forall x, is_panic (conv x) = false.
Lemma conv_table_total ok : conv_total (conv_table ok).
Proof. intros x. unfold conv_table. destruct (ok x); reflexivity. Qed.
Lemma conv_connack311_total : conv_total conv_connack311.
Proof. intros x. unfold conv_connack311. destruct (impl_connack311_convert x); reflexivity. Qed.

Lemma decode_u8_as_enum_good b conv : conv_total conv -> good (decode_u8_as_enum b conv) b.
Proof.
  intros H. rewrite decode_u8_as_enum_spec. destruct b as [|x t]; cbn; auto.
  specialize (H x). destruct (conv x); cbn in *; auto; discriminate.
Qed.
Lemma decode_optional_u8_as_enum_good b v conv : conv_total conv -> good (decode_optional_u8_as_enum b v conv) b.
Proof.
  intros H. rewrite decode_optional_u8_as_enum_spec. destruct b as [|x t]; cbn; auto. destruct v; cbn; auto.
  specialize (H x). destruct (conv x); cbn in *; auto; discriminate.
Qed.
Lemma decode_optional_u8_as_bool_good b v : good (decode_optional_u8_as_bool b v) b.
Proof.
  rewrite decode_optional_u8_as_bool_spec. destruct b as [|x t]; cbn; auto. destruct v; cbn; auto.
  destruct (x =? 0); cbn; auto. destruct (x =? 1); cbn; auto.
Qed.

Lemma decode_length_prefixed_string_good b : good (decode_length_prefixed_string b) b.
Proof.
  rewrite decode_length_prefixed_string_spec. destruct b as [|x [|y t]]; cbn [good dfail]; auto.
  eapply good_weaken; [apply lp_tail_good | cbn [length]; lia].
Qed.

Lemma good_bind_fst {A} (o : outcome (bytes * bytes)) b (f : bytes -> A) :
  good o b -> good (do r <- o; Ok (f (fst r), snd r)) b.
Proof. destruct o as [[? ?]| |]; cbn; auto. Qed.

Lemma decode_optional_length_prefixed_string_good b v : good (decode_optional_length_prefixed_string b v) b.
Proof.
  rewrite decode_optional_length_prefixed_string_spec. destruct b as [|x [|y t]]; cbn [good dfail]; auto.
  destruct v; cbn [good dfail]; auto.
  apply (good_bind_fst _ _ (@Some bytes)). eapply good_weaken; [apply lp_tail_good | cbn [length]; lia].
Qed.
Lemma decode_optional_length_prefixed_bytes_good b v : good (decode_optional_length_prefixed_bytes b v) b.
Proof.
  rewrite decode_optional_length_prefixed_bytes_spec. destruct b as [|x [|y t]]; cbn [good dfail]; auto.
  destruct v; cbn [good dfail]; auto.
  apply (good_bind_fst _ _ (@Some bytes)). eapply good_weaken; [apply lp_tail_good | cbn [length]; lia].
Qed.

Lemma decode_user_property_good b v : good (decode_user_property b v) b.
Proof.
  unfold decode_user_property.
  pose proof (decode_length_prefixed_string_good b) as H1.
  destruct (decode_length_prefixed_string b) as [[name b1]| |]; cbn in *; auto.
  pose proof (decode_length_prefixed_string_good b1) as H2.
  destruct (decode_length_prefixed_string b1) as [[value b2]| |]; cbn in *; auto. lia.
Qed.

(* an arm of a property loop: apply a helper to the current field, store the result *)
Lemma good_bind_store {A St} (o : outcome (A * bytes)) b (store : A -> St) :
  good o b -> good (do (v, r) <- o; Ok (store v, r)) b.
Proof. destruct o as [[? ?]| |]; cbn; auto. Qed.

(* ---- property loops ---- *)
Section Loop.
  Context {St : Type}.
  Variable arm : N -> bytes -> St -> outcome (St * bytes).
  Hypothesis arm_good : forall k b s, good (arm k b s) b.

  Lemma prop_loop_total : forall fuel b s, (length b <= fuel)%nat -> is_panic (prop_loop arm fuel b s) = false.
  Proof.
    induction fuel as [|f IH]; intros b s Hl.
    - destruct b; [reflexivity | cbn [length] in Hl; lia].
    - destruct b as [|x t]; [reflexivity|]. cbn [prop_loop index0 obind].
      unfold slice_from. rewrite len_cons. replace (1 <=? 1 + len t) with true by lia.
      change (drop 1 (x :: t)) with t. cbn [obind].
      pose proof (arm_good x t s) as G. cbn [length] in Hl.
      destruct (arm x t s) as [[s' r]|k|p]; cbn in G |- *; [apply IH; lia | reflexivity | contradiction].
  Qed.

  Lemma decode_properties_total b s : is_panic (decode_properties arm b s) = false.
  Proof. unfold decode_properties. apply prop_loop_total. lia. Qed.
End Loop.

Lemma decode_codes_total conv : conv_total conv -> forall l, is_panic (decode_codes conv l) = false.
Proof.
  intros H. induction l as [|x r IH]; [reflexivity|]. cbn [decode_codes].
  specialize (H x). destruct (conv x); cbn in *; auto. destruct (decode_codes conv r); cbn in *; auto.
Qed.
