(* C02 proofs: DISCONNECT and AUTH *)
From GM Require Import Base.Prelude Base.Outcome Codec.Prim Codec.Packets Codec.Steps Codec.ImplEncode
  Codec.SpecDecodeC2S Codec.ValidC2S CodecProofs.EncPrim CodecProofs.EncProps CodecProofs.EncAck.
Open Scope N_scope.

(* evaluate comparisons of literals (N.eqb is `simpl never`) *)
Ltac eval_eqb :=
  repeat match goal with
  | |- context [?a =? ?b] =>
      let v := eval vm_compute in (a =? b) in
      match v with
      | true => change (a =? b) with true
      | false => change (a =? b) with false
      end
  end.

(* read a field back from an item list built with ++ from oi_* / up_items *)
Ltac solve_get :=
  unfold get_bool;
  rewrite ?get_num_app, ?get_data_app;
  rewrite ?get_num_oi_num, ?get_num_oi_data, ?get_num_ups, ?get_data_oi_data, ?get_data_oi_num, ?get_data_ups;
  eval_eqb; cbv iota; rewrite ?opt_match_id; try reflexivity.

Ltac solve_get_ups :=
  unfold get_ups; rewrite ?get_pairs_app, ?get_pairs_oi_num, ?get_pairs_oi_data, ?get_pairs_ups; cbn [app];
  rewrite ?app_nil_r;
  match goal with |- context [norm_up ?o] => let p := fresh "p" in let l := fresh "l" in destruct o as [[|p l]|]; reflexivity end.

(* the "at most once" side condition of p_props_rt *)
Ltac solve_once :=
  cbn [forallb]; rewrite ?count_key_app; rewrite ?count_oi_num, ?count_oi_data;
  rewrite ?(count_ups 1), ?(count_ups 2), ?(count_ups 3), ?(count_ups 8), ?(count_ups 9), ?(count_ups 11), ?(count_ups 17),
    ?(count_ups 21), ?(count_ups 22), ?(count_ups 23), ?(count_ups 24), ?(count_ups 25), ?(count_ups 28), ?(count_ups 31),
    ?(count_ups 33), ?(count_ups 34), ?(count_ups 35), ?(count_ups 39) by reflexivity;
  unfold USER_PROPERTY; eval_eqb; cbv iota;
  repeat match goal with |- context [fsz 1 ?o] => let H := fresh in pose proof (fsz1_le o) as H; revert H; generalize (fsz 1 o); intros ? ? end;
  lia.

Ltac solve_allowed :=
  rewrite ?forallb_app;
  repeat (apply andb_true_iff; split);
  first [apply allowed_oi_num; reflexivity | apply allowed_oi_data; reflexivity | apply allowed_ups; reflexivity].

(* ---------------- DISCONNECT ---------------- *)
Definition disconnect_items (d : disconnect) : list item :=
  oi_num 17 (d_sei d) ++ oi_data 31 (d_reason d) ++ oi_data 28 (d_server_ref d) ++ up_items (d_up d).

Lemma disconnect_items_len d : len (items_bytes (disconnect_items d)) = disconnect_props_size d.
Proof.
  unfold disconnect_items, disconnect_props_size. rewrite !items_bytes_app, !len_app.
  rewrite len_items_u32 by reflexivity. rewrite !len_items_data by (left; reflexivity). rewrite len_items_ups. lia.
Qed.

Lemma fsz_zero {A} n (o : option A) : 0 < n -> fsz n o = 0 -> o = None.
Proof. destruct o; cbn; [lia | reflexivity]. Qed.

Lemma disconnect_rt5 : forall d r, valid_disconnect V5 d = true ->
  exists bs, impl_encode_all V5 (Disconnect d) r = Ok bs /\ spec_decode V5 bs = Some (canon V5 r (Disconnect d), []).
Proof.
  intros d r H. unfold valid_disconnect in H. split_andb.
  match goal with H : mem (d_rc d) rc_disconnect = true |- _ => rename H into Hrc end.
  match goal with H : opt_ok _ (d_sei d) = true |- _ => rename H into Hsei end.
  match goal with H : opt_ok _ (d_reason d) = true |- _ => rename H into Hreason end.
  match goal with H : opt_ok _ (d_server_ref d) = true |- _ => rename H into Href end.
  match goal with H : ups_valid (d_up d) = true |- _ => rename H into Hups end.
  pose proof (vbisz_bounds (disconnect_props_size d)) as Hvb.
  assert (up_length (d_up d) + opt_fixed_len 5 (d_sei d) + opt_data_prop_len (d_reason d)
          + opt_data_prop_len (d_server_ref d) = disconnect_props_size d) as Hpl.
  { unfold disconnect_props_size. rewrite up_length_oupsz. change opt_data_prop_len with dsz. change (@opt_fixed_len) with (@fsz). lia. }
  assert (forall body, d_body V5 (224 / 16) (224 mod 16) body = d_disconnect V5 body) as Hdb by reflexivity.
  destruct (disconnect_props_size d =? 0) eqn:Hz.
  - assert (disconnect_props_size d = 0) as Hz0 by lia. unfold disconnect_props_size in Hz0.
    assert (d_sei d = None) as E1 by (apply (fsz_zero 5); lia).
    assert (d_reason d = None) as E2 by (apply dsz_zero; lia).
    assert (d_server_ref d = None) as E3 by (apply dsz_zero; lia).
    destruct (oupsz_zero (d_up d) ltac:(lia)) as [E4 _].
    destruct (d_rc d =? 0) eqn:Hrc0.
    + apply (round_trip V5 _ r 224 []).
      * eexists. split.
        { cbn [impl_steps impl_steps5]. unfold disconnect_steps5, disconnect_lengths. rewrite Hpl, Hz, Hrc0. reflexivity. }
        reflexivity.
      * cbn. unfold VLI_MAX. lia.
      * rewrite Hdb. cbn [d_disconnect canon canon_disconnect]. unfold default_disconnect.
        rewrite E1, E2, E3, E4. assert (d_rc d = 0) as -> by lia. reflexivity.
    + apply (round_trip V5 _ r 224 [d_rc d]).
      * eexists. split.
        { cbn [impl_steps impl_steps5]. unfold disconnect_steps5, disconnect_lengths. rewrite Hpl, Hz, Hrc0. reflexivity. }
        reflexivity.
      * cbn. unfold VLI_MAX. lia.
      * rewrite Hdb. cbn [d_disconnect canon canon_disconnect p_u8]. rewrite Hrc.
        rewrite E1, E2, E3, E4. reflexivity.
  - assert (disconnect_props_size d <= VLI_MAX) as Hple by lia.
    set (its := disconnect_items d).
    assert (len (items_bytes its) = disconnect_props_size d) as Hil by apply disconnect_items_len.
    set (body := [d_rc d] ++ vli_bytes (len (items_bytes its)) ++ items_bytes its).
    assert (len body = 1 + vbisz (disconnect_props_size d) + disconnect_props_size d) as Hbody.
    { unfold body. rewrite !len_app, len_1, Hil. rewrite len_vli_bytes by assumption. lia. }
    apply (round_trip V5 _ r 224 body).
    + eexists. split.
      * cbn [impl_steps impl_steps5]. unfold disconnect_steps5, disconnect_lengths. rewrite Hpl, Hz.
        rewrite vli_size_vbisz by assumption. cbn [obind]. unfold VLI_MAX in *. rewrite !u32_small by lia.
        rewrite Hz. cbn [andb]. reflexivity.
      * rewrite Hbody.
        apply (fl_app [SU8 224; SVli _] _ (224 :: vli_bytes _)).
        { apply (fl_app [SU8 224] [SVli _] [224]); [apply fl_u8 | apply fl_vli; unfold VLI_MAX in *; lia]. }
        unfold body. apply (fl_app [SU8 _] _); [apply fl_u8|].
        apply (fl_app [SVli _] _); [rewrite Hil; apply fl_vli; assumption|].
        unfold its, disconnect_items. rewrite !items_bytes_app.
        apply fl_app; [apply fl_opt_u32; reflexivity|].
        apply fl_app; [apply fl_opt_data; left; reflexivity|].
        apply fl_app; [apply fl_opt_data; left; reflexivity|]. apply fl_ups.
    + rewrite Hbody. unfold VLI_MAX in *. lia.
    + rewrite Hdb. unfold d_disconnect, body. cbn [app p_u8]. rewrite Hrc.
      destruct (vli_bytes_cons (len (items_bytes its))) as (x & t & Ex); [rewrite Hil; assumption|].
      rewrite Ex. cbn [app]. change (x :: t ++ items_bytes its) with ((x :: t) ++ items_bytes its). rewrite <- Ex.
      rewrite p_props_rt0.
      * unfold its, disconnect_items. cbn [canon canon_disconnect]. solve_get. solve_get_ups.
      * unfold its, disconnect_items. rewrite !forallb_app. repeat (apply andb_true_iff; split).
        -- eapply wf_oi_num; [exact Hsei|]. intros y Hy. unfold item_wf. cbn [fst snd prop_type val_wf value_ok].
           eval_eqb. cbn [orb]. rewrite Hy. reflexivity.
        -- eapply wf_oi_data; [exact Hreason|]. intros s Hs. apply wf_str_item; [reflexivity | reflexivity | exact Hs].
        -- eapply wf_oi_data; [exact Href|]. intros s Hs. apply wf_str_item; [reflexivity | reflexivity | exact Hs].
        -- apply wf_up_items. exact Hups.
      * rewrite Hil. assumption.
      * unfold its, disconnect_items. solve_allowed.
      * unfold its, disconnect_items, allowed_disconnect. solve_once.
Qed.

Lemma disconnect_rt311 : forall d r,
  exists bs, impl_encode_all V311 (Disconnect d) r = Ok bs /\ spec_decode V311 bs = Some (canon V311 r (Disconnect d), []).
Proof. intros d r. exists [224; 0]. split; reflexivity. Qed.

(* ---------------- AUTH ---------------- *)
Definition auth_items (a : auth) : list item :=
  oi_data 21 (au_method a) ++ oi_data 22 (au_data a) ++ oi_data 31 (au_reason a) ++ up_items (au_up a).

Lemma auth_items_len a : len (items_bytes (auth_items a)) = auth_props_size a.
Proof.
  unfold auth_items, auth_props_size. rewrite !items_bytes_app, !len_app.
  rewrite (len_items_data 21) by (left; reflexivity). rewrite (len_items_data 22) by (right; reflexivity).
  rewrite (len_items_data 31) by (left; reflexivity). rewrite len_items_ups. lia.
Qed.

Lemma auth_rt5 : forall a r, valid_auth V5 a = true ->
  exists bs, impl_encode_all V5 (Auth a) r = Ok bs /\ spec_decode V5 bs = Some (canon V5 r (Auth a), []).
Proof.
  intros a r H. unfold valid_auth in H. split_andb.
  match goal with H : mem (au_rc a) rc_auth = true |- _ => rename H into Hrc end.
  match goal with H : opt_ok _ (au_method a) = true |- _ => rename H into Hm end.
  match goal with H : opt_ok _ (au_data a) = true |- _ => rename H into Hd end.
  match goal with H : opt_ok _ (au_reason a) = true |- _ => rename H into Hreason end.
  match goal with H : ups_valid (au_up a) = true |- _ => rename H into Hups end.
  pose proof (vbisz_bounds (auth_props_size a)) as Hvb.
  assert (up_length (au_up a) + opt_data_prop_len (au_method a) + opt_data_prop_len (au_data a)
          + opt_data_prop_len (au_reason a) = auth_props_size a) as Hpl.
  { unfold auth_props_size. rewrite up_length_oupsz. change opt_data_prop_len with dsz. lia. }
  assert (forall body, d_body V5 (240 / 16) (240 mod 16) body = d_auth V5 body) as Hdb by reflexivity.
  destruct ((auth_props_size a =? 0) && (au_rc a =? 0)) eqn:Hz.
  - apply andb_true_iff in Hz as [Hz Hrc0].
    assert (auth_props_size a = 0) as Hz0 by lia. unfold auth_props_size in Hz0.
    assert (au_method a = None) as E1 by (apply dsz_zero; lia).
    assert (au_data a = None) as E2 by (apply dsz_zero; lia).
    assert (au_reason a = None) as E3 by (apply dsz_zero; lia).
    destruct (oupsz_zero (au_up a) ltac:(lia)) as [E4 _].
    apply (round_trip V5 _ r 240 []).
    + eexists. split.
      { cbn [impl_steps impl_steps5]. unfold auth_steps5, auth_lengths. rewrite Hpl, Hz, Hrc0. reflexivity. }
      reflexivity.
    + cbn. unfold VLI_MAX. lia.
    + rewrite Hdb. cbn [d_auth canon]. unfold canon_auth. rewrite E1, E2, E3, E4. assert (au_rc a = 0) as -> by lia. reflexivity.
  - assert (auth_props_size a <= VLI_MAX) as Hple by lia.
    set (its := auth_items a).
    assert (len (items_bytes its) = auth_props_size a) as Hil by apply auth_items_len.
    set (body := [au_rc a] ++ vli_bytes (len (items_bytes its)) ++ items_bytes its).
    assert (len body = 1 + vbisz (auth_props_size a) + auth_props_size a) as Hbody.
    { unfold body. rewrite !len_app, len_1, Hil. rewrite len_vli_bytes by assumption. lia. }
    apply (round_trip V5 _ r 240 body).
    + eexists. split.
      * cbn [impl_steps impl_steps5]. unfold auth_steps5, auth_lengths. rewrite Hpl, Hz.
        rewrite vli_size_vbisz by assumption. cbn [obind]. unfold VLI_MAX in *. rewrite !u32_small by lia.
        assert (1 + vbisz (auth_props_size a) + auth_props_size a =? 0 = false) as -> by lia. reflexivity.
      * rewrite Hbody.
        apply (fl_app [SU8 240; SVli _] _ (240 :: vli_bytes _)).
        { apply (fl_app [SU8 240] [SVli _] [240]); [apply fl_u8 | apply fl_vli; unfold VLI_MAX in *; lia]. }
        unfold body. apply (fl_app [SU8 _] _); [apply fl_u8|].
        apply (fl_app [SVli _] _); [rewrite Hil; apply fl_vli; assumption|].
        unfold its, auth_items. rewrite !items_bytes_app.
        apply fl_app; [apply fl_opt_data; left; reflexivity|].
        apply fl_app; [apply fl_opt_data; right; reflexivity|].
        apply fl_app; [apply fl_opt_data; left; reflexivity|]. apply fl_ups.
    + rewrite Hbody. unfold VLI_MAX in *. lia.
    + rewrite Hdb. unfold d_auth, body. cbn [app p_u8]. rewrite Hrc.
      rewrite p_props_rt0.
      * unfold its, auth_items. cbn [canon]. unfold canon_auth. solve_get. solve_get_ups.
      * unfold its, auth_items. rewrite !forallb_app. repeat (apply andb_true_iff; split).
        -- eapply wf_oi_data; [exact Hm|]. intros s Hs. apply wf_str_item; [reflexivity | reflexivity | exact Hs].
        -- eapply wf_oi_data; [exact Hd|]. intros s Hs. apply wf_bin_item; [reflexivity | reflexivity | exact Hs].
        -- eapply wf_oi_data; [exact Hreason|]. intros s Hs. apply wf_str_item; [reflexivity | reflexivity | exact Hs].
        -- apply wf_up_items. exact Hups.
      * rewrite Hil. assumption.
      * unfold its, auth_items. solve_allowed.
      * unfold its, auth_items, allowed_auth. solve_once.
Qed.

(* MQTT 3.1.1 has no AUTH packet: the encoder refuses (auth.rs:82-84), nothing is emitted *)
Lemma auth_311_refused : forall a r, impl_encode_all V311 (Auth a) r = Err EEncodingFailure.
Proof. reflexivity. Qed.
