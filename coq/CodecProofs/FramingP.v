(* C03: theorems about the framing decoder model (Codec/Framing.v), for ANY body decoder:
   fuel sufficiency, chunking invariance (a then b = a ++ b; every partition), the size gate,
   absence of panics from well-formed states. *)
From GM Require Import Base.Prelude Base.Outcome Codec.Packets Codec.Prim Codec.ImplDecode Codec.Framing.
Open Scope N_scope.

(* ---- list / slice facts ---- *)
Lemma take_app_le (n : N) (a b : bytes) : n <= len a -> take n (a ++ b) = take n a.
Proof.
  unfold take, len. intros H. rewrite firstn_app.
  replace (N.to_nat n - length a)%nat with O by lia. cbn [firstn]. apply app_nil_r.
Qed.
Lemma drop_app_le (n : N) (a b : bytes) : n <= len a -> drop n (a ++ b) = drop n a ++ b.
Proof.
  unfold drop, len. intros H. rewrite skipn_app.
  replace (N.to_nat n - length a)%nat with O by lia. reflexivity.
Qed.
Lemma take_app_ge (n : N) (a b : bytes) : len a <= n -> take n (a ++ b) = a ++ take (n - len a) b.
Proof.
  unfold take, len. intros H. rewrite firstn_app.
  rewrite firstn_all2 by lia. f_equal. f_equal. lia.
Qed.
Lemma drop_app_ge (n : N) (a b : bytes) : len a <= n -> drop n (a ++ b) = drop (n - len a) b.
Proof.
  unfold drop, len. intros H. rewrite skipn_app.
  rewrite skipn_all2 by lia. cbn [app]. f_equal. lia.
Qed.
Lemma length_drop_le (n : N) (b : bytes) : (length (drop n b) <= length b)%nat.
Proof. unfold drop. rewrite skipn_length. lia. Qed.
Lemma len_take (n : N) (b : bytes) : n <= len b -> len (take n b) = n.
Proof. unfold take, len. intros H. rewrite firstn_length. lia. Qed.
Lemma is_empty_len (b : bytes) : is_empty b = (len b =? 0).
Proof. destruct b; [reflexivity | rewrite len_cons; cbn [is_empty]; lia]. Qed.
Lemma is_empty_app (a b : bytes) : is_empty (a ++ b) = is_empty a && is_empty b.
Proof. destruct a; reflexivity. Qed.

Lemma in_firstn_in {A} (x : A) : forall k l, In x (firstn k l) -> In x l.
Proof. induction k; intros l H; [contradiction|]. destruct l; [contradiction|]. cbn in H |- *. destruct H; [left; assumption | right; auto]. Qed.

Lemma decoder_eta (d : decoder) :
  {| d_state := d_state d; d_scratch := d_scratch d; d_first_byte := d_first_byte d; d_remaining_length := d_remaining_length d |} = d.
Proof. destruct d; reflexivity. Qed.
Lemma set_scratch_same (d : decoder) : set_scratch d (d_scratch d) = d.
Proof. apply decoder_eta. Qed.

(* a length field of continuation bytes only, shorter than 4, is not yet a value *)
Lemma decode_vli_all_cont (s : bytes) :
  Forall (fun x => 128 <= x) s -> (length s < 4)%nat -> decode_vli s = VliInsufficient.
Proof.
  intros H L. unfold decode_vli.
  destruct s as [|a [|b [|c [|e s]]]]; cbn [length] in L; try lia; cbn [decode_vli_aux];
    repeat match goal with H : Forall _ (_ :: _) |- _ => inversion H; clear H; subst end;
    repeat match goal with |- context [?x <? 128] => replace (x <? 128) with false by lia end; reflexivity.
Qed.

Section FramingProofs.
  Variable body : N -> bytes -> outcome packet.
  Variable max_size : N.

  Notation turn := (turn body max_size).
  Notation loop := (loop body max_size).
  Notation prb := (process_read_packet_body body).
  Notation run := (decode_bytes_with body max_size).
  Notation result_equiv := (Framing.result_equiv).
  Notation feed2 := (Framing.feed2 body max_size).
  Notation feed := (Framing.feed body max_size).
  Notation wf := (Framing.wf).

  Definition measure (d : decoder) (b : bytes) : nat :=
    (2 * length b + match d_state d with ReadPacketBody => 1 | _ => 0 end)%nat.

  (* ---- every Continue turn decreases the measure: the loop terminates, the fuel suffices ---- *)
  Lemma prb_continue d b d' b' pk :
    prb d b = (d', Continue, b', pk) ->
    d' = decoder_init /\ exists n, b' = drop n b.
  Proof.
    unfold process_read_packet_body.
    destruct (d_remaining_length d) as [rl|]; [|discriminate].
    destruct (rl <? len (d_scratch d)); [discriminate|].
    destruct (len b <? rl - len (d_scratch d)); [discriminate|].
    unfold slice_to. destruct (rl - len (d_scratch d) <=? len b); [|discriminate].
    destruct (negb (is_empty (d_scratch d))); (destruct (d_first_byte d); [|discriminate]);
      (match goal with |- context [body ?f ?s] => destruct (body f s) end; try discriminate);
      unfold slice_from; destruct (rl - len (d_scratch d) <=? len b); try discriminate;
      intros H; inversion H; subst; (split; [reflexivity | eexists; reflexivity]).
  Qed.

  Lemma turn_decreases d b d' b' pk :
    turn d b = (d', Continue, b', pk) -> (measure d' b' < measure d b)%nat.
  Proof.
    unfold Framing.turn, measure. destruct (d_state d) eqn:St.
    - unfold process_read_packet_type. destruct b; intros H; inversion H; subst. cbn [d_state length]. lia.
    - unfold process_read_total_remaining_length. destruct b as [|x rest]; [intros H; inversion H|].
      destruct (decode_vli (d_scratch d ++ [x])).
      + destruct (4 <=? _); [intros H; inversion H|]. destruct (negb _); intros H; inversion H; subst.
        cbn [d_state set_scratch length]. rewrite St. lia.
      + destruct (_ <=? _); intros H; inversion H; subst. cbn [d_state length]. lia.
      + destruct (4 <=? _); [intros H; inversion H|]. destruct (negb _); intros H; inversion H; subst.
        cbn [d_state set_scratch length]. rewrite St. lia.
    - intros H. apply prb_continue in H. destruct H as [-> [n ->]]. cbn [d_state decoder_init].
      pose proof (length_drop_le n b). lia.
    - intros H; inversion H.
  Qed.

  Lemma loop_fuel_irrelevant : forall f1 f2 d b,
    (measure d b < f1)%nat -> (measure d b < f2)%nat -> loop f1 d b = loop f2 d b.
  Proof.
    induction f1 as [|f1 IH]; intros f2 d b H1 H2; [lia|].
    destruct f2 as [|f2]; [lia|]. cbn [Framing.loop].
    destruct (turn d b) as [[[d' dir] b'] pk] eqn:T.
    destruct dir; try reflexivity.
    apply turn_decreases in T. rewrite (IH f2 d' b') by lia. reflexivity.
  Qed.

  Lemma measure_lt_fuel d b : (measure d b < fuel_for b)%nat.
  Proof. unfold measure, fuel_for. destruct (d_state d); lia. Qed.

  Lemma loop_run f d b : (measure d b < f)%nat -> loop f d b = run d b.
  Proof. intros H. unfold decode_bytes_with. apply loop_fuel_irrelevant; [exact H | apply measure_lt_fuel]. Qed.

  (* fuel-free unfolding of the loop *)
  Lemma run_unfold d b :
    run d b =
    let '(d', dir, b', pk) := turn d b in
    match dir with
    | Continue => let '(d2, ps, r) := run d' b' in (d2, cons_opt pk ps, r)
    | OutOfData => (d', cons_opt pk [], Ok tt)
    | Terminal k => (set_state d' TerminalError, cons_opt pk [], Err k)
    | DPanic s => (d', cons_opt pk [], Panic s)
    end.
  Proof.
    unfold decode_bytes_with at 1. unfold fuel_for.
    replace (2 * length b + 2)%nat with (S (2 * length b + 1)) by lia. cbn [Framing.loop].
    destruct (turn d b) as [[[d' dir] b'] pk] eqn:T. destruct dir; try reflexivity.
    rewrite loop_run; [reflexivity|]. apply turn_decreases in T.
    pose proof (measure_lt_fuel d b). unfold fuel_for in *. lia.
  Qed.

  (* ---- chunking ---- *)
  Lemma result_equiv_refl_ok x : (forall d p k, x = (d, p, Err k) -> d_state d = TerminalError) -> result_equiv x x.
  Proof. destruct x as [[d p] r]. intros H. cbn. repeat split. destruct r; auto. split; eapply H; reflexivity. Qed.

  Lemma turn_app_continue d a b d' a' pk :
    turn d a = (d', Continue, a', pk) -> turn d (a ++ b) = (d', Continue, a' ++ b, pk).
  Proof.
    unfold Framing.turn. destruct (d_state d) eqn:St.
    - unfold process_read_packet_type. destruct a; intros H; inversion H; subst. reflexivity.
    - unfold process_read_total_remaining_length. destruct a as [|x rest]; [intros H; inversion H|].
      cbn [app]. destruct (decode_vli (d_scratch d ++ [x])).
      + destruct (4 <=? _); [intros H; inversion H|].
        rewrite is_empty_app. destruct (is_empty rest) eqn:E; cbn [negb andb]; intros H; inversion H; subst. reflexivity.
      + destruct (_ <=? _); intros H; inversion H; subst. reflexivity.
      + destruct (4 <=? _); [intros H; inversion H|].
        rewrite is_empty_app. destruct (is_empty rest) eqn:E; cbn [negb andb]; intros H; inversion H; subst. reflexivity.
    - unfold process_read_packet_body.
      destruct (d_remaining_length d) as [rl|]; [|discriminate].
      destruct (rl <? len (d_scratch d)); [discriminate|].
      set (need := rl - len (d_scratch d)).
      destruct (len a <? need) eqn:E1; [discriminate|].
      assert (Hle : need <= len a) by lia.
      replace (len (a ++ b) <? need) with false by (rewrite len_app; lia).
      unfold slice_to, slice_from. rewrite len_app.
      replace (need <=? len a) with true by lia. replace (need <=? len a + len b) with true by lia.
      rewrite take_app_le, drop_app_le by exact Hle.
      destruct (negb (is_empty (d_scratch d))); (destruct (d_first_byte d); [|discriminate]);
        (match goal with |- context [body ?f ?s] => destruct (body f s) end; try discriminate);
        intros H; inversion H; subst; reflexivity.
    - discriminate.
  Qed.

  Lemma turn_app_terminal d a b d' a' pk k :
    turn d a = (d', Terminal k, a', pk) -> exists a'', turn d (a ++ b) = (d', Terminal k, a'', pk).
  Proof.
    unfold Framing.turn. destruct (d_state d) eqn:St.
    - unfold process_read_packet_type. destruct a; intros H; inversion H.
    - unfold process_read_total_remaining_length. destruct a as [|x rest]; [intros H; inversion H|].
      cbn [app]. destruct (decode_vli (d_scratch d ++ [x])).
      + destruct (4 <=? _); [intros H; inversion H; subst; eexists; reflexivity|].
        destruct (negb (is_empty rest)); intros H; inversion H.
      + destruct (_ <=? _); intros H; inversion H; subst. eexists; reflexivity.
      + destruct (4 <=? _); [intros H; inversion H; subst; eexists; reflexivity|].
        destruct (negb (is_empty rest)); intros H; inversion H.
    - unfold process_read_packet_body.
      destruct (d_remaining_length d) as [rl|]; [|discriminate].
      destruct (rl <? len (d_scratch d)); [discriminate|].
      set (need := rl - len (d_scratch d)).
      destruct (len a <? need) eqn:E1; [discriminate|].
      assert (Hle : need <= len a) by lia.
      replace (len (a ++ b) <? need) with false by (rewrite len_app; lia).
      unfold slice_to, slice_from. rewrite len_app.
      replace (need <=? len a) with true by lia. replace (need <=? len a + len b) with true by lia.
      rewrite take_app_le by exact Hle.
      destruct (negb (is_empty (d_scratch d))); (destruct (d_first_byte d); [|discriminate]);
        (match goal with |- context [body ?f ?s] => destruct (body f s) end; try discriminate);
        intros H; inversion H; subst; eexists; reflexivity.
    - intros H; inversion H; subst. eexists; reflexivity.
  Qed.

  Lemma turn_app_panic d a b d' a' pk s :
    turn d a = (d', DPanic s, a', pk) -> exists d'' a'', turn d (a ++ b) = (d'', DPanic s, a'', pk).
  Proof.
    unfold Framing.turn. destruct (d_state d) eqn:St.
    - unfold process_read_packet_type. destruct a; intros H; inversion H.
    - unfold process_read_total_remaining_length. destruct a as [|x rest]; [intros H; inversion H|].
      cbn [app]. destruct (decode_vli (d_scratch d ++ [x])).
      + destruct (4 <=? _); [intros H; inversion H|]. destruct (negb (is_empty rest)); intros H; inversion H.
      + destruct (_ <=? _); intros H; inversion H.
      + destruct (4 <=? _); [intros H; inversion H|]. destruct (negb (is_empty rest)); intros H; inversion H.
    - unfold process_read_packet_body.
      destruct (d_remaining_length d) as [rl|]; [|intros H; inversion H; subst; do 2 eexists; reflexivity].
      destruct (rl <? len (d_scratch d)); [intros H; inversion H; subst; do 2 eexists; reflexivity|].
      set (need := rl - len (d_scratch d)).
      destruct (len a <? need) eqn:E1; [discriminate|].
      assert (Hle : need <= len a) by lia.
      replace (len (a ++ b) <? need) with false by (rewrite len_app; lia).
      unfold slice_to, slice_from. rewrite len_app.
      replace (need <=? len a) with true by lia. replace (need <=? len a + len b) with true by lia.
      rewrite take_app_le by exact Hle.
      destruct (negb (is_empty (d_scratch d))); (destruct (d_first_byte d); [|intros H; inversion H; subst; do 2 eexists; reflexivity]);
        (match goal with |- context [body ?f ?s] => destruct (body f s) end; try discriminate);
        intros H; inversion H; subst; do 2 eexists; reflexivity.
    - intros H; inversion H.
  Qed.

  (* a turn that ends the call with OutOfData emits no packet *)
  Lemma turn_out_of_data_no_packet d a d' a' pk : turn d a = (d', OutOfData, a', pk) -> pk = None.
  Proof.
    unfold Framing.turn. destruct (d_state d).
    - unfold process_read_packet_type. destruct a; intros H; inversion H; reflexivity.
    - unfold process_read_total_remaining_length. destruct a as [|x rest]; [intros H; inversion H; reflexivity|].
      destruct (decode_vli _); repeat match goal with |- context [if ?c then _ else _] => destruct c end;
        intros H; inversion H; reflexivity.
    - unfold process_read_packet_body.
      destruct (d_remaining_length d) as [rl|]; [|discriminate].
      destruct (rl <? len (d_scratch d)); [discriminate|].
      destruct (len a <? _); [intros H; inversion H; reflexivity|].
      unfold slice_to. destruct (_ <=? len a); [|discriminate].
      destruct (negb (is_empty (d_scratch d))); (destruct (d_first_byte d); [|discriminate]);
        (match goal with |- context [body ?f ?s] => destruct (body f s) end; try discriminate);
        unfold slice_from; destruct (_ <=? len a); discriminate.
    - discriminate.
  Qed.

  Lemma run_error_terminal d b d' ps k : run d b = (d', ps, Err k) -> d_state d' = TerminalError.
  Proof.
    remember (measure d b) as n eqn:Hn. revert d b d' ps Hn.
    induction n as [n IH] using lt_wf_ind. intros d b d' ps Hn.
    rewrite run_unfold. destruct (turn d b) as [[[d1 dir] b1] pk] eqn:T. destruct dir.
    - intros H; inversion H.
    - destruct (run d1 b1) as [[d2 ps2] r2] eqn:R. intros H; inversion H; subst.
      eapply (IH (measure d1 b1)); [apply turn_decreases in T; exact T | reflexivity | exact R].
    - intros H; inversion H; subst. reflexivity.
    - intros H; inversion H.
  Qed.

  Lemma result_equiv_refl x : (exists d b, x = run d b) -> result_equiv x x.
  Proof.
    intros [d [b ->]]. destruct (run d b) as [[d' ps] r] eqn:R. cbn. repeat split.
    destruct r; auto. split; eapply run_error_terminal; exact R.
  Qed.

  (* the call on [a] stopped for lack of data: continuing with [b] is the one-shot run *)
  Lemma out_of_data_then d a b d' a' pk :
    turn d a = (d', OutOfData, a', pk) -> result_equiv (run d' b) (run d (a ++ b)).
  Proof.
    unfold Framing.turn. destruct (d_state d) eqn:St.
    - unfold process_read_packet_type. destruct a; intros H; inversion H; subst.
      cbn [app]. apply result_equiv_refl. eauto.
    - unfold process_read_total_remaining_length. destruct a as [|x rest].
      { intros H; inversion H; subst. cbn [app]. apply result_equiv_refl. eauto. }
      destruct (decode_vli (d_scratch d ++ [x])) eqn:V.
      + destruct (4 <=? len (d_scratch d ++ [x])) eqn:E4; [discriminate|].
        destruct rest as [|r0 rest]; cbn [is_empty negb]; [|discriminate].
        intros H; inversion H; subst. cbn [app].
        destruct b as [|y b].
        * (* nothing follows: the one-shot run is the first call *)
          rewrite (run_unfold d [x]). unfold Framing.turn. rewrite St. unfold process_read_total_remaining_length.
          rewrite V, E4. cbn [is_empty negb cons_opt].
          rewrite (run_unfold (set_scratch d (d_scratch d ++ [x])) []). unfold Framing.turn. cbn [d_state set_scratch]. rewrite St.
          unfold process_read_total_remaining_length. cbn [cons_opt]. cbn. repeat split.
        * rewrite (run_unfold d (x :: y :: b)). unfold Framing.turn. rewrite St. unfold process_read_total_remaining_length.
          rewrite V, E4. cbn [is_empty negb cons_opt].
          destruct (run (set_scratch d (d_scratch d ++ [x])) (y :: b)) as [[d2 ps2] r2] eqn:R.
          cbn. repeat split. destruct r2; auto. split; eapply run_error_terminal; exact R.
      + destruct (_ <=? _); discriminate.
      + destruct (4 <=? len (d_scratch d ++ [x])) eqn:E4; [discriminate|].
        destruct rest as [|r0 rest]; cbn [is_empty negb]; [|discriminate].
        intros H; inversion H; subst. cbn [app].
        destruct b as [|y b].
        * rewrite (run_unfold d [x]). unfold Framing.turn. rewrite St. unfold process_read_total_remaining_length.
          rewrite V, E4. cbn [is_empty negb cons_opt].
          rewrite (run_unfold (set_scratch d (d_scratch d ++ [x])) []). unfold Framing.turn. cbn [d_state set_scratch]. rewrite St.
          unfold process_read_total_remaining_length. cbn [cons_opt]. cbn. repeat split.
        * rewrite (run_unfold d (x :: y :: b)). unfold Framing.turn. rewrite St. unfold process_read_total_remaining_length.
          rewrite V, E4. cbn [is_empty negb cons_opt].
          destruct (run (set_scratch d (d_scratch d ++ [x])) (y :: b)) as [[d2 ps2] r2] eqn:R.
          cbn. repeat split. destruct r2; auto. split; eapply run_error_terminal; exact R.
    - (* ReadPacketBody: [a] was buffered *)
      unfold process_read_packet_body.
      destruct (d_remaining_length d) as [rl|] eqn:Rl; [|discriminate].
      destruct (rl <? len (d_scratch d)) eqn:E0; [discriminate|].
      set (need := rl - len (d_scratch d)).
      destruct (len a <? need) eqn:E1.
      2:{ unfold slice_to. destruct (need <=? len a); [|discriminate].
          destruct (negb (is_empty (d_scratch d))); (destruct (d_first_byte d); [|discriminate]);
            (match goal with |- context [body ?f ?s] => destruct (body f s) end; try discriminate);
            unfold slice_from; destruct (need <=? len a); discriminate. }
      intros H; inversion H; subst. clear H.
      rewrite (run_unfold (set_scratch d (d_scratch d ++ a)) b), (run_unfold d (a ++ b)).
      unfold Framing.turn. cbn [d_state set_scratch]. rewrite St.
      unfold process_read_packet_body. cbn [d_remaining_length d_scratch d_first_byte set_scratch]. rewrite Rl.
      rewrite !len_app. fold need.
      replace (rl <? len (d_scratch d) + len a) with false by lia. rewrite E0.
      replace (rl - (len (d_scratch d) + len a)) with (need - len a) by lia.
      destruct (len b <? need - len a) eqn:E2.
      + (* still not enough *)
        replace (len a + len b <? need) with true by lia. cbn [cons_opt].
        rewrite <- app_assoc. cbn. repeat split.
      + replace (len a + len b <? need) with false by lia.
        unfold slice_to, slice_from. rewrite !len_app.
        replace (need - len a <=? len b) with true by lia.
        replace (need <=? len a + len b) with true by lia.
        rewrite take_app_ge, drop_app_ge by lia.
        rewrite is_empty_app.
        destruct (is_empty (d_scratch d)) eqn:Es; destruct (is_empty a) eqn:Ea; cbn [negb andb].
        * (* scratch and a both empty *)
          destruct (d_scratch d); [|discriminate]. destruct a; [|discriminate].
          cbn [app]. rewrite len_nil. rewrite N.sub_0_r.
          destruct (d_first_byte d) as [fb|]; [|cbn; repeat split].
          destruct (body fb (take need b)); cbn [cons_opt].
          -- destruct (run decoder_init (drop need b)) as [[d2 ps2] r2] eqn:R. cbn. repeat split.
             destruct r2; auto. split; eapply run_error_terminal; exact R.
          -- cbn. repeat split.
          -- cbn. repeat split.
        * destruct (d_scratch d) as [|s0 sc] eqn:Sc; [|discriminate]. cbn [app].
          destruct (d_first_byte d) as [fb|]; [|cbn; repeat split].
          destruct (body fb (a ++ take (need - len a) b)); cbn [cons_opt].
          -- destruct (run decoder_init (drop (need - len a) b)) as [[d2 ps2] r2] eqn:R. cbn. repeat split.
             destruct r2; auto. split; eapply run_error_terminal; exact R.
          -- cbn. repeat split.
          -- cbn. repeat split.
        * destruct a; [|discriminate]. rewrite !app_nil_r. cbn [app]. rewrite len_nil, N.sub_0_r.
          destruct (d_first_byte d) as [fb|]; [|cbn; repeat split].
          destruct (body fb (d_scratch d ++ take need b)); cbn [cons_opt].
          -- destruct (run decoder_init (drop need b)) as [[d2 ps2] r2] eqn:R. cbn. repeat split.
             destruct r2; auto. split; eapply run_error_terminal; exact R.
          -- cbn. repeat split.
          -- cbn. repeat split.
        * rewrite <- !app_assoc.
          destruct (d_first_byte d) as [fb|]; [|cbn; repeat split].
          destruct (body fb (d_scratch d ++ a ++ take (need - len a) b)); cbn [cons_opt].
          -- destruct (run decoder_init (drop (need - len a) b)) as [[d2 ps2] r2] eqn:R. cbn. repeat split.
             destruct r2; auto. split; eapply run_error_terminal; exact R.
          -- cbn. repeat split.
          -- cbn. repeat split.
    - discriminate.
  Qed.

  Theorem chunking : forall d a b, result_equiv (feed2 d a b) (run d (a ++ b)).
  Proof.
    intros d a. remember (measure d a) as n eqn:Hn. revert d a Hn.
    induction n as [n IH] using lt_wf_ind. intros d a Hn b.
    unfold Framing.feed2. rewrite (run_unfold d a).
    destruct (turn d a) as [[[d1 dir] a1] pk] eqn:T. destruct dir.
    - (* OutOfData *)
      pose proof (turn_out_of_data_no_packet _ _ _ _ _ T) as ->. cbn [cons_opt app].
      pose proof (out_of_data_then d a b _ _ _ T) as E.
      destruct (run d1 b) as [[d2 ps2] r2]. exact E.
    - (* Continue *)
      rewrite (run_unfold d (a ++ b)). rewrite (turn_app_continue _ _ b _ _ _ T).
      assert (Hlt : (measure d1 a1 < n)%nat) by (subst n; eapply turn_decreases; exact T).
      specialize (IH _ Hlt d1 a1 eq_refl b). unfold Framing.feed2 in IH.
      destruct (run d1 a1) as [[d2 ps2] r2].
      destruct (run d1 (a1 ++ b)) as [[d3 ps3] r3].
      destruct r2 as [u|k|s].
      + destruct (run d2 b) as [[d4 ps4] r4]. cbn in IH |- *. destruct IH as [<- [<- H]].
        repeat split; [destruct pk; reflexivity | exact H].
      + cbn in IH |- *. destruct IH as [<- [<- H]]. repeat split; apply H.
      + cbn in IH |- *. destruct IH as [<- [<- H]]. repeat split.
    - (* Terminal *)
      destruct (turn_app_terminal _ _ b _ _ _ _ T) as [a'' T'].
      rewrite (run_unfold d (a ++ b)), T'. cbn. repeat split.
    - (* DPanic *)
      destruct (turn_app_panic _ _ b _ _ _ _ T) as [d'' [a'' T']].
      rewrite (run_unfold d (a ++ b)), T'. cbn. repeat split.
  Qed.

  (* ---- every partition of a stream ---- *)
  Lemma result_equiv_trans x y z : result_equiv x y -> result_equiv y z -> result_equiv x z.
  Proof.
    destruct x as [[d1 p1] r1], y as [[d2 p2] r2], z as [[d3 p3] r3]. cbn.
    intros [-> [-> H1]] [-> [-> H2]]. repeat split.
    destruct r3; [congruence | tauto | exact I].
  Qed.

  Theorem chunking_partition : forall chunks d, chunks <> [] ->
    result_equiv (feed d chunks) (run d (concat chunks)).
  Proof.
    induction chunks as [|c rest IH]; intros d Hne; [congruence|].
    destruct rest as [|c2 rest].
    - cbn [Framing.feed concat]. rewrite app_nil_r. apply result_equiv_refl. eauto.
    - change (feed d (c :: c2 :: rest)) with
        (let '(d1, ps1, r1) := run d c in
         match r1 with
         | Ok _ => let '(d2, ps2, r2) := feed d1 (c2 :: rest) in (d2, ps1 ++ ps2, r2)
         | _ => (d1, ps1, r1)
         end).
      change (concat (c :: c2 :: rest)) with (c ++ concat (c2 :: rest)).
      eapply result_equiv_trans; [|apply chunking].
      unfold Framing.feed2. destruct (run d c) as [[d1 ps1] r1] eqn:R1.
      destruct r1 as [u|k|s].
      + specialize (IH d1 ltac:(discriminate)).
        destruct (feed d1 (c2 :: rest)) as [[d2 ps2] r2].
        destruct (run d1 (concat (c2 :: rest))) as [[d3 ps3] r3].
        cbn in IH |- *. destruct IH as [-> [-> H]]. repeat split. exact H.
      + cbn. repeat split; eapply run_error_terminal; exact R1.
      + cbn. repeat split.
  Qed.

  Corollary chunking_two_partitions : forall d c1 c2, c1 <> [] -> c2 <> [] -> concat c1 = concat c2 ->
    result_equiv (feed d c1) (feed d c2).
  Proof.
    intros d c1 c2 H1 H2 E.
    eapply result_equiv_trans; [apply chunking_partition; exact H1|].
    rewrite E. pose proof (chunking_partition c2 d H2) as H.
    destruct (feed d c2) as [[da pa] ra], (run d (concat c2)) as [[db pb] rb].
    cbn in H |- *. destruct H as [-> [-> H]]. repeat split. destruct rb; [congruence | tauto | exact I].
  Qed.

  (* ---- size gate ---- *)
  Lemma gate_length_phase : forall cont d last rl rest,
    d_state d = ReadTotalRemainingLength ->
    Forall (fun x => 128 <= x) (d_scratch d ++ cont) -> (length (d_scratch d ++ cont) <= 3)%nat ->
    decode_vli (d_scratch d ++ cont ++ [last]) = VliValue rl [] ->
    effective_max max_size < rl + 1 + len (d_scratch d ++ cont ++ [last]) ->
    run d (cont ++ last :: rest) =
      (set_state (set_scratch d (d_scratch d ++ cont ++ [last])) TerminalError, [], Err EDecodingFailure).
  Proof.
    induction cont as [|x cont IH]; intros d last rl rest St Hc Hl Hv Hmax.
    - cbn [app] in *. rewrite run_unfold. unfold Framing.turn. rewrite St.
      unfold process_read_total_remaining_length. rewrite Hv.
      replace (rl + 1 + len (d_scratch d ++ [last]) <=? effective_max max_size) with false by lia.
      reflexivity.
    - cbn [app]. rewrite run_unfold. unfold Framing.turn. rewrite St.
      unfold process_read_total_remaining_length.
      assert (Hins : decode_vli (d_scratch d ++ [x]) = VliInsufficient).
      { apply decode_vli_all_cont.
        - apply Forall_app. apply Forall_app in Hc. destruct Hc as [H1 H2]. split; [exact H1|].
          inversion H2; subst. constructor; [assumption | constructor].
        - rewrite app_length in *. cbn [length] in *. lia. }
      rewrite Hins.
      replace (4 <=? len (d_scratch d ++ [x])) with false
        by (unfold len; rewrite app_length in *; cbn [length] in *; lia).
      replace (is_empty (cont ++ last :: rest)) with false by (destruct cont; reflexivity).
      cbn [negb cons_opt].
      rewrite (IH (set_scratch d (d_scratch d ++ [x])) last rl rest).
      + cbn [set_scratch set_state d_state d_scratch d_first_byte d_remaining_length]. rewrite <- !app_assoc. reflexivity.
      + cbn. exact St.
      + cbn [set_scratch d_scratch]. rewrite <- app_assoc. exact Hc.
      + cbn [set_scratch d_scratch]. rewrite <- app_assoc. exact Hl.
      + cbn [set_scratch d_scratch]. rewrite <- !app_assoc. exact Hv.
      + cbn [set_scratch d_scratch]. rewrite <- !app_assoc. exact Hmax.
  Qed.

  (* while the length field is incomplete nothing is reported and only length bytes are buffered *)
  Lemma gate_prefix_ok : forall cont d,
    d_state d = ReadTotalRemainingLength ->
    Forall (fun x => 128 <= x) (d_scratch d ++ cont) -> (length (d_scratch d ++ cont) <= 3)%nat ->
    run d cont = (set_scratch d (d_scratch d ++ cont), [], Ok tt).
  Proof.
    induction cont as [|x cont IH]; intros d St Hc Hl.
    - rewrite run_unfold. unfold Framing.turn. rewrite St. unfold process_read_total_remaining_length.
      cbn [cons_opt]. rewrite app_nil_r, set_scratch_same. reflexivity.
    - rewrite run_unfold. unfold Framing.turn. rewrite St. unfold process_read_total_remaining_length.
      assert (Hins : decode_vli (d_scratch d ++ [x]) = VliInsufficient).
      { apply decode_vli_all_cont.
        - apply Forall_app. apply Forall_app in Hc. destruct Hc as [H1 H2]. split; [exact H1|].
          inversion H2; subst. constructor; [assumption | constructor].
        - rewrite app_length in *. cbn [length] in *. lia. }
      rewrite Hins.
      replace (4 <=? len (d_scratch d ++ [x])) with false
        by (unfold len; rewrite app_length in *; cbn [length] in *; lia).
      destruct cont as [|y cont].
      + cbn [is_empty negb cons_opt]. reflexivity.
      + cbn [is_empty negb cons_opt].
        rewrite (IH (set_scratch d (d_scratch d ++ [x]))).
        * cbn [set_scratch d_state d_scratch d_first_byte d_remaining_length]. rewrite <- !app_assoc. reflexivity.
        * cbn. exact St.
        * cbn [set_scratch d_scratch]. rewrite <- app_assoc. exact Hc.
        * cbn [set_scratch d_scratch]. rewrite <- app_assoc. exact Hl.
  Qed.

  Theorem size_gate : forall d first_byte cont last rl,
    d_state d = ReadPacketType -> d_scratch d = [] ->
    Forall (fun x => 128 <= x) cont -> (length cont <= 3)%nat ->
    decode_vli (cont ++ [last]) = VliValue rl [] ->
    effective_max max_size < rl + 1 + len (cont ++ [last]) ->
    (* nothing is reported, and no error, while the length field is incomplete *)
    (forall k, exists d', run d (first_byte :: firstn k cont) = (d', [], Ok tt)
                          /\ d_scratch d' = firstn k cont) /\
    (* the call that consumes the completing byte fails, whatever follows; the scratch buffer
       holds the length field only — no body byte of the oversized packet is ever buffered *)
    (forall rest, exists d',
        run d (first_byte :: cont ++ last :: rest) = (d', [], Err EDecodingFailure)
        /\ d_state d' = TerminalError /\ d_scratch d' = cont ++ [last]).
  Proof.
    intros d fb cont last rl St Sc Hc Hl Hv Hmax. split.
    - intros k.
      set (d1 := {| d_state := ReadTotalRemainingLength; d_scratch := d_scratch d; d_first_byte := Some fb;
                    d_remaining_length := d_remaining_length d |}).
      exists (set_scratch d1 (firstn k cont)). split; [|reflexivity].
      rewrite run_unfold. unfold Framing.turn. rewrite St. unfold process_read_packet_type. cbn [cons_opt].
      fold d1. rewrite (gate_prefix_ok (firstn k cont) d1).
      + unfold d1. cbn [d_scratch]. rewrite Sc. reflexivity.
      + reflexivity.
      + unfold d1. cbn [d_scratch]. rewrite Sc. cbn [app].
        apply Forall_forall. intros x Hx. rewrite Forall_forall in Hc. apply Hc. eapply in_firstn_in; eauto.
      + unfold d1. cbn [d_scratch]. rewrite Sc. cbn [app]. rewrite firstn_length. lia.
    - intros rest.
      set (d1 := {| d_state := ReadTotalRemainingLength; d_scratch := d_scratch d; d_first_byte := Some fb;
                    d_remaining_length := d_remaining_length d |}).
      exists (set_state (set_scratch d1 (d_scratch d1 ++ cont ++ [last])) TerminalError).
      split; [|split; [reflexivity | unfold d1; cbn [set_state set_scratch d_scratch]; rewrite Sc; reflexivity]].
      rewrite run_unfold. unfold Framing.turn. rewrite St. unfold process_read_packet_type. cbn [cons_opt].
      fold d1. rewrite (gate_length_phase cont d1 last rl rest); try reflexivity.
      + unfold d1. cbn [d_scratch]. rewrite Sc. exact Hc.
      + unfold d1. cbn [d_scratch]. rewrite Sc. exact Hl.
      + unfold d1. cbn [d_scratch]. rewrite Sc. exact Hv.
      + unfold d1. cbn [d_scratch]. rewrite Sc. exact Hmax.
  Qed.

  (* ---- absence of panics ---- *)
  Lemma wf_init : wf decoder_init.
  Proof. exact I. Qed.

  Hypothesis body_total : forall fb s, is_panic (body fb s) = false.

  Lemma turn_wf d b d' dir b' pk :
    wf d -> turn d b = (d', dir, b', pk) ->
    (forall s, dir <> DPanic s) /\ (match dir with Terminal _ => True | _ => wf d' end).
  Proof.
    unfold Framing.turn, Framing.wf. destruct (d_state d) eqn:St.
    - intros _. unfold process_read_packet_type. destruct b; intros H; inversion H; subst.
      + split; [intros ?; discriminate|]. rewrite St. exact I.
      + split; [intros ?; discriminate|]. cbn. discriminate.
    - intros Hf. unfold process_read_total_remaining_length. destruct b as [|x rest].
      { intros H; inversion H; subst. split; [intros ?; discriminate|]. rewrite St. exact Hf. }
      destruct (decode_vli _).
      + destruct (4 <=? _); [intros H; inversion H; subst; split; [intros ?; discriminate | exact I]|].
        destruct (negb _); intros H; inversion H; subst; (split; [intros ?; discriminate|]); cbn [d_state set_scratch]; rewrite St; exact Hf.
      + destruct (_ <=? _); intros H; inversion H; subst; (split; [intros ?; discriminate|]); [|exact I].
        cbn. split; [exact Hf|]. eexists. split; [reflexivity|]. unfold len; cbn [length]; lia.
      + destruct (4 <=? _); [intros H; inversion H; subst; split; [intros ?; discriminate | exact I]|].
        destruct (negb _); intros H; inversion H; subst; (split; [intros ?; discriminate|]); cbn [d_state set_scratch]; rewrite St; exact Hf.
    - intros [Hf [n [Hn Hl]]]. unfold process_read_packet_body. rewrite Hn.
      replace (n <? len (d_scratch d)) with false by lia.
      destruct (len b <? n - len (d_scratch d)) eqn:E1.
      + intros H; inversion H; subst. split; [intros ?; discriminate|]. cbn [d_state set_scratch d_first_byte d_remaining_length d_scratch].
        rewrite St. split; [exact Hf|]. exists n. split; [exact Hn|]. rewrite len_app. lia.
      + unfold slice_to, slice_from. replace (n - len (d_scratch d) <=? len b) with true by lia.
        destruct (d_first_byte d) as [fb|]; [|congruence].
        destruct (negb (is_empty (d_scratch d)));
          (match goal with |- context [body ?f ?s] => pose proof (body_total f s) as Hb; destruct (body f s) end;
           [| | discriminate]);
          intros H; inversion H; subst; (split; [intros ?; discriminate | exact I]).
    - intros _ H; inversion H; subst. split; [intros ?; discriminate | exact I].
  Qed.

  Lemma loop_no_panic : forall f d b, (measure d b < f)%nat -> wf d ->
    let '(d', ps, r) := loop f d b in is_panic r = false /\ wf d'.
  Proof.
    induction f as [|f IH]; intros d b Hm Hw; [lia|].
    cbn [Framing.loop]. destruct (turn d b) as [[[d1 dir] b1] pk] eqn:T.
    pose proof (turn_wf _ _ _ _ _ _ Hw T) as [Hnp Hw1].
    destruct dir.
    - split; [reflexivity | exact Hw1].
    - apply turn_decreases in T. specialize (IH d1 b1 ltac:(lia) Hw1).
      destruct (loop f d1 b1) as [[d2 ps] r]. exact IH.
    - split; [reflexivity | exact I].
    - exfalso. eapply Hnp. reflexivity.
  Qed.

  Theorem run_no_panic : forall d b, wf d ->
    let '(d', ps, r) := run d b in is_panic r = false /\ wf d'.
  Proof. intros d b Hw. apply loop_no_panic; [apply measure_lt_fuel | exact Hw]. Qed.
End FramingProofs.
