(* C02 proofs: the frame, PINGREQ, PUBACK / PUBREC / PUBREL / PUBCOMP *)
From GM Require Import Base.Prelude Base.Outcome Codec.Prim Codec.Packets Codec.Steps Codec.ImplEncode
  Codec.SpecDecodeC2S Codec.ValidC2S CodecProofs.EncPrim CodecProofs.EncProps.
Open Scope N_scope.

Ltac split_andb :=
  repeat match goal with
  | H : _ && _ = true |- _ => apply andb_true_iff in H; destruct H
  end.

(* first byte ‖ VBI(|body|) ‖ body *)
Lemma spec_decode_frame v first body p :
  len body <= VLI_MAX -> d_body v (first / 16) (first mod 16) body = Some p ->
  spec_decode v (first :: vli_bytes (len body) ++ body) = Some (p, []).
Proof.
  intros Hl Hb. unfold spec_decode. cbn [p_u8]. rewrite <- (app_nil_r body) at 2.
  rewrite p_vbi_rt by assumption. rewrite app_nil_r. rewrite p_take_all. rewrite Hb. reflexivity.
Qed.

(* what the per-packet lemmas establish: the encoder succeeds with first ‖ VBI ‖ body, and the body decodes *)
Definition encodes_to (v : version) (p : packet) (r : resolution) (first : N) (body : bytes) : Prop :=
  exists steps, impl_steps v p r = Ok steps /\ fl steps (first :: vli_bytes (len body) ++ body).

Lemma round_trip v p r first body q :
  encodes_to v p r first body -> len body <= VLI_MAX -> d_body v (first / 16) (first mod 16) body = Some q ->
  exists bs, impl_encode_all v p r = Ok bs /\ spec_decode v bs = Some (q, []).
Proof.
  intros (steps & Hs & Hf) Hl Hd. exists (first :: vli_bytes (len body) ++ body). split.
  - unfold impl_encode_all. rewrite Hs. exact Hf.
  - apply spec_decode_frame; assumption.
Qed.

Lemma vli_bytes_cons v : v <= VLI_MAX -> exists x t, vli_bytes v = x :: t.
Proof.
  intros H. rewrite vli_bytes_cases by assumption.
  destruct (v <? 128); [eauto|]. destruct (v <? 16384); [eauto|]. destruct (v <? 2097152); eauto.
Qed.

(* ---------------- PINGREQ ---------------- *)
Lemma pingreq_rt v r : exists bs, impl_encode_all v Pingreq r = Ok bs /\ spec_decode v bs = Some (Pingreq, []).
Proof. exists [192; 0]. destruct v; split; reflexivity. Qed.

(* ---------------- acks ---------------- *)
Definition ack_items (a : ack) : list item := oi_data 31 (ack_reason a) ++ up_items (ack_up a).

Lemma ack_items_len a : len (items_bytes (ack_items a)) = ack_props_size a.
Proof.
  unfold ack_items, ack_props_size. rewrite items_bytes_app, len_app.
  rewrite len_items_data by (left; reflexivity). rewrite len_items_ups. reflexivity.
Qed.

Lemma ack_impl_pl a : up_length (ack_up a) + opt_data_prop_len (ack_reason a) = ack_props_size a.
Proof. unfold ack_props_size. rewrite up_length_oupsz, opt_data_prop_len_dsz. lia. Qed.

Lemma oupsz_zero o : oupsz o = 0 -> norm_up o = None /\ up_items o = [].
Proof.
  destruct o as [[|p l]|]; cbn [oupsz upsz]; intros H; try (split; reflexivity). lia.
Qed.
Lemma dsz_zero o : dsz o = 0 -> o = None.
Proof. destruct o; cbn; [lia | reflexivity]. Qed.

Lemma wf_str_item k s : prop_type k = Some TStr -> k <? 128 = true -> str_valid s = true -> item_wf (k, VData s) = true.
Proof. intros E Hk H. unfold item_wf. cbn [fst snd]. rewrite E, Hk. cbn [val_wf value_ok]. rewrite H. reflexivity. Qed.
Lemma wf_bin_item k s : prop_type k = Some TBin -> k <? 128 = true -> bin_valid s = true -> item_wf (k, VData s) = true.
Proof. intros E Hk H. unfold item_wf. cbn [fst snd]. rewrite E, Hk. cbn [val_wf value_ok]. rewrite H. reflexivity. Qed.

Lemma ack_body5 fb codes a :
  valid_ack V5 codes a = true ->
  exists body steps,
    ack_steps5 fb a = Ok steps /\ fl steps (fb :: vli_bytes (len body) ++ body) /\ len body <= VLI_MAX /\
    d_ack V5 codes body = Some (canon_ack V5 a).
Proof.
  unfold valid_ack, pid_ok, U16_MAX. intros H.
  split_andb.
  match goal with H : mem (ack_rc a) codes = true |- _ => rename H into Hrc end.
  match goal with H : opt_ok str_valid (ack_reason a) = true |- _ => rename H into Hreason end.
  match goal with H : ups_valid (ack_up a) = true |- _ => rename H into Hups end.
  assert (1 <= ack_pid a <= 65535) as Hpid by lia.
  assert (p_u16 (be16 (ack_pid a)) = Some (ack_pid a, [])) as Pid0
      by (rewrite <- (app_nil_r (be16 _)); apply p_u16_rt; lia).
  assert (negb (ack_pid a =? 0) = true) as Hpidnz by lia.
  unfold ack_steps5, ack_lengths. rewrite ack_impl_pl.
  pose proof (vbisz_bounds (ack_props_size a)) as Hvb.
  destruct (ack_props_size a =? 0) eqn:Hpl.
  - (* no properties *)
    assert (ack_props_size a = 0) as Hpl0 by lia. unfold ack_props_size in Hpl0.
    assert (ack_reason a = None) as Hr by (apply dsz_zero; lia).
    destruct (oupsz_zero (ack_up a) ltac:(lia)) as [Hn _].
    destruct (ack_rc a =? 0) eqn:Hrc0; cbn [obind andb].
    + exists (be16 (ack_pid a)). eexists. split; [reflexivity|]. split; [|split].
      * rewrite len_be16. reflexivity.
      * rewrite len_be16. unfold VLI_MAX. lia.
      * unfold d_ack. rewrite Pid0, Hpidnz. unfold canon_ack, default_ack. rewrite Hr, Hn.
        assert (ack_rc a = 0) as -> by lia. reflexivity.
    + change (0 =? 0) with true. change (3 =? 3) with true. cbn [app].
      exists (be16 (ack_pid a) ++ [ack_rc a]). eexists. split; [reflexivity|]. split; [|split].
      * reflexivity.
      * rewrite len_app, len_be16. cbn. unfold VLI_MAX. lia.
      * unfold d_ack. rewrite p_u16_rt by lia. rewrite Hpidnz. cbn [p_u8]. rewrite Hrc.
        unfold canon_ack. rewrite Hr, Hn. reflexivity.
  - (* properties present *)
    assert (ack_props_size a <= VLI_MAX) as Hple by lia.
    rewrite vli_size_vbisz by assumption. cbn [obind].
    unfold VLI_MAX in *.
    rewrite !u32_small by lia. rewrite Hpl, andb_false_r.
    set (its := ack_items a).
    set (body := be16 (ack_pid a) ++ [ack_rc a] ++ vli_bytes (len (items_bytes its)) ++ items_bytes its).
    assert (len body = 3 + ack_props_size a + vbisz (ack_props_size a)) as Hbody.
    { unfold body. rewrite !len_app, len_be16, len_1. unfold its. rewrite ack_items_len.
      rewrite len_vli_bytes by (unfold VLI_MAX; lia). lia. }
    exists body. eexists. split; [reflexivity|]. split; [|split].
    + rewrite Hbody.
      apply (fl_app [SU8 fb] _ [fb]); [apply fl_u8|].
      apply (fl_app [SVli _] _); [apply fl_vli; unfold VLI_MAX; lia|].
      unfold body.
      apply (fl_app [SU16 _] _); [apply fl_u16|].
      apply (fl_app [SU8 _] _); [apply fl_u8|].
      apply (fl_app [SVli _] _).
      { unfold its. rewrite ack_items_len. apply fl_vli. unfold VLI_MAX. lia. }
      unfold its, ack_items. rewrite items_bytes_app.
      apply fl_app; [apply fl_opt_data; left; reflexivity | apply fl_ups].
    + rewrite Hbody. lia.
    + unfold d_ack, body. rewrite p_u16_rt by lia. rewrite Hpidnz. cbn [app p_u8]. rewrite Hrc.
      destruct (vli_bytes_cons (len (items_bytes its))) as (x & t & Ex).
      { unfold its. rewrite ack_items_len. unfold VLI_MAX. lia. }
      rewrite Ex. cbn [app]. change (x :: t ++ items_bytes its) with ((x :: t) ++ items_bytes its). rewrite <- Ex.
      rewrite p_props_rt0.
      * unfold its, ack_items. unfold canon_ack. f_equal. f_equal.
        -- rewrite get_data_app, get_data_oi_data, get_data_ups. change (31 =? 31) with true. apply opt_match_id.
        -- unfold get_ups. rewrite get_pairs_app, get_pairs_oi_data, get_pairs_ups. cbn [app].
           destruct (ack_up a) as [[|p l]|]; reflexivity.
      * unfold its, ack_items. rewrite forallb_app. apply andb_true_iff. split.
        -- eapply wf_oi_data; [exact Hreason|]. intros s Hs. apply wf_str_item; [reflexivity | reflexivity | exact Hs].
        -- apply wf_up_items. exact Hups.
      * unfold its. rewrite ack_items_len. unfold VLI_MAX. lia.
      * unfold its, ack_items. rewrite forallb_app. apply andb_true_iff. split.
        -- apply allowed_oi_data. reflexivity.
        -- apply allowed_ups. reflexivity.
      * unfold its, ack_items, allowed_ack. cbn [forallb]. rewrite !count_key_app.
        rewrite !count_oi_data. rewrite (count_ups 31) by reflexivity.
        change (31 =? 31) with true. change (38 =? USER_PROPERTY) with true. change (31 =? USER_PROPERTY) with false.
        pose proof (fsz1_le (ack_reason a)). cbn [orb]. rewrite andb_true_r. lia.
Qed.

Lemma ack_body311 fb codes a :
  valid_ack V311 codes a = true ->
  fl [SU8 fb; SU8 2; SU16 (ack_pid a)] (fb :: vli_bytes (len (be16 (ack_pid a))) ++ be16 (ack_pid a)) /\
  d_ack V311 codes (be16 (ack_pid a)) = Some (canon_ack V311 a).
Proof.
  unfold valid_ack, pid_ok, U16_MAX. intros H. rewrite andb_true_r in H.
  split; [reflexivity|].
  unfold d_ack. rewrite <- (app_nil_r (be16 _)). rewrite p_u16_rt by lia.
  assert (negb (ack_pid a =? 0) = true) as -> by lia. reflexivity.
Qed.

(* the four kinds *)
Ltac ack_kind5 fb :=
  intros a r H; destruct (ack_body5 fb _ a H) as (body & steps & Hs & Hf & Hl & Hd);
  eapply round_trip; [exists steps; split; [exact Hs | exact Hf] | exact Hl |];
  cbn [canon]; change (d_body V5 (fb / 16) (fb mod 16) body) with (let? x := d_ack V5 _ body in Some (_ x));
  rewrite Hd; reflexivity.

Lemma puback_rt5 : forall a r, valid_ack V5 rc_puback a = true ->
  exists bs, impl_encode_all V5 (Puback a) r = Ok bs /\ spec_decode V5 bs = Some (canon V5 r (Puback a), []).
Proof.
  intros a r H. destruct (ack_body5 PUBACK_FIRST_BYTE _ a H) as (body & steps & Hs & Hf & Hl & Hd).
  eapply round_trip; [exists steps; split; [exact Hs | exact Hf] | exact Hl |].
  change (d_body V5 (PUBACK_FIRST_BYTE / 16) (PUBACK_FIRST_BYTE mod 16) body)
    with (let? x := d_ack V5 rc_puback body in Some (Puback x)).
  rewrite Hd. reflexivity.
Qed.
Lemma pubrec_rt5 : forall a r, valid_ack V5 rc_puback a = true ->
  exists bs, impl_encode_all V5 (Pubrec a) r = Ok bs /\ spec_decode V5 bs = Some (canon V5 r (Pubrec a), []).
Proof.
  intros a r H. destruct (ack_body5 PUBREC_FIRST_BYTE _ a H) as (body & steps & Hs & Hf & Hl & Hd).
  eapply round_trip; [exists steps; split; [exact Hs | exact Hf] | exact Hl |].
  change (d_body V5 (PUBREC_FIRST_BYTE / 16) (PUBREC_FIRST_BYTE mod 16) body)
    with (let? x := d_ack V5 rc_puback body in Some (Pubrec x)).
  rewrite Hd. reflexivity.
Qed.
Lemma pubrel_rt5 : forall a r, valid_ack V5 rc_pubrel a = true ->
  exists bs, impl_encode_all V5 (Pubrel a) r = Ok bs /\ spec_decode V5 bs = Some (canon V5 r (Pubrel a), []).
Proof.
  intros a r H. destruct (ack_body5 PUBREL_FIRST_BYTE _ a H) as (body & steps & Hs & Hf & Hl & Hd).
  eapply round_trip; [exists steps; split; [exact Hs | exact Hf] | exact Hl |].
  change (d_body V5 (PUBREL_FIRST_BYTE / 16) (PUBREL_FIRST_BYTE mod 16) body)
    with (let? x := d_ack V5 rc_pubrel body in Some (Pubrel x)).
  rewrite Hd. reflexivity.
Qed.
Lemma pubcomp_rt5 : forall a r, valid_ack V5 rc_pubrel a = true ->
  exists bs, impl_encode_all V5 (Pubcomp a) r = Ok bs /\ spec_decode V5 bs = Some (canon V5 r (Pubcomp a), []).
Proof.
  intros a r H. destruct (ack_body5 PUBCOMP_FIRST_BYTE _ a H) as (body & steps & Hs & Hf & Hl & Hd).
  eapply round_trip; [exists steps; split; [exact Hs | exact Hf] | exact Hl |].
  change (d_body V5 (PUBCOMP_FIRST_BYTE / 16) (PUBCOMP_FIRST_BYTE mod 16) body)
    with (let? x := d_ack V5 rc_pubrel body in Some (Pubcomp x)).
  rewrite Hd. reflexivity.
Qed.

Lemma puback_rt311 : forall a r, valid_ack V311 rc_puback a = true ->
  exists bs, impl_encode_all V311 (Puback a) r = Ok bs /\ spec_decode V311 bs = Some (canon V311 r (Puback a), []).
Proof.
  intros a r H. destruct (ack_body311 PUBACK_FIRST_BYTE _ a H) as (Hf & Hd).
  eapply round_trip; [eexists; split; [reflexivity | exact Hf] | rewrite len_be16; unfold VLI_MAX; lia |].
  change (d_body V311 (PUBACK_FIRST_BYTE / 16) (PUBACK_FIRST_BYTE mod 16) (be16 (ack_pid a)))
    with (let? x := d_ack V311 rc_puback (be16 (ack_pid a)) in Some (Puback x)).
  rewrite Hd. reflexivity.
Qed.
Lemma pubrec_rt311 : forall a r, valid_ack V311 rc_puback a = true ->
  exists bs, impl_encode_all V311 (Pubrec a) r = Ok bs /\ spec_decode V311 bs = Some (canon V311 r (Pubrec a), []).
Proof.
  intros a r H. destruct (ack_body311 PUBREC_FIRST_BYTE _ a H) as (Hf & Hd).
  eapply round_trip; [eexists; split; [reflexivity | exact Hf] | rewrite len_be16; unfold VLI_MAX; lia |].
  change (d_body V311 (PUBREC_FIRST_BYTE / 16) (PUBREC_FIRST_BYTE mod 16) (be16 (ack_pid a)))
    with (let? x := d_ack V311 rc_puback (be16 (ack_pid a)) in Some (Pubrec x)).
  rewrite Hd. reflexivity.
Qed.
Lemma pubrel_rt311 : forall a r, valid_ack V311 rc_pubrel a = true ->
  exists bs, impl_encode_all V311 (Pubrel a) r = Ok bs /\ spec_decode V311 bs = Some (canon V311 r (Pubrel a), []).
Proof.
  intros a r H. destruct (ack_body311 PUBREL_FIRST_BYTE _ a H) as (Hf & Hd).
  eapply round_trip; [eexists; split; [reflexivity | exact Hf] | rewrite len_be16; unfold VLI_MAX; lia |].
  change (d_body V311 (PUBREL_FIRST_BYTE / 16) (PUBREL_FIRST_BYTE mod 16) (be16 (ack_pid a)))
    with (let? x := d_ack V311 rc_pubrel (be16 (ack_pid a)) in Some (Pubrel x)).
  rewrite Hd. reflexivity.
Qed.
Lemma pubcomp_rt311 : forall a r, valid_ack V311 rc_pubrel a = true ->
  exists bs, impl_encode_all V311 (Pubcomp a) r = Ok bs /\ spec_decode V311 bs = Some (canon V311 r (Pubcomp a), []).
Proof.
  intros a r H. destruct (ack_body311 PUBCOMP_FIRST_BYTE _ a H) as (Hf & Hd).
  eapply round_trip; [eexists; split; [reflexivity | exact Hf] | rewrite len_be16; unfold VLI_MAX; lia |].
  change (d_body V311 (PUBCOMP_FIRST_BYTE / 16) (PUBCOMP_FIRST_BYTE mod 16) (be16 (ack_pid a)))
    with (let? x := d_ack V311 rc_pubrel (be16 (ack_pid a)) in Some (Pubcomp x)).
  rewrite Hd. reflexivity.
Qed.
