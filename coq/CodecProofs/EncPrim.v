(* C02 proofs, part 1: round trips of the wire primitives
   reference parser (implementation bytes ++ rest) = Some (value, rest). *)
From GM Require Import Base.Prelude Base.Outcome Codec.Prim Codec.Packets Codec.Steps Codec.ImplEncode
  Codec.SpecDecodeC2S Codec.ValidC2S.
Open Scope N_scope.

(* ---- lengths ---- *)
Lemma len_be16 x : len (be16 x) = 2. Proof. reflexivity. Qed.
Lemma len_be32 x : len (be32 x) = 4. Proof. reflexivity. Qed.
Lemma len_1 {A} (x : A) : len [x] = 1. Proof. reflexivity. Qed.

Lemma u16_small x : x <= 65535 -> u16 x = x.
Proof. intros. unfold u16. apply N.mod_small. lia. Qed.
Lemma u32_small x : x <= 4294967295 -> u32 x = x.
Proof. intros. unfold u32. apply N.mod_small. lia. Qed.

(* ---- fixed-width integers ---- *)
Lemma p_u8_rt x r : p_u8 (x :: r) = Some (x, r).
Proof. reflexivity. Qed.

Lemma p_u16_rt x r : x <= 65535 -> p_u16 (be16 x ++ r) = Some (x, r).
Proof.
  intros H. unfold be16, p_u16. cbn [app]. f_equal. f_equal.
  rewrite (N.mod_small (x / 256) 256) by (apply N.div_lt_upper_bound; lia).
  rewrite N.mul_comm. symmetry. apply N.div_mod. lia.
Qed.

Lemma p_u32_rt x r : x <= 4294967295 -> p_u32 (be32 x ++ r) = Some (x, r).
Proof.
  intros H. unfold be32, p_u32. cbn [app]. f_equal. f_equal. lia.
Qed.

(* ---- variable byte integer ---- *)
Lemma vbf_S f v : vli_bytes_fuel (S f) v =
  if v / 128 =? 0 then [v mod 128] else (v mod 128 + 128) :: vli_bytes_fuel f (v / 128).
Proof. reflexivity. Qed.
Lemma vbf_small f v : v < 128 -> vli_bytes_fuel (S f) v = [v].
Proof.
  intros H. rewrite vbf_S. assert (v / 128 =? 0 = true) as -> by lia. f_equal. lia.
Qed.
Lemma vbf_big f v : 128 <= v -> vli_bytes_fuel (S f) v = (v mod 128 + 128) :: vli_bytes_fuel f (v / 128).
Proof.
  intros H. rewrite vbf_S. assert (v / 128 =? 0 = false) as -> by lia. reflexivity.
Qed.

Lemma vli_bytes_cases v : v <= VLI_MAX ->
  vli_bytes v =
    if v <? 128 then [v]
    else if v <? 16384 then [v mod 128 + 128; v / 128]
    else if v <? 2097152 then [v mod 128 + 128; v / 128 mod 128 + 128; v / 16384]
    else [v mod 128 + 128; v / 128 mod 128 + 128; v / 16384 mod 128 + 128; v / 2097152].
Proof.
  unfold VLI_MAX. intros H. unfold vli_bytes.
  destruct (v <? 128) eqn:E1. { apply vbf_small. lia. }
  rewrite vbf_big by lia.
  destruct (v <? 16384) eqn:E2. { rewrite vbf_small by lia. reflexivity. }
  rewrite vbf_big by lia.
  assert (v / 128 / 128 = v / 16384) as -> by lia.
  destruct (v <? 2097152) eqn:E3. { rewrite vbf_small by lia. reflexivity. }
  rewrite vbf_big by lia.
  assert (v / 16384 / 128 = v / 2097152) as -> by lia.
  rewrite vbf_small by lia. reflexivity.
Qed.

Lemma len_vli_bytes v : v <= VLI_MAX -> len (vli_bytes v) = vbisz v.
Proof.
  intros H. rewrite vli_bytes_cases by assumption. unfold vbisz.
  destruct (v <? 128); [reflexivity|]. destruct (v <? 16384); [reflexivity|].
  destruct (v <? 2097152); reflexivity.
Qed.

Lemma vli_size_vbisz v : v <= VLI_MAX -> vli_size v = Ok (vbisz v).
Proof.
  unfold VLI_MAX. intros H. unfold vli_size, vbisz.
  destruct (v <? 128); [reflexivity|]. destruct (v <? 16384); [reflexivity|].
  destruct (v <? 2097152); [reflexivity|]. assert (v <? 268435456 = true) as -> by lia. reflexivity.
Qed.

Lemma vli_size_ok_inv v sz : vli_size v = Ok sz -> v <= VLI_MAX /\ sz = vbisz v.
Proof.
  unfold vli_size, vbisz, VLI_MAX.
  destruct (v <? 128) eqn:E1; [intros [= <-]; split; [lia|reflexivity]|].
  destruct (v <? 16384) eqn:E2; [intros [= <-]; split; [lia|reflexivity]|].
  destruct (v <? 2097152) eqn:E3; [intros [= <-]; split; [lia|reflexivity]|].
  destruct (v <? 268435456) eqn:E4; [intros [= <-]; split; [lia|reflexivity]|]. discriminate.
Qed.

Lemma vbisz_bounds v : 1 <= vbisz v <= 4.
Proof. unfold vbisz. destruct (v <? 128), (v <? 16384), (v <? 2097152); lia. Qed.

Lemma encode_vli_ok v : v <= VLI_MAX -> encode_vli v = Ok (vli_bytes v).
Proof. intros H. unfold encode_vli. assert (VLI_MAX <? v = false) as -> by lia. reflexivity. Qed.

Lemma p_vbi_rt v r : v <= VLI_MAX -> p_vbi (vli_bytes v ++ r) = Some (v, r).
Proof.
  intros H. rewrite vli_bytes_cases by assumption. unfold VLI_MAX in H. unfold p_vbi.
  destruct (v <? 128) eqn:E1.
  { cbn [app p_vbi_n]. rewrite E1. reflexivity. }
  destruct (v <? 16384) eqn:E2.
  { cbn [app p_vbi_n].
    assert (v mod 128 + 128 <? 128 = false) as -> by lia.
    assert (v / 128 <? 128 = true) as -> by (apply N.ltb_lt; apply N.div_lt_upper_bound; lia).
    assert (negb (v / 128 =? 0) = true) as -> by lia.
    f_equal. f_equal. lia. }
  destruct (v <? 2097152) eqn:E3.
  { cbn [app p_vbi_n].
    assert (v mod 128 + 128 <? 128 = false) as -> by lia.
    assert (v / 128 mod 128 + 128 <? 128 = false) as -> by lia.
    assert (v / 16384 <? 128 = true) as -> by (apply N.ltb_lt; apply N.div_lt_upper_bound; lia).
    assert (negb (v / 16384 =? 0) = true) as -> by lia.
    assert (negb (v / 128 mod 128 + 128 - 128 + 128 * (v / 16384) =? 0) = true) as -> by lia.
    f_equal. f_equal. lia. }
  cbn [app p_vbi_n].
  assert (v mod 128 + 128 <? 128 = false) as -> by lia.
  assert (v / 128 mod 128 + 128 <? 128 = false) as -> by lia.
  assert (v / 16384 mod 128 + 128 <? 128 = false) as -> by lia.
  assert (v / 2097152 <? 128 = true) as -> by (apply N.ltb_lt; apply N.div_lt_upper_bound; lia).
  assert (negb (v / 2097152 =? 0) = true) as -> by lia.
  assert (negb (v / 16384 mod 128 + 128 - 128 + 128 * (v / 2097152) =? 0) = true) as -> by lia.
  assert (negb (v / 128 mod 128 + 128 - 128 + 128 * (v / 16384 mod 128 + 128 - 128 + 128 * (v / 2097152)) =? 0) = true) as -> by lia.
  f_equal. f_equal. lia.
Qed.

(* ---- take / binary data / strings ---- *)
Lemma take_app_len (a r : bytes) : take (len a) (a ++ r) = a.
Proof.
  unfold take, len. rewrite Nat2N.id. rewrite firstn_app, Nat.sub_diag, firstn_all. cbn. apply app_nil_r.
Qed.
Lemma drop_app_len (a r : bytes) : drop (len a) (a ++ r) = r.
Proof.
  unfold drop, len. rewrite Nat2N.id. rewrite skipn_app, Nat.sub_diag, skipn_all. reflexivity.
Qed.

Lemma p_take_rt (a r : bytes) : p_take (len a) (a ++ r) = Some (a, r).
Proof.
  unfold p_take. rewrite len_app. assert (len a <=? len a + len r = true) as -> by lia.
  rewrite take_app_len, drop_app_len. reflexivity.
Qed.

Lemma p_take_all (a : bytes) : p_take (len a) a = Some (a, []).
Proof. rewrite <- (app_nil_r a) at 2. apply p_take_rt. Qed.

Lemma p_bin_rt s r : len s <= 65535 -> p_bin (be16 (u16 (len s)) ++ s ++ r) = Some (s, r).
Proof.
  intros H. unfold p_bin. rewrite u16_small by assumption. rewrite p_u16_rt by assumption. apply p_take_rt.
Qed.

Lemma p_str_rt s r : str_valid s = true -> p_str (be16 (u16 (len s)) ++ s ++ r) = Some (s, r).
Proof.
  unfold str_valid, U16_MAX. intros H. apply andb_true_iff in H as [H1 H2].
  unfold p_str. rewrite p_bin_rt by lia. rewrite H2. reflexivity.
Qed.

Lemma bin_valid_len d : bin_valid d = true -> len d <= 65535.
Proof. unfold bin_valid, U16_MAX. lia. Qed.
Lemma str_valid_len d : str_valid d = true -> len d <= 65535.
Proof. unfold str_valid, U16_MAX. intros H. apply andb_true_iff in H. lia. Qed.

(* ---- flatten ---- *)
Definition fl (steps : list step) (bs : bytes) : Prop := flatten steps = Ok bs.

Lemma fl_nil : fl [] [].
Proof. reflexivity. Qed.

Lemma fl_app a b x y : fl a x -> fl b y -> fl (a ++ b) (x ++ y).
Proof.
  unfold fl. revert x. induction a as [|s a IH]; intros x Ha Hb.
  - cbn in Ha. injection Ha as <-. exact Hb.
  - cbn [app flatten] in *. destruct (step_bytes s) as [sb| |]; cbn [obind] in *; try discriminate.
    destruct (flatten a) as [t| |]; cbn [obind] in *; try discriminate.
    injection Ha as <-. rewrite (IH t eq_refl Hb). cbn [obind]. rewrite app_assoc. reflexivity.
Qed.

Lemma fl_cons s a sb x : step_bytes s = Ok sb -> fl a x -> fl (s :: a) (sb ++ x).
Proof. unfold fl. intros H1 H2. cbn [flatten]. rewrite H1, H2. reflexivity. Qed.

Lemma fl_u8 v : fl [SU8 v] [v]. Proof. reflexivity. Qed.
Lemma fl_u16 v : fl [SU16 v] (be16 v). Proof. reflexivity. Qed.
Lemma fl_u32 v : fl [SU32 v] (be32 v). Proof. reflexivity. Qed.
Lemma fl_bytes b : fl [SBytes b] b. Proof. unfold fl. cbn [flatten step_bytes obind]. rewrite app_nil_r. reflexivity. Qed.
Lemma fl_vli v : v <= VLI_MAX -> fl [SVli v] (vli_bytes v).
Proof. intros H. unfold fl. cbn [flatten step_bytes]. rewrite encode_vli_ok by assumption. cbn [obind]. rewrite app_nil_r. reflexivity. Qed.

Lemma fl_lp_data s : fl (lp_data s) (be16 (u16 (len s)) ++ s).
Proof. unfold lp_data. apply (fl_app [SU16 _] [SBytes _]); [apply fl_u16 | apply fl_bytes]. Qed.
