(* C17, inbound resolver (alias.rs:256-296, model Alias/Inbound.v): after any history of
   reset / resolve operations the resolver answers from the LATEST binding made since the last
   reset, and refuses unknown / zero / out-of-range aliases. *)
From GM Require Import Base.Prelude Base.Outcome Codec.Packets Alias.Outbound Alias.Inbound AliasProofs.OutboundP.
Open Scope N_scope.

Inductive iop := IReset | IResolve (alias : option N) (topic : bytes).

(* the resolver's state after a history (a failing resolve leaves it unchanged) *)
Definition istep (s : ires) (op : iop) : ires :=
  match op with
  | IReset => ires_reset s
  | IResolve a t => match ires_resolve s a t with Ok (s', _) => s' | _ => s end
  end.
Definition irun (s : ires) (ops : list iop) : ires := fold_left istep ops s.

(* specification: the bindings a server has established on this connection, as a function *)
Definition binds (max : N) (a : N) (t : bytes) : bool :=
  negb (len t =? 0) && (1 <=? a) && (a <=? max).
Definition lstep (max : N) (f : N -> option bytes) (op : iop) : N -> option bytes :=
  match op with
  | IReset => fun _ => None
  | IResolve (Some a) t => if binds max a t then (fun k => if a =? k then Some t else f k) else f
  | IResolve None _ => f
  end.
Definition latest (max : N) (ops : list iop) : N -> option bytes := fold_left (lstep max) ops (fun _ => None).

Lemma len_zero_nil (l : bytes) : (len l =? 0) = match l with [] => true | _ => false end.
Proof. destruct l; [reflexivity|]. apply N.eqb_neq. rewrite len_cons. lia. Qed.

Lemma irun_table : forall ops s f,
  (forall k, amap_get (i_current_aliases s) k = f k) ->
  i_maximum_alias_value (irun s ops) = i_maximum_alias_value s /\
  forall k, amap_get (i_current_aliases (irun s ops)) k = fold_left (lstep (i_maximum_alias_value s)) ops f k.
Proof.
  induction ops as [|op ops IH]; intros s f Hf; [split; [reflexivity|exact Hf]|].
  cbn [irun fold_left]. fold (irun (istep s op) ops).
  assert (Hm : i_maximum_alias_value (istep s op) = i_maximum_alias_value s).
  { destruct op as [|[a|] t]; cbn; auto. destruct t; cbn.
    - destruct (amap_get _ a); reflexivity.
    - destruct ((a =? 0) || (i_maximum_alias_value s <? a)); reflexivity. }
  specialize (IH (istep s op) (lstep (i_maximum_alias_value s) f op)). rewrite Hm in IH. apply IH.
  intros k. destruct op as [|[a|] t]; cbn [istep lstep ires_reset i_current_aliases amap_get]; auto.
  unfold ires_resolve, binds. rewrite len_zero_nil. destruct t as [|b t].
  - cbn. destruct (amap_get (i_current_aliases s) a); apply Hf.
  - cbn [negb andb].
    destruct ((a =? 0) || (i_maximum_alias_value s <? a)) eqn:E.
    + replace ((1 <=? a) && (a <=? i_maximum_alias_value s)) with false
        by (symmetry; apply orb_true_iff in E as [E|E]; [replace (1 <=? a) with false by lia; reflexivity | replace (a <=? i_maximum_alias_value s) with false by lia; apply andb_false_r]).
      apply Hf.
    + apply orb_false_iff in E as [E1 E2].
      replace ((1 <=? a) && (a <=? i_maximum_alias_value s)) with true
        by (symmetry; apply andb_true_iff; split; lia).
      cbn [i_current_aliases]. rewrite amap_get_insert. destruct (a =? k); [reflexivity|apply Hf].
Qed.

(* what the resolver answers after any history *)
Theorem inbound_resolve : forall max ops alias topic,
  let s := irun (ires_init max) ops in
  match alias with
  | None => ires_resolve s alias topic = Ok (s, topic)
  | Some a =>
      match topic with
      | [] => match latest max ops a with
              | Some t => ires_resolve s alias topic = Ok (s, t)
              | None => ires_resolve s alias topic = Err EInvalidInboundTopicAlias
              end
      | _ => if (1 <=? a) && (a <=? max)
             then exists s', ires_resolve s alias topic = Ok (s', topic)
             else ires_resolve s alias topic = Err EInvalidInboundTopicAlias
      end
  end.
Proof.
  intros max ops alias topic s.
  destruct (irun_table ops (ires_init max) (fun _ => None) (fun _ => eq_refl)) as [Hm Ht]. cbn in Hm, Ht.
  fold s in Hm, Ht. destruct alias as [a|]; [|reflexivity].
  destruct topic as [|b t].
  - cbn. rewrite Ht. fold (latest max ops). destruct (latest max ops a); reflexivity.
  - cbn. rewrite Hm.
    destruct ((a =? 0) || (max <? a)) eqn:E.
    + replace ((1 <=? a) && (a <=? max)) with false; [reflexivity|].
      symmetry; apply orb_true_iff in E as [E|E]; [replace (1 <=? a) with false by lia; reflexivity | replace (a <=? max) with false by lia; apply andb_false_r].
    + apply orb_false_iff in E as [E1 E2]. replace ((1 <=? a) && (a <=? max)) with true by (symmetry; apply andb_true_iff; split; lia).
      eexists. reflexivity.
Qed.

(* bindings are never empty, are only made for aliases in 1..max, and do not survive a reset *)
Theorem latest_props : forall max ops a t, latest max ops a = Some t -> t <> [] /\ 1 <= a <= max.
Proof.
  intros max ops. unfold latest.
  assert (H : forall f, (forall a t, f a = Some t -> t <> [] /\ 1 <= a <= max) ->
                        forall a t, fold_left (lstep max) ops f a = Some t -> t <> [] /\ 1 <= a <= max).
  { induction ops as [|op ops IH]; intros f Hf; [exact Hf|]. cbn [fold_left]. apply IH.
    destruct op as [|[a'|] t']; cbn [lstep]; auto; [discriminate|].
    destruct (binds max a' t') eqn:Eb; [|exact Hf]. intros a t. destruct (a' =? a) eqn:E; [|apply Hf].
    intros H. inversion H; subst. apply N.eqb_eq in E; subst. unfold binds in Eb.
    apply andb_true_iff in Eb as [Eb E3]. apply andb_true_iff in Eb as [E1 E2].
    split; [intros ->; discriminate|lia]. }
  apply H. discriminate.
Qed.

Theorem latest_reset : forall max ops a, latest max (ops ++ [IReset]) a = None.
Proof. intros. unfold latest. rewrite fold_left_app. reflexivity. Qed.

(* consequence: with an alias, an Ok answer never carries an empty topic *)
Theorem inbound_never_empty : forall max ops a topic s' t,
  ires_resolve (irun (ires_init max) ops) (Some a) topic = Ok (s', t) -> t <> [].
Proof.
  intros max ops a topic s' t H. pose proof (inbound_resolve max ops (Some a) topic) as R. cbv zeta in R.
  destruct topic as [|b tp].
  - destruct (latest max ops a) eqn:El; rewrite R in H; inversion H; subst.
    now destruct (latest_props _ _ _ _ El).
  - destruct ((1 <=? a) && (a <=? max)); [destruct R as [s'' R]|]; rewrite R in H; inversion H. discriminate.
Qed.
