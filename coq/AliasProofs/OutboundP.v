(* C17, resolver level: the outbound resolvers of alias.rs (model: Alias/Outbound.v) against a
   reference SERVER-side alias table that replays the returned resolutions.  Induction over arbitrary
   lists of reset / resolve operations. *)
From GM Require Import Base.Prelude Base.Outcome Codec.Packets Codec.Prim Alias.Outbound.
Open Scope N_scope.

Inductive aop := AReset (max_aliases : N) | AResolve (alias : option N) (topic : bytes).

(* what the server does with a PUBLISH carrying this resolution: alias + topic binds *)
Definition server_apply (tbl : amap) (topic : bytes) (r : resolution) : amap :=
  match r_alias r with
  | Some a => if r_skip_topic r then tbl else amap_insert tbl a topic
  | None => tbl
  end.

(* the resolution is safe for a server holding [tbl] that announced Topic Alias Maximum [mx]:
   alias in 1..mx; topic omitted only with an alias the server maps to exactly this topic *)
Definition res_ok (tbl : amap) (mx : N) (topic : bytes) (r : resolution) : bool :=
  match r_alias r with
  | None => negb (r_skip_topic r)
  | Some a =>
      (1 <=? a) && (a <=? mx) &&
      (if r_skip_topic r then match amap_get tbl a with Some t' => bytes_eqb t' topic | None => false end else true)
  end.

(* all operations of the history are safe and none panics *)
Fixpoint run_check (s : ores) (tbl : amap) (mx : N) (ops : list aop) : bool :=
  match ops with
  | [] => true
  | AReset m :: rest => run_check (ores_reset s m) [] m rest
  | AResolve a t :: rest =>
      match ores_resolve s a t with
      | Ok (s', r) => res_ok tbl mx t r && run_check s' (server_apply tbl t r) mx rest
      | _ => false
      end
  end.

(* ---- basic facts ---- *)
Lemma bytes_eqb_eq a b : bytes_eqb a b = true <-> a = b.
Proof.
  revert b; induction a; destruct b; cbn; split; intros H; try discriminate; auto.
  - apply andb_true_iff in H as [H1 H2]. apply N.eqb_eq in H1. apply IHa in H2. now subst.
  - inversion H; subst. rewrite N.eqb_refl. cbn. now apply IHa.
Qed.
Lemma bytes_eqb_refl a : bytes_eqb a a = true.
Proof. now apply bytes_eqb_eq. Qed.

Lemma amap_get_remove m k k' : amap_get (amap_remove m k) k' = if k =? k' then None else amap_get m k'.
Proof.
  unfold amap_remove. induction m as [|[a v] m IH]; cbn; [now destruct (k =? k')|].
  destruct (a =? k) eqn:E1; cbn.
  - apply N.eqb_eq in E1; subst. rewrite IH. destruct (k =? k'); reflexivity.
  - rewrite IH. destruct (a =? k') eqn:E2; [|reflexivity].
    apply N.eqb_eq in E2; subst. now rewrite N.eqb_sym, E1.
Qed.

Lemma amap_get_insert m k v k' : amap_get (amap_insert m k v) k' = if k =? k' then Some v else amap_get m k'.
Proof. unfold amap_insert. cbn. rewrite amap_get_remove. destruct (k =? k'); reflexivity. Qed.

(* ================= null resolver ================= *)
Theorem null_inv : forall ops tbl mx, run_check ONull tbl mx ops = true.
Proof. induction ops as [|[m|a t] ops IH]; intros; cbn; auto. Qed.

(* ================= manual resolver ================= *)
Definition manual_inv (mx : N) (m : amap) : Prop := forall a t, amap_get m a = Some t -> 0 < a < mx.

Theorem manual_inv_run : forall ops mx m, manual_inv mx m -> run_check (OManual mx m) m mx ops = true.
Proof.
  induction ops as [|[mm|al t] ops IH]; intros mx m Hinv; [reflexivity| |].
  - cbn. apply IH. intros a t H. discriminate.
  - cbn [run_check ores_resolve]. unfold manual_resolve_topic_alias.
    destruct al as [a|]; [|cbn; apply IH; exact Hinv].
    destruct (amap_get m a) as [ex|] eqn:Eg.
    + destruct (bytes_eqb ex t) eqn:Eb.
      * cbn. unfold res_ok, server_apply. cbn. rewrite Eg, Eb.
        destruct (Hinv _ _ Eg). replace (1 <=? a) with true by lia. replace (a <=? mx) with true by lia. cbn.
        apply IH. exact Hinv.
      * destruct ((0 <? a) && (a <? mx)) eqn:Er; cbn.
        -- unfold res_ok, server_apply. cbn. apply andb_true_iff in Er as [E1 E2].
           replace (1 <=? a) with true by lia. replace (a <=? mx) with true by lia. cbn.
           apply IH. intros a' t' H. rewrite amap_get_insert in H. destruct (a =? a') eqn:E; [apply N.eqb_eq in E; subst; lia|eauto].
        -- apply IH. exact Hinv.
    + destruct ((0 <? a) && (a <? mx)) eqn:Er; cbn.
      * unfold res_ok, server_apply. cbn. apply andb_true_iff in Er as [E1 E2].
        replace (1 <=? a) with true by lia. replace (a <=? mx) with true by lia. cbn.
        apply IH. intros a' t' H. rewrite amap_get_insert in H. destruct (a =? a') eqn:E; [apply N.eqb_eq in E; subst; lia|eauto].
      * apply IH. exact Hinv.
Qed.

Theorem manual_run : forall ops, run_check (ores_init RManual) [] 0 ops = true.
Proof. intros. apply manual_inv_run. intros a t H. discriminate. Qed.

(* ================= LRU resolver ================= *)
From Coq Require Import Permutation.

Definition lru_inv (cur smax : N) (c : lru) (tbl : amap) : Prop :=
  cur <= smax /\ cur <= 65535 /\ len c <= cur /\
  NoDup (map fst c) /\ NoDup (map snd c) /\
  (forall t a, In (t, a) c -> 1 <= a <= len c /\ amap_get tbl a = Some t).

Lemma peek_in c t a : lru_peek c t = Some a -> In (t, a) c.
Proof.
  induction c as [|[k v] c IH]; cbn; [discriminate|].
  destruct (bytes_eqb k t) eqn:E; [apply bytes_eqb_eq in E; subst; intros H; inversion H; auto | auto].
Qed.

Lemma peek_none c t : lru_peek c t = None <-> ~ In t (map fst c).
Proof.
  induction c as [|[k v] c IH]; cbn; [tauto|].
  destruct (bytes_eqb k t) eqn:E.
  - apply bytes_eqb_eq in E; subst. split; [discriminate|tauto].
  - rewrite IH. split; [intros H [->|H']; [rewrite bytes_eqb_refl in E; discriminate|tauto] | tauto].
Qed.

Lemma remove_notin c t : ~ In t (map fst c) -> lru_remove c t = c.
Proof.
  unfold lru_remove. induction c as [|[k v] c IH]; cbn; [reflexivity|]. intros H.
  destruct (bytes_eqb k t) eqn:E; [apply bytes_eqb_eq in E; subst; tauto|]. cbn. f_equal. apply IH. tauto.
Qed.

Lemma remove_perm c t a : NoDup (map fst c) -> In (t, a) c -> Permutation ((t, a) :: lru_remove c t) c.
Proof.
  induction c as [|[k v] c IH]; cbn; [tauto|]. intros Hnd [H|H]; inversion Hnd; subst.
  - inversion H; subst. unfold lru_remove. cbn. rewrite bytes_eqb_refl. cbn.
    fold (lru_remove c t). now rewrite remove_notin.
  - unfold lru_remove. cbn. destruct (bytes_eqb k t) eqn:E.
    + apply bytes_eqb_eq in E; subst. exfalso. apply H2. now apply (in_map fst) in H.
    + cbn. fold (lru_remove c t). rewrite perm_swap. apply perm_skip. now apply IH.
Qed.

Lemma len_perm {A} (a b : list A) : Permutation a b -> len a = len b.
Proof. intros H. unfold len. now rewrite (Permutation_length H). Qed.

Lemma lru_inv_perm cur smax c c' tbl : Permutation c' c -> lru_inv cur smax c tbl -> lru_inv cur smax c' tbl.
Proof.
  intros P (H1 & H2 & H3 & H4 & H5 & H6). rewrite <- (len_perm _ _ P) in *.
  repeat split; auto.
  - eapply Permutation_NoDup; [apply Permutation_sym, Permutation_map, P | exact H4].
  - eapply Permutation_NoDup; [apply Permutation_sym, Permutation_map, P | exact H5].
  - apply (H6 t a). eapply Permutation_in; eauto.
  - apply (H6 t a). eapply Permutation_in; eauto.
  - apply (H6 t a). eapply Permutation_in; eauto.
Qed.

Lemma u16_small x : x < 65536 -> u16 x = x.
Proof. intros. unfold u16. now apply N.mod_small. Qed.

Lemma in_snd {A B} (x : A) (y : B) l : In (x, y) l -> In y (map snd l).
Proof. intros H. now apply (in_map snd) in H. Qed.
Lemma in_fst {A B} (x : A) (y : B) l : In (x, y) l -> In x (map fst l).
Proof. intros H. now apply (in_map fst) in H. Qed.

(* binding a fresh / recycled alias keeps the invariant *)
Lemma lru_inv_bind cur smax c0 tbl t a :
  cur <= smax -> cur <= 65535 -> len c0 + 1 <= cur ->
  NoDup (map fst c0) -> NoDup (map snd c0) ->
  ~ In t (map fst c0) -> ~ In a (map snd c0) -> 1 <= a <= len c0 + 1 ->
  (forall t' a', In (t', a') c0 -> 1 <= a' <= len c0 + 1 /\ amap_get tbl a' = Some t') ->
  lru_inv cur smax ((t, a) :: c0) (amap_insert tbl a t).
Proof.
  intros H1 H2 H3 H4 H5 H6 H7 H8 H9. unfold lru_inv. rewrite len_cons.
  repeat split; auto; try lia.
  - cbn. constructor; auto.
  - cbn. constructor; auto.
  - destruct H as [H|H]; [inversion H; subst; lia | destruct (H9 _ _ H); lia].
  - destruct H as [H|H]; [inversion H; subst; lia | destruct (H9 _ _ H); lia].
  - rewrite amap_get_insert. destruct H as [H|H].
    + inversion H; subst. now rewrite N.eqb_refl.
    + destruct (a =? a0) eqn:E; [apply N.eqb_eq in E; subst; exfalso; apply H7; eapply in_snd; eauto | now destruct (H9 _ _ H)].
Qed.

Lemma peek_lru_last (c0 : lru) x : lru_peek_lru (c0 ++ [x]) = Some x.
Proof. unfold lru_peek_lru. destruct (c0 ++ [x]) eqn:E; [now destruct c0|]. rewrite <- E. now rewrite last_last. Qed.

Theorem lru_inv_run : forall ops cur conf smax c tbl,
  cur <= conf -> conf <= 65535 -> lru_inv cur smax c tbl ->
  run_check (OLru cur conf c) tbl smax ops = true.
Proof.
  induction ops as [|[mm|al t] ops IH]; intros cur conf smax c tbl Hcc Hconf Hinv; [reflexivity| |].
  - (* reset *)
    cbn. apply IH; auto; [lia|]. unfold lru_inv. rewrite len_nil. repeat split; try lia; try constructor; destruct H.
  - (* resolve *)
    cbn [run_check ores_resolve]. unfold lru_resolve_topic_alias.
    destruct Hinv as (H1 & H2 & H3 & H4 & H5 & H6).
    destruct (cur =? 0) eqn:E0.
    { cbn. apply IH; auto. repeat split; auto; apply (H6 t0 a H). }
    destruct (lru_peek c t) as [a|] eqn:Ep.
    + (* hit: promote *)
      cbn. pose proof (peek_in _ _ _ Ep) as Hin. destruct (H6 _ _ Hin) as [Hr Hg].
      unfold res_ok, server_apply. cbn. rewrite Hg, bytes_eqb_refl.
      replace (1 <=? a) with true by lia. replace (a <=? smax) with true by lia. cbn.
      apply IH; auto. unfold lru_promote. rewrite Ep.
      eapply lru_inv_perm; [apply remove_perm; eauto|]. repeat split; auto; apply (H6 t0 a0 H).
    + (* miss *)
      apply peek_none in Ep.
      destruct (cur <=? len c) eqn:Ef.
      * (* full: recycle the LRU entry's alias *)
        assert (Hlen : len c = cur) by lia.
        assert (Hne : c <> []) by (intros ->; rewrite len_nil in Hlen; lia).
        destruct (exists_last Hne) as (c0 & [tl al'] & ->).
        rewrite peek_lru_last. cbn [obind r_alias r_skip_topic].
        rewrite Hlen, N.eqb_refl. unfold lru_pop_lru. rewrite removelast_last.
        rewrite ?len_app, ?len_cons, ?len_nil in *.
        rewrite ?map_app in *. cbn [map fst snd] in *.
        assert (Hk0 : ~ In t (map fst c0)) by (intros H; apply Ep, in_or_app; auto).
        unfold lru_push. rewrite (proj2 (peek_none c0 t) Hk0).
        assert (Hcap : (len c0 =? lru_capacity conf) = false) by (apply N.eqb_neq; unfold lru_capacity; lia).
        rewrite Hcap.
        apply NoDup_remove in H4 as [H4 _]. rewrite app_nil_r in H4.
        apply NoDup_remove in H5 as [H5 H5']. rewrite app_nil_r in H5, H5'.
        destruct (H6 tl al' ltac:(apply in_or_app; right; left; reflexivity)) as [Hr _].
        unfold res_ok, server_apply. cbn.
        replace (1 <=? al') with true by lia. replace (al' <=? smax) with true by lia. cbn.
        apply IH; auto.
        apply lru_inv_bind; auto; try lia.
        intros t' a' H. destruct (H6 t' a' ltac:(apply in_or_app; left; exact H)). split; [lia|assumption].
      * (* not full: next alias *)
        assert (Hlt : len c < cur) by lia.
        rewrite u16_small by lia. cbn [obind r_alias r_skip_topic].
        replace (len c =? cur) with false by (symmetry; apply N.eqb_neq; lia).
        unfold lru_push. rewrite (proj2 (peek_none c t) Ep).
        assert (Hcap : (len c =? lru_capacity conf) = false) by (apply N.eqb_neq; unfold lru_capacity; lia).
        rewrite Hcap.
        unfold res_ok, server_apply. cbn.
        replace (1 <=? len c + 1) with true by lia. replace (len c + 1 <=? smax) with true by lia. cbn.
        apply IH; auto.
        apply lru_inv_bind; auto; try lia.
        -- intros H. apply in_map_iff in H as ([t' a'] & Ha & Hin). cbn in Ha. subst. destruct (H6 _ _ Hin). lia.
        -- intros t' a' H. destruct (H6 t' a' H). split; [lia|assumption].
Qed.

Theorem lru_run : forall conf ops, conf <= 65535 -> run_check (ores_init (RLru conf)) [] 0 ops = true.
Proof.
  intros conf ops H. apply lru_inv_run; [lia|exact H|].
  unfold lru_inv. change (len (@nil (bytes * N))) with 0.
  split; [lia|]. split; [lia|]. split; [lia|]. split; [constructor|]. split; [constructor|]. intros t a [].
Qed.

(* the panic site is unreachable, as a statement of its own *)
Fixpoint run_states (s : ores) (ops : list aop) : outcome ores :=
  match ops with
  | [] => Ok s
  | AReset m :: rest => run_states (ores_reset s m) rest
  | AResolve a t :: rest => do (s', _) <- ores_resolve s a t; run_states s' rest
  end.

Lemma run_check_no_panic : forall ops s tbl mx, run_check s tbl mx ops = true -> is_ok (run_states s ops) = true.
Proof.
  induction ops as [|[m|a t] ops IH]; intros s tbl mx H; cbn in *; [reflexivity|eauto|].
  destruct (ores_resolve s a t) as [[s' r]| |]; try discriminate. cbn. apply andb_true_iff in H as [_ H]. eauto.
Qed.

(* max = 0 => no alias *)
Lemma res_ok_zero tbl t r : res_ok tbl 0 t r = true -> r_alias r = None.
Proof. unfold res_ok. destruct (r_alias r); [|reflexivity]. intros H. repeat (apply andb_true_iff in H as [H ?]). lia. Qed.
