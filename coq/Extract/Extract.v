(* Extraction of the executable models to OCaml.  ExtrOcamlBasic only (its Extract Inductive
   directives for bool, option, unit, list, prod, sumbool, sumor); no Extract Constant;
   N / positive / Z / nat stay the extracted Coq datatypes.  Output: one OCaml module per Coq
   file, written to the directory coqc is run from (build/ocaml). *)
From Coq Require Import ExtrOcamlBasic.
From GM Require Import Base.Prelude Client.Backoff.
Separate Extraction
  Backoff.init Backoff.step Backoff.run Backoff.waits Backoff.spec_run Backoff.kth_bound
  Backoff.normalize Backoff.cfg_ok Backoff.DMAX Backoff.advance.
