From GM Require Import Base.Prelude Client.Backoff.
Open Scope N_scope.

Lemma NANOS_le_DMAX : NANOS <= DMAX.
Proof. unfold N.le. vm_compute. discriminate. Qed.

Lemma normalize_base_le_max c : c_base (normalize c) <= c_max (normalize c).
Proof.
  unfold normalize.
  destruct (c_max c <? c_base c) eqn:E1; cbn [c_base c_max].
  - destruct (c_base c <? NANOS) eqn:E2; lia.
  - destruct (c_max c <? NANOS) eqn:E2; lia.
Qed.

Lemma normalize_max_le_DMAX c : cfg_ok c = true -> c_max (normalize c) <= DMAX.
Proof.
  unfold cfg_ok, normalize. intros H.
  pose proof NANOS_le_DMAX.
  destruct (c_max c <? c_base c) eqn:E1; cbn [c_base c_max].
  - destruct (c_base c <? NANOS) eqn:E2; lia.
  - destruct (c_max c <? NANOS) eqn:E2; lia.
Qed.

Lemma normalize_max_ge_1s c : NANOS <= c_max (normalize c).
Proof.
  unfold normalize.
  destruct (c_max c <? c_base c) eqn:E1; cbn [c_base c_max].
  - destruct (c_base c <? NANOS) eqn:E2; lia.
  - destruct (c_max c <? NANOS) eqn:E2; lia.
Qed.

Lemma normalize_jit c : c_jit (normalize c) = c_jit c.
Proof. unfold normalize. destruct (c_max c <? c_base c); reflexivity. Qed.

Lemma normalize_stab c : c_stab (normalize c) = c_stab c.
Proof. unfold normalize. destruct (c_max c <? c_base c); reflexivity. Qed.

(* the core arithmetic step: clamp (double_sat (min (b*2^k) m)) = min (b*2^(k+1)) m *)
Lemma clamp_double c k :
  cfg_ok c = true ->
  clamp (normalize c) (double_sat (kth_bound c k)) = kth_bound c (k + 1).
Proof.
  intros Hok. unfold kth_bound, clamp, double_sat. cbv zeta.
  pose proof (normalize_max_le_DMAX c Hok) as Hm.
  set (b := c_base (normalize c)) in *. set (m := c_max (normalize c)) in *.
  replace (2 ^ (k + 1)) with (2 ^ k * 2) by (rewrite N.pow_add_r; reflexivity).
  set (p := 2 ^ k).
  destruct (DMAX <? N.min (b * p) m * 2) eqn:E1.
  - destruct (m <? DMAX) eqn:E2; lia.
  - destruct (m <? N.min (b * p) m * 2) eqn:E2; lia.
Qed.

Lemma kth_bound_0 c : kth_bound c 0 = c_base (normalize c).
Proof.
  unfold kth_bound. cbv zeta. pose proof (normalize_base_le_max c).
  change (2 ^ 0) with 1. lia.
Qed.

Lemma kth_bound_le_max c k : kth_bound c k <= c_max (normalize c).
Proof. unfold kth_bound. cbv zeta. lia. Qed.

Lemma jittered_le p j : jittered p j <= p.
Proof.
  unfold jittered. destruct (p =? 0) eqn:E; [lia|].
  assert (p <> 0) by lia.
  pose proof (N.mod_upper_bound j p H).
  pose proof (N.mod_le (j mod p) (2 ^ 64)). assert (2 ^ 64 <> 0) by (cbv; discriminate).
  specialize (H1 H2). lia.
Qed.

Lemma jittered_lt p j : 0 < p -> jittered p j < p.
Proof.
  intros Hp. unfold jittered. destruct (p =? 0) eqn:E; [lia|].
  assert (p <> 0) by lia.
  pose proof (N.mod_upper_bound j p H).
  pose proof (N.mod_le (j mod p) (2 ^ 64)). assert (2 ^ 64 <> 0) by (cbv; discriminate).
  specialize (H1 H2). lia.
Qed.

(* invariant: the implementation's counter equals the formula's bound for the spec's k *)
Lemma run_spec c :
  cfg_ok c = true ->
  forall h s k,
    s_cfg s = normalize c -> s_next s = kth_bound c k ->
    snd (run s h) = spec_run c k (s_succ s) h.
Proof.
  intros Hok. induction h as [|e h IH]; intros s k Hc Hn; [reflexivity|].
  cbn [run]. destruct e as [j|t|t].
  - (* Wait *)
    cbn [step]. unfold advance. rewrite Hc, normalize_jit.
    set (s' := {| s_cfg := normalize c; s_next := _; s_succ := s_succ s |}).
    assert (IH' : snd (run s' h) = spec_run c (k + 1) (s_succ s') h).
    { apply IH; [reflexivity|]. subst s'. cbn [s_next]. rewrite Hn. apply clamp_double; exact Hok. }
    cbn [spec_run]. destruct (c_jit c).
    + destruct (run s' h) as [s2 o2] eqn:Er. cbn [snd app] in *. rewrite Hn, IH'. reflexivity.
    + destruct (run s' h) as [s2 o2] eqn:Er. cbn [snd app] in *. rewrite Hn, IH'. reflexivity.
  - (* Success *)
    cbn [step spec_run].
    set (s' := {| s_cfg := s_cfg s; s_next := s_next s; s_succ := Some t |}).
    specialize (IH s' k Hc Hn).
    destruct (run s' h) as [s2 o2]. cbn [snd app] in *. exact IH.
  - (* ConnEnd *)
    cbn [step spec_run]. rewrite Hc, normalize_stab.
    destruct (s_succ s) as [t0|].
    + destruct (c_stab c <? t - t0) eqn:E.
      * set (s' := {| s_cfg := normalize c; s_next := c_base (normalize c); s_succ := None |}).
        assert (IH' := IH s' 0 eq_refl (eq_sym (kth_bound_0 c))).
        destruct (run s' h) as [s2 o2]. cbn [snd app] in *. exact IH'.
      * set (s' := {| s_cfg := normalize c; s_next := s_next s; s_succ := None |}).
        assert (IH' := IH s' k eq_refl Hn).
        destruct (run s' h) as [s2 o2]. cbn [snd app] in *. exact IH'.
    + set (s' := {| s_cfg := normalize c; s_next := s_next s; s_succ := None |}).
      assert (IH' := IH s' k eq_refl Hn).
      destruct (run s' h) as [s2 o2]. cbn [snd app] in *. exact IH'.
Qed.

Theorem waits_spec c h : cfg_ok c = true -> waits c h = spec_run c 0 None h.
Proof.
  intros Hok. unfold waits. apply (run_spec c Hok h (init c) 0).
  - reflexivity.
  - unfold init. cbn [s_next]. symmetry. apply kth_bound_0.
Qed.

(* every wait of the spec run is bounded by the effective maximum *)
Lemma spec_run_bounded c : forall h k succ w,
  In w (spec_run c k succ h) -> w <= c_max (normalize c).
Proof.
  induction h as [|e h IH]; intros k succ w Hin; [destruct Hin|].
  destruct e as [j|t|t]; cbn [spec_run] in Hin.
  - destruct Hin as [Hw|Hin]; [|eauto].
    pose proof (kth_bound_le_max c k). pose proof (jittered_le (kth_bound c k) j).
    destruct (c_jit c); lia.
  - eauto.
  - eauto.
Qed.

Theorem waits_bounded c h w : cfg_ok c = true -> In w (waits c h) -> w <= c_max (normalize c).
Proof. intros Hok. rewrite waits_spec by exact Hok. apply spec_run_bounded. Qed.

(* computing a wait is total: [advance] is a total function whose intermediate values stay
   below Duration::MAX (no overflow of Duration * 2, no empty jitter range) *)
Lemma double_sat_le d : double_sat d <= DMAX.
Proof. unfold double_sat. destruct (DMAX <? d * 2) eqn:E; lia. Qed.

(* no-jitter closed form for k consecutive failures from the start *)

Lemma spec_run_n_waits c : c_jit c = JNone -> forall n k succ,
  spec_run c k succ (n_waits n) = map (fun i => kth_bound c (k + N.of_nat i)) (seq 0 n).
Proof.
  intros Hj. induction n as [|n IH]; intros k succ; [reflexivity|].
  cbn [n_waits spec_run seq map]. rewrite Hj. f_equal.
  - f_equal. lia.
  - rewrite IH. rewrite <- seq_shift, map_map. apply map_ext. intros i. f_equal. lia.
Qed.

Theorem kth_wait_formula c n : cfg_ok c = true -> c_jit c = JNone ->
  waits c (n_waits n) = map (fun i => kth_bound c (N.of_nat i)) (seq 0 n).
Proof.
  intros Hok Hj. rewrite waits_spec by exact Hok. rewrite spec_run_n_waits by exact Hj.
  apply map_ext. intros i. f_equal.
Qed.
