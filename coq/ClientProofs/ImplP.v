(* Proofs about the client implementation model (Client/Impl.v): the exhaustive transition-table
   theorem, and the invariant that ties the implementation's state to the lifecycle grammar and
   to the engine's state tag.  The engine is abstract; the facts used about it are exactly the
   Section hypotheses H_* below, phrased with the executable predicates fact_* of Impl.v. *)
From GM Require Import Base.Prelude Base.Outcome Client.Backoff Client.Impl Client.Driver.
Open Scope N_scope.

(* ---- the 5 x 5 x 3 table ---- *)
Lemma cost_table_spec :
  forallb (fun '(c, d, s) => match cost c d s, cost_spec c d s with
                             | None, None => true
                             | Some a, Some b => cstate_eqb a b
                             | _, _ => false end) cost_domain = true.
Proof. vm_compute. reflexivity. Qed.

Lemma cost_is_spec c d s : cost c d s = cost_spec c d s.
Proof. destruct c, d, s; reflexivity. Qed.

Lemma cost_domain_length : length cost_domain = 75%nat.
Proof. reflexivity. Qed.

Lemma cost_domain_complete c d s : In (c, d, s) cost_domain.
Proof.
  unfold cost_domain. apply in_flat_map. exists c. split; [destruct c; cbn; tauto|].
  apply in_flat_map. exists d. split; [destruct d; cbn; tauto|].
  apply (in_map (fun s0 => (c, d, s0))). destruct s; cbn; tauto.
Qed.

(* transitions the drivers request: process_* results and compute_optional_state_transition *)
Definition legal (old target : cstate) : bool :=
  match old, target with
  | CStopped, (CConnecting | CShutdown)
  | CConnecting, (CConnected | CPendingReconnect | CStopped)
  | CConnected, (CPendingReconnect | CStopped)
  | CPendingReconnect, (CConnecting | CStopped) => true
  | _, _ => false
  end.

Lemma cost_legal c d s t : cost c d s = Some t -> legal c t = true.
Proof. destruct c, d, s; cbn; intros H; inversion H; reflexivity. Qed.

Lemma cstate_eqb_eq a b : cstate_eqb a b = true <-> a = b.
Proof. destruct a, b; cbn; split; intros H; try reflexivity; try discriminate. Qed.
Lemma etag_eqb_eq a b : etag_eqb a b = true <-> a = b.
Proof. destruct a, b; cbn; split; intros H; try reflexivity; try discriminate. Qed.

Lemma gphase_of_app l evs : gphase_of (l ++ evs) = fold_left gstep evs (gphase_of l).
Proof. unfold gphase_of. apply fold_left_app. Qed.

Lemma gstep_none evs : fold_left gstep evs None = None.
Proof. induction evs; cbn; auto. Qed.

Section Facts.

  Variable E U D : Type.
  Variable e_tag : E -> etag.
  Variable e_user : E -> N -> U -> E.
  Variable e_disc : E -> N -> D -> E.
  Variable e_reset : E -> N -> E.
  Variable e_opened : E -> N -> N -> E * outcome unit.
  Variable e_closed : E -> N -> E * outcome unit.
  Variable e_data : E -> N -> bytes -> E * list pevent * outcome unit.
  Variable e_wc : E -> N -> E * outcome unit.
  Variable e_service : E -> N -> N -> E * bytes * outcome unit.
  Variable e_nst : E -> N -> option N.

  (* ---- an invariant of the engine states (what "reachable / well-formed" means for this engine) that every entry
     point preserves, and the clock values at which the engine may be serviced ---- *)
  Variable I : E -> Prop.
  Variable T : N -> Prop.
  Hypothesis I_user : forall e now u, I e -> I (e_user e now u).
  Hypothesis I_disc : forall e now d, I e -> I (e_disc e now d).
  Hypothesis I_reset : forall e now, I e -> I (e_reset e now).
  Hypothesis I_opened : forall e now dl, I e -> I (fst (e_opened e now dl)).
  Hypothesis I_closed : forall e now, I e -> I (fst (e_closed e now)).
  Hypothesis I_data : forall e now b, I e -> I (fst (fst (e_data e now b))).
  Hypothesis I_wc : forall e now, I e -> I (fst (e_wc e now)).
  Hypothesis I_service : forall e now f, I e -> T now -> I (fst (fst (e_service e now f))).

  (* ---- the engine facts the lifecycle theorems rely on, required of the states satisfying the invariant ---- *)
  Hypothesis H_user : forall e now u, I e -> fact_user (e_tag e) (e_tag (e_user e now u)) = true.
  Hypothesis H_disc : forall e now d, I e -> fact_user (e_tag e) (e_tag (e_disc e now d)) = true.
  Hypothesis H_reset : forall e now, I e -> fact_user (e_tag e) (e_tag (e_reset e now)) = true.
  Hypothesis H_opened : forall e now dl, I e ->
    fact_opened (e_tag e) (is_ok (snd (e_opened e now dl))) (e_tag (fst (e_opened e now dl))) = true.
  Hypothesis H_closed : forall e now, I e ->
    fact_closed (e_tag e) (is_ok (snd (e_closed e now))) (e_tag (fst (e_closed e now))) = true.
  Hypothesis H_data : forall e now b, I e ->
    fact_data (e_tag e) (snd (fst (e_data e now b))) (e_tag (fst (fst (e_data e now b)))) = true.
  Hypothesis H_wc : forall e now, I e -> fact_other (e_tag e) (e_tag (fst (e_wc e now))) = true.
  Hypothesis H_service : forall e now f, I e -> T now -> fact_other (e_tag e) (e_tag (fst (fst (e_service e now f)))) = true.

  Notation st := (Impl.st E).
  Notation transition := (Impl.transition E e_opened e_closed).
  Notation handle_op := (Impl.handle_op E U D e_tag e_user e_disc e_reset).

  Definition tag (c : st) : etag := e_tag (c_eng c).

  Definition tagok (c : st) : Prop :=
    (c_cur c = CConnected -> tag c <> TDisconnected) /\ (c_cur c <> CConnected -> tag c = TDisconnected).

  Definition link (c : st) (ph : gphase) : Prop :=
    match c_cur c with
    | CStopped | CPendingReconnect | CShutdown => ph = GIdle
    | CConnecting => ph = GAttempting /\ c_connack c = None
    | CConnected =>
        match c_connack c with
        | Some true => ph = GUp /\ tag c <> TPendingConnack
        | _ => ph = GAttempting
        end
    end.

  Definition cinv (c : st) (log : list cev) : Prop :=
    I (c_eng c) /\ tagok c /\ exists ph, gphase_of log = Some ph /\ link c ph.

  Lemma fact_user_inv tb ta :
    fact_user tb ta = true ->
    (tb = TDisconnected -> ta = TDisconnected) /\ (tb <> TDisconnected -> ta <> TDisconnected) /\
    (tb <> TPendingConnack -> ta <> TPendingConnack).
  Proof. destruct tb, ta; cbn; intros H; try discriminate; repeat split; intros; congruence. Qed.

  Lemma fact_other_inv tb ta :
    fact_other tb ta = true ->
    (tb <> TDisconnected -> ta <> TDisconnected) /\ (tb <> TPendingConnack -> ta <> TPendingConnack).
  Proof. destruct tb, ta; cbn; intros H; try discriminate; repeat split; intros; congruence. Qed.

  (* ---- operations preserve the invariant ---- *)
  Lemma apply_error_fields (c : st) k :
    c_eng (apply_error c k) = c_eng c /\ c_cur (apply_error c k) = c_cur c /\ c_des (apply_error c k) = c_des c /\
    c_stop (apply_error c k) = c_stop c /\ c_connack (apply_error c k) = c_connack c.
  Proof. unfold apply_error. destruct (c_err c); cbn; auto. Qed.

  Lemma cinv_apply_error c log k : cinv c log -> cinv (apply_error c k) log.
  Proof.
    destruct (apply_error_fields c k) as (He & Hc & _ & _ & Hk).
    unfold cinv, tagok, link, tag. rewrite He, Hc, Hk. auto.
  Qed.

  Lemma cinv_engine_step c log e' :
    cinv c log -> I e' ->
    (tag c = TDisconnected -> e_tag e' = TDisconnected) ->
    (tag c <> TDisconnected -> e_tag e' <> TDisconnected) ->
    (tag c <> TPendingConnack -> e_tag e' <> TPendingConnack) ->
    cinv (set_eng c e') log.
  Proof.
    intros (HI & [T1 T2] & (ph & Hp & Hl)) Ie A B C. split; [exact Ie|]. split.
    - split; cbn; intros Hc; unfold tag in *; cbn.
      + apply B, T1, Hc.
      + apply A, T2, Hc.
    - exists ph. split; [exact Hp|]. unfold link in *. cbn. destruct (c_cur c); auto.
      destruct (c_connack c) as [[|]|]; auto. destruct Hl as [Hl1 Hl2]. split; auto.
  Qed.

  (* the invariant only looks at the engine, the current state and last_connack *)
  Lemma cinv_same c c' log :
    c_eng c' = c_eng c -> c_cur c' = c_cur c -> c_connack c' = c_connack c -> cinv c log -> cinv c' log.
  Proof.
    intros He Hc Hk. unfold cinv, tagok, link, tag. rewrite He, Hc, Hk. auto.
  Qed.

  Lemma cinv_handle_op c log now o : cinv c log -> cinv (handle_op c now o) log.
  Proof.
    intros H. pose proof (proj1 H) as HI. destruct o as [u| |d| |]; cbn.
    - destruct (fact_user_inv _ _ (H_user (c_eng c) now u HI)) as (A & B & C).
      apply cinv_engine_step; auto.
    - eapply cinv_same; [| | |exact H]; reflexivity.
    - assert (Hs : cinv (match d with Some pkt => set_eng c (e_disc (c_eng c) now pkt) | None => c end) log).
      { destruct d as [pkt|]; auto.
        destruct (fact_user_inv _ _ (H_disc (c_eng c) now pkt HI)) as (A & B & C).
        apply cinv_engine_step; auto. }
      set (c1 := match d with Some pkt => set_eng c (e_disc (c_eng c) now pkt) | None => c end) in *.
      set (c2 := set_stop c1 _).
      assert (H2 : cinv c2 log) by (eapply cinv_same; [| | |exact Hs]; reflexivity).
      pose proof (cinv_apply_error c2 log EUserInitiatedDisconnect H2) as H3.
      eapply cinv_same; [| | |exact H3]; reflexivity.
    - destruct (fact_user_inv _ _ (H_reset (c_eng c) now HI)) as (A & B & C).
      pose proof (cinv_engine_step c log (e_reset (c_eng c) now) H (I_reset _ now HI) A B C) as H1.
      eapply cinv_same; [| | |exact H1]; reflexivity.
    - exact H.
  Qed.

  (* fix d52fbbc: a stop request leaves the client waiting for a DISCONNECT only if a connection is established *)
  Lemma stop_request_shape c log now d :
    cinv c log -> c_stop (handle_op c now (OpStop d)) = SDisc ->
    c_cur (handle_op c now (OpStop d)) = CConnected /\ tag (handle_op c now (OpStop d)) = TConnected.
  Proof.
    intros Hi Hs. pose proof (cinv_handle_op c log now (OpStop d) Hi) as (_ & [T1 T2] & _).
    assert (Ht : tag (handle_op c now (OpStop d)) = TConnected).
    { revert Hs. unfold tag. cbn [Impl.handle_op].
      set (c1 := match d with Some pkt => set_eng c (e_disc (c_eng c) now pkt) | None => c end).
      match goal with |- context [apply_error ?x ?k] => destruct (apply_error_fields x k) as (He & _ & _ & Hst & _) end.
      cbn [c_stop c_eng set_des]. rewrite Hst, He. cbn [c_stop c_eng set_stop].
      destruct d as [pkt|]; [|discriminate].
      destruct (etag_eqb (e_tag (c_eng c1)) TConnected) eqn:Eq; [|discriminate].
      intros _. apply etag_eqb_eq in Eq. exact Eq. }
    split; [|exact Ht].
    destruct (c_cur (handle_op c now (OpStop d))) eqn:Hc; auto;
      (assert (Hx : tag (handle_op c now (OpStop d)) = TDisconnected) by (apply T2; congruence); congruence).
  Qed.

  (* ---- transition_to_state on the transitions the drivers request ---- *)
  Lemma fact_opened_inv tb ok ta :
    fact_opened tb ok ta = true -> tb = TDisconnected -> ok = true /\ ta = TPendingConnack.
  Proof. intros H ->. cbn in H. apply andb_prop in H. destruct H as [H1 H2]. apply etag_eqb_eq in H2. auto. Qed.
  Lemma fact_closed_inv tb ok ta :
    fact_closed tb ok ta = true -> tb <> TDisconnected -> ok = true /\ ta = TDisconnected.
  Proof.
    intros H Hn. unfold fact_closed in H. destruct (etag_eqb tb TDisconnected) eqn:Eq.
    - apply etag_eqb_eq in Eq. contradiction.
    - apply andb_prop in H. destruct H as [H1 H2]. apply etag_eqb_eq in H2. auto.
  Qed.

  Lemma is_ok_true {A} (o : outcome A) : is_ok o = true -> exists a, o = Ok a.
  Proof. destruct o; cbn; intros H; try discriminate. eauto. Qed.

  Definition transition_good (c : st) (log : list cev) (now : N) (t : cstate) : Prop :=
    match transition c now t with
    | (c', evs, Ok _) => cinv c' (log ++ evs) /\ c_des c' = c_des c /\ c_cur c' = effective_target c t
    | (_, _, Err _) => False
    | (_, evs, Panic _) => evs = [] /\ effective_target c t = CConnected
    end.

  Ltac solve_link :=
    repeat match goal with
    | H : _ /\ _ |- _ => destruct H
    | |- _ /\ _ => split
    | |- exists _, _ => eexists
    end; cbn in *; subst; try reflexivity; try congruence; auto.

  Lemma transition_ok c log now t :
    cinv c log -> legal (c_cur c) t = true -> transition_good c log now t.
  Proof.
    intros (HI & [T1 T2] & (ph & Hp & Hl)) Hleg.
    unfold transition_good, Impl.transition.
    destruct (c_cur c) eqn:Hcur; destruct t; cbn in Hleg; try discriminate; cbn [cstate_eqb];
      unfold effective_target; cbn [cstate_eqb andb negb]; unfold link in Hl; rewrite Hcur in Hl.
    - (* Stopped -> Connecting *)
      cbn. unfold cinv, tagok, link, tag. cbn. rewrite gphase_of_app, Hp. subst ph. cbn.
      repeat split; auto; try congruence.
      + intros _. apply T2. congruence.
      + eexists; split; [reflexivity|]. cbn. auto.
    - (* Stopped -> Shutdown *)
      cbn. unfold cinv, tagok, link, tag. cbn. rewrite app_nil_r.
      repeat split; auto; try congruence.
      + intros _. apply T2. congruence.
      + exists ph. auto.
    - (* Connecting -> Stopped (maybe Shutdown) *)
      destruct Hl as [Hl1 Hl2]. subst ph.
      destruct (cstate_eqb (c_des c) CShutdown) eqn:Hd; cbn; unfold cinv, tagok, link, tag; cbn;
        rewrite gphase_of_app, Hp; cbn; repeat split; auto; try congruence;
        try (intros _; apply T2; congruence); eexists; split; reflexivity.
    - (* Connecting -> Connected *)
      destruct Hl as [Hl1 Hl2]. subst ph. cbn.
      destruct (c_start c) as [t0|]; [|split; reflexivity].
      destruct (add_saturating 981 t0 (c_timeout c)) as [dl|k|site] eqn:Hadd; [| |split; reflexivity].
      2:{ unfold add_saturating, add_instant in Hadd. repeat match type of Hadd with context [if ?b then _ else _] => destruct b end; discriminate. }
      pose proof (H_opened (c_eng c) now dl HI) as Ho. pose proof (I_opened (c_eng c) now dl HI) as Io.
      destruct (e_opened (c_eng c) now dl) as [e' r]. cbn in Ho, Io.
      assert (Htd : e_tag (c_eng c) = TDisconnected) by (apply T2; congruence).
      destruct (fact_opened_inv _ _ _ Ho Htd) as [Hok Hta].
      apply is_ok_true in Hok. destruct Hok as [[] ->]. cbn.
      unfold cinv, tagok, link, tag. cbn. rewrite app_nil_r, Hl2.
      repeat split; auto; try congruence. exists GAttempting. auto.
    - (* Connecting -> PendingReconnect (short-circuits) *)
      destruct Hl as [Hl1 Hl2]. subst ph.
      destruct (cstate_eqb (c_des c) CConnected) eqn:Hd1; cbn [negb andb cstate_eqb].
      + cbn. unfold cinv, tagok, link, tag; cbn. rewrite gphase_of_app, Hp; cbn.
        repeat split; auto; try congruence; try (intros _; apply T2; congruence). eexists; split; reflexivity.
      + destruct (cstate_eqb (c_des c) CShutdown) eqn:Hd; cbn; unfold cinv, tagok, link, tag; cbn;
          rewrite gphase_of_app, Hp; cbn; repeat split; auto; try congruence;
          try (intros _; apply T2; congruence); eexists; split; reflexivity.
    - (* Connected -> Stopped (maybe Shutdown) *)
      assert (Hnd : e_tag (c_eng c) <> TDisconnected) by (apply T1; reflexivity).
      pose proof (H_closed (c_eng c) now HI) as Hc. pose proof (I_closed (c_eng c) now HI) as Ic.
      destruct (cstate_eqb (c_des c) CShutdown) eqn:Hd; cbn [cstate_eqb andb negb];
        destruct (e_closed (c_eng c) now) as [e' r]; cbn in Hc, Ic;
        destruct (fact_closed_inv _ _ _ Hc Hnd) as [Hok Hta];
        apply is_ok_true in Hok; destruct Hok as [[] ->]; cbn;
        destruct (c_connack c) as [[|]|]; cbn; unfold cinv, tagok, link, tag; cbn;
        rewrite gphase_of_app, Hp; match type of Hl with _ /\ _ => destruct Hl as [Hl _] | _ => idtac end; subst ph; cbn;
        repeat split; auto; try congruence; eexists; split; reflexivity.
    - (* Connected -> PendingReconnect (short-circuits) *)
      assert (Hnd : e_tag (c_eng c) <> TDisconnected) by (apply T1; reflexivity).
      pose proof (H_closed (c_eng c) now HI) as Hc. pose proof (I_closed (c_eng c) now HI) as Ic.
      destruct (cstate_eqb (c_des c) CConnected) eqn:Hd1; cbn [negb andb cstate_eqb];
        [| destruct (cstate_eqb (c_des c) CShutdown) eqn:Hd; cbn [cstate_eqb andb negb] ];
        destruct (e_closed (c_eng c) now) as [e' r]; cbn in Hc, Ic;
        destruct (fact_closed_inv _ _ _ Hc Hnd) as [Hok Hta];
        apply is_ok_true in Hok; destruct Hok as [[] ->]; cbn;
        destruct (c_connack c) as [[|]|]; cbn; unfold cinv, tagok, link, tag; cbn;
        rewrite gphase_of_app, Hp; match type of Hl with _ /\ _ => destruct Hl as [Hl _] | _ => idtac end; subst ph; cbn;
        repeat split; auto; try congruence; eexists; split; reflexivity.
    - (* PendingReconnect -> Stopped (maybe Shutdown) *)
      subst ph.
      destruct (cstate_eqb (c_des c) CShutdown) eqn:Hd; cbn; unfold cinv, tagok, link, tag; cbn;
        rewrite gphase_of_app, Hp; cbn; repeat split; auto; try congruence;
        try (intros _; apply T2; congruence); eexists; split; reflexivity.
    - (* PendingReconnect -> Connecting *)
      subst ph. cbn. unfold cinv, tagok, link, tag. cbn. rewrite gphase_of_app, Hp. cbn.
      repeat split; auto; try congruence.
      + intros _. apply T2. congruence.
      + eexists; split; [reflexivity|]. cbn. auto.
  Qed.

  (* ---- packet-event dispatch ---- *)
  Notation dispatch := (Impl.dispatch E).

  Lemma dispatch_app c now evs0 pes :
    fold_left (dispatch1 E now) pes (c, evs0) =
    (fst (dispatch c now pes), evs0 ++ snd (dispatch c now pes)).
  Proof.
    unfold Impl.dispatch. revert c evs0. induction pes as [|p pes IH]; intros c evs0; cbn.
    - rewrite app_nil_r. reflexivity.
    - destruct p as [| |[|]]; cbn; rewrite IH; symmetry; rewrite IH; cbn; rewrite <- ?app_assoc; reflexivity.
  Qed.

  (* dispatch touches only last_connack / last_disconnect / back-off; emits Publish / Success *)
  Lemma dispatch_cons c now p pes :
    dispatch c now (p :: pes) =
    (fst (dispatch (fst (dispatch1 E now (c, []) p)) now pes),
     snd (dispatch1 E now (c, []) p) ++ snd (dispatch (fst (dispatch1 E now (c, []) p)) now pes)).
  Proof.
    unfold Impl.dispatch at 1. cbn [fold_left].
    destruct (dispatch1 E now (c, []) p) as [c1 e1] eqn:Hd. rewrite dispatch_app. reflexivity.
  Qed.

  Lemma dispatch_fields now pes : forall c,
    let c' := fst (dispatch c now pes) in
    c_eng c' = c_eng c /\ c_cur c' = c_cur c /\ c_des c' = c_des c /\ c_stop c' = c_stop c.
  Proof.
    induction pes as [|p pes IH]; intros c; cbn zeta.
    - cbn. auto.
    - rewrite dispatch_cons. cbn [fst].
      specialize (IH (fst (dispatch1 E now (c, []) p))). cbn zeta in IH.
      destruct IH as (A & B & C & F). rewrite A, B, C, F.
      destruct p as [| |[|]]; cbn; auto.
  Qed.

  Lemma count_connacks_cons p pes :
    count_connacks (p :: pes) = ((if is_connack p then 1 else 0) + count_connacks pes)%nat.
  Proof. unfold count_connacks. cbn. destruct (is_connack p); reflexivity. Qed.

  (* the invariant across dispatch, for a Connected client whose engine tag is already the one
     after the IncomingData call: [aw] says whether the engine was awaiting the CONNACK before *)
  Lemma cinv_dispatch pes : forall c log now (aw : bool),
    c_cur c = CConnected ->
    cinv c log ->
    (count_connacks pes <= 1)%nat ->
    (aw = false -> count_connacks pes = 0%nat) ->
    (c_connack c = Some true -> aw = false) ->
    (existsb is_success pes = true -> tag c <> TPendingConnack) ->
    cinv (fst (dispatch c now pes)) (log ++ snd (dispatch c now pes)).
  Proof.
    induction pes as [|p pes IH]; intros c log now aw Hcur Hinv Hle Haw Hup Hsucc.
    - cbn. rewrite app_nil_r. exact Hinv.
    - rewrite dispatch_cons. rewrite count_connacks_cons in Hle, Haw.
      assert (Hsucc' : existsb is_success pes = true -> tag c <> TPendingConnack).
      { intros Hx. apply Hsucc. cbn. rewrite Hx. apply orb_true_r. }
      destruct p as [| |ok].
      + (* publish *)
        cbn [dispatch1 fst snd]. rewrite app_assoc.
        apply (IH c (log ++ [EvPublish]) now aw); auto.
        destruct Hinv as (HI & Tg & (ph & Hp & Hl)). split; [exact HI|]. split; auto. exists ph. split; auto.
        rewrite gphase_of_app, Hp. reflexivity.
      + (* disconnect *)
        cbn [dispatch1 fst snd].
        apply (IH (set_disc c true) log now aw); auto.
      + (* connack *)
        cbn [is_connack] in Hle, Haw.
        assert (Hz : count_connacks pes = 0%nat) by lia.
        assert (Hawt : aw = true) by (destruct aw; auto; specialize (Haw eq_refl); lia).
        assert (Hnup : c_connack c <> Some true) by (intros Hx; apply Hup in Hx; congruence).
        destruct Hinv as (HI & [T1 T2] & (ph & Hp & Hl)).
        unfold link in Hl. rewrite Hcur in Hl.
        assert (Hph : ph = GAttempting) by (destruct (c_connack c) as [[|]|]; auto; congruence).
        subst ph.
        destruct ok; cbn [dispatch1 fst snd].
        * rewrite app_assoc.
          match goal with |- context [dispatch ?x now pes] => set (c1 := x) end.
          apply (IH c1 (log ++ [EvSuccess]) now false); auto; try lia.
          split; [exact HI|]. split; [split; cbn; auto|]. exists GUp. split.
          -- rewrite gphase_of_app, Hp. reflexivity.
          -- unfold link. cbn. rewrite Hcur. split; auto; try (apply Hsucc; reflexivity).
        * match goal with |- context [dispatch ?x now pes] => set (c1 := x) end.
          apply (IH c1 log now false); auto; try lia; try (cbn; congruence).
          split; [exact HI|]. split; [split; cbn; auto|]. exists GAttempting. split; auto.
          unfold link. cbn. rewrite Hcur. reflexivity.
  Qed.

  Lemma fact_data_inv tb pes ta :
    fact_data tb pes ta = true ->
    fact_other tb ta = true /\ (count_connacks pes <= 1)%nat /\
    (tb <> TPendingConnack -> count_connacks pes = 0%nat) /\
    (existsb is_success pes = true -> ta <> TPendingConnack).
  Proof.
    unfold fact_data. intros H.
    apply andb_prop in H. destruct H as [H H4]. apply andb_prop in H. destruct H as [H H3].
    apply andb_prop in H. destruct H as [H1 H2].
    repeat split; auto.
    - apply Nat.leb_le. exact H2.
    - intros Hn. apply orb_prop in H3. destruct H3 as [H3|H3].
      + apply etag_eqb_eq in H3. contradiction.
      + apply Nat.eqb_eq. exact H3.
    - intros Hs. rewrite Hs in H4. cbn in H4. intros Ht. rewrite Ht in H4. cbn in H4. discriminate.
  Qed.

  Lemma cinv_incoming c log now data :
    c_cur c = CConnected -> cinv c log ->
    match Impl.handle_incoming_bytes E e_data c now data with
    | (c', evs, _) => cinv c' (log ++ evs) /\ c_cur c' = CConnected /\ c_des c' = c_des c /\ c_stop c' = c_stop c
    end.
  Proof.
    intros Hcur Hinv. unfold Impl.handle_incoming_bytes.
    pose proof (proj1 Hinv) as HI.
    pose proof (H_data (c_eng c) now data HI) as Hd. pose proof (I_data (c_eng c) now data HI) as Id.
    destruct (e_data (c_eng c) now data) as [[e' pes] r]. cbn in Hd, Id.
    destruct (fact_data_inv _ _ _ Hd) as (Ho & Hle & Hnp & Hsu).
    destruct (fact_other_inv _ _ Ho) as (B & C).
    pose proof (dispatch_fields now pes (set_eng c e')) as Hf. cbn in Hf.
    destruct (dispatch (set_eng c e') now pes) as [c1 evs] eqn:Hdisp. cbn in Hf.
    destruct Hf as (F1 & F2 & F3 & F4).
    split; [|rewrite F2, F3, F4; auto].
    pose proof (cinv_dispatch pes (set_eng c e') log now
                  (etag_eqb (e_tag (c_eng c)) TPendingConnack)) as Hx.
    rewrite Hdisp in Hx. cbn in Hx. apply Hx; auto.
    - destruct Hinv as (_ & [T1 T2] & (ph & Hp & Hl)). split; [exact Id|]. split.
      + split; cbn; intros Hc; unfold tag; cbn; [apply B, T1, Hc | congruence].
      + exists ph. split; auto. unfold link in *. cbn. rewrite Hcur in *.
        destruct (c_connack c) as [[|]|]; auto. destruct Hl as [Hl1 Hl2]. split; auto.
    - intros Hf. apply Hnp. intros Ht. rewrite Ht in Hf. cbn in Hf. discriminate.
    - intros Hk. destruct Hinv as (_ & _ & (ph & Hp & Hl)). unfold link in Hl. rewrite Hcur, Hk in Hl.
      destruct Hl as [_ Hl]. destruct (etag_eqb (e_tag (c_eng c)) TPendingConnack) eqn:Eq; auto.
      apply etag_eqb_eq in Eq. contradiction.
  Qed.


  (* ================= the event loop (Client/Driver.v) ================= *)
  Variable thr : bool.
  Notation dstate := (Driver.dstate E).
  Notation dstep := (Driver.dstep E U D e_tag e_user e_disc e_reset e_opened e_closed e_data e_wc e_service e_nst thr).
  Notation drun := (Driver.drun E U D e_tag e_user e_disc e_reset e_opened e_closed e_data e_wc e_service e_nst thr).
  Notation leave := (Driver.leave E e_opened e_closed thr).
  Notation enter := (Driver.enter E thr).
  Notation check := (Driver.check E e_opened e_closed thr).
  Notation after_event := (Driver.after_event E e_opened e_closed thr).
  Notation fail_with := (Driver.fail_with E e_opened e_closed thr).
  Notation do_op := (Driver.do_op E U D e_tag e_user e_disc e_reset e_opened e_closed thr).
  Notation step_connected := (Driver.step_connected E U D e_tag e_user e_disc e_reset e_opened e_closed e_data e_wc e_service e_nst thr).

  (* the loop invariant: the log is grammatical, the loop did not die of a failed transition, and
     while it runs the implementation invariant holds and the current state is not Shutdown *)
  Definition dinv (s : dstate) : Prop :=
    gphase_of (d_log s) <> None /\ d_status s <> Dead /\
    (d_status s = Running -> cinv (d_c s) (d_log s) /\ cur s <> CShutdown).

  Lemma cinv_gram c log : cinv c log -> gphase_of log <> None.
  Proof. intros (_ & _ & (ph & Hp & _)). congruence. Qed.

  Lemma dinv_ext (s s' : dstate) :
    d_c s' = d_c s -> d_log s' = d_log s -> d_status s' = d_status s -> dinv s -> dinv s'.
  Proof. unfold dinv, cur. intros -> -> ->. auto. Qed.

  Lemma dinv_running (s : dstate) :
    d_status s = Running -> cinv (d_c s) (d_log s) -> cur s <> CShutdown -> dinv s.
  Proof. intros Hs Hc Hn. split; [eapply cinv_gram; eauto|]. split; [congruence|]. auto. Qed.

  Lemma dinv_stopped_loop (s : dstate) :
    (d_status s = Exited \/ d_status s = Panicked) -> gphase_of (d_log s) <> None -> dinv s.
  Proof. intros Hs Hg. split; auto. split; [destruct Hs; congruence|]. intros Hr. destruct Hs; congruence. Qed.

  Lemma enter_fields (s : dstate) now old :
    d_log (enter s now old) = d_log s /\
    c_eng (d_c (enter s now old)) = c_eng (d_c s) /\ c_cur (d_c (enter s now old)) = c_cur (d_c s) /\
    c_connack (d_c (enter s now old)) = c_connack (d_c s) /\
    c_des (d_c (enter s now old)) = c_des (d_c s) /\ c_stop (d_c (enter s now old)) = c_stop (d_c s) /\
    (d_status (enter s now old) = d_status s \/ d_status (enter s now old) = Panicked \/
     (d_status (enter s now old) = Exited /\ cur s = CShutdown)).
  Proof.
    unfold Driver.enter, cur. cbn. destruct (c_cur (d_c s)) eqn:Hc; cbn.
    - rewrite Hc. auto 10.
    - destruct thr; [destruct (add_saturating 92 now (c_timeout (d_c s)))|]; cbn; rewrite ?Hc; auto 10.
    - rewrite Hc. auto 10.
    - unfold advance_reconnect_period. cbn. destruct (advance (c_bo (d_c s)) now) as [b w]. cbn.
      destruct thr; [destruct (add_saturating 333 now w)|]; cbn; rewrite ?Hc; auto 10.
    - rewrite Hc. auto 10.
  Qed.

  Lemma dinv_enter (s : dstate) now old : dinv s -> dinv (enter s now old).
  Proof.
    intros (Hg & Hd & Hr).
    destruct (enter_fields s now old) as (L & Fe & Fc & Fk & _ & _ & Hst).
    destruct Hst as [Hst|[Hst|[Hst Hcs]]].
    - split; [rewrite L; auto|]. split; [rewrite Hst; auto|]. rewrite Hst. intros Hrun.
      destruct (Hr Hrun) as [Hc Hn]. split.
      + rewrite L. eapply cinv_same; [| | |exact Hc]; auto.
      + unfold cur in *. rewrite Fc. auto.
    - apply dinv_stopped_loop; auto. rewrite L. auto.
    - apply dinv_stopped_loop; auto. rewrite L. auto.
  Qed.

  Lemma dinv_set_status_end (s : dstate) x :
    (x = Exited \/ x = Panicked) -> gphase_of (d_log s) <> None -> dinv (set_status E s x).
  Proof. intros Hx Hg. apply dinv_stopped_loop; cbn; auto. Qed.

  Lemma dinv_leave (s : dstate) now t :
    dinv s -> d_status s = Running -> legal (cur s) t = true -> dinv (leave s now t).
  Proof.
    intros (Hg & Hd & Hr) Hrun Hleg. destruct (Hr Hrun) as [Hc Hn].
    pose proof (transition_ok (d_c s) (d_log s) now t Hc Hleg) as Ht.
    unfold transition_good in Ht. unfold Driver.leave.
    destruct (transition (d_c s) now t) as [[c' evs] [[]|k|site]].
    - destruct Ht as (Hc' & Hdes & Hcur).
      assert (Hup : dinv (upd_c E s c' evs) \/ c_cur c' = CShutdown).
      { destruct (cstate_eqb (c_cur c') CShutdown) eqn:Hs.
        - right. apply cstate_eqb_eq. exact Hs.
        - left. apply dinv_running; cbn; auto. unfold cur. cbn. intros Hx. rewrite Hx in Hs. discriminate. }
      assert (Hg' : gphase_of (d_log s ++ evs) <> None) by (eapply cinv_gram; eauto).
      destruct (cstate_eqb t CShutdown) eqn:Hts.
      + apply dinv_stopped_loop; cbn; auto.
        destruct (enter_fields (upd_c E s c' evs) now (cur s)) as (L & _). rewrite L. cbn. exact Hg'.
      + destruct (cstate_eqb (cur s) (c_cur c')) eqn:Hsame.
        * destruct Hup as [Hup|Hup]; auto.
          apply cstate_eqb_eq in Hsame. unfold cur in *. congruence.
        * destruct Hup as [Hup|Hup]; [apply dinv_enter; exact Hup|].
          (* reached Shutdown through the short-circuit: enter marks the loop Exited *)
          apply dinv_stopped_loop.
          -- unfold Driver.enter. cbn. unfold cur. cbn. rewrite Hup. cbn. auto.
          -- destruct (enter_fields (upd_c E s c' evs) now (cur s)) as (L & _). rewrite L. cbn. exact Hg'.
    - contradiction.
    - apply dinv_stopped_loop; cbn; auto.
      (* a panicking transition emitted nothing *)
      destruct Ht as [-> _]. rewrite app_nil_r. exact Hg.
  Qed.


  Lemma dinv_upd (s : dstate) c' evs :
    d_status s = Running -> cinv c' (d_log s ++ evs) -> c_cur c' <> CShutdown -> dinv (upd_c E s c' evs).
  Proof. intros. apply dinv_running; cbn; auto. Qed.

  Lemma dinv_check (s : dstate) now : dinv s -> d_status s = Running -> dinv (check s now).
  Proof.
    intros Hi Hrun. unfold Driver.check.
    destruct (compute_optional_state_transition (d_c s)) as [t|] eqn:Hc.
    - apply dinv_leave; auto. unfold compute_optional_state_transition in Hc. eapply cost_legal; eauto.
    - eapply dinv_ext; [| | |exact Hi]; reflexivity.
  Qed.

  Lemma dinv_after_event (s : dstate) now : dinv s -> d_status s = Running -> dinv (after_event s now).
  Proof. intros Hi Hrun. pose proof (dinv_check s now Hi Hrun) as Hx. unfold Driver.after_event. destruct thr; auto. Qed.

  Lemma dinv_fail_with (s : dstate) now k :
    dinv s -> d_status s = Running -> (cur s = CConnecting \/ cur s = CConnected) -> dinv (fail_with s now k).
  Proof.
    intros (Hg & Hd & Hr) Hrun Hcur. destruct (Hr Hrun) as [Hc Hn].
    destruct (apply_error_fields (d_c s) k) as (_ & Hcc & _).
    unfold Driver.fail_with. apply dinv_leave.
    - apply dinv_upd; auto.
      + rewrite app_nil_r. apply cinv_apply_error. exact Hc.
      + rewrite Hcc. exact Hn.
    - exact Hrun.
    - unfold cur in *. cbn. rewrite Hcc. destruct Hcur as [-> | ->]; reflexivity.
  Qed.

  Lemma handle_op_cur c now o : c_cur (handle_op c now o) = c_cur c.
  Proof.
    destruct o as [u| |d| |]; cbn; auto.
    destruct d; cbn; match goal with |- c_cur (apply_error ?x ?k) = _ => destruct (apply_error_fields x k) as (_ & -> & _) end; reflexivity.
  Qed.

  Lemma dinv_do_op (s : dstate) now o : dinv s -> d_status s = Running -> dinv (do_op s now o).
  Proof.
    intros (Hg & Hd & Hr) Hrun. destruct (Hr Hrun) as [Hc Hn].
    unfold Driver.do_op. apply dinv_after_event; auto.
    apply dinv_upd; auto.
    - rewrite app_nil_r. apply cinv_handle_op. exact Hc.
    - rewrite handle_op_cur. exact Hn.
  Qed.

  Lemma with_buf_fields (s : dstate) c buf cu fl wire outs fed wcs :
    d_c (with_buf E s c buf cu fl wire outs fed wcs) = c /\
    d_log (with_buf E s c buf cu fl wire outs fed wcs) = d_log s /\
    d_status (with_buf E s c buf cu fl wire outs fed wcs) = d_status s.
  Proof. cbn. auto. Qed.

  Lemma dinv_with_buf (s : dstate) buf cu fl wire outs fed wcs :
    dinv s -> dinv (with_buf E s (d_c s) buf cu fl wire outs fed wcs).
  Proof. intros H. eapply dinv_ext; [| | |exact H]; reflexivity. Qed.

  Lemma dinv_step_connected (s : dstate) now e :
    T now -> dinv s -> d_status s = Running -> cur s = CConnected -> dinv (step_connected s now e).
  Proof.
    intros Tnow Hi Hrun Hcur. pose proof Hi as (Hg & Hd & Hr). destruct (Hr Hrun) as [Hc Hn].
    unfold Driver.step_connected.
    destruct (d_flush s).
    - (* flush pending *)
      destruct e; auto. destruct ok.
      + unfold Impl.handle_write_completion. cbn [d_c with_buf].
        pose proof (H_wc (c_eng (d_c s)) now (proj1 Hc)) as Hw. pose proof (I_wc (c_eng (d_c s)) now (proj1 Hc)) as Iw.
        destruct (e_wc (c_eng (d_c s)) now) as [e' r]. cbn in Hw, Iw.
        destruct (fact_other_inv _ _ Hw) as (B & C).
        assert (Hc' : cinv (set_eng (d_c s) e') (d_log s)).
        { destruct Hc as (_ & [T1 T2] & (ph & Hp & Hl)). split; [exact Iw|]. split.
          - split; cbn; intros Hx; unfold tag; cbn; [apply B, T1, Hx | unfold cur in Hcur; congruence].
          - exists ph. split; auto. unfold link in *. cbn. unfold cur in Hcur. rewrite Hcur in *.
            destruct (c_connack (d_c s)) as [[|]|]; auto. destruct Hl as [Hl1 Hl2]. split; auto. }
        match goal with |- dinv (match r with Ok _ => after_event ?x now | Err k => fail_with ?x now k | Panic _ => _ end) =>
          assert (Hx : dinv x) by (apply dinv_running; cbn; auto; unfold cur in *; cbn; congruence) end.
        destruct r as [[]|k|site].
        * apply dinv_after_event; auto.
        * apply dinv_fail_with; auto.
        * apply dinv_set_status_end; auto.
      + apply dinv_fail_with; cbn; auto; try (apply dinv_with_buf; exact Hi).
    - destruct e; auto.
      + apply dinv_do_op; auto.
      + (* read *)
        destruct data as [|b data]; auto.
        pose proof (cinv_incoming (d_c s) (d_log s) now (b :: data) Hcur Hc) as Hin.
        destruct (Impl.handle_incoming_bytes E e_data (d_c s) now (b :: data)) as [[c' evs] r].
        destruct Hin as (Hc' & Hcur' & _).
        match goal with |- dinv (match r with Ok _ => after_event ?x now | Err k => fail_with ?x now k | Panic _ => _ end) =>
          assert (Hx : dinv x) by (apply dinv_running; cbn; auto; unfold cur; cbn; congruence) end.
        destruct r as [[]|k|site].
        * apply dinv_after_event; auto.
        * apply dinv_fail_with; auto; try (right; unfold cur; cbn; exact Hcur').
        * apply dinv_set_status_end; auto; try (cbn; eapply cinv_gram; eauto).
      + apply dinv_fail_with; auto.
      + apply dinv_after_event; auto.
      + apply dinv_fail_with; auto.
      + (* service *)
        destruct (next_service_time E e_nst (d_c s) now) as [t|]; [|apply dinv_after_event; auto].
        destruct (t <=? now); [|apply dinv_after_event; auto].
        unfold Impl.handle_service.
        pose proof (H_service (c_eng (d_c s)) now (len (d_buf s)) (proj1 Hc) Tnow) as Hw.
        pose proof (I_service (c_eng (d_c s)) now (len (d_buf s)) (proj1 Hc) Tnow) as Iw.
        destruct (e_service (c_eng (d_c s)) now (len (d_buf s))) as [[e' out] r]. cbn in Hw, Iw.
        destruct (fact_other_inv _ _ Hw) as (B & C).
        assert (Hc' : cinv (set_eng (d_c s) e') (d_log s)).
        { destruct Hc as (_ & [T1 T2] & (ph & Hp & Hl)). split; [exact Iw|]. split.
          - split; cbn; intros Hx; unfold tag; cbn; [apply B, T1, Hx | unfold cur in Hcur; congruence].
          - exists ph. split; auto. unfold link in *. cbn. unfold cur in Hcur. rewrite Hcur in *.
            destruct (c_connack (d_c s)) as [[|]|]; auto. destruct Hl as [Hl1 Hl2]. split; auto. }
        match goal with |- dinv (match r with Ok _ => after_event ?x now | Err k => fail_with ?x now k | Panic _ => _ end) =>
          assert (Hx : dinv x) by (apply dinv_running; cbn; auto; unfold cur in *; cbn; congruence) end.
        destruct r as [[]|k|site].
        * apply dinv_after_event; auto.
        * apply dinv_fail_with; auto.
        * apply dinv_set_status_end; auto.
      + (* write *)
        destruct (d_cursor s <? len (d_buf s)); auto.
        destruct r as [n| | |].
        * destruct (len (d_buf s) - d_cursor s <? n); auto.
          destruct (n =? 0).
          -- pose proof (dinv_fail_with s now (io_error_kind E e_tag s) Hi Hrun (or_intror Hcur)) as F1.
             pose proof (dinv_after_event s now Hi Hrun) as F2. destruct thr; auto.
          -- destruct (d_cursor s + n =? len (d_buf s)).
             ++ apply dinv_with_buf. exact Hi.
             ++ apply dinv_after_event; cbn; auto; try (apply dinv_with_buf; exact Hi).
        * apply dinv_after_event; auto.
        * pose proof (dinv_fail_with s now (io_error_kind E e_tag s) Hi Hrun (or_intror Hcur)) as F1.
          pose proof (dinv_after_event s now Hi Hrun) as F2. destruct thr; auto.
        * apply dinv_fail_with; auto.
      + apply dinv_check; auto.
  Qed.

  Lemma advance_pos_fields (s : dstate) e :
    d_c (advance_pos E U D thr s e) = d_c s /\ d_log (advance_pos E U D thr s e) = d_log s /\
    d_status (advance_pos E U D thr s e) = d_status s /\ d_flush (advance_pos E U D thr s e) = d_flush s.
  Proof. unfold advance_pos. destruct thr; cbn; auto. Qed.

  Lemma dinv_dstep (s : dstate) now e : T now -> dinv s -> dinv (dstep s now e).
  Proof.
    intros Tnow Hi. unfold Driver.dstep. destruct (d_status s) eqn:Hst; auto.
    destruct (negb (in_order E U D thr s e)); auto.
    destruct (advance_pos_fields s e) as (A1 & A2 & A3 & A4).
    set (s0 := advance_pos E U D thr s e) in *.
    assert (Hi0 : dinv s0) by (eapply dinv_ext; [| | |exact Hi]; auto).
    assert (Hrun : d_status s0 = Running) by congruence.
    destruct (cur s0) eqn:Hcur.
    - destruct e; auto; [apply dinv_do_op|apply dinv_check]; auto.
    - destruct e; auto.
      + apply dinv_do_op; auto.
      + apply dinv_leave; auto. rewrite Hcur. reflexivity.
      + apply dinv_fail_with; auto.
      + apply dinv_fail_with; auto.
      + apply dinv_check; auto.
    - apply dinv_step_connected; auto.
    - destruct e; auto.
      + apply dinv_do_op; auto.
      + apply dinv_leave; auto. rewrite Hcur. reflexivity.
      + apply dinv_check; auto.
    - apply dinv_set_status_end; auto. destruct Hi0; auto.
  Qed.

  Definition clock_ok (h : list (N * dev U D)) : Prop := Forall (fun x => T (fst x)) h.

  Lemma dinv_drun h : forall (s : dstate), clock_ok h -> dinv s -> dinv (drun s h).
  Proof.
    induction h as [|[now e] h IH]; intros s Hh Hi; cbn; auto. inversion Hh as [|? ? H1 H2]; subst.
    apply IH; [exact H2|]. apply dinv_dstep; [exact H1|exact Hi].
  Qed.

  Lemma dinv_init e0 bc timeout : I e0 -> e_tag e0 = TDisconnected -> dinv (dinit E e0 bc timeout).
  Proof.
    intros Ie He. apply dinv_running; cbn; auto; [|discriminate].
    split; [exact Ie|]. split.
    - split; cbn; [discriminate|]. intros _. exact He.
    - exists GIdle. split; reflexivity.
  Qed.

  (* ---- stop / restart / close ---- *)

  (* a transition into Stopped while Stopped is desired emits exactly one Stopped and no Attempt *)
  Lemma transition_to_stopped_events c now c' evs :
    c_des c = CStopped -> c_cur c <> CStopped -> c_cur c <> CShutdown ->
    transition c now CStopped = (c', evs, Ok tt) ->
    count_stopped evs = 1%nat /\ existsb is_attempt_ev evs = false /\ c_cur c' = CStopped /\ c_des c' = CStopped.
  Proof.
    intros Hd Hc1 Hc2. unfold Impl.transition, effective_target. rewrite Hd.
    destruct (c_cur c) eqn:Hcur; try congruence; cbn [cstate_eqb andb negb fst snd].
    - intros H. cbn in H. inversion H; subst. cbn. repeat split; auto.
    - destruct (e_closed (c_eng c) now) as [e' r]. cbn [fst snd].
      destruct r as [[]|k|site]; [|intros H; inversion H|intros H; inversion H].
      cbn. destruct (c_connack c) as [[|]|]; cbn; intros H; inversion H; subst; cbn; repeat split; auto.
    - intros H. cbn in H. inversion H; subst. cbn. repeat split; auto.
  Qed.

  Definition quiet (s : dstate) : Prop := d_status s = Running /\ cur s = CStopped /\ c_des (d_c s) = CStopped /\ d_pos s = 0.

  Lemma check_stops_leave (s : dstate) now :
    dinv s -> d_status s = Running -> c_des (d_c s) = CStopped ->
    c_cur (d_c s) <> CStopped -> c_cur (d_c s) <> CShutdown -> legal (c_cur (d_c s)) CStopped = true ->
    quiet (leave s now CStopped) /\
    exists evs, d_log (leave s now CStopped) = d_log s ++ evs /\ count_stopped evs = 1%nat /\ existsb is_attempt_ev evs = false.
  Proof.
    intros Hi Hrun Hd Hc1 Hc2 Hleg. pose proof Hi as (_ & _ & Hr). destruct (Hr Hrun) as [Hc Hn].
    pose proof (transition_ok (d_c s) (d_log s) now CStopped Hc Hleg) as Ht. unfold transition_good in Ht.
    unfold Driver.leave.
    destruct (transition (d_c s) now CStopped) as [[c' evs] [[]|k|site]] eqn:Htr.
    - destruct (transition_to_stopped_events _ _ _ _ Hd Hc1 Hc2 Htr) as (E1 & E2 & E3 & E4).
      cbn [cstate_eqb]. unfold cur. rewrite E3.
      destruct (cstate_eqb (c_cur (d_c s)) CStopped) eqn:Hsame; [apply cstate_eqb_eq in Hsame; congruence|].
      unfold Driver.enter, quiet, cur. cbn. rewrite E3. cbn.
      split; [repeat split; auto|]. exists evs. auto.
    - contradiction.
    - destruct Ht as [_ Hx]. unfold effective_target in Hx. rewrite Hd in Hx. cbn in Hx. discriminate.
  Qed.

  (* one check in a quiescing state that is not waiting for a DISCONNECT: Stopped, with a single Stopped event *)
  Lemma check_stops (s : dstate) now :
    dinv s -> d_status s = Running -> c_des (d_c s) = CStopped ->
    (cur s <> CConnected \/ c_stop (d_c s) <> SDisc) ->
    quiet (check s now) /\ dinv (check s now) /\
    exists evs, d_log (check s now) = d_log s ++ evs /\
                count_stopped evs = (if cstate_eqb (cur s) CStopped then 0 else 1)%nat /\
                existsb is_attempt_ev evs = false.
  Proof.
    intros Hi Hrun Hd Hw. pose proof (dinv_check s now Hi Hrun) as Hi'.
    pose proof Hi as (_ & _ & Hr). destruct (Hr Hrun) as [Hc Hn].
    assert (Hgo : c_cur (d_c s) <> CStopped -> compute_optional_state_transition (d_c s) = Some CStopped ->
                  quiet (check s now) /\ dinv (check s now) /\
                  exists evs, d_log (check s now) = d_log s ++ evs /\ count_stopped evs = 1%nat /\ existsb is_attempt_ev evs = false).
    { intros Hns Hco. unfold Driver.check in *. rewrite Hco in *.
      assert (Hleg : legal (c_cur (d_c s)) CStopped = true) by (eapply cost_legal; exact Hco).
      destruct (check_stops_leave s now Hi Hrun Hd Hns Hn Hleg) as [Q X]. auto. }
    unfold cur in *. unfold compute_optional_state_transition in Hgo. rewrite Hd in Hgo.
    destruct (c_cur (d_c s)) eqn:Hcur; cbn [cstate_eqb]; try congruence.
    - (* already Stopped *)
      unfold Driver.check, compute_optional_state_transition. rewrite Hcur, Hd. cbn [cost].
      split; [|split].
      + unfold quiet, cur. cbn. auto.
      + eapply dinv_ext; [| | |exact Hi]; reflexivity.
      + exists []. rewrite app_nil_r. cbn. auto.
    - apply Hgo; [discriminate|reflexivity].
    - destruct (c_stop (d_c s)) eqn:Hs; try (destruct Hw; congruence); apply Hgo; try discriminate; reflexivity.
    - apply Hgo; [discriminate|reflexivity].
  Qed.

  (* a stop request and the end of that loop iteration: the two-event form.  The request may carry a DISCONNECT; the only case
     excluded is the designed wait (the request kept its DISCONNECT, i.e. a connection is established: stop_request_shape) *)
  Theorem stop_stops_two (s : dstate) now now' d :
    dinv s -> d_status s = Running -> d_flush s = false -> d_pos s = 0 ->
    c_stop (handle_op (d_c s) now (OpStop d)) <> SDisc ->
    let s2 := dstep (dstep s now (DOp (OpStop d))) now' DCheck in
    quiet s2 /\
    exists evs, d_log s2 = d_log s ++ evs /\
                count_stopped evs = (if cstate_eqb (cur s) CStopped then 0 else 1)%nat /\
                existsb is_attempt_ev evs = false.
  Proof.
    intros Hi Hrun Hfl Hpos Hnd.
    pose proof Hi as (_ & _ & Hr0). destruct (Hr0 Hrun) as [Hc Hn].
    set (op := OpStop d) in *.
    destruct (advance_pos_fields s (DOp op)) as (A1 & A2 & A3 & A4).
    set (s0 := advance_pos E U D thr s (DOp op)) in *.
    set (s1 := upd_c E s0 (handle_op (d_c s0) now op) []).
    assert (B1 : d_c s1 = handle_op (d_c s) now op) by (unfold s1; cbn; rewrite A1; reflexivity).
    assert (Hdes : c_des (d_c s1) = CStopped) by (rewrite B1; reflexivity).
    assert (Hcur1 : cur s1 = cur s) by (unfold cur; rewrite B1; apply handle_op_cur).
    assert (Hlog1 : d_log s1 = d_log s) by (unfold s1; cbn; rewrite A2; apply app_nil_r).
    assert (Hrun1 : d_status s1 = Running) by (unfold s1; cbn; congruence).
    assert (Hfl1 : d_flush s1 = false) by (unfold s1; cbn; congruence).
    assert (Hpos1 : d_pos s1 <= 1) by (unfold s1, s0, advance_pos; destruct thr; cbn; lia).
    assert (Hi1 : dinv s1).
    { apply dinv_running; auto.
      - rewrite Hlog1, B1. apply cinv_handle_op. exact Hc.
      - rewrite Hcur1. exact Hn. }
    assert (Hw1 : cur s1 <> CConnected \/ c_stop (d_c s1) <> SDisc) by (right; rewrite B1; exact Hnd).
    (* the first event *)
    assert (Hstep1 : dstep s now (DOp op) = after_event s1 now).
    { unfold Driver.dstep. rewrite Hrun. unfold in_order. rewrite Hpos. cbn [phase N.leb]. rewrite orb_true_r. cbn [negb].
      fold s0. assert (Hc0 : cur s0 = cur s) by (unfold cur; rewrite A1; reflexivity).
      unfold Driver.do_op. fold s1.
      destruct (cur s0) eqn:Hcs; try reflexivity.
      - unfold Driver.step_connected. rewrite A4, Hfl. reflexivity.
      - exfalso. unfold cur in *. congruence. }
    (* a check event on a running state outside Shutdown with no flush pending is a check *)
    assert (Hck : forall x : dstate, d_status x = Running -> d_pos x <= 6 -> (cur x = CConnected -> d_flush x = false) ->
                  cur x <> CShutdown ->
                  dstep x now' DCheck = check (advance_pos E U D thr x DCheck) now').
    { intros x Hx Hp Hf Hns. unfold Driver.dstep. rewrite Hx. unfold in_order. cbn [phase].
      assert (Hle : (d_pos x <=? 6) = true) by (apply N.leb_le; exact Hp). rewrite Hle, orb_true_r. cbn [negb].
      destruct (advance_pos_fields x DCheck) as (X1 & X2 & X3 & X4).
      set (x0 := advance_pos E U D thr x DCheck) in *.
      assert (Hcx : cur x0 = cur x) by (unfold cur; rewrite X1; reflexivity).
      destruct (cur x0) eqn:Hcx0; try reflexivity.
      - unfold Driver.step_connected. rewrite X4, Hf by congruence. reflexivity.
      - exfalso. congruence. }
    (* the check on s1 (tokio: right after the request) or on s1 at the end of the iteration (threaded) *)
    destruct (check_stops s1 now Hi1 Hrun1 Hdes Hw1) as (Q1 & I1 & evs1 & L1 & C1 & T1).
    destruct (advance_pos_fields s1 DCheck) as (Y1 & Y2 & Y3 & Y4).
    set (s1' := advance_pos E U D thr s1 DCheck) in *.
    assert (Hi1' : dinv s1') by (eapply dinv_ext; [| | |exact Hi1]; auto).
    assert (Hw1' : cur s1' <> CConnected \/ c_stop (d_c s1') <> SDisc) by (unfold cur; rewrite Y1; exact Hw1).
    assert (Hdes' : c_des (d_c s1') = CStopped) by (rewrite Y1; exact Hdes).
    assert (Hrun1' : d_status s1' = Running) by congruence.
    destruct (check_stops s1' now' Hi1' Hrun1' Hdes' Hw1') as (Q2 & I2 & evs2 & L2 & C2 & T2).
    (* the check after the client already stopped (tokio's second event) *)
    set (t1 := check s1 now) in *.
    destruct Q1 as (R1 & R2 & R3 & R4).
    destruct (advance_pos_fields t1 DCheck) as (Z1 & Z2 & Z3 & Z4).
    set (t1' := advance_pos E U D thr t1 DCheck) in *.
    assert (Hit : dinv t1') by (eapply dinv_ext; [| | |exact I1]; auto).
    assert (Hwt : cur t1' <> CConnected \/ c_stop (d_c t1') <> SDisc) by (left; unfold cur; rewrite Z1; unfold cur in R2; congruence).
    assert (Hdt : c_des (d_c t1') = CStopped) by (rewrite Z1; exact R3).
    assert (Hrt : d_status t1' = Running) by congruence.
    destruct (check_stops t1' now' Hit Hrt Hdt Hwt) as (Q3 & I3 & evs3 & L3 & C3 & T3).
    assert (Hcur_t : cstate_eqb (cur t1') CStopped = true) by (apply cstate_eqb_eq; unfold cur; rewrite Z1; exact R2).
    rewrite Hcur_t in C3.
    assert (Hk1 : dstep s1 now' DCheck = check s1' now').
    { apply Hck; auto; try lia. unfold cur. rewrite B1, handle_op_cur. exact Hn. }
    assert (Hk2 : dstep t1 now' DCheck = check t1' now').
    { apply Hck; auto; try lia; unfold cur in *; congruence. }
    rewrite Hstep1. unfold Driver.after_event.
    unfold cur in Hcur1. 
    assert (Hc1' : cstate_eqb (cur s1') CStopped = cstate_eqb (cur s) CStopped) by (unfold cur; rewrite Y1, B1, handle_op_cur; reflexivity).
    assert (Hc1 : cstate_eqb (cur s1) CStopped = cstate_eqb (cur s) CStopped) by (unfold cur; rewrite B1, handle_op_cur; reflexivity).
    rewrite Hc1' in C2. rewrite Hc1 in C1.
    destruct thr.
    - (* threaded *)
      rewrite Hk1. split; [exact Q2|]. exists evs2. rewrite L2, Y2, Hlog1. auto.
    - (* tokio *)
      fold t1. rewrite Hk2. split; [exact Q3|]. exists (evs1 ++ evs3).
      rewrite L3, Z2, L1, Hlog1, app_assoc. split; [reflexivity|].
      unfold count_stopped in *. rewrite filter_app, app_length, existsb_app, T1, T3, C1, C3, Nat.add_0_r.
      split; reflexivity.
  Qed.

  (* restartable: in Stopped with desired Connected (a start request was handled) the next check starts an attempt *)
  Lemma restart_check (s : dstate) now :
    d_status s = Running -> cur s = CStopped -> c_des (d_c s) = CConnected ->
    cur (check s now) = CConnecting /\ d_log (check s now) = d_log s ++ [EvAttempt] /\ d_status (check s now) <> Dead.
  Proof.
    intros Hrun Hcur Hd. unfold cur in Hcur.
    unfold Driver.check, compute_optional_state_transition. rewrite Hcur, Hd. cbn [cost].
    unfold Driver.leave, Impl.transition, effective_target, cur. rewrite Hcur, Hd. cbn.
    unfold Driver.enter, cur. cbn.
    destruct thr; [destruct (add_saturating 92 now _)|]; cbn; repeat split; auto; try discriminate; rewrite Hrun; discriminate.
  Qed.

  (* close is terminal: once the loop has exited (or died), no event does anything any more *)
  Lemma exited_terminal (s : dstate) now e : d_status s <> Running -> dstep s now e = s.
  Proof. intros H. unfold Driver.dstep. destruct (d_status s); try reflexivity. congruence. Qed.

  Lemma exited_terminal_run h : forall (s : dstate), d_status s <> Running -> drun s h = s.
  Proof.
    induction h as [|[now e] h IH]; intros s H; cbn; auto. rewrite exited_terminal by exact H. apply IH, H.
  Qed.

  (* a close request handled outside the wait-for-DISCONNECT state ends the loop at the next check *)
  Lemma close_check (s : dstate) now :
    dinv s -> d_status s = Running -> c_des (d_c s) = CShutdown ->
    (cur s <> CConnected \/ c_stop (d_c s) <> SDisc) ->
    d_status (check s now) = Exited /\ existsb is_attempt_ev (skipn (length (d_log s)) (d_log (check s now))) = false.
  Proof.
    intros Hi Hrun Hd Hw. pose proof Hi as (_ & _ & Hr). destruct (Hr Hrun) as [Hc Hn].
    unfold Driver.check, compute_optional_state_transition. rewrite Hd. unfold cur in *.
    assert (Hskip : forall evs, skipn (length (d_log s)) (d_log s ++ evs) = evs).
    { intros evs. rewrite skipn_app, skipn_all, Nat.sub_diag. reflexivity. }
    destruct (c_cur (d_c s)) eqn:Hcur; cbn [cost cstate_eqb negb]; try congruence.
    - (* Stopped -> Shutdown *)
      unfold Driver.leave, Impl.transition, effective_target, cur. rewrite Hcur, Hd. cbn.
      rewrite app_nil_r, skipn_all. auto.
    - (* Connecting -> Stopped, short-circuited to Shutdown *)
      unfold Driver.leave, Impl.transition, effective_target, cur. rewrite Hcur, Hd. cbn.
      unfold Driver.enter, cur. cbn. rewrite Hskip. auto.
    - (* Connected *)
      assert (Hst : c_stop (d_c s) <> SDisc) by (destruct Hw; congruence).
      assert (Hleg : legal (c_cur (d_c s)) CStopped = true) by (rewrite Hcur; reflexivity).
      pose proof (transition_ok (d_c s) (d_log s) now CStopped Hc Hleg) as Ht. unfold transition_good in Ht.
      assert (Hco : (match c_stop (d_c s) with SDisc => None | _ => Some CStopped end) = Some CStopped)
        by (destruct (c_stop (d_c s)); congruence).
      rewrite Hco. unfold Driver.leave.
      revert Ht. unfold Impl.transition, effective_target, cur. rewrite Hcur, Hd. cbn [cstate_eqb andb negb].
      destruct (e_closed (c_eng (d_c s)) now) as [e' r]. cbn [fst snd].
      destruct r as [[]|k|site]; [|contradiction|intros [_ Hx]; discriminate].
      intros _. cbn. destruct (c_connack (d_c s)) as [[|]|]; cbn; unfold Driver.enter, cur; cbn; rewrite Hskip; auto.
    - (* PendingReconnect *)
      unfold Driver.leave, Impl.transition, effective_target, cur. rewrite Hcur, Hd. cbn.
      unfold Driver.enter, cur. cbn. rewrite Hskip. auto.
  Qed.

  (* ---- C12_event_grammar, C12_loop_alive ---- *)
  Theorem event_grammar e0 bc timeout h :
    I e0 -> e_tag e0 = TDisconnected -> clock_ok h -> grammar_ok (d_log (drun (dinit E e0 bc timeout) h)) = true.
  Proof.
    intros Ie He Hh. destruct (dinv_drun h _ Hh (dinv_init e0 bc timeout Ie He)) as (Hg & _).
    unfold grammar_ok. destruct (gphase_of _); congruence.
  Qed.

  Theorem loop_alive e0 bc timeout h :
    I e0 -> e_tag e0 = TDisconnected -> clock_ok h -> d_status (drun (dinit E e0 bc timeout) h) <> Dead.
  Proof. intros Ie He Hh. destruct (dinv_drun h _ Hh (dinv_init e0 bc timeout Ie He)) as (_ & Hd & _). exact Hd. Qed.

End Facts.

(* ---- the engine facts as one predicate over an engine interface ----
   [engine_facts_inv I T]: the engine states satisfying [I] (an invariant: every entry point preserves it; servicing
   only at clock values satisfying [T]) obey the eight state-table facts.  [engine_facts] is the special case
   I := T := everything. *)
Definition engine_facts_inv (E U D : Type) (I : E -> Prop) (T : N -> Prop)
    (e_tag : E -> etag) (e_user : E -> N -> U -> E) (e_disc : E -> N -> D -> E)
    (e_reset : E -> N -> E) (e_opened : E -> N -> N -> E * outcome unit) (e_closed : E -> N -> E * outcome unit)
    (e_data : E -> N -> bytes -> E * list pevent * outcome unit) (e_wc : E -> N -> E * outcome unit)
    (e_service : E -> N -> N -> E * bytes * outcome unit) : Prop :=
  ((forall e now u, I e -> I (e_user e now u)) /\
   (forall e now d, I e -> I (e_disc e now d)) /\
   (forall e now, I e -> I (e_reset e now)) /\
   (forall e now dl, I e -> I (fst (e_opened e now dl))) /\
   (forall e now, I e -> I (fst (e_closed e now))) /\
   (forall e now b, I e -> I (fst (fst (e_data e now b)))) /\
   (forall e now, I e -> I (fst (e_wc e now))) /\
   (forall e now f, I e -> T now -> I (fst (fst (e_service e now f))))) /\
  (forall e now u, I e -> fact_user (e_tag e) (e_tag (e_user e now u)) = true) /\
  (forall e now d, I e -> fact_user (e_tag e) (e_tag (e_disc e now d)) = true) /\
  (forall e now, I e -> fact_user (e_tag e) (e_tag (e_reset e now)) = true) /\
  (forall e now dl, I e -> fact_opened (e_tag e) (is_ok (snd (e_opened e now dl))) (e_tag (fst (e_opened e now dl))) = true) /\
  (forall e now, I e -> fact_closed (e_tag e) (is_ok (snd (e_closed e now))) (e_tag (fst (e_closed e now))) = true) /\
  (forall e now b, I e -> fact_data (e_tag e) (snd (fst (e_data e now b))) (e_tag (fst (fst (e_data e now b)))) = true) /\
  (forall e now, I e -> fact_other (e_tag e) (e_tag (fst (e_wc e now))) = true) /\
  (forall e now f, I e -> T now -> fact_other (e_tag e) (e_tag (fst (fst (e_service e now f)))) = true).

Definition engine_facts (E U D : Type) (e_tag : E -> etag) (e_user : E -> N -> U -> E) (e_disc : E -> N -> D -> E)
    (e_reset : E -> N -> E) (e_opened : E -> N -> N -> E * outcome unit) (e_closed : E -> N -> E * outcome unit)
    (e_data : E -> N -> bytes -> E * list pevent * outcome unit) (e_wc : E -> N -> E * outcome unit)
    (e_service : E -> N -> N -> E * bytes * outcome unit) : Prop :=
  (forall e now u, fact_user (e_tag e) (e_tag (e_user e now u)) = true) /\
  (forall e now d, fact_user (e_tag e) (e_tag (e_disc e now d)) = true) /\
  (forall e now, fact_user (e_tag e) (e_tag (e_reset e now)) = true) /\
  (forall e now dl, fact_opened (e_tag e) (is_ok (snd (e_opened e now dl))) (e_tag (fst (e_opened e now dl))) = true) /\
  (forall e now, fact_closed (e_tag e) (is_ok (snd (e_closed e now))) (e_tag (fst (e_closed e now))) = true) /\
  (forall e now b, fact_data (e_tag e) (snd (fst (e_data e now b))) (e_tag (fst (fst (e_data e now b)))) = true) /\
  (forall e now, fact_other (e_tag e) (e_tag (fst (e_wc e now))) = true) /\
  (forall e now f, fact_other (e_tag e) (e_tag (fst (fst (e_service e now f)))) = true).

Lemma engine_facts_as_inv E U D e_tag e_user e_disc e_reset e_opened e_closed e_data e_wc e_service :
  engine_facts E U D e_tag e_user e_disc e_reset e_opened e_closed e_data e_wc e_service ->
  engine_facts_inv E U D (fun _ => True) (fun _ => True) e_tag e_user e_disc e_reset e_opened e_closed e_data e_wc e_service.
Proof.
  intros (H1 & H2 & H3 & H4 & H5 & H6 & H7 & H8). split; [repeat split; auto|]. repeat split; intros; auto.
Qed.

Lemma clock_ok_true U D (h : list (N * dev U D)) : clock_ok U D (fun _ => True) h.
Proof. unfold clock_ok. apply Forall_forall. intros; exact Logic.I. Qed.

(* ---- event grammar / loop alive / stop / restart / close for REACHABLE states (every driver-event history whose
   clock values are admissible), under the engine facts for an engine invariant ---- *)
Section ReachInv.
  Variable E U D : Type.
  Variable I : E -> Prop.
  Variable T : N -> Prop.
  Variable e_tag : E -> etag.
  Variable e_user : E -> N -> U -> E.
  Variable e_disc : E -> N -> D -> E.
  Variable e_reset : E -> N -> E.
  Variable e_opened : E -> N -> N -> E * outcome unit.
  Variable e_closed : E -> N -> E * outcome unit.
  Variable e_data : E -> N -> bytes -> E * list pevent * outcome unit.
  Variable e_wc : E -> N -> E * outcome unit.
  Variable e_service : E -> N -> N -> E * bytes * outcome unit.
  Variable e_nst : E -> N -> option N.
  Hypothesis facts : engine_facts_inv E U D I T e_tag e_user e_disc e_reset e_opened e_closed e_data e_wc e_service.
  Variable thr : bool.
  Variable e0 : E.
  Variable bc : Backoff.cfg.
  Variable timeout : N.
  Hypothesis e0_inv : I e0.
  Hypothesis e0_disconnected : e_tag e0 = TDisconnected.

  Definition reach (h : list (N * dev U D)) : dstate E :=
    drun E U D e_tag e_user e_disc e_reset e_opened e_closed e_data e_wc e_service e_nst thr (dinit E e0 bc timeout) h.

  Lemma reach_dinv_inv h : clock_ok U D T h -> dinv E e_tag I (reach h).
  Proof.
    intros Hh. destruct facts as ((P1 & P2 & P3 & P4 & P5 & P6 & P7 & P8) & H1 & H2 & H3 & H4 & H5 & H6 & H7 & H8).
    unfold reach. eapply dinv_drun with (T := T); eauto. apply dinv_init; assumption.
  Qed.

  Theorem event_grammar_inv h : clock_ok U D T h -> grammar_ok (d_log (reach h)) = true.
  Proof.
    intros Hh. destruct (reach_dinv_inv h Hh) as (Hg & _).
    unfold grammar_ok. destruct (gphase_of _); congruence.
  Qed.

  Theorem loop_alive_inv h : clock_ok U D T h -> d_status (reach h) <> Dead.
  Proof. intros Hh. destruct (reach_dinv_inv h Hh) as (_ & Hd & _). exact Hd. Qed.

  Theorem stop_stops_reach_inv h now :
    clock_ok U D T h ->
    let s := reach h in
    d_status s = Running -> c_des (d_c s) = CStopped -> (cur s <> CConnected \/ c_stop (d_c s) <> SDisc) ->
    let s' := check E e_opened e_closed thr s now in
    d_status s' = Running /\ cur s' = CStopped /\ c_des (d_c s') = CStopped /\
    exists evs, d_log s' = d_log s ++ evs /\
                count_stopped evs = (if cstate_eqb (cur s) CStopped then 0 else 1)%nat /\
                existsb is_attempt_ev evs = false.
  Proof.
    intros Hh s Hrun Hd Hw s'.
    destruct facts as ((P1 & P2 & P3 & P4 & P5 & P6 & P7 & P8) & H1 & H2 & H3 & H4 & H5 & H6 & H7 & H8).
    destruct (check_stops E e_tag e_opened e_closed I P4 P5 H4 H5 thr s now (reach_dinv_inv h Hh) Hrun Hd Hw) as ((Q1 & Q2 & Q3 & _) & _ & X).
    repeat split; auto.
  Qed.

  Theorem stop_waits_only_when_established_inv h now d :
    clock_ok U D T h ->
    let s := reach h in
    d_status s = Running ->
    let c' := handle_op E U D e_tag e_user e_disc e_reset (d_c s) now (OpStop d) in
    c_stop c' = SDisc -> c_cur c' = CConnected /\ e_tag (c_eng c') = TConnected.
  Proof.
    intros Hh s Hrun c' Hs.
    destruct facts as ((P1 & P2 & P3 & P4 & P5 & P6 & P7 & P8) & H1 & H2 & H3 & H4 & H5 & H6 & H7 & H8).
    destruct (reach_dinv_inv h Hh) as (_ & _ & Hr). destruct (Hr Hrun) as [Hc _].
    exact (stop_request_shape E U D e_tag e_user e_disc e_reset I P1 P2 P3 H1 H2 H3 (d_c s) (d_log s) now d Hc Hs).
  Qed.

  Theorem stop_stops_two_reach_inv h now now' d :
    clock_ok U D T h ->
    let s := reach h in
    d_status s = Running -> d_flush s = false -> d_pos s = 0 ->
    c_stop (handle_op E U D e_tag e_user e_disc e_reset (d_c s) now (OpStop d)) <> SDisc ->
    let s2 := dstep E U D e_tag e_user e_disc e_reset e_opened e_closed e_data e_wc e_service e_nst thr
                (dstep E U D e_tag e_user e_disc e_reset e_opened e_closed e_data e_wc e_service e_nst thr s now (DOp (OpStop d)))
                now' DCheck in
    d_status s2 = Running /\ cur s2 = CStopped /\ c_des (d_c s2) = CStopped /\
    exists evs, d_log s2 = d_log s ++ evs /\
                count_stopped evs = (if cstate_eqb (cur s) CStopped then 0 else 1)%nat /\
                existsb is_attempt_ev evs = false.
  Proof.
    intros Hh s Hrun Hfl Hpos Hnd s2.
    destruct facts as ((P1 & P2 & P3 & P4 & P5 & P6 & P7 & P8) & H1 & H2 & H3 & H4 & H5 & H6 & H7 & H8).
    destruct (stop_stops_two E U D e_tag e_user e_disc e_reset e_opened e_closed e_data e_wc e_service e_nst I T
                P1 P2 P3 P4 P5 P6 P7 P8 H1 H2 H3 H4 H5 H6 H7 H8 thr s now now' d (reach_dinv_inv h Hh) Hrun Hfl Hpos Hnd) as ((Q1 & Q2 & Q3 & _) & X).
    repeat split; auto.
  Qed.

  Theorem restartable_reach_inv h now :
    let s := reach h in
    d_status s = Running -> cur s = CStopped -> c_des (d_c s) = CConnected ->
    let s' := check E e_opened e_closed thr s now in
    cur s' = CConnecting /\ d_log s' = d_log s ++ [EvAttempt] /\ d_status s' <> Dead.
  Proof. intros s Hrun Hc Hd s'. apply restart_check; auto. Qed.

  Theorem close_terminal_reach_inv h now k :
    clock_ok U D T h ->
    let s := reach h in
    d_status s = Running -> c_des (d_c s) = CShutdown -> (cur s <> CConnected \/ c_stop (d_c s) <> SDisc) ->
    let s' := check E e_opened e_closed thr s now in
    d_status s' = Exited /\
    existsb is_attempt_ev (skipn (length (d_log s)) (d_log s')) = false /\
    drun E U D e_tag e_user e_disc e_reset e_opened e_closed e_data e_wc e_service e_nst thr s' k = s'.
  Proof.
    intros Hh s Hrun Hd Hw s'.
    destruct facts as ((P1 & P2 & P3 & P4 & P5 & P6 & P7 & P8) & H1 & H2 & H3 & H4 & H5 & H6 & H7 & H8).
    destruct (close_check E e_tag e_opened e_closed I P4 P5 H4 H5 thr s now (reach_dinv_inv h Hh) Hrun Hd Hw) as [A B].
    repeat split; auto. apply exited_terminal_run. unfold s'. rewrite A. discriminate.
  Qed.
End ReachInv.

(* ---- the special case without an invariant: the statements as they were before the generalisation ---- *)
Theorem event_grammar_thm E U D e_tag e_user e_disc e_reset e_opened e_closed e_data e_wc e_service e_nst :
  engine_facts E U D e_tag e_user e_disc e_reset e_opened e_closed e_data e_wc e_service ->
  forall thr e0 bc timeout h, e_tag e0 = TDisconnected ->
  grammar_ok (d_log (drun E U D e_tag e_user e_disc e_reset e_opened e_closed e_data e_wc e_service e_nst thr
                          (dinit E e0 bc timeout) h)) = true.
Proof.
  intros F thr e0 bc timeout h He.
  exact (event_grammar_inv E U D _ _ e_tag e_user e_disc e_reset e_opened e_closed e_data e_wc e_service e_nst
           (engine_facts_as_inv _ _ _ _ _ _ _ _ _ _ _ _ F) thr e0 bc timeout Logic.I He h (clock_ok_true U D h)).
Qed.

Theorem loop_alive_thm E U D e_tag e_user e_disc e_reset e_opened e_closed e_data e_wc e_service e_nst :
  engine_facts E U D e_tag e_user e_disc e_reset e_opened e_closed e_data e_wc e_service ->
  forall thr e0 bc timeout h, e_tag e0 = TDisconnected ->
  d_status (drun E U D e_tag e_user e_disc e_reset e_opened e_closed e_data e_wc e_service e_nst thr
                 (dinit E e0 bc timeout) h) <> Dead.
Proof.
  intros F thr e0 bc timeout h He.
  exact (loop_alive_inv E U D _ _ e_tag e_user e_disc e_reset e_opened e_closed e_data e_wc e_service e_nst
           (engine_facts_as_inv _ _ _ _ _ _ _ _ _ _ _ _ F) thr e0 bc timeout Logic.I He h (clock_ok_true U D h)).
Qed.

Section Reach.
  Variable E U D : Type.
  Variable e_tag : E -> etag.
  Variable e_user : E -> N -> U -> E.
  Variable e_disc : E -> N -> D -> E.
  Variable e_reset : E -> N -> E.
  Variable e_opened : E -> N -> N -> E * outcome unit.
  Variable e_closed : E -> N -> E * outcome unit.
  Variable e_data : E -> N -> bytes -> E * list pevent * outcome unit.
  Variable e_wc : E -> N -> E * outcome unit.
  Variable e_service : E -> N -> N -> E * bytes * outcome unit.
  Variable e_nst : E -> N -> option N.
  Hypothesis facts : engine_facts E U D e_tag e_user e_disc e_reset e_opened e_closed e_data e_wc e_service.
  Variable thr : bool.
  Variable e0 : E.
  Variable bc : Backoff.cfg.
  Variable timeout : N.
  Hypothesis e0_disconnected : e_tag e0 = TDisconnected.

  Notation reach := (reach E U D e_tag e_user e_disc e_reset e_opened e_closed e_data e_wc e_service e_nst thr e0 bc timeout).
  Let facts' := engine_facts_as_inv _ _ _ _ _ _ _ _ _ _ _ _ facts.

  Theorem stop_stops_reach h now :
    let s := reach h in
    d_status s = Running -> c_des (d_c s) = CStopped -> (cur s <> CConnected \/ c_stop (d_c s) <> SDisc) ->
    let s' := check E e_opened e_closed thr s now in
    d_status s' = Running /\ cur s' = CStopped /\ c_des (d_c s') = CStopped /\
    exists evs, d_log s' = d_log s ++ evs /\
                count_stopped evs = (if cstate_eqb (cur s) CStopped then 0 else 1)%nat /\
                existsb is_attempt_ev evs = false.
  Proof.
    exact (stop_stops_reach_inv E U D _ _ e_tag e_user e_disc e_reset e_opened e_closed e_data e_wc e_service e_nst
             facts' thr e0 bc timeout Logic.I e0_disconnected h now (clock_ok_true U D h)).
  Qed.

  Theorem stop_waits_only_when_established h now d :
    let s := reach h in
    d_status s = Running ->
    let c' := handle_op E U D e_tag e_user e_disc e_reset (d_c s) now (OpStop d) in
    c_stop c' = SDisc -> c_cur c' = CConnected /\ e_tag (c_eng c') = TConnected.
  Proof.
    exact (stop_waits_only_when_established_inv E U D _ _ e_tag e_user e_disc e_reset e_opened e_closed e_data e_wc e_service e_nst
             facts' thr e0 bc timeout Logic.I e0_disconnected h now d (clock_ok_true U D h)).
  Qed.

  Theorem stop_stops_two_reach h now now' d :
    let s := reach h in
    d_status s = Running -> d_flush s = false -> d_pos s = 0 ->
    c_stop (handle_op E U D e_tag e_user e_disc e_reset (d_c s) now (OpStop d)) <> SDisc ->
    let s2 := dstep E U D e_tag e_user e_disc e_reset e_opened e_closed e_data e_wc e_service e_nst thr
                (dstep E U D e_tag e_user e_disc e_reset e_opened e_closed e_data e_wc e_service e_nst thr s now (DOp (OpStop d)))
                now' DCheck in
    d_status s2 = Running /\ cur s2 = CStopped /\ c_des (d_c s2) = CStopped /\
    exists evs, d_log s2 = d_log s ++ evs /\
                count_stopped evs = (if cstate_eqb (cur s) CStopped then 0 else 1)%nat /\
                existsb is_attempt_ev evs = false.
  Proof.
    exact (stop_stops_two_reach_inv E U D _ _ e_tag e_user e_disc e_reset e_opened e_closed e_data e_wc e_service e_nst
             facts' thr e0 bc timeout Logic.I e0_disconnected h now now' d (clock_ok_true U D h)).
  Qed.

  Theorem restartable_reach h now :
    let s := reach h in
    d_status s = Running -> cur s = CStopped -> c_des (d_c s) = CConnected ->
    let s' := check E e_opened e_closed thr s now in
    cur s' = CConnecting /\ d_log s' = d_log s ++ [EvAttempt] /\ d_status s' <> Dead.
  Proof. intros s Hrun Hc Hd s'. apply restart_check; auto. Qed.

  Theorem close_terminal_reach h now k :
    let s := reach h in
    d_status s = Running -> c_des (d_c s) = CShutdown -> (cur s <> CConnected \/ c_stop (d_c s) <> SDisc) ->
    let s' := check E e_opened e_closed thr s now in
    d_status s' = Exited /\
    existsb is_attempt_ev (skipn (length (d_log s)) (d_log s')) = false /\
    drun E U D e_tag e_user e_disc e_reset e_opened e_closed e_data e_wc e_service e_nst thr s' k = s'.
  Proof.
    exact (close_terminal_reach_inv E U D _ _ e_tag e_user e_disc e_reset e_opened e_closed e_data e_wc e_service e_nst
             facts' thr e0 bc timeout Logic.I e0_disconnected h now k (clock_ok_true U D h)).
  Qed.
End Reach.
