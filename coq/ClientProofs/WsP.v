(* Proofs about the WebSocket adapter model (Client/WsCursor.v, the code as repaired by 73a05c7). *)
From GM Require Import Base.Prelude Client.WsCursor.
Open Scope N_scope.

Definition pending_c (c : cursor) : bytes := skipn (N.to_nat (cu_index c)) (cu_data c).
Definition pend (w : wstate) : bytes := match w_cur w with Some c => pending_c c | None => [] end.
Definition no_err (sock : list wsread) : bool := forallb (fun r => match r with RError => false | _ => true end) sock.

Lemma skipn_add {A} (l : list A) : forall c n, skipn (n + c) l = skipn n (skipn c l).
Proof.
  induction l as [|x l IH]; intros c n.
  - rewrite !skipn_nil. reflexivity.
  - destruct c as [|c].
    + rewrite Nat.add_0_r. reflexivity.
    + replace (n + S c)%nat with (S (n + c)) by lia. cbn. apply IH.
Qed.

Lemma len_nil_inv {A} (l : list A) : len l = 0 -> l = [].
Proof. destruct l; cbn; auto. unfold len. cbn. lia. Qed.

(* MessageCursor::read *)
Lemma take_spec c room c' chunk :
  cursor_take c room = (c', chunk) ->
  pending_c c = chunk ++ pending_c c' /\ len chunk <= room /\
  (len chunk < room -> pending_c c' = []) /\
  (chunk = [] -> room = 0 \/ pending_c c = []).
Proof.
  unfold cursor_take, pending_c. destruct c as [data i]. cbn [cu_data cu_index].
  destruct (i <? len data) eqn:Hi.
  - apply N.ltb_lt in Hi. set (a := N.min (len data - i) room).
    destruct (0 <? a) eqn:Ha.
    + apply N.ltb_lt in Ha. intros H. inversion H; subst c' chunk; clear H. cbn [cu_data cu_index].
      assert (Hlen : len (firstn (N.to_nat a) (skipn (N.to_nat i) data)) = a).
      { unfold len in *. rewrite firstn_length, skipn_length. subst a. lia. }
      replace (N.to_nat (i + a)) with (N.to_nat a + N.to_nat i)%nat by lia.
      rewrite skipn_add. repeat split.
      * symmetry. apply firstn_skipn.
      * rewrite Hlen. subst a. lia.
      * rewrite Hlen. intros Hlt. apply len_nil_inv. unfold len in *. rewrite !skipn_length. subst a. lia.
      * intros He. rewrite He in Hlen. cbn in Hlen. lia.
    + apply N.ltb_ge in Ha. intros H. inversion H; subst c' chunk; clear H. cbn [cu_data cu_index app].
      repeat split; auto; try (cbn; lia); try (cbn; intros; subst a; lia); try (intros _; left; subst a; lia).
  - apply N.ltb_ge in Hi. intros H. inversion H; subst c' chunk; clear H. cbn [cu_data cu_index app].
    assert (Hp : skipn (N.to_nat i) data = []) by (apply skipn_all2; unfold len in Hi; lia).
    repeat split; auto; cbn; try lia.
Qed.

Lemma stream_of_cons r s : stream_of (r :: s) = payload r ++ stream_of s.
Proof. reflexivity. Qed.

Section Loop.
  Variable size : N.
  Hypothesis size_pos : 0 < size.

  Definition res_of (data : bytes) : rres := if 0 <? len data then ROk (len data) else RErrWouldBlock.

  (* what one run of the read loop guarantees *)
  Definition loop_post (w : wstate) (sock : list wsread) (acc : bytes) (out : wstate * list wsread * bytes * rres) : Prop :=
    let '(w', sock', data, res) := out in
    acc ++ pend w ++ stream_of sock = data ++ pend w' ++ stream_of sock' /\
    len data <= size /\ len acc <= len data /\ w_final w' = false /\ no_err sock' = true /\
    res = res_of data /\ (length sock' <= length sock)%nat /\
    (len acc < size ->
       len acc < len data \/ (length sock' < length sock)%nat \/
       (sock = [] /\ pend w = [] /\ sock' = [] /\ pend w' = [] /\ data = acc)).

  Lemma res_of_pos data : 0 < len data -> res_of data = ROk (len data).
  Proof. intros H. unfold res_of. apply N.ltb_lt in H. rewrite H. reflexivity. Qed.

  Lemma loop_spec : forall fuel w sock acc,
    w_final w = false -> no_err sock = true -> len acc <= size ->
    (len acc < size -> (length sock + 2 + (match w_cur w with Some _ => 1 | None => 0 end) <= fuel)%nat) ->
    (1 <= fuel)%nat ->
    loop_post w sock acc (read_loop fuel w sock size acc).
  Proof.
    induction fuel as [|fuel IH]; intros w sock acc Hfin Hne Hacc Hfuel H1; [lia|].
    cbn [read_loop].
    destruct (len acc <? size) eqn:Hlt.
    2:{ (* the buffer is full *)
        apply N.ltb_ge in Hlt. unfold loop_post. repeat split; auto; try lia.
        symmetry. apply res_of_pos. lia. }
    apply N.ltb_lt in Hlt. specialize (Hfuel Hlt).
    (* the shared "copy from the cursor and go round again" step *)
    assert (Htake : forall c sock',
               (length sock' + 2 <= fuel)%nat -> no_err sock' = true ->
               forall (P : wstate * list wsread * bytes * rres -> Prop),
               (forall c' chunk,
                   cursor_take c (size - len acc) = (c', chunk) ->
                   loop_post (mkW (if len (acc ++ chunk) <? size then None else Some c') false) sock' (acc ++ chunk)
                             (read_loop fuel (mkW (if len (acc ++ chunk) <? size then None else Some c') false) sock' size (acc ++ chunk)) ->
                   P (read_loop fuel (mkW (if len (acc ++ chunk) <? size then None else Some c') false) sock' size (acc ++ chunk))) ->
               P (let (c', chunk) := cursor_take c (size - len acc) in
                  read_loop fuel (mkW (if len (acc ++ chunk) <? size then None else Some c') false) sock' size (acc ++ chunk))).
    { intros c sock' Hf Hne' P HP. destruct (cursor_take c (size - len acc)) as [c' chunk] eqn:Ht.
      apply (HP c' chunk eq_refl).
      destruct (take_spec _ _ _ _ Ht) as (T1 & T2 & T3 & T4).
      apply IH; cbn [w_final w_cur]; auto.
      - rewrite len_app. lia.
      - intros Hl. apply N.ltb_lt in Hl. rewrite Hl. lia.
      - lia. }
    destruct (w_cur w) as [c|] eqn:Hcur.
    - (* a message left over from the previous read *)
      rewrite Hfin. apply Htake; [lia|auto|]. intros c' chunk Ht Hpost.
      destruct (take_spec _ _ _ _ Ht) as (T1 & T2 & T3 & T4).
      set (w2 := mkW (if len (acc ++ chunk) <? size then None else Some c') false) in *.
      destruct (read_loop fuel w2 sock size (acc ++ chunk)) as [[[w' sock''] data] res].
      unfold loop_post in *. destruct Hpost as (E & B1 & B2 & B3 & B4 & B5 & B6 & B7).
      assert (Hp2 : chunk ++ pend w2 = pending_c c).
      { rewrite T1. f_equal. unfold pend, w2. cbn [w_cur].
        destruct (len (acc ++ chunk) <? size) eqn:Hl; [|reflexivity].
        apply N.ltb_lt in Hl. rewrite len_app in Hl. symmetry. apply T3. lia. }
      unfold pend at 1. rewrite Hcur. rewrite len_app in *.
      repeat split; auto; try lia.
      + rewrite <- E, <- Hp2, <- !app_assoc. reflexivity.
      + intros _. destruct (N.eq_dec (len chunk) 0) as [Hz|Hz].
        * (* nothing left in that message *)
          apply len_nil_inv in Hz. subst chunk.
          destruct (T4 eq_refl) as [Hr|Hr]; [lia|].
          assert (Hl2 : (len (acc ++ []) <? size) = true) by (rewrite app_nil_r; apply N.ltb_lt; exact Hlt).
          assert (Hw2 : pend w2 = []) by (unfold pend, w2; cbn [w_cur]; rewrite Hl2; reflexivity).
          cbn [len length] in B7. rewrite N.add_0_r in B7.
          destruct (B7 Hlt) as [X|[X|(X1 & X2 & X3 & X4 & X5)]]; auto.
          right. right. unfold pend. rewrite Hcur. rewrite app_nil_r in X5. auto.
        * left. lia.
    - rewrite Hfin. destruct sock as [|r s'].
      + (* nothing available *)
        unfold loop_post. unfold pend. rewrite Hcur. cbn [w_cur].
        repeat split; auto; try lia; try reflexivity. intros _. right. right. repeat split; auto.
      + cbn [no_err forallb] in Hne. apply andb_prop in Hne. destruct Hne as [Hr Hne].
        destruct r as [m| |]; [| |discriminate].
        * destruct (cursor_new m) as [c|] eqn:Hm.
          -- (* a data message *)
             cbn [length] in Hfuel.
             apply Htake; [lia|auto|]. intros c' chunk Ht Hpost.
             destruct (take_spec _ _ _ _ Ht) as (T1 & T2 & T3 & T4).
             set (w2 := mkW (if len (acc ++ chunk) <? size then None else Some c') false) in *.
             destruct (read_loop fuel w2 s' size (acc ++ chunk)) as [[[w' sock''] data] res].
             unfold loop_post in *. destruct Hpost as (E & B1 & B2 & B3 & B4 & B5 & B6 & B7).
             assert (Hpay : payload (RMsg m) = pending_c c).
             { destruct m; cbn in Hm; inversion Hm; subst c; reflexivity. }
             assert (Hp2 : chunk ++ pend w2 = pending_c c).
             { rewrite T1. f_equal. unfold pend, w2. cbn [w_cur].
               destruct (len (acc ++ chunk) <? size) eqn:Hl; [|reflexivity].
               apply N.ltb_lt in Hl. rewrite len_app in Hl. symmetry. apply T3. lia. }
             unfold pend at 1. rewrite Hcur. rewrite stream_of_cons, Hpay. cbn [app length]. rewrite len_app in *.
             repeat split; auto; try lia.
             ++ rewrite <- E, <- Hp2, <- !app_assoc. reflexivity.
          -- (* a control message: skipped *)
             cbn [length] in Hfuel.
             assert (Hpost : loop_post (mkW None false) s' acc (read_loop fuel (mkW None false) s' size acc)).
             { apply IH; cbn [w_final w_cur]; auto; lia. }
             destruct (read_loop fuel (mkW None false) s' size acc) as [[[w' sock''] data] res].
             unfold loop_post in *. destruct Hpost as (E & B1 & B2 & B3 & B4 & B5 & B6 & B7).
             assert (Hpay : payload (RMsg m) = []) by (destruct m; cbn in Hm; try discriminate; reflexivity).
             unfold pend at 1. rewrite Hcur. rewrite stream_of_cons, Hpay. cbn [app length].
             unfold pend at 1 in E. cbn [w_cur app] in E.
             repeat split; auto; try lia.
        * (* the transport has nothing right now *)
          unfold loop_post. unfold pend. rewrite Hcur. rewrite stream_of_cons. cbn [payload app length].
          repeat split; auto; try lia; try reflexivity; try (intros _; right; left; lia).
  Qed.

  (* one Read::read *)
  Theorem ws_read_spec w sock :
    w_final w = false -> no_err sock = true ->
    loop_post w sock [] (ws_read w sock size).
  Proof.
    intros Hf Hn. unfold ws_read, read_fuel. apply loop_spec; auto; cbn; try lia.
    intros _. destruct (w_cur w); lia.
  Qed.

  (* how much is still to be delivered / consumed *)
  Definition todo (w : wstate) (sock : list wsread) : nat := (length (pend w ++ stream_of sock) + length sock)%nat.

  Theorem read_all_spec : forall rounds w sock,
    w_final w = false -> no_err sock = true -> (todo w sock <= rounds)%nat ->
    read_all rounds w sock size = Some (pend w ++ stream_of sock).
  Proof.
    induction rounds as [|k IH]; intros w sock Hf Hn Hr.
    - cbn. unfold todo in Hr. destruct (pend w ++ stream_of sock); [reflexivity|cbn in Hr; lia].
    - cbn [read_all]. pose proof (ws_read_spec w sock Hf Hn) as Hs.
      destruct (ws_read w sock size) as [[[w' sock'] data] res].
      unfold loop_post in Hs. destruct Hs as (E & B1 & B2 & B3 & B4 & B5 & B6 & B7).
      cbn [app] in E.
      assert (Hd : delivered size data res = Some data).
      { unfold delivered. rewrite B5. unfold res_of. destruct (0 <? len data) eqn:Hz.
        - assert (Hx : (size <? len data) = false) by (apply N.ltb_ge; lia). rewrite Hx. reflexivity.
        - apply N.ltb_ge in Hz. assert (Hl : len data = 0) by lia. apply len_nil_inv in Hl. subst data. reflexivity. }
      rewrite Hd.
      assert (Hlen : length (pend w ++ stream_of sock) = (length data + length (pend w' ++ stream_of sock'))%nat).
      { rewrite E, app_length. reflexivity. }
      assert (Htodo : (todo w' sock' <= k)%nat).
      { unfold todo in *. cbn [len length] in B7. specialize (B7 size_pos).
        destruct B7 as [X|[X|(X1 & X2 & X3 & X4 & X5)]].
        - unfold len in X. cbn in X. lia.
        - lia.
        - subst sock'. rewrite X4. cbn. lia. }
      rewrite (IH w' sock' B3 B4 Htodo), E. reflexivity.
  Qed.

End Loop.

(* C13_ws_reassembly: for EVERY list of messages (binary / text / control, any sizes relative to the buffer, several per
   read), EVERY buffer size and EVERY arrival pattern (would-block anywhere), the bytes returned by successive reads are
   the concatenation of the data payloads, in order *)
Theorem ws_reassembly size sock rounds :
  0 < size -> no_err sock = true -> (length (stream_of sock) + length sock <= rounds)%nat ->
  read_all rounds w_init sock size = Some (stream_of sock).
Proof.
  intros Hs Hn Hr. rewrite (read_all_spec size Hs rounds w_init sock eq_refl Hn); [reflexivity|].
  unfold todo, pend. cbn. exact Hr.
Qed.

(* ... and no read reports more than the buffer holds, from any state a sequence of reads can reach *)
Theorem ws_read_bounded size w sock :
  0 < size -> w_final w = false -> no_err sock = true ->
  let '(w', sock', data, res) := ws_read w sock size in
  len data <= size /\ res = (if 0 <? len data then ROk (len data) else RErrWouldBlock) /\
  w_final w' = false /\ no_err sock' = true.
Proof.
  intros Hs Hf Hn. pose proof (ws_read_spec size Hs w sock Hf Hn) as H.
  destruct (ws_read w sock size) as [[[w' sock'] data] res]. unfold loop_post in H.
  destruct H as (E & B1 & B2 & B3 & B4 & B5 & B6 & B7). auto.
Qed.

(* the former D15 counterexamples (corpus/C13/ws.txt) on the repaired adapter *)
Example former_counterexamples :
  read_all 8 w_init [RMsg (MBinary [1; 2; 3]); RMsg (MBinary [4; 5])] 8 = Some [1; 2; 3; 4; 5] /\
  read_all 8 w_init [RMsg (MBinary [1; 2; 3]); RMsg (MBinary [4; 5; 6])] 4 = Some [1; 2; 3; 4; 5; 6] /\
  read_all 8 w_init [RMsg (MBinary [1; 2; 3; 4; 5; 6])] 4 = Some [1; 2; 3; 4; 5; 6].
Proof. vm_compute. repeat split; reflexivity. Qed.

(* ---- write side (D15b, known finding): a send that queued the frame and then hit WouldBlock is repeated by the driver ---- *)
Lemma refuted_write_duplicated :
  let '(o, done) := drive_batch out_init [9; 8; 7] [TBlock; TOk] in
  done = true /\ o_wire o = [[9; 8; 7]; [9; 8; 7]].
Proof. vm_compute. split; reflexivity. Qed.

(* outside the defect class — no would-block answer to a send that queued a frame — every batch reaches the wire once *)
Definition known_d15b (results : list tres) : Prop := In TBlock results.

Lemma drive_batch_ok o batch results :
  results <> [] -> ~ known_d15b results ->
  drive_batch o batch results = (mkOut [] (o_wire o ++ o_queue o ++ [batch]), true).
Proof.
  intros Hne Hk. destruct results as [|t rest]; [congruence|].
  destruct t; [|exfalso; apply Hk; left; reflexivity].
  cbn. reflexivity.
Qed.
