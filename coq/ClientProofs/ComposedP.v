(* The engine hypothesis of the C12 theorems DISCHARGED for the engine model (Engine/Instance.v): the adapter
   Client/ImplEngine.v (ie_tag / ie_user / ... = the corresponding [i_step] calls) satisfies [engine_facts_inv] with
   the invariant I := the engine's well-formedness invariant WFX (EngineProofs/WFStep.v; holds of i_init, preserved by
   every step), from the protocol-state table (HandshakeRunInv.step_st), the close spec (WFClose2.net_closed_spec: Ok
   from every well-formed state but Disconnected) and the CONNACK-event lemma (ConnackEvents.net_data_connacks).
   Hence the lifecycle theorems for the COMPOSED model: client implementation + event loop over the engine model. *)
From GM Require Import Base.Prelude Base.Outcome Codec.Packets Codec.Settings Codec.Steps Codec.ImplEncode Codec.Framing
  Alias.Outbound Alias.Inbound Validate.Rules Engine.Model Engine.Instance
  EngineProofs.WFDefs EngineProofs.WFClose2 EngineProofs.WFStep EngineProofs.WFInstance
  EngineProofs.HandshakeRunSt EngineProofs.HandshakeRunInv EngineProofs.ConnackEvents
  Client.Backoff Client.Impl Client.Driver Client.ImplEngine ClientProofs.ImplP ClientProofs.EngineFactsP.
From GM Require Codec.SpecEncodeS2C.
Open Scope N_scope.

(* ---- the invariant and the admissible clock values ---- *)
Definition IWF (cfg : config) (e : istate) : Prop :=
  WFX enc impl_steps encode_call decoder decoder_init decode_bytes ores ores_reset ores_resolve
      ires ires_reset ires_resolve validate_outbound_internal validate_inbound_internal cfg instance_comps_ok e.

(* the engine is serviced at clock values of at most 2^62 ms (ok_event; the client's clock is in ns) *)
Definition clock_ms_ok (now : N) : Prop := ms now <= TMAX.
Definition i_clock_ok (h : list (N * idev)) : Prop := Forall (fun x => ms (fst x) <= TMAX) h.

Lemma IWF_init cfg k : IWF cfg (i_init cfg k).
Proof. unfold IWF, i_init. apply WF_init; exact I. Qed.

Lemma IWF_step cfg e ev : ok_cfg cfg -> IWF cfg e -> ok_event ev -> IWF cfg (fst (i_step cfg e ev)).
Proof.
  intros Hc Hi He.
  exact (WF_step enc impl_steps encode_call enc_done decoder decoder_init decode_bytes ores ores_reset ores_resolve
           ires ires_reset ires_resolve validate_outbound_internal validate_inbound_internal cfg instance_comps_ok Hc e ev Hi He).
Qed.

Lemma IWF_WFS cfg e : IWF cfg e -> WFS e.
Proof. intros [[HW _] _]. exact HW. Qed.

Lemma i_step_st cfg e ev : IWF cfg e -> st_step (s_st e) ev (s_st (fst (i_step cfg e ev))).
Proof.
  intros Hi.
  exact (step_st enc impl_steps encode_call enc_done decoder decoder_init decode_bytes ores ores_reset ores_resolve
           ires ires_reset ires_resolve validate_outbound_internal validate_inbound_internal cfg e ev (IWF_WFS cfg e Hi)).
Qed.

(* ---- the adapter's results are the step's ---- *)
Lemma ie_opened_fst cfg e now dl : fst (ie_opened cfg e now dl) = fst (i_step cfg e (EvOpen (ms now) (ms dl))).
Proof. unfold ie_opened. destruct (i_step cfg e _); reflexivity. Qed.
Lemma ie_closed_fst cfg e now : fst (ie_closed cfg e now) = fst (i_step cfg e (EvClose (ms now))).
Proof. unfold ie_closed. destruct (i_step cfg e _); reflexivity. Qed.
Lemma ie_closed_snd cfg e now : snd (ie_closed cfg e now) = o_res (snd (i_step cfg e (EvClose (ms now)))).
Proof. unfold ie_closed. destruct (i_step cfg e _); reflexivity. Qed.
Lemma ie_data_fst cfg e now b : fst (fst (ie_data cfg e now b)) = fst (i_step cfg e (EvData (ms now) b)).
Proof. unfold ie_data. destruct (i_step cfg e _); reflexivity. Qed.
Lemma ie_data_evs cfg e now b :
  snd (fst (ie_data cfg e now b)) = flat_map pevents_of (o_events (snd (i_step cfg e (EvData (ms now) b)))).
Proof. unfold ie_data. destruct (i_step cfg e _); reflexivity. Qed.
Lemma ie_wc_fst cfg e now : fst (ie_wc cfg e now) = fst (i_step cfg e (EvWriteComplete (ms now))).
Proof. unfold ie_wc. destruct (i_step cfg e _); reflexivity. Qed.
Lemma ie_service_fst cfg e now f : fst (fst (ie_service cfg e now f)) = fst (i_step cfg e (EvService (ms now) 4096 f)).
Proof. unfold ie_service. destruct (i_step cfg e _); reflexivity. Qed.

(* ---- the state table, read through the client's tags ---- *)
Lemma st_user_fact st st' now p t : st_step st (EvUser now p t) st' -> fact_user (tag_of st) (tag_of st') = true.
Proof. cbn. intros [->|[-> ->]]; [destruct st|]; reflexivity. Qed.
Lemma st_reset_fact st st' now : st_step st (EvReset now) st' -> fact_user (tag_of st) (tag_of st') = true.
Proof. cbn. intros ->. destruct st; reflexivity. Qed.
Lemma st_data_fact st st' now b : st_step st (EvData now b) st' -> fact_other (tag_of st) (tag_of st') = true.
Proof. cbn. destruct st; intros H; repeat (destruct H as [H|H]); subst; reflexivity. Qed.
Lemma st_wc_fact st st' now : st_step st (EvWriteComplete now) st' -> fact_other (tag_of st) (tag_of st') = true.
Proof. cbn. destruct st; intros H; repeat (destruct H as [H|H]); subst; reflexivity. Qed.
Lemma st_service_fact st st' now cap f : st_step st (EvService now cap f) st' -> fact_other (tag_of st) (tag_of st') = true.
Proof. cbn. destruct st; intros H; repeat (destruct H as [H|H]); subst; reflexivity. Qed.

(* ---- packet events vs CONNACK events ---- *)
Lemma count_connacks_pevents l : count_connacks (flat_map pevents_of l) = length (connacks l).
Proof.
  unfold count_connacks. induction l as [|p l IH]; [reflexivity|].
  cbn [flat_map]. rewrite filter_app, app_length, IH.
  change (connacks (p :: l)) with ((match p with Connack c => [c] | _ => [] end) ++ connacks l). rewrite app_length.
  destruct p; reflexivity.
Qed.

Lemma success_pevents l :
  existsb is_success (flat_map pevents_of l) = true -> exists c, In c (connacks l) /\ ca_rc c = 0.
Proof.
  induction l as [|p l IH]; cbn [flat_map]; [discriminate|]. rewrite existsb_app. intros H.
  apply orb_prop in H. destruct H as [H|H].
  - destruct p as [x|x|x|x|x|x|x|x|x|x|x| | |x|x]; cbn in H; try discriminate. rewrite orb_false_r in H. exists x. split; [left; reflexivity|].
    apply N.eqb_eq. destruct (ca_rc x =? 0); [reflexivity|discriminate].
  - destruct (IH H) as (c & Hin & Hc). exists c. split; [|exact Hc].
    change (connacks (p :: l)) with ((match p with Connack c => [c] | _ => [] end) ++ connacks l). apply in_or_app. right. exact Hin.
Qed.

Lemma tag_of_connected st : tag_of st = TConnected -> st = Connected.
Proof. destruct st; cbn; intros H; try reflexivity; discriminate. Qed.

Lemma tag_of_pc st : tag_of st = TPendingConnack <-> st = PendingConnack.
Proof. destruct st; cbn; split; intros H; try reflexivity; discriminate. Qed.

(* ---- the eight facts ---- *)
Section Facts.
  Variable cfg : config.
  Hypothesis Hcfg : ok_cfg cfg.

  Lemma ie_fact_user e now u : IWF cfg e -> fact_user (ie_tag e) (ie_tag (ie_user cfg e now u)) = true.
  Proof. intros Hi. unfold ie_tag, ie_user. eapply st_user_fact. apply i_step_st. exact Hi. Qed.

  Lemma ie_fact_disc e now d : IWF cfg e -> fact_user (ie_tag e) (ie_tag (ie_disc cfg e now d)) = true.
  Proof. intros Hi. unfold ie_tag, ie_disc. eapply st_user_fact. apply i_step_st. exact Hi. Qed.

  Lemma ie_fact_reset e now : IWF cfg e -> fact_user (ie_tag e) (ie_tag (ie_reset cfg e now)) = true.
  Proof. intros Hi. unfold ie_tag, ie_reset. eapply st_reset_fact. apply i_step_st. exact Hi. Qed.

  Lemma ie_fact_closed e now :
    IWF cfg e -> fact_closed (ie_tag e) (is_ok (snd (ie_closed cfg e now))) (ie_tag (fst (ie_closed cfg e now))) = true.
  Proof.
    intros Hi. destruct (pstate_eqb (s_st e) Disconnected) eqn:Est.
    - apply pstate_eqb_eq in Est. apply ie_fact_closed_disconnected. unfold ie_tag. rewrite Est. reflexivity.
    - apply pstate_eqb_neq in Est. rewrite ie_closed_fst, ie_closed_snd. unfold ie_tag, i_step, Model.step, out_of_res. cbn [fst snd o_res].
      destruct (net_closed_spec cfg e (IWF_WFS cfg e Hi) Est) as (E & _ & S1 & _). cbv zeta in E, S1.
      rewrite E. cbn [halt_on_error is_ok]. rewrite S1. destruct (s_st e); try reflexivity. congruence.
  Qed.

  Lemma ie_fact_data e now b :
    IWF cfg e -> fact_data (ie_tag e) (snd (fst (ie_data cfg e now b))) (ie_tag (fst (fst (ie_data cfg e now b)))) = true.
  Proof.
    intros Hi. rewrite ie_data_fst, ie_data_evs. unfold ie_tag.
    pose proof (st_data_fact _ _ _ _ (i_step_st cfg e (EvData (ms now) b) Hi)) as Ho.
    revert Ho. unfold i_step, Model.step. cbn [fst snd o_events]. intros Ho.
    destruct (net_data_connacks decode_bytes ores_reset ires_reset ires_resolve validate_inbound_internal cfg e (ms now) b) as (A & B & C).
    cbv zeta in A, B, C.
    unfold fact_data. rewrite Ho, count_connacks_pevents. cbn [andb].
    apply andb_true_intro. split; [apply andb_true_intro; split|].
    - apply Nat.leb_le. exact B.
    - destruct (etag_eqb (tag_of (s_st e)) TPendingConnack) eqn:Et; [reflexivity|]. cbn [orb].
      rewrite A; [reflexivity|]. intros E. rewrite E in Et. discriminate.
    - match goal with |- negb ?x || _ = true => destruct x eqn:Es end; [|reflexivity]. cbn [negb orb].
      destruct (success_pevents _ Es) as (c & Hin & Hrc). specialize (C c Hin Hrc).
      match goal with |- negb (etag_eqb (tag_of ?st) _) = true => destruct st eqn:E' end; try reflexivity. congruence.
  Qed.

  Lemma ie_fact_wc e now : IWF cfg e -> fact_other (ie_tag e) (ie_tag (fst (ie_wc cfg e now))) = true.
  Proof. intros Hi. rewrite ie_wc_fst. unfold ie_tag. eapply st_wc_fact. apply i_step_st. exact Hi. Qed.

  Lemma ie_fact_service e now f : IWF cfg e -> fact_other (ie_tag e) (ie_tag (fst (fst (ie_service cfg e now f)))) = true.
  Proof. intros Hi. rewrite ie_service_fst. unfold ie_tag. eapply st_service_fact. apply i_step_st. exact Hi. Qed.

  Theorem ie_engine_facts :
    engine_facts_inv istate U packet (IWF cfg) clock_ms_ok ie_tag (ie_user cfg) (ie_disc cfg) (ie_reset cfg)
      (ie_opened cfg) (ie_closed cfg) (ie_data cfg) (ie_wc cfg) (ie_service cfg).
  Proof.
    unfold engine_facts_inv. repeat match goal with |- _ /\ _ => split end.
    - intros e now u Hi. apply IWF_step; auto. exact I.
    - intros e now d Hi. apply IWF_step; auto. exact I.
    - intros e now Hi. apply IWF_step; auto. exact I.
    - intros e now dl Hi. rewrite ie_opened_fst. apply IWF_step; auto. exact I.
    - intros e now Hi. rewrite ie_closed_fst. apply IWF_step; auto. exact I.
    - intros e now b Hi. rewrite ie_data_fst. apply IWF_step; auto. exact I.
    - intros e now Hi. rewrite ie_wc_fst. apply IWF_step; auto. exact I.
    - intros e now f Hi Ht. rewrite ie_service_fst. apply IWF_step; auto. split; [exact Ht|]. lia.
    - intros; apply ie_fact_user; assumption.
    - intros; apply ie_fact_disc; assumption.
    - intros; apply ie_fact_reset; assumption.
    - intros; apply ie_fact_opened.
    - intros; apply ie_fact_closed; assumption.
    - intros; apply ie_fact_data; assumption.
    - intros; apply ie_fact_wc; assumption.
    - intros; apply ie_fact_service; assumption.
  Qed.
End Facts.

(* ---- the lifecycle theorems for the composed model: no engine hypothesis ---- *)
Section Composed.
  Variable cfg : config.
  Hypothesis Hcfg : ok_cfg cfg.
  Variable k : resolver_kind.
  Variable thr : bool.
  Variable bc : Backoff.cfg.
  Variable timeout : N.

  Notation creach h := (i_drun cfg thr (i_dinit cfg k bc timeout) h).
  Notation ccheck s now := (check istate (ie_opened cfg) (ie_closed cfg) thr s now).

  Theorem composed_event_grammar h : i_clock_ok h -> grammar_ok (d_log (creach h)) = true.
  Proof.
    exact (event_grammar_inv istate U packet (IWF cfg) clock_ms_ok ie_tag (ie_user cfg) (ie_disc cfg) (ie_reset cfg)
             (ie_opened cfg) (ie_closed cfg) (ie_data cfg) (ie_wc cfg) (ie_service cfg) (ie_nst cfg)
             (ie_engine_facts cfg Hcfg) thr (i_init cfg k) bc timeout (IWF_init cfg k) eq_refl h).
  Qed.

  Theorem composed_loop_alive h : i_clock_ok h -> d_status (creach h) <> Dead.
  Proof.
    exact (loop_alive_inv istate U packet (IWF cfg) clock_ms_ok ie_tag (ie_user cfg) (ie_disc cfg) (ie_reset cfg)
             (ie_opened cfg) (ie_closed cfg) (ie_data cfg) (ie_wc cfg) (ie_service cfg) (ie_nst cfg)
             (ie_engine_facts cfg Hcfg) thr (i_init cfg k) bc timeout (IWF_init cfg k) eq_refl h).
  Qed.

  Theorem composed_stop_stops h now :
    i_clock_ok h ->
    let s := creach h in
    d_status s = Running -> c_des (d_c s) = CStopped -> (cur s <> CConnected \/ c_stop (d_c s) <> SDisc) ->
    let s' := ccheck s now in
    d_status s' = Running /\ cur s' = CStopped /\ c_des (d_c s') = CStopped /\
    exists evs, d_log s' = d_log s ++ evs /\
                count_stopped evs = (if cstate_eqb (cur s) CStopped then 0 else 1)%nat /\
                existsb is_attempt_ev evs = false.
  Proof.
    exact (stop_stops_reach_inv istate U packet (IWF cfg) clock_ms_ok ie_tag (ie_user cfg) (ie_disc cfg) (ie_reset cfg)
             (ie_opened cfg) (ie_closed cfg) (ie_data cfg) (ie_wc cfg) (ie_service cfg) (ie_nst cfg)
             (ie_engine_facts cfg Hcfg) thr (i_init cfg k) bc timeout (IWF_init cfg k) eq_refl h now).
  Qed.

  Theorem composed_stop_stops_two_events h now now' d :
    i_clock_ok h ->
    let s := creach h in
    d_status s = Running -> d_flush s = false -> d_pos s = 0 ->
    c_stop (handle_op istate U packet ie_tag (ie_user cfg) (ie_disc cfg) (ie_reset cfg) (d_c s) now (OpStop d)) <> SDisc ->
    let s2 := i_dstep cfg thr (i_dstep cfg thr s now (DOp (OpStop d))) now' DCheck in
    d_status s2 = Running /\ cur s2 = CStopped /\ c_des (d_c s2) = CStopped /\
    exists evs, d_log s2 = d_log s ++ evs /\
                count_stopped evs = (if cstate_eqb (cur s) CStopped then 0 else 1)%nat /\
                existsb is_attempt_ev evs = false.
  Proof.
    exact (stop_stops_two_reach_inv istate U packet (IWF cfg) clock_ms_ok ie_tag (ie_user cfg) (ie_disc cfg) (ie_reset cfg)
             (ie_opened cfg) (ie_closed cfg) (ie_data cfg) (ie_wc cfg) (ie_service cfg) (ie_nst cfg)
             (ie_engine_facts cfg Hcfg) thr (i_init cfg k) bc timeout (IWF_init cfg k) eq_refl h now now' d).
  Qed.

  Theorem composed_stop_waits_only_when_established h now d :
    i_clock_ok h ->
    let s := creach h in
    d_status s = Running ->
    let c' := handle_op istate U packet ie_tag (ie_user cfg) (ie_disc cfg) (ie_reset cfg) (d_c s) now (OpStop d) in
    c_stop c' = SDisc -> c_cur c' = CConnected /\ s_st (c_eng c') = Connected.
  Proof.
    intros Hh s Hrun c' Hs.
    destruct (stop_waits_only_when_established_inv istate U packet (IWF cfg) clock_ms_ok ie_tag (ie_user cfg) (ie_disc cfg) (ie_reset cfg)
             (ie_opened cfg) (ie_closed cfg) (ie_data cfg) (ie_wc cfg) (ie_service cfg) (ie_nst cfg)
             (ie_engine_facts cfg Hcfg) thr (i_init cfg k) bc timeout (IWF_init cfg k) eq_refl h now d Hh Hrun Hs) as [A B].
    split; [exact A|]. apply tag_of_connected. exact B.
  Qed.

  Theorem composed_restartable h now :
    let s := creach h in
    d_status s = Running -> cur s = CStopped -> c_des (d_c s) = CConnected ->
    let s' := ccheck s now in
    cur s' = CConnecting /\ d_log s' = d_log s ++ [EvAttempt] /\ d_status s' <> Dead.
  Proof.
    exact (restartable_reach_inv istate U packet ie_tag (ie_user cfg) (ie_disc cfg) (ie_reset cfg)
             (ie_opened cfg) (ie_closed cfg) (ie_data cfg) (ie_wc cfg) (ie_service cfg) (ie_nst cfg)
             thr (i_init cfg k) bc timeout h now).
  Qed.

  Theorem composed_close_terminal h now k' :
    i_clock_ok h ->
    let s := creach h in
    d_status s = Running -> c_des (d_c s) = CShutdown -> (cur s <> CConnected \/ c_stop (d_c s) <> SDisc) ->
    let s' := ccheck s now in
    d_status s' = Exited /\
    existsb is_attempt_ev (skipn (length (d_log s)) (d_log s')) = false /\
    i_drun cfg thr s' k' = s'.
  Proof.
    exact (close_terminal_reach_inv istate U packet (IWF cfg) clock_ms_ok ie_tag (ie_user cfg) (ie_disc cfg) (ie_reset cfg)
             (ie_opened cfg) (ie_closed cfg) (ie_data cfg) (ie_wc cfg) (ie_service cfg) (ie_nst cfg)
             (ie_engine_facts cfg Hcfg) thr (i_init cfg k) bc timeout (IWF_init cfg k) eq_refl h now k').
  Qed.

  (* the engine inside every reachable state of the composed model is well-formed: no engine call of the client panics *)
  Theorem composed_engine_wf h : i_clock_ok h -> d_status (creach h) = Running -> IWF cfg (c_eng (d_c (creach h))).
  Proof.
    intros Hh Hrun.
    destruct (reach_dinv_inv istate U packet (IWF cfg) clock_ms_ok ie_tag (ie_user cfg) (ie_disc cfg) (ie_reset cfg)
             (ie_opened cfg) (ie_closed cfg) (ie_data cfg) (ie_wc cfg) (ie_service cfg) (ie_nst cfg)
             (ie_engine_facts cfg Hcfg) thr (i_init cfg k) bc timeout (IWF_init cfg k) eq_refl h Hh) as (_ & _ & Hr).
    destruct (Hr Hrun) as [[Hi _] _]. exact Hi.
  Qed.
End Composed.

(* ---- a run of the composed model, both drivers: start, transport up, CONNECT written, the broker's CONNACK (bytes produced by
   the reference encoder Codec/SpecEncodeS2C), stop with a DISCONNECT packet, DISCONNECT written and flushed, then EOF ---- *)
Definition w_connack : connack :=
  {| ca_session_present := false; ca_rc := 0; ca_sei := None; ca_receive_max := None; ca_max_qos := None;
     ca_retain_avail := None; ca_max_packet := None; ca_assigned_id := None; ca_tam := None; ca_reason := None;
     ca_up := None; ca_wildcard := None; ca_subid_avail := None; ca_shared := None; ca_server_keep_alive := None;
     ca_response_info := None; ca_server_ref := None; ca_auth_method := None; ca_auth_data := None |}.
Definition w_connack_wire : bytes :=
  match SpecEncodeS2C.spec_encode V5 (Connack w_connack) with Some b => b | None => [] end.
Definition MS : N := 1000000.
Definition w_composed_history : list (N * idev) :=
  [ (1 * MS, DOp OpStart); (1 * MS, DCheck);                                         (* Stopped -> Connecting: Attempt *)
    (2 * MS, DConnOk);                                                               (* transport up: the engine awaits the CONNACK *)
    (3 * MS, DService); (3 * MS, DWrite (WOk 17)); (3 * MS, DFlush true); (3 * MS, DCheck);   (* CONNECT written and flushed *)
    (4 * MS, DRead w_connack_wire); (4 * MS, DCheck);                                (* successful CONNACK: Success *)
    (5 * MS, DOp (OpStop (Some w_disconnect))); (5 * MS, DCheck);                    (* stop with DISCONNECT: waits for the packet *)
    (6 * MS, DService); (6 * MS, DWrite (WOk 2)); (6 * MS, DFlush true); (6 * MS, DCheck);    (* DISCONNECT written and flushed *)
    (7 * MS, DReadEof); (7 * MS, DCheck) ].                                          (* the broker closes: nothing left to do *)

Lemma w_cfg_ok : ok_cfg w_cfg.
Proof. unfold ok_cfg. vm_compute. discriminate. Qed.

Lemma w_composed_history_clock_ok : i_clock_ok w_composed_history.
Proof. unfold i_clock_ok. repeat constructor; vm_compute; discriminate. Qed.

Theorem composed_run : forall thr,
  w_connack_wire = [32; 3; 0; 0; 0] /\
  (let s := i_drun w_cfg thr w_init (firstn 11 w_composed_history) in
   d_log s = [EvAttempt; EvSuccess] /\ cur s = CConnected /\ c_stop (d_c s) = SDisc /\ s_st (c_eng (d_c s)) = Connected) /\
  (let s := i_drun w_cfg thr w_init w_composed_history in
   d_log s = [EvAttempt; EvSuccess; EvDisconnection EUserInitiatedDisconnect false; EvStopped] /\
   cur s = CStopped /\ d_status s = Running /\ s_st (c_eng (d_c s)) = Disconnected /\
   map fst (map fst (d_conns s)) = [[16; 15; 0; 4; 77; 81; 84; 84; 5; 2; 0; 0; 0; 0; 2; 97; 97; 224; 0]]).
Proof. intros []; vm_compute; repeat split; reflexivity. Qed.
