(* C13, write / read path of the event-loop model (Client/Driver.v): whatever the transport answers to the
   write calls, the bytes it accepted plus the unwritten tail of the buffer are exactly the concatenation of
   the engine's outputs, in order; write completion is reported only when everything produced so far has
   been accepted.  No assumption about the engine: it is an arbitrary Section variable here. *)
From GM Require Import Base.Prelude Base.Outcome Client.Backoff Client.Impl Client.Driver.
Open Scope N_scope.

Section Bytes.

  Variable E U D : Type.
  Variable e_tag : E -> etag.
  Variable e_user : E -> N -> U -> E.
  Variable e_disc : E -> N -> D -> E.
  Variable e_reset : E -> N -> E.
  Variable e_opened : E -> N -> N -> E * outcome unit.
  Variable e_closed : E -> N -> E * outcome unit.
  Variable e_data : E -> N -> bytes -> E * list pevent * outcome unit.
  Variable e_wc : E -> N -> E * outcome unit.
  Variable e_service : E -> N -> N -> E * bytes * outcome unit.
  Variable e_nst : E -> N -> option N.
  Variable thr : bool.

  Notation dstate := (Driver.dstate E).
  Notation dstep := (Driver.dstep E U D e_tag e_user e_disc e_reset e_opened e_closed e_data e_wc e_service e_nst thr).
  Notation drun := (Driver.drun E U D e_tag e_user e_disc e_reset e_opened e_closed e_data e_wc e_service e_nst thr).
  Notation leave := (Driver.leave E e_opened e_closed thr).
  Notation enter := (Driver.enter E thr).
  Notation check := (Driver.check E e_opened e_closed thr).
  Notation after_event := (Driver.after_event E e_opened e_closed thr).
  Notation fail_with := (Driver.fail_with E e_opened e_closed thr).
  Notation do_op := (Driver.do_op E U D e_tag e_user e_disc e_reset e_opened e_closed thr).
  Notation step_connected := (Driver.step_connected E U D e_tag e_user e_disc e_reset e_opened e_closed e_data e_wc e_service e_nst thr).

  (* the invariant of the current connection's byte accounting *)
  Definition conn_ok (buf : bytes) (cursor : N) (fl : bool) (wire : bytes) (outs wcs : list bytes) : Prop :=
    wire ++ skipn (N.to_nat cursor) buf = concat outs /\
    cursor <= len buf /\
    Forall (fun w => exists k, (k <= length outs)%nat /\ w = concat (firstn k outs)) wcs /\
    (fl = true -> buf = [] /\ cursor = 0).

  (* a finished connection: what the transport got is a prefix of what the engine produced *)
  Definition finished_ok (c : bytes * list bytes * list bytes) : Prop :=
    let '(wire, outs, wcs) := c in
    (exists tail, wire ++ tail = concat outs) /\
    Forall (fun w => exists k, (k <= length outs)%nat /\ w = concat (firstn k outs)) wcs.

  Definition binv (s : dstate) : Prop :=
    conn_ok (d_buf s) (d_cursor s) (d_flush s) (d_wire s) (d_outs s) (d_wcs s) /\ Forall finished_ok (d_conns s).

  Lemma conn_ok_fresh : conn_ok [] 0 false [] [] [].
  Proof. repeat split; auto; try discriminate; try (cbn; lia). Qed.

  Lemma conn_ok_unflush buf cursor fl wire outs wcs :
    conn_ok buf cursor fl wire outs wcs -> conn_ok buf cursor false wire outs wcs.
  Proof. intros (A & B & C & _). repeat split; auto; discriminate. Qed.

  Lemma conn_ok_finished buf cursor fl wire outs wcs :
    conn_ok buf cursor fl wire outs wcs -> finished_ok (wire, outs, wcs).
  Proof. intros (A & B & C & _). split; eauto. Qed.

  (* same buffer fields, same invariant *)
  Lemma binv_ext (s s' : dstate) :
    d_buf s' = d_buf s -> d_cursor s' = d_cursor s -> d_wire s' = d_wire s -> d_outs s' = d_outs s ->
    d_wcs s' = d_wcs s -> d_conns s' = d_conns s -> (d_flush s' = d_flush s \/ d_flush s' = false) ->
    binv s -> binv s'.
  Proof.
    unfold binv. intros -> -> -> -> -> -> Hf [H1 H2]. split; auto.
    destruct Hf as [-> | ->]; auto. eapply conn_ok_unflush; eauto.
  Qed.

  Lemma binv_upd_c s c evs : binv s -> binv (upd_c E s c evs).
  Proof. intros H. eapply binv_ext; [..|exact H]; auto. Qed.
  Lemma binv_set_status s x : binv s -> binv (set_status E s x).
  Proof. intros H. eapply binv_ext; [..|exact H]; auto. Qed.
  Lemma binv_set_pos s p : binv s -> binv (set_pos E s p).
  Proof. intros H. eapply binv_ext; [..|exact H]; auto. Qed.

  Lemma binv_enter s now old : binv s -> binv (enter s now old).
  Proof.
    intros [H1 H2]. unfold Driver.enter. cbv zeta.
    match goal with |- context [if ?c then ?a else ?b] => set (ended := if c then a else b) end.
    assert (He : Forall finished_ok ended).
    { subst ended. match goal with |- context [if ?c then _ else _] => destruct c end; auto.
      apply Forall_app. split; auto. constructor; auto. eapply conn_ok_finished; eauto. }
    assert (Hk : conn_ok (d_buf s) (d_cursor s) false (d_wire s) (d_outs s) (d_wcs s)) by (eapply conn_ok_unflush; eauto).
    clearbody ended. unfold cur, set_pos. cbn [d_c]. destruct (c_cur (d_c s)); cbn.
    - split; cbn; auto.
    - destruct thr; [destruct (add_saturating 92 now _)|]; split; cbn; auto.
    - split; cbn; auto. apply conn_ok_fresh.
    - unfold advance_reconnect_period. cbn. destruct (advance _ now) as [b w]. cbn.
      destruct thr; [destruct (add_saturating 333 now w)|]; split; cbn; auto.
    - split; cbn; auto.
  Qed.

  Lemma binv_leave s now t : binv s -> binv (leave s now t).
  Proof.
    intros H. unfold Driver.leave.
    destruct (transition E e_opened e_closed (d_c s) now t) as [[c' evs] [[]|k|site]].
    - destruct (cstate_eqb t CShutdown).
      + apply binv_set_status, binv_enter, binv_upd_c, H.
      + destruct (cstate_eqb (cur s) (c_cur c')); [apply binv_upd_c, H | apply binv_enter, binv_upd_c, H].
    - apply binv_set_status, binv_upd_c, H.
    - apply binv_set_status, binv_upd_c, H.
  Qed.

  Lemma binv_check s now : binv s -> binv (check s now).
  Proof.
    intros H. unfold Driver.check. destruct (compute_optional_state_transition (d_c s)).
    - apply binv_leave, H.
    - apply binv_set_pos, H.
  Qed.

  Lemma binv_after_event s now : binv s -> binv (after_event s now).
  Proof. intros H. pose proof (binv_check s now H). unfold Driver.after_event. destruct thr; auto. Qed.

  Lemma binv_fail_with s now k : binv s -> binv (fail_with s now k).
  Proof. intros H. unfold Driver.fail_with. apply binv_leave, binv_upd_c, H. Qed.

  Lemma binv_do_op s now o : binv s -> binv (do_op s now o).
  Proof. intros H. unfold Driver.do_op. apply binv_after_event, binv_upd_c, H. Qed.

  Lemma binv_with_buf s c buf cursor fl wire outs fed wcs :
    conn_ok buf cursor fl wire outs wcs -> Forall finished_ok (d_conns s) ->
    binv (with_buf E s c buf cursor fl wire outs fed wcs).
  Proof. intros H1 H2. split; cbn; auto. Qed.

  Lemma firstn_le_app {A} k (l l' : list A) : (k <= length l)%nat -> firstn k (l ++ l') = firstn k l.
  Proof.
    intros H. rewrite firstn_app. replace (k - length l)%nat with 0%nat by lia. cbn. apply app_nil_r.
  Qed.

  Lemma skipn_app_le {A} k (l l' : list A) : (k <= length l)%nat -> skipn k (l ++ l') = skipn k l ++ l'.
  Proof.
    intros H. rewrite skipn_app. replace (k - length l)%nat with 0%nat by lia. reflexivity.
  Qed.

  Lemma skipn_add {A} (l : list A) : forall c n, skipn (n + c) l = skipn n (skipn c l).
  Proof.
    induction l as [|x l IH]; intros c n.
    - rewrite !skipn_nil. reflexivity.
    - destruct c as [|c].
      + rewrite Nat.add_0_r. reflexivity.
      + replace (n + S c)%nat with (S (n + c)) by lia. cbn. apply IH.
  Qed.

  Lemma binv_step_connected s now e : binv s -> binv (step_connected s now e).
  Proof.
    intros H. pose proof H as [(A & B & C & F) H2]. unfold Driver.step_connected.
    destruct (d_flush s) eqn:Hfl.
    - (* the flush of a completed batch *)
      destruct e; auto. destruct (F eq_refl) as [Hb Hc].
      assert (Hw : d_wire s = concat (d_outs s)).
      { rewrite <- A. rewrite Hb. destruct (N.to_nat (d_cursor s)); cbn; rewrite app_nil_r; reflexivity. }
      assert (K0 : conn_ok (d_buf s) (d_cursor s) false (d_wire s) (d_outs s) (d_wcs s)) by (repeat split; auto; discriminate).
      destruct ok.
      + destruct (handle_write_completion E e_wc _ now) as [c' r].
        assert (K1 : conn_ok (d_buf s) (d_cursor s) false (d_wire s) (d_outs s) (d_wcs s ++ [d_wire s])).
        { repeat split; auto; try discriminate. apply Forall_app. split; auto. constructor; auto.
          exists (length (d_outs s)). split; auto. rewrite firstn_all. exact Hw. }
        destruct r as [[]|k|site].
        * apply binv_after_event, binv_with_buf; cbn; auto.
        * apply binv_fail_with, binv_with_buf; cbn; auto.
        * apply binv_set_status, binv_with_buf; cbn; auto.
      + apply binv_fail_with, binv_with_buf; cbn; auto.
    - destruct e; auto.
      + apply binv_do_op, H.
      + destruct data as [|b data]; auto.
        destruct (handle_incoming_bytes E e_data (d_c s) now (b :: data)) as [[c' evs] r].
        assert (K : binv (upd_c E (with_buf E s (d_c s) (d_buf s) (d_cursor s) false (d_wire s) (d_outs s)
                                            (d_fed s ++ [b :: data]) (d_wcs s)) c' evs)).
        { apply binv_upd_c, binv_with_buf; auto. repeat split; auto; discriminate. }
        destruct r as [[]|k|site]; [apply binv_after_event | apply binv_fail_with | apply binv_set_status]; exact K.
      + apply binv_fail_with, H.
      + apply binv_after_event, H.
      + apply binv_fail_with, H.
      + (* service: the engine appends to the buffer *)
        destruct (next_service_time E e_nst (d_c s) now) as [t|]; [|apply binv_after_event, H].
        destruct (t <=? now); [|apply binv_after_event, H].
        destruct (handle_service E e_service (d_c s) now (len (d_buf s))) as [[c' out] r].
        assert (K : conn_ok (d_buf s ++ out) (d_cursor s) false (d_wire s) (d_outs s ++ [out]) (d_wcs s)).
        { repeat split; try discriminate.
          - rewrite skipn_app_le by (unfold len in B; lia). rewrite app_assoc, A, concat_app. cbn. rewrite app_nil_r. reflexivity.
          - rewrite len_app. lia.
          - eapply Forall_impl; [|exact C]. intros w (k & Hk & ->). exists k. split; [rewrite app_length; lia|].
            rewrite firstn_le_app by exact Hk. reflexivity. }
        destruct r as [[]|k|site]; [apply binv_after_event | apply binv_fail_with | apply binv_set_status];
          apply binv_with_buf; auto.
      + (* write: the transport's answer *)
        destruct (d_cursor s <? len (d_buf s)) eqn:Hlt; auto. apply N.ltb_lt in Hlt.
        destruct r as [n| | |].
        * destruct (len (d_buf s) - d_cursor s <? n) eqn:Hn; auto. apply N.ltb_ge in Hn.
          destruct (n =? 0) eqn:Hz.
          -- pose proof (binv_fail_with s now (io_error_kind E e_tag s) H). pose proof (binv_after_event s now H).
             destruct thr; auto.
          -- apply N.eqb_neq in Hz.
             set (written := firstn (N.to_nat n) (skipn (N.to_nat (d_cursor s)) (d_buf s))).
             assert (Hsplit : written ++ skipn (N.to_nat (d_cursor s + n)) (d_buf s) = skipn (N.to_nat (d_cursor s)) (d_buf s)).
             { subst written. replace (N.to_nat (d_cursor s + n)) with (N.to_nat n + N.to_nat (d_cursor s))%nat by lia.
               rewrite skipn_add. apply firstn_skipn. }
             destruct (d_cursor s + n =? len (d_buf s)) eqn:Hend.
             ++ apply N.eqb_eq in Hend. apply binv_with_buf; auto.
                repeat split; auto; try (cbn; lia).
                ** cbn. rewrite app_nil_r. rewrite <- A, <- Hsplit, Hend.
                   replace (N.to_nat (len (d_buf s))) with (length (d_buf s)) by (unfold len; lia).
                   rewrite skipn_all. rewrite app_nil_r. reflexivity.
             ++ apply N.eqb_neq in Hend. apply binv_after_event, binv_with_buf; auto.
                repeat split; auto; try discriminate; try lia.
                rewrite <- app_assoc, Hsplit. exact A.
        * apply binv_after_event, H.
        * pose proof (binv_fail_with s now (io_error_kind E e_tag s) H). pose proof (binv_after_event s now H).
          destruct thr; auto.
        * apply binv_fail_with, H.
      + apply binv_check, H.
  Qed.

  Lemma binv_dstep s now e : binv s -> binv (dstep s now e).
  Proof.
    intros H. unfold Driver.dstep. destruct (d_status s); auto.
    destruct (negb (in_order E U D thr s e)); auto.
    assert (H0 : binv (advance_pos E U D thr s e)) by (unfold advance_pos; destruct thr; auto; apply binv_set_pos, H).
    set (s0 := advance_pos E U D thr s e) in *.
    destruct (cur s0).
    - destruct e; auto; [apply binv_do_op | apply binv_check]; auto.
    - destruct e; auto; [apply binv_do_op | apply binv_leave | apply binv_fail_with | apply binv_fail_with | apply binv_check]; auto.
    - apply binv_step_connected, H0.
    - destruct e; auto; [apply binv_do_op | apply binv_leave | apply binv_check]; auto.
    - apply binv_set_status, H0.
  Qed.

  Lemma binv_drun h : forall s, binv s -> binv (drun s h).
  Proof. induction h as [|[now e] h IH]; intros s H; cbn; auto. apply IH, binv_dstep, H. Qed.

  Lemma binv_init e0 bc timeout : binv (dinit E e0 bc timeout).
  Proof. split; cbn; auto. apply conn_ok_fresh. Qed.

  (* C13_bytes_out *)
  Theorem bytes_out e0 bc timeout h :
    let s := drun (dinit E e0 bc timeout) h in
    (* the live connection: accepted bytes ++ unwritten tail = everything the engine produced, in order *)
    d_wire s ++ skipn (N.to_nat (d_cursor s)) (d_buf s) = concat (d_outs s) /\
    (* every write completion was reported when exactly the outputs produced so far had been accepted *)
    Forall (fun w => exists k, (k <= length (d_outs s))%nat /\ w = concat (firstn k (d_outs s))) (d_wcs s) /\
    (* every finished connection: the transport got a prefix of the outputs, never anything else *)
    Forall finished_ok (d_conns s).
  Proof.
    intros s. destruct (binv_drun h _ (binv_init e0 bc timeout)) as [(A & B & C & F) H2].
    repeat split; auto.
  Qed.

End Bytes.

(* C13_bytes_in: a non-empty read is handed to the engine once, unchanged, in arrival order (the per-connection
   record of fragments grows by exactly that fragment) before the loop does anything else.  Definitional in the
   model: process_connected passes `&inbound_data[..bytes_read]` straight to handle_incoming_bytes. *)
Theorem bytes_in_step E U D e_tag e_user e_disc e_reset e_opened e_closed e_data e_wc e_service e_nst thr
    (s : dstate E) now b data :
  d_flush s = false ->
  exists s1 : dstate E,
    d_fed s1 = d_fed s ++ [b :: data] /\
    d_c s1 = fst (fst (handle_incoming_bytes E e_data (d_c s) now (b :: data))) /\
    d_wire s1 = d_wire s /\ d_buf s1 = d_buf s /\
    step_connected E U D e_tag e_user e_disc e_reset e_opened e_closed e_data e_wc e_service e_nst thr s now (DRead (b :: data)) =
    match snd (handle_incoming_bytes E e_data (d_c s) now (b :: data)) with
    | Ok _ => after_event E e_opened e_closed thr s1 now
    | Err k => fail_with E e_opened e_closed thr s1 now k
    | Panic _ => set_status E s1 Panicked
    end.
Proof.
  intros Hf. unfold step_connected. rewrite Hf.
  destruct (handle_incoming_bytes E e_data (d_c s) now (b :: data)) as [[c' evs] r]. cbn [fst snd].
  exists (upd_c E (with_buf E s (d_c s) (d_buf s) (d_cursor s) false (d_wire s) (d_outs s) (d_fed s ++ [b :: data]) (d_wcs s)) c' evs).
  repeat split; reflexivity.
Qed.
