(* Proofs about the operation / result channel model (Client/ResultSlot.v). *)
From GM Require Import Base.Prelude Client.ResultSlot.
Open Scope N_scope.

Lemma cnt_nil id : cnt id [] = 0%nat.
Proof. reflexivity. Qed.

Lemma cnt_cons id x l : cnt id (x :: l) = ((if N.eq_dec x id then 1 else 0) + cnt id l)%nat.
Proof.
  unfold cnt. destruct (N.eq_dec x id) as [E|E].
  - rewrite count_occ_cons_eq by exact E. lia.
  - rewrite count_occ_cons_neq by exact E. lia.
Qed.

Lemma cnt_app id a b : cnt id (a ++ b) = (cnt id a + cnt id b)%nat.
Proof. unfold cnt. apply count_occ_app. Qed.

Lemma cnt_map_fst id (f : N -> rresult) l : cnt id (map fst (map (fun x => (x, f x)) l)) = cnt id l.
Proof. rewrite map_map. cbn [fst]. rewrite map_id. reflexivity. Qed.

Lemma cnt_remove_first id x l :
  memN x l = true -> (cnt id (remove_first x l) + (if N.eq_dec x id then 1 else 0) = cnt id l)%nat.
Proof.
  unfold memN. induction l as [|y l IH]; cbn [existsb remove_first]; [discriminate|].
  intros H. rewrite cnt_cons. destruct (y =? x) eqn:Eyx.
  - apply N.eqb_eq in Eyx. subst y. lia.
  - assert (Hm : existsb (N.eqb x) l = true).
    { rewrite N.eqb_sym in Eyx. rewrite Eyx in H. exact H. }
    specialize (IH Hm). rewrite cnt_cons. lia.
Qed.

Lemma accounted_orphan thr s ids id :
  accounted id (orphan thr s ids) = (accounted id s + cnt id ids)%nat.
Proof.
  unfold accounted, orphan. destruct thr; cbn [r_chan r_eng r_done r_lost]; rewrite ?map_app, ?cnt_app.
  - lia.
  - rewrite (cnt_map_fst id (fun _ => ResSenderDropped)). lia.
Qed.

(* every step moves operations between the buckets; only a submission adds one *)
Lemma accounted_step thr s e id :
  accounted id (rstep thr s e) =
  (accounted id s + match e with RSubmit x => if N.eq_dec x id then 1 else 0 | _ => 0 end)%nat.
Proof.
  destruct e as [x| |x| | |x]; cbn [rstep].
  - destruct (r_alive s); unfold accounted; cbn [r_chan r_eng r_done r_lost]; rewrite ?map_app, ?cnt_app; cbn [map fst];
      rewrite ?cnt_cons, ?cnt_nil; lia.
  - destruct (r_alive s); [|lia]. destruct (r_chan s) as [|y rest] eqn:Hc; [lia|].
    unfold accounted. cbn [r_chan r_eng r_done r_lost]. rewrite Hc, cnt_app, !cnt_cons, cnt_nil. lia.
  - destruct (r_alive s && memN x (r_eng s)) eqn:H; [|lia].
    apply andb_prop in H. destruct H as [_ Hm].
    pose proof (cnt_remove_first id x (r_eng s) Hm) as Hr.
    unfold accounted. cbn [r_chan r_eng r_done r_lost]. rewrite map_app, cnt_app. cbn [map fst]. rewrite cnt_cons, cnt_nil. lia.
  - destruct (r_alive s); [|lia]. rewrite accounted_orphan. unfold accounted. cbn [r_chan r_eng r_done r_lost].
    rewrite map_app, cnt_app, (cnt_map_fst id (fun _ => ResClientClosed)), !cnt_nil. lia.
  - destruct (r_alive s); [|lia]. rewrite accounted_orphan. unfold accounted. cbn [r_chan r_eng r_done r_lost]. rewrite cnt_app, !cnt_nil. lia.
  - unfold accounted. cbn [r_chan r_eng r_done r_lost]. lia.
Qed.

Lemma cnt_submitted_app id a b : cnt id (submitted (a ++ b)) = (cnt id (submitted a) + cnt id (submitted b))%nat.
Proof. unfold submitted. rewrite flat_map_app. apply cnt_app. Qed.

Lemma accounted_run_gen thr evs : forall s id,
  accounted id (fold_left (rstep thr) evs s) = (accounted id s + cnt id (submitted evs))%nat.
Proof.
  induction evs as [|e evs IH]; intros s id; cbn [fold_left].
  - unfold submitted. cbn [flat_map]. rewrite cnt_nil. lia.
  - rewrite IH, accounted_step. change (e :: evs) with ([e] ++ evs). rewrite cnt_submitted_app.
    unfold submitted at 2. cbn [flat_map app]. destruct e; rewrite ?app_nil_r, ?cnt_cons, ?cnt_nil; lia.
Qed.

Theorem accounted_run thr evs id : accounted id (rrun thr evs) = cnt id (submitted evs).
Proof. unfold rrun. rewrite accounted_run_gen. unfold accounted. cbn [rs_init r_chan r_eng r_done r_lost map]. rewrite !cnt_nil. lia. Qed.

(* tokio: nothing is ever lost *)
Lemma tokio_nothing_lost_gen evs : forall s, r_lost s = [] -> r_lost (fold_left (rstep false) evs s) = [].
Proof.
  induction evs as [|e evs IH]; intros s H; cbn [fold_left]; auto. apply IH.
  destruct e; cbn [rstep]; repeat match goal with |- context [if ?b then _ else _] => destruct b end;
    cbn; auto; try (destruct (r_chan s); cbn; auto).
Qed.
Theorem tokio_nothing_lost evs : r_lost (rrun false evs) = [].
Proof. apply tokio_nothing_lost_gen. reflexivity. Qed.

(* threaded: nothing is lost as long as the loop does not exit *)
Lemma no_exit_nothing_lost_gen thr evs : forall s,
  loop_exits evs = false -> r_lost s = [] -> r_lost (fold_left (rstep thr) evs s) = [].
Proof.
  induction evs as [|e evs IH]; intros s Hx H; cbn [fold_left]; auto.
  cbn in Hx. apply orb_false_elim in Hx. destruct Hx as [He Hx]. apply IH; auto.
  destruct e; try discriminate; cbn [rstep]; repeat match goal with |- context [if ?b then _ else _] => destruct b end;
    cbn; auto; try (destruct (r_chan s); cbn; auto).
Qed.

(* once the loop has exited, nothing stays in the channel or in the engine *)
Definition settled (s : rs) : Prop := r_alive s = false -> r_chan s = [] /\ r_eng s = [].
Lemma settled_step thr s e : settled s -> settled (rstep thr s e).
Proof.
  unfold settled. intros H. destruct e; cbn [rstep].
  - destruct (r_alive s) eqn:Ha; cbn; [discriminate|]. intros _. apply H. reflexivity.
  - destruct (r_alive s) eqn:Ha; [destruct (r_chan s); cbn; [rewrite Ha|]; discriminate|]. rewrite Ha. auto.
  - destruct (r_alive s && memN id (r_eng s)) eqn:Hb; cbn; [discriminate|]. auto.
  - destruct (r_alive s) eqn:Ha; [|rewrite Ha; auto]. unfold orphan. destruct thr; cbn; auto.
  - destruct (r_alive s) eqn:Ha; [|rewrite Ha; auto]. unfold orphan. destruct thr; cbn; auto.
  - cbn. auto.
Qed.
Lemma settled_run thr evs : settled (rrun thr evs).
Proof.
  unfold rrun. assert (H : settled rs_init) by (unfold settled; cbn; discriminate).
  revert H. generalize rs_init. induction evs as [|e evs IH]; intros s H; cbn [fold_left]; auto.
  apply IH, settled_step, H.
Qed.

(* C13_result_exactly_once for the tokio client: in every interleaving every operation submitted once is accounted for
   exactly once (channel, engine, or ONE result), nothing is lost, and once the loop has exited — by close or abnormally,
   whether the operation was submitted before, during or after — it has exactly one result *)
Theorem result_exactly_once_tokio evs id :
  cnt id (submitted evs) = 1%nat ->
  accounted id (rrun false evs) = 1%nat /\ r_lost (rrun false evs) = [] /\
  (r_alive (rrun false evs) = false -> results_of id (rrun false evs) = 1%nat).
Proof.
  intros H. pose proof (accounted_run false evs id) as Ha. rewrite H in Ha.
  pose proof (tokio_nothing_lost evs) as Hl. repeat split; auto.
  intros Hd. destruct (settled_run false evs Hd) as [Hc He].
  unfold accounted in Ha. rewrite Hc, He, Hl, !cnt_nil in Ha. unfold results_of. lia.
Qed.

(* the threaded client, as long as its loop does not exit *)
Theorem result_exactly_once_threaded_running evs id :
  loop_exits evs = false -> cnt id (submitted evs) = 1%nat ->
  accounted id (rrun true evs) = 1%nat /\ r_lost (rrun true evs) = [].
Proof.
  intros Hx H. split; [rewrite accounted_run; exact H|]. apply no_exit_nothing_lost_gen; auto.
Qed.

(* REFUTED for the threaded client (D16): an operation still in the channel when the loop handles close(), and every
   operation the engine tracks when the loop dies, never gets a result: its receiver waits forever, its callback is never called *)
Theorem result_exactly_once_threaded_refuted :
  (let s := rrun true [RSubmit 1; RSubmit 2; RTake; RShutdown] in
   results_of 1 s = 1%nat /\ results_of 2 s = 0%nat /\ r_lost s = [2]) /\
  (let s := rrun true [RSubmit 1; RTake; RDie] in results_of 1 s = 0%nat /\ r_lost s = [1]).
Proof. vm_compute. repeat split; reflexivity. Qed.

(* the known defect class D16: histories in which the threaded loop exits *)
Definition known_d16 (evs : list rev) : Prop := loop_exits evs = true.
Theorem result_exactly_once_threaded_not_known evs id :
  ~ known_d16 evs -> cnt id (submitted evs) = 1%nat ->
  accounted id (rrun true evs) = 1%nat /\ r_lost (rrun true evs) = [].
Proof.
  intros Hk. apply result_exactly_once_threaded_running. unfold known_d16 in Hk. destruct (loop_exits evs); congruence.
Qed.
