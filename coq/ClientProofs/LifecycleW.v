(* Witnesses for C12: the toy engine satisfies the engine facts (non-vacuity); with the REAL engine model
   (Engine/Instance.v) the former D13 / D10b counterexamples now behave (regression theorems, fixes d52fbbc / 8daf4ff). *)
From GM Require Import Base.Prelude Base.Outcome Codec.Packets Engine.Model Engine.Instance
  Client.Backoff Client.Impl Client.Driver Client.MiniEngine Client.ImplEngine ClientProofs.ImplP.
Open Scope N_scope.

Lemma mini_engine_facts :
  engine_facts me unit unit me_tag me_user me_disc me_reset me_opened me_closed me_data me_wc me_service.
Proof.
  repeat split.
  - intros [[] []] now u; reflexivity.
  - intros [[] []] now d; reflexivity.
  - intros [[] []] now; reflexivity.
  - intros [[] []] now dl; reflexivity.
  - intros [[] []] now; reflexivity.
  - intros [t q] now b. unfold me_data, me_tag. cbn [fst snd].
    destruct t; destruct b as [|x [|y r]]; try reflexivity;
      try (destruct x as [|[p|p|]]; try reflexivity; destruct p; try reflexivity; destruct p; reflexivity).
  - intros [[] []] now; reflexivity.
  - intros [[] []] now f; reflexivity.
Qed.

(* ---- D13 (fixed by d52fbbc): the former counterexample, on the engine model, for both drivers:
   a stop-with-DISCONNECT requested during the CONNECT/CONNACK handshake now stops the client at the next check;
   no DISCONNECT is waited for, the attempt is reported as failed, one Stopped event ---- *)
Theorem stop_during_handshake_stops : forall thr,
  cur (i_drun w_cfg thr w_init w_d13_prefix) = CStopped /\
  d_status (i_drun w_cfg thr w_init w_d13_prefix) = Running /\
  c_stop (d_c (i_drun w_cfg thr w_init w_d13_prefix)) = SNone /\
  d_log (i_drun w_cfg thr w_init w_d13_prefix) = [EvAttempt; EvFailure EUserInitiatedDisconnect false; EvStopped].
Proof. intros []; vm_compute; repeat split; reflexivity. Qed.

(* ---- D10b (fixed by 8daf4ff): connect_timeout = Duration::MAX no longer kills the loop ---- *)
Definition w_init_huge : idstate := i_dinit w_cfg Alias.Outbound.RNull w_backoff DMAX.
Theorem huge_timeout_ok :
  d_status (i_drun w_cfg false w_init_huge [(0, DOp OpStart); (0, DConnOk)]) = Running /\
  cur (i_drun w_cfg false w_init_huge [(0, DOp OpStart); (0, DConnOk)]) = CConnected /\
  d_status (i_drun w_cfg true w_init_huge [(0, DOp OpStart); (0, DCheck); (0, DConnFail)]) = Running /\
  cur (i_drun w_cfg true w_init_huge [(0, DOp OpStart); (0, DCheck); (0, DConnFail)]) = CPendingReconnect.
Proof. vm_compute. repeat split; reflexivity. Qed.

(* the saturating addition is total as long as the clock itself is 2^32 s away from the end of the Instant range *)
Lemma add_saturating_total site t d : t + U32S <= IMAX -> exists r, add_saturating site t d = Ok r.
Proof.
  intros H. unfold add_saturating, add_instant.
  destruct (IMAX <? t + d) eqn:E1; [|eauto].
  destruct (IMAX <? t + U32S) eqn:E2; [apply N.ltb_lt in E2; lia|eauto].
Qed.

(* ---- non-vacuity: with the toy engine a stop-with-DISCONNECT on an ESTABLISHED connection stops ---- *)
Example stop_with_disconnect_established :
  let s := me_drun false me_dinit
    [ (0, DOp OpStart); (0, DConnOk); (0, DRead [1]);
      (0, DOp (OpStop (Some tt))); (0, DService); (0, DWrite (WOk 2)); (0, DFlush true) ] in
  cur s = CStopped /\ d_status s = Running /\
  d_log s = [EvAttempt; EvSuccess; EvDisconnection EUserInitiatedDisconnect false; EvStopped] /\
  d_conns s = [([224; 0], [[224; 0]], [[224; 0]])].
Proof. vm_compute. repeat split; reflexivity. Qed.
