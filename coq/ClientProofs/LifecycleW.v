(* Witnesses for C12: the toy engine satisfies the engine facts (non-vacuity); with the REAL
   engine model (Engine/Instance.v) a stop-with-DISCONNECT requested during the CONNECT/CONNACK
   handshake never stops the client (D13), for both drivers and for every number of further
   healthy loop iterations; a huge connect_timeout kills the loop by panic (D10b). *)
From GM Require Import Base.Prelude Base.Outcome Codec.Packets Engine.Model Engine.Instance
  Client.Backoff Client.Impl Client.Driver Client.MiniEngine Client.ImplEngine ClientProofs.ImplP.
Open Scope N_scope.

Lemma mini_engine_facts :
  engine_facts me unit unit me_tag me_user me_disc me_reset me_opened me_closed me_data me_wc me_service.
Proof.
  repeat split.
  - intros [[] []] now u; reflexivity.
  - intros [[] []] now d; reflexivity.
  - intros [[] []] now; reflexivity.
  - intros [[] []] now dl; reflexivity.
  - intros [[] []] now; reflexivity.
  - intros [t q] now b. unfold me_data, me_tag. cbn [fst snd].
    destruct t; destruct b as [|x [|y r]]; try reflexivity;
      try (destruct x as [|[p|p|]]; try reflexivity; destruct p; try reflexivity; destruct p; reflexivity).
  - intros [[] []] now; reflexivity.
  - intros [[] []] now f; reflexivity.
Qed.

(* ---- D13 ---- *)
Notation d13_state thr := (i_drun w_cfg thr w_init w_d13_prefix).

Lemma d13_state_facts thr :
  cur (d13_state thr) = CConnected /\ d_status (d13_state thr) = Running /\
  c_des (d_c (d13_state thr)) = CStopped /\ c_stop (d_c (d13_state thr)) = SDisc /\
  ie_tag (c_eng (d_c (d13_state thr))) = TConnected /\
  d_log (d13_state thr) = [EvAttempt; EvSuccess] /\
  d_wire (d13_state thr) = [16; 15; 0; 4; 77; 81; 84; 84; 5; 2; 0; 0; 0; 0; 2; 97; 97].
Proof. destruct thr; vm_compute; repeat split; reflexivity. Qed.

Lemma d13_idle_fixpoint thr : i_drun w_cfg thr (d13_state thr) (w_idle 1) = d13_state thr.
Proof. destruct thr; vm_compute; reflexivity. Qed.

Lemma i_drun_app thr s h1 h2 : i_drun w_cfg thr s (h1 ++ h2) = i_drun w_cfg thr (i_drun w_cfg thr s h1) h2.
Proof. unfold i_drun. revert s. induction h1 as [|[now e] h1 IH]; intros s; cbn; auto. Qed.

Lemma w_idle_S n : w_idle (S n) = w_idle 1 ++ w_idle n.
Proof. reflexivity. Qed.

Lemma d13_forever thr n : i_drun w_cfg thr (d13_state thr) (w_idle n) = d13_state thr.
Proof.
  induction n as [|n IH]; [reflexivity|].
  rewrite w_idle_S, i_drun_app, d13_idle_fixpoint. exact IH.
Qed.

(* the stop request is never honoured: whatever the number of further healthy iterations, the client is
   Connected, desires Stopped, has emitted no Stopped event and has written nothing but the CONNECT *)
Theorem stop_stops_refuted : forall thr n,
  cur (i_drun w_cfg thr w_init (w_d13_prefix ++ w_idle n)) = CConnected /\
  d_status (i_drun w_cfg thr w_init (w_d13_prefix ++ w_idle n)) = Running /\
  c_des (d_c (i_drun w_cfg thr w_init (w_d13_prefix ++ w_idle n))) = CStopped /\
  count_stopped (d_log (i_drun w_cfg thr w_init (w_d13_prefix ++ w_idle n))) = 0%nat /\
  d_log (i_drun w_cfg thr w_init (w_d13_prefix ++ w_idle n)) = [EvAttempt; EvSuccess] /\
  d_wire (i_drun w_cfg thr w_init (w_d13_prefix ++ w_idle n)) = [16; 15; 0; 4; 77; 81; 84; 84; 5; 2; 0; 0; 0; 0; 2; 97; 97].
Proof.
  intros thr n. rewrite i_drun_app.
  rewrite d13_forever.
  destruct (d13_state_facts thr) as (A & B & C & _ & _ & F & G). rewrite F.
  split; [exact A|]. split; [exact B|]. split; [exact C|]. split; [reflexivity|]. split; [reflexivity|exact G].
Qed.

(* ---- D10b: connect_timeout = Duration::MAX ---- *)
Definition w_init_huge : idstate := i_dinit w_cfg Alias.Outbound.RNull w_backoff DMAX.
Theorem loop_alive_refuted_huge_timeout :
  d_status (i_drun w_cfg false w_init_huge [(0, DOp OpStart); (0, DConnOk)]) = Panicked /\
  d_status (i_drun w_cfg true w_init_huge [(0, DOp OpStart); (0, DCheck)]) = Panicked.
Proof. split; vm_compute; reflexivity. Qed.

(* ---- non-vacuity: with the toy engine a stop-with-DISCONNECT on an ESTABLISHED connection stops ---- *)
Example stop_with_disconnect_established :
  let s := me_drun false me_dinit
    [ (0, DOp OpStart); (0, DConnOk); (0, DRead [1]);
      (0, DOp (OpStop (Some tt))); (0, DService); (0, DWrite (WOk 2)); (0, DFlush true) ] in
  cur s = CStopped /\ d_status s = Running /\
  d_log s = [EvAttempt; EvSuccess; EvDisconnection EUserInitiatedDisconnect false; EvStopped] /\
  d_conns s = [([224; 0], [[224; 0]], [[224; 0]])].
Proof. vm_compute. repeat split; reflexivity. Qed.
