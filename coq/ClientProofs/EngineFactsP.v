(* Engine facts (hypotheses of the C12 theorems) PROVED for the engine model Engine/Instance.v, as far as they are structural:
   ConnectionOpened (fact_opened, every state) and ConnectionClosed from Disconnected.  The remaining facts (fact_closed from a
   live connection: no panic sites 936/954/971/978 and result Ok; fact_user / fact_other / fact_data: the state tag never enters
   Disconnected or PendingConnack outside closed / opened, over all packet handlers) need the engine's well-formedness invariant
   (EngineProofs/) and are evaluated at run time by the C12 driver on every observed call of the real engine. *)
From GM Require Import Base.Prelude Base.Outcome Codec.Packets Engine.Model Engine.Instance Client.Backoff Client.Impl Client.Driver Client.ImplEngine.
Open Scope N_scope.
Lemma ie_fact_opened cfg e now dl :
  fact_opened (ie_tag e) (is_ok (snd (ie_opened cfg e now dl))) (ie_tag (fst (ie_opened cfg e now dl))) = true.
Proof.
  unfold ie_opened, ie_tag, i_step, Model.step, Model.out_of_res, Model.net_opened, Model.halt_on_error, Model.create_operation, Model.pure.
  destruct (s_st e) eqn:Hs; cbn; rewrite ?Hs; reflexivity.
Qed.
Lemma ie_fact_closed_disconnected cfg e now :
  ie_tag e = TDisconnected ->
  fact_closed (ie_tag e) (is_ok (snd (ie_closed cfg e now))) (ie_tag (fst (ie_closed cfg e now))) = true.
Proof.
  unfold ie_closed, ie_tag, i_step, Model.step, Model.out_of_res, Model.net_closed, Model.net_closed_raw, Model.halt_on_error.
  destruct (s_st e) eqn:Hs; cbn; try discriminate. intros _. rewrite ?Hs. cbn. rewrite ?Hs. reflexivity.
Qed.
