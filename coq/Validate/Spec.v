(* SPECIFICATION side of C16, written from the OASIS MQTT Version 5.0 text, independently of the
   implementation model (Validate/Topic.v, Validate/Rules.v):

   - topic names and topic filters (4.7.1 wildcards, 4.7.3 semantics, 4.8.2 shared subscriptions) as a
     structural definition over '/'-separated levels;
   - the size of the (shortest) MQTT 5 encoding of a client packet (2.1, 2.2.2, 3.x.2);
   - [violations st co r p]: the list of rules a packet about to be sent violates, given the limits the
     server announced in CONNACK ([st]), the CONNECT options ([co]) and the topic-alias resolution
     ([r]); [conforms] = no violation.

   Every rule has a name (type [rule]) so that theorems and the run-time monitor can say WHICH rule a
   packet breaks. *)
From GM Require Import Base.Prelude Base.Outcome Codec.Packets Codec.Prim Codec.Settings.
Open Scope N_scope.

(* ---- strings ---- *)
Fixpoint seqb (a b : bytes) : bool :=
  match a, b with
  | [], [] => true
  | x :: a', y :: b' => (x =? y) && seqb a' b'
  | _, _ => false
  end.

Definition has_byte (c : N) (s : bytes) : bool := existsb (fun b => b =? c) s.

(* topic levels: the substrings between '/' separators (4.7.1.1); "a/" has levels "a", "" *)
Fixpoint levels (s : bytes) : list bytes :=
  match s with
  | [] => [[]]
  | b :: s' =>
      if b =? 47 then [] :: levels s'
      else match levels s' with
           | l :: ls => (b :: l) :: ls
           | [] => [[b]]
           end
  end.

Definition STR_SHARE : bytes := [36; 115; 104; 97; 114; 101].   (* "$share" *)
Definition STR_HASH : bytes := [35].                            (* "#" *)
Definition STR_PLUS : bytes := [43].                            (* "+" *)

(* [MQTT-4.7.3-1] at least one character; [MQTT-4.7.3-3] at most 65535 bytes *)
Definition length_ok (s : bytes) : bool := (1 <=? len s) && (len s <=? 65535).
(* [MQTT-4.7.3-2] no null character *)
Definition no_nul (s : bytes) : bool := negb (has_byte 0 s).

(* Topic Name: [MQTT-4.7.1-1] no wildcard characters.  (The NUL rule is kept separate.) *)
Definition spec_topic (t : bytes) : bool :=
  length_ok t && negb (has_byte 35 t) && negb (has_byte 43 t).

(* one level of a filter; [last] = it is the last level.
   4.7.1.2: '#' MUST be specified either on its own or following a separator and MUST be the last
   character of the filter = a level containing '#' is exactly "#" and is the last level.
   4.7.1.3: '+' MUST occupy an entire level. *)
Definition level_ok (l : bytes) (last : bool) : bool :=
  (if has_byte 35 l then seqb l STR_HASH && last else true) &&
  (if has_byte 43 l then seqb l STR_PLUS else true).

Fixpoint levels_ok (ls : list bytes) : bool :=
  match ls with
  | [] => true
  | [l] => level_ok l true
  | l :: rest => level_ok l false && levels_ok rest
  end.

(* Topic Filter grammar of 4.7 (without the shared-subscription rules and without the NUL rule) *)
Definition spec_plain_filter (f : bytes) : bool := length_ok f && levels_ok (levels f).

(* 4.8.2: $share/{ShareName}/{filter}: ShareName at least one character, without '/', '+', '#';
   followed by '/' and a Topic Filter (which by 4.7.3-1 is at least one character long) *)
Definition spec_shared_filter (f : bytes) : bool :=
  match levels f with
  | first :: name :: rest =>
      seqb first STR_SHARE && (1 <=? len name) && negb (has_byte 35 name) && negb (has_byte 43 name) &&
      match rest with
      | [] => false                 (* no '/' after the ShareName *)
      | [[]] => false               (* "$share/name/": empty Topic Filter *)
      | _ => true
      end
  | _ => false
  end.

(* a filter that starts with "$share/" uses the shared-subscription form ("$share" alone is an
   ordinary one-level filter) *)
Definition starts_with_share (f : bytes) : bool :=
  match levels f with first :: _ :: _ => seqb first STR_SHARE | _ => false end.

(* a Topic Filter a client may send in SUBSCRIBE / UNSUBSCRIBE (4.7 grammar, [MQTT-4.7.3-2] no null
   character, 4.8.2 shared form) *)
Definition spec_filter (f : bytes) : bool :=
  spec_plain_filter f && no_nul f && (if starts_with_share f then spec_shared_filter f else true).

Definition filter_has_wildcard (f : bytes) : bool := has_byte 35 f || has_byte 43 f.

(* ---- encoded sizes (MQTT 5) ---- *)
Definition vbi_len (v : N) : N :=
  if v <? 128 then 1 else if v <? 16384 then 2 else if v <? 2097152 then 3 else 4.

Definition str_size (s : bytes) : N := 2 + len s.                       (* 1.5.4 / 1.5.6 *)
Definition ostr_prop (o : option bytes) : N := match o with Some s => 1 + str_size s | None => 0 end.
Definition ofix_prop {A} (n : N) (o : option A) : N := match o with Some _ => 1 + n | None => 0 end.
Fixpoint ups_size (l : list user_property) : N :=
  match l with [] => 0 | p :: r => 1 + str_size (up_name p) + str_size (up_value p) + ups_size r end.
Definition oups_size (o : option (list user_property)) : N := match o with Some l => ups_size l | None => 0 end.

Definition publish_props (p : publish) (r : resolution) : N :=
  ofix_prop 1 (pub_pfi p) + ofix_prop 4 (pub_mei p) + ofix_prop 2 (r_alias r) +
  ostr_prop (pub_response_topic p) + ostr_prop (pub_correlation p) + ostr_prop (pub_content_type p) +
  match pub_subids p with Some ids => fold_right (fun v acc => 1 + vbi_len v + acc) 0 ids | None => 0 end +
  oups_size (pub_up p).

Definition ack_props (a : ack) : N := ostr_prop (ack_reason a) + oups_size (ack_up a).
Definition subscribe_props (s : subscribe) : N :=
  match s_subid s with Some v => 1 + vbi_len v | None => 0 end + oups_size (s_up s).
Definition disconnect_props (d : disconnect) : N :=
  ofix_prop 4 (d_sei d) + ostr_prop (d_reason d) + ostr_prop (d_server_ref d) + oups_size (d_up d).
Definition auth_props (a : auth) : N :=
  ostr_prop (au_method a) + ostr_prop (au_data a) + ostr_prop (au_reason a) + oups_size (au_up a).

(* property section length of the packet (0 for packets without one) *)
Definition spec_props (p : packet) (r : resolution) : N :=
  match p with
  | Publish x => publish_props x r
  | Puback a | Pubrec a | Pubrel a | Pubcomp a => ack_props a
  | Subscribe s => subscribe_props s
  | Unsubscribe u => oups_size (u_up u)
  | Disconnect d => disconnect_props d
  | Auth a => auth_props a
  | _ => 0
  end.

(* Remaining Length of the shortest encoding.  3.4.2.1 / 3.14.2.1 / 3.15.2.1: reason code and
   property length may be omitted when they are Success / empty. *)
Definition spec_remaining (p : packet) (r : resolution) : N :=
  let pl := spec_props p r in
  match p with
  | Publish x =>
      str_size (if r_skip_topic r then [] else pub_topic x) + (if pub_qos x =? 0 then 0 else 2) +
      vbi_len pl + pl + match pub_payload x with Some d => len d | None => 0 end
  | Puback a | Pubrec a | Pubrel a | Pubcomp a =>
      if pl =? 0 then (if ack_rc a =? 0 then 2 else 3) else 3 + vbi_len pl + pl
  | Subscribe s =>
      2 + vbi_len pl + pl + fold_right (fun x acc => str_size (sub_filter x) + 1 + acc) 0 (s_subs s)
  | Unsubscribe u =>
      2 + vbi_len pl + pl + fold_right (fun f acc => str_size f + acc) 0 (u_filters u)
  | Disconnect d =>
      if pl =? 0 then (if d_rc d =? 0 then 0 else 1) else 1 + vbi_len pl + pl
  | Auth a =>
      if (pl =? 0) && (au_rc a =? 0) then 0 else 1 + vbi_len pl + pl
  | _ => 0
  end.

Definition spec_total_size (p : packet) (r : resolution) : N :=
  let rem := spec_remaining p r in 1 + vbi_len rem + rem.

(* ---- rules ---- *)
Inductive rule :=
| RNotClientPacket       (* CONNACK / SUBACK / UNSUBACK / PINGRESP are never sent by a client *)
| RStringLen             (* 1.5.4 UTF-8 string fields at most 65535 bytes *)
| RStringNul             (* [MQTT-1.5.4-2] no null character in a UTF-8 string field other than a topic: user property names and
                            values, reason string, content type, server reference, authentication method, client id, user name
                            (topic names / filters: RTopicNul, RWillTopic) *)
| RBinaryLen             (* 1.5.6 binary fields at most 65535 bytes *)
| RUserPropertyValueLen  (* 1.5.7 value of a user property at most 65535 bytes *)
| RPacketTooBig          (* 2.1.4 Remaining Length at most 268435455 *)
| RMaximumPacketSize     (* [MQTT-3.2.2-15] CONNACK Maximum Packet Size *)
| RPacketIdZero          (* [MQTT-2.2.1-3/-4] non-zero packet identifier *)
| RTopicName             (* 4.7 topic name: non-empty, at most 65535 bytes, no wildcards *)
| RTopicNul              (* [MQTT-4.7.3-2] no null character in topic names / filters of PUBLISH / SUBSCRIBE / UNSUBSCRIBE *)
| RTopicAliasZero        (* [MQTT-3.3.2-8] topic alias 0 *)
| RMaximumQos            (* [MQTT-3.2.2-11] CONNACK Maximum QoS *)
| RRetainNotAvailable    (* [MQTT-3.2.2-14] CONNACK Retain Available = 0 *)
| RDupOnFirstDelivery    (* [MQTT-3.3.1-1] DUP = 0 on the first delivery attempt *)
| RSubscriptionIdInPublish (* [MQTT-3.3.4-6] client PUBLISH carries no subscription identifier *)
| RResponseTopic         (* 3.3.2.3.5 response topic is a topic name *)
| REmptySubscriptionList (* [MQTT-3.8.3-2] / [MQTT-3.10.3-2] at least one filter *)
| RTopicFilter           (* 4.7 topic filter grammar *)
| RSharedFilterMalformed (* [MQTT-4.8.2-1/-2] malformed $share/{ShareName}/{filter} *)
| RWildcardNotAvailable  (* 3.2.2.3.11 Wildcard Subscription Available = 0 *)
| RSharedNotAvailable    (* 3.2.2.3.13 Shared Subscription Available = 0 *)
| RNoLocalOnShared       (* [MQTT-3.8.3-4] No Local on a shared subscription *)
| RSubscriptionIdRange   (* 3.8.2.1.2 subscription identifier 1..268435455 *)
| RSubscriptionIdNotAvailable (* 3.2.2.3.12 Subscription Identifiers Available = 0 *)
| RSessionExpiry         (* 3.14.2.2.2 non-zero session expiry in DISCONNECT after zero in CONNECT *)
| RAuthMethodMissing     (* 3.15.2.2.2 AUTH without authentication method *)
| RReceiveMaximumZero    (* 3.1.2.11.3 CONNECT Receive Maximum 0 *)
| RMaximumPacketSizeZero (* 3.1.2.11.4 CONNECT Maximum Packet Size 0 *)
| RAuthDataWithoutMethod (* 3.1.2.11.10 authentication data without method *)
| RWillTopic.            (* 3.1.3.3 will topic is a topic name (4.7 grammar and [MQTT-4.7.3-2] no null character) *)

Definition rule_eqb (a b : rule) : bool :=
  match a, b with
  | RNotClientPacket, RNotClientPacket | RStringLen, RStringLen | RStringNul, RStringNul | RBinaryLen, RBinaryLen
  | RUserPropertyValueLen, RUserPropertyValueLen | RPacketTooBig, RPacketTooBig
  | RMaximumPacketSize, RMaximumPacketSize | RPacketIdZero, RPacketIdZero | RTopicName, RTopicName
  | RTopicNul, RTopicNul | RTopicAliasZero, RTopicAliasZero | RMaximumQos, RMaximumQos
  | RRetainNotAvailable, RRetainNotAvailable | RDupOnFirstDelivery, RDupOnFirstDelivery
  | RSubscriptionIdInPublish, RSubscriptionIdInPublish | RResponseTopic, RResponseTopic
  | REmptySubscriptionList, REmptySubscriptionList | RTopicFilter, RTopicFilter
  | RSharedFilterMalformed, RSharedFilterMalformed | RWildcardNotAvailable, RWildcardNotAvailable
  | RSharedNotAvailable, RSharedNotAvailable | RNoLocalOnShared, RNoLocalOnShared
  | RSubscriptionIdRange, RSubscriptionIdRange | RSubscriptionIdNotAvailable, RSubscriptionIdNotAvailable
  | RSessionExpiry, RSessionExpiry | RAuthMethodMissing, RAuthMethodMissing
  | RReceiveMaximumZero, RReceiveMaximumZero | RMaximumPacketSizeZero, RMaximumPacketSizeZero
  | RAuthDataWithoutMethod, RAuthDataWithoutMethod | RWillTopic, RWillTopic => true
  | _, _ => false
  end.

(* [req rl c]: rule rl requires c *)
Definition req (rl : rule) (c : bool) : list rule := if c then [] else [rl].

Definition str_ok (s : bytes) : bool := len s <=? 65535.
Definition ostr_ok (o : option bytes) : bool := match o with Some s => str_ok s | None => true end.
(* [MQTT-1.5.4-2]; only for UTF-8 STRING fields (binary data may contain any byte) *)
Definition onul_ok (o : option bytes) : bool := match o with Some s => no_nul s | None => true end.

Definition ups_rules (o : option (list user_property)) : list rule :=
  match o with
  | Some l => req RStringLen (forallb (fun p => str_ok (up_name p)) l) ++
              req RUserPropertyValueLen (forallb (fun p => str_ok (up_value p)) l) ++
              req RStringNul (forallb (fun p => no_nul (up_name p) && no_nul (up_value p)) l)
  | None => []
  end.

Definition size_rules (st : settings) (p : packet) (r : resolution) : list rule :=
  req RPacketTooBig (spec_remaining p r <=? VLI_MAX) ++
  req RMaximumPacketSize (spec_total_size p r <=? st_maximum_packet_size_to_server st).

Definition publish_rules (st : settings) (r : resolution) (p : publish) : list rule :=
  req RTopicName (spec_topic (pub_topic p)) ++
  req RTopicNul (no_nul (pub_topic p)) ++
  req RTopicAliasZero (match pub_alias p with Some a => negb (a =? 0) | None => true end) ++
  req RDupOnFirstDelivery (negb (pub_dup p)) ++
  req RSubscriptionIdInPublish (match pub_subids p with Some _ => false | None => true end) ++
  req RResponseTopic (match pub_response_topic p with Some t => spec_topic t | None => true end) ++
  req RTopicNul (match pub_response_topic p with Some t => no_nul t | None => true end) ++
  req RStringLen (ostr_ok (pub_content_type p)) ++
  req RStringNul (onul_ok (pub_content_type p)) ++
  req RBinaryLen (ostr_ok (pub_correlation p)) ++
  ups_rules (pub_up p) ++
  req RPacketIdZero ((pub_qos p =? 0) || negb (pub_pid p =? 0)) ++
  req RMaximumQos (pub_qos p <=? st_maximum_qos st) ++
  req RRetainNotAvailable (negb (pub_retain p) || st_retain_available st).

Definition subscription_rules (st : settings) (x : subscription) : list rule :=
  let f := sub_filter x in
  req RTopicFilter (spec_plain_filter f) ++
  req RTopicNul (no_nul f) ++
  req RSharedFilterMalformed (if starts_with_share f then spec_shared_filter f else true) ++
  req RWildcardNotAvailable (negb (filter_has_wildcard f) || st_wildcard_subscriptions_available st) ++
  req RSharedNotAvailable (negb (spec_shared_filter f) || st_shared_subscriptions_available st) ++
  req RNoLocalOnShared (negb (spec_shared_filter f && sub_no_local x)).

Definition subscribe_rules (st : settings) (s : subscribe) : list rule :=
  req REmptySubscriptionList (negb (len (s_subs s) =? 0)) ++
  flat_map (subscription_rules st) (s_subs s) ++
  req RSubscriptionIdRange (match s_subid s with Some v => (1 <=? v) && (v <=? VLI_MAX) | None => true end) ++
  req RSubscriptionIdNotAvailable (match s_subid s with Some _ => st_subscription_identifiers_available st | None => true end) ++
  ups_rules (s_up s) ++
  req RPacketIdZero (negb (s_pid s =? 0)).

Definition unsubscribe_filter_rules (f : bytes) : list rule :=
  req RTopicFilter (spec_plain_filter f) ++
  req RTopicNul (no_nul f) ++
  req RSharedFilterMalformed (if starts_with_share f then spec_shared_filter f else true).

Definition unsubscribe_rules (u : unsubscribe) : list rule :=
  req REmptySubscriptionList (negb (len (u_filters u) =? 0)) ++
  flat_map unsubscribe_filter_rules (u_filters u) ++
  ups_rules (u_up u) ++
  req RPacketIdZero (negb (u_pid u =? 0)).

Definition disconnect_rules (co : connect_opts) (d : disconnect) : list rule :=
  req RStringLen (ostr_ok (d_reason d) && ostr_ok (d_server_ref d)) ++
  req RStringNul (onul_ok (d_reason d) && onul_ok (d_server_ref d)) ++
  ups_rules (d_up d) ++
  req RSessionExpiry
    (match d_sei d with
     | Some v => (v =? 0) || negb (match co_sei co with Some c => c | None => 0 end =? 0)
     | None => true
     end).

Definition ack_rules (a : ack) : list rule :=
  req RStringLen (ostr_ok (ack_reason a)) ++ req RStringNul (onul_ok (ack_reason a)) ++
  ups_rules (ack_up a) ++ req RPacketIdZero (negb (ack_pid a =? 0)).

Definition auth_rules (a : auth) : list rule :=
  req RAuthMethodMissing (match au_method a with Some _ => true | None => false end) ++
  req RStringLen (ostr_ok (au_method a) && ostr_ok (au_reason a)) ++
  req RStringNul (onul_ok (au_method a) && onul_ok (au_reason a)) ++
  req RBinaryLen (ostr_ok (au_data a)) ++
  ups_rules (au_up a).

Definition connect_rules (c : connect) : list rule :=
  req RStringLen (ostr_ok (con_client_id c) && ostr_ok (con_username c) && ostr_ok (con_auth_method c)) ++
  req RStringNul (onul_ok (con_client_id c) && onul_ok (con_username c) && onul_ok (con_auth_method c)) ++
  req RBinaryLen (ostr_ok (con_password c) && ostr_ok (con_auth_data c)) ++
  req RReceiveMaximumZero (match con_receive_max c with Some v => negb (v =? 0) | None => true end) ++
  req RMaximumPacketSizeZero (match con_max_packet c with Some v => negb (v =? 0) | None => true end) ++
  req RAuthDataWithoutMethod (match con_auth_data c, con_auth_method c with Some _, None => false | _, _ => true end) ++
  ups_rules (con_up c) ++
  match con_will c with
  | Some w =>
      req RWillTopic (spec_topic (pub_topic w) && no_nul (pub_topic w)) ++
      req RStringLen (ostr_ok (pub_content_type w) && ostr_ok (pub_response_topic w)) ++
      req RStringNul (onul_ok (pub_content_type w) && onul_ok (pub_response_topic w)) ++
      req RBinaryLen (ostr_ok (pub_correlation w) && ostr_ok (pub_payload w)) ++
      ups_rules (pub_up w)
  | None => []
  end.

Definition violations (st : settings) (co : connect_opts) (r : resolution) (p : packet) : list rule :=
  match p with
  | Publish x => publish_rules st r x ++ size_rules st p r
  | Subscribe s => subscribe_rules st s ++ size_rules st p r
  | Unsubscribe u => unsubscribe_rules u ++ size_rules st p r
  | Disconnect d => disconnect_rules co d ++ size_rules st p r
  | Puback a | Pubrec a | Pubrel a | Pubcomp a => ack_rules a ++ size_rules st p r
  | Auth a => auth_rules a ++ size_rules st p r
  | Connect c => connect_rules c          (* the server's limits are not known yet *)
  | Pingreq => []                         (* 2 bytes; a Maximum Packet Size below 2 cannot be announced meaningfully *)
  | Connack _ | Suback _ | Unsuback _ | Pingresp => [RNotClientPacket]
  end.

Definition conforms (st : settings) (co : connect_opts) (r : resolution) (p : packet) : bool :=
  match violations st co r p with [] => true | _ => false end.

(* ---- the packet identifier is bound by the engine between submission and sending ---- *)
(* A submitted PUBLISH / SUBSCRIBE / UNSUBSCRIBE has packet id 0 (the field is pub(crate));
   protocol.rs acquire_packet_id_for_operation binds it for QoS>0 publishes, subscribes and
   unsubscribes before the send-time validation. *)
Definition bind_pid (p : packet) (id : N) : packet :=
  match p with
  | Publish x =>
      if pub_qos x =? 0 then p else
      Publish {| pub_pid := id; pub_topic := pub_topic x; pub_qos := pub_qos x; pub_dup := pub_dup x;
                 pub_retain := pub_retain x; pub_payload := pub_payload x; pub_pfi := pub_pfi x;
                 pub_mei := pub_mei x; pub_alias := pub_alias x; pub_response_topic := pub_response_topic x;
                 pub_correlation := pub_correlation x; pub_subids := pub_subids x;
                 pub_content_type := pub_content_type x; pub_up := pub_up x |}
  | Subscribe s => Subscribe {| s_pid := id; s_subs := s_subs s; s_subid := s_subid s; s_up := s_up s |}
  | Unsubscribe u => Unsubscribe {| u_pid := id; u_filters := u_filters u; u_up := u_up u |}
  | _ => p
  end.

(* verdict of the filter table: what a client may put in a SUBSCRIBE given the capabilities *)
Definition spec_filter_verdict (wildcard_available shared_available : bool) (no_local : option bool) (f : bytes) : bool :=
  spec_filter f &&
  (negb (filter_has_wildcard f) || wildcard_available) &&
  (negb (starts_with_share f) || (shared_available && negb (match no_local with Some b => b | None => false end))).
