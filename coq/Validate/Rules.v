(* Packet validation of gneiss-mqtt: validate.rs:48-249 (dispatchers, length helpers, the three
   ack macros) and the per-packet validate_*_outbound / _outbound_internal / _inbound_internal
   functions of mqtt/{auth,connack,connect,disconnect,publish,subscribe,unsubscribe}.rs and the
   macro instances in mqtt/{puback,pubrec,pubrel,pubcomp,suback,unsuback}.rs.

   Transcribed check by check, in source order (the FIRST failing check decides the error kind).
   Messages are not modelled.  Every validation failure is GneissError::PacketValidationFailure;
   the dispatchers' `_` arm is ProtocolError; a failing length computation (`?` on
   compute_*_length_properties / compute_variable_length_integer_encode_size) is EncodingFailure.
   `context.negotiated_settings.unwrap()` on None is Panic 50.

   Integer widths: the Rust sum `1 + total_remaining_length + size as u32` is a u32 sum.  It can only
   leave the u32 range for total_remaining_length = 2^32-1, where the debug build panics on `1 + ...`
   and the release build reaches the `?` (EncodingFailure); the model follows the release build
   (vli_size fails first).  Such a packet is larger than 4 GiB. *)
From GM Require Import Base.Prelude Base.Outcome Codec.Packets Codec.Prim Codec.Steps Codec.ImplEncode Codec.Settings.
From GM Require Import Validate.Topic.
Open Scope N_scope.

Definition vfail {A} : outcome A := Err EPacketValidationFailure.

(* validate_string_length / validate_optional_string_length / validate_optional_binary_length.
   After fix cbc2d52 of D28 the two STRING helpers also reject a value that contains U+0000
   (`value.contains('\0')`, second check, same error kind); binary fields are not strings. *)
Definition validate_string_length (s : bytes) : outcome unit :=
  if MAXIMUM_STRING_PROPERTY_LENGTH <? len s then vfail
  else if contains_nul s then vfail
  else Ok tt.
Definition validate_optional_string_length (o : option bytes) : outcome unit :=
  match o with
  | Some s =>
      if MAXIMUM_STRING_PROPERTY_LENGTH <? len s then vfail
      else if contains_nul s then vfail
      else Ok tt
  | None => Ok tt
  end.
Definition validate_optional_binary_length (o : option bytes) : outcome unit :=
  match o with Some s => if MAXIMUM_BINARY_PROPERTY_LENGTH <? len s then vfail else Ok tt | None => Ok tt end.

(* validate_optional_integer_non_zero! 182-192 *)
Definition validate_optional_integer_non_zero (o : option N) : outcome unit :=
  match o with Some v => if v =? 0 then vfail else Ok tt | None => Ok tt end.

(* validate_user_properties 48-57 (after fix a688126 of D2: the second check is on the VALUE;
   before the fix the name was checked twice) *)
Fixpoint validate_user_properties_list (l : list user_property) : outcome unit :=
  match l with
  | [] => Ok tt
  | p :: r =>
      do _ <- validate_string_length (up_name p);
      do _ <- validate_string_length (up_value p);
      validate_user_properties_list r
  end.
Definition validate_user_properties (o : option (list user_property)) : outcome unit :=
  match o with Some l => validate_user_properties_list l | None => Ok tt end.

(* ------------------------------------------------------------------------------------------ *)
(* static validation: validate_packet_outbound 67-86                                           *)

(* validate_ack_outbound! 196-207 *)
Definition validate_ack_outbound (a : ack) : outcome unit :=
  do _ <- validate_optional_string_length (ack_reason a);
  validate_user_properties (ack_up a).

(* mqtt/auth.rs:141-157 *)
Definition validate_auth_packet_outbound (a : auth) : outcome unit :=
  match au_method a with
  | None => vfail
  | Some _ =>
      do _ <- validate_optional_string_length (au_method a);
      do _ <- validate_optional_binary_length (au_data a);
      do _ <- validate_optional_string_length (au_reason a);
      validate_user_properties (au_up a)
  end.

(* mqtt/connect.rs:609-637 *)
Definition validate_connect_packet_outbound (c : connect) : outcome unit :=
  do _ <- validate_optional_string_length (con_client_id c);
  do _ <- validate_optional_integer_non_zero (con_receive_max c);
  do _ <- validate_optional_integer_non_zero (con_max_packet c);
  do _ <- (match con_auth_data c, con_auth_method c with Some _, None => vfail | _, _ => Ok tt end);
  do _ <- validate_optional_string_length (con_auth_method c);
  do _ <- validate_optional_binary_length (con_auth_data c);
  do _ <- validate_optional_string_length (con_username c);
  do _ <- validate_optional_binary_length (con_password c);
  do _ <- validate_user_properties (con_up c);
  match con_will c with
  | Some will =>
      do _ <- validate_optional_string_length (pub_content_type will);
      do _ <- validate_optional_string_length (pub_response_topic will);
      do _ <- validate_optional_binary_length (pub_correlation will);
      do _ <- validate_user_properties (pub_up will);
      do _ <- validate_string_length (pub_topic will);
      validate_optional_binary_length (pub_payload will)
  | None => Ok tt
  end.

(* mqtt/disconnect.rs:171-178 *)
Definition validate_disconnect_packet_outbound (d : disconnect) : outcome unit :=
  do _ <- validate_optional_string_length (d_reason d);
  do _ <- validate_user_properties (d_up d);
  validate_optional_string_length (d_server_ref d).

(* mqtt/publish.rs:337-389 *)
Definition validate_publish_packet_outbound (p : publish) : outcome unit :=
  if negb (pub_pid p =? 0) then vfail
  else if pub_dup p then vfail
  else
    do _ <- validate_string_length (pub_topic p);
    if negb (is_valid_topic (pub_topic p)) then vfail
    else
      do _ <- (match pub_alias p with Some a => if a =? 0 then vfail else Ok tt | None => Ok tt end);
      match pub_subids p with
      | Some _ => vfail
      | None =>
          do _ <- (match pub_response_topic p with
                   | Some rt => if negb (is_valid_topic rt) then vfail else validate_string_length rt
                   | None => Ok tt
                   end);
          do _ <- validate_user_properties (pub_up p);
          do _ <- validate_optional_binary_length (pub_correlation p);
          validate_optional_string_length (pub_content_type p)
      end.

(* mqtt/subscribe.rs (after fix 18f2f26 of the static half of D4: the identifier range check;
   MAXIMUM_VARIABLE_LENGTH_INTEGER = 268435455) *)
Definition validate_subscribe_packet_outbound (s : subscribe) : outcome unit :=
  if negb (s_pid s =? 0) then vfail
  else match s_subs s with
  | [] => vfail
  | _ =>
      do _ <- (match s_subid s with
               | Some subscription_identifier =>
                   if (subscription_identifier =? 0) || (VLI_MAX <? subscription_identifier) then vfail else Ok tt
               | None => Ok tt
               end);
      validate_user_properties (s_up s)
  end.

(* mqtt/unsubscribe.rs:197-215 *)
Definition validate_unsubscribe_packet_outbound (u : unsubscribe) : outcome unit :=
  if negb (u_pid u =? 0) then vfail
  else match u_filters u with
  | [] => vfail
  | _ => validate_user_properties (u_up u)
  end.

Definition validate_outbound (p : packet) : outcome unit :=
  match p with
  | Auth a => validate_auth_packet_outbound a
  | Connect c => validate_connect_packet_outbound c
  | Disconnect d => validate_disconnect_packet_outbound d
  | Pingreq => Ok tt
  | Puback a | Pubcomp a | Pubrec a | Pubrel a => validate_ack_outbound a
  | Publish x => validate_publish_packet_outbound x
  | Subscribe s => validate_subscribe_packet_outbound s
  | Unsubscribe u => validate_unsubscribe_packet_outbound u
  | Connack _ | Suback _ | Unsuback _ | Pingresp => Err EProtocolError
  end.

(* ------------------------------------------------------------------------------------------ *)
(* send-time validation: validate_packet_outbound_internal 90-109                              *)

(* the common prologue
     let (total_remaining_length, _) = compute_..._length_properties(packet)?;
     let total_packet_length = 1 + total_remaining_length + compute_vli_encode_size(..)? as u32;
     if total_packet_length > context.negotiated_settings.unwrap().maximum_packet_size_to_server {..}
   returns the unwrapped settings *)
Definition check_packet_size (st : option settings) (p : packet) (r : resolution) : outcome settings :=
  do (total_remaining_length, _) <- impl_lengths5 p r;
  do sz <- vli_size total_remaining_length;
  let total_packet_length := 1 + total_remaining_length + sz in
  match st with
  | None => Panic 50
  | Some s =>
      if st_maximum_packet_size_to_server s <? total_packet_length then vfail else Ok s
  end.

(* validate_ack_outbound_internal! 211-232 *)
Definition validate_ack_outbound_internal (st : option settings) (p : packet) (a : ack) : outcome unit :=
  do _ <- check_packet_size st p no_resolution;
  if ack_pid a =? 0 then vfail else Ok tt.

(* mqtt/auth.rs:159-170 *)
Definition validate_auth_packet_outbound_internal (st : option settings) (a : auth) : outcome unit :=
  do _ <- check_packet_size st (Auth a) no_resolution; Ok tt.

(* mqtt/disconnect.rs:180-207 *)
Definition validate_disconnect_packet_outbound_internal (st : option settings) (co : connect_opts) (d : disconnect)
  : outcome unit :=
  do _ <- check_packet_size st (Disconnect d) no_resolution;
  let connect_session_expiry_interval := match co_sei co with Some v => v | None => 0 end in
  let disconnect_session_expiry_interval :=
    match d_sei d with Some v => v | None => connect_session_expiry_interval end in
  if (connect_session_expiry_interval =? 0) && (0 <? disconnect_session_expiry_interval) then vfail else Ok tt.

(* mqtt/publish.rs:391-433 *)
Definition validate_publish_packet_outbound_internal (st : option settings) (r : resolution) (p : publish)
  : outcome unit :=
  do settings <- check_packet_size st (Publish p) r;
  if (pub_pid p =? 0) && negb (pub_qos p =? 0) then vfail
  else if pub_retain p && negb (st_retain_available settings) then vfail
  else if st_maximum_qos settings =? 0 then (if negb (pub_qos p =? 0) then vfail else Ok tt)
  else if st_maximum_qos settings =? 1 then (if pub_qos p =? 2 then vfail else Ok tt)
  else Ok tt.

Definition filter_caps (st : option settings) : option (bool * bool) :=
  match st with
  | Some s => Some (st_shared_subscriptions_available s, st_wildcard_subscriptions_available s)
  | None => None
  end.

(* the `for subscription in &packet.subscriptions` loop, subscribe.rs:296-302 *)
Fixpoint validate_subscriptions (st : option settings) (l : list subscription) : outcome unit :=
  match l with
  | [] => Ok tt
  | x :: rest =>
      do ok <- is_valid_topic_filter_internal (sub_filter x) (filter_caps st) (Some (sub_no_local x));
      if negb ok then vfail else validate_subscriptions st rest
  end.

(* mqtt/subscribe.rs validate_subscribe_packet_outbound_internal: sic — subscription_identifiers_available
   is never consulted (dynamic half of D4, known finding) *)
Definition validate_subscribe_packet_outbound_internal (st : option settings) (s : subscribe) : outcome unit :=
  do _ <- check_packet_size st (Subscribe s) no_resolution;
  if s_pid s =? 0 then vfail
  else validate_subscriptions st (s_subs s).

(* the `for filter in &packet.topic_filters` loop, unsubscribe.rs:234-240 *)
Fixpoint validate_unsubscribe_filters (st : option settings) (l : list bytes) : outcome unit :=
  match l with
  | [] => Ok tt
  | f :: rest =>
      do ok <- is_valid_topic_filter_internal f (filter_caps st) None;
      if negb ok then vfail else validate_unsubscribe_filters st rest
  end.

(* mqtt/unsubscribe.rs:217-243 *)
Definition validate_unsubscribe_packet_outbound_internal (st : option settings) (u : unsubscribe) : outcome unit :=
  do _ <- check_packet_size st (Unsubscribe u) no_resolution;
  if u_pid u =? 0 then vfail
  else validate_unsubscribe_filters st (u_filters u).

(* [r] = context.outbound_alias_resolution.unwrap_or(default); only PUBLISH looks at it.
   [co] = context.connect_options (the engine always supplies Some); only DISCONNECT looks at it. *)
Definition validate_outbound_internal (st : option settings) (co : connect_opts) (r : resolution) (p : packet)
  : outcome unit :=
  match p with
  | Auth a => validate_auth_packet_outbound_internal st a
  | Connect _ => Ok tt
  | Disconnect d => validate_disconnect_packet_outbound_internal st co d
  | Pingreq => Ok tt
  | Puback a | Pubcomp a | Pubrec a | Pubrel a => validate_ack_outbound_internal st p a
  | Publish x => validate_publish_packet_outbound_internal st r x
  | Subscribe s => validate_subscribe_packet_outbound_internal st s
  | Unsubscribe u => validate_unsubscribe_packet_outbound_internal st u
  | Connack _ | Suback _ | Unsuback _ | Pingresp => Err EProtocolError
  end.

(* ------------------------------------------------------------------------------------------ *)
(* inbound validation: validate_packet_inbound_internal 114-133 (the context is never used)    *)

(* mqtt/auth.rs:172-185 *)
Definition validate_auth_packet_inbound_internal (a : auth) : outcome unit :=
  match au_method a with None => vfail | Some _ => Ok tt end.

(* mqtt/connack.rs:271-292; ConnectReasonCode::Success = 0, QualityOfService::ExactlyOnce = 2 *)
Definition validate_connack_packet_inbound_internal (c : connack) : outcome unit :=
  if ca_session_present c && negb (ca_rc c =? 0) then vfail
  else
    do _ <- validate_optional_integer_non_zero (ca_receive_max c);
    do _ <- (match ca_max_qos c with Some q => if q =? 2 then vfail else Ok tt | None => Ok tt end);
    validate_optional_integer_non_zero (ca_max_packet c).

(* mqtt/disconnect.rs:209-219 *)
Definition validate_disconnect_packet_inbound_internal (d : disconnect) : outcome unit :=
  match d_sei d with Some _ => vfail | None => Ok tt end.

(* mqtt/publish.rs:435-451 *)
Definition validate_publish_packet_inbound_internal (p : publish) : outcome unit :=
  if len (pub_topic p) =? 0 then vfail
  else if (pub_pid p =? 0) && negb (pub_qos p =? 0) then vfail
  else Ok tt.

(* validate_ack_inbound_internal! 236-249 *)
Definition validate_pid_nonzero (pid : N) : outcome unit := if pid =? 0 then vfail else Ok tt.

Definition validate_inbound_internal (st : option settings) (p : packet) : outcome unit :=
  match p with
  | Auth a => validate_auth_packet_inbound_internal a
  | Connack c => validate_connack_packet_inbound_internal c
  | Disconnect d => validate_disconnect_packet_inbound_internal d
  | Pingresp => Ok tt
  | Puback a | Pubcomp a | Pubrec a | Pubrel a => validate_pid_nonzero (ack_pid a)
  | Publish x => validate_publish_packet_inbound_internal x
  | Suback s => validate_pid_nonzero (sa_pid s)
  | Unsuback u => validate_pid_nonzero (ua_pid u)
  | Connect _ | Subscribe _ | Unsubscribe _ | Pingreq => Err EProtocolError
  end.
