(* Topic-name and topic-filter grammar of gneiss-mqtt/src/validate.rs:240-341.

   Strings are UTF-8 byte lists.  The Rust code works on `&str`: `contains(['#','+'])`, `contains('\0')`,
   `split('/')`, `segment == "#"`, `segment == "$share"` and `len()` (BYTE length).  The
   characters it looks for ('/' 47, '+' 43, '#' 35, U+0000 and the ASCII string "$share") are ASCII, and in
   well-formed UTF-8 every byte of a multi-byte character is >= 128, so none of them can occur
   inside a multi-byte character: searching / splitting on the BYTE values is exactly what the
   char-level Rust functions compute on every valid `&str` (and `len()` is already in bytes).
   Invalid UTF-8 cannot reach these functions (a `&str` is valid by construction). *)
From GM Require Import Base.Prelude Base.Outcome Codec.Packets Codec.Prim.
Open Scope N_scope.

Definition MAXIMUM_STRING_PROPERTY_LENGTH : N := 65535.
Definition MAXIMUM_BINARY_PROPERTY_LENGTH : N := 65535.

Definition SLASH : N := 47.
Definition PLUS : N := 43.
Definition HASH : N := 35.
Definition DOLLAR_SHARE : bytes := [36; 115; 104; 97; 114; 101].    (* "$share" *)

(* str::contains(['#', '+']) *)
Definition contains_wildcard (s : bytes) : bool := existsb (fun b => (b =? HASH) || (b =? PLUS)) s.

(* str::contains('\0') *)
Definition contains_nul (s : bytes) : bool := existsb (fun b => b =? 0) s.

(* is_valid_topic 240-254 *)
Definition is_valid_topic (topic : bytes) : bool :=
  if (len topic =? 0) || (MAXIMUM_STRING_PROPERTY_LENGTH <? len topic) then false
  else if contains_wildcard topic then false
  else if contains_nul topic then false
  else true.

(* str::split('/'): always at least one segment; "a/" gives ["a"; ""].
   [cur] accumulates the current segment in reverse; rev_append (linear) instead of rev so that
   the extracted function is usable on 65536-byte strings. *)
Fixpoint split_slash_aux (cur : bytes) (s : bytes) : list bytes :=
  match s with
  | [] => [rev_append cur []]
  | b :: s' => if b =? SLASH then rev_append cur [] :: split_slash_aux [] s' else split_slash_aux (b :: cur) s'
  end.
Definition split_slash (s : bytes) : list bytes := split_slash_aux [] s.

Fixpoint beqb (a b : bytes) : bool :=
  match a, b with
  | [], [] => true
  | x :: a', y :: b' => (x =? y) && beqb a' b'
  | _, _ => false
  end.

(* TopicFilterProperties 257-261 *)
Record topic_filter_props := { tf_is_valid : bool; tf_is_shared : bool; tf_has_wildcard : bool }.

(* loop state of compute_topic_filter_properties *)
Record tf_state := {
  ts_is_valid : bool; ts_is_shared : bool; ts_has_wildcard : bool;
  ts_has_share_prefix : bool; ts_has_share_name : bool; ts_seen_mlw : bool }.

Definition ts_props (s : tf_state) : topic_filter_props :=
  {| tf_is_valid := ts_is_valid s; tf_is_shared := ts_is_shared s; tf_has_wildcard := ts_has_wildcard s |}.

(* the loop body 283-312; `break` = stop and return the state as it is *)
Fixpoint tf_loop (index : N) (segments : list bytes) (s : tf_state) : tf_state :=
  match segments with
  | [] => s
  | segment :: rest =>
      if ts_seen_mlw s then
        {| ts_is_valid := false; ts_is_shared := ts_is_shared s; ts_has_wildcard := ts_has_wildcard s;
           ts_has_share_prefix := ts_has_share_prefix s; ts_has_share_name := ts_has_share_name s;
           ts_seen_mlw := true |}
      else
        let has_wildcard := contains_wildcard segment in
        let p_has_wildcard := ts_has_wildcard s || has_wildcard in
        let has_share_prefix :=
          if (index =? 0) && beqb segment DOLLAR_SHARE then true else ts_has_share_prefix s in
        let has_share_name :=
          if (index =? 1) && has_share_prefix && negb (len segment =? 0) && negb has_wildcard
          then true else ts_has_share_name s in
        let is_shared :=
          if has_share_name && (((index =? 2) && negb (len segment =? 0)) || (2 <? index))
          then true else ts_is_shared s in
        if len segment =? 1 then
          let seen_mlw := if beqb segment [HASH] then true else false in
          tf_loop (index + 1) rest
            {| ts_is_valid := ts_is_valid s; ts_is_shared := is_shared; ts_has_wildcard := p_has_wildcard;
               ts_has_share_prefix := has_share_prefix; ts_has_share_name := has_share_name;
               ts_seen_mlw := seen_mlw |}
        else if has_wildcard then
          {| ts_is_valid := false; ts_is_shared := is_shared; ts_has_wildcard := p_has_wildcard;
             ts_has_share_prefix := has_share_prefix; ts_has_share_name := has_share_name;
             ts_seen_mlw := false |}
        else
          tf_loop (index + 1) rest
            {| ts_is_valid := ts_is_valid s; ts_is_shared := is_shared; ts_has_wildcard := p_has_wildcard;
               ts_has_share_prefix := has_share_prefix; ts_has_share_name := has_share_name;
               ts_seen_mlw := false |}
  end.

Definition tf_initial : tf_state :=
  {| ts_is_valid := true; ts_is_shared := false; ts_has_wildcard := false;
     ts_has_share_prefix := false; ts_has_share_name := false; ts_seen_mlw := false |}.

(* compute_topic_filter_properties 263-315 *)
Definition topic_filter_properties (topic : bytes) : topic_filter_props :=
  if (len topic =? 0) || (MAXIMUM_STRING_PROPERTY_LENGTH <? len topic)
  then {| tf_is_valid := false; tf_is_shared := false; tf_has_wildcard := false |}
  else if contains_nul topic
  then {| tf_is_valid := false; tf_is_shared := false; tf_has_wildcard := false |}
  else ts_props (tf_loop 0 (split_slash topic) tf_initial).

(* is_valid_topic_filter_internal 317-341.  [settings] = context.negotiated_settings projected on
   the two fields used: (shared_subscriptions_available, wildcard_subscriptions_available);
   None = negotiated_settings is None: `.unwrap()` panics (Panic 50), but only on the paths that
   reach an unwrap. *)
Definition is_valid_topic_filter_internal (filter : bytes) (caps : option (bool * bool)) (no_local : option bool)
  : outcome bool :=
  let p := topic_filter_properties filter in
  if negb (tf_is_valid p) then Ok false
  else
    let shared_step : outcome (option bool) :=    (* Some b = return b; None = fall through *)
      if tf_is_shared p then
        match caps with
        | None => Panic 50
        | Some (shared_available, _) =>
            if negb shared_available then Ok (Some false)
            else match no_local with
                 | Some true => Ok (Some false)
                 | _ => Ok None
                 end
        end
      else Ok None in
    do r <- shared_step;
    match r with
    | Some b => Ok b
    | None =>
        if tf_has_wildcard p then
          match caps with
          | None => Panic 50
          | Some (_, wildcard_available) => if negb wildcard_available then Ok false else Ok true
          end
        else Ok true
    end.
