(* C13 — both drivers move bytes faithfully and always deliver an operation's result.
   Only statements; proofs live in ClientProofs/{DriverBytesP,WsP,ResultSlotP}.v.
   Models: Client/Driver.v (write / read path of both event loops), Client/WsCursor.v (WebsocketStreamWrapper),
   Client/ResultSlot.v (operation channel + per-operation result channel). *)
From GM Require Import Base.Prelude Base.Outcome Client.Backoff Client.Impl Client.Driver Client.WsCursor Client.ResultSlot
  ClientProofs.DriverBytesP ClientProofs.WsP ClientProofs.ResultSlotP.
Open Scope N_scope.

(* for EVERY engine and EVERY list of driver events — every sequence of write results (accepted 1..n bytes, 0 bytes,
   would-block, interrupted, error), reads, services, operations, for both drivers —
   the bytes the transport accepted followed by the unwritten tail of the buffer are exactly the concatenation of the
   engine's outputs in order; write completion was only ever reported when exactly the outputs produced so far had been
   accepted; every finished connection's transport got a prefix of that connection's outputs *)
Theorem C13_bytes_out :
  forall E U D e_tag e_user e_disc e_reset e_opened e_closed e_data e_wc e_service e_nst thr e0 bc timeout h,
  let s := drun E U D e_tag e_user e_disc e_reset e_opened e_closed e_data e_wc e_service e_nst thr (dinit E e0 bc timeout) h in
  d_wire s ++ skipn (N.to_nat (d_cursor s)) (d_buf s) = concat (d_outs s) /\
  Forall (fun w => exists k, (k <= length (d_outs s))%nat /\ w = concat (firstn k (d_outs s))) (d_wcs s) /\
  Forall finished_ok (d_conns s).
Proof. exact bytes_out. Qed.

Theorem C13_bytes_in :
  forall E U D e_tag e_user e_disc e_reset e_opened e_closed e_data e_wc e_service e_nst thr (s : dstate E) now b data,
  d_flush s = false ->
  exists s1 : dstate E,
    d_fed s1 = d_fed s ++ [b :: data] /\
    d_c s1 = fst (fst (handle_incoming_bytes E e_data (d_c s) now (b :: data))) /\
    d_wire s1 = d_wire s /\ d_buf s1 = d_buf s /\
    step_connected E U D e_tag e_user e_disc e_reset e_opened e_closed e_data e_wc e_service e_nst thr s now (DRead (b :: data)) =
    match snd (handle_incoming_bytes E e_data (d_c s) now (b :: data)) with
    | Ok _ => after_event E e_opened e_closed thr s1 now
    | Err k => fail_with E e_opened e_closed thr s1 now k
    | Panic _ => set_status E s1 Panicked
    end.
Proof. exact bytes_in_step. Qed.

(* WebSocket adapter (as repaired by 73a05c7; D15): for EVERY list of messages — binary / text / control, of any size
   relative to the buffer, several per read —, EVERY buffer size and EVERY arrival pattern (the transport may report
   would-block between any two messages; transport failures excluded), the bytes returned by successive reads are the
   concatenation of the data payloads, in order ... *)
Theorem C13_ws_reassembly : forall size sock rounds,
  0 < size -> no_err sock = true -> (length (stream_of sock) + length sock <= rounds)%nat ->
  read_all rounds w_init sock size = Some (stream_of sock).
Proof. exact ws_reassembly. Qed.

(* ... and no read reports more than the buffer holds, in every state successive reads can reach *)
Theorem C13_ws_read_bounded : forall size w sock,
  0 < size -> w_final w = false -> no_err sock = true ->
  let '(w', sock', data, res) := ws_read w sock size in
  len data <= size /\ res = (if 0 <? len data then ROk (len data) else RErrWouldBlock) /\
  w_final w' = false /\ no_err sock' = true.
Proof. exact ws_read_bounded. Qed.

(* write side, REFUTED (D15b, known finding): a send that queued the frame and then hit would-block is sent again *)
Theorem C13_ws_write_refuted :
  let '(o, done) := drive_batch out_init [9; 8; 7] [TBlock; TOk] in
  done = true /\ o_wire o = [[9; 8; 7]; [9; 8; 7]].
Proof. exact refuted_write_duplicated. Qed.

(* ... outside that class (no would-block answer to a send) every batch reaches the wire exactly once *)
Theorem C13_ws_write : forall o batch results,
  results <> [] -> ~ known_d15b results ->
  drive_batch o batch results = (mkOut [] (o_wire o ++ o_queue o ++ [batch]), true).
Proof. exact drive_batch_ok. Qed.

(* tokio: in EVERY interleaving of submit / loop takes an operation / engine completes / close / abnormal loop exit /
   receiver dropped, an operation submitted once is accounted for exactly once, nothing is lost, and once the loop has
   exited it has exactly one result — whether it was submitted before, during or after the close *)
Theorem C13_result_exactly_once : forall evs id,
  cnt id (submitted evs) = 1%nat ->
  accounted id (rrun false evs) = 1%nat /\ r_lost (rrun false evs) = [] /\
  (r_alive (rrun false evs) = false -> results_of id (rrun false evs) = 1%nat).
Proof. exact result_exactly_once_tokio. Qed.

(* threaded: the same outside the known defect class D16 (histories in which the loop exits) ... *)
Theorem C13_result_exactly_once_threaded : forall evs id,
  ~ known_d16 evs -> cnt id (submitted evs) = 1%nat ->
  accounted id (rrun true evs) = 1%nat /\ r_lost (rrun true evs) = [].
Proof. exact result_exactly_once_threaded_not_known. Qed.

(* ... REFUTED once its loop exits (D16): SyncResultSender has no Drop *)
Theorem C13_result_exactly_once_refuted :
  (let s := rrun true [RSubmit 1; RSubmit 2; RTake; RShutdown] in
   results_of 1 s = 1%nat /\ results_of 2 s = 0%nat /\ r_lost s = [2]) /\
  (let s := rrun true [RSubmit 1; RTake; RDie] in results_of 1 s = 0%nat /\ r_lost s = [1]).
Proof. exact result_exactly_once_threaded_refuted. Qed.

(* the former D15 counterexamples (corpus/C13/ws.txt) on the repaired adapter *)
Example C13_ws_former_counterexamples :
  read_all 8 w_init [RMsg (MBinary [1; 2; 3]); RMsg (MBinary [4; 5])] 8 = Some [1; 2; 3; 4; 5] /\
  read_all 8 w_init [RMsg (MBinary [1; 2; 3]); RMsg (MBinary [4; 5; 6])] 4 = Some [1; 2; 3; 4; 5; 6] /\
  read_all 8 w_init [RMsg (MBinary [1; 2; 3; 4; 5; 6])] 4 = Some [1; 2; 3; 4; 5; 6].
Proof. exact former_counterexamples. Qed.
