From GM Require Import Base.Prelude Client.Backoff Properties.C19.
Open Scope N_scope.
Check C19_sequence : forall c h, cfg_ok c = true -> waits c h = spec_run c 0 None h.
Check C19_kth_wait : forall c n, cfg_ok c = true -> c_jit c = JNone ->
  waits c (n_waits n) = map (fun i => kth_bound c (N.of_nat i)) (seq 0 n).
Check C19_never_exceeds_max : forall c h w,
  cfg_ok c = true -> In w (waits c h) -> w <= c_max (normalize c).
Check C19_jitter_range : forall p j, jittered p j <= p /\ (0 < p -> jittered p j < p).
Check C19_effective_bounds : forall c,
  NANOS <= c_max (normalize c) /\ c_base (normalize c) <= c_max (normalize c).
Check C19_total : forall d, double_sat d <= DMAX.
Print Assumptions C19_sequence.
Print Assumptions C19_kth_wait.
Print Assumptions C19_never_exceeds_max.
Print Assumptions C19_jitter_range.
Print Assumptions C19_effective_bounds.
Print Assumptions C19_total.
