(* C08 — the service-time contract never strands work: single-step statements about
   [next_service_time] / [nst_queue] / [dequeue] of the engine model, for ANY components.
   Proofs: EngineProofs/SvcTime.v. *)
From GM Require Import Base.Prelude Base.Outcome Codec.Packets Codec.Settings Alias.Outbound Engine.Model Engine.Instance.
From GM Require Import EngineProofs.SvcTime EngineProofs.IdsWitness.
Open Scope N_scope.

Section Engine.
  Variable enc : Type.
  Variable enc_reset : version -> packet -> resolution -> outcome enc.
  Variable enc_call : enc -> N -> N -> outcome (bytes * enc).
  Variable enc_done : enc -> bool.
  Variable dec : Type.
  Variable dec_init : dec.
  Variable dec_feed : version -> N -> dec -> bytes -> dec * list packet * outcome unit.
  Variable ores : Type.
  Variable ores_reset : ores -> N -> ores.
  Variable ores_resolve : ores -> option N -> bytes -> outcome (ores * resolution).
  Variable ires : Type.
  Variable ires_reset : ires -> ires.
  Variable ires_resolve : ires -> option N -> bytes -> outcome (ires * bytes).
  Variable v_out : option settings -> connect_opts -> resolution -> packet -> outcome unit.
  Variable v_in : option settings -> packet -> outcome unit.
  Variable cfg : config.
  Notation state := (Model.state enc dec ores ires).
  Notation init := (Model.init enc dec dec_init ores ires).
  Notation step := (Model.step enc enc_reset enc_call enc_done dec dec_init dec_feed ores ores_reset ores_resolve ires ires_reset ires_resolve v_out v_in cfg).
  Notation run := (Model.run enc enc_reset enc_call enc_done dec dec_init dec_feed ores ores_reset ores_resolve ires ires_reset ires_resolve v_out v_in cfg).
  Notation nst_queue := (Model.nst_queue enc dec ores ires cfg).
  Notation dequeue := (Model.dequeue enc dec ores ires cfg).
  Notation next_service_time := (Model.next_service_time enc dec ores ires cfg).
  Notation serviceable := (SvcTime.serviceable enc dec ores ires cfg).
  Notation candidates := (SvcTime.candidates enc dec ores ires cfg).

  (* the queue part of the reported time mirrors the dequeue rules exactly (write pending, current
     operation, high-priority queue, slow-start throttle, receive-maximum gate on the queue heads):
     `now` iff no write is pending and there is a current operation or dequeue would hand one out *)
  Theorem C08_nst_queue_mirrors_dequeue : forall (s : state) mode_all now,
    nst_queue s mode_all now = if serviceable s mode_all then Some now else None.
  Proof. exact (nst_queue_dequeue enc dec ores ires cfg). Qed.

  Theorem C08_dequeue_iff : forall (s : state) mode_all now,
    s_pwc s = false ->
    (nst_queue s mode_all now = Some now <-> (s_cur s <> None \/ snd (dequeue s mode_all) <> None)).
  Proof. exact (nst_queue_iff enc dec ores ires cfg). Qed.

  Theorem C08_pending_write_blocks : forall (s : state) mode_all now,
    s_pwc s = true -> nst_queue s mode_all now = None /\ dequeue s mode_all = (s, None).
  Proof. exact (pending_write_blocks enc dec ores ires cfg). Qed.

  (* the reported time is exactly the minimum of the candidate wake-up times: `now` when the queue
     is serviceable, the ping timeout, every ack-timeout record, the next ping (no write pending),
     the CONNACK deadline; never anything else, and None iff there is no candidate *)
  Theorem C08_reported_time_is_min : forall (s : state) now,
    (s_st s = PendingConnack -> s_connack_to s <> None) ->
    exists r, next_service_time s now = Ok r /\ is_min r (candidates s now).
  Proof. exact (next_service_time_min enc dec ores ires cfg). Qed.

  Theorem C08_no_lost_wakeup : forall (s : state) now,
    (s_st s = PendingConnack \/ s_st s = Connected) ->
    (s_st s = PendingConnack -> s_connack_to s <> None) ->
    s_pwc s = false -> (s_cur s <> None \/ s_hq s <> []) ->
    exists t, next_service_time s now = Ok (Some t) /\ t <= now.
  Proof. exact (no_lost_wakeup enc dec ores ires cfg). Qed.

  Theorem C08_timers_honoured : forall (s : state) now r,
    next_service_time s now = Ok r ->
    (s_st s = Connected -> forall d, s_ping_to s = Some d -> opt_le r d) /\
    (s_st s = Connected \/ s_st s = PendingDisconnect -> forall id d, In (id, d) (s_tmo s) -> opt_le r d) /\
    (s_st s = Connected -> s_pwc s = false -> forall d, s_next_ping s = Some d -> opt_le r d) /\
    (s_st s = PendingConnack -> forall d, s_connack_to s = Some d -> opt_le r d).
  Proof. exact (timers_honoured enc dec ores ires cfg). Qed.
End Engine.

(* non-vacuity (instance, keep-alive 3 s): idle after CONNACK the next ping time is reported; after the
   PINGREQ is written the ping timeout min(10 s, 1.5 s) = 4500 is reported *)
Example C08_example :
  map o_nst (x_outs (x_cfg_full 0 false None 3)
     (x_connect_events x_connack_bytes ++ [EvNextService 100; EvService 3000 4096 0; EvNextService 3000; EvWriteComplete 3000; EvNextService 3001]))
  = [None; None; None; None; Some (Some 3000); None; Some (Some 4500); None; Some (Some 4500)].
Proof. vm_compute. reflexivity. Qed.

(* ---- run-level versions without the premise `s_st s = PendingConnack -> s_connack_to s <> None`: it is a conjunct of the engine well-formedness invariant (WFP, EngineProofs/WF*.v), so it holds in every state reachable by any event history (EngineProofs/SvcTimeWF.v); the C08_instance_* forms are about the concrete engine of Engine/Instance.v, with only ok_cfg and ok_event left ---- *)
From GM Require Import EngineProofs.WFDefs EngineProofs.SvcTimeWF.

Theorem C08_reported_time_is_min_run : forall (enc : Type) (enc_reset : version -> packet -> resolution -> outcome enc) (enc_call : enc -> N -> N -> outcome (bytes * enc)) (enc_done : enc -> bool) (dec : Type) (dec_init : dec) (dec_feed : version -> N -> dec -> bytes -> dec * list packet * outcome unit) (ores : Type) (ores_reset : ores -> N -> ores) (ores_resolve : ores -> option N -> bytes -> outcome (ores * resolution)) (ires : Type) (ires_reset : ires -> ires) (ires_resolve : ires -> option N -> bytes -> outcome (ires * bytes)) (v_out : option settings -> connect_opts -> resolution -> packet -> outcome unit) (v_in : option settings -> packet -> outcome unit) (cfg : config) (HC : comps_ok enc enc_reset enc_call dec dec_init dec_feed ores ores_reset ores_resolve ires ires_reset ires_resolve v_out v_in), ok_cfg cfg -> forall (o : ores) (i : ires) (h : list event) (now : N), @ores_inv enc enc_reset enc_call dec dec_init dec_feed ores ores_reset ores_resolve ires ires_reset ires_resolve v_out v_in HC o -> @ires_inv enc enc_reset enc_call dec dec_init dec_feed ores ores_reset ores_resolve ires ires_reset ires_resolve v_out v_in HC i -> @Forall event ok_event h -> exists r : option N, next_service_time enc dec ores ires cfg (@fst (state enc dec ores ires) (list output) (run enc enc_reset enc_call enc_done dec dec_init dec_feed ores ores_reset ores_resolve ires ires_reset ires_resolve v_out v_in cfg (init enc dec dec_init ores ires o i) h)) now = @Ok (option N) r /\ is_min r (candidates enc dec ores ires cfg (@fst (state enc dec ores ires) (list output) (run enc enc_reset enc_call enc_done dec dec_init dec_feed ores ores_reset ores_resolve ires ires_reset ires_resolve v_out v_in cfg (init enc dec dec_init ores ires o i) h)) now).
Proof. exact @reported_time_is_min_run. Qed.

Theorem C08_no_lost_wakeup_run : forall (enc : Type) (enc_reset : version -> packet -> resolution -> outcome enc) (enc_call : enc -> N -> N -> outcome (bytes * enc)) (enc_done : enc -> bool) (dec : Type) (dec_init : dec) (dec_feed : version -> N -> dec -> bytes -> dec * list packet * outcome unit) (ores : Type) (ores_reset : ores -> N -> ores) (ores_resolve : ores -> option N -> bytes -> outcome (ores * resolution)) (ires : Type) (ires_reset : ires -> ires) (ires_resolve : ires -> option N -> bytes -> outcome (ires * bytes)) (v_out : option settings -> connect_opts -> resolution -> packet -> outcome unit) (v_in : option settings -> packet -> outcome unit) (cfg : config) (HC : comps_ok enc enc_reset enc_call dec dec_init dec_feed ores ores_reset ores_resolve ires ires_reset ires_resolve v_out v_in), ok_cfg cfg -> forall (o : ores) (i : ires) (h : list event) (now : N), @ores_inv enc enc_reset enc_call dec dec_init dec_feed ores ores_reset ores_resolve ires ires_reset ires_resolve v_out v_in HC o -> @ires_inv enc enc_reset enc_call dec dec_init dec_feed ores ores_reset ores_resolve ires ires_reset ires_resolve v_out v_in HC i -> @Forall event ok_event h -> @s_st enc dec ores ires (@fst (state enc dec ores ires) (list output) (run enc enc_reset enc_call enc_done dec dec_init dec_feed ores ores_reset ores_resolve ires ires_reset ires_resolve v_out v_in cfg (init enc dec dec_init ores ires o i) h)) = PendingConnack \/ @s_st enc dec ores ires (@fst (state enc dec ores ires) (list output) (run enc enc_reset enc_call enc_done dec dec_init dec_feed ores ores_reset ores_resolve ires ires_reset ires_resolve v_out v_in cfg (init enc dec dec_init ores ires o i) h)) = Connected -> @s_pwc enc dec ores ires (@fst (state enc dec ores ires) (list output) (run enc enc_reset enc_call enc_done dec dec_init dec_feed ores ores_reset ores_resolve ires ires_reset ires_resolve v_out v_in cfg (init enc dec dec_init ores ires o i) h)) = false -> @s_cur enc dec ores ires (@fst (state enc dec ores ires) (list output) (run enc enc_reset enc_call enc_done dec dec_init dec_feed ores ores_reset ores_resolve ires ires_reset ires_resolve v_out v_in cfg (init enc dec dec_init ores ires o i) h)) <> @None N \/ @s_hq enc dec ores ires (@fst (state enc dec ores ires) (list output) (run enc enc_reset enc_call enc_done dec dec_init dec_feed ores ores_reset ores_resolve ires ires_reset ires_resolve v_out v_in cfg (init enc dec dec_init ores ires o i) h)) <> [] -> exists t : N, next_service_time enc dec ores ires cfg (@fst (state enc dec ores ires) (list output) (run enc enc_reset enc_call enc_done dec dec_init dec_feed ores ores_reset ores_resolve ires ires_reset ires_resolve v_out v_in cfg (init enc dec dec_init ores ires o i) h)) now = @Ok (option N) (@Some N t) /\ t <= now.
Proof. exact @no_lost_wakeup_run. Qed.

Theorem C08_instance_reported_time_is_min : forall (cfg : config) (k : resolver_kind) (h : list event) (now : N), ok_cfg cfg -> @Forall event ok_event h -> exists r : option N, next_service_time enc Framing.decoder ores Inbound.ires cfg (@fst istate (list output) (i_run cfg (i_init cfg k) h)) now = @Ok (option N) r /\ is_min r (candidates enc Framing.decoder ores Inbound.ires cfg (@fst istate (list output) (i_run cfg (i_init cfg k) h)) now).
Proof. exact @instance_reported_time_is_min. Qed.

Theorem C08_instance_no_lost_wakeup : forall (cfg : config) (k : resolver_kind) (h : list event) (now : N), ok_cfg cfg -> @Forall event ok_event h -> @s_st enc Framing.decoder ores Inbound.ires (@fst istate (list output) (i_run cfg (i_init cfg k) h)) = PendingConnack \/ @s_st enc Framing.decoder ores Inbound.ires (@fst istate (list output) (i_run cfg (i_init cfg k) h)) = Connected -> @s_pwc enc Framing.decoder ores Inbound.ires (@fst istate (list output) (i_run cfg (i_init cfg k) h)) = false -> @s_cur enc Framing.decoder ores Inbound.ires (@fst istate (list output) (i_run cfg (i_init cfg k) h)) <> @None N \/ @s_hq enc Framing.decoder ores Inbound.ires (@fst istate (list output) (i_run cfg (i_init cfg k) h)) <> [] -> exists t : N, next_service_time enc Framing.decoder ores Inbound.ires cfg (@fst istate (list output) (i_run cfg (i_init cfg k) h)) now = @Ok (option N) (@Some N t) /\ t <= now.
Proof. exact @instance_no_lost_wakeup. Qed.
