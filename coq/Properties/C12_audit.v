From GM Require Import Base.Prelude Base.Outcome Codec.Packets Engine.Model Engine.Instance
  Client.Backoff Client.Impl Client.Driver Client.MiniEngine Client.ImplEngine
  ClientProofs.ImplP ClientProofs.LifecycleW ClientProofs.EngineFactsP ClientProofs.ComposedP Properties.C12.
From GM Require EngineProofs.WFDefs.
Open Scope N_scope.
Check C12_transition_table : forall cur des stop, cost cur des stop = cost_spec cur des stop.
Check C12_transition_table_complete :
  length cost_domain = 75%nat /\ forall cur des stop, In (cur, des, stop) cost_domain.
Check C12_event_grammar :
  forall E U D e_tag e_user e_disc e_reset e_opened e_closed e_data e_wc e_service e_nst,
  engine_facts E U D e_tag e_user e_disc e_reset e_opened e_closed e_data e_wc e_service ->
  forall thr e0 bc timeout h, e_tag e0 = TDisconnected ->
  grammar_ok (d_log (drun E U D e_tag e_user e_disc e_reset e_opened e_closed e_data e_wc e_service e_nst thr
                          (dinit E e0 bc timeout) h)) = true.
Check C12_loop_alive :
  forall E U D e_tag e_user e_disc e_reset e_opened e_closed e_data e_wc e_service e_nst,
  engine_facts E U D e_tag e_user e_disc e_reset e_opened e_closed e_data e_wc e_service ->
  forall thr e0 bc timeout h, e_tag e0 = TDisconnected ->
  d_status (drun E U D e_tag e_user e_disc e_reset e_opened e_closed e_data e_wc e_service e_nst thr
                 (dinit E e0 bc timeout) h) <> Dead.
Check C12_loop_alive_huge_timeout :
  d_status (i_drun w_cfg false w_init_huge [(0, DOp OpStart); (0, DConnOk)]) = Running /\
  cur (i_drun w_cfg false w_init_huge [(0, DOp OpStart); (0, DConnOk)]) = CConnected /\
  d_status (i_drun w_cfg true w_init_huge [(0, DOp OpStart); (0, DCheck); (0, DConnFail)]) = Running /\
  cur (i_drun w_cfg true w_init_huge [(0, DOp OpStart); (0, DCheck); (0, DConnFail)]) = CPendingReconnect.
Check C12_deadline_total : forall site t d, t + U32S <= IMAX -> exists r, add_saturating site t d = Ok r.
Check C12_stop_during_handshake_stops : forall thr,
  cur (i_drun w_cfg thr w_init w_d13_prefix) = CStopped /\
  d_status (i_drun w_cfg thr w_init w_d13_prefix) = Running /\
  c_stop (d_c (i_drun w_cfg thr w_init w_d13_prefix)) = SNone /\
  d_log (i_drun w_cfg thr w_init w_d13_prefix) = [EvAttempt; EvFailure EUserInitiatedDisconnect false; EvStopped].
Check C12_stop_stops :
  forall E U D e_tag e_user e_disc e_reset e_opened e_closed e_data e_wc e_service e_nst,
  engine_facts E U D e_tag e_user e_disc e_reset e_opened e_closed e_data e_wc e_service ->
  forall thr e0 bc timeout, e_tag e0 = TDisconnected -> forall h now,
  let s := reach E U D e_tag e_user e_disc e_reset e_opened e_closed e_data e_wc e_service e_nst thr e0 bc timeout h in
  d_status s = Running -> c_des (d_c s) = CStopped -> (cur s <> CConnected \/ c_stop (d_c s) <> SDisc) ->
  let s' := check E e_opened e_closed thr s now in
  d_status s' = Running /\ cur s' = CStopped /\ c_des (d_c s') = CStopped /\
  exists evs, d_log s' = d_log s ++ evs /\
              count_stopped evs = (if cstate_eqb (cur s) CStopped then 0 else 1)%nat /\
              existsb is_attempt_ev evs = false.
Check C12_stop_stops_two_events :
  forall E U D e_tag e_user e_disc e_reset e_opened e_closed e_data e_wc e_service e_nst,
  engine_facts E U D e_tag e_user e_disc e_reset e_opened e_closed e_data e_wc e_service ->
  forall thr e0 bc timeout, e_tag e0 = TDisconnected -> forall h now now' d,
  let s := reach E U D e_tag e_user e_disc e_reset e_opened e_closed e_data e_wc e_service e_nst thr e0 bc timeout h in
  d_status s = Running -> d_flush s = false -> d_pos s = 0 ->
  c_stop (handle_op E U D e_tag e_user e_disc e_reset (d_c s) now (OpStop d)) <> SDisc ->
  let s2 := dstep E U D e_tag e_user e_disc e_reset e_opened e_closed e_data e_wc e_service e_nst thr
              (dstep E U D e_tag e_user e_disc e_reset e_opened e_closed e_data e_wc e_service e_nst thr s now (DOp (OpStop d)))
              now' DCheck in
  d_status s2 = Running /\ cur s2 = CStopped /\ c_des (d_c s2) = CStopped /\
  exists evs, d_log s2 = d_log s ++ evs /\
              count_stopped evs = (if cstate_eqb (cur s) CStopped then 0 else 1)%nat /\
              existsb is_attempt_ev evs = false.
Check C12_stop_waits_only_when_established :
  forall E U D e_tag e_user e_disc e_reset e_opened e_closed e_data e_wc e_service e_nst,
  engine_facts E U D e_tag e_user e_disc e_reset e_opened e_closed e_data e_wc e_service ->
  forall thr e0 bc timeout, e_tag e0 = TDisconnected -> forall h now d,
  let s := reach E U D e_tag e_user e_disc e_reset e_opened e_closed e_data e_wc e_service e_nst thr e0 bc timeout h in
  d_status s = Running ->
  let c' := handle_op E U D e_tag e_user e_disc e_reset (d_c s) now (OpStop d) in
  c_stop c' = SDisc -> c_cur c' = CConnected /\ e_tag (c_eng c') = TConnected.
Check C12_restartable :
  forall E U D e_tag e_user e_disc e_reset e_opened e_closed e_data e_wc e_service e_nst thr e0 bc timeout h now,
  let s := reach E U D e_tag e_user e_disc e_reset e_opened e_closed e_data e_wc e_service e_nst thr e0 bc timeout h in
  d_status s = Running -> cur s = CStopped -> c_des (d_c s) = CConnected ->
  let s' := check E e_opened e_closed thr s now in
  cur s' = CConnecting /\ d_log s' = d_log s ++ [EvAttempt] /\ d_status s' <> Dead.
Check C12_close_terminal :
  forall E U D e_tag e_user e_disc e_reset e_opened e_closed e_data e_wc e_service e_nst,
  engine_facts E U D e_tag e_user e_disc e_reset e_opened e_closed e_data e_wc e_service ->
  forall thr e0 bc timeout, e_tag e0 = TDisconnected -> forall h now k,
  let s := reach E U D e_tag e_user e_disc e_reset e_opened e_closed e_data e_wc e_service e_nst thr e0 bc timeout h in
  d_status s = Running -> c_des (d_c s) = CShutdown -> (cur s <> CConnected \/ c_stop (d_c s) <> SDisc) ->
  let s' := check E e_opened e_closed thr s now in
  d_status s' = Exited /\
  existsb is_attempt_ev (skipn (length (d_log s)) (d_log s')) = false /\
  drun E U D e_tag e_user e_disc e_reset e_opened e_closed e_data e_wc e_service e_nst thr s' k = s'.
Check C12_engine_model_opened : forall cfg e now dl,
  fact_opened (ie_tag e) (is_ok (snd (ie_opened cfg e now dl))) (ie_tag (fst (ie_opened cfg e now dl))) = true.
Print Assumptions C12_transition_table.
Print Assumptions C12_transition_table_complete.
Print Assumptions C12_event_grammar.
Print Assumptions C12_loop_alive.
Print Assumptions C12_loop_alive_huge_timeout.
Print Assumptions C12_deadline_total.
Print Assumptions C12_stop_during_handshake_stops.
Print Assumptions C12_stop_stops.
Print Assumptions C12_stop_stops_two_events.
Print Assumptions C12_stop_waits_only_when_established.
Print Assumptions C12_restartable.
Print Assumptions C12_close_terminal.
Print Assumptions C12_engine_model_opened.
Check C12_engine_model_facts : forall cfg, ok_cfg cfg ->
  engine_facts_inv istate ImplEngine.U packet (IWF cfg) clock_ms_ok ie_tag (ie_user cfg) (ie_disc cfg) (ie_reset cfg)
    (ie_opened cfg) (ie_closed cfg) (ie_data cfg) (ie_wc cfg) (ie_service cfg).
Check C12_engine_model_init_wf : forall cfg k, IWF cfg (i_init cfg k) /\ ie_tag (i_init cfg k) = TDisconnected.
Check C12_composed_event_grammar : forall cfg, ok_cfg cfg -> forall k thr bc timeout h, i_clock_ok h ->
  grammar_ok (d_log (i_drun cfg thr (i_dinit cfg k bc timeout) h)) = true.
Check C12_composed_loop_alive : forall cfg, ok_cfg cfg -> forall k thr bc timeout h, i_clock_ok h ->
  d_status (i_drun cfg thr (i_dinit cfg k bc timeout) h) <> Dead.
Check C12_composed_stop_stops : forall cfg, ok_cfg cfg -> forall k thr bc timeout h now, i_clock_ok h ->
  let s := i_drun cfg thr (i_dinit cfg k bc timeout) h in
  d_status s = Running -> c_des (d_c s) = CStopped -> (cur s <> CConnected \/ c_stop (d_c s) <> SDisc) ->
  let s' := check istate (ie_opened cfg) (ie_closed cfg) thr s now in
  d_status s' = Running /\ cur s' = CStopped /\ c_des (d_c s') = CStopped /\
  exists evs, d_log s' = d_log s ++ evs /\
              count_stopped evs = (if cstate_eqb (cur s) CStopped then 0 else 1)%nat /\
              existsb is_attempt_ev evs = false.
Check C12_composed_stop_stops_two_events : forall cfg, ok_cfg cfg -> forall k thr bc timeout h now now' d, i_clock_ok h ->
  let s := i_drun cfg thr (i_dinit cfg k bc timeout) h in
  d_status s = Running -> d_flush s = false -> d_pos s = 0 ->
  c_stop (handle_op istate ImplEngine.U packet ie_tag (ie_user cfg) (ie_disc cfg) (ie_reset cfg) (d_c s) now (OpStop d)) <> SDisc ->
  let s2 := i_dstep cfg thr (i_dstep cfg thr s now (DOp (OpStop d))) now' DCheck in
  d_status s2 = Running /\ cur s2 = CStopped /\ c_des (d_c s2) = CStopped /\
  exists evs, d_log s2 = d_log s ++ evs /\
              count_stopped evs = (if cstate_eqb (cur s) CStopped then 0 else 1)%nat /\
              existsb is_attempt_ev evs = false.
Check C12_composed_stop_waits_only_when_established : forall cfg, ok_cfg cfg -> forall k thr bc timeout h now d, i_clock_ok h ->
  let s := i_drun cfg thr (i_dinit cfg k bc timeout) h in
  d_status s = Running ->
  let c' := handle_op istate ImplEngine.U packet ie_tag (ie_user cfg) (ie_disc cfg) (ie_reset cfg) (d_c s) now (OpStop d) in
  c_stop c' = SDisc -> c_cur c' = CConnected /\ s_st (c_eng c') = Connected.
Check C12_composed_restartable : forall cfg k thr bc timeout h now,
  let s := i_drun cfg thr (i_dinit cfg k bc timeout) h in
  d_status s = Running -> cur s = CStopped -> c_des (d_c s) = CConnected ->
  let s' := check istate (ie_opened cfg) (ie_closed cfg) thr s now in
  cur s' = CConnecting /\ d_log s' = d_log s ++ [EvAttempt] /\ d_status s' <> Dead.
Check C12_composed_close_terminal : forall cfg, ok_cfg cfg -> forall k thr bc timeout h now k', i_clock_ok h ->
  let s := i_drun cfg thr (i_dinit cfg k bc timeout) h in
  d_status s = Running -> c_des (d_c s) = CShutdown -> (cur s <> CConnected \/ c_stop (d_c s) <> SDisc) ->
  let s' := check istate (ie_opened cfg) (ie_closed cfg) thr s now in
  d_status s' = Exited /\
  existsb is_attempt_ev (skipn (length (d_log s)) (d_log s')) = false /\
  i_drun cfg thr s' k' = s'.
Check C12_composed_engine_wf : forall cfg, ok_cfg cfg -> forall k thr bc timeout h, i_clock_ok h ->
  d_status (i_drun cfg thr (i_dinit cfg k bc timeout) h) = Running ->
  IWF cfg (c_eng (d_c (i_drun cfg thr (i_dinit cfg k bc timeout) h))).
Check C12_composed_run :
  ok_cfg w_cfg /\ i_clock_ok w_composed_history /\
  forall thr,
  w_connack_wire = [32; 3; 0; 0; 0] /\
  (let s := i_drun w_cfg thr w_init (firstn 11 w_composed_history) in
   d_log s = [EvAttempt; EvSuccess] /\ cur s = CConnected /\ c_stop (d_c s) = SDisc /\ s_st (c_eng (d_c s)) = Connected) /\
  (let s := i_drun w_cfg thr w_init w_composed_history in
   d_log s = [EvAttempt; EvSuccess; EvDisconnection EUserInitiatedDisconnect false; EvStopped] /\
   cur s = CStopped /\ d_status s = Running /\ s_st (c_eng (d_c s)) = Disconnected /\
   map fst (map fst (d_conns s)) = [[16; 15; 0; 4; 77; 81; 84; 84; 5; 2; 0; 0; 0; 0; 2; 97; 97; 224; 0]]).
Print Assumptions C12_engine_model_facts.
Print Assumptions C12_engine_model_init_wf.
Print Assumptions C12_composed_event_grammar.
Print Assumptions C12_composed_loop_alive.
Print Assumptions C12_composed_stop_stops.
Print Assumptions C12_composed_stop_stops_two_events.
Print Assumptions C12_composed_stop_waits_only_when_established.
Print Assumptions C12_composed_restartable.
Print Assumptions C12_composed_close_terminal.
Print Assumptions C12_composed_engine_wf.
Print Assumptions C12_composed_run.
