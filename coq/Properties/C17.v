(* C17 - topic aliases, engine level: statements only, proofs in EngineProofs/Handlers.v; the resolver-level theorems are in Properties/C17r.v *)
From GM Require Export Properties.C17r.
From GM Require Import Base.Prelude Base.Outcome Codec.Packets Codec.Settings Engine.Model EngineProofs.Frames EngineProofs.Handlers.
From RecordUpdate Require Import RecordSet.
Open Scope N_scope.

Theorem C17_connack_resets_aliases : forall (enc dec ores : Type) (ores_reset : ores -> N -> ores) (ires : Type) (ires_reset : ires -> ires) (v_in : option settings -> packet -> outcome unit) (cfg : config) (s : state enc dec ores ires) (now : N) (c : connack), s_st s = PendingConnack -> ca_rc c = 0 -> h_out (handle_connack enc dec ores ores_reset ires ires_reset v_in cfg s now c) = Ok tt -> let s' := h_s (handle_connack enc dec ores ores_reset ires ires_reset v_in cfg s now c) in s_ores s' = ores_reset (s_ores s) match ca_tam c with | Some m => m | None => 0 end /\ s_ires s' = ires_reset (s_ires s) /\ s_settings s' = Some (build_settings enc dec ores ires cfg s c) /\ h_ev (handle_connack enc dec ores ores_reset ires ires_reset v_in cfg s now c) = [Connack c].
Proof. exact connack_resets_aliases. Qed.

