(* C03 — inbound decoding is faithful, chunking-invariant and robust to hostile bytes.
   Only statements; proofs live in CodecProofs/{FramingP,DecPrim,DecNoPanic,DecReasonCodes,DecFaithful*,DecNoNul}.v.
   Vocabulary (Codec/Framing.v): [decode_bytes v max d data] = Decoder::decode_bytes (new state, packets
   of this call, verdict); [feed2 .. d a b] = feed a, then b unless a failed; [feed .. d chunks] the same
   for a list of reads; [result_equiv] = same packets, same verdict, same decoder state (after an error:
   both terminal); [wf] = decoder states reachable through the API. *)
From GM Require Import Base.Prelude Base.Outcome Codec.Packets Codec.Prim Codec.ReasonCodes
  Codec.ImplDecode Codec.Framing Codec.SpecEncodeS2C Codec.StringsNoNul.
From GM Require Import CodecProofs.FramingP CodecProofs.DecNoPanic CodecProofs.DecReasonCodes CodecProofs.DecFaithfulAck
  CodecProofs.DecFaithfulDisc CodecProofs.DecFaithfulConn CodecProofs.DecFaithfulAll CodecProofs.DecNoNul.
Open Scope N_scope.

(* ---- chunking invariance: for ANY body decoder, hence for the implementation's ---- *)
Theorem C03_chunking_any_body : forall body max_size d a b,
  result_equiv (feed2 body max_size d a b) (decode_bytes_with body max_size d (a ++ b)).
Proof. exact chunking. Qed.

Theorem C03_chunking : forall v max_size d a b,
  result_equiv (feed2 (impl_decode_packet v) max_size d a b) (decode_bytes v max_size d (a ++ b)).
Proof. intros v. exact (chunking (impl_decode_packet v)). Qed.

(* every partition of a stream into reads gives what the single read of the whole stream gives *)
Theorem C03_chunking_partition : forall v max_size chunks d, chunks <> [] ->
  result_equiv (feed (impl_decode_packet v) max_size d chunks) (decode_bytes v max_size d (concat chunks)).
Proof. intros v. exact (chunking_partition (impl_decode_packet v)). Qed.

Theorem C03_chunking_two_partitions : forall v max_size d c1 c2,
  c1 <> [] -> c2 <> [] -> concat c1 = concat c2 ->
  result_equiv (feed (impl_decode_packet v) max_size d c1) (feed (impl_decode_packet v) max_size d c2).
Proof. intros v. exact (chunking_two_partitions (impl_decode_packet v)). Qed.

(* the function the correspondence driver runs is [feed] *)
Theorem C03_driver_function : forall v max_size chunks d i, chunks <> [] ->
  let '(d', ps, r, j) := decode_chunks v max_size d chunks i in
  feed (impl_decode_packet v) max_size d chunks = (d', ps, r).
Proof. exact decode_chunks_feed. Qed.

(* ---- no panic: no slice bound, unwrap, subtraction or loop-fuel site is reachable ---- *)
Theorem C03_packet_decoders_total : forall v first_byte body, is_panic (impl_decode_packet v first_byte body) = false.
Proof. exact impl_decode_packet_total. Qed.

Theorem C03_no_panic : forall v max_size d data, wf d ->
  let '(d', ps, r) := decode_bytes v max_size d data in is_panic r = false /\ wf d'.
Proof. exact decode_bytes_no_panic. Qed.

Theorem C03_no_panic_stream : forall v max_size chunks,
  let '(d', ps, r, j) := decode_chunks v max_size decoder_init chunks 0 in is_panic r = false.
Proof.
  intros v max_size chunks.
  pose proof (decode_chunks_no_panic v max_size chunks decoder_init 0 (wf_init)) as H.
  destruct (decode_chunks v max_size decoder_init chunks 0) as [[[d' ps] r] j]. exact (proj1 H).
Qed.

(* ---- size gate ----
   [cont ++ [last]] is the length field (continuation bytes, then the completing byte) announcing
   [rl]; the total 1 + |length field| + rl exceeds the effective maximum.  (1) no prefix that stops
   inside the length field reports anything; (2) the call consuming [last] fails whatever follows, and
   the scratch buffer then holds exactly the length field: no body byte is ever buffered. *)
Theorem C03_size_gate : forall v max_size d first_byte cont last rl,
  d_state d = ReadPacketType -> d_scratch d = [] ->
  Forall (fun x => 128 <= x) cont -> (length cont <= 3)%nat ->
  decode_vli (cont ++ [last]) = VliValue rl [] ->
  effective_max max_size < rl + 1 + len (cont ++ [last]) ->
  (forall k, exists d', decode_bytes v max_size d (first_byte :: firstn k cont) = (d', [], Ok tt)
                        /\ d_scratch d' = firstn k cont) /\
  (forall rest, exists d',
      decode_bytes v max_size d (first_byte :: cont ++ last :: rest) = (d', [], Err EDecodingFailure)
      /\ d_state d' = TerminalError /\ d_scratch d' = cont ++ [last]).
Proof. intros v. exact (size_gate (impl_decode_packet v)). Qed.

(* ---- reason-code tables: implementation = specification on all 256 byte values ---- *)
Theorem C03_reason_codes_connack : forall b, b < 256 -> impl_connack_code_ok b = spec_connack_code_ok b.
Proof. exact reason_codes_connack. Qed.
Theorem C03_reason_codes_puback : forall b, b < 256 -> impl_puback_code_ok b = spec_puback_code_ok b.
Proof. exact reason_codes_puback. Qed.
Theorem C03_reason_codes_pubrec : forall b, b < 256 -> impl_pubrec_code_ok b = spec_pubrec_code_ok b.
Proof. exact reason_codes_pubrec. Qed.
Theorem C03_reason_codes_pubrel : forall b, b < 256 -> impl_pubrel_code_ok b = spec_pubrel_code_ok b.
Proof. exact reason_codes_pubrel. Qed.
Theorem C03_reason_codes_pubcomp : forall b, b < 256 -> impl_pubcomp_code_ok b = spec_pubcomp_code_ok b.
Proof. exact reason_codes_pubcomp. Qed.
Theorem C03_reason_codes_suback : forall b, b < 256 -> impl_suback_code_ok b = spec_suback_code_ok b.
Proof. exact reason_codes_suback. Qed.
Theorem C03_reason_codes_disconnect : forall b, b < 256 -> impl_disconnect_code_ok b = spec_disconnect_code_ok b.
Proof. exact reason_codes_disconnect. Qed.
Theorem C03_reason_codes_auth : forall b, b < 256 -> impl_auth_code_ok b = spec_auth_code_ok b.
Proof. exact reason_codes_auth. Qed.
Theorem C03_reason_codes_connack311 : forall b, b < 256 -> impl_connack311_code_ok b = spec_connack311_code_ok b.
Proof. exact reason_codes_connack311. Qed.
Theorem C03_reason_codes_suback311 : forall b, b < 256 -> impl_suback311_code_ok b = spec_suback311_code_ok b.
Proof. exact reason_codes_suback311. Qed.
Theorem C03_reason_codes_qos : forall b, b < 256 -> impl_qos_ok b = spec_qos_ok b.
Proof. exact reason_codes_qos. Qed.
Theorem C03_reason_codes_pfi : forall b, b < 256 -> impl_pfi_ok b = spec_pfi_ok b.
Proof. exact reason_codes_pfi. Qed.

(* UNSUBACK: agreement everywhere except at 144 (0x90 Topic Name invalid), which the implementation
   accepts although the specification does not list it for UNSUBACK (mqtt/mod.rs UnsubackReasonCode::
   try_from; kept for API compatibility by fix 4bdb294, which added the previously missing 0x8F = 143).
   The implementation being MORE lenient on one value is not a violation of C03: the property demands
   that every specification-legal packet decodes faithfully (C03_reason_codes_unsuback_spec_accepted,
   C03_faithful_packet) and that any other input yields a packet or an error without panicking. *)
Theorem C03_reason_codes_unsuback : forall b, b < 256 -> b <> 144 -> impl_unsuback_code_ok b = spec_unsuback_code_ok b.
Proof. exact reason_codes_unsuback. Qed.
Theorem C03_reason_codes_unsuback_only_144 : forall b, b < 256 ->
  impl_unsuback_code_ok b <> spec_unsuback_code_ok b -> b = 144.
Proof. exact reason_codes_unsuback_only_144. Qed.
Theorem C03_reason_codes_unsuback_144_lenient : spec_unsuback_code_ok 144 = false /\ impl_unsuback_code_ok 144 = true.
Proof. exact reason_codes_unsuback_144. Qed.
Theorem C03_reason_codes_unsuback_spec_accepted : forall b, b < 256 ->
  spec_unsuback_code_ok b = true -> impl_unsuback_code_ok b = true.
Proof. exact reason_codes_unsuback_spec_accepted. Qed.

(* ---- faithfulness ----
   Every packet a server may send (CONNACK, PUBLISH, PUBACK, PUBREC, PUBREL, PUBCOMP, SUBACK, UNSUBACK,
   PINGRESP, DISCONNECT, AUTH; MQTT 5 and 3.1.1), encoded by the independent specification encoder with
   its properties in ANY legal order [its] ([same_per_id]: per identifier the same items in the same
   relative order) and in any of the compact forms the specification allows, is decoded by the
   implementation's decode_packet to exactly that packet. *)
Theorem C03_faithful_packet : forall v p its compact first_byte body,
  legal_packet v p = true ->
  same_per_id (items_of p) its ->
  spec_body v p its compact = Some (first_byte, body) ->
  impl_decode_packet v first_byte body = Ok p.
Proof. exact faithful_packet. Qed.

(* per-kind instances, as named in the design *)
Theorem C03_faithful_connack_v5 : forall c its compact fb body,
  legal_connack V5 c = true -> same_per_id (items_connack c) its ->
  spec_body V5 (Connack c) its compact = Some (fb, body) -> decode_connack_packet5 fb body = Ok (Connack c).
Proof. exact decode_connack5_faithful. Qed.
Theorem C03_faithful_publish_v5 : forall q its compact fb body,
  legal_publish V5 q = true -> same_per_id (items_publish q) its ->
  spec_body V5 (Publish q) its compact = Some (fb, body) -> decode_publish_packet5 fb body = Ok (Publish q) /\ fb / 16 = 3.
Proof. exact decode_publish5_faithful. Qed.
Theorem C03_faithful_disconnect_v5 : forall d its compact fb body,
  legal_disconnect V5 d = true -> same_per_id (items_disconnect d) its ->
  spec_body V5 (Disconnect d) its compact = Some (fb, body) -> decode_disconnect_packet5 fb body = Ok (Disconnect d).
Proof. exact decode_disconnect5_faithful. Qed.
Theorem C03_faithful_suback_v5 : forall s its compact fb body,
  legal_suback V5 s = true -> same_per_id (items_suback s) its ->
  spec_body V5 (Suback s) its compact = Some (fb, body) -> decode_suback_packet5 fb body = Ok (Suback s).
Proof. exact decode_suback5_faithful. Qed.

(* UNSUBACK, including reason code 0x8F (143) Topic Filter invalid — the former defect D1, fixed in
   /repo by 4bdb294; corpus/C03/d1_unsuback_143.txt is its regression case *)
Theorem C03_faithful_unsuback_v5 : forall s its compact fb body,
  legal_unsuback V5 s = true -> same_per_id (items_unsuback s) its ->
  spec_body V5 (Unsuback s) its compact = Some (fb, body) -> decode_unsuback_packet5 fb body = Ok (Unsuback s).
Proof. exact decode_unsuback5_faithful. Qed.

(* the executable encoder (order given as positions, checked to be a legal rearrangement) through the
   framing decoder: the packet is delivered, the decoder is back in its initial state for what follows *)
Theorem C03_faithful_stream : forall v p order compact bs rest max_size,
  spec_encode_with v p order compact = Some bs ->
  len bs <= effective_max max_size ->
  decode_bytes v max_size decoder_init (bs ++ rest) =
  (let '(d2, ps, r) := decode_bytes v max_size decoder_init rest in (d2, p :: ps, r)).
Proof. exact faithful_stream. Qed.

(* ---- MQTT-1.5.4-2: U+0000 in a UTF-8 string is malformed (the former defect D27, fixed in /repo by
   a42e3b8; corpus/C03/d27_nul_in_string.txt and corpus/engine/d27_assigned_client_id_nul.script are its
   regression cases).  No string field (Codec/StringsNoNul.v: topic, response topic, content type, reason
   string, assigned client identifier, response information, server reference, authentication method, user
   property names and values) of ANY packet the decoder returns — for any first byte and any body bytes,
   and through the framing decoder for any byte stream in any chunking — contains a zero byte. *)
Theorem C03_strings_no_nul : forall v first_byte body p,
  impl_decode_packet v first_byte body = Ok p -> packet_strings_no_nul p = true.
Proof. exact strings_no_nul. Qed.
Theorem C03_strings_no_nul_stream : forall v max_size chunks d i,
  let '(d', ps, r, j) := decode_chunks v max_size d chunks i in
  Forall (fun p => packet_strings_no_nul p = true) ps.
Proof. exact strings_no_nul_stream. Qed.
(* the three helpers every string of a packet goes through *)
Theorem C03_strings_no_nul_helpers :
  (forall b s rest, decode_length_prefixed_string b = Ok (s, rest) -> no_null s = true) /\
  (forall b s rest, decode_optional_length_prefixed_string b None = Ok (Some s, rest) -> no_null s = true) /\
  (forall b props name value l rest,
     decode_user_property b props = Ok (Some (l ++ [{| up_name := name; up_value := value |}]), rest) ->
     no_null name = true /\ no_null value = true).
Proof. exact strings_no_nul_helpers. Qed.

(* ---- non-vacuity ---- *)
(* a PUBACK (short form) and a PINGRESP, then the first byte of another packet, fed in three reads
   that split the first fixed header: both packets come out, the decoder waits for more *)
Example C03_example_chunks :
  decode_chunks V5 0 decoder_init [[64]; [2; 0]; [9; 208; 0; 208]] 0 =
  ({| d_state := ReadTotalRemainingLength; d_scratch := []; d_first_byte := Some 208; d_remaining_length := None |},
   [Puback (default_ack 9); Pingresp], Ok tt, 3).
Proof. vm_compute. reflexivity. Qed.

(* the size gate's premises are satisfiable: maximum 5, announced 1 + 2 + 200 *)
Example C03_example_gate :
  decode_bytes V5 5 decoder_init [48; 200; 1; 0; 0] =
  ({| d_state := TerminalError; d_scratch := [200; 1]; d_first_byte := Some 48; d_remaining_length := None |},
   [], Err EDecodingFailure).
Proof. vm_compute. reflexivity. Qed.

(* a DISCONNECT with four properties, encoded in the order user property, server reference, reason
   string, session expiry: a legal rearrangement, decoded to the packet *)
Example C03_example_faithful :
  let d := {| d_rc := 142; d_sei := Some 30; d_reason := Some [98; 121; 101];
              d_up := Some [{| up_name := [97]; up_value := [98] |}]; d_server_ref := Some [111] |} in
  exists bs, spec_encode_with V5 (Disconnect d) [2; 3; 1; 0] 0 = Some bs /\
             decode_bytes V5 0 decoder_init bs = (decoder_init, [Disconnect d], Ok tt).
Proof. eexists. split; [vm_compute; reflexivity | vm_compute; reflexivity]. Qed.

(* regression of D1: an UNSUBACK carrying 0x8F, byte by byte through the framing decoder *)
Example C03_example_unsuback_143 :
  decode_chunks V5 0 decoder_init [[176]; [4]; [0]; [1]; [0]; [143]] 0 =
  (decoder_init, [Unsuback {| ua_pid := 1; ua_reason := None; ua_up := None; ua_codes := [143] |}], Ok tt, 6).
Proof. vm_compute. reflexivity. Qed.

(* regression of D27: a CONNACK whose Assigned Client Identifier is "a", U+0000, "b" and a PUBLISH whose
   topic is "a", U+0000 are decoding failures; the same packets without the zero byte decode, and the
   premise of C03_strings_no_nul is met by a packet with a non-empty string *)
Example C03_example_nul_rejected :
  decode_bytes V5 0 decoder_init [32; 9; 0; 0; 6; 18; 0; 3; 97; 0; 98] =
    ({| d_state := TerminalError; d_scratch := []; d_first_byte := Some 32; d_remaining_length := Some 9 |},
     [], Err EDecodingFailure) /\
  impl_decode_packet V5 48 [0; 2; 97; 0; 0] = Err EDecodingFailure /\
  impl_decode_packet V311 48 [0; 2; 97; 0] = Err EDecodingFailure /\
  (exists c, impl_decode_packet V5 32 [0; 0; 6; 18; 0; 3; 97; 99; 98] = Ok (Connack c) /\ ca_assigned_id c = Some [97; 99; 98]).
Proof. vm_compute. repeat split. eexists. split; reflexivity. Qed.
