From GM Require Import Base.Prelude Base.Outcome Codec.Packets Codec.Settings Alias.Outbound Engine.Model Engine.Instance.
From GM Require Import EngineProofs.SvcTime EngineProofs.IdsWitness.
From GM Require Import Properties.C08.
Open Scope N_scope.
Check C08_nst_queue_mirrors_dequeue : forall (enc dec ores ires : Type) (cfg : config) (s : state enc dec ores ires) (mode_all : bool) (now : N), nst_queue enc dec ores ires cfg s mode_all now = (if serviceable enc dec ores ires cfg s mode_all then Some now else None).
Check C08_dequeue_iff : forall (enc dec ores ires : Type) (cfg : config) (s : state enc dec ores ires) (mode_all : bool) (now : N), s_pwc s = false -> nst_queue enc dec ores ires cfg s mode_all now = Some now <-> s_cur s <> None \/ snd (dequeue enc dec ores ires cfg s mode_all) <> None.
Check C08_pending_write_blocks : forall (enc dec ores ires : Type) (cfg : config) (s : state enc dec ores ires) (mode_all : bool) (now : N), s_pwc s = true -> nst_queue enc dec ores ires cfg s mode_all now = None /\ dequeue enc dec ores ires cfg s mode_all = (s, None).
Check C08_reported_time_is_min : forall (enc dec ores ires : Type) (cfg : config) (s : state enc dec ores ires) (now : N), (s_st s = PendingConnack -> s_connack_to s <> None) -> exists r : option N, next_service_time enc dec ores ires cfg s now = Ok r /\ is_min r (candidates enc dec ores ires cfg s now).
Check C08_no_lost_wakeup : forall (enc dec ores ires : Type) (cfg : config) (s : state enc dec ores ires) (now : N), s_st s = PendingConnack \/ s_st s = Connected -> (s_st s = PendingConnack -> s_connack_to s <> None) -> s_pwc s = false -> s_cur s <> None \/ s_hq s <> [] -> exists t : N, next_service_time enc dec ores ires cfg s now = Ok (Some t) /\ t <= now.
Check C08_timers_honoured : forall (enc dec ores ires : Type) (cfg : config) (s : state enc dec ores ires) (now : N) (r : option N), next_service_time enc dec ores ires cfg s now = Ok r -> (s_st s = Connected -> forall d : N, s_ping_to s = Some d -> opt_le r d) /\ (s_st s = Connected \/ s_st s = PendingDisconnect -> forall id d : N, In (id, d) (s_tmo s) -> opt_le r d) /\ (s_st s = Connected -> s_pwc s = false -> forall d : N, s_next_ping s = Some d -> opt_le r d) /\ (s_st s = PendingConnack -> forall d : N, s_connack_to s = Some d -> opt_le r d).
Print Assumptions C08_nst_queue_mirrors_dequeue.
Print Assumptions C08_dequeue_iff.
Print Assumptions C08_pending_write_blocks.
Print Assumptions C08_reported_time_is_min.
Print Assumptions C08_no_lost_wakeup.
Print Assumptions C08_timers_honoured.
