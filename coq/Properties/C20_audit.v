From GM Require Import Base.Prelude Codec.Packets Aws.UrlEncode Aws.Builder Properties.C20.
Open Scope N_scope.
Check C20_decode_encode : forall s, bytes_ok s = true -> pct_decode (enc s) = s.
Check C20_signature_once : forall s, base64 s = true ->
  final_sig s = enc s /\ final_sig (enc s) = enc s /\
  pct_decode (final_sig s) = s /\ pct_decode (final_sig (enc s)) = s.
Check C20_signature_never_twice : forall s, final_sig (enc s) = enc s.
Check C20_signature_decodes : forall e, bytes_ok e = true -> pct_decode (final_sig e) = pct_decode e.
Check C20_signature_wf : forall e, bytes_ok e = true -> contains PCT e = false \/ query_wf e = true ->
  query_wf (final_sig e) = true.
Check C20_query_wellformed : forall a s, auth_safe a = true -> sig_is a s ->
  build_username a = opt_bytes (a_user a) ++ [QM] ++ query_of a /\
  query_wf (query_of a) = true /\
  split_query (query_of a) = raw_pairs a (enc s) /\
  parse_query (query_of a) = raw_pairs a s /\
  monitor_username a s (build_username a) = true.
Check C20_query_wellformed_encoded : forall a s, auth_encoded a = true -> sig_is a s ->
  query_wf (query_of a) = true /\
  split_query (query_of a) = raw_pairs a (enc s) /\
  parse_query (query_of a) = expected_pairs a s /\
  monitor_username a s (build_username a) = true.
Check C20_username_split : forall a, contains QM (opt_bytes (a_user a)) = false ->
  split_first QM (build_username a) = (opt_bytes (a_user a), Some (query_of a)).
Check C20_query_wellformed_refuted :
  exists a s, sig_is a s /\ base64 s = true /\
    (exists n sg k v, a_name a = Some n /\ a_signed a = Some (sg, k, v) /\ query_safe n = true /\ query_safe k = true) /\
    parse_query (query_of a) <> expected_pairs a s /\
    length (parse_query (query_of a)) = 4%nat /\
    monitor_username a s (build_username a) = false.
Check C20_client_id : forall uuid auth o, uuid <> [] ->
  exists c, co_client_id (final_connect_options uuid auth o) = Some c /\ c <> [] /\
    (forall u, co_client_id o = Some u -> u <> [] -> c = u) /\
    (co_client_id o = None \/ co_client_id o = Some [] -> c = uuid) /\
    monitor_client_id (co_client_id o) (Some c) = true.
Check C20_options_preserved : forall uuid auth o,
  let r := final_connect_options uuid auth o in
  co_keep_alive r = co_keep_alive o /\ co_rejoin r = co_rejoin o /\ co_sei r = co_sei o /\ co_rri r = co_rri o /\
  co_rpi r = co_rpi o /\ co_receive_max r = co_receive_max o /\ co_tam r = co_tam o /\
  co_max_packet r = co_max_packet o /\ co_will_delay r = co_will_delay o /\ co_will r = co_will o /\
  co_up r = co_up o /\
  co_username r = match auth with Some (u, _) => Some u | None => co_username o end /\
  co_password r = match auth with Some (_, Some p) => Some p | _ => co_password o end.
Check C20_client_options_preserved : forall o,
  let r := apply_aws_defaults o in
  cl_offline r = cl_offline o /\ cl_connect_timeout r = cl_connect_timeout o /\ cl_ping_timeout r = cl_ping_timeout o /\
  cl_resolver r = cl_resolver o /\ cl_jitter r = cl_jitter o /\ cl_base r = cl_base o /\ cl_max r = cl_max o /\
  cl_stability r = cl_stability o /\ cl_protocol r = cl_protocol o /\
  (cl_drain o <> None -> cl_drain r = cl_drain o) /\ (cl_retries o <> None -> cl_retries r = cl_retries o).
Check C20_defaults_iff : forall o,
  let r := apply_aws_defaults o in
  ((cl_protocol o = V311 /\ cl_drain o = None /\ cl_retries o = None) ->
     cl_drain r = Some OneAtATime /\ cl_retries r = Some 2) /\
  (~ (cl_protocol o = V311 /\ cl_drain o = None /\ cl_retries o = None) -> r = o).
Check C20_build_client_id : forall uuid auth uc ucl, uuid <> [] ->
  exists c, co_client_id (fst (aws_build uuid auth uc ucl)) = Some c /\ c <> [].
Check C20_build_custom_auth : forall uuid a uc ucl,
  let o := match uc with Some o => o | None => default_connect_options end in
  let r := fst (aws_build uuid (Some a) uc ucl) in
  co_username r = Some (build_username a) /\
  co_password r = match a_pass a with Some p => Some p | None => co_password o end.
Print Assumptions C20_decode_encode.
Print Assumptions C20_signature_once.
Print Assumptions C20_signature_never_twice.
Print Assumptions C20_signature_decodes.
Print Assumptions C20_signature_wf.
Print Assumptions C20_query_wellformed.
Print Assumptions C20_query_wellformed_encoded.
Print Assumptions C20_username_split.
Print Assumptions C20_query_wellformed_refuted.
Print Assumptions C20_client_id.
Print Assumptions C20_options_preserved.
Print Assumptions C20_client_options_preserved.
Print Assumptions C20_defaults_iff.
Print Assumptions C20_build_client_id.
Print Assumptions C20_build_custom_auth.
