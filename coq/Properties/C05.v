(* C05 - inbound publishes: statements only, proofs in EngineProofs/Handlers.v and Frames.v *)
From GM Require Import Base.Prelude Base.Outcome Codec.Packets Codec.Settings Engine.Model EngineProofs.Frames EngineProofs.Handlers.
From RecordUpdate Require Import RecordSet.
Open Scope N_scope.

Theorem C05_before_connack_rejected : forall (enc dec ores ires : Type) (s : state enc dec ores ires) (pb : publish) (a : ack), pre_connack enc dec ores ires s = true -> h_out (handle_publish enc dec ores ires s pb) = Err EProtocolError /\ h_ev (handle_publish enc dec ores ires s pb) = [] /\ h_out (handle_pubrel enc dec ores ires s a) = Err EProtocolError.
Proof. exact inbound_before_connack_rejected. Qed.

Theorem C05_qos0 : forall (enc dec ores ires : Type) (s : state enc dec ores ires) (pb : publish), pre_connack enc dec ores ires s = false -> pub_qos pb = 0 -> handle_publish enc dec ores ires s pb = {| h_s := s; h_done := []; h_ev := [Publish pb]; h_out := Ok tt |}.
Proof. exact inbound_qos0. Qed.

Theorem C05_qos1_puback : forall (enc dec ores ires : Type) (s : state enc dec ores ires) (pb : publish), pre_connack enc dec ores ires s = false -> pub_qos pb = 1 -> let h := handle_publish enc dec ores ires s pb in h_out h = Ok tt /\ h_ev h = [Publish pb] /\ h_done h = [] /\ s_hq (h_s h) = s_hq s ++ [s_next_id s] /\ s_ops (h_s h) = s_ops s ++ [(s_next_id s, new_op (Puback (default_ack (pub_pid pb))) false None)] /\ s_q2in (h_s h) = s_q2in s.
Proof. exact inbound_qos1. Qed.

Theorem C05_qos2_first : forall (enc dec ores ires : Type) (s : state enc dec ores ires) (pb : publish), pre_connack enc dec ores ires s = false -> pub_qos pb = 2 -> mem (pub_pid pb) (s_q2in s) = false -> let h := handle_publish enc dec ores ires s pb in h_out h = Ok tt /\ h_ev h = [Publish pb] /\ s_hq (h_s h) = s_hq s ++ [s_next_id s] /\ s_ops (h_s h) = s_ops s ++ [(s_next_id s, new_op (Pubrec (default_ack (pub_pid pb))) false None)] /\ s_q2in (h_s h) = set_insert (pub_pid pb) (s_q2in s).
Proof. exact inbound_qos2_first. Qed.

Theorem C05_qos2_duplicate_not_redelivered : forall (enc dec ores ires : Type) (s : state enc dec ores ires) (pb : publish), pre_connack enc dec ores ires s = false -> pub_qos pb = 2 -> mem (pub_pid pb) (s_q2in s) = true -> let h := handle_publish enc dec ores ires s pb in h_out h = Ok tt /\ h_ev h = [] /\ s_hq (h_s h) = s_hq s ++ [s_next_id s] /\ s_ops (h_s h) = s_ops s ++ [(s_next_id s, new_op (Pubrec (default_ack (pub_pid pb))) false None)] /\ s_q2in (h_s h) = s_q2in s.
Proof. exact inbound_qos2_duplicate. Qed.

Theorem C05_pubrel_pubcomp : forall (enc dec ores ires : Type) (s : state enc dec ores ires) (a : ack), pre_connack enc dec ores ires s = false -> let h := handle_pubrel enc dec ores ires s a in h_out h = Ok tt /\ h_ev h = [] /\ h_done h = [] /\ s_hq (h_s h) = s_hq s ++ [s_next_id s] /\ s_ops (h_s h) = s_ops s ++ [(s_next_id s, new_op (Pubcomp (default_ack (ack_pid a))) false None)] /\ s_q2in (h_s h) = set_remove (ack_pid a) (s_q2in s).
Proof. exact inbound_pubrel. Qed.

Theorem C05_session_decides_memory : forall (enc dec ores ires : Type) (cfg : config) (s : state enc dec ores ires) (sp : bool), is_panic (r_out (apply_session enc dec ores ires cfg s sp)) = false -> s_q2in (r_s (apply_session enc dec ores ires cfg s sp)) = (if sp then s_q2in s else []) /\ s_ores (r_s (apply_session enc dec ores ires cfg s sp)) = s_ores s /\ s_ires (r_s (apply_session enc dec ores ires cfg s sp)) = s_ires s /\ s_settings (r_s (apply_session enc dec ores ires cfg s sp)) = s_settings s.
Proof. exact session_inbound_qos2. Qed.

Theorem C05_close_keeps_inbound_qos2 : forall (enc dec ores ires : Type) (cfg : config) (s : state enc dec ores ires), s_q2in (r_s (net_closed enc dec ores ires cfg s)) = s_q2in s.
Proof. exact close_keeps_inbound_qos2. Qed.

