From GM Require Import Base.Prelude Base.Outcome Codec.Packets Alias.Outbound Alias.Inbound.
From GM Require Import AliasProofs.OutboundP AliasProofs.InboundP Properties.C17r.
Open Scope N_scope.
Check C17_null_inv : forall ops, run_check (ores_init RNull) [] 0 ops = true.
Check C17_manual_inv : forall ops, run_check (ores_init RManual) [] 0 ops = true.
Check C17_lru_inv : forall conf ops, conf <= 65535 -> run_check (ores_init (RLru conf)) [] 0 ops = true.
Check C17_no_panic : forall ops s tbl mx, run_check s tbl mx ops = true -> is_ok (run_states s ops) = true.
Check C17_max_zero_no_alias : forall tbl t r, res_ok tbl 0 t r = true -> r_alias r = None.
Check C17_inbound : forall max ops alias topic,
  let s := irun (ires_init max) ops in
  match alias with
  | None => ires_resolve s alias topic = Ok (s, topic)
  | Some a =>
      match topic with
      | [] => match latest max ops a with
              | Some t => ires_resolve s alias topic = Ok (s, t)
              | None => ires_resolve s alias topic = Err EInvalidInboundTopicAlias
              end
      | _ => if (1 <=? a) && (a <=? max)
             then exists s', ires_resolve s alias topic = Ok (s', topic)
             else ires_resolve s alias topic = Err EInvalidInboundTopicAlias
      end
  end.
Check C17_inbound_bindings : forall max ops a t, latest max ops a = Some t -> t <> [] /\ 1 <= a <= max.
Check C17_inbound_reset_forgets : forall max ops a, latest max (ops ++ [IReset]) a = None.
Check C17_inbound_never_empty : forall max ops a topic s' t,
  ires_resolve (irun (ires_init max) ops) (Some a) topic = Ok (s', t) -> t <> [].
Print Assumptions C17_null_inv.
Print Assumptions C17_manual_inv.
Print Assumptions C17_lru_inv.
Print Assumptions C17_no_panic.
Print Assumptions C17_max_zero_no_alias.
Print Assumptions C17_inbound.
Print Assumptions C17_inbound_bindings.
Print Assumptions C17_inbound_reset_forgets.
Print Assumptions C17_inbound_never_empty.

From GM Require Import Base.Prelude Base.Outcome Codec.Packets Codec.Settings Engine.Model EngineProofs.Frames EngineProofs.Handlers Properties.C17.
From RecordUpdate Require Import RecordSet.
Open Scope N_scope.
Check C17_connack_resets_aliases : forall (enc dec ores : Type) (ores_reset : ores -> N -> ores) (ires : Type) (ires_reset : ires -> ires) (v_in : option settings -> packet -> outcome unit) (cfg : config) (s : state enc dec ores ires) (now : N) (c : connack), s_st s = PendingConnack -> ca_rc c = 0 -> h_out (handle_connack enc dec ores ores_reset ires ires_reset v_in cfg s now c) = Ok tt -> let s' := h_s (handle_connack enc dec ores ores_reset ires ires_reset v_in cfg s now c) in s_ores s' = ores_reset (s_ores s) match ca_tam c with | Some m => m | None => 0 end /\ s_ires s' = ires_reset (s_ires s) /\ s_settings s' = Some (build_settings enc dec ores ires cfg s c) /\ h_ev (handle_connack enc dec ores ores_reset ires ires_reset v_in cfg s now c) = [Connack c].
Print Assumptions C17_connack_resets_aliases.
