From GM Require Import Base.Prelude Base.Outcome Codec.Packets Alias.Outbound Alias.Inbound.
From GM Require Import AliasProofs.OutboundP AliasProofs.InboundP Properties.C17r.
Open Scope N_scope.
Check C17_null_inv : forall ops, run_check (ores_init RNull) [] 0 ops = true.
Check C17_manual_inv : forall ops, run_check (ores_init RManual) [] 0 ops = true.
Check C17_lru_inv : forall conf ops, conf <= 65535 -> run_check (ores_init (RLru conf)) [] 0 ops = true.
Check C17_no_panic : forall ops s tbl mx, run_check s tbl mx ops = true -> is_ok (run_states s ops) = true.
Check C17_max_zero_no_alias : forall tbl t r, res_ok tbl 0 t r = true -> r_alias r = None.
Check C17_inbound : forall max ops alias topic,
  let s := irun (ires_init max) ops in
  match alias with
  | None => ires_resolve s alias topic = Ok (s, topic)
  | Some a =>
      match topic with
      | [] => match latest max ops a with
              | Some t => ires_resolve s alias topic = Ok (s, t)
              | None => ires_resolve s alias topic = Err EInvalidInboundTopicAlias
              end
      | _ => if (1 <=? a) && (a <=? max)
             then exists s', ires_resolve s alias topic = Ok (s', topic)
             else ires_resolve s alias topic = Err EInvalidInboundTopicAlias
      end
  end.
Check C17_inbound_bindings : forall max ops a t, latest max ops a = Some t -> t <> [] /\ 1 <= a <= max.
Check C17_inbound_reset_forgets : forall max ops a, latest max (ops ++ [IReset]) a = None.
Check C17_inbound_never_empty : forall max ops a topic s' t,
  ires_resolve (irun (ires_init max) ops) (Some a) topic = Ok (s', t) -> t <> [].
Print Assumptions C17_null_inv.
Print Assumptions C17_manual_inv.
Print Assumptions C17_lru_inv.
Print Assumptions C17_no_panic.
Print Assumptions C17_max_zero_no_alias.
Print Assumptions C17_inbound.
Print Assumptions C17_inbound_bindings.
Print Assumptions C17_inbound_reset_forgets.
Print Assumptions C17_inbound_never_empty.
