(* C15 — the offline-queue policy decides per operation kind what survives being offline.
   Table: the model's [passes_policy] against the documented meaning of the four policies, for all
   packets and all policy numbers.  Submission: single step.  Whole runs: the offline-policy error
   is only ever delivered to an operation whose submitted packet the policy rejects (all call
   sites: submission, current operation / unflushed / unacked / user queue at close, resubmit
   queue at a CONNACK without session).  Proofs: EngineProofs/Policy.v, Ids*.v. *)
From GM Require Import Base.Prelude Base.Outcome Codec.Packets Codec.Settings Alias.Outbound Engine.Model Engine.Instance.
From GM Require Import EngineProofs.AssocLemmas EngineProofs.Policy EngineProofs.IdsMain EngineProofs.IdsWitness.
From RecordUpdate Require Import RecordSet.
Import RecordSetNotations.
Open Scope N_scope.

(* policy numbers: 0 PreserveAll, 1 PreserveAcknowledged, 2 PreserveQos1PlusPublishes, 3 PreserveNothing;
   numbers above 3 (not produced by the configuration layer) behave like PreserveAll *)
Theorem C15_table : forall n p, passes_policy n p = true <-> keeps (policy_of n) p.
Proof. exact policy_table. Qed.

Theorem C15_other_kinds : forall n p,
  (forall pb, p <> Publish pb) -> (forall x, p <> Subscribe x) -> (forall x, p <> Unsubscribe x) -> passes_policy n p = false.
Proof. exact policy_other_kinds. Qed.

Section Engine.
  Variable enc : Type.
  Variable enc_reset : version -> packet -> resolution -> outcome enc.
  Variable enc_call : enc -> N -> N -> outcome (bytes * enc).
  Variable enc_done : enc -> bool.
  Variable dec : Type.
  Variable dec_init : dec.
  Variable dec_feed : version -> N -> dec -> bytes -> dec * list packet * outcome unit.
  Variable ores : Type.
  Variable ores_reset : ores -> N -> ores.
  Variable ores_resolve : ores -> option N -> bytes -> outcome (ores * resolution).
  Variable ires : Type.
  Variable ires_reset : ires -> ires.
  Variable ires_resolve : ires -> option N -> bytes -> outcome (ires * bytes).
  Variable v_out : option settings -> connect_opts -> resolution -> packet -> outcome unit.
  Variable v_in : option settings -> packet -> outcome unit.
  Variable cfg : config.
  Notation state := (Model.state enc dec ores ires).
  Notation init := (Model.init enc dec dec_init ores ires).
  Notation step := (Model.step enc enc_reset enc_call enc_done dec dec_init dec_feed ores ores_reset ores_resolve ires ires_reset ires_resolve v_out v_in cfg).
  Notation run := (Model.run enc enc_reset enc_call enc_done dec dec_init dec_feed ores ores_reset ores_resolve ires ires_reset ires_resolve v_out v_in cfg).
  Notation user_event := (Model.user_event enc dec ores ires cfg).
  Notation fresh_next := (Policy.fresh_next enc dec ores ires).

  (* not connected + rejected kind: failed with the offline-policy error in the same step, never
     queued; nothing but the id counter changes *)
  Theorem C15_submit_offline : forall (s : state) p t,
    fresh_next s -> s_st s <> Connected -> is_disconnect p = false ->
    passes_policy (cf_policy cfg) p = false ->
    let r := user_event s p t in
    r_done r = [(s_next_id s, CompErr EOfflineQueuePolicyFailed)] /\ r_out r = Ok tt /\
    r_s r = s <| s_next_id := s_next_id s + 1 |>.
  Proof. exact (submit_offline_rejected enc dec ores ires cfg). Qed.

  (* kept kinds (and everything while connected) are queued at the back of the user queue; no completion *)
  Theorem C15_submit_kept : forall (s : state) p t,
    is_disconnect p = false ->
    (s_st s = Connected \/ passes_policy (cf_policy cfg) p = true) ->
    let r := user_event s p t in
    r_done r = [] /\ r_out r = Ok tt /\
    r_s r = s <| s_next_id := s_next_id s + 1 |> <| s_ops := s_ops s ++ [(s_next_id s, new_op p true t)] |>
              <| s_uq := s_uq s ++ [s_next_id s] |>.
  Proof. exact (submit_kept enc dec ores ires cfg). Qed.

  (* whole runs: the offline-policy error reaches only operations whose submitted packet fails the
     policy.  Assumption about the abstract outbound validator: it never reports that error kind
     (the real one reports PacketValidationFailure / ProtocolError / EncodingFailure only). *)
  Theorem C15_never_failed_if_preserved : forall o i h n out id,
    (forall st co r p, v_out st co r p <> Err EOfflineQueuePolicyFailed) ->
    nth_error (snd (run (init o i) h)) n = Some out -> In (id, CompErr EOfflineQueuePolicyFailed) (o_done out) ->
    exists m now p t out', (m <= n)%nat /\ nth_error h m = Some (EvUser now p t) /\
      nth_error (snd (run (init o i) h)) m = Some out' /\ o_id out' = Some id /\
      passes_policy (cf_policy cfg) p = false.
  Proof. exact (never_failed_if_preserved enc enc_reset enc_call enc_done dec dec_init dec_feed ores ores_reset ores_resolve ires ires_reset ires_resolve v_out v_in cfg). Qed.
End Engine.

(* non-vacuity: PreserveQos1PlusPublishes; offline, a QoS0 publish and a subscribe are rejected at
   submission, a QoS1 publish is kept; after connecting, a subscribe is written and, still
   unacknowledged at the close, is failed by the policy there *)
Example C15_example :
  map o_done (x_outs (x_cfg 2) ([EvUser 0 (x_pub 0) None; EvUser 0 x_sub None; EvUser 0 (x_pub 1) None] ++
     x_connect_events x_connack_bytes ++ [EvUser 1 x_sub None; EvService 1 4096 0; EvWriteComplete 1; EvClose 2]))
  = [[(1, CompErr EOfflineQueuePolicyFailed)]; [(2, CompErr EOfflineQueuePolicyFailed)]; []; []; []; []; []; []; []; [];
     [(5, CompErr EOfflineQueuePolicyFailed)]].
Proof. vm_compute. reflexivity. Qed.
