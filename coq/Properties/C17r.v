(* C17, resolver level — only statements; proofs in AliasProofs/*.v.

   run_check s tbl mx ops = true  means: replaying the history [ops] (reset / resolve) from resolver
   state s, with the reference SERVER table tbl (alias -> topic, cleared at each reset, updated by every
   returned resolution that carries alias + topic) and the Topic Alias Maximum mx announced at the last
   reset, every returned resolution is safe: its alias is in 1..mx (so none when mx = 0), the topic is
   omitted only with an alias the server maps to exactly the topic passed to that call, and no call
   panics. *)
From GM Require Import Base.Prelude Base.Outcome Codec.Packets Alias.Outbound Alias.Inbound.
From GM Require Import AliasProofs.OutboundP AliasProofs.InboundP.
Open Scope N_scope.

Theorem C17_null_inv : forall ops, run_check (ores_init RNull) [] 0 ops = true.
Proof. intros. apply null_inv. Qed.

Theorem C17_manual_inv : forall ops, run_check (ores_init RManual) [] 0 ops = true.
Proof. exact manual_run. Qed.

(* conf = the maximum the LRU resolver was configured with (a u16) *)
Theorem C17_lru_inv : forall conf ops, conf <= 65535 -> run_check (ores_init (RLru conf)) [] 0 ops = true.
Proof. exact lru_run. Qed.

(* consequences spelled out *)
Theorem C17_no_panic : forall ops s tbl mx, run_check s tbl mx ops = true -> is_ok (run_states s ops) = true.
Proof. exact run_check_no_panic. Qed.

Theorem C17_max_zero_no_alias : forall tbl t r, res_ok tbl 0 t r = true -> r_alias r = None.
Proof. exact res_ok_zero. Qed.

(* inbound: answers come from the latest binding since the last reset; unknown / zero / out-of-range
   aliases are refused *)
Theorem C17_inbound : forall max ops alias topic,
  let s := irun (ires_init max) ops in
  match alias with
  | None => ires_resolve s alias topic = Ok (s, topic)
  | Some a =>
      match topic with
      | [] => match latest max ops a with
              | Some t => ires_resolve s alias topic = Ok (s, t)
              | None => ires_resolve s alias topic = Err EInvalidInboundTopicAlias
              end
      | _ => if (1 <=? a) && (a <=? max)
             then exists s', ires_resolve s alias topic = Ok (s', topic)
             else ires_resolve s alias topic = Err EInvalidInboundTopicAlias
      end
  end.
Proof. exact inbound_resolve. Qed.

Theorem C17_inbound_bindings : forall max ops a t, latest max ops a = Some t -> t <> [] /\ 1 <= a <= max.
Proof. exact latest_props. Qed.

Theorem C17_inbound_reset_forgets : forall max ops a, latest max (ops ++ [IReset]) a = None.
Proof. exact latest_reset. Qed.

Theorem C17_inbound_never_empty : forall max ops a topic s' t,
  ires_resolve (irun (ires_init max) ops) (Some a) topic = Ok (s', t) -> t <> [].
Proof. exact inbound_never_empty. Qed.

(* non-vacuity: an LRU resolver with 2 aliases over 3 topics; the third topic recycles alias 1 *)
Example C17r_example :
  (do (s1, r1) <- ores_resolve (ores_reset (ores_init (RLru 2)) 5) None [97];
   do (s2, r2) <- ores_resolve s1 None [98];
   do (s3, r3) <- ores_resolve s2 None [97];
   do (s4, r4) <- ores_resolve s3 None [99];
   Ok [r1; r2; r3; r4])
  = Ok [ {| r_skip_topic := false; r_alias := Some 1 |}; {| r_skip_topic := false; r_alias := Some 2 |};
         {| r_skip_topic := true; r_alias := Some 1 |}; {| r_skip_topic := false; r_alias := Some 2 |} ].
Proof. vm_compute. reflexivity. Qed.
