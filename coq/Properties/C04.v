(* C04 - QoS 1/2 handshake handlers: statements only, proofs in EngineProofs/Handlers.v *)
From GM Require Import Base.Prelude Base.Outcome Codec.Packets Codec.Settings Engine.Model EngineProofs.Frames EngineProofs.Handlers.
From RecordUpdate Require Import RecordSet.
Open Scope N_scope.

Theorem C04_unknown_ack_rejected : forall (enc dec ores ires : Type) (cfg : config) (s : state enc dec ores ires) (a : ack) (sa : suback) (ua : unsuback), pre_connack enc dec ores ires s = false -> (lookup (ack_pid a) (s_ppub s) = None -> handle_puback enc dec ores ires cfg s a = {| h_s := s; h_done := []; h_ev := []; h_out := Err EProtocolError |} /\ handle_pubrec enc dec ores ires cfg s a = {| h_s := s; h_done := []; h_ev := []; h_out := Err EProtocolError |} /\ handle_pubcomp enc dec ores ires cfg s a = {| h_s := s; h_done := []; h_ev := []; h_out := Err EProtocolError |}) /\ (lookup (sa_pid sa) (s_pnon s) = None -> handle_suback enc dec ores ires cfg s sa = {| h_s := s; h_done := []; h_ev := []; h_out := Err EProtocolError |}) /\ (lookup (ua_pid ua) (s_pnon s) = None -> handle_unsuback enc dec ores ires cfg s ua = {| h_s := s; h_done := []; h_ev := []; h_out := Err EProtocolError |}).
Proof. exact unknown_ack_rejected. Qed.

Theorem C04_puback_needs_qos1 : forall (enc dec ores ires : Type) (cfg : config) (s : state enc dec ores ires) (a : ack) (id : N), pre_connack enc dec ores ires s = false -> lookup (ack_pid a) (s_ppub s) = Some id -> publish_qos_of enc dec ores ires s id <> Some 1 -> handle_puback enc dec ores ires cfg s a = {| h_s := s; h_done := []; h_ev := []; h_out := Err EProtocolError |}.
Proof. exact puback_needs_qos1. Qed.

Theorem C04_pubcomp_needs_pubrel : forall enc dec ores : Type, (ores -> N -> ores) -> forall (ires : Type) (cfg : config) (s : state enc dec ores ires) (a : ack) (id : N) (o : op) (pb : publish), pre_connack enc dec ores ires s = false -> lookup (ack_pid a) (s_ppub s) = Some id -> lookup id (s_ops s) = Some o -> op_packet o = Publish pb -> pub_qos pb <> 2 \/ op_pubrel o = None -> handle_pubcomp enc dec ores ires cfg s a = {| h_s := s; h_done := []; h_ev := []; h_out := Err EProtocolError |}.
Proof. exact pubcomp_needs_pubrel. Qed.

Theorem C04_pubrec_success : forall enc dec ores : Type, (ores -> N -> ores) -> forall (ires : Type) (cfg : config) (s : state enc dec ores ires) (a : ack) (id : N) (o : op) (pb : publish), pre_connack enc dec ores ires s = false -> lookup (ack_pid a) (s_ppub s) = Some id -> lookup id (s_ops s) = Some o -> op_packet o = Publish pb -> pub_qos pb = 2 -> ack_rc a < 128 -> let h := handle_pubrec enc dec ores ires cfg s a in h_out h = Ok tt /\ h_done h = [] /\ s_hq (h_s h) = s_hq s ++ [id] /\ s_ops (h_s h) = update id (fun o0 : op => set op_pubrel (fun _ : option packet => Some (Pubrel (default_ack (ack_pid a)))) o0) (s_ops s) /\ s_ppub (h_s h) = s_ppub s.
Proof. exact pubrec_success. Qed.

Theorem C04_suback_needs_matching_subscribe : forall enc dec ores : Type, (ores -> N -> ores) -> forall (ires : Type) (cfg : config) (s : state enc dec ores ires) (sa : suback) (id : N) (o : op), pre_connack enc dec ores ires s = false -> lookup (sa_pid sa) (s_pnon s) = Some id -> lookup id (s_ops s) = Some o -> (forall sub : subscribe, op_packet o = Subscribe sub -> len (sa_codes sa) <> len (s_subs sub)) -> handle_suback enc dec ores ires cfg s sa = {| h_s := s; h_done := []; h_ev := []; h_out := Err EProtocolError |}.
Proof. exact suback_needs_matching_subscribe. Qed.

