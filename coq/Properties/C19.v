(* C19 — reconnect back-off.  Only statements; proofs live in ClientProofs/BackoffP.v *)
From GM Require Import Base.Prelude Client.Backoff ClientProofs.BackoffP.
Open Scope N_scope.

(* The waits produced by the client over ANY history of wait / connection-success /
   connection-end events are exactly the formula's: the k-th consecutive wait is
   min(base'*2^k, max') (jittered into [0, that) when jitter is on), with k restarting from 0
   exactly when a connection lasted strictly longer than the stability period. *)
Theorem C19_sequence : forall c h, cfg_ok c = true -> waits c h = spec_run c 0 None h.
Proof. exact waits_spec. Qed.

Theorem C19_kth_wait : forall c n, cfg_ok c = true -> c_jit c = JNone ->
  waits c (n_waits n) = map (fun i => kth_bound c (N.of_nat i)) (seq 0 n).
Proof. exact kth_wait_formula. Qed.

Theorem C19_never_exceeds_max : forall c h w,
  cfg_ok c = true -> In w (waits c h) -> w <= c_max (normalize c).
Proof. exact waits_bounded. Qed.

Theorem C19_jitter_range : forall p j, jittered p j <= p /\ (0 < p -> jittered p j < p).
Proof. intros p j. split; [apply jittered_le | apply jittered_lt]. Qed.

Theorem C19_effective_bounds : forall c,
  NANOS <= c_max (normalize c) /\ c_base (normalize c) <= c_max (normalize c).
Proof. intros c. split; [apply normalize_max_ge_1s | apply normalize_base_le_max]. Qed.

(* totality: the doubling never leaves the Duration range (no overflow panic) and an empty
   jitter range yields 0 (no rand panic) — both are definitional in [advance]; the bound: *)
Theorem C19_total : forall d, double_sat d <= DMAX.
Proof. exact double_sat_le. Qed.

(* non-vacuity: swapped bounds 10 s / 2 s, no jitter; stable connection resets *)
Example C19_example :
  waits {| c_jit := JNone; c_base := 10 * NANOS; c_max := 2 * NANOS; c_stab := 5 * NANOS |}
        [Wait 0; Wait 0; Wait 0; Wait 0; Success 100; ConnEnd (100 + 6 * NANOS); Wait 0; Success 0; ConnEnd 5; Wait 0]
  = [2 * NANOS; 4 * NANOS; 8 * NANOS; 10 * NANOS; 2 * NANOS; 4 * NANOS].
Proof. vm_compute. reflexivity. Qed.
