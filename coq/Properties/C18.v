(* C18 — ack timeouts and the interrupted-retry limit fire exactly when specified: single-step
   contracts of process_ack_timeouts / fully_written / update_retries / fail_exceeding of the engine
   model, for ANY components.  Proofs: EngineProofs/SvcTimeout.v. *)
From GM Require Import Base.Prelude Base.Outcome Codec.Packets Codec.Settings Alias.Outbound Engine.Model Engine.Instance.
From GM Require Import EngineProofs.AssocLemmas EngineProofs.SvcTimeout EngineProofs.IdsWitness.
From RecordUpdate Require Import RecordSet.
Import RecordSetNotations.
Open Scope N_scope.

Section Engine.
  Variable enc : Type.
  Variable enc_reset : version -> packet -> resolution -> outcome enc.
  Variable enc_call : enc -> N -> N -> outcome (bytes * enc).
  Variable enc_done : enc -> bool.
  Variable dec : Type.
  Variable dec_init : dec.
  Variable dec_feed : version -> N -> dec -> bytes -> dec * list packet * outcome unit.
  Variable ores : Type.
  Variable ores_reset : ores -> N -> ores.
  Variable ores_resolve : ores -> option N -> bytes -> outcome (ores * resolution).
  Variable ires : Type.
  Variable ires_reset : ires -> ires.
  Variable ires_resolve : ires -> option N -> bytes -> outcome (ires * bytes).
  Variable v_out : option settings -> connect_opts -> resolution -> packet -> outcome unit.
  Variable v_in : option settings -> packet -> outcome unit.
  Variable cfg : config.
  Notation state := (Model.state enc dec ores ires).
  Notation init := (Model.init enc dec dec_init ores ires).
  Notation step := (Model.step enc enc_reset enc_call enc_done dec dec_init dec_feed ores ores_reset ores_resolve ires ires_reset ires_resolve v_out v_in cfg).
  Notation run := (Model.run enc enc_reset enc_call enc_done dec dec_init dec_feed ores ores_reset ores_resolve ires ires_reset ires_resolve v_out v_in cfg).
  Notation process_ack_timeouts := (Model.process_ack_timeouts enc dec ores ires cfg).
  Notation fully_written := (Model.fully_written enc dec ores ires).
  Notation update_retries := (Model.update_retries enc dec ores ires cfg).
  Notation fail_exceeding := (Model.fail_exceeding enc dec ores ires cfg).
  Notation pending_ids := (SvcTimeout.pending_ids enc dec ores ires).
  Notation pid_consistent := (SvcTimeout.pid_consistent enc dec ores ires).

  (* process_ack_timeouts (no panic): exactly the records with deadline <= now leave the heap,
     exactly their still existing user operations are failed with AckTimeout and leave the
     table, nothing else is touched *)
  Theorem C18_timeout_exact : forall (s : state) now,
    let r := process_ack_timeouts s now in
    is_panic (r_out r) = false ->
    s_tmo (r_s r) = filter (fun x => negb (due now x)) (s_tmo s) /\
    (forall id c, In (id, c) (r_done r) <->
       c = CompErr EAckTimeout /\ (exists t, In (id, t) (s_tmo s) /\ t <= now) /\
       exists o, lookup id (s_ops s) = Some o /\ completes o = true) /\
    (forall k, lookup k (s_ops (r_s r)) =
               if existsb (fun x => (fst x =? k) && due now x) (s_tmo s) then None else lookup k (s_ops s)) /\
    (s_uq (r_s r) = s_uq s /\ s_rq (r_s r) = s_rq s /\ s_hq (r_s r) = s_hq s /\ s_cur (r_s r) = s_cur s /\
     s_pwco (r_s r) = s_pwco s /\ s_pwc (r_s r) = s_pwc s /\ s_next_ping (r_s r) = s_next_ping s /\
     s_ping_to (r_s r) = s_ping_to s /\ s_settings (r_s r) = s_settings s /\ s_next_id (r_s r) = s_next_id s).
  Proof. exact (ack_timeouts_exact enc dec ores ires cfg). Qed.

  (* never earlier, never for operations without a record: unconditional *)
  Theorem C18_timeout_sound : forall (s : state) now id c,
    In (id, c) (r_done (process_ack_timeouts s now)) ->
    c = CompErr EAckTimeout /\ (exists t, In (id, t) (s_tmo s) /\ t <= now) /\
    exists o, lookup id (s_ops s) = Some o /\ op_user o = true.
  Proof. exact (ack_timeouts_sound enc dec ores ires cfg). Qed.

  (* the record is created when the packet is completely written: (id, now + timeout); queueing
     time does not count; internal operations and operations without timeout get none *)
  Theorem C18_deadline_armed : forall (s : state) now d s' id o,
    fully_written s now = Ok s' -> s_cur s = Some id -> lookup id (s_ops s) = Some o ->
    op_user o = true -> op_timeout o = Some d -> now + d <= IMAX ->
    s_tmo s' = s_tmo s ++ [(id, now + d)].
  Proof. exact (deadline_armed_user enc dec ores ires). Qed.

  Theorem C18_deadline_not_armed : forall (s : state) now s' id o,
    fully_written s now = Ok s' -> s_cur s = Some id -> lookup id (s_ops s) = Some o ->
    (op_user o = false \/ op_timeout o = None) -> s_tmo s' = s_tmo s.
  Proof. exact (deadline_not_armed enc dec ores ires). Qed.

  (* at close: every operation caught sent-but-unacknowledged gets interruption count + 1 *)
  Theorem C18_retry_count : forall (s s' : state),
    update_retries s = Ok s' -> NoDup (pending_ids s) ->
    match cf_retry cfg with
    | None => s' = s
    | Some _ =>
        s' = s <| s_ops := s_ops s' |> /\
        forall k, lookup k (s_ops s') = if mem k (pending_ids s) then option_map bump_intr (lookup k (s_ops s)) else lookup k (s_ops s)
    end.
  Proof. exact (update_retries_exact enc dec ores ires cfg). Qed.

  (* ... and is failed with MaxInterruptedRetriesExceeded iff the count exceeds the limit *)
  Theorem C18_retry_limit : forall (s : state) limit id o,
    cf_retry cfg = Some limit -> is_panic (r_out (fail_exceeding s)) = false -> pid_consistent s ->
    In id (pending_ids s) -> lookup id (s_ops s) = Some o -> completes o = true ->
    (In (id, CompErr EMaxInterruptedRetriesExceeded) (r_done (fail_exceeding s)) <-> limit < op_intr o).
  Proof. exact (retry_limit_iff enc dec ores ires cfg). Qed.

  Theorem C18_retry_sound : forall (s : state) id c,
    In (id, c) (r_done (fail_exceeding s)) ->
    exists limit, cf_retry cfg = Some limit /\ c = CompErr EMaxInterruptedRetriesExceeded /\
      In id (pending_ids s) /\ exists o, lookup id (s_ops s) = Some o /\ op_user o = true /\ limit < op_intr o.
  Proof. exact (fail_exceeding_sound enc dec ores ires cfg). Qed.

  Theorem C18_no_limit : forall (s : state), cf_retry cfg = None ->
    update_retries s = Ok s /\ fail_exceeding s = Model.pure enc dec ores ires s.
  Proof. exact (no_retry_limit enc dec ores ires cfg). Qed.
End Engine.

(* non-vacuity (instance): a QoS1 publish with ack timeout 500 ms written at 10 is not failed by the
   service at 509 and is failed by the service at 510; with retry limit 0 a QoS1 publish caught
   unacknowledged by a close is failed with MaxInterruptedRetriesExceeded *)
Example C18_example :
  map o_done (x_outs (x_cfg 0) (x_connect_events x_connack_bytes ++
     [EvUser 1 (x_pub 1) (Some 500); EvService 10 4096 0; EvWriteComplete 10; EvService 509 4096 0; EvService 510 4096 0]))
  = [[]; []; []; []; []; []; []; []; [(2, CompErr EAckTimeout)]] /\
  map o_done (x_outs (x_cfg_full 0 false (Some 0) 0) (x_connect_events x_connack_bytes ++
     [EvUser 1 (x_pub 1) None; EvService 10 4096 0; EvWriteComplete 10; EvClose 20]))
  = [[]; []; []; []; []; []; []; [(2, CompErr EMaxInterruptedRetriesExceeded)]].
Proof. vm_compute. split; reflexivity. Qed.

(* ---- run level (EngineProofs/TimersRun*.v): statements about EVERY state reachable from init by any event history
   (hypotheses: component invariants comps_ok, ok_cfg, Forall ok_event); the C18_instance_* forms are about the
   concrete engine of Engine/Instance.v with comps_ok discharged.
   C18_run_armed: every operation awaiting an acknowledgement (s_ppub / s_pnon) that is a user operation with ack
     timeout T, completely written at w (op_ext) with w + T <= IMAX has the record (i, w + T);
   C18_run_timeout_fires: ... so the first successful service call at or after w + T removes (fails) it;
   C18_run_records_sound / C18_epoch_spec / C18_run_record_written / C18_run_no_record / C18_run_tmo_empty: every
     record is w + T for a service time w after the last close / reset and the ack timeout T of a user operation whose
     latest complete write happened at a service call after the last close / reset (queued time and writes on earlier
     connections arm nothing); operations without timeout, internal ones, never-written ones have no record; no record
     in Disconnected / PendingConnack;
   C18_run_intr_count: op_intr = number of closes of the history that caught the operation in s_ppub / s_pnon (ghost
     intr_count, by recursion over the history);  C18_run_limit: never above the limit;
   C18_run_maxintr_sound / _complete: MaxInterruptedRetriesExceeded is reported only by a close that catches a user
     operation whose count is exactly the limit (its (limit+1)-th interruption), and that close removes the operation.
   C18_run_example_*: vm_compute witnesses (premises satisfiable, conclusions non-trivial). ---- *)
From GM Require Import EngineProofs.WFDefs EngineProofs.TimersRun EngineProofs.TimersRunThms EngineProofs.TimersRunRetry EngineProofs.TimersRunInstance EngineProofs.TimersRunWitness.

Theorem C18_run_armed : forall (enc : Type) (enc_reset : version -> packet -> resolution -> outcome enc) (enc_call : enc -> N -> N -> outcome (bytes * enc)) (enc_done : enc -> bool) (dec : Type) (dec_init : dec) (dec_feed : version -> N -> dec -> bytes -> dec * list packet * outcome unit) (ores : Type) (ores_reset : ores -> N -> ores) (ores_resolve : ores -> option N -> bytes -> outcome (ores * resolution)) (ires : Type) (ires_reset : ires -> ires) (ires_resolve : ires -> option N -> bytes -> outcome (ires * bytes)) (v_out : option settings -> connect_opts -> resolution -> packet -> outcome unit) (v_in : option settings -> packet -> outcome unit) (cfg : config) (HC : comps_ok enc enc_reset enc_call dec dec_init dec_feed ores ores_reset ores_resolve ires ires_reset ires_resolve v_out v_in), ok_cfg cfg -> forall (o0 : ores) (i0 : ires) (h : list event), @ores_inv enc enc_reset enc_call dec dec_init dec_feed ores ores_reset ores_resolve ires ires_reset ires_resolve v_out v_in HC o0 -> @ires_inv enc enc_reset enc_call dec dec_init dec_feed ores ores_reset ores_resolve ires ires_reset ires_resolve v_out v_in HC i0 -> @Forall event ok_event h -> forall (p i : N) (o : op) (T w : N), @In (N * N) (p, i) (@s_ppub enc dec ores ires (@fst (state enc dec ores ires) (list output) (run enc enc_reset enc_call enc_done dec dec_init dec_feed ores ores_reset ores_resolve ires ires_reset ires_resolve v_out v_in cfg (init enc dec dec_init ores ires o0 i0) h))) \/ @In (N * N) (p, i) (@s_pnon enc dec ores ires (@fst (state enc dec ores ires) (list output) (run enc enc_reset enc_call enc_done dec dec_init dec_feed ores ores_reset ores_resolve ires ires_reset ires_resolve v_out v_in cfg (init enc dec dec_init ores ires o0 i0) h))) -> @lookup op i (@s_ops enc dec ores ires (@fst (state enc dec ores ires) (list output) (run enc enc_reset enc_call enc_done dec dec_init dec_feed ores ores_reset ores_resolve ires ires_reset ires_resolve v_out v_in cfg (init enc dec dec_init ores ires o0 i0) h))) = @Some op o -> op_user o = true -> op_timeout o = @Some N T -> op_ext o = @Some N w -> w + T <= IMAX -> @In (N * N) (i, w + T) (@s_tmo enc dec ores ires (@fst (state enc dec ores ires) (list output) (run enc enc_reset enc_call enc_done dec dec_init dec_feed ores ores_reset ores_resolve ires ires_reset ires_resolve v_out v_in cfg (init enc dec dec_init ores ires o0 i0) h))).
Proof. exact @run_armed. Qed.

Theorem C18_run_timeout_fires : forall (enc : Type) (enc_reset : version -> packet -> resolution -> outcome enc) (enc_call : enc -> N -> N -> outcome (bytes * enc)) (enc_done : enc -> bool) (dec : Type) (dec_init : dec) (dec_feed : version -> N -> dec -> bytes -> dec * list packet * outcome unit) (ores : Type) (ores_reset : ores -> N -> ores) (ores_resolve : ores -> option N -> bytes -> outcome (ores * resolution)) (ires : Type) (ires_reset : ires -> ires) (ires_resolve : ires -> option N -> bytes -> outcome (ires * bytes)) (v_out : option settings -> connect_opts -> resolution -> packet -> outcome unit) (v_in : option settings -> packet -> outcome unit) (cfg : config) (HC : comps_ok enc enc_reset enc_call dec dec_init dec_feed ores ores_reset ores_resolve ires ires_reset ires_resolve v_out v_in), ok_cfg cfg -> forall (o0 : ores) (i0 : ires) (h : list event), @ores_inv enc enc_reset enc_call dec dec_init dec_feed ores ores_reset ores_resolve ires ires_reset ires_resolve v_out v_in HC o0 -> @ires_inv enc enc_reset enc_call dec dec_init dec_feed ores ores_reset ores_resolve ires ires_reset ires_resolve v_out v_in HC i0 -> @Forall event ok_event h -> forall (p i : N) (o : op) (T w now cap fill : N), @In (N * N) (p, i) (@s_ppub enc dec ores ires (@fst (state enc dec ores ires) (list output) (run enc enc_reset enc_call enc_done dec dec_init dec_feed ores ores_reset ores_resolve ires ires_reset ires_resolve v_out v_in cfg (init enc dec dec_init ores ires o0 i0) h))) \/ @In (N * N) (p, i) (@s_pnon enc dec ores ires (@fst (state enc dec ores ires) (list output) (run enc enc_reset enc_call enc_done dec dec_init dec_feed ores ores_reset ores_resolve ires ires_reset ires_resolve v_out v_in cfg (init enc dec dec_init ores ires o0 i0) h))) -> @lookup op i (@s_ops enc dec ores ires (@fst (state enc dec ores ires) (list output) (run enc enc_reset enc_call enc_done dec dec_init dec_feed ores ores_reset ores_resolve ires ires_reset ires_resolve v_out v_in cfg (init enc dec dec_init ores ires o0 i0) h))) = @Some op o -> op_user o = true -> op_timeout o = @Some N T -> op_ext o = @Some N w -> w + T <= IMAX -> w + T <= now -> o_res (@snd (state enc dec ores ires) output (step enc enc_reset enc_call enc_done dec dec_init dec_feed ores ores_reset ores_resolve ires ires_reset ires_resolve v_out v_in cfg (@fst (state enc dec ores ires) (list output) (run enc enc_reset enc_call enc_done dec dec_init dec_feed ores ores_reset ores_resolve ires ires_reset ires_resolve v_out v_in cfg (init enc dec dec_init ores ires o0 i0) h)) (EvService now cap fill))) = @Ok unit tt -> @lookup op i (@s_ops enc dec ores ires (@fst (state enc dec ores ires) output (step enc enc_reset enc_call enc_done dec dec_init dec_feed ores ores_reset ores_resolve ires ires_reset ires_resolve v_out v_in cfg (@fst (state enc dec ores ires) (list output) (run enc enc_reset enc_call enc_done dec dec_init dec_feed ores ores_reset ores_resolve ires ires_reset ires_resolve v_out v_in cfg (init enc dec dec_init ores ires o0 i0) h)) (EvService now cap fill)))) = @None op.
Proof. exact @run_timeout_fires. Qed.

Theorem C18_run_records_sound : forall (enc : Type) (enc_reset : version -> packet -> resolution -> outcome enc) (enc_call : enc -> N -> N -> outcome (bytes * enc)) (enc_done : enc -> bool) (dec : Type) (dec_init : dec) (dec_feed : version -> N -> dec -> bytes -> dec * list packet * outcome unit) (ores : Type) (ores_reset : ores -> N -> ores) (ores_resolve : ores -> option N -> bytes -> outcome (ores * resolution)) (ires : Type) (ires_reset : ires -> ires) (ires_resolve : ires -> option N -> bytes -> outcome (ires * bytes)) (v_out : option settings -> connect_opts -> resolution -> packet -> outcome unit) (v_in : option settings -> packet -> outcome unit) (cfg : config) (HC : comps_ok enc enc_reset enc_call dec dec_init dec_feed ores ores_reset ores_resolve ires ires_reset ires_resolve v_out v_in), ok_cfg cfg -> forall (o0 : ores) (i0 : ires) (h : list event), @ores_inv enc enc_reset enc_call dec dec_init dec_feed ores ores_reset ores_resolve ires ires_reset ires_resolve v_out v_in HC o0 -> @ires_inv enc enc_reset enc_call dec dec_init dec_feed ores ores_reset ores_resolve ires ires_reset ires_resolve v_out v_in HC i0 -> @Forall event ok_event h -> forall i t : N, @In (N * N) (i, t) (@s_tmo enc dec ores ires (@fst (state enc dec ores ires) (list output) (run enc enc_reset enc_call enc_done dec dec_init dec_feed ores ores_reset ores_resolve ires ires_reset ires_resolve v_out v_in cfg (init enc dec dec_init ores ires o0 i0) h))) -> t <= IMAX /\ (exists w T : N, t = w + T /\ @In N w (epoch h) /\ (forall o : op, @lookup op i (@s_ops enc dec ores ires (@fst (state enc dec ores ires) (list output) (run enc enc_reset enc_call enc_done dec dec_init dec_feed ores ores_reset ores_resolve ires ires_reset ires_resolve v_out v_in cfg (init enc dec dec_init ores ires o0 i0) h))) = @Some op o -> op_user o = true /\ op_timeout o = @Some N T /\ (exists we : N, op_ext o = @Some N we /\ @In N we (epoch h)))).
Proof. exact @run_records_sound. Qed.

Theorem C18_epoch_spec : forall (h : list event) (w : N), @In N w (epoch h) -> exists (h1 : list event) (cap fill : N) (h2 : list event), h = h1 ++ EvService w cap fill :: h2 /\ @Forall event no_close h2.
Proof. exact @epoch_spec. Qed.

Theorem C18_run_record_written : forall (enc : Type) (enc_reset : version -> packet -> resolution -> outcome enc) (enc_call : enc -> N -> N -> outcome (bytes * enc)) (enc_done : enc -> bool) (dec : Type) (dec_init : dec) (dec_feed : version -> N -> dec -> bytes -> dec * list packet * outcome unit) (ores : Type) (ores_reset : ores -> N -> ores) (ores_resolve : ores -> option N -> bytes -> outcome (ores * resolution)) (ires : Type) (ires_reset : ires -> ires) (ires_resolve : ires -> option N -> bytes -> outcome (ires * bytes)) (v_out : option settings -> connect_opts -> resolution -> packet -> outcome unit) (v_in : option settings -> packet -> outcome unit) (cfg : config) (HC : comps_ok enc enc_reset enc_call dec dec_init dec_feed ores ores_reset ores_resolve ires ires_reset ires_resolve v_out v_in), ok_cfg cfg -> forall (o0 : ores) (i0 : ires) (h : list event), @ores_inv enc enc_reset enc_call dec dec_init dec_feed ores ores_reset ores_resolve ires ires_reset ires_resolve v_out v_in HC o0 -> @ires_inv enc enc_reset enc_call dec dec_init dec_feed ores ores_reset ores_resolve ires ires_reset ires_resolve v_out v_in HC i0 -> @Forall event ok_event h -> forall (i t : N) (o : op), @In (N * N) (i, t) (@s_tmo enc dec ores ires (@fst (state enc dec ores ires) (list output) (run enc enc_reset enc_call enc_done dec dec_init dec_feed ores ores_reset ores_resolve ires ires_reset ires_resolve v_out v_in cfg (init enc dec dec_init ores ires o0 i0) h))) -> @lookup op i (@s_ops enc dec ores ires (@fst (state enc dec ores ires) (list output) (run enc enc_reset enc_call enc_done dec dec_init dec_feed ores ores_reset ores_resolve ires ires_reset ires_resolve v_out v_in cfg (init enc dec dec_init ores ires o0 i0) h))) = @Some op o -> exists (we : N) (h1 : list event) (cap fill : N) (h2 : list event), op_ext o = @Some N we /\ h = h1 ++ EvService we cap fill :: h2 /\ @Forall event no_close h2.
Proof. exact @run_record_written. Qed.

Theorem C18_run_no_record : forall (enc : Type) (enc_reset : version -> packet -> resolution -> outcome enc) (enc_call : enc -> N -> N -> outcome (bytes * enc)) (enc_done : enc -> bool) (dec : Type) (dec_init : dec) (dec_feed : version -> N -> dec -> bytes -> dec * list packet * outcome unit) (ores : Type) (ores_reset : ores -> N -> ores) (ores_resolve : ores -> option N -> bytes -> outcome (ores * resolution)) (ires : Type) (ires_reset : ires -> ires) (ires_resolve : ires -> option N -> bytes -> outcome (ires * bytes)) (v_out : option settings -> connect_opts -> resolution -> packet -> outcome unit) (v_in : option settings -> packet -> outcome unit) (cfg : config) (HC : comps_ok enc enc_reset enc_call dec dec_init dec_feed ores ores_reset ores_resolve ires ires_reset ires_resolve v_out v_in), ok_cfg cfg -> forall (o0 : ores) (i0 : ires) (h : list event), @ores_inv enc enc_reset enc_call dec dec_init dec_feed ores ores_reset ores_resolve ires ires_reset ires_resolve v_out v_in HC o0 -> @ires_inv enc enc_reset enc_call dec dec_init dec_feed ores ores_reset ores_resolve ires ires_reset ires_resolve v_out v_in HC i0 -> @Forall event ok_event h -> forall (i : N) (o : op), @lookup op i (@s_ops enc dec ores ires (@fst (state enc dec ores ires) (list output) (run enc enc_reset enc_call enc_done dec dec_init dec_feed ores ores_reset ores_resolve ires ires_reset ires_resolve v_out v_in cfg (init enc dec dec_init ores ires o0 i0) h))) = @Some op o -> op_user o = false \/ op_timeout o = @None N \/ op_ext o = @None N -> forall t : N, ~ @In (N * N) (i, t) (@s_tmo enc dec ores ires (@fst (state enc dec ores ires) (list output) (run enc enc_reset enc_call enc_done dec dec_init dec_feed ores ores_reset ores_resolve ires ires_reset ires_resolve v_out v_in cfg (init enc dec dec_init ores ires o0 i0) h))).
Proof. exact @run_no_record. Qed.

Theorem C18_run_tmo_empty : forall (enc : Type) (enc_reset : version -> packet -> resolution -> outcome enc) (enc_call : enc -> N -> N -> outcome (bytes * enc)) (enc_done : enc -> bool) (dec : Type) (dec_init : dec) (dec_feed : version -> N -> dec -> bytes -> dec * list packet * outcome unit) (ores : Type) (ores_reset : ores -> N -> ores) (ores_resolve : ores -> option N -> bytes -> outcome (ores * resolution)) (ires : Type) (ires_reset : ires -> ires) (ires_resolve : ires -> option N -> bytes -> outcome (ires * bytes)) (v_out : option settings -> connect_opts -> resolution -> packet -> outcome unit) (v_in : option settings -> packet -> outcome unit) (cfg : config) (HC : comps_ok enc enc_reset enc_call dec dec_init dec_feed ores ores_reset ores_resolve ires ires_reset ires_resolve v_out v_in), ok_cfg cfg -> forall (o0 : ores) (i0 : ires) (h : list event), @ores_inv enc enc_reset enc_call dec dec_init dec_feed ores ores_reset ores_resolve ires ires_reset ires_resolve v_out v_in HC o0 -> @ires_inv enc enc_reset enc_call dec dec_init dec_feed ores ores_reset ores_resolve ires ires_reset ires_resolve v_out v_in HC i0 -> @Forall event ok_event h -> @s_st enc dec ores ires (@fst (state enc dec ores ires) (list output) (run enc enc_reset enc_call enc_done dec dec_init dec_feed ores ores_reset ores_resolve ires ires_reset ires_resolve v_out v_in cfg (init enc dec dec_init ores ires o0 i0) h)) = Disconnected \/ @s_st enc dec ores ires (@fst (state enc dec ores ires) (list output) (run enc enc_reset enc_call enc_done dec dec_init dec_feed ores ores_reset ores_resolve ires ires_reset ires_resolve v_out v_in cfg (init enc dec dec_init ores ires o0 i0) h)) = PendingConnack -> @s_tmo enc dec ores ires (@fst (state enc dec ores ires) (list output) (run enc enc_reset enc_call enc_done dec dec_init dec_feed ores ores_reset ores_resolve ires ires_reset ires_resolve v_out v_in cfg (init enc dec dec_init ores ires o0 i0) h)) = [].
Proof. exact @run_tmo_empty. Qed.

Theorem C18_run_intr_count : forall (enc : Type) (enc_reset : version -> packet -> resolution -> outcome enc) (enc_call : enc -> N -> N -> outcome (bytes * enc)) (enc_done : enc -> bool) (dec : Type) (dec_init : dec) (dec_feed : version -> N -> dec -> bytes -> dec * list packet * outcome unit) (ores : Type) (ores_reset : ores -> N -> ores) (ores_resolve : ores -> option N -> bytes -> outcome (ores * resolution)) (ires : Type) (ires_reset : ires -> ires) (ires_resolve : ires -> option N -> bytes -> outcome (ires * bytes)) (v_out : option settings -> connect_opts -> resolution -> packet -> outcome unit) (v_in : option settings -> packet -> outcome unit) (cfg : config) (HC : comps_ok enc enc_reset enc_call dec dec_init dec_feed ores ores_reset ores_resolve ires ires_reset ires_resolve v_out v_in), ok_cfg cfg -> forall (o0 : ores) (i0 : ires) (h : list event), @ores_inv enc enc_reset enc_call dec dec_init dec_feed ores ores_reset ores_resolve ires ires_reset ires_resolve v_out v_in HC o0 -> @ires_inv enc enc_reset enc_call dec dec_init dec_feed ores ores_reset ores_resolve ires ires_reset ires_resolve v_out v_in HC i0 -> @Forall event ok_event h -> forall (i : N) (o : op), @lookup op i (@s_ops enc dec ores ires (@fst (state enc dec ores ires) (list output) (run enc enc_reset enc_call enc_done dec dec_init dec_feed ores ores_reset ores_resolve ires ires_reset ires_resolve v_out v_in cfg (init enc dec dec_init ores ires o0 i0) h))) = @Some op o -> op_intr o = intr_count enc enc_reset enc_call enc_done dec dec_init dec_feed ores ores_reset ores_resolve ires ires_reset ires_resolve v_out v_in cfg (init enc dec dec_init ores ires o0 i0) h i.
Proof. exact @run_intr_count. Qed.

Theorem C18_run_limit : forall (enc : Type) (enc_reset : version -> packet -> resolution -> outcome enc) (enc_call : enc -> N -> N -> outcome (bytes * enc)) (enc_done : enc -> bool) (dec : Type) (dec_init : dec) (dec_feed : version -> N -> dec -> bytes -> dec * list packet * outcome unit) (ores : Type) (ores_reset : ores -> N -> ores) (ores_resolve : ores -> option N -> bytes -> outcome (ores * resolution)) (ires : Type) (ires_reset : ires -> ires) (ires_resolve : ires -> option N -> bytes -> outcome (ires * bytes)) (v_out : option settings -> connect_opts -> resolution -> packet -> outcome unit) (v_in : option settings -> packet -> outcome unit) (cfg : config) (HC : comps_ok enc enc_reset enc_call dec dec_init dec_feed ores ores_reset ores_resolve ires ires_reset ires_resolve v_out v_in), ok_cfg cfg -> forall (o0 : ores) (i0 : ires) (h : list event), @ores_inv enc enc_reset enc_call dec dec_init dec_feed ores ores_reset ores_resolve ires ires_reset ires_resolve v_out v_in HC o0 -> @ires_inv enc enc_reset enc_call dec dec_init dec_feed ores ores_reset ores_resolve ires ires_reset ires_resolve v_out v_in HC i0 -> @Forall event ok_event h -> forall limit : N, cf_retry cfg = @Some N limit -> forall (i : N) (o : op), @lookup op i (@s_ops enc dec ores ires (@fst (state enc dec ores ires) (list output) (run enc enc_reset enc_call enc_done dec dec_init dec_feed ores ores_reset ores_resolve ires ires_reset ires_resolve v_out v_in cfg (init enc dec dec_init ores ires o0 i0) h))) = @Some op o -> op_intr o <= limit.
Proof. exact @run_limit. Qed.

Theorem C18_run_maxintr_sound : forall (enc : Type) (enc_reset : version -> packet -> resolution -> outcome enc) (enc_call : enc -> N -> N -> outcome (bytes * enc)) (enc_done : enc -> bool) (dec : Type) (dec_init : dec) (dec_feed : version -> N -> dec -> bytes -> dec * list packet * outcome unit) (ores : Type) (ores_reset : ores -> N -> ores) (ores_resolve : ores -> option N -> bytes -> outcome (ores * resolution)) (ires : Type) (ires_reset : ires -> ires) (ires_resolve : ires -> option N -> bytes -> outcome (ires * bytes)) (v_out : option settings -> connect_opts -> resolution -> packet -> outcome unit) (v_in : option settings -> packet -> outcome unit) (cfg : config) (HC : comps_ok enc enc_reset enc_call dec dec_init dec_feed ores ores_reset ores_resolve ires ires_reset ires_resolve v_out v_in), ok_cfg cfg -> forall (o0 : ores) (i0 : ires) (h : list event), @ores_inv enc enc_reset enc_call dec dec_init dec_feed ores ores_reset ores_resolve ires ires_reset ires_resolve v_out v_in HC o0 -> @ires_inv enc enc_reset enc_call dec dec_init dec_feed ores ores_reset ores_resolve ires ires_reset ires_resolve v_out v_in HC i0 -> @Forall event ok_event h -> forall now i : N, @In (N * completion) (i, CompErr EMaxInterruptedRetriesExceeded) (o_done (@snd (state enc dec ores ires) output (step enc enc_reset enc_call enc_done dec dec_init dec_feed ores ores_reset ores_resolve ires ires_reset ires_resolve v_out v_in cfg (@fst (state enc dec ores ires) (list output) (run enc enc_reset enc_call enc_done dec dec_init dec_feed ores ores_reset ores_resolve ires ires_reset ires_resolve v_out v_in cfg (init enc dec dec_init ores ires o0 i0) h)) (EvClose now)))) -> @s_st enc dec ores ires (@fst (state enc dec ores ires) (list output) (run enc enc_reset enc_call enc_done dec dec_init dec_feed ores ores_reset ores_resolve ires ires_reset ires_resolve v_out v_in cfg (init enc dec dec_init ores ires o0 i0) h)) <> Disconnected /\ (exists (limit : N) (o : op), cf_retry cfg = @Some N limit /\ @lookup op i (@s_ops enc dec ores ires (@fst (state enc dec ores ires) (list output) (run enc enc_reset enc_call enc_done dec dec_init dec_feed ores ores_reset ores_resolve ires ires_reset ires_resolve v_out v_in cfg (init enc dec dec_init ores ires o0 i0) h))) = @Some op o /\ op_user o = true /\ @In N i (pending_ids enc dec ores ires (@fst (state enc dec ores ires) (list output) (run enc enc_reset enc_call enc_done dec dec_init dec_feed ores ores_reset ores_resolve ires ires_reset ires_resolve v_out v_in cfg (init enc dec dec_init ores ires o0 i0) h))) /\ op_intr o = limit).
Proof. exact @run_maxintr_sound. Qed.

Theorem C18_run_maxintr_complete : forall (enc : Type) (enc_reset : version -> packet -> resolution -> outcome enc) (enc_call : enc -> N -> N -> outcome (bytes * enc)) (enc_done : enc -> bool) (dec : Type) (dec_init : dec) (dec_feed : version -> N -> dec -> bytes -> dec * list packet * outcome unit) (ores : Type) (ores_reset : ores -> N -> ores) (ores_resolve : ores -> option N -> bytes -> outcome (ores * resolution)) (ires : Type) (ires_reset : ires -> ires) (ires_resolve : ires -> option N -> bytes -> outcome (ires * bytes)) (v_out : option settings -> connect_opts -> resolution -> packet -> outcome unit) (v_in : option settings -> packet -> outcome unit) (cfg : config) (HC : comps_ok enc enc_reset enc_call dec dec_init dec_feed ores ores_reset ores_resolve ires ires_reset ires_resolve v_out v_in), ok_cfg cfg -> forall (o0 : ores) (i0 : ires) (h : list event), @ores_inv enc enc_reset enc_call dec dec_init dec_feed ores ores_reset ores_resolve ires ires_reset ires_resolve v_out v_in HC o0 -> @ires_inv enc enc_reset enc_call dec dec_init dec_feed ores ores_reset ores_resolve ires ires_reset ires_resolve v_out v_in HC i0 -> @Forall event ok_event h -> forall (now i : N) (o : op) (limit : N), @s_st enc dec ores ires (@fst (state enc dec ores ires) (list output) (run enc enc_reset enc_call enc_done dec dec_init dec_feed ores ores_reset ores_resolve ires ires_reset ires_resolve v_out v_in cfg (init enc dec dec_init ores ires o0 i0) h)) <> Disconnected -> cf_retry cfg = @Some N limit -> @lookup op i (@s_ops enc dec ores ires (@fst (state enc dec ores ires) (list output) (run enc enc_reset enc_call enc_done dec dec_init dec_feed ores ores_reset ores_resolve ires ires_reset ires_resolve v_out v_in cfg (init enc dec dec_init ores ires o0 i0) h))) = @Some op o -> @In N i (pending_ids enc dec ores ires (@fst (state enc dec ores ires) (list output) (run enc enc_reset enc_call enc_done dec dec_init dec_feed ores ores_reset ores_resolve ires ires_reset ires_resolve v_out v_in cfg (init enc dec dec_init ores ires o0 i0) h))) -> op_intr o = limit -> @lookup op i (@s_ops enc dec ores ires (@fst (state enc dec ores ires) output (step enc enc_reset enc_call enc_done dec dec_init dec_feed ores ores_reset ores_resolve ires ires_reset ires_resolve v_out v_in cfg (@fst (state enc dec ores ires) (list output) (run enc enc_reset enc_call enc_done dec dec_init dec_feed ores ores_reset ores_resolve ires ires_reset ires_resolve v_out v_in cfg (init enc dec dec_init ores ires o0 i0) h)) (EvClose now)))) = @None op.
Proof. exact @run_maxintr_complete. Qed.

Theorem C18_instance_armed : forall cfg : config, ok_cfg cfg -> forall (k : resolver_kind) (h : list event), @Forall event ok_event h -> forall (p i : N) (o : op) (T w : N), @In (N * N) (p, i) (@s_ppub enc Framing.decoder ores Inbound.ires (@fst istate (list output) (i_run cfg (i_init cfg k) h))) \/ @In (N * N) (p, i) (@s_pnon enc Framing.decoder ores Inbound.ires (@fst istate (list output) (i_run cfg (i_init cfg k) h))) -> @lookup op i (@s_ops enc Framing.decoder ores Inbound.ires (@fst istate (list output) (i_run cfg (i_init cfg k) h))) = @Some op o -> op_user o = true -> op_timeout o = @Some N T -> op_ext o = @Some N w -> w + T <= IMAX -> @In (N * N) (i, w + T) (@s_tmo enc Framing.decoder ores Inbound.ires (@fst istate (list output) (i_run cfg (i_init cfg k) h))).
Proof. exact @instance_run_armed. Qed.

Theorem C18_instance_timeout_fires : forall cfg : config, ok_cfg cfg -> forall (k : resolver_kind) (h : list event), @Forall event ok_event h -> forall (p i : N) (o : op) (T w now cap fill : N), @In (N * N) (p, i) (@s_ppub enc Framing.decoder ores Inbound.ires (@fst istate (list output) (i_run cfg (i_init cfg k) h))) \/ @In (N * N) (p, i) (@s_pnon enc Framing.decoder ores Inbound.ires (@fst istate (list output) (i_run cfg (i_init cfg k) h))) -> @lookup op i (@s_ops enc Framing.decoder ores Inbound.ires (@fst istate (list output) (i_run cfg (i_init cfg k) h))) = @Some op o -> op_user o = true -> op_timeout o = @Some N T -> op_ext o = @Some N w -> w + T <= IMAX -> w + T <= now -> o_res (@snd istate output (i_step cfg (@fst istate (list output) (i_run cfg (i_init cfg k) h)) (EvService now cap fill))) = @Ok unit tt -> @lookup op i (@s_ops enc Framing.decoder ores Inbound.ires (@fst istate output (i_step cfg (@fst istate (list output) (i_run cfg (i_init cfg k) h)) (EvService now cap fill)))) = @None op.
Proof. exact @instance_run_timeout_fires. Qed.

Theorem C18_instance_records_sound : forall cfg : config, ok_cfg cfg -> forall (k : resolver_kind) (h : list event), @Forall event ok_event h -> forall i t : N, @In (N * N) (i, t) (@s_tmo enc Framing.decoder ores Inbound.ires (@fst istate (list output) (i_run cfg (i_init cfg k) h))) -> t <= IMAX /\ (exists w T : N, t = w + T /\ @In N w (epoch h) /\ (forall o : op, @lookup op i (@s_ops enc Framing.decoder ores Inbound.ires (@fst istate (list output) (i_run cfg (i_init cfg k) h))) = @Some op o -> op_user o = true /\ op_timeout o = @Some N T /\ (exists we : N, op_ext o = @Some N we /\ @In N we (epoch h)))).
Proof. exact @instance_run_records_sound. Qed.

Theorem C18_instance_record_written : forall cfg : config, ok_cfg cfg -> forall (k : resolver_kind) (h : list event), @Forall event ok_event h -> forall (i t : N) (o : op), @In (N * N) (i, t) (@s_tmo enc Framing.decoder ores Inbound.ires (@fst istate (list output) (i_run cfg (i_init cfg k) h))) -> @lookup op i (@s_ops enc Framing.decoder ores Inbound.ires (@fst istate (list output) (i_run cfg (i_init cfg k) h))) = @Some op o -> exists (we : N) (h1 : list event) (cap fill : N) (h2 : list event), op_ext o = @Some N we /\ h = h1 ++ EvService we cap fill :: h2 /\ @Forall event no_close h2.
Proof. exact @instance_run_record_written. Qed.

Theorem C18_instance_no_record : forall cfg : config, ok_cfg cfg -> forall (k : resolver_kind) (h : list event), @Forall event ok_event h -> forall (i : N) (o : op), @lookup op i (@s_ops enc Framing.decoder ores Inbound.ires (@fst istate (list output) (i_run cfg (i_init cfg k) h))) = @Some op o -> op_user o = false \/ op_timeout o = @None N \/ op_ext o = @None N -> forall t : N, ~ @In (N * N) (i, t) (@s_tmo enc Framing.decoder ores Inbound.ires (@fst istate (list output) (i_run cfg (i_init cfg k) h))).
Proof. exact @instance_run_no_record. Qed.

Theorem C18_instance_tmo_empty : forall cfg : config, ok_cfg cfg -> forall (k : resolver_kind) (h : list event), @Forall event ok_event h -> @s_st enc Framing.decoder ores Inbound.ires (@fst istate (list output) (i_run cfg (i_init cfg k) h)) = Disconnected \/ @s_st enc Framing.decoder ores Inbound.ires (@fst istate (list output) (i_run cfg (i_init cfg k) h)) = PendingConnack -> @s_tmo enc Framing.decoder ores Inbound.ires (@fst istate (list output) (i_run cfg (i_init cfg k) h)) = [].
Proof. exact @instance_run_tmo_empty. Qed.

Theorem C18_instance_intr_count : forall cfg : config, ok_cfg cfg -> forall (k : resolver_kind) (h : list event), @Forall event ok_event h -> forall (i : N) (o : op), @lookup op i (@s_ops enc Framing.decoder ores Inbound.ires (@fst istate (list output) (i_run cfg (i_init cfg k) h))) = @Some op o -> op_intr o = i_intr_count cfg (i_init cfg k) h i.
Proof. exact @instance_run_intr_count. Qed.

Theorem C18_instance_limit : forall cfg : config, ok_cfg cfg -> forall (k : resolver_kind) (h : list event), @Forall event ok_event h -> forall limit : N, cf_retry cfg = @Some N limit -> forall (i : N) (o : op), @lookup op i (@s_ops enc Framing.decoder ores Inbound.ires (@fst istate (list output) (i_run cfg (i_init cfg k) h))) = @Some op o -> op_intr o <= limit.
Proof. exact @instance_run_limit. Qed.

Theorem C18_instance_maxintr_sound : forall cfg : config, ok_cfg cfg -> forall (k : resolver_kind) (h : list event), @Forall event ok_event h -> forall now i : N, @In (N * completion) (i, CompErr EMaxInterruptedRetriesExceeded) (o_done (@snd istate output (i_step cfg (@fst istate (list output) (i_run cfg (i_init cfg k) h)) (EvClose now)))) -> @s_st enc Framing.decoder ores Inbound.ires (@fst istate (list output) (i_run cfg (i_init cfg k) h)) <> Disconnected /\ (exists (limit : N) (o : op), cf_retry cfg = @Some N limit /\ @lookup op i (@s_ops enc Framing.decoder ores Inbound.ires (@fst istate (list output) (i_run cfg (i_init cfg k) h))) = @Some op o /\ op_user o = true /\ @In N i (i_pending (@fst istate (list output) (i_run cfg (i_init cfg k) h))) /\ op_intr o = limit).
Proof. exact @instance_run_maxintr_sound. Qed.

Theorem C18_instance_maxintr_complete : forall cfg : config, ok_cfg cfg -> forall (k : resolver_kind) (h : list event), @Forall event ok_event h -> forall (now i : N) (o : op) (limit : N), @s_st enc Framing.decoder ores Inbound.ires (@fst istate (list output) (i_run cfg (i_init cfg k) h)) <> Disconnected -> cf_retry cfg = @Some N limit -> @lookup op i (@s_ops enc Framing.decoder ores Inbound.ires (@fst istate (list output) (i_run cfg (i_init cfg k) h))) = @Some op o -> @In N i (i_pending (@fst istate (list output) (i_run cfg (i_init cfg k) h))) -> op_intr o = limit -> @lookup op i (@s_ops enc Framing.decoder ores Inbound.ires (@fst istate output (i_step cfg (@fst istate (list output) (i_run cfg (i_init cfg k) h)) (EvClose now)))) = @None op.
Proof. exact @instance_run_maxintr_complete. Qed.

Theorem C18_run_example_timeout : @Forall event ok_event (t_hist1 ++ [EvService 899 4096 0; EvService 900 4096 0]) /\ ok_cfg (x_cfg 0) /\ t_view (x_state (x_cfg 0) t_hist1) = (Connected, [(1, 2)], [], [(2, 900)], [(2, true, @Some N 500, @Some N 400, 0)], @None N, @None N) /\ epoch t_hist1 = [400; 0] /\ @map output (outcome unit) o_res (x_outs (x_cfg 0) (t_hist1 ++ [EvService 899 4096 0; EvService 900 4096 0])) = @repeat (outcome unit) (@Ok unit tt) 8 /\ @map output dones o_done (x_outs (x_cfg 0) (t_hist1 ++ [EvService 899 4096 0; EvService 900 4096 0])) = [[]; []; []; []; []; []; []; [(2, CompErr EAckTimeout)]] /\ @s_ops enc Framing.decoder ores Inbound.ires (x_state (x_cfg 0) (t_hist1 ++ [EvService 899 4096 0; EvService 900 4096 0])) = [].
Proof. exact @t_timeout. Qed.

Theorem C18_run_example_retry : @Forall event ok_event (t_hist3 ++ [EvClose 50]) /\ ok_cfg t_cfg2 /\ t_view (x_state t_cfg2 t_hist2) = (Disconnected, [], [], [], [(2, true, @None N, @Some N 10, 1)], @None N, @None N) /\ t_view (x_state t_cfg2 t_hist3) = (Connected, [(2, 2)], [], [], [(2, true, @None N, @Some N 40, 1)], @None N, @None N) /\ (i_intr_count t_cfg2 (x_init t_cfg2) t_hist2 2, i_intr_count t_cfg2 (x_init t_cfg2) t_hist3 2) = (1, 1) /\ i_pending (x_state t_cfg2 t_hist3) = [2] /\ o_done (@snd istate output (i_step t_cfg2 (x_state t_cfg2 t_hist3) (EvClose 50))) = [(2, CompErr EMaxInterruptedRetriesExceeded)] /\ @s_ops enc Framing.decoder ores Inbound.ires (@fst istate output (i_step t_cfg2 (x_state t_cfg2 t_hist3) (EvClose 50))) = [].
Proof. exact @t_retry. Qed.

