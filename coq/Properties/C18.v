(* C18 — ack timeouts and the interrupted-retry limit fire exactly when specified: single-step
   contracts of process_ack_timeouts / fully_written / update_retries / fail_exceeding of the engine
   model, for ANY components.  Proofs: EngineProofs/SvcTimeout.v. *)
From GM Require Import Base.Prelude Base.Outcome Codec.Packets Codec.Settings Alias.Outbound Engine.Model Engine.Instance.
From GM Require Import EngineProofs.AssocLemmas EngineProofs.SvcTimeout EngineProofs.IdsWitness.
From RecordUpdate Require Import RecordSet.
Import RecordSetNotations.
Open Scope N_scope.

Section Engine.
  Variable enc : Type.
  Variable enc_reset : version -> packet -> resolution -> outcome enc.
  Variable enc_call : enc -> N -> N -> outcome (bytes * enc).
  Variable enc_done : enc -> bool.
  Variable dec : Type.
  Variable dec_init : dec.
  Variable dec_feed : version -> N -> dec -> bytes -> dec * list packet * outcome unit.
  Variable ores : Type.
  Variable ores_reset : ores -> N -> ores.
  Variable ores_resolve : ores -> option N -> bytes -> outcome (ores * resolution).
  Variable ires : Type.
  Variable ires_reset : ires -> ires.
  Variable ires_resolve : ires -> option N -> bytes -> outcome (ires * bytes).
  Variable v_out : option settings -> connect_opts -> resolution -> packet -> outcome unit.
  Variable v_in : option settings -> packet -> outcome unit.
  Variable cfg : config.
  Notation state := (Model.state enc dec ores ires).
  Notation init := (Model.init enc dec dec_init ores ires).
  Notation step := (Model.step enc enc_reset enc_call enc_done dec dec_init dec_feed ores ores_reset ores_resolve ires ires_reset ires_resolve v_out v_in cfg).
  Notation run := (Model.run enc enc_reset enc_call enc_done dec dec_init dec_feed ores ores_reset ores_resolve ires ires_reset ires_resolve v_out v_in cfg).
  Notation process_ack_timeouts := (Model.process_ack_timeouts enc dec ores ires cfg).
  Notation fully_written := (Model.fully_written enc dec ores ires).
  Notation update_retries := (Model.update_retries enc dec ores ires cfg).
  Notation fail_exceeding := (Model.fail_exceeding enc dec ores ires cfg).
  Notation pending_ids := (SvcTimeout.pending_ids enc dec ores ires).
  Notation pid_consistent := (SvcTimeout.pid_consistent enc dec ores ires).

  (* process_ack_timeouts (no panic): exactly the records with deadline <= now leave the heap,
     exactly their still existing user operations are failed with AckTimeout and leave the
     table, nothing else is touched *)
  Theorem C18_timeout_exact : forall (s : state) now,
    let r := process_ack_timeouts s now in
    is_panic (r_out r) = false ->
    s_tmo (r_s r) = filter (fun x => negb (due now x)) (s_tmo s) /\
    (forall id c, In (id, c) (r_done r) <->
       c = CompErr EAckTimeout /\ (exists t, In (id, t) (s_tmo s) /\ t <= now) /\
       exists o, lookup id (s_ops s) = Some o /\ completes o = true) /\
    (forall k, lookup k (s_ops (r_s r)) =
               if existsb (fun x => (fst x =? k) && due now x) (s_tmo s) then None else lookup k (s_ops s)) /\
    (s_uq (r_s r) = s_uq s /\ s_rq (r_s r) = s_rq s /\ s_hq (r_s r) = s_hq s /\ s_cur (r_s r) = s_cur s /\
     s_pwco (r_s r) = s_pwco s /\ s_pwc (r_s r) = s_pwc s /\ s_next_ping (r_s r) = s_next_ping s /\
     s_ping_to (r_s r) = s_ping_to s /\ s_settings (r_s r) = s_settings s /\ s_next_id (r_s r) = s_next_id s).
  Proof. exact (ack_timeouts_exact enc dec ores ires cfg). Qed.

  (* never earlier, never for operations without a record: unconditional *)
  Theorem C18_timeout_sound : forall (s : state) now id c,
    In (id, c) (r_done (process_ack_timeouts s now)) ->
    c = CompErr EAckTimeout /\ (exists t, In (id, t) (s_tmo s) /\ t <= now) /\
    exists o, lookup id (s_ops s) = Some o /\ op_user o = true.
  Proof. exact (ack_timeouts_sound enc dec ores ires cfg). Qed.

  (* the record is created when the packet is completely written: (id, now + timeout); queueing
     time does not count; internal operations and operations without timeout get none *)
  Theorem C18_deadline_armed : forall (s : state) now d s' id o,
    fully_written s now = Ok s' -> s_cur s = Some id -> lookup id (s_ops s) = Some o ->
    op_user o = true -> op_timeout o = Some d -> now + d <= IMAX ->
    s_tmo s' = s_tmo s ++ [(id, now + d)].
  Proof. exact (deadline_armed_user enc dec ores ires). Qed.

  Theorem C18_deadline_not_armed : forall (s : state) now s' id o,
    fully_written s now = Ok s' -> s_cur s = Some id -> lookup id (s_ops s) = Some o ->
    (op_user o = false \/ op_timeout o = None) -> s_tmo s' = s_tmo s.
  Proof. exact (deadline_not_armed enc dec ores ires). Qed.

  (* at close: every operation caught sent-but-unacknowledged gets interruption count + 1 *)
  Theorem C18_retry_count : forall (s s' : state),
    update_retries s = Ok s' -> NoDup (pending_ids s) ->
    match cf_retry cfg with
    | None => s' = s
    | Some _ =>
        s' = s <| s_ops := s_ops s' |> /\
        forall k, lookup k (s_ops s') = if mem k (pending_ids s) then option_map bump_intr (lookup k (s_ops s)) else lookup k (s_ops s)
    end.
  Proof. exact (update_retries_exact enc dec ores ires cfg). Qed.

  (* ... and is failed with MaxInterruptedRetriesExceeded iff the count exceeds the limit *)
  Theorem C18_retry_limit : forall (s : state) limit id o,
    cf_retry cfg = Some limit -> is_panic (r_out (fail_exceeding s)) = false -> pid_consistent s ->
    In id (pending_ids s) -> lookup id (s_ops s) = Some o -> completes o = true ->
    (In (id, CompErr EMaxInterruptedRetriesExceeded) (r_done (fail_exceeding s)) <-> limit < op_intr o).
  Proof. exact (retry_limit_iff enc dec ores ires cfg). Qed.

  Theorem C18_retry_sound : forall (s : state) id c,
    In (id, c) (r_done (fail_exceeding s)) ->
    exists limit, cf_retry cfg = Some limit /\ c = CompErr EMaxInterruptedRetriesExceeded /\
      In id (pending_ids s) /\ exists o, lookup id (s_ops s) = Some o /\ op_user o = true /\ limit < op_intr o.
  Proof. exact (fail_exceeding_sound enc dec ores ires cfg). Qed.

  Theorem C18_no_limit : forall (s : state), cf_retry cfg = None ->
    update_retries s = Ok s /\ fail_exceeding s = Model.pure enc dec ores ires s.
  Proof. exact (no_retry_limit enc dec ores ires cfg). Qed.
End Engine.

(* non-vacuity (instance): a QoS1 publish with ack timeout 500 ms written at 10 is not failed by the
   service at 509 and is failed by the service at 510; with retry limit 0 a QoS1 publish caught
   unacknowledged by a close is failed with MaxInterruptedRetriesExceeded *)
Example C18_example :
  map o_done (x_outs (x_cfg 0) (x_connect_events x_connack_bytes ++
     [EvUser 1 (x_pub 1) (Some 500); EvService 10 4096 0; EvWriteComplete 10; EvService 509 4096 0; EvService 510 4096 0]))
  = [[]; []; []; []; []; []; []; []; [(2, CompErr EAckTimeout)]] /\
  map o_done (x_outs (x_cfg_full 0 false (Some 0) 0) (x_connect_events x_connack_bytes ++
     [EvUser 1 (x_pub 1) None; EvService 10 4096 0; EvWriteComplete 10; EvClose 20]))
  = [[]; []; []; []; []; []; []; [(2, CompErr EMaxInterruptedRetriesExceeded)]].
Proof. vm_compute. split; reflexivity. Qed.
