(* C09 — receive maximum and slow-start flow control.  Statements about the engine model for ANY
   components.  Proofs: EngineProofs/Flow{,Inv,Step,Svc,Main}.v.

   [C09_receive_max_given] is the receive-maximum bound over ALL runs from the initial state whose
   outputs contain no Panic, GIVEN the packet-id facts [pid_facts] in every state of the run:
     pf_alloc  an existing operation bound to packet id p owns p in s_alloc (hence packet ids are
               unique among existing operations)                    <- engine WF conjunct W5
     pf_hq     an existing QoS>0 publish in the high-priority queue is bound to a packet id, carries
               it in its packet, and that id is a key of s_ppub      <- engine WF conjuncts W10 + W3
   These are facts of the engine well-formedness invariant (EngineProofs/WF*.v, a separate
   development); the UNCONDITIONAL theorem is the corollary in EngineProofs/FlowWF.v, which imports
   both and discharges the premise.  Everything else (the count invariant including the current
   operation, the offline invariant, sortedness of the tables, the id invariant) is proved here,
   step by step ([C09_flow_step]); the packet-id facts are used for EvService only. *)
From GM Require Import Base.Prelude Base.Outcome Codec.Packets Codec.Settings Alias.Outbound Engine.Model Engine.Instance.
From GM Require Import EngineProofs.AssocLemmas EngineProofs.Flow EngineProofs.FlowInv EngineProofs.FlowMain EngineProofs.FlowSs EngineProofs.IdsWitness.
Open Scope N_scope.

Section Engine.
  Variable enc : Type.
  Variable enc_reset : version -> packet -> resolution -> outcome enc.
  Variable enc_call : enc -> N -> N -> outcome (bytes * enc).
  Variable enc_done : enc -> bool.
  Variable dec : Type.
  Variable dec_init : dec.
  Variable dec_feed : version -> N -> dec -> bytes -> dec * list packet * outcome unit.
  Variable ores : Type.
  Variable ores_reset : ores -> N -> ores.
  Variable ores_resolve : ores -> option N -> bytes -> outcome (ores * resolution).
  Variable ires : Type.
  Variable ires_reset : ires -> ires.
  Variable ires_resolve : ires -> option N -> bytes -> outcome (ires * bytes).
  Variable v_out : option settings -> connect_opts -> resolution -> packet -> outcome unit.
  Variable v_in : option settings -> packet -> outcome unit.
  Variable cfg : config.
  Notation state := (Model.state enc dec ores ires).
  Notation init := (Model.init enc dec dec_init ores ires).
  Notation step := (Model.step enc enc_reset enc_call enc_done dec dec_init dec_feed ores ores_reset ores_resolve ires ires_reset ires_resolve v_out v_in cfg).
  Notation run := (Model.run enc enc_reset enc_call enc_done dec dec_init dec_feed ores ores_reset ores_resolve ires ires_reset ires_resolve v_out v_in cfg).
  Notation flow_inv := (FlowInv.flow_inv enc dec ores ires).
  Notation pid_facts := (FlowInv.pid_facts enc dec ores ires).
  Notation dequeue := (Model.dequeue enc dec ores ires cfg).
  Notation throttled := (Model.throttled enc dec ores ires cfg).
  Notation has_pending_ack := (Model.has_pending_ack enc dec ores ires).

  Theorem C09_receive_max_given : forall o i h,
    (forall k, pid_facts (fst (run (init o i) (firstn k h)))) ->
    (forall out, In out (snd (run (init o i) h)) -> is_panic (o_res out) = false) ->
    let s := fst (run (init o i) h) in
    s_st s = Connected ->
    exists st, s_settings s = Some st /\ len (s_ppub s) <= st_receive_maximum_from_server st.
  Proof. exact (receive_max_given enc enc_reset enc_call enc_done dec dec_init dec_feed ores ores_reset ores_resolve ires ires_reset ires_resolve v_out v_in cfg). Qed.

  (* the inductive invariant: it holds initially and is kept by every step that does not panic;
     the packet-id facts are needed for service steps only *)
  Theorem C09_flow_init : forall o i, flow_inv (init o i).
  Proof. exact (flow_init enc dec dec_init ores ires). Qed.

  Theorem C09_flow_step : forall s e,
    flow_inv s -> (forall now cap fill, e = EvService now cap fill -> pid_facts s) ->
    is_panic (o_res (snd (step s e))) = false -> flow_inv (fst (step s e)).
  Proof. exact (flow_step enc enc_reset enc_call enc_done dec dec_init dec_feed ores ores_reset ores_resolve ires ires_reset ires_resolve v_out v_in cfg). Qed.

  (* what the invariant says while connected: the pending-publish table plus a QoS>0 publish being
     written (whose packet id is not yet in the table) fit the server's receive maximum *)
  Theorem C09_flow_count : forall s, flow_inv s -> s_st s = Connected ->
    exists st, s_settings s = Some st /\
      len (s_ppub s) + FlowInv.extra enc dec ores ires s <= st_receive_maximum_from_server st.
  Proof. intros s H. exact (fl_count enc dec ores ires (s_st s) s H). Qed.

  (* the gates of dequeue, single step *)
  Theorem C09_slow_start_gate : forall (s : state) id s1,
    (throttled s && has_pending_ack s) = true -> dequeue s true = (s1, Some id) ->
    exists r, s_hq s = id :: r.
  Proof. exact (slow_start_gate enc dec ores ires cfg). Qed.

  (* the slow-start counter is exact in every reachable state (no premise): Connected under the
     one-at-a-time drain policy, it is the sum of the slow-start marks of the existing operations *)
  Theorem C09_ss_count_exact : forall o i h,
    let s := fst (run (init o i) h) in
    cf_drain_one cfg = true -> s_st s = Connected -> s_ss_count s = Model.sum_ss enc dec ores ires s.
  Proof. exact (ss_count_exact enc enc_reset enc_call enc_done dec dec_init dec_feed ores ores_reset ores_resolve ires ires_reset ires_resolve v_out v_in cfg). Qed.

  Theorem C09_receive_max_gate : forall (s : state) id s1 st o,
    dequeue s true = (s1, Some id) -> s_hq s = [] -> s_settings s = Some st ->
    lookup id (s_ops s) = Some o -> qpub (op_packet o) = true ->
    len (s_ppub s) < st_receive_maximum_from_server st.
  Proof. exact (receive_max_gate enc dec ores ires cfg). Qed.
End Engine.

(* non-vacuity (instance, CONNACK with Receive Maximum 1): of two QoS1 publishes only the first is
   written; the second waits in the user queue while the table holds one entry; no output is a panic *)
Example C09_example :
  let h := x_connect_events x_connack_rm1_bytes ++
           [EvUser 1 (x_pub 1) None; EvUser 1 (x_pub 1) None; EvService 1 4096 0; EvWriteComplete 1; EvService 1 4096 0] in
  let s := x_state (x_cfg 0) h in
  (s_st s, s_ppub s, s_uq s, option_map st_receive_maximum_from_server (s_settings s)) = (Connected, [(1, 2)], [3], Some 1) /\
  forallb (fun o => negb (is_panic (o_res o))) (x_outs (x_cfg 0) h) = true.
Proof. vm_compute. split; reflexivity. Qed.

(* ---- the UNCONDITIONAL receive-maximum bound: the premise pid_facts of C09_receive_max_given is a conjunct of the engine well-formedness invariant (EngineProofs/FlowWF.v: WF_pid_facts) and the no-panic premise is C11_no_panic; C09_receive_max holds over every event history for components satisfying comps_ok, C09_instance_receive_max for the concrete engine of Engine/Instance.v (only ok_cfg and ok_event remain) ---- *)
From GM Require Import EngineProofs.WFDefs EngineProofs.FlowWF.

Theorem C09_receive_max : forall (enc : Type) (enc_reset : version -> packet -> resolution -> outcome enc) (enc_call : enc -> N -> N -> outcome (bytes * enc)) (enc_done : enc -> bool) (dec : Type) (dec_init : dec) (dec_feed : version -> N -> dec -> bytes -> dec * list packet * outcome unit) (ores : Type) (ores_reset : ores -> N -> ores) (ores_resolve : ores -> option N -> bytes -> outcome (ores * resolution)) (ires : Type) (ires_reset : ires -> ires) (ires_resolve : ires -> option N -> bytes -> outcome (ires * bytes)) (v_out : option settings -> connect_opts -> resolution -> packet -> outcome unit) (v_in : option settings -> packet -> outcome unit) (cfg : config) (HC : comps_ok enc enc_reset enc_call dec dec_init dec_feed ores ores_reset ores_resolve ires ires_reset ires_resolve v_out v_in), ok_cfg cfg -> forall (o : ores) (i : ires) (h : list event), @ores_inv enc enc_reset enc_call dec dec_init dec_feed ores ores_reset ores_resolve ires ires_reset ires_resolve v_out v_in HC o -> @ires_inv enc enc_reset enc_call dec dec_init dec_feed ores ores_reset ores_resolve ires ires_reset ires_resolve v_out v_in HC i -> @Forall event ok_event h -> @s_st enc dec ores ires (@fst (state enc dec ores ires) (list output) (run enc enc_reset enc_call enc_done dec dec_init dec_feed ores ores_reset ores_resolve ires ires_reset ires_resolve v_out v_in cfg (init enc dec dec_init ores ires o i) h)) = Connected -> exists st : settings, @s_settings enc dec ores ires (@fst (state enc dec ores ires) (list output) (run enc enc_reset enc_call enc_done dec dec_init dec_feed ores ores_reset ores_resolve ires ires_reset ires_resolve v_out v_in cfg (init enc dec dec_init ores ires o i) h)) = @Some settings st /\ @len (N * N) (@s_ppub enc dec ores ires (@fst (state enc dec ores ires) (list output) (run enc enc_reset enc_call enc_done dec dec_init dec_feed ores ores_reset ores_resolve ires ires_reset ires_resolve v_out v_in cfg (init enc dec dec_init ores ires o i) h))) <= st_receive_maximum_from_server st.
Proof. exact @receive_max. Qed.

Theorem C09_instance_receive_max : forall (cfg : config) (k : resolver_kind) (h : list event), ok_cfg cfg -> @Forall event ok_event h -> @s_st enc Framing.decoder ores Inbound.ires (@fst istate (list output) (i_run cfg (i_init cfg k) h)) = Connected -> exists st : settings, @s_settings enc Framing.decoder ores Inbound.ires (@fst istate (list output) (i_run cfg (i_init cfg k) h)) = @Some settings st /\ @len (N * N) (@s_ppub enc Framing.decoder ores Inbound.ires (@fst istate (list output) (i_run cfg (i_init cfg k) h))) <= st_receive_maximum_from_server st.
Proof. exact @instance_receive_max. Qed.
