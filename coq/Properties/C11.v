(* C11 - clean errors, never a panic: component-level totality (decoder, allocator) and the absorbing error states; the engine-wide no-panic theorem over all event histories is the WF development (EngineProofs/WF*.v), appended below when it closes *)
From GM Require Import Base.Prelude Base.Outcome Codec.Packets Codec.Settings Codec.ImplDecode Codec.Framing Engine.Model EngineProofs.PacketIds EngineProofs.Handshake CodecProofs.DecNoPanic CodecProofs.FramingP.
From RecordUpdate Require Import RecordSet.
Open Scope N_scope.

Theorem C11_decoder_packets_total : forall (v : version) (fb : N) (body : bytes), is_panic (impl_decode_packet v fb body) = false.
Proof. exact @impl_decode_packet_total. Qed.

Theorem C11_decoder_never_panics : forall (v : version) (max_size : N) (d : decoder) (data : bytes), wf d -> let '(d', _, r) := decode_bytes v max_size d data in is_panic r = false /\ wf d'.
Proof. exact @decode_bytes_no_panic. Qed.

Theorem C11_allocator_never_panics : forall (enc dec ores ires : Type) (s : state enc dec ores ires) (id site : N), acquire_free_pid enc dec ores ires s id <> Panic site.
Proof. exact @acquire_never_panics. Qed.

Theorem C11_halted_silent : forall (enc : Type) (enc_reset : version -> packet -> resolution -> outcome enc) (enc_call : enc -> N -> N -> outcome (bytes * enc)) (enc_done : enc -> bool) (dec ores : Type) (ores_reset : ores -> N -> ores) (ores_resolve : ores -> option N -> bytes -> outcome (ores * resolution)) (ires : Type) (v_out : option settings -> connect_opts -> resolution -> packet -> outcome unit) (cfg : config) (s : state enc dec ores ires) (now cap fill : N), s_st s = Halted -> sr_bytes (service enc enc_reset enc_call enc_done dec ores ores_reset ores_resolve ires v_out cfg s now cap fill) = [] /\ sr_out (service enc enc_reset enc_call enc_done dec ores ores_reset ores_resolve ires v_out cfg s now cap fill) = Err EInternalStateError /\ sr_done (service enc enc_reset enc_call enc_done dec ores ores_reset ores_resolve ires v_out cfg s now cap fill) = [].
Proof. exact @halted_silent. Qed.

Theorem C11_disconnected_silent : forall (enc : Type) (enc_reset : version -> packet -> resolution -> outcome enc) (enc_call : enc -> N -> N -> outcome (bytes * enc)) (enc_done : enc -> bool) (dec ores : Type) (ores_reset : ores -> N -> ores) (ores_resolve : ores -> option N -> bytes -> outcome (ores * resolution)) (ires : Type) (v_out : option settings -> connect_opts -> resolution -> packet -> outcome unit) (cfg : config) (s : state enc dec ores ires) (now cap fill : N), s_st s = Disconnected -> sr_bytes (service enc enc_reset enc_call enc_done dec ores ores_reset ores_resolve ires v_out cfg s now cap fill) = [] /\ sr_s (service enc enc_reset enc_call enc_done dec ores ores_reset ores_resolve ires v_out cfg s now cap fill) = s.
Proof. exact @disconnected_silent. Qed.

Theorem C11_pending_disconnect_silent : forall (enc : Type) (enc_reset : version -> packet -> resolution -> outcome enc) (enc_call : enc -> N -> N -> outcome (bytes * enc)) (enc_done : enc -> bool) (dec ores : Type) (ores_reset : ores -> N -> ores) (ores_resolve : ores -> option N -> bytes -> outcome (ores * resolution)) (ires : Type) (v_out : option settings -> connect_opts -> resolution -> packet -> outcome unit) (cfg : config) (s : state enc dec ores ires) (now cap fill : N), s_st s = PendingDisconnect -> sr_bytes (service enc enc_reset enc_call enc_done dec ores ores_reset ores_resolve ires v_out cfg s now cap fill) = [].
Proof. exact @pending_disconnect_silent. Qed.

Theorem C11_data_before_connect_flushed_is_error : forall (enc dec : Type) (dec_feed : version -> N -> dec -> bytes -> dec * list packet * outcome unit) (ores : Type) (ores_reset : ores -> N -> ores) (ires : Type) (ires_reset : ires -> ires) (ires_resolve : ires -> option N -> bytes -> outcome (ires * bytes)) (v_in : option settings -> packet -> outcome unit) (cfg : config) (s : state enc dec ores ires) (now : N) (d : bytes), s_st s = PendingConnack -> connect_in_queue enc dec ores ires s = true -> h_out (net_data enc dec dec_feed ores ores_reset ires ires_reset ires_resolve v_in cfg s now d) = Err EProtocolError /\ s_st (h_s (net_data enc dec dec_feed ores ores_reset ires ires_reset ires_resolve v_in cfg s now d)) = Halted /\ h_done (net_data enc dec dec_feed ores ores_reset ires ires_reset ires_resolve v_in cfg s now d) = [] /\ h_ev (net_data enc dec dec_feed ores ores_reset ires ires_reset ires_resolve v_in cfg s now d) = [].
Proof. exact @data_before_connect_flushed. Qed.

Theorem C11_connack_wrong_state_is_error : forall (enc dec ores : Type) (ores_reset : ores -> N -> ores) (ires : Type) (ires_reset : ires -> ires) (v_in : option settings -> packet -> outcome unit) (cfg : config) (s : state enc dec ores ires) (now : N) (c : connack), s_st s <> PendingConnack -> h_out (handle_connack enc dec ores ores_reset ires ires_reset v_in cfg s now c) = Err EProtocolError /\ h_s (handle_connack enc dec ores ores_reset ires ires_reset v_in cfg s now c) = s.
Proof. exact @connack_wrong_state. Qed.

