From GM Require Import Base.Prelude Base.Outcome Codec.Prim Codec.Packets Codec.Steps Codec.ImplEncode
  Codec.SpecDecodeC2S Codec.ValidC2S Properties.C02.
Open Scope N_scope.
Print Assumptions C02_example.
