From GM Require Import Base.Prelude Base.Outcome Codec.Prim Codec.Packets Codec.Steps Codec.ImplEncode
  Codec.SpecDecodeC2S Codec.ValidC2S CodecProofs.EncPrim CodecProofs.EncFrag CodecProofs.EncAck
  CodecProofs.EncDisc CodecProofs.EncSub CodecProofs.EncPub CodecProofs.EncCon Properties.C02.
Open Scope N_scope.
Check C02_fragmentation : forall steps fill cap out rest,
  fill <= cap -> 4 <= cap -> encode_call steps fill cap = Ok (out, rest) ->
  flatten steps = then_rest out rest /\ fill + len out <= cap.
Check C02_fragmentation_ok : forall steps fill cap out rest r',
  fill <= cap -> 4 <= cap -> encode_call steps fill cap = Ok (out, rest) -> flatten rest = Ok r' ->
  flatten steps = Ok (out ++ r').
Check C02_fragmentation_progress : forall steps fill cap out rest,
  fill + 4 <= cap -> steps <> [] -> encode_call steps fill cap = Ok (out, rest) ->
  out <> [] \/ (length rest < length steps)%nat.
Check C02_fragmentation_any_sequence : forall steps bs, enc_run steps bs -> flatten steps = Ok bs.
Check C02_fragmentation_driver_loop : forall fuel steps bufs last bs,
  encode_seq fuel steps bufs last = Ok (Some bs) -> flatten steps = Ok bs.
Check C02_unfragmented : forall steps bs fill cap,
  flatten steps = Ok bs -> 4 <= cap -> fill + len bs + 4 <= cap -> encode_call steps fill cap = Ok (bs, []).
Check C02_complete_when_all_written : forall steps fill cap out rest,
  encode_call steps fill cap = Ok (out, rest) -> flatten steps = Ok out -> rest = [].
Check C02_Pingreq : forall v r,
  exists bs, impl_encode_all v Pingreq r = Ok bs /\ spec_decode v bs = Some (canon v r Pingreq, []).
Check C02_Puback_V5 : forall a r, valid V5 r (Puback a) = true ->
  exists bs, impl_encode_all V5 (Puback a) r = Ok bs /\ spec_decode V5 bs = Some (canon V5 r (Puback a), []).
Check C02_Pubrec_V5 : forall a r, valid V5 r (Pubrec a) = true ->
  exists bs, impl_encode_all V5 (Pubrec a) r = Ok bs /\ spec_decode V5 bs = Some (canon V5 r (Pubrec a), []).
Check C02_Pubrel_V5 : forall a r, valid V5 r (Pubrel a) = true ->
  exists bs, impl_encode_all V5 (Pubrel a) r = Ok bs /\ spec_decode V5 bs = Some (canon V5 r (Pubrel a), []).
Check C02_Pubcomp_V5 : forall a r, valid V5 r (Pubcomp a) = true ->
  exists bs, impl_encode_all V5 (Pubcomp a) r = Ok bs /\ spec_decode V5 bs = Some (canon V5 r (Pubcomp a), []).
Check C02_Puback_V311 : forall a r, valid V311 r (Puback a) = true ->
  exists bs, impl_encode_all V311 (Puback a) r = Ok bs /\ spec_decode V311 bs = Some (canon V311 r (Puback a), []).
Check C02_Pubrec_V311 : forall a r, valid V311 r (Pubrec a) = true ->
  exists bs, impl_encode_all V311 (Pubrec a) r = Ok bs /\ spec_decode V311 bs = Some (canon V311 r (Pubrec a), []).
Check C02_Pubrel_V311 : forall a r, valid V311 r (Pubrel a) = true ->
  exists bs, impl_encode_all V311 (Pubrel a) r = Ok bs /\ spec_decode V311 bs = Some (canon V311 r (Pubrel a), []).
Check C02_Pubcomp_V311 : forall a r, valid V311 r (Pubcomp a) = true ->
  exists bs, impl_encode_all V311 (Pubcomp a) r = Ok bs /\ spec_decode V311 bs = Some (canon V311 r (Pubcomp a), []).
Check C02_Disconnect_V5 : forall d r, valid V5 r (Disconnect d) = true ->
  exists bs, impl_encode_all V5 (Disconnect d) r = Ok bs /\ spec_decode V5 bs = Some (canon V5 r (Disconnect d), []).
Check C02_Disconnect_V311 : forall d r,
  exists bs, impl_encode_all V311 (Disconnect d) r = Ok bs /\ spec_decode V311 bs = Some (canon V311 r (Disconnect d), []).
Check C02_Auth_V5 : forall a r, valid V5 r (Auth a) = true ->
  exists bs, impl_encode_all V5 (Auth a) r = Ok bs /\ spec_decode V5 bs = Some (canon V5 r (Auth a), []).
Check C02_Auth_V311_refused : forall a r, impl_encode_all V311 (Auth a) r = Err EEncodingFailure.
Check C02_Unsubscribe_V5 : forall u r, valid V5 r (Unsubscribe u) = true ->
  exists bs, impl_encode_all V5 (Unsubscribe u) r = Ok bs /\ spec_decode V5 bs = Some (canon V5 r (Unsubscribe u), []).
Check C02_Unsubscribe_V311 : forall u r, valid V311 r (Unsubscribe u) = true ->
  exists bs, impl_encode_all V311 (Unsubscribe u) r = Ok bs /\ spec_decode V311 bs = Some (canon V311 r (Unsubscribe u), []).
Check C02_Subscribe_V5 : forall s r, valid V5 r (Subscribe s) = true ->
  exists bs, impl_encode_all V5 (Subscribe s) r = Ok bs /\ spec_decode V5 bs = Some (canon V5 r (Subscribe s), []).
Check C02_Subscribe_V311 : forall s r, valid V311 r (Subscribe s) = true ->
  exists bs, impl_encode_all V311 (Subscribe s) r = Ok bs /\ spec_decode V311 bs = Some (canon V311 r (Subscribe s), []).
Check C02_Publish_V5 : forall p r, valid V5 r (Publish p) = true ->
  exists bs, impl_encode_all V5 (Publish p) r = Ok bs /\ spec_decode V5 bs = Some (canon V5 r (Publish p), []).
Check C02_Publish_V311 : forall p r, valid V311 r (Publish p) = true ->
  exists bs, impl_encode_all V311 (Publish p) r = Ok bs /\ spec_decode V311 bs = Some (canon V311 r (Publish p), []).
Check C02_Connect_V5 : forall c r, valid V5 r (Connect c) = true ->
  exists bs, impl_encode_all V5 (Connect c) r = Ok bs /\ spec_decode V5 bs = Some (canon V5 r (Connect c), []).
Check C02_Connect_V311 : forall c r, valid V311 r (Connect c) = true ->
  exists bs, impl_encode_all V311 (Connect c) r = Ok bs /\ spec_decode V311 bs = Some (canon V311 r (Connect c), []).
Print Assumptions C02_fragmentation.
Print Assumptions C02_fragmentation_ok.
Print Assumptions C02_fragmentation_progress.
Print Assumptions C02_fragmentation_any_sequence.
Print Assumptions C02_fragmentation_driver_loop.
Print Assumptions C02_unfragmented.
Print Assumptions C02_complete_when_all_written.
Print Assumptions C02_Pingreq.
Print Assumptions C02_Puback_V5.
Print Assumptions C02_Pubrec_V5.
Print Assumptions C02_Pubrel_V5.
Print Assumptions C02_Pubcomp_V5.
Print Assumptions C02_Puback_V311.
Print Assumptions C02_Pubrec_V311.
Print Assumptions C02_Pubrel_V311.
Print Assumptions C02_Pubcomp_V311.
Print Assumptions C02_Disconnect_V5.
Print Assumptions C02_Disconnect_V311.
Print Assumptions C02_Auth_V5.
Print Assumptions C02_Auth_V311_refused.
Print Assumptions C02_Unsubscribe_V5.
Print Assumptions C02_Unsubscribe_V311.
Print Assumptions C02_Subscribe_V5.
Print Assumptions C02_Subscribe_V311.
Print Assumptions C02_Publish_V5.
Print Assumptions C02_Publish_V311.
Print Assumptions C02_Connect_V5.
Print Assumptions C02_Connect_V311.

From GM Require Import Base.Prelude Base.Outcome Codec.Packets Codec.Settings Codec.Steps Codec.ImplEncode Codec.SpecDecodeC2S Codec.ValidC2S Engine.Model Engine.Instance EngineProofs.WFDefs EngineProofs.IdsWitness EngineProofs.HandshakeRunTrace EngineProofs.AliasRunLog EngineProofs.AliasRunInstance EngineProofs.WireRunLog EngineProofs.WireRun EngineProofs.WireRunConn EngineProofs.WireRunCodec EngineProofs.WireRunInstance EngineProofs.WireRunWitness.
Check C02_fragmentation_total : forall (steps : list Steps.step) (fill cap : N) (out : bytes) (rest : list Steps.step), encode_call steps fill cap = Ok (out, rest) -> flat steps = out ++ flat rest.
Print Assumptions C02_fragmentation_total.
Check C02_all_kinds : forall (v : version) (r : resolution) (p : packet), valid v r p = true -> exists bs : bytes, impl_encode_all v p r = Ok bs /\ spec_decode v bs = Some (canon v r p, []).
Print Assumptions C02_all_kinds.
Check C02_spec_decode_on_stream : forall (v : version) (bs : bytes) (p : packet) (more : list N), spec_decode v bs = Some (p, []) -> spec_decode v (bs ++ more) = Some (p, more).
Print Assumptions C02_spec_decode_on_stream.
Check C02_stream_decodes : forall (v : version) (l : list (packet * resolution)), Forall (pr_valid v) l -> spec_decode_all (length l) v (concat (map (fun x : packet * resolution => full_encoding v (fst x) (snd x)) l)) = Some (map (pr_canon v) l).
Print Assumptions C02_stream_decodes.
Check C02_wire_loop_is_model : forall (enc : Type) (enc_reset : version -> packet -> resolution -> outcome enc) (enc_call : enc -> N -> N -> outcome (bytes * enc)) (enc_done : enc -> bool) (dec ores : Type) (ores_reset : ores -> N -> ores) (ores_resolve : ores -> option N -> bytes -> outcome (ores * resolution)) (ires : Type) (v_out : option settings -> connect_opts -> resolution -> packet -> outcome unit) (cfg : config) (f : nat) (s : state enc dec ores ires) (m : bool) (now cap fill : N) (acc : bytes) (dn : dones), fst (service_loop_w enc enc_reset enc_call enc_done dec ores ores_reset ores_resolve ires v_out cfg f s m now cap fill acc dn) = service_loop enc enc_reset enc_call enc_done dec ores ores_reset ores_resolve ires v_out cfg f s m now cap fill acc dn.
Print Assumptions C02_wire_loop_is_model.
Check C02_wire_loop_alias_events : forall (enc : Type) (enc_reset : version -> packet -> resolution -> outcome enc) (enc_call : enc -> N -> N -> outcome (bytes * enc)) (enc_done : enc -> bool) (dec ores : Type) (ores_reset : ores -> N -> ores) (ores_resolve : ores -> option N -> bytes -> outcome (ores * resolution)) (ires : Type) (v_out : option settings -> connect_opts -> resolution -> packet -> outcome unit) (cfg : config) (f : nat) (s : state enc dec ores ires) (m : bool) (now cap fill : N) (acc : bytes) (dn : dones), olog_of (snd (service_loop_w enc enc_reset enc_call enc_done dec ores ores_reset ores_resolve ires v_out cfg f s m now cap fill acc dn)) = snd (service_loop_a enc enc_reset enc_call enc_done dec ores ores_reset ores_resolve ires v_out cfg f s m now cap fill acc dn).
Print Assumptions C02_wire_loop_alias_events.
Check C02_wire_loop_bytes : forall (enc : Type) (enc_reset : version -> packet -> resolution -> outcome enc) (enc_call : enc -> N -> N -> outcome (bytes * enc)) (enc_done : enc -> bool) (dec ores : Type) (ores_reset : ores -> N -> ores) (ores_resolve : ores -> option N -> bytes -> outcome (ores * resolution)) (ires : Type) (v_out : option settings -> connect_opts -> resolution -> packet -> outcome unit) (cfg : config) (f : nat) (s : state enc dec ores ires) (m : bool) (now cap fill : N) (acc : bytes) (dn : dones), sr_bytes (fst (service_loop_w enc enc_reset enc_call enc_done dec ores ores_reset ores_resolve ires v_out cfg f s m now cap fill acc dn)) = acc ++ wbytes (snd (service_loop_w enc enc_reset enc_call enc_done dec ores ores_reset ores_resolve ires v_out cfg f s m now cap fill acc dn)).
Print Assumptions C02_wire_loop_bytes.
Check C02_wire_log_alias_events : forall (enc : Type) (enc_reset : version -> packet -> resolution -> outcome enc) (enc_call : enc -> N -> N -> outcome (bytes * enc)) (enc_done : enc -> bool) (dec : Type) (dec_init : dec) (dec_feed : version -> N -> dec -> bytes -> dec * list packet * outcome unit) (ores : Type) (ores_reset : ores -> N -> ores) (ores_resolve : ores -> option N -> bytes -> outcome (ores * resolution)) (ires : Type) (ires_reset : ires -> ires) (ires_resolve : ires -> option N -> bytes -> outcome (ires * bytes)) (v_out : option settings -> connect_opts -> resolution -> packet -> outcome unit) (v_in : option settings -> packet -> outcome unit) (cfg : config) (h : list event) (s : state enc dec ores ires), olog_of (run_wlog enc enc_reset enc_call enc_done dec dec_init dec_feed ores ores_reset ores_resolve ires ires_reset ires_resolve v_out v_in cfg s h) = run_olog enc enc_reset enc_call enc_done dec dec_init dec_feed ores ores_reset ores_resolve ires ires_reset ires_resolve v_out v_in cfg s h.
Print Assumptions C02_wire_log_alias_events.
Check C02_wire_log_bytes : forall (enc : Type) (enc_reset : version -> packet -> resolution -> outcome enc) (enc_call : enc -> N -> N -> outcome (bytes * enc)) (enc_done : enc -> bool) (dec : Type) (dec_init : dec) (dec_feed : version -> N -> dec -> bytes -> dec * list packet * outcome unit) (ores : Type) (ores_reset : ores -> N -> ores) (ores_resolve : ores -> option N -> bytes -> outcome (ores * resolution)) (ires : Type) (ires_reset : ires -> ires) (ires_resolve : ires -> option N -> bytes -> outcome (ires * bytes)) (v_out : option settings -> connect_opts -> resolution -> packet -> outcome unit) (v_in : option settings -> packet -> outcome unit) (cfg : config) (h : list event) (s : state enc dec ores ires) (acc : bytes), conn_stream (run_wlog enc enc_reset enc_call enc_done dec dec_init dec_feed ores ores_reset ores_resolve ires ires_reset ires_resolve v_out v_in cfg s h) acc = conn_bytes h (snd (run enc enc_reset enc_call enc_done dec dec_init dec_feed ores ores_reset ores_resolve ires ires_reset ires_resolve v_out v_in cfg s h)) acc.
Print Assumptions C02_wire_log_bytes.
Check C02_run_wire_stream : forall (enc : Type) (enc_reset : version -> packet -> resolution -> outcome enc) (enc_call : enc -> N -> N -> outcome (bytes * enc)) (enc_done : enc -> bool) (dec : Type) (dec_init : dec) (dec_feed : version -> N -> dec -> bytes -> dec * list packet * outcome unit) (ores : Type) (ores_reset : ores -> N -> ores) (ores_resolve : ores -> option N -> bytes -> outcome (ores * resolution)) (ires : Type) (ires_reset : ires -> ires) (ires_resolve : ires -> option N -> bytes -> outcome (ires * bytes)) (v_out : option settings -> connect_opts -> resolution -> packet -> outcome unit) (v_in : option settings -> packet -> outcome unit) (cfg : config) (HC : comps_ok enc enc_reset enc_call dec dec_init dec_feed ores ores_reset ores_resolve ires ires_reset ires_resolve v_out v_in), ok_cfg cfg -> forall (enc_rem : enc -> bytes) (enc_full : version -> packet -> resolution -> bytes), (forall (v : version) (p : packet) (r : resolution) (e : enc), enc_reset v p r = Ok e -> enc_rem e = enc_full v p r) -> (forall (e : enc) (fill cap : N) (out : bytes) (e' : enc), enc_call e fill cap = Ok (out, e') -> enc_rem e = out ++ enc_rem e') -> (forall e : enc, enc_done e = true -> enc_rem e = []) -> forall (enc_good : enc -> Prop) (pkt_good : version -> packet -> resolution -> Prop), (forall (v : version) (p : packet) (r : resolution) (e : enc), enc_reset v p r = Ok e -> enc_good e -> pkt_good v p r) -> (forall (e : enc) (fill cap : N) (out : bytes) (e' : enc), enc_call e fill cap = Ok (out, e') -> enc_good e' -> enc_good e) -> (forall e : enc, enc_done e = true -> enc_good e) -> forall (o : ores) (i : ires) (h : list event), ores_inv HC o -> ires_inv HC i -> Forall ok_event h -> let L := run_wlog enc enc_reset enc_call enc_done dec dec_init dec_feed ores ores_reset ores_resolve ires ires_reset ires_resolve v_out v_in cfg (init enc dec dec_init ores ires o i) h in let g := wfold wg0 L in conn_bytes h (snd (run enc enc_reset enc_call enc_done dec dec_init dec_feed ores ores_reset ores_resolve ires ires_reset ires_resolve v_out v_in cfg (init enc dec dec_init ores ires o i) h)) [] = concat (map (full cfg enc_full) (w_done g)) ++ w_part g /\ match w_cur g with | Some x => exists rest : list N, full cfg enc_full x = w_part g ++ rest | None => w_part g = [] end /\ conn_seated L [] = w_done g ++ olist (w_cur g) /\ olog_of L = run_olog enc enc_reset enc_call enc_done dec dec_init dec_feed ores ores_reset ores_resolve ires ires_reset ires_resolve v_out v_in cfg (init enc dec dec_init ores ires o i) h /\ Forall (good cfg pkt_good) (w_done g) /\ (live enc dec ores ires (fst (run enc enc_reset enc_call enc_done dec dec_init dec_feed ores ores_reset ores_resolve ires ires_reset ires_resolve v_out v_in cfg (init enc dec dec_init ores ires o i) h)) -> C enc dec ores ires cfg enc_rem enc_full enc_good pkt_good (fst (run enc enc_reset enc_call enc_done dec dec_init dec_feed ores ores_reset ores_resolve ires ires_reset ires_resolve v_out v_in cfg (init enc dec dec_init ores ires o i) h)) g).
Print Assumptions C02_run_wire_stream.
Check C02_run_wire_connection : forall (enc : Type) (enc_reset : version -> packet -> resolution -> outcome enc) (enc_call : enc -> N -> N -> outcome (bytes * enc)) (enc_done : enc -> bool) (dec : Type) (dec_init : dec) (dec_feed : version -> N -> dec -> bytes -> dec * list packet * outcome unit) (ores : Type) (ores_reset : ores -> N -> ores) (ores_resolve : ores -> option N -> bytes -> outcome (ores * resolution)) (ires : Type) (ires_reset : ires -> ires) (ires_resolve : ires -> option N -> bytes -> outcome (ires * bytes)) (v_out : option settings -> connect_opts -> resolution -> packet -> outcome unit) (v_in : option settings -> packet -> outcome unit) (cfg : config) (HC : comps_ok enc enc_reset enc_call dec dec_init dec_feed ores ores_reset ores_resolve ires ires_reset ires_resolve v_out v_in), ok_cfg cfg -> forall (enc_rem : enc -> bytes) (enc_full : version -> packet -> resolution -> bytes), (forall (v : version) (p : packet) (r : resolution) (e : enc), enc_reset v p r = Ok e -> enc_rem e = enc_full v p r) -> (forall (e : enc) (fill cap : N) (out : bytes) (e' : enc), enc_call e fill cap = Ok (out, e') -> enc_rem e = out ++ enc_rem e') -> (forall e : enc, enc_done e = true -> enc_rem e = []) -> forall (enc_good : enc -> Prop) (pkt_good : version -> packet -> resolution -> Prop), (forall (v : version) (p : packet) (r : resolution) (e : enc), enc_reset v p r = Ok e -> enc_good e -> pkt_good v p r) -> (forall (e : enc) (fill cap : N) (out : bytes) (e' : enc), enc_call e fill cap = Ok (out, e') -> enc_good e' -> enc_good e) -> (forall e : enc, enc_done e = true -> enc_good e) -> forall (o : ores) (i : ires) (h1 : list event) (now dl : N) (h2 : list event), ores_inv HC o -> ires_inv HC i -> Forall ok_event (h1 ++ EvOpen now dl :: h2) -> Forall not_open h2 -> let s1 := fst (run enc enc_reset enc_call enc_done dec dec_init dec_feed ores ores_reset ores_resolve ires ires_reset ires_resolve v_out v_in cfg (init enc dec dec_init ores ires o i) (h1 ++ [EvOpen now dl])) in let dc := packets_of (run_olog enc enc_reset enc_call enc_done dec dec_init dec_feed ores ores_reset ores_resolve ires ires_reset ires_resolve v_out v_in cfg s1 h2) in exists part : list N, concat (map o_bytes (snd (run enc enc_reset enc_call enc_done dec dec_init dec_feed ores ores_reset ores_resolve ires ires_reset ires_resolve v_out v_in cfg s1 h2))) = concat (map (full cfg enc_full) (fst dc)) ++ part /\ match snd dc with | Some x => exists rest : list N, full cfg enc_full x = part ++ rest | None => part = [] end /\ encodes (run_olog enc enc_reset enc_call enc_done dec dec_init dec_feed ores ores_reset ores_resolve ires ires_reset ires_resolve v_out v_in cfg s1 h2) = fst dc ++ olist (snd dc) /\ Forall (good cfg pkt_good) (fst dc).
Print Assumptions C02_run_wire_connection.
Check C02_run_silent_before_open : forall (enc : Type) (enc_reset : version -> packet -> resolution -> outcome enc) (enc_call : enc -> N -> N -> outcome (bytes * enc)) (enc_done : enc -> bool) (dec : Type) (dec_init : dec) (dec_feed : version -> N -> dec -> bytes -> dec * list packet * outcome unit) (ores : Type) (ores_reset : ores -> N -> ores) (ores_resolve : ores -> option N -> bytes -> outcome (ores * resolution)) (ires : Type) (ires_reset : ires -> ires) (ires_resolve : ires -> option N -> bytes -> outcome (ires * bytes)) (v_out : option settings -> connect_opts -> resolution -> packet -> outcome unit) (v_in : option settings -> packet -> outcome unit) (cfg : config) (HC : comps_ok enc enc_reset enc_call dec dec_init dec_feed ores ores_reset ores_resolve ires ires_reset ires_resolve v_out v_in), ok_cfg cfg -> forall (o : ores) (i : ires) (h : list event), ores_inv HC o -> ires_inv HC i -> Forall ok_event h -> Forall not_open h -> concat (map o_bytes (snd (run enc enc_reset enc_call enc_done dec dec_init dec_feed ores ores_reset ores_resolve ires ires_reset ires_resolve v_out v_in cfg (init enc dec dec_init ores ires o i) h))) = [].
Print Assumptions C02_run_silent_before_open.
Check C02_instance_wire_stream : forall cfg : config, ok_cfg cfg -> forall (k : Outbound.resolver_kind) (h : list event), Forall ok_event h -> let L := i_wlog cfg (i_init cfg k) h in let g := wfold wg0 L in conn_bytes h (snd (i_run cfg (i_init cfg k) h)) [] = concat (map (i_full cfg) (w_done g)) ++ w_part g /\ match w_cur g with | Some x => exists rest : list N, i_full cfg x = w_part g ++ rest | None => w_part g = [] end /\ conn_seated L [] = w_done g ++ olist (w_cur g) /\ olog_of L = i_olog cfg (i_init cfg k) h /\ Forall (fun x : packet * resolution => impl_encode_all (cf_version cfg) (fst x) (snd x) = Ok (i_full cfg x)) (w_done g).
Print Assumptions C02_instance_wire_stream.
Check C02_instance_wire_connection : forall cfg : config, ok_cfg cfg -> forall (k : Outbound.resolver_kind) (h1 : list event) (now dl : N) (h2 : list event), Forall ok_event (h1 ++ EvOpen now dl :: h2) -> Forall not_open h2 -> let s1 := fst (i_run cfg (i_init cfg k) (h1 ++ [EvOpen now dl])) in let L := i_olog cfg s1 h2 in exists part : list N, concat (map o_bytes (snd (i_run cfg s1 h2))) = concat (map (i_full cfg) (fst (packets_of L))) ++ part /\ match snd (packets_of L) with | Some x => exists rest : list N, i_full cfg x = part ++ rest | None => part = [] end /\ encodes L = fst (packets_of L) ++ olist (snd (packets_of L)) /\ Forall (fun x : packet * resolution => impl_encode_all (cf_version cfg) (fst x) (snd x) = Ok (i_full cfg x)) (fst (packets_of L)).
Print Assumptions C02_instance_wire_connection.
Check C02_instance_wire_decodes : forall cfg : config, ok_cfg cfg -> forall (k : Outbound.resolver_kind) (h1 : list event) (now dl : N) (h2 : list event), Forall ok_event (h1 ++ EvOpen now dl :: h2) -> Forall not_open h2 -> let s1 := fst (i_run cfg (i_init cfg k) (h1 ++ [EvOpen now dl])) in let L := i_olog cfg s1 h2 in Forall (pr_valid (cf_version cfg)) (encodes L) -> exists frames part : list N, concat (map o_bytes (snd (i_run cfg s1 h2))) = frames ++ part /\ spec_decode_all (length (fst (packets_of L))) (cf_version cfg) frames = Some (map (pr_canon (cf_version cfg)) (fst (packets_of L))) /\ match snd (packets_of L) with | Some x => exists (bs : bytes) (rest : list N), impl_encode_all (cf_version cfg) (fst x) (snd x) = Ok bs /\ bs = part ++ rest /\ spec_decode (cf_version cfg) bs = Some (pr_canon (cf_version cfg) x, []) | None => part = [] end.
Print Assumptions C02_instance_wire_decodes.
Check C02_instance_silent_before_open : forall cfg : config, ok_cfg cfg -> forall (k : Outbound.resolver_kind) (h : list event), Forall ok_event h -> Forall not_open h -> concat (map o_bytes (snd (i_run cfg (i_init cfg k) h))) = [].
Print Assumptions C02_instance_silent_before_open.
Check C02_wire_example_connection1 : map o_bytes (snd (i_run ww_cfg ww_s1 ww_conn1)) = [ww_connect1; []; []; []; [50; 16; 0; 1; 116]; []; [0; 1; 0; 1; 2; 3; 4; 5]; []; [6; 7; 8; 9; 10]; []; []; [50; 12; 0; 1; 116]; []; []] /\ map (i_full ww_cfg) (fst (packets_of (i_olog ww_cfg ww_s1 ww_conn1))) = [ww_connect1; ww_pub1] /\ option_map (i_full ww_cfg) (snd (packets_of (i_olog ww_cfg ww_s1 ww_conn1))) = Some ww_pub2_id2 /\ concat (map o_bytes (snd (i_run ww_cfg ww_s1 ww_conn1))) = (ww_connect1 ++ ww_pub1) ++ [50; 12; 0; 1; 116] /\ forallb (fun x : packet * resolution => valid V5 (snd x) (fst x)) (encodes (i_olog ww_cfg ww_s1 ww_conn1)) = true /\ spec_decode_all 2 V5 (ww_connect1 ++ ww_pub1) = Some (map (pr_canon V5) (fst (packets_of (i_olog ww_cfg ww_s1 ww_conn1)))).
Print Assumptions C02_wire_example_connection1.
Check C02_wire_example_connection2 : map o_bytes (snd (i_run ww_cfg ww_s2 ww_conn2)) = [ww_connect2; []; []; ww_pub1_dup ++ ww_pub2_id3] /\ map (i_full ww_cfg) (fst (packets_of (i_olog ww_cfg ww_s2 ww_conn2))) = [ww_connect2; ww_pub1_dup; ww_pub2_id3] /\ snd (packets_of (i_olog ww_cfg ww_s2 ww_conn2)) = None /\ forallb (fun x : packet * resolution => valid V5 (snd x) (fst x)) (encodes (i_olog ww_cfg ww_s2 ww_conn2)) = true /\ spec_decode_all 3 V5 (concat (map o_bytes (snd (i_run ww_cfg ww_s2 ww_conn2)))) = Some (map (pr_canon V5) (fst (packets_of (i_olog ww_cfg ww_s2 ww_conn2)))).
Print Assumptions C02_wire_example_connection2.
Check C02_wire_example_run_form : let g := wfold wg0 (i_wlog ww_cfg (x_init ww_cfg) ww_hist) in conn_bytes ww_hist (snd (i_run ww_cfg (x_init ww_cfg) ww_hist)) [] = ww_connect2 ++ ww_pub1_dup ++ ww_pub2_id3 /\ map (i_full ww_cfg) (w_done g) = [ww_connect2; ww_pub1_dup; ww_pub2_id3] /\ w_cur g = None /\ w_part g = [].
Print Assumptions C02_wire_example_run_form.
