From GM Require Import Base.Prelude Base.Outcome Codec.Prim Codec.Packets Codec.Steps Codec.ImplEncode
  Codec.SpecDecodeC2S Codec.ValidC2S CodecProofs.EncPrim CodecProofs.EncFrag CodecProofs.EncAck
  CodecProofs.EncDisc CodecProofs.EncSub CodecProofs.EncPub CodecProofs.EncCon Properties.C02.
Open Scope N_scope.
Check C02_fragmentation : forall steps fill cap out rest,
  fill <= cap -> 4 <= cap -> encode_call steps fill cap = Ok (out, rest) ->
  flatten steps = then_rest out rest /\ fill + len out <= cap.
Check C02_fragmentation_ok : forall steps fill cap out rest r',
  fill <= cap -> 4 <= cap -> encode_call steps fill cap = Ok (out, rest) -> flatten rest = Ok r' ->
  flatten steps = Ok (out ++ r').
Check C02_fragmentation_progress : forall steps fill cap out rest,
  fill + 4 <= cap -> steps <> [] -> encode_call steps fill cap = Ok (out, rest) ->
  out <> [] \/ (length rest < length steps)%nat.
Check C02_fragmentation_any_sequence : forall steps bs, enc_run steps bs -> flatten steps = Ok bs.
Check C02_fragmentation_driver_loop : forall fuel steps bufs last bs,
  encode_seq fuel steps bufs last = Ok (Some bs) -> flatten steps = Ok bs.
Check C02_unfragmented : forall steps bs fill cap,
  flatten steps = Ok bs -> 4 <= cap -> fill + len bs + 4 <= cap -> encode_call steps fill cap = Ok (bs, []).
Check C02_complete_when_all_written : forall steps fill cap out rest,
  encode_call steps fill cap = Ok (out, rest) -> flatten steps = Ok out -> rest = [].
Check C02_Pingreq : forall v r,
  exists bs, impl_encode_all v Pingreq r = Ok bs /\ spec_decode v bs = Some (canon v r Pingreq, []).
Check C02_Puback_V5 : forall a r, valid V5 r (Puback a) = true ->
  exists bs, impl_encode_all V5 (Puback a) r = Ok bs /\ spec_decode V5 bs = Some (canon V5 r (Puback a), []).
Check C02_Pubrec_V5 : forall a r, valid V5 r (Pubrec a) = true ->
  exists bs, impl_encode_all V5 (Pubrec a) r = Ok bs /\ spec_decode V5 bs = Some (canon V5 r (Pubrec a), []).
Check C02_Pubrel_V5 : forall a r, valid V5 r (Pubrel a) = true ->
  exists bs, impl_encode_all V5 (Pubrel a) r = Ok bs /\ spec_decode V5 bs = Some (canon V5 r (Pubrel a), []).
Check C02_Pubcomp_V5 : forall a r, valid V5 r (Pubcomp a) = true ->
  exists bs, impl_encode_all V5 (Pubcomp a) r = Ok bs /\ spec_decode V5 bs = Some (canon V5 r (Pubcomp a), []).
Check C02_Puback_V311 : forall a r, valid V311 r (Puback a) = true ->
  exists bs, impl_encode_all V311 (Puback a) r = Ok bs /\ spec_decode V311 bs = Some (canon V311 r (Puback a), []).
Check C02_Pubrec_V311 : forall a r, valid V311 r (Pubrec a) = true ->
  exists bs, impl_encode_all V311 (Pubrec a) r = Ok bs /\ spec_decode V311 bs = Some (canon V311 r (Pubrec a), []).
Check C02_Pubrel_V311 : forall a r, valid V311 r (Pubrel a) = true ->
  exists bs, impl_encode_all V311 (Pubrel a) r = Ok bs /\ spec_decode V311 bs = Some (canon V311 r (Pubrel a), []).
Check C02_Pubcomp_V311 : forall a r, valid V311 r (Pubcomp a) = true ->
  exists bs, impl_encode_all V311 (Pubcomp a) r = Ok bs /\ spec_decode V311 bs = Some (canon V311 r (Pubcomp a), []).
Check C02_Disconnect_V5 : forall d r, valid V5 r (Disconnect d) = true ->
  exists bs, impl_encode_all V5 (Disconnect d) r = Ok bs /\ spec_decode V5 bs = Some (canon V5 r (Disconnect d), []).
Check C02_Disconnect_V311 : forall d r,
  exists bs, impl_encode_all V311 (Disconnect d) r = Ok bs /\ spec_decode V311 bs = Some (canon V311 r (Disconnect d), []).
Check C02_Auth_V5 : forall a r, valid V5 r (Auth a) = true ->
  exists bs, impl_encode_all V5 (Auth a) r = Ok bs /\ spec_decode V5 bs = Some (canon V5 r (Auth a), []).
Check C02_Auth_V311_refused : forall a r, impl_encode_all V311 (Auth a) r = Err EEncodingFailure.
Check C02_Unsubscribe_V5 : forall u r, valid V5 r (Unsubscribe u) = true ->
  exists bs, impl_encode_all V5 (Unsubscribe u) r = Ok bs /\ spec_decode V5 bs = Some (canon V5 r (Unsubscribe u), []).
Check C02_Unsubscribe_V311 : forall u r, valid V311 r (Unsubscribe u) = true ->
  exists bs, impl_encode_all V311 (Unsubscribe u) r = Ok bs /\ spec_decode V311 bs = Some (canon V311 r (Unsubscribe u), []).
Check C02_Subscribe_V5 : forall s r, valid V5 r (Subscribe s) = true ->
  exists bs, impl_encode_all V5 (Subscribe s) r = Ok bs /\ spec_decode V5 bs = Some (canon V5 r (Subscribe s), []).
Check C02_Subscribe_V311 : forall s r, valid V311 r (Subscribe s) = true ->
  exists bs, impl_encode_all V311 (Subscribe s) r = Ok bs /\ spec_decode V311 bs = Some (canon V311 r (Subscribe s), []).
Check C02_Publish_V5 : forall p r, valid V5 r (Publish p) = true ->
  exists bs, impl_encode_all V5 (Publish p) r = Ok bs /\ spec_decode V5 bs = Some (canon V5 r (Publish p), []).
Check C02_Publish_V311 : forall p r, valid V311 r (Publish p) = true ->
  exists bs, impl_encode_all V311 (Publish p) r = Ok bs /\ spec_decode V311 bs = Some (canon V311 r (Publish p), []).
Check C02_Connect_V5 : forall c r, valid V5 r (Connect c) = true ->
  exists bs, impl_encode_all V5 (Connect c) r = Ok bs /\ spec_decode V5 bs = Some (canon V5 r (Connect c), []).
Check C02_Connect_V311 : forall c r, valid V311 r (Connect c) = true ->
  exists bs, impl_encode_all V311 (Connect c) r = Ok bs /\ spec_decode V311 bs = Some (canon V311 r (Connect c), []).
Print Assumptions C02_fragmentation.
Print Assumptions C02_fragmentation_ok.
Print Assumptions C02_fragmentation_progress.
Print Assumptions C02_fragmentation_any_sequence.
Print Assumptions C02_fragmentation_driver_loop.
Print Assumptions C02_unfragmented.
Print Assumptions C02_complete_when_all_written.
Print Assumptions C02_Pingreq.
Print Assumptions C02_Puback_V5.
Print Assumptions C02_Pubrec_V5.
Print Assumptions C02_Pubrel_V5.
Print Assumptions C02_Pubcomp_V5.
Print Assumptions C02_Puback_V311.
Print Assumptions C02_Pubrec_V311.
Print Assumptions C02_Pubrel_V311.
Print Assumptions C02_Pubcomp_V311.
Print Assumptions C02_Disconnect_V5.
Print Assumptions C02_Disconnect_V311.
Print Assumptions C02_Auth_V5.
Print Assumptions C02_Auth_V311_refused.
Print Assumptions C02_Unsubscribe_V5.
Print Assumptions C02_Unsubscribe_V311.
Print Assumptions C02_Subscribe_V5.
Print Assumptions C02_Subscribe_V311.
Print Assumptions C02_Publish_V5.
Print Assumptions C02_Publish_V311.
Print Assumptions C02_Connect_V5.
Print Assumptions C02_Connect_V311.
