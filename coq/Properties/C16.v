(* C16 — nothing breaking the server's announced limits or the static packet rules is sent, and
   nothing conforming is rejected.  Only statements; proofs live in ValidateProofs/*.v.

   p      the packet as submitted (packet id unset: the field is pub(crate));
   bind_pid p id   the packet the engine validates at send time (packet id bound for QoS>0 publishes,
          subscribes and unsubscribes);
   violations st co r q   the rules of MQTT 5 (Validate/Spec.v) that q violates given the limits st
          announced in CONNACK, the CONNECT options co and the alias resolution r; conforms = none.
   known_holes = [RSharedFilterMalformed; RWillTopic; RSubscriptionIdNotAvailable]:
          rules the code does not enforce (known findings D8, D17, D4-dynamic), each with a witness.
          (RTopicNul left the list with the repair of D23, /repo a2fa1c5: U+0000 in a topic name / filter of
          PUBLISH / SUBSCRIBE / UNSUBSCRIBE is rejected; in a will topic it counts as RWillTopic, D17.
          RStringNul, the same rule [MQTT-1.5.4-2] for every other UTF-8 string field (user property names and values,
          reason string, content type, server reference, authentication method ...), was added to the specification
          with the repair of D28, /repo cbc2d52, and is enforced: it is not a hole.) *)
From GM Require Import Base.Prelude Base.Outcome Codec.Packets Codec.Prim Codec.Settings.
From GM Require Import Validate.Topic Validate.Rules Validate.Spec.
From GM Require Import ValidateProofs.TopicP ValidateProofs.RulesP ValidateProofs.WitnessP.
Open Scope N_scope.

(* Soundness: whatever passes both validations violates no rule other than the known holes.
   Hypotheses: QoS is one of 0/1/2 (Rust enum); the packet is smaller than 4 GiB (u32 length). *)
Theorem C16_sound : forall st co r p id,
  qos_repr p -> spec_remaining (bind_pid p id) r < 4294967296 ->
  validate_outbound p = Ok tt ->
  validate_outbound_internal (Some st) co r (bind_pid p id) = Ok tt ->
  forall rl, In rl (violations st co r (bind_pid p id)) -> In rl known_holes.
Proof. exact sound_rules. Qed.

(* ... in the `not Known -> conforms` shape *)
Theorem C16_sound_conforms : forall st co r p id,
  qos_repr p -> spec_remaining (bind_pid p id) r < 4294967296 ->
  existsb (fun rl => existsb (rule_eqb rl) known_holes) (violations st co r (bind_pid p id)) = false ->
  validate_outbound p = Ok tt ->
  validate_outbound_internal (Some st) co r (bind_pid p id) = Ok tt ->
  conforms st co r (bind_pid p id) = true.
Proof. exact sound_conforms. Qed.

(* every hole is real: accepted by both validations, rule violated *)
Theorem C16_sound_refuted_shared_filter_malformed : accepted_violating st_all w_share_malformed 1 RSharedFilterMalformed.
Proof. exact refuted_shared_filter_malformed. Qed.
Theorem C16_sound_refuted_will_topic : accepted_violating st_all w_will_topic 1 RWillTopic.
Proof. exact refuted_will_topic. Qed.
Theorem C16_sound_refuted_subscription_id_not_available :
  exists st, accepted_violating st w_subid_unavailable 1 RSubscriptionIdNotAvailable.
Proof. eexists. exact refuted_subscription_id_not_available. Qed.

(* D28 repaired (/repo cbc2d52): U+0000 in a reason string (the DISCONNECT found by the C02 client-path monitor), a
   content type, a user property name or value is rejected at submission and violates RStringNul; a zero byte in
   binary correlation data / payload is accepted and conforms *)
Theorem C16_string_nul_rejected :
  validate_outbound w_reason_nul = Err EPacketValidationFailure /\
  In RStringNul (violations st_all co_default no_resolution w_reason_nul) /\
  validate_outbound (pub_with (Some [116; 0]) None None) = Err EPacketValidationFailure /\
  validate_outbound (pub_with None None (Some [ {| up_name := [110; 0]; up_value := [118] |} ])) = Err EPacketValidationFailure /\
  validate_outbound (pub_with None None (Some [ {| up_name := [110]; up_value := [0; 118] |} ])) = Err EPacketValidationFailure /\
  validate_outbound (pub_with None (Some [0; 1]) None) = Ok tt /\
  conforms st_all co_default no_resolution (pub_with None (Some [0; 1]) None) = true.
Proof. exact fixed_string_nul. Qed.

(* Completeness: a conforming submitted packet passes both validations, except the known over-strict
   case (UNSUBSCRIBE with a wildcard / shared filter when the server lacks the capability). *)
Theorem C16_complete : forall st co r p id,
  submitted p -> unsub_overstrict st p = false ->
  violations st co r (bind_pid p id) = [] ->
  validate_outbound p = Ok tt /\ validate_outbound_internal (Some st) co r (bind_pid p id) = Ok tt.
Proof. exact complete_rules. Qed.

Theorem C16_complete_refuted_unsubscribe :
  submitted w_unsub_wildcard /\
  conforms st_nocaps co_default no_resolution (bind_pid w_unsub_wildcard 1) = true /\
  validate_outbound w_unsub_wildcard = Ok tt /\
  validate_outbound_internal (Some st_nocaps) co_default no_resolution (bind_pid w_unsub_wildcard 1) = Err EPacketValidationFailure /\
  unsub_overstrict st_nocaps w_unsub_wildcard = true.
Proof. exact refuted_complete_unsubscribe. Qed.

(* The grammar computed by compute_topic_filter_properties, for ALL byte strings: validity is the
   4.7 filter grammar without null character ([MQTT-4.7.3-2]); for valid filters the shared flag is the 4.8.2 form and the wildcard flag is
   "contains + or #". *)
Theorem C16_filter_grammar : forall f,
  let p := topic_filter_properties f in
  tf_is_valid p = spec_plain_filter f && no_nul f /\
  (tf_is_valid p = true ->
     tf_is_shared p = spec_shared_filter f /\ tf_has_wildcard p = filter_has_wildcard f).
Proof. exact filter_grammar. Qed.

(* the capability-dependent verdict equals the specification's on every filter that is not a malformed
   "$share/..." form (known finding D8) *)
Theorem C16_filter_verdict : forall f sh wc nl,
  malformed_share f = false ->
  is_valid_topic_filter_internal f (Some (sh, wc)) nl = Ok (spec_filter_verdict wc sh nl f).
Proof. exact filter_verdict_spec. Qed.

Theorem C16_filter_grammar_refuted_share :
  is_valid_topic_filter_internal (STR_SHARE ++ [47; 43; 47; 116]) (Some (true, true)) None = Ok true /\
  spec_filter (STR_SHARE ++ [47; 43; 47; 116]) = false.
Proof. exact refuted_filter_grammar_share. Qed.

Theorem C16_topic_grammar : forall t, is_valid_topic t = spec_topic t && no_nul t.
Proof. exact topic_grammar. Qed.

(* non-vacuity *)
Example C16_example :
  let p := Publish {| pub_pid := 0; pub_topic := [97; 47; 98]; pub_qos := 1; pub_dup := false; pub_retain := true;
                      pub_payload := Some [1; 2; 3]; pub_pfi := None; pub_mei := None; pub_alias := Some 1;
                      pub_response_topic := None; pub_correlation := None; pub_subids := None;
                      pub_content_type := None; pub_up := Some [ {| up_name := [110]; up_value := [118] |} ] |} in
  validate_outbound p = Ok tt /\
  validate_outbound_internal (Some st_all) co_default {| r_skip_topic := false; r_alias := Some 1 |} (bind_pid p 7) = Ok tt /\
  conforms st_all co_default {| r_skip_topic := false; r_alias := Some 1 |} (bind_pid p 7) = true.
Proof. exact accepted_example. Qed.

(* ---------- bridge to the wire specification (ValidateProofs/Bridge*.v): what the two validators accept is well-formed on the wire. A PUBLISH / SUBSCRIBE / UNSUBSCRIBE / DISCONNECT value of the Rust packet type whose erased form (packet id 0, DUP 0) passed validate_packet_outbound and which passed validate_packet_outbound_internal with its alias resolution satisfies Codec/ValidC2S.valid (hence encodes to bytes the independent specification decoder reads back as the canonical packet: C02), given the facts the engine and the alias resolver contribute (packet id <= 65535, DUP only on QoS >= 1, alias 1..65535, topic dropped only with an alias) and a length below 4 GiB; the send-time validator ALONE does not give this (it never looks at the topic, the subscription list or the subscription identifier lower bound): witnesses ---------- *)
From GM Require Import Codec.SpecDecodeC2S Codec.ValidC2S ValidateProofs.SizeP ValidateProofs.BridgeDefs ValidateProofs.BridgePackets ValidateProofs.BridgeWitness.
Theorem C16_accepted_is_wire_valid : forall (v : version) (st : settings) (co : connect_opts) (r : resolution) (p : packet), user_kind p = true -> typed p = true -> validate_outbound (erase p) = Ok tt -> validate_outbound_internal (Some st) co r p = Ok tt -> small p (res_of p r) -> engine_ok p = true -> res_valid r = true -> (v = V311 -> r_skip_topic r = false) -> valid v r p = true.
Proof. exact @bridge_user. Qed.

Theorem C16_send_time_check_alone_insufficient : forallb not_wire_valid [(no_resolution, Publish (bw_pub 0 [] 0 false)); (no_resolution, Publish (bw_pub 0 [116; 0] 0 false)); (no_resolution, Publish {| pub_pid := 0; pub_topic := [116]; pub_qos := 0; pub_dup := false; pub_retain := false; pub_payload := None; pub_pfi := None; pub_mei := None; pub_alias := None; pub_response_topic := None; pub_correlation := Some (repeat 1 (N.to_nat 65536)); pub_subids := None; pub_content_type := None; pub_up := None |}); (no_resolution, Publish {| pub_pid := 0; pub_topic := [116]; pub_qos := 0; pub_dup := false; pub_retain := false; pub_payload := None; pub_pfi := None; pub_mei := None; pub_alias := None; pub_response_topic := None; pub_correlation := None; pub_subids := Some [1]; pub_content_type := None; pub_up := None |}); (no_resolution, Subscribe (bw_sub 8 [] None)); (no_resolution, Subscribe (bw_sub 8 [bw_filter [97]] (Some 0))); (no_resolution, Unsubscribe (bw_unsub 9 [])); (no_resolution, Disconnect (bw_disc (Some [0])))] = true.
Proof. exact @send_time_check_alone_insufficient. Qed.

Theorem C16_bridge_premises_satisfiable : forallb (fun x : resolution * packet => bw_S (snd x) && bw_D (fst x) (snd x) && bw_rest (fst x) (snd x) && valid V5 (fst x) (snd x)) [(no_resolution, Publish (bw_pub 0 [116] 0 false)); (bw_alias, Publish (bw_pub 7 [116] 1 true)); (no_resolution, Subscribe (bw_sub 8 [bw_filter [97; 47; 35]] (Some 5))); (no_resolution, Unsubscribe (bw_unsub 9 [[97; 47; 43]])); (no_resolution, Disconnect (bw_disc (Some [98; 121; 101])))] = true.
Proof. exact @bridge_premises_satisfiable. Qed.

