From GM Require Import Base.Prelude Base.Outcome Client.Backoff Client.Impl Client.Driver Client.WsCursor Client.ResultSlot
  ClientProofs.DriverBytesP ClientProofs.WsP ClientProofs.ResultSlotP Properties.C13.
Open Scope N_scope.
Check C13_bytes_out :
  forall E U D e_tag e_user e_disc e_reset e_opened e_closed e_data e_wc e_service e_nst thr e0 bc timeout h,
  let s := drun E U D e_tag e_user e_disc e_reset e_opened e_closed e_data e_wc e_service e_nst thr (dinit E e0 bc timeout) h in
  d_wire s ++ skipn (N.to_nat (d_cursor s)) (d_buf s) = concat (d_outs s) /\
  Forall (fun w => exists k, (k <= length (d_outs s))%nat /\ w = concat (firstn k (d_outs s))) (d_wcs s) /\
  Forall finished_ok (d_conns s).
Check C13_bytes_in :
  forall E U D e_tag e_user e_disc e_reset e_opened e_closed e_data e_wc e_service e_nst thr (s : dstate E) now b data,
  d_flush s = false ->
  exists s1 : dstate E,
    d_fed s1 = d_fed s ++ [b :: data] /\
    d_c s1 = fst (fst (handle_incoming_bytes E e_data (d_c s) now (b :: data))) /\
    d_wire s1 = d_wire s /\ d_buf s1 = d_buf s /\
    step_connected E U D e_tag e_user e_disc e_reset e_opened e_closed e_data e_wc e_service e_nst thr s now (DRead (b :: data)) =
    match snd (handle_incoming_bytes E e_data (d_c s) now (b :: data)) with
    | Ok _ => after_event E e_opened e_closed thr s1 now
    | Err k => fail_with E e_opened e_closed thr s1 now k
    | Panic _ => set_status E s1 Panicked
    end.
Check C13_ws_reassembly : forall size sock rounds,
  0 < size -> no_err sock = true -> (length (stream_of sock) + length sock <= rounds)%nat ->
  read_all rounds w_init sock size = Some (stream_of sock).
Check C13_ws_read_bounded : forall size w sock,
  0 < size -> w_final w = false -> no_err sock = true ->
  let '(w', sock', data, res) := ws_read w sock size in
  len data <= size /\ res = (if 0 <? len data then ROk (len data) else RErrWouldBlock) /\
  w_final w' = false /\ no_err sock' = true.
Check C13_ws_write_refuted :
  let '(o, done) := drive_batch out_init [9; 8; 7] [TBlock; TOk] in
  done = true /\ o_wire o = [[9; 8; 7]; [9; 8; 7]].
Check C13_ws_write : forall o batch results,
  results <> [] -> ~ known_d15b results ->
  drive_batch o batch results = (mkOut [] (o_wire o ++ o_queue o ++ [batch]), true).
Check C13_result_exactly_once : forall evs id,
  cnt id (submitted evs) = 1%nat ->
  accounted id (rrun false evs) = 1%nat /\ r_lost (rrun false evs) = [] /\
  (r_alive (rrun false evs) = false -> results_of id (rrun false evs) = 1%nat).
Check C13_result_exactly_once_threaded : forall evs id,
  ~ known_d16 evs -> cnt id (submitted evs) = 1%nat ->
  accounted id (rrun true evs) = 1%nat /\ r_lost (rrun true evs) = [].
Check C13_result_exactly_once_refuted :
  (let s := rrun true [RSubmit 1; RSubmit 2; RTake; RShutdown] in
   results_of 1 s = 1%nat /\ results_of 2 s = 0%nat /\ r_lost s = [2]) /\
  (let s := rrun true [RSubmit 1; RTake; RDie] in results_of 1 s = 0%nat /\ r_lost s = [1]).
Print Assumptions C13_bytes_out.
Print Assumptions C13_bytes_in.
Print Assumptions C13_ws_reassembly.
Print Assumptions C13_ws_read_bounded.
Print Assumptions C13_ws_write_refuted.
Print Assumptions C13_ws_write.
Print Assumptions C13_result_exactly_once.
Print Assumptions C13_result_exactly_once_threaded.
Print Assumptions C13_result_exactly_once_refuted.
