(* C06 - packet identifiers: the allocator, for every cursor position and every set of reserved ids (proofs in EngineProofs/PacketIds.v); the engine-wide invariants (uniqueness among incomplete operations, no leak) are added by the WF development *)
From GM Require Import Base.Prelude Base.Outcome Engine.Model EngineProofs.PacketIds.
From RecordUpdate Require Import RecordSet.
Open Scope N_scope.

Theorem C06_alloc_ok : forall (enc dec ores ires : Type) (s s' : state enc dec ores ires) (id c : N), pids_ok s -> acquire_free_pid enc dec ores ires s id = Ok (s', c) -> 1 <= c <= 65535 /\ ~ In c (map fst (s_alloc s)) /\ (forall x : N, In x (map fst (s_alloc s')) <-> x = c \/ In x (map fst (s_alloc s))) /\ lookup c (s_alloc s') = Some id /\ pids_ok s'.
Proof. exact @acquire_ok. Qed.

Theorem C06_alloc_exhausted_only_when_full : forall (enc dec ores ires : Type) (s : state enc dec ores ires) (id : N) (k : errkind), pids_ok s -> acquire_free_pid enc dec ores ires s id = Err k -> forall x : N, 1 <= x <= 65535 -> In x (map fst (s_alloc s)).
Proof. exact @acquire_err. Qed.

Theorem C06_alloc_never_panics : forall (enc dec ores ires : Type) (s : state enc dec ores ires) (id site : N), acquire_free_pid enc dec ores ires s id <> Panic site.
Proof. exact @acquire_never_panics. Qed.

Theorem C06_alloc_rotating : forall (enc dec ores ires : Type) (s s' : state enc dec ores ires) (id c : N), pids_ok s -> acquire_free_pid enc dec ores ires s id = Ok (s', c) -> s_next_pid s <= c /\ (forall x : N, s_next_pid s <= x < c -> In x (map fst (s_alloc s))) \/ c < s_next_pid s /\ (forall x : N, s_next_pid s <= x <= 65535 -> In x (map fst (s_alloc s))) /\ (forall x : N, 1 <= x < c -> In x (map fst (s_alloc s))).
Proof. exact @acquire_rotating. Qed.

