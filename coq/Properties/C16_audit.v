From GM Require Import Base.Prelude Base.Outcome Codec.Packets Codec.Prim Codec.Settings.
From GM Require Import Validate.Topic Validate.Rules Validate.Spec.
From GM Require Import ValidateProofs.TopicP ValidateProofs.RulesP ValidateProofs.WitnessP Properties.C16.
Open Scope N_scope.
Check C16_sound : forall st co r p id,
  qos_repr p -> spec_remaining (bind_pid p id) r < 4294967296 ->
  validate_outbound p = Ok tt ->
  validate_outbound_internal (Some st) co r (bind_pid p id) = Ok tt ->
  forall rl, In rl (violations st co r (bind_pid p id)) -> In rl known_holes.
Check C16_sound_conforms : forall st co r p id,
  qos_repr p -> spec_remaining (bind_pid p id) r < 4294967296 ->
  existsb (fun rl => existsb (rule_eqb rl) known_holes) (violations st co r (bind_pid p id)) = false ->
  validate_outbound p = Ok tt ->
  validate_outbound_internal (Some st) co r (bind_pid p id) = Ok tt ->
  conforms st co r (bind_pid p id) = true.
Check (eq_refl : known_holes = [RSharedFilterMalformed; RWillTopic; RSubscriptionIdNotAvailable]).
Check C16_sound_refuted_shared_filter_malformed : accepted_violating st_all w_share_malformed 1 RSharedFilterMalformed.
Check C16_sound_refuted_will_topic : accepted_violating st_all w_will_topic 1 RWillTopic.
Check C16_sound_refuted_subscription_id_not_available :
  exists st, accepted_violating st w_subid_unavailable 1 RSubscriptionIdNotAvailable.
Check C16_string_nul_rejected :
  validate_outbound w_reason_nul = Err EPacketValidationFailure /\
  In RStringNul (violations st_all co_default no_resolution w_reason_nul) /\
  validate_outbound (pub_with (Some [116; 0]) None None) = Err EPacketValidationFailure /\
  validate_outbound (pub_with None None (Some [ {| up_name := [110; 0]; up_value := [118] |} ])) = Err EPacketValidationFailure /\
  validate_outbound (pub_with None None (Some [ {| up_name := [110]; up_value := [0; 118] |} ])) = Err EPacketValidationFailure /\
  validate_outbound (pub_with None (Some [0; 1]) None) = Ok tt /\
  conforms st_all co_default no_resolution (pub_with None (Some [0; 1]) None) = true.
Check C16_complete : forall st co r p id,
  submitted p -> unsub_overstrict st p = false ->
  violations st co r (bind_pid p id) = [] ->
  validate_outbound p = Ok tt /\ validate_outbound_internal (Some st) co r (bind_pid p id) = Ok tt.
Check C16_complete_refuted_unsubscribe :
  submitted w_unsub_wildcard /\
  conforms st_nocaps co_default no_resolution (bind_pid w_unsub_wildcard 1) = true /\
  validate_outbound w_unsub_wildcard = Ok tt /\
  validate_outbound_internal (Some st_nocaps) co_default no_resolution (bind_pid w_unsub_wildcard 1) = Err EPacketValidationFailure /\
  unsub_overstrict st_nocaps w_unsub_wildcard = true.
Check C16_filter_grammar : forall f,
  let p := topic_filter_properties f in
  tf_is_valid p = spec_plain_filter f && no_nul f /\
  (tf_is_valid p = true ->
     tf_is_shared p = spec_shared_filter f /\ tf_has_wildcard p = filter_has_wildcard f).
Check C16_filter_verdict : forall f sh wc nl,
  malformed_share f = false ->
  is_valid_topic_filter_internal f (Some (sh, wc)) nl = Ok (spec_filter_verdict wc sh nl f).
Check C16_filter_grammar_refuted_share :
  is_valid_topic_filter_internal (STR_SHARE ++ [47; 43; 47; 116]) (Some (true, true)) None = Ok true /\
  spec_filter (STR_SHARE ++ [47; 43; 47; 116]) = false.
Check C16_topic_grammar : forall t, is_valid_topic t = spec_topic t && no_nul t.
Print Assumptions C16_sound.
Print Assumptions C16_sound_conforms.
Print Assumptions C16_sound_refuted_shared_filter_malformed.
Print Assumptions C16_sound_refuted_will_topic.
Print Assumptions C16_sound_refuted_subscription_id_not_available.
Print Assumptions C16_string_nul_rejected.
Print Assumptions C16_complete.
Print Assumptions C16_complete_refuted_unsubscribe.
Print Assumptions C16_filter_grammar.
Print Assumptions C16_filter_verdict.
Print Assumptions C16_filter_grammar_refuted_share.
Print Assumptions C16_topic_grammar.
From GM Require Import Codec.SpecDecodeC2S Codec.ValidC2S ValidateProofs.SizeP ValidateProofs.BridgeDefs ValidateProofs.BridgePackets ValidateProofs.BridgeWitness.
Check C16_accepted_is_wire_valid : forall (v : version) (st : settings) (co : connect_opts) (r : resolution) (p : packet), user_kind p = true -> typed p = true -> validate_outbound (erase p) = Ok tt -> validate_outbound_internal (Some st) co r p = Ok tt -> small p (res_of p r) -> engine_ok p = true -> res_valid r = true -> (v = V311 -> r_skip_topic r = false) -> valid v r p = true.
Print Assumptions C16_accepted_is_wire_valid.
Check C16_send_time_check_alone_insufficient : forallb not_wire_valid [(no_resolution, Publish (bw_pub 0 [] 0 false)); (no_resolution, Publish (bw_pub 0 [116; 0] 0 false)); (no_resolution, Publish {| pub_pid := 0; pub_topic := [116]; pub_qos := 0; pub_dup := false; pub_retain := false; pub_payload := None; pub_pfi := None; pub_mei := None; pub_alias := None; pub_response_topic := None; pub_correlation := Some (repeat 1 (N.to_nat 65536)); pub_subids := None; pub_content_type := None; pub_up := None |}); (no_resolution, Publish {| pub_pid := 0; pub_topic := [116]; pub_qos := 0; pub_dup := false; pub_retain := false; pub_payload := None; pub_pfi := None; pub_mei := None; pub_alias := None; pub_response_topic := None; pub_correlation := None; pub_subids := Some [1]; pub_content_type := None; pub_up := None |}); (no_resolution, Subscribe (bw_sub 8 [] None)); (no_resolution, Subscribe (bw_sub 8 [bw_filter [97]] (Some 0))); (no_resolution, Unsubscribe (bw_unsub 9 [])); (no_resolution, Disconnect (bw_disc (Some [0])))] = true.
Print Assumptions C16_send_time_check_alone_insufficient.
Check C16_bridge_premises_satisfiable : forallb (fun x : resolution * packet => bw_S (snd x) && bw_D (fst x) (snd x) && bw_rest (fst x) (snd x) && valid V5 (fst x) (snd x)) [(no_resolution, Publish (bw_pub 0 [116] 0 false)); (bw_alias, Publish (bw_pub 7 [116] 1 true)); (no_resolution, Subscribe (bw_sub 8 [bw_filter [97; 47; 35]] (Some 5))); (no_resolution, Unsubscribe (bw_unsub 9 [[97; 47; 43]])); (no_resolution, Disconnect (bw_disc (Some [98; 121; 101])))] = true.
Print Assumptions C16_bridge_premises_satisfiable.
