(* C01 — every accepted operation resolves at most once, with its own acknowledgement; reset
   resolves everything.  Statements about the engine model (Engine/Model.v) for ANY codec,
   validators and alias resolvers (Section variables), over ALL event lists from the initial state.
   Proofs: EngineProofs/Ids{Frame,Helpers,Run,Single,Main}.v. *)
From GM Require Import Base.Prelude Base.Outcome Codec.Packets Codec.Settings Alias.Outbound Engine.Model Engine.Instance.
From GM Require Import EngineProofs.AssocLemmas EngineProofs.IdsFrame EngineProofs.IdsSingle EngineProofs.IdsMain EngineProofs.IdsWitness.
Open Scope N_scope.

Section Engine.
  Variable enc : Type.
  Variable enc_reset : version -> packet -> resolution -> outcome enc.
  Variable enc_call : enc -> N -> N -> outcome (bytes * enc).
  Variable enc_done : enc -> bool.
  Variable dec : Type.
  Variable dec_init : dec.
  Variable dec_feed : version -> N -> dec -> bytes -> dec * list packet * outcome unit.
  Variable ores : Type.
  Variable ores_reset : ores -> N -> ores.
  Variable ores_resolve : ores -> option N -> bytes -> outcome (ores * resolution).
  Variable ires : Type.
  Variable ires_reset : ires -> ires.
  Variable ires_resolve : ires -> option N -> bytes -> outcome (ires * bytes).
  Variable v_out : option settings -> connect_opts -> resolution -> packet -> outcome unit.
  Variable v_in : option settings -> packet -> outcome unit.
  Variable cfg : config.
  Notation state := (Model.state enc dec ores ires).
  Notation init := (Model.init enc dec dec_init ores ires).
  Notation step := (Model.step enc enc_reset enc_call enc_done dec dec_init dec_feed ores ores_reset ores_resolve ires ires_reset ires_resolve v_out v_in cfg).
  Notation run := (Model.run enc enc_reset enc_call enc_done dec dec_init dec_feed ores ores_reset ores_resolve ires ires_reset ires_resolve v_out v_in cfg).
  Notation ids_inv := (IdsMain.ids_inv enc dec ores ires).
  Notation user_inv := (IdsMain.user_inv enc dec ores ires).
  Notation succeed_op := (Model.succeed_op enc dec ores ires cfg).
  Notation succeed_all := (Model.succeed_all enc dec ores ires cfg).
  Notation handle_suback := (Model.handle_suback enc dec ores ires cfg).
  Notation handle_unsuback := (Model.handle_unsuback enc dec ores ires cfg).
  Notation handle_puback := (Model.handle_puback enc dec ores ires cfg).
  Notation handle_pubrec := (Model.handle_pubrec enc dec ores ires cfg).
  Notation handle_pubcomp := (Model.handle_pubcomp enc dec ores ires cfg).

  (* the id invariant: operation ids are strictly increasing and below the id counter; it is
     inductive for [step] without any assumption about the event or the components *)
  Theorem C01_ids_inv_init : forall o i, ids_inv (init o i).
  Proof. exact (ids_inv_init enc dec dec_init ores ires). Qed.

  Theorem C01_ids_inv_step : forall s e, ids_inv s -> ids_inv (fst (step s e)).
  Proof. exact (ids_inv_step enc enc_reset enc_call enc_done dec dec_init dec_feed ores ores_reset ores_resolve ires ires_reset ires_resolve v_out v_in cfg). Qed.

  (* no operation id is ever completed twice over a whole run *)
  Theorem C01_at_most_once : forall o i h, NoDup (map fst (concat (map o_done (snd (run (init o i) h))))).
  Proof. exact (at_most_once enc enc_reset enc_call enc_done dec dec_init dec_feed ores ores_reset ores_resolve ires ires_reset ires_resolve v_out v_in cfg). Qed.

  (* every completion is for an id handed out by an earlier (or the same) EvUser step of the same
     run, for a non-DISCONNECT packet p, and the completion value fits p: a publish gets
     CompOk None / Puback / Pubrec / Pubcomp, a subscribe a Suback with one code per subscription,
     an unsubscribe an Unsuback with one code per filter — or an error *)
  Theorem C01_done_was_submitted : forall o i h n out id c,
    nth_error (snd (run (init o i) h)) n = Some out -> In (id, c) (o_done out) ->
    exists m now p t out', (m <= n)%nat /\ nth_error h m = Some (EvUser now p t) /\
      nth_error (snd (run (init o i) h)) m = Some out' /\ o_id out' = Some id /\
      is_disconnect p = false /\ comp_fits any_packet (norm p) c.
  Proof. exact (done_was_submitted enc enc_reset enc_call enc_done dec dec_init dec_feed ores ores_reset ores_resolve ires ires_reset ires_resolve v_out v_in cfg). Qed.

  (* reset, in every reachable state: no panic, nothing stays tracked, every user operation gets
     exactly one completion, the ClientClosed error, and nothing else is completed *)
  Theorem C01_reset : forall o i h now,
    let s := fst (run (init o i) h) in
    let s' := fst (step s (EvReset now)) in let out := snd (step s (EvReset now)) in
    o_res out = Ok tt /\
    (s_ops s' = [] /\ s_uq s' = [] /\ s_rq s' = [] /\ s_hq s' = [] /\ s_cur s' = None /\
     s_ppub s' = [] /\ s_pnon s' = [] /\ s_pwco s' = [] /\ s_alloc s' = [] /\ s_tmo s' = [] /\ s_q2in s' = []) /\
    NoDup (map fst (o_done out)) /\
    (forall id op0, lookup id (s_ops s) = Some op0 -> op_user op0 = true -> In (id, CompErr EClientClosed) (o_done out)) /\
    (forall id c, In (id, c) (o_done out) ->
       c = CompErr EClientClosed /\ exists op0, lookup id (s_ops s) = Some op0 /\ op_user op0 = true).
  Proof. exact (reset_reachable enc enc_reset enc_call enc_done dec dec_init dec_feed ores ores_reset ores_resolve ires ires_reset ires_resolve v_out v_in cfg). Qed.

  (* the same for ANY state with distinct operation ids (single step) *)
  Theorem C01_reset_any : forall s now, ids_inv s ->
    let s' := fst (step s (EvReset now)) in let o := snd (step s (EvReset now)) in
    o_res o = Ok tt /\
    s_ops s' = [] /\ s_uq s' = [] /\ s_rq s' = [] /\ s_hq s' = [] /\ s_cur s' = None /\
    s_ppub s' = [] /\ s_pnon s' = [] /\ s_pwco s' = [] /\ s_alloc s' = [] /\ s_tmo s' = [] /\
    s_q2in s' = [] /\ s_pwc s' = false /\ s_settings s' = None /\
    s_next_ping s' = None /\ s_ping_to s' = None /\ s_connack_to s' = None /\ s_next_id s' = s_next_id s.
  Proof. exact (reset_clears enc enc_reset enc_call enc_done dec dec_init dec_feed ores ores_reset ores_resolve ires ires_reset ires_resolve v_out v_in cfg). Qed.

  (* own acknowledgement, single step: complete_operation_as_success completes only the operation
     it is called for, with the value chosen from that operation's own packet *)
  Theorem C01_own_ack_kind : forall s id resp id' c,
    In (id', c) (r_done (succeed_op s id resp)) ->
    id' = id /\ exists o, lookup id (s_ops s) = Some o /\ op_user o = true /\ success_value o resp = Ok c /\
      match op_packet o with
      | Publish _ => c = CompOk resp /\ (resp = None \/ (exists a, resp = Some (Puback a)) \/ (exists a, resp = Some (Pubrec a)) \/ (exists a, resp = Some (Pubcomp a)))
      | Subscribe _ => c = CompOk resp /\ exists a, resp = Some (Suback a)
      | Unsubscribe _ => c = CompOk resp /\ exists a, resp = Some (Unsuback a)
      | _ => False
      end.
  Proof.
    intros s id resp id' c H. destruct (succeed_op_value enc dec ores ires cfg s id resp id' c H) as (-> & o & Hl & Hu & Hv).
    split; [reflexivity|]. exists o. repeat split; try assumption. exact (success_value_kind o resp c Hv).
  Qed.

  (* a SUBACK completes only the subscribe registered under its packet id, and only when it
     carries one reason code per subscription *)
  Theorem C01_suback_own : forall s a id c, In (id, c) (h_done (handle_suback s a)) ->
    lookup (sa_pid a) (s_pnon s) = Some id /\ c = CompOk (Some (Suback a)) /\
    exists o x, lookup id (s_ops s) = Some o /\ op_user o = true /\ op_packet o = Subscribe x /\ len (sa_codes a) = len (s_subs x).
  Proof. exact (handle_suback_own enc dec ores ires cfg). Qed.

  Theorem C01_unsuback_own : forall s a id c, In (id, c) (h_done (handle_unsuback s a)) ->
    lookup (ua_pid a) (s_pnon s) = Some id /\
    exists o x a', lookup id (s_ops s) = Some o /\ op_user o = true /\ op_packet o = Unsubscribe x /\
      c = CompOk (Some (Unsuback a')) /\ len (ua_codes a') = len (u_filters x) /\ ua_pid a' = ua_pid a /\
      (cf_version cfg = V5 -> a' = a).
  Proof. exact (handle_unsuback_own enc dec ores ires cfg). Qed.

  Theorem C01_puback_own : forall s a id c, In (id, c) (h_done (handle_puback s a)) ->
    lookup (ack_pid a) (s_ppub s) = Some id /\ c = CompOk (Some (Puback a)) /\
    exists o pb, lookup id (s_ops s) = Some o /\ op_user o = true /\ op_packet o = Publish pb /\ pub_qos pb = 1.
  Proof. exact (handle_puback_own enc dec ores ires cfg). Qed.

  Theorem C01_pubrec_own : forall s a id c, In (id, c) (h_done (handle_pubrec s a)) ->
    lookup (ack_pid a) (s_ppub s) = Some id /\ c = CompOk (Some (Pubrec a)) /\ 128 <= ack_rc a /\
    exists o pb, lookup id (s_ops s) = Some o /\ op_user o = true /\ op_packet o = Publish pb /\ pub_qos pb = 2.
  Proof. exact (handle_pubrec_own enc dec ores ires cfg). Qed.

  Theorem C01_pubcomp_own : forall s a id c, In (id, c) (h_done (handle_pubcomp s a)) ->
    lookup (ack_pid a) (s_ppub s) = Some id /\ c = CompOk (Some (Pubcomp a)) /\
    exists o pb, lookup id (s_ops s) = Some o /\ op_user o = true /\ op_packet o = Publish pb /\ pub_qos pb = 2 /\ op_pubrel o <> None.
  Proof. exact (handle_pubcomp_own enc dec ores ires cfg). Qed.

  (* the completions of a write completion carry no packet *)
  Theorem C01_flush_value : forall ids s id c, In (id, c) (r_done (succeed_all s ids)) -> In id ids /\ c = CompOk None.
  Proof. exact (succeed_all_value enc dec ores ires cfg). Qed.
End Engine.

(* non-vacuity: the instantiated engine; a QoS0 publish submitted offline (PreserveAll) is sent after
   the CONNACK and completed by the write completion; a QoS1 publish submitted later is still
   pending at the reset, which fails it with ClientClosed; both ids are completed once *)
Example C01_example :
  map o_done (x_outs (x_cfg 0) ([EvUser 0 (x_pub 0) None] ++ x_connect_events x_connack_bytes ++
     [EvService 0 4096 0; EvWriteComplete 0; EvUser 1 (x_pub 1) None; EvService 1 4096 0; EvReset 2]))
  = [[]; []; []; []; []; []; [(1, CompOk None)]; []; []; [(3, CompErr EClientClosed)]].
Proof. vm_compute. reflexivity. Qed.

(* ---- no operation is silently dropped: in every state reachable by any event history every operation still in the table is in one of the intake queues, is the current operation, awaits its write completion, or is pending in s_ppub / s_pnon (EngineProofs/WFTrack.v, an inductive invariant on top of the engine well-formedness invariant). One guarantee about submissions is needed and is stated: a submitted PUBLISH does not carry the duplicate flag (ok_submit; for the concrete engine: validate_outbound, the clients' submission-time check, accepts the packet). C01_drop_needs_valid_submission shows the guarantee is necessary: a run of the concrete engine in which a dup QoS 0 publish carrying a pending packet id (rejected by validate_outbound) ends up in no queue ---- *)
From GM Require Import Codec.Framing Alias.Inbound Validate.Rules EngineProofs.WFDefs EngineProofs.WFTrack EngineProofs.WFProps EngineProofs.WFInstance EngineProofs.WFWitness.

Theorem C01_no_silent_drop : forall (enc : Type) (enc_reset : version -> packet -> resolution -> outcome enc) (enc_call : enc -> N -> N -> outcome (bytes * enc)) (enc_done : enc -> bool) (dec : Type) (dec_init : dec) (dec_feed : version -> N -> dec -> bytes -> dec * list packet * outcome unit) (ores : Type) (ores_reset : ores -> N -> ores) (ores_resolve : ores -> option N -> bytes -> outcome (ores * resolution)) (ires : Type) (ires_reset : ires -> ires) (ires_resolve : ires -> option N -> bytes -> outcome (ires * bytes)) (v_out : option settings -> connect_opts -> resolution -> packet -> outcome unit) (v_in : option settings -> packet -> outcome unit) (cfg : config) (HC : comps_ok enc enc_reset enc_call dec dec_init dec_feed ores ores_reset ores_resolve ires ires_reset ires_resolve v_out v_in), ok_cfg cfg -> forall (o0 : ores) (i0 : ires) (h : list event), @ores_inv enc enc_reset enc_call dec dec_init dec_feed ores ores_reset ores_resolve ires ires_reset ires_resolve v_out v_in HC o0 -> @ires_inv enc enc_reset enc_call dec dec_init dec_feed ores ores_reset ores_resolve ires ires_reset ires_resolve v_out v_in HC i0 -> @Forall event ok_event h -> @Forall event ok_submit h -> forall (id : N) (op0 : op), @lookup op id (@s_ops enc dec ores ires (@fst (state enc dec ores ires) (list output) (run enc enc_reset enc_call enc_done dec dec_init dec_feed ores ores_reset ores_resolve ires ires_reset ires_resolve v_out v_in cfg (init enc dec dec_init ores ires o0 i0) h))) = @Some op op0 -> @In N id (@s_uq enc dec ores ires (@fst (state enc dec ores ires) (list output) (run enc enc_reset enc_call enc_done dec dec_init dec_feed ores ores_reset ores_resolve ires ires_reset ires_resolve v_out v_in cfg (init enc dec dec_init ores ires o0 i0) h))) \/ @In N id (@s_rq enc dec ores ires (@fst (state enc dec ores ires) (list output) (run enc enc_reset enc_call enc_done dec dec_init dec_feed ores ores_reset ores_resolve ires ires_reset ires_resolve v_out v_in cfg (init enc dec dec_init ores ires o0 i0) h))) \/ @In N id (@s_hq enc dec ores ires (@fst (state enc dec ores ires) (list output) (run enc enc_reset enc_call enc_done dec dec_init dec_feed ores ores_reset ores_resolve ires ires_reset ires_resolve v_out v_in cfg (init enc dec dec_init ores ires o0 i0) h))) \/ @s_cur enc dec ores ires (@fst (state enc dec ores ires) (list output) (run enc enc_reset enc_call enc_done dec dec_init dec_feed ores ores_reset ores_resolve ires ires_reset ires_resolve v_out v_in cfg (init enc dec dec_init ores ires o0 i0) h)) = @Some N id \/ @In N id (@s_pwco enc dec ores ires (@fst (state enc dec ores ires) (list output) (run enc enc_reset enc_call enc_done dec dec_init dec_feed ores ores_reset ores_resolve ires ires_reset ires_resolve v_out v_in cfg (init enc dec dec_init ores ires o0 i0) h))) \/ @In N id (@map (N * N) N (@snd N N) (@s_ppub enc dec ores ires (@fst (state enc dec ores ires) (list output) (run enc enc_reset enc_call enc_done dec dec_init dec_feed ores ores_reset ores_resolve ires ires_reset ires_resolve v_out v_in cfg (init enc dec dec_init ores ires o0 i0) h)))) \/ @In N id (@map (N * N) N (@snd N N) (@s_pnon enc dec ores ires (@fst (state enc dec ores ires) (list output) (run enc enc_reset enc_call enc_done dec dec_init dec_feed ores ores_reset ores_resolve ires ires_reset ires_resolve v_out v_in cfg (init enc dec dec_init ores ires o0 i0) h)))).
Proof. exact @no_silent_drop. Qed.

Theorem C01_instance_no_silent_drop : forall (cfg : config) (k : resolver_kind) (h : list event), ok_cfg cfg -> @Forall event ok_event h -> @Forall event valid_submission h -> forall (id : N) (op0 : op), @lookup op id (@s_ops enc decoder ores ires (@fst istate (list output) (i_run cfg (i_init cfg k) h))) = @Some op op0 -> @In N id (@s_uq enc decoder ores ires (@fst istate (list output) (i_run cfg (i_init cfg k) h))) \/ @In N id (@s_rq enc decoder ores ires (@fst istate (list output) (i_run cfg (i_init cfg k) h))) \/ @In N id (@s_hq enc decoder ores ires (@fst istate (list output) (i_run cfg (i_init cfg k) h))) \/ @s_cur enc decoder ores ires (@fst istate (list output) (i_run cfg (i_init cfg k) h)) = @Some N id \/ @In N id (@s_pwco enc decoder ores ires (@fst istate (list output) (i_run cfg (i_init cfg k) h))) \/ @In N id (@map (N * N) N (@snd N N) (@s_ppub enc decoder ores ires (@fst istate (list output) (i_run cfg (i_init cfg k) h)))) \/ @In N id (@map (N * N) N (@snd N N) (@s_pnon enc decoder ores ires (@fst istate (list output) (i_run cfg (i_init cfg k) h)))).
Proof. exact @instance_no_silent_drop. Qed.

Example C01_drop_needs_valid_submission : Forall ok_event w_hist_bad /\ validate_outbound w_bad_pub = Err EPacketValidationFailure /\ map o_res (snd (i_run w_cfg (i_init w_cfg RNull) w_hist_bad)) = repeat (Ok tt) 10 /\ map fst (s_ops w_state_bad) = [2; 3] /\ (s_uq w_state_bad, s_rq w_state_bad, s_hq w_state_bad, s_cur w_state_bad, s_pwco w_state_bad, s_ppub w_state_bad, s_pnon w_state_bad) = ([], [2], [], None, [], [], []).
Proof. exact w_drop. Qed.
