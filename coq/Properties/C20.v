(* C20 — AWS builder: safe client id, intact custom-auth parameters, 3.1.1 defaults if unset.
   Only statements; proofs live in AwsProofs/UrlEncodeP.v and AwsProofs/BuilderP.v. *)
From GM Require Import Base.Prelude Codec.Packets Aws.UrlEncode Aws.Builder AwsProofs.UrlEncodeP AwsProofs.BuilderP.
Open Scope N_scope.

(* the reference decoder inverts the encoder on every byte string *)
Theorem C20_decode_encode : forall s, bytes_ok s = true -> pct_decode (enc s) = s.
Proof. exact pct_decode_enc. Qed.

(* The signature is percent-encoded exactly once whether it was supplied raw (base64 alphabet
   A-Za-z0-9+/=) or already encoded; either way it decodes back to the raw text. *)
Theorem C20_signature_once : forall s, base64 s = true ->
  final_sig s = enc s /\ final_sig (enc s) = enc s /\
  pct_decode (final_sig s) = s /\ pct_decode (final_sig (enc s)) = s.
Proof. exact signature_once. Qed.

(* an encoded signature is left alone for EVERY byte string, not only base64 text *)
Theorem C20_signature_never_twice : forall s, final_sig (enc s) = enc s.
Proof. exact final_sig_enc. Qed.

(* whatever is passed as the signature (raw, encoded in either letter case, mixed) the final text
   decodes to what the input decodes to, and it is well-formed query text whenever the input was raw
   (no %) or well-formed itself *)
Theorem C20_signature_decodes : forall e, bytes_ok e = true -> pct_decode (final_sig e) = pct_decode e.
Proof. exact signature_decodes. Qed.

Theorem C20_signature_wf : forall e, bytes_ok e = true -> contains PCT e = false \/ query_wf e = true ->
  query_wf (final_sig e) = true.
Proof. exact signature_wf. Qed.

(* For query-safe authorizer name / token key / token value the CONNECT username is the user's
   username, "?", and a well-formed query string that splits into exactly the configured
   parameters, in order (x-amz-customauthorizer-name, x-amz-customauthorizer-signature, token key),
   the signature being enc s, and decodes back to the configured values. *)
Theorem C20_query_wellformed : forall a s, auth_safe a = true -> sig_is a s ->
  build_username a = opt_bytes (a_user a) ++ [QM] ++ query_of a /\
  query_wf (query_of a) = true /\
  split_query (query_of a) = raw_pairs a (enc s) /\
  parse_query (query_of a) = raw_pairs a s /\
  monitor_username a s (build_username a) = true.
Proof. exact query_wellformed. Qed.

(* Under the documented precondition only (name and key "must be valid URI-encoded values": they may
   carry their own escapes), they decode to what the caller encoded. *)
Theorem C20_query_wellformed_encoded : forall a s, auth_encoded a = true -> sig_is a s ->
  query_wf (query_of a) = true /\
  split_query (query_of a) = raw_pairs a (enc s) /\
  parse_query (query_of a) = expected_pairs a s /\
  monitor_username a s (build_username a) = true.
Proof. exact query_wellformed_encoded. Qed.

Theorem C20_username_split : forall a, contains QM (opt_bytes (a_user a)) = false ->
  split_first QM (build_username a) = (opt_bytes (a_user a), Some (query_of a)).
Proof. exact username_split. Qed.

(* D20 (known finding): without the safety hypothesis on the token VALUE — which the crate documents as
   an arbitrary developer-selected string — the property fails: value "v&x=1" yields four parameters. *)
Theorem C20_query_wellformed_refuted :
  exists a s, sig_is a s /\ base64 s = true /\
    (exists n sg k v, a_name a = Some n /\ a_signed a = Some (sg, k, v) /\ query_safe n = true /\ query_safe k = true) /\
    parse_query (query_of a) <> expected_pairs a s /\
    length (parse_query (query_of a)) = 4%nat /\
    monitor_username a s (build_username a) = false.
Proof. exact query_wellformed_refuted. Qed.

(* The final client id is never empty; the user's is kept iff present and non-empty, otherwise it is
   the generator's ([uuid], an oracle only assumed to be non-empty). *)
Theorem C20_client_id : forall uuid auth o, uuid <> [] ->
  exists c, co_client_id (final_connect_options uuid auth o) = Some c /\ c <> [] /\
    (forall u, co_client_id o = Some u -> u <> [] -> c = u) /\
    (co_client_id o = None \/ co_client_id o = Some [] -> c = uuid) /\
    monitor_client_id (co_client_id o) (Some c) = true.
Proof. exact client_id. Qed.

(* every other connect option is unchanged; username / password are the custom-auth ones when
   custom authentication is used (the password only if one was configured) *)
Theorem C20_options_preserved : forall uuid auth o,
  let r := final_connect_options uuid auth o in
  co_keep_alive r = co_keep_alive o /\ co_rejoin r = co_rejoin o /\ co_sei r = co_sei o /\ co_rri r = co_rri o /\
  co_rpi r = co_rpi o /\ co_receive_max r = co_receive_max o /\ co_tam r = co_tam o /\
  co_max_packet r = co_max_packet o /\ co_will_delay r = co_will_delay o /\ co_will r = co_will o /\
  co_up r = co_up o /\
  co_username r = match auth with Some (u, _) => Some u | None => co_username o end /\
  co_password r = match auth with Some (_, Some p) => Some p | _ => co_password o end.
Proof. exact connect_options_preserved. Qed.

Theorem C20_client_options_preserved : forall o,
  let r := apply_aws_defaults o in
  cl_offline r = cl_offline o /\ cl_connect_timeout r = cl_connect_timeout o /\ cl_ping_timeout r = cl_ping_timeout o /\
  cl_resolver r = cl_resolver o /\ cl_jitter r = cl_jitter o /\ cl_base r = cl_base o /\ cl_max r = cl_max o /\
  cl_stability r = cl_stability o /\ cl_protocol r = cl_protocol o /\
  (cl_drain o <> None -> cl_drain r = cl_drain o) /\ (cl_retries o <> None -> cl_retries r = cl_retries o).
Proof. exact client_options_preserved. Qed.

(* drain policy OneAtATime and retry limit 2 are set iff protocol = 3.1.1 and the user set neither;
   otherwise the options are returned untouched *)
Theorem C20_defaults_iff : forall o,
  let r := apply_aws_defaults o in
  ((cl_protocol o = V311 /\ cl_drain o = None /\ cl_retries o = None) ->
     cl_drain r = Some OneAtATime /\ cl_retries r = Some 2) /\
  (~ (cl_protocol o = V311 /\ cl_drain o = None /\ cl_retries o = None) -> r = o).
Proof. exact defaults_iff. Qed.

(* the whole builder (user options or the library defaults) always yields a non-empty client id *)
Theorem C20_build_client_id : forall uuid auth uc ucl, uuid <> [] ->
  exists c, co_client_id (fst (aws_build uuid auth uc ucl)) = Some c /\ c <> [].
Proof. exact aws_build_client_id. Qed.

(* with custom authentication the builder's CONNECT username is the assembled one; the password is
   the custom-auth password if configured, else the user's *)
Theorem C20_build_custom_auth : forall uuid a uc ucl,
  let o := match uc with Some o => o | None => default_connect_options end in
  let r := fst (aws_build uuid (Some a) uc ucl) in
  co_username r = Some (build_username a) /\
  co_password r = match a_pass a with Some p => Some p | None => co_password o end.
Proof. exact aws_build_custom_auth. Qed.

(* non-vacuity: a signed configuration satisfying the premises, raw signature "ab+/=" *)
Example C20_example :
  let a := {| a_name := Some [109; 121]; a_signed := Some ([97; 98; 43; 47; 61], [116], [118; 49]);
              a_user := Some [117]; a_pass := None |} in
  auth_safe a = true /\ base64 [97; 98; 43; 47; 61] = true /\
  parse_query (query_of a) = [(NAME_PARAM, [109; 121]); (SIG_PARAM, [97; 98; 43; 47; 61]); ([116], [118; 49])] /\
  final_sig [97; 98; 43; 47; 61] = [97; 98; 37; 50; 66; 37; 50; 70; 37; 51; 68].
Proof. vm_compute. repeat split; reflexivity. Qed.
