(* C02 — outbound packets are spec-conformant and carry exactly what the user supplied; the emitted byte
   stream does not depend on how the output buffer space is sized or fragmented.
   Only statements; proofs live in CodecProofs/Enc*.v.
   Models: Codec/Steps.v (Encoder::encode), Codec/ImplEncode.v (the packet encoders), Codec/SpecDecodeC2S.v
   (reference decoder written from the OASIS texts), Codec/ValidC2S.v (valid / canon). *)
From GM Require Import Base.Prelude Base.Outcome Codec.Prim Codec.Packets Codec.Steps Codec.ImplEncode
  Codec.SpecDecodeC2S Codec.ValidC2S CodecProofs.EncPrim CodecProofs.EncFrag CodecProofs.EncAck
  CodecProofs.EncDisc CodecProofs.EncSub CodecProofs.EncPub CodecProofs.EncCon.
Open Scope N_scope.

(* ---------- fragmentation ---------- *)

(* One call of Encoder::encode on a buffer of capacity cap >= 4 already holding fill <= cap bytes: what it
   appends, followed by what the remaining steps produce, is what all steps produce (errors included:
   [then_rest out rest] = do r' <- flatten rest ; Ok (out ++ r')); it never writes beyond the capacity. *)
Theorem C02_fragmentation : forall steps fill cap out rest,
  fill <= cap -> 4 <= cap -> encode_call steps fill cap = Ok (out, rest) ->
  flatten steps = then_rest out rest /\ fill + len out <= cap.
Proof. exact encode_call_prefix. Qed.

Theorem C02_fragmentation_ok : forall steps fill cap out rest r',
  fill <= cap -> 4 <= cap -> encode_call steps fill cap = Ok (out, rest) -> flatten rest = Ok r' ->
  flatten steps = Ok (out ++ r').
Proof. exact encode_call_ok_form. Qed.

(* progress whenever 4 bytes are free: bytes are emitted or a step is retired *)
Theorem C02_fragmentation_progress : forall steps fill cap out rest,
  fill + 4 <= cap -> steps <> [] -> encode_call steps fill cap = Ok (out, rest) ->
  out <> [] \/ (length rest < length steps)%nat.
Proof. exact encode_call_progress. Qed.

(* any sequence of calls — any capacities >= 4, any prefills — that ends with an empty step queue emits
   exactly the unfragmented byte string; unbounded, by induction over the sequence *)
Theorem C02_fragmentation_any_sequence : forall steps bs, enc_run steps bs -> flatten steps = Ok bs.
Proof. exact enc_run_flatten. Qed.

(* the same for the loop the facade / a driver runs (buffers from a list, the last one reused) *)
Theorem C02_fragmentation_driver_loop : forall fuel steps bufs last bs,
  encode_seq fuel steps bufs last = Ok (Some bs) -> flatten steps = Ok bs.
Proof. exact encode_seq_flatten. Qed.

(* and one sufficiently large buffer takes everything in one call *)
Theorem C02_unfragmented : forall steps bs fill cap,
  flatten steps = Ok bs -> 4 <= cap -> fill + len bs + 4 <= cap -> encode_call steps fill cap = Ok (bs, []).
Proof. exact encode_call_unfragmented. Qed.

(* once every byte of the packet has been emitted the encoder reports Complete (the remaining queue is empty): a
   packet ending in an empty string / an empty payload is not left "Full" when the buffer fills up right before
   the trailing zero-length step.  (Refuted on the code before /repo commit 00b5d35, where the engine then treated
   the fully written packet as unsent; corpus/C02/trailing_empty.txt) *)
Theorem C02_complete_when_all_written : forall steps fill cap out rest,
  encode_call steps fill cap = Ok (out, rest) -> flatten steps = Ok out -> rest = [].
Proof. exact encode_call_complete. Qed.

(* ---------- per packet kind: valid packet -> encoder succeeds, reference decoder returns canon ---------- *)

Theorem C02_Pingreq : forall v r,
  exists bs, impl_encode_all v Pingreq r = Ok bs /\ spec_decode v bs = Some (canon v r Pingreq, []).
Proof. exact pingreq_rt. Qed.

Theorem C02_Puback_V5 : forall a r, valid V5 r (Puback a) = true ->
  exists bs, impl_encode_all V5 (Puback a) r = Ok bs /\ spec_decode V5 bs = Some (canon V5 r (Puback a), []).
Proof. exact puback_rt5. Qed.
Theorem C02_Pubrec_V5 : forall a r, valid V5 r (Pubrec a) = true ->
  exists bs, impl_encode_all V5 (Pubrec a) r = Ok bs /\ spec_decode V5 bs = Some (canon V5 r (Pubrec a), []).
Proof. exact pubrec_rt5. Qed.
Theorem C02_Pubrel_V5 : forall a r, valid V5 r (Pubrel a) = true ->
  exists bs, impl_encode_all V5 (Pubrel a) r = Ok bs /\ spec_decode V5 bs = Some (canon V5 r (Pubrel a), []).
Proof. exact pubrel_rt5. Qed.
Theorem C02_Pubcomp_V5 : forall a r, valid V5 r (Pubcomp a) = true ->
  exists bs, impl_encode_all V5 (Pubcomp a) r = Ok bs /\ spec_decode V5 bs = Some (canon V5 r (Pubcomp a), []).
Proof. exact pubcomp_rt5. Qed.
Theorem C02_Puback_V311 : forall a r, valid V311 r (Puback a) = true ->
  exists bs, impl_encode_all V311 (Puback a) r = Ok bs /\ spec_decode V311 bs = Some (canon V311 r (Puback a), []).
Proof. exact puback_rt311. Qed.
Theorem C02_Pubrec_V311 : forall a r, valid V311 r (Pubrec a) = true ->
  exists bs, impl_encode_all V311 (Pubrec a) r = Ok bs /\ spec_decode V311 bs = Some (canon V311 r (Pubrec a), []).
Proof. exact pubrec_rt311. Qed.
Theorem C02_Pubrel_V311 : forall a r, valid V311 r (Pubrel a) = true ->
  exists bs, impl_encode_all V311 (Pubrel a) r = Ok bs /\ spec_decode V311 bs = Some (canon V311 r (Pubrel a), []).
Proof. exact pubrel_rt311. Qed.
Theorem C02_Pubcomp_V311 : forall a r, valid V311 r (Pubcomp a) = true ->
  exists bs, impl_encode_all V311 (Pubcomp a) r = Ok bs /\ spec_decode V311 bs = Some (canon V311 r (Pubcomp a), []).
Proof. exact pubcomp_rt311. Qed.

Theorem C02_Disconnect_V5 : forall d r, valid V5 r (Disconnect d) = true ->
  exists bs, impl_encode_all V5 (Disconnect d) r = Ok bs /\ spec_decode V5 bs = Some (canon V5 r (Disconnect d), []).
Proof. exact disconnect_rt5. Qed.
(* MQTT 3.1.1 DISCONNECT has no content: every DisconnectPacket becomes the two bytes E0 00 *)
Theorem C02_Disconnect_V311 : forall d r,
  exists bs, impl_encode_all V311 (Disconnect d) r = Ok bs /\ spec_decode V311 bs = Some (canon V311 r (Disconnect d), []).
Proof. exact disconnect_rt311. Qed.

Theorem C02_Auth_V5 : forall a r, valid V5 r (Auth a) = true ->
  exists bs, impl_encode_all V5 (Auth a) r = Ok bs /\ spec_decode V5 bs = Some (canon V5 r (Auth a), []).
Proof. exact auth_rt5. Qed.
(* MQTT 3.1.1 has no AUTH packet: the encoder refuses, nothing is emitted *)
Theorem C02_Auth_V311_refused : forall a r, impl_encode_all V311 (Auth a) r = Err EEncodingFailure.
Proof. exact auth_311_refused. Qed.

Theorem C02_Unsubscribe_V5 : forall u r, valid V5 r (Unsubscribe u) = true ->
  exists bs, impl_encode_all V5 (Unsubscribe u) r = Ok bs /\ spec_decode V5 bs = Some (canon V5 r (Unsubscribe u), []).
Proof. exact unsubscribe_rt5. Qed.
Theorem C02_Unsubscribe_V311 : forall u r, valid V311 r (Unsubscribe u) = true ->
  exists bs, impl_encode_all V311 (Unsubscribe u) r = Ok bs /\ spec_decode V311 bs = Some (canon V311 r (Unsubscribe u), []).
Proof. exact unsubscribe_rt311. Qed.

(* SUBSCRIBE.  History: with the model of the code before commit d62c54a in /repo this property was REFUTED for
   MQTT5 packets carrying a subscription identifier (property 0x0B written as a four-byte integer instead of a
   Variable Byte Integer, D3); the repaired encoder satisfies it for every valid SUBSCRIBE.  The old witness is
   corpus/C02/d3_subscribe_subid.txt and CodecProofs/EncSub.v d3_witness_now_conformant. *)
Theorem C02_Subscribe_V5 : forall s r, valid V5 r (Subscribe s) = true ->
  exists bs, impl_encode_all V5 (Subscribe s) r = Ok bs /\ spec_decode V5 bs = Some (canon V5 r (Subscribe s), []).
Proof. exact subscribe_rt5. Qed.
Theorem C02_Subscribe_V311 : forall s r, valid V311 r (Subscribe s) = true ->
  exists bs, impl_encode_all V311 (Subscribe s) r = Ok bs /\ spec_decode V311 bs = Some (canon V311 r (Subscribe s), []).
Proof. exact subscribe_rt311. Qed.

(* PUBLISH under every alias resolution r = (skip_topic, alias) *)
Theorem C02_Publish_V5 : forall p r, valid V5 r (Publish p) = true ->
  exists bs, impl_encode_all V5 (Publish p) r = Ok bs /\ spec_decode V5 bs = Some (canon V5 r (Publish p), []).
Proof. exact publish_rt5. Qed.
Theorem C02_Publish_V311 : forall p r, valid V311 r (Publish p) = true ->
  exists bs, impl_encode_all V311 (Publish p) r = Ok bs /\ spec_decode V311 bs = Some (canon V311 r (Publish p), []).
Proof. exact publish_rt311. Qed.

(* CONNECT (the packet ConnectOptions::to_connect_packet builds).  NOTE: valid_connect is what
   validate_connect_packet_outbound should establish; nothing in the crate calls that function (D17), so
   for CONNECT the hypothesis is an obligation on the caller *)
Theorem C02_Connect_V5 : forall c r, valid V5 r (Connect c) = true ->
  exists bs, impl_encode_all V5 (Connect c) r = Ok bs /\ spec_decode V5 bs = Some (canon V5 r (Connect c), []).
Proof. exact connect_rt5. Qed.
Theorem C02_Connect_V311 : forall c r, valid V311 r (Connect c) = true ->
  exists bs, impl_encode_all V311 (Connect c) r = Ok bs /\ spec_decode V311 bs = Some (canon V311 r (Connect c), []).
Proof. exact connect_rt311. Qed.

(* non-vacuity *)
Example C02_example :
  valid V5 no_resolution (Pubrel {| ack_pid := 7; ack_rc := 146; ack_reason := Some [104; 105];
                                    ack_up := Some [{| up_name := [97]; up_value := [] |}] |}) = true
  /\ impl_encode_all V5 Pingreq no_resolution = Ok [192; 0] /\ spec_decode V5 [192; 0] = Some (Pingreq, [])
  /\ encode_call [SU8 1; SBytes [2; 3; 4; 5; 6; 7]; SU16 8] 2 8 = Ok ([1; 2; 3; 4; 5; 6], [SBytes [7]; SU16 8]).
Proof. vm_compute. repeat split; reflexivity. Qed.

(* non-vacuity of C02_complete_when_all_written: PUBLISH "ab" with payload Some [] into buffers of capacity 5; the
   third call writes the topic bytes, the buffer has less than 4 bytes left, the trailing empty payload step is
   retired by the drain: three calls complete the packet *)
Example C02_example_trailing_empty :
  let p := Publish {| pub_pid := 0; pub_topic := [97; 98]; pub_qos := 0; pub_dup := false; pub_retain := false;
                      pub_payload := Some []; pub_pfi := None; pub_mei := None; pub_alias := None;
                      pub_response_topic := None; pub_correlation := None; pub_subids := None;
                      pub_content_type := None; pub_up := None |} in
  impl_steps V311 p no_resolution = Ok [SU8 48; SVli 4; SU16 2; SBytes [97; 98]; SBytes []]
  /\ encode_call [SBytes [97; 98]; SBytes []] 0 5 = Ok ([97; 98], [])
  /\ (do s <- impl_steps V311 p no_resolution ; encode_seq 3 s [] (5, 0)) = Ok (Some [48; 4; 0; 2; 97; 98]).
Proof. vm_compute. repeat split; reflexivity. Qed.
