(* C02 — outbound packets are spec-conformant and carry exactly what the user supplied; the emitted byte
   stream does not depend on how the output buffer space is sized or fragmented.
   Only statements; proofs live in CodecProofs/Enc*.v.
   Models: Codec/Steps.v (Encoder::encode), Codec/ImplEncode.v (the packet encoders), Codec/SpecDecodeC2S.v
   (reference decoder written from the OASIS texts), Codec/ValidC2S.v (valid / canon). *)
From GM Require Import Base.Prelude Base.Outcome Codec.Prim Codec.Packets Codec.Steps Codec.ImplEncode
  Codec.SpecDecodeC2S Codec.ValidC2S CodecProofs.EncPrim CodecProofs.EncFrag CodecProofs.EncAck
  CodecProofs.EncDisc CodecProofs.EncSub CodecProofs.EncPub CodecProofs.EncCon.
Open Scope N_scope.

(* ---------- fragmentation ---------- *)

(* One call of Encoder::encode on a buffer of capacity cap >= 4 already holding fill <= cap bytes: what it
   appends, followed by what the remaining steps produce, is what all steps produce (errors included:
   [then_rest out rest] = do r' <- flatten rest ; Ok (out ++ r')); it never writes beyond the capacity. *)
Theorem C02_fragmentation : forall steps fill cap out rest,
  fill <= cap -> 4 <= cap -> encode_call steps fill cap = Ok (out, rest) ->
  flatten steps = then_rest out rest /\ fill + len out <= cap.
Proof. exact encode_call_prefix. Qed.

Theorem C02_fragmentation_ok : forall steps fill cap out rest r',
  fill <= cap -> 4 <= cap -> encode_call steps fill cap = Ok (out, rest) -> flatten rest = Ok r' ->
  flatten steps = Ok (out ++ r').
Proof. exact encode_call_ok_form. Qed.

(* progress whenever 4 bytes are free: bytes are emitted or a step is retired *)
Theorem C02_fragmentation_progress : forall steps fill cap out rest,
  fill + 4 <= cap -> steps <> [] -> encode_call steps fill cap = Ok (out, rest) ->
  out <> [] \/ (length rest < length steps)%nat.
Proof. exact encode_call_progress. Qed.

(* any sequence of calls — any capacities >= 4, any prefills — that ends with an empty step queue emits
   exactly the unfragmented byte string; unbounded, by induction over the sequence *)
Theorem C02_fragmentation_any_sequence : forall steps bs, enc_run steps bs -> flatten steps = Ok bs.
Proof. exact enc_run_flatten. Qed.

(* the same for the loop the facade / a driver runs (buffers from a list, the last one reused) *)
Theorem C02_fragmentation_driver_loop : forall fuel steps bufs last bs,
  encode_seq fuel steps bufs last = Ok (Some bs) -> flatten steps = Ok bs.
Proof. exact encode_seq_flatten. Qed.

(* and one sufficiently large buffer takes everything in one call *)
Theorem C02_unfragmented : forall steps bs fill cap,
  flatten steps = Ok bs -> 4 <= cap -> fill + len bs + 4 <= cap -> encode_call steps fill cap = Ok (bs, []).
Proof. exact encode_call_unfragmented. Qed.

(* once every byte of the packet has been emitted the encoder reports Complete (the remaining queue is empty): a
   packet ending in an empty string / an empty payload is not left "Full" when the buffer fills up right before
   the trailing zero-length step.  (Refuted on the code before /repo commit 00b5d35, where the engine then treated
   the fully written packet as unsent; corpus/C02/trailing_empty.txt) *)
Theorem C02_complete_when_all_written : forall steps fill cap out rest,
  encode_call steps fill cap = Ok (out, rest) -> flatten steps = Ok out -> rest = [].
Proof. exact encode_call_complete. Qed.

(* ---------- per packet kind: valid packet -> encoder succeeds, reference decoder returns canon ---------- *)

Theorem C02_Pingreq : forall v r,
  exists bs, impl_encode_all v Pingreq r = Ok bs /\ spec_decode v bs = Some (canon v r Pingreq, []).
Proof. exact pingreq_rt. Qed.

Theorem C02_Puback_V5 : forall a r, valid V5 r (Puback a) = true ->
  exists bs, impl_encode_all V5 (Puback a) r = Ok bs /\ spec_decode V5 bs = Some (canon V5 r (Puback a), []).
Proof. exact puback_rt5. Qed.
Theorem C02_Pubrec_V5 : forall a r, valid V5 r (Pubrec a) = true ->
  exists bs, impl_encode_all V5 (Pubrec a) r = Ok bs /\ spec_decode V5 bs = Some (canon V5 r (Pubrec a), []).
Proof. exact pubrec_rt5. Qed.
Theorem C02_Pubrel_V5 : forall a r, valid V5 r (Pubrel a) = true ->
  exists bs, impl_encode_all V5 (Pubrel a) r = Ok bs /\ spec_decode V5 bs = Some (canon V5 r (Pubrel a), []).
Proof. exact pubrel_rt5. Qed.
Theorem C02_Pubcomp_V5 : forall a r, valid V5 r (Pubcomp a) = true ->
  exists bs, impl_encode_all V5 (Pubcomp a) r = Ok bs /\ spec_decode V5 bs = Some (canon V5 r (Pubcomp a), []).
Proof. exact pubcomp_rt5. Qed.
Theorem C02_Puback_V311 : forall a r, valid V311 r (Puback a) = true ->
  exists bs, impl_encode_all V311 (Puback a) r = Ok bs /\ spec_decode V311 bs = Some (canon V311 r (Puback a), []).
Proof. exact puback_rt311. Qed.
Theorem C02_Pubrec_V311 : forall a r, valid V311 r (Pubrec a) = true ->
  exists bs, impl_encode_all V311 (Pubrec a) r = Ok bs /\ spec_decode V311 bs = Some (canon V311 r (Pubrec a), []).
Proof. exact pubrec_rt311. Qed.
Theorem C02_Pubrel_V311 : forall a r, valid V311 r (Pubrel a) = true ->
  exists bs, impl_encode_all V311 (Pubrel a) r = Ok bs /\ spec_decode V311 bs = Some (canon V311 r (Pubrel a), []).
Proof. exact pubrel_rt311. Qed.
Theorem C02_Pubcomp_V311 : forall a r, valid V311 r (Pubcomp a) = true ->
  exists bs, impl_encode_all V311 (Pubcomp a) r = Ok bs /\ spec_decode V311 bs = Some (canon V311 r (Pubcomp a), []).
Proof. exact pubcomp_rt311. Qed.

Theorem C02_Disconnect_V5 : forall d r, valid V5 r (Disconnect d) = true ->
  exists bs, impl_encode_all V5 (Disconnect d) r = Ok bs /\ spec_decode V5 bs = Some (canon V5 r (Disconnect d), []).
Proof. exact disconnect_rt5. Qed.
(* MQTT 3.1.1 DISCONNECT has no content: every DisconnectPacket becomes the two bytes E0 00 *)
Theorem C02_Disconnect_V311 : forall d r,
  exists bs, impl_encode_all V311 (Disconnect d) r = Ok bs /\ spec_decode V311 bs = Some (canon V311 r (Disconnect d), []).
Proof. exact disconnect_rt311. Qed.

Theorem C02_Auth_V5 : forall a r, valid V5 r (Auth a) = true ->
  exists bs, impl_encode_all V5 (Auth a) r = Ok bs /\ spec_decode V5 bs = Some (canon V5 r (Auth a), []).
Proof. exact auth_rt5. Qed.
(* MQTT 3.1.1 has no AUTH packet: the encoder refuses, nothing is emitted *)
Theorem C02_Auth_V311_refused : forall a r, impl_encode_all V311 (Auth a) r = Err EEncodingFailure.
Proof. exact auth_311_refused. Qed.

Theorem C02_Unsubscribe_V5 : forall u r, valid V5 r (Unsubscribe u) = true ->
  exists bs, impl_encode_all V5 (Unsubscribe u) r = Ok bs /\ spec_decode V5 bs = Some (canon V5 r (Unsubscribe u), []).
Proof. exact unsubscribe_rt5. Qed.
Theorem C02_Unsubscribe_V311 : forall u r, valid V311 r (Unsubscribe u) = true ->
  exists bs, impl_encode_all V311 (Unsubscribe u) r = Ok bs /\ spec_decode V311 bs = Some (canon V311 r (Unsubscribe u), []).
Proof. exact unsubscribe_rt311. Qed.

(* SUBSCRIBE.  History: with the model of the code before commit d62c54a in /repo this property was REFUTED for
   MQTT5 packets carrying a subscription identifier (property 0x0B written as a four-byte integer instead of a
   Variable Byte Integer, D3); the repaired encoder satisfies it for every valid SUBSCRIBE.  The old witness is
   corpus/C02/d3_subscribe_subid.txt and CodecProofs/EncSub.v d3_witness_now_conformant. *)
Theorem C02_Subscribe_V5 : forall s r, valid V5 r (Subscribe s) = true ->
  exists bs, impl_encode_all V5 (Subscribe s) r = Ok bs /\ spec_decode V5 bs = Some (canon V5 r (Subscribe s), []).
Proof. exact subscribe_rt5. Qed.
Theorem C02_Subscribe_V311 : forall s r, valid V311 r (Subscribe s) = true ->
  exists bs, impl_encode_all V311 (Subscribe s) r = Ok bs /\ spec_decode V311 bs = Some (canon V311 r (Subscribe s), []).
Proof. exact subscribe_rt311. Qed.

(* PUBLISH under every alias resolution r = (skip_topic, alias) *)
Theorem C02_Publish_V5 : forall p r, valid V5 r (Publish p) = true ->
  exists bs, impl_encode_all V5 (Publish p) r = Ok bs /\ spec_decode V5 bs = Some (canon V5 r (Publish p), []).
Proof. exact publish_rt5. Qed.
Theorem C02_Publish_V311 : forall p r, valid V311 r (Publish p) = true ->
  exists bs, impl_encode_all V311 (Publish p) r = Ok bs /\ spec_decode V311 bs = Some (canon V311 r (Publish p), []).
Proof. exact publish_rt311. Qed.

(* CONNECT (the packet ConnectOptions::to_connect_packet builds).  NOTE: valid_connect is what
   validate_connect_packet_outbound should establish; nothing in the crate calls that function (D17), so
   for CONNECT the hypothesis is an obligation on the caller *)
Theorem C02_Connect_V5 : forall c r, valid V5 r (Connect c) = true ->
  exists bs, impl_encode_all V5 (Connect c) r = Ok bs /\ spec_decode V5 bs = Some (canon V5 r (Connect c), []).
Proof. exact connect_rt5. Qed.
Theorem C02_Connect_V311 : forall c r, valid V311 r (Connect c) = true ->
  exists bs, impl_encode_all V311 (Connect c) r = Ok bs /\ spec_decode V311 bs = Some (canon V311 r (Connect c), []).
Proof. exact connect_rt311. Qed.

(* non-vacuity *)
Example C02_example :
  valid V5 no_resolution (Pubrel {| ack_pid := 7; ack_rc := 146; ack_reason := Some [104; 105];
                                    ack_up := Some [{| up_name := [97]; up_value := [] |}] |}) = true
  /\ impl_encode_all V5 Pingreq no_resolution = Ok [192; 0] /\ spec_decode V5 [192; 0] = Some (Pingreq, [])
  /\ encode_call [SU8 1; SBytes [2; 3; 4; 5; 6; 7]; SU16 8] 2 8 = Ok ([1; 2; 3; 4; 5; 6], [SBytes [7]; SU16 8]).
Proof. vm_compute. repeat split; reflexivity. Qed.

(* non-vacuity of C02_complete_when_all_written: PUBLISH "ab" with payload Some [] into buffers of capacity 5; the
   third call writes the topic bytes, the buffer has less than 4 bytes left, the trailing empty payload step is
   retired by the drain: three calls complete the packet *)
Example C02_example_trailing_empty :
  let p := Publish {| pub_pid := 0; pub_topic := [97; 98]; pub_qos := 0; pub_dup := false; pub_retain := false;
                      pub_payload := Some []; pub_pfi := None; pub_mei := None; pub_alias := None;
                      pub_response_topic := None; pub_correlation := None; pub_subids := None;
                      pub_content_type := None; pub_up := None |} in
  impl_steps V311 p no_resolution = Ok [SU8 48; SVli 4; SU16 2; SBytes [97; 98]; SBytes []]
  /\ encode_call [SBytes [97; 98]; SBytes []] 0 5 = Ok ([97; 98], [])
  /\ (do s <- impl_steps V311 p no_resolution ; encode_seq 3 s [] (5, 0)) = Ok (Some [48; 4; 0; 2; 97; 98]).
Proof. vm_compute. repeat split; reflexivity. Qed.

(* ---------- the byte stream of a connection (EngineProofs/WireRun*.v): RUN-LEVEL.  The bytes the engine emits on one connection are the concatenation of the complete encodings of the packets an encoder was constructed for and that ran to completion, in construction order (exactly the successful encoder constructions of the alias log of AliasRunLog.v), followed by a prefix of the encoding of the packet the encoder holds; for valid packets the specification decoder reads the completed part back as their canonical forms ---------- *)
From GM Require Import Base.Prelude Base.Outcome Codec.Packets Codec.Settings Codec.Steps Codec.ImplEncode Codec.SpecDecodeC2S Codec.ValidC2S Engine.Model Engine.Instance EngineProofs.WFDefs EngineProofs.IdsWitness EngineProofs.HandshakeRunTrace EngineProofs.AliasRunLog EngineProofs.AliasRunInstance EngineProofs.WireRunLog EngineProofs.WireRun EngineProofs.WireRunConn EngineProofs.WireRunCodec EngineProofs.WireRunInstance EngineProofs.WireRunWitness.
Theorem C02_fragmentation_total : forall (steps : list Steps.step) (fill cap : N) (out : bytes) (rest : list Steps.step), encode_call steps fill cap = Ok (out, rest) -> flat steps = out ++ flat rest.
Proof. exact @encode_call_flat. Qed.

Theorem C02_all_kinds : forall (v : version) (r : resolution) (p : packet), valid v r p = true -> exists bs : bytes, impl_encode_all v p r = Ok bs /\ spec_decode v bs = Some (canon v r p, []).
Proof. exact @roundtrip_all. Qed.

Theorem C02_spec_decode_on_stream : forall (v : version) (bs : bytes) (p : packet) (more : list N), spec_decode v bs = Some (p, []) -> spec_decode v (bs ++ more) = Some (p, more).
Proof. exact @spec_decode_app. Qed.

Theorem C02_stream_decodes : forall (v : version) (l : list (packet * resolution)), Forall (pr_valid v) l -> spec_decode_all (length l) v (concat (map (fun x : packet * resolution => full_encoding v (fst x) (snd x)) l)) = Some (map (pr_canon v) l).
Proof. exact @spec_decode_stream. Qed.

Theorem C02_wire_loop_is_model : forall (enc : Type) (enc_reset : version -> packet -> resolution -> outcome enc) (enc_call : enc -> N -> N -> outcome (bytes * enc)) (enc_done : enc -> bool) (dec ores : Type) (ores_reset : ores -> N -> ores) (ores_resolve : ores -> option N -> bytes -> outcome (ores * resolution)) (ires : Type) (v_out : option settings -> connect_opts -> resolution -> packet -> outcome unit) (cfg : config) (f : nat) (s : state enc dec ores ires) (m : bool) (now cap fill : N) (acc : bytes) (dn : dones), fst (service_loop_w enc enc_reset enc_call enc_done dec ores ores_reset ores_resolve ires v_out cfg f s m now cap fill acc dn) = service_loop enc enc_reset enc_call enc_done dec ores ores_reset ores_resolve ires v_out cfg f s m now cap fill acc dn.
Proof. exact @service_loop_w_fst. Qed.

Theorem C02_wire_loop_alias_events : forall (enc : Type) (enc_reset : version -> packet -> resolution -> outcome enc) (enc_call : enc -> N -> N -> outcome (bytes * enc)) (enc_done : enc -> bool) (dec ores : Type) (ores_reset : ores -> N -> ores) (ores_resolve : ores -> option N -> bytes -> outcome (ores * resolution)) (ires : Type) (v_out : option settings -> connect_opts -> resolution -> packet -> outcome unit) (cfg : config) (f : nat) (s : state enc dec ores ires) (m : bool) (now cap fill : N) (acc : bytes) (dn : dones), olog_of (snd (service_loop_w enc enc_reset enc_call enc_done dec ores ores_reset ores_resolve ires v_out cfg f s m now cap fill acc dn)) = snd (service_loop_a enc enc_reset enc_call enc_done dec ores ores_reset ores_resolve ires v_out cfg f s m now cap fill acc dn).
Proof. exact @service_loop_w_olog. Qed.

Theorem C02_wire_loop_bytes : forall (enc : Type) (enc_reset : version -> packet -> resolution -> outcome enc) (enc_call : enc -> N -> N -> outcome (bytes * enc)) (enc_done : enc -> bool) (dec ores : Type) (ores_reset : ores -> N -> ores) (ores_resolve : ores -> option N -> bytes -> outcome (ores * resolution)) (ires : Type) (v_out : option settings -> connect_opts -> resolution -> packet -> outcome unit) (cfg : config) (f : nat) (s : state enc dec ores ires) (m : bool) (now cap fill : N) (acc : bytes) (dn : dones), sr_bytes (fst (service_loop_w enc enc_reset enc_call enc_done dec ores ores_reset ores_resolve ires v_out cfg f s m now cap fill acc dn)) = acc ++ wbytes (snd (service_loop_w enc enc_reset enc_call enc_done dec ores ores_reset ores_resolve ires v_out cfg f s m now cap fill acc dn)).
Proof. exact @service_loop_w_bytes. Qed.

Theorem C02_wire_log_alias_events : forall (enc : Type) (enc_reset : version -> packet -> resolution -> outcome enc) (enc_call : enc -> N -> N -> outcome (bytes * enc)) (enc_done : enc -> bool) (dec : Type) (dec_init : dec) (dec_feed : version -> N -> dec -> bytes -> dec * list packet * outcome unit) (ores : Type) (ores_reset : ores -> N -> ores) (ores_resolve : ores -> option N -> bytes -> outcome (ores * resolution)) (ires : Type) (ires_reset : ires -> ires) (ires_resolve : ires -> option N -> bytes -> outcome (ires * bytes)) (v_out : option settings -> connect_opts -> resolution -> packet -> outcome unit) (v_in : option settings -> packet -> outcome unit) (cfg : config) (h : list event) (s : state enc dec ores ires), olog_of (run_wlog enc enc_reset enc_call enc_done dec dec_init dec_feed ores ores_reset ores_resolve ires ires_reset ires_resolve v_out v_in cfg s h) = run_olog enc enc_reset enc_call enc_done dec dec_init dec_feed ores ores_reset ores_resolve ires ires_reset ires_resolve v_out v_in cfg s h.
Proof. exact @run_wlog_olog. Qed.

Theorem C02_wire_log_bytes : forall (enc : Type) (enc_reset : version -> packet -> resolution -> outcome enc) (enc_call : enc -> N -> N -> outcome (bytes * enc)) (enc_done : enc -> bool) (dec : Type) (dec_init : dec) (dec_feed : version -> N -> dec -> bytes -> dec * list packet * outcome unit) (ores : Type) (ores_reset : ores -> N -> ores) (ores_resolve : ores -> option N -> bytes -> outcome (ores * resolution)) (ires : Type) (ires_reset : ires -> ires) (ires_resolve : ires -> option N -> bytes -> outcome (ires * bytes)) (v_out : option settings -> connect_opts -> resolution -> packet -> outcome unit) (v_in : option settings -> packet -> outcome unit) (cfg : config) (h : list event) (s : state enc dec ores ires) (acc : bytes), conn_stream (run_wlog enc enc_reset enc_call enc_done dec dec_init dec_feed ores ores_reset ores_resolve ires ires_reset ires_resolve v_out v_in cfg s h) acc = conn_bytes h (snd (run enc enc_reset enc_call enc_done dec dec_init dec_feed ores ores_reset ores_resolve ires ires_reset ires_resolve v_out v_in cfg s h)) acc.
Proof. exact @run_wlog_stream. Qed.

Theorem C02_run_wire_stream : forall (enc : Type) (enc_reset : version -> packet -> resolution -> outcome enc) (enc_call : enc -> N -> N -> outcome (bytes * enc)) (enc_done : enc -> bool) (dec : Type) (dec_init : dec) (dec_feed : version -> N -> dec -> bytes -> dec * list packet * outcome unit) (ores : Type) (ores_reset : ores -> N -> ores) (ores_resolve : ores -> option N -> bytes -> outcome (ores * resolution)) (ires : Type) (ires_reset : ires -> ires) (ires_resolve : ires -> option N -> bytes -> outcome (ires * bytes)) (v_out : option settings -> connect_opts -> resolution -> packet -> outcome unit) (v_in : option settings -> packet -> outcome unit) (cfg : config) (HC : comps_ok enc enc_reset enc_call dec dec_init dec_feed ores ores_reset ores_resolve ires ires_reset ires_resolve v_out v_in), ok_cfg cfg -> forall (enc_rem : enc -> bytes) (enc_full : version -> packet -> resolution -> bytes), (forall (v : version) (p : packet) (r : resolution) (e : enc), enc_reset v p r = Ok e -> enc_rem e = enc_full v p r) -> (forall (e : enc) (fill cap : N) (out : bytes) (e' : enc), enc_call e fill cap = Ok (out, e') -> enc_rem e = out ++ enc_rem e') -> (forall e : enc, enc_done e = true -> enc_rem e = []) -> forall (enc_good : enc -> Prop) (pkt_good : version -> packet -> resolution -> Prop), (forall (v : version) (p : packet) (r : resolution) (e : enc), enc_reset v p r = Ok e -> enc_good e -> pkt_good v p r) -> (forall (e : enc) (fill cap : N) (out : bytes) (e' : enc), enc_call e fill cap = Ok (out, e') -> enc_good e' -> enc_good e) -> (forall e : enc, enc_done e = true -> enc_good e) -> forall (o : ores) (i : ires) (h : list event), ores_inv HC o -> ires_inv HC i -> Forall ok_event h -> let L := run_wlog enc enc_reset enc_call enc_done dec dec_init dec_feed ores ores_reset ores_resolve ires ires_reset ires_resolve v_out v_in cfg (init enc dec dec_init ores ires o i) h in let g := wfold wg0 L in conn_bytes h (snd (run enc enc_reset enc_call enc_done dec dec_init dec_feed ores ores_reset ores_resolve ires ires_reset ires_resolve v_out v_in cfg (init enc dec dec_init ores ires o i) h)) [] = concat (map (full cfg enc_full) (w_done g)) ++ w_part g /\ match w_cur g with | Some x => exists rest : list N, full cfg enc_full x = w_part g ++ rest | None => w_part g = [] end /\ conn_seated L [] = w_done g ++ olist (w_cur g) /\ olog_of L = run_olog enc enc_reset enc_call enc_done dec dec_init dec_feed ores ores_reset ores_resolve ires ires_reset ires_resolve v_out v_in cfg (init enc dec dec_init ores ires o i) h /\ Forall (good cfg pkt_good) (w_done g) /\ (live enc dec ores ires (fst (run enc enc_reset enc_call enc_done dec dec_init dec_feed ores ores_reset ores_resolve ires ires_reset ires_resolve v_out v_in cfg (init enc dec dec_init ores ires o i) h)) -> C enc dec ores ires cfg enc_rem enc_full enc_good pkt_good (fst (run enc enc_reset enc_call enc_done dec dec_init dec_feed ores ores_reset ores_resolve ires ires_reset ires_resolve v_out v_in cfg (init enc dec dec_init ores ires o i) h)) g).
Proof. exact @wire_stream_run. Qed.

Theorem C02_run_wire_connection : forall (enc : Type) (enc_reset : version -> packet -> resolution -> outcome enc) (enc_call : enc -> N -> N -> outcome (bytes * enc)) (enc_done : enc -> bool) (dec : Type) (dec_init : dec) (dec_feed : version -> N -> dec -> bytes -> dec * list packet * outcome unit) (ores : Type) (ores_reset : ores -> N -> ores) (ores_resolve : ores -> option N -> bytes -> outcome (ores * resolution)) (ires : Type) (ires_reset : ires -> ires) (ires_resolve : ires -> option N -> bytes -> outcome (ires * bytes)) (v_out : option settings -> connect_opts -> resolution -> packet -> outcome unit) (v_in : option settings -> packet -> outcome unit) (cfg : config) (HC : comps_ok enc enc_reset enc_call dec dec_init dec_feed ores ores_reset ores_resolve ires ires_reset ires_resolve v_out v_in), ok_cfg cfg -> forall (enc_rem : enc -> bytes) (enc_full : version -> packet -> resolution -> bytes), (forall (v : version) (p : packet) (r : resolution) (e : enc), enc_reset v p r = Ok e -> enc_rem e = enc_full v p r) -> (forall (e : enc) (fill cap : N) (out : bytes) (e' : enc), enc_call e fill cap = Ok (out, e') -> enc_rem e = out ++ enc_rem e') -> (forall e : enc, enc_done e = true -> enc_rem e = []) -> forall (enc_good : enc -> Prop) (pkt_good : version -> packet -> resolution -> Prop), (forall (v : version) (p : packet) (r : resolution) (e : enc), enc_reset v p r = Ok e -> enc_good e -> pkt_good v p r) -> (forall (e : enc) (fill cap : N) (out : bytes) (e' : enc), enc_call e fill cap = Ok (out, e') -> enc_good e' -> enc_good e) -> (forall e : enc, enc_done e = true -> enc_good e) -> forall (o : ores) (i : ires) (h1 : list event) (now dl : N) (h2 : list event), ores_inv HC o -> ires_inv HC i -> Forall ok_event (h1 ++ EvOpen now dl :: h2) -> Forall not_open h2 -> let s1 := fst (run enc enc_reset enc_call enc_done dec dec_init dec_feed ores ores_reset ores_resolve ires ires_reset ires_resolve v_out v_in cfg (init enc dec dec_init ores ires o i) (h1 ++ [EvOpen now dl])) in let dc := packets_of (run_olog enc enc_reset enc_call enc_done dec dec_init dec_feed ores ores_reset ores_resolve ires ires_reset ires_resolve v_out v_in cfg s1 h2) in exists part : list N, concat (map o_bytes (snd (run enc enc_reset enc_call enc_done dec dec_init dec_feed ores ores_reset ores_resolve ires ires_reset ires_resolve v_out v_in cfg s1 h2))) = concat (map (full cfg enc_full) (fst dc)) ++ part /\ match snd dc with | Some x => exists rest : list N, full cfg enc_full x = part ++ rest | None => part = [] end /\ encodes (run_olog enc enc_reset enc_call enc_done dec dec_init dec_feed ores ores_reset ores_resolve ires ires_reset ires_resolve v_out v_in cfg s1 h2) = fst dc ++ olist (snd dc) /\ Forall (good cfg pkt_good) (fst dc).
Proof. exact @wire_stream_connection. Qed.

Theorem C02_run_silent_before_open : forall (enc : Type) (enc_reset : version -> packet -> resolution -> outcome enc) (enc_call : enc -> N -> N -> outcome (bytes * enc)) (enc_done : enc -> bool) (dec : Type) (dec_init : dec) (dec_feed : version -> N -> dec -> bytes -> dec * list packet * outcome unit) (ores : Type) (ores_reset : ores -> N -> ores) (ores_resolve : ores -> option N -> bytes -> outcome (ores * resolution)) (ires : Type) (ires_reset : ires -> ires) (ires_resolve : ires -> option N -> bytes -> outcome (ires * bytes)) (v_out : option settings -> connect_opts -> resolution -> packet -> outcome unit) (v_in : option settings -> packet -> outcome unit) (cfg : config) (HC : comps_ok enc enc_reset enc_call dec dec_init dec_feed ores ores_reset ores_resolve ires ires_reset ires_resolve v_out v_in), ok_cfg cfg -> forall (o : ores) (i : ires) (h : list event), ores_inv HC o -> ires_inv HC i -> Forall ok_event h -> Forall not_open h -> concat (map o_bytes (snd (run enc enc_reset enc_call enc_done dec dec_init dec_feed ores ores_reset ores_resolve ires ires_reset ires_resolve v_out v_in cfg (init enc dec dec_init ores ires o i) h))) = [].
Proof. exact @wire_silent_before_open. Qed.

Theorem C02_instance_wire_stream : forall cfg : config, ok_cfg cfg -> forall (k : Outbound.resolver_kind) (h : list event), Forall ok_event h -> let L := i_wlog cfg (i_init cfg k) h in let g := wfold wg0 L in conn_bytes h (snd (i_run cfg (i_init cfg k) h)) [] = concat (map (i_full cfg) (w_done g)) ++ w_part g /\ match w_cur g with | Some x => exists rest : list N, i_full cfg x = w_part g ++ rest | None => w_part g = [] end /\ conn_seated L [] = w_done g ++ olist (w_cur g) /\ olog_of L = i_olog cfg (i_init cfg k) h /\ Forall (fun x : packet * resolution => impl_encode_all (cf_version cfg) (fst x) (snd x) = Ok (i_full cfg x)) (w_done g).
Proof. exact @instance_wire_stream. Qed.

Theorem C02_instance_wire_connection : forall cfg : config, ok_cfg cfg -> forall (k : Outbound.resolver_kind) (h1 : list event) (now dl : N) (h2 : list event), Forall ok_event (h1 ++ EvOpen now dl :: h2) -> Forall not_open h2 -> let s1 := fst (i_run cfg (i_init cfg k) (h1 ++ [EvOpen now dl])) in let L := i_olog cfg s1 h2 in exists part : list N, concat (map o_bytes (snd (i_run cfg s1 h2))) = concat (map (i_full cfg) (fst (packets_of L))) ++ part /\ match snd (packets_of L) with | Some x => exists rest : list N, i_full cfg x = part ++ rest | None => part = [] end /\ encodes L = fst (packets_of L) ++ olist (snd (packets_of L)) /\ Forall (fun x : packet * resolution => impl_encode_all (cf_version cfg) (fst x) (snd x) = Ok (i_full cfg x)) (fst (packets_of L)).
Proof. exact @instance_wire_connection. Qed.

Theorem C02_instance_wire_decodes : forall cfg : config, ok_cfg cfg -> forall (k : Outbound.resolver_kind) (h1 : list event) (now dl : N) (h2 : list event), Forall ok_event (h1 ++ EvOpen now dl :: h2) -> Forall not_open h2 -> let s1 := fst (i_run cfg (i_init cfg k) (h1 ++ [EvOpen now dl])) in let L := i_olog cfg s1 h2 in Forall (pr_valid (cf_version cfg)) (encodes L) -> exists frames part : list N, concat (map o_bytes (snd (i_run cfg s1 h2))) = frames ++ part /\ spec_decode_all (length (fst (packets_of L))) (cf_version cfg) frames = Some (map (pr_canon (cf_version cfg)) (fst (packets_of L))) /\ match snd (packets_of L) with | Some x => exists (bs : bytes) (rest : list N), impl_encode_all (cf_version cfg) (fst x) (snd x) = Ok bs /\ bs = part ++ rest /\ spec_decode (cf_version cfg) bs = Some (pr_canon (cf_version cfg) x, []) | None => part = [] end.
Proof. exact @instance_wire_decodes. Qed.

Theorem C02_instance_silent_before_open : forall cfg : config, ok_cfg cfg -> forall (k : Outbound.resolver_kind) (h : list event), Forall ok_event h -> Forall not_open h -> concat (map o_bytes (snd (i_run cfg (i_init cfg k) h))) = [].
Proof. exact @instance_wire_silent_before_open. Qed.

Theorem C02_wire_example_connection1 : map o_bytes (snd (i_run ww_cfg ww_s1 ww_conn1)) = [ww_connect1; []; []; []; [50; 16; 0; 1; 116]; []; [0; 1; 0; 1; 2; 3; 4; 5]; []; [6; 7; 8; 9; 10]; []; []; [50; 12; 0; 1; 116]; []; []] /\ map (i_full ww_cfg) (fst (packets_of (i_olog ww_cfg ww_s1 ww_conn1))) = [ww_connect1; ww_pub1] /\ option_map (i_full ww_cfg) (snd (packets_of (i_olog ww_cfg ww_s1 ww_conn1))) = Some ww_pub2_id2 /\ concat (map o_bytes (snd (i_run ww_cfg ww_s1 ww_conn1))) = (ww_connect1 ++ ww_pub1) ++ [50; 12; 0; 1; 116] /\ forallb (fun x : packet * resolution => valid V5 (snd x) (fst x)) (encodes (i_olog ww_cfg ww_s1 ww_conn1)) = true /\ spec_decode_all 2 V5 (ww_connect1 ++ ww_pub1) = Some (map (pr_canon V5) (fst (packets_of (i_olog ww_cfg ww_s1 ww_conn1)))).
Proof. exact @ww_connection1. Qed.

Theorem C02_wire_example_connection2 : map o_bytes (snd (i_run ww_cfg ww_s2 ww_conn2)) = [ww_connect2; []; []; ww_pub1_dup ++ ww_pub2_id3] /\ map (i_full ww_cfg) (fst (packets_of (i_olog ww_cfg ww_s2 ww_conn2))) = [ww_connect2; ww_pub1_dup; ww_pub2_id3] /\ snd (packets_of (i_olog ww_cfg ww_s2 ww_conn2)) = None /\ forallb (fun x : packet * resolution => valid V5 (snd x) (fst x)) (encodes (i_olog ww_cfg ww_s2 ww_conn2)) = true /\ spec_decode_all 3 V5 (concat (map o_bytes (snd (i_run ww_cfg ww_s2 ww_conn2)))) = Some (map (pr_canon V5) (fst (packets_of (i_olog ww_cfg ww_s2 ww_conn2)))).
Proof. exact @ww_connection2. Qed.

Theorem C02_wire_example_run_form : let g := wfold wg0 (i_wlog ww_cfg (x_init ww_cfg) ww_hist) in conn_bytes ww_hist (snd (i_run ww_cfg (x_init ww_cfg) ww_hist)) [] = ww_connect2 ++ ww_pub1_dup ++ ww_pub2_id3 /\ map (i_full ww_cfg) (w_done g) = [ww_connect2; ww_pub1_dup; ww_pub2_id3] /\ w_cur g = None /\ w_part g = [].
Proof. exact @ww_run_form. Qed.

(* ---------- validity of everything the engine puts on the wire (ValidateProofs/Bridge*.v, EngineProofs/WireValid*.v): the premise "every seated (packet, resolution) is ValidC2S.valid" of C02_instance_wire_decodes DISCHARGED. Packet level: a PUBLISH / SUBSCRIBE / UNSUBSCRIBE / DISCONNECT (both versions) that is a value of the Rust packet type (typed), whose erased form (packet id 0, DUP 0) passed the submission-time validator validate_packet_outbound, that passed the send-time validator validate_packet_outbound_internal with its resolution, is shorter than 4 GiB, carries an engine-allocated packet id (<= 65535, DUP only on QoS >= 1: engine_ok) and a resolver's resolution (res_valid) is valid for the wire specification (C02_bridge_user and the per-kind C02_bridge_publish ...); every premise is necessary (witnesses, by computation): in particular the send-time validator alone accepts an empty topic without alias, U+0000 in the topic, oversized correlation data, a subscription identifier in a PUBLISH / identifier 0 in a SUBSCRIBE, an empty SUBSCRIBE / UNSUBSCRIBE (C02_send_time_check_alone_insufficient). The packets the engine builds itself: default_ack pid is valid iff pid is 1..65535, PINGREQ always (C02_engine_acks_valid, C02_pingreq_valid); the CONNECT of a configuration is valid IFF the configuration satisfies the explicit predicate connect_checked (C02_connect_valid_iff; connect options are validated nowhere in the library: D17 / D25 / D29; one witness configuration per clause). RUN LEVEL (C02_run_encodes_good for the abstract engine, C02_instance_... for the concrete one): invariant GI - every operation holds a submitted-and-validated user packet (up to packet id / DUP), a valid CONNECT, a default ack with a real packet id or PINGREQ; PUBREL slots hold default acks; the packet-id cursor, the negotiated client id / topic alias maximum, the decoder's buffered octets and the outbound resolver are within range - is preserved by every event (connection close uses the engine's well-formedness invariant: DUP is set on QoS >= 1 publishes only), and every encoder is constructed for the seated packet of a good operation right after the send-time validator accepted it; with the decoder facts (16-bit fields of decoded packets are below 65536 when the input are octets: C02_decoded_packets_in_range) and the resolver bound (C02_resolver_bound). Hypotheses of the final theorem C02_instance_wire_wellformed: ok_cfg, ok_event, sub_ev (submitted packets passed the submission-time validator, are typed and shorter than 4 GiB; incoming data are octets) and connect_opts_ok; conclusion: every seated (packet, resolution) is valid and the completed part of the connection's byte stream decodes, by the specification decoder, to exactly the canonical seated packets. Necessity at run level by computation: an unvalidated empty-topic PUBLISH is put on the wire and rejected by the specification decoder; 3.1.1 connect options with a password and no user name produce an invalid CONNECT ---------- *)
From GM Require Import Validate.Rules Validate.Spec ValidateProofs.SizeP ValidateProofs.RulesP ValidateProofs.BridgeDefs ValidateProofs.BridgePackets ValidateProofs.BridgeConnect ValidateProofs.BridgeWitness ValidateProofs.BridgeConnectWitness Codec.Framing Alias.Outbound EngineProofs.WFStep EngineProofs.WFInstance EngineProofs.WireValidDefs EngineProofs.WireValidFrame EngineProofs.WireValidSeat EngineProofs.WireValidRun EngineProofs.WireValidDec EngineProofs.WireValidComps EngineProofs.WireValidInstance EngineProofs.WireValidWitness.
Theorem C02_bridge_user : forall (v : version) (st : settings) (co : connect_opts) (r : resolution) (p : packet), user_kind p = true -> typed p = true -> validate_outbound (erase p) = Ok tt -> validate_outbound_internal (Some st) co r p = Ok tt -> small p (res_of p r) -> engine_ok p = true -> res_valid r = true -> (v = V311 -> r_skip_topic r = false) -> valid v r p = true.
Proof. exact @bridge_user. Qed.

Theorem C02_bridge_publish : forall (v : version) (st : settings) (co : connect_opts) (r : resolution) (p : publish), typed_publish p = true -> validate_outbound (erase (Publish p)) = Ok tt -> validate_outbound_internal (Some st) co r (Publish p) = Ok tt -> small (Publish p) r -> engine_ok (Publish p) = true -> res_valid r = true -> (v = V311 -> r_skip_topic r = false) -> valid v r (Publish p) = true.
Proof. exact @bridge_publish. Qed.

Theorem C02_bridge_subscribe : forall (v : version) (st : settings) (co : connect_opts) (r : resolution) (s : subscribe), typed_subscribe s = true -> validate_outbound (erase (Subscribe s)) = Ok tt -> validate_outbound_internal (Some st) co r (Subscribe s) = Ok tt -> small (Subscribe s) no_resolution -> engine_ok (Subscribe s) = true -> valid v r (Subscribe s) = true.
Proof. exact @bridge_subscribe. Qed.

Theorem C02_bridge_unsubscribe : forall (v : version) (st : settings) (co : connect_opts) (r : resolution) (u : unsubscribe), typed_unsubscribe u = true -> validate_outbound (erase (Unsubscribe u)) = Ok tt -> validate_outbound_internal (Some st) co r (Unsubscribe u) = Ok tt -> small (Unsubscribe u) no_resolution -> engine_ok (Unsubscribe u) = true -> valid v r (Unsubscribe u) = true.
Proof. exact @bridge_unsubscribe. Qed.

Theorem C02_bridge_disconnect : forall (v : version) (st : settings) (co : connect_opts) (r : resolution) (d : disconnect), typed_disconnect d = true -> validate_outbound (Disconnect d) = Ok tt -> validate_outbound_internal (Some st) co r (Disconnect d) = Ok tt -> small (Disconnect d) no_resolution -> valid v r (Disconnect d) = true.
Proof. exact @bridge_disconnect. Qed.

Theorem C02_bridge_premises_satisfiable : forallb (fun x : resolution * packet => bw_S (snd x) && bw_D (fst x) (snd x) && bw_rest (fst x) (snd x) && valid V5 (fst x) (snd x)) [(no_resolution, Publish (bw_pub 0 [116] 0 false)); (bw_alias, Publish (bw_pub 7 [116] 1 true)); (no_resolution, Subscribe (bw_sub 8 [bw_filter [97; 47; 35]] (Some 5))); (no_resolution, Unsubscribe (bw_unsub 9 [[97; 47; 43]])); (no_resolution, Disconnect (bw_disc (Some [98; 121; 101])))] = true.
Proof. exact @bridge_premises_satisfiable. Qed.

Theorem C02_send_time_check_alone_insufficient : forallb not_wire_valid [(no_resolution, Publish (bw_pub 0 [] 0 false)); (no_resolution, Publish (bw_pub 0 [116; 0] 0 false)); (no_resolution, Publish {| pub_pid := 0; pub_topic := [116]; pub_qos := 0; pub_dup := false; pub_retain := false; pub_payload := None; pub_pfi := None; pub_mei := None; pub_alias := None; pub_response_topic := None; pub_correlation := Some (repeat 1 (N.to_nat 65536)); pub_subids := None; pub_content_type := None; pub_up := None |}); (no_resolution, Publish {| pub_pid := 0; pub_topic := [116]; pub_qos := 0; pub_dup := false; pub_retain := false; pub_payload := None; pub_pfi := None; pub_mei := None; pub_alias := None; pub_response_topic := None; pub_correlation := None; pub_subids := Some [1]; pub_content_type := None; pub_up := None |}); (no_resolution, Subscribe (bw_sub 8 [] None)); (no_resolution, Subscribe (bw_sub 8 [bw_filter [97]] (Some 0))); (no_resolution, Unsubscribe (bw_unsub 9 [])); (no_resolution, Disconnect (bw_disc (Some [0])))] = true.
Proof. exact @send_time_check_alone_insufficient. Qed.

Theorem C02_submission_check_alone_insufficient : let x := (no_resolution, Publish (bw_pub 0 [116] 1 false)) in bw_S (snd x) && negb (bw_D (fst x) (snd x)) && bw_rest (fst x) (snd x) && negb (valid V5 (fst x) (snd x)) = true.
Proof. exact @submission_check_alone_insufficient. Qed.

Theorem C02_engine_facts_necessary : forallb (fun x : resolution * packet => bw_S (snd x) && bw_D (fst x) (snd x) && negb (engine_ok (snd x)) && negb (valid V5 (fst x) (snd x))) [(no_resolution, Publish (bw_pub 0 [116] 0 true)); (no_resolution, Publish (bw_pub 65536 [116] 1 false)); (no_resolution, Subscribe (bw_sub 65536 [bw_filter [97]] None)); (no_resolution, Unsubscribe (bw_unsub 65536 [[97]]))] = true.
Proof. exact @engine_facts_necessary. Qed.

Theorem C02_resolver_facts_necessary : forallb (fun r : resolution => bw_S (Publish (bw_pub 0 [116] 0 false)) && bw_D r (Publish (bw_pub 0 [116] 0 false)) && negb (res_valid r) && negb (valid V5 r (Publish (bw_pub 0 [116] 0 false)))) [{| r_skip_topic := true; r_alias := None |}; {| r_skip_topic := false; r_alias := Some 0 |}; {| r_skip_topic := false; r_alias := Some 65536 |}] = true.
Proof. exact @resolver_facts_necessary. Qed.

Theorem C02_type_invariants_necessary : forallb (fun p : packet => bw_S p && bw_D no_resolution p && negb (typed p) && negb (valid V5 no_resolution p)) [Publish (bw_pub 5 [116] 3 false); Publish (bw_pub 0 [255] 0 false); Subscribe (bw_sub 8 [{| sub_filter := [97]; sub_qos := 1; sub_no_local := false; sub_rap := false; sub_rh := 3 |}] None); Disconnect {| d_rc := 1; d_sei := None; d_reason := None; d_up := None; d_server_ref := None |}] = true.
Proof. exact @type_invariants_necessary. Qed.

Theorem C02_engine_acks_valid : forall (v : version) (r : resolution) (pid : N), valid v r (Puback (default_ack pid)) = pid_ok pid /\ valid v r (Pubrec (default_ack pid)) = pid_ok pid /\ valid v r (Pubrel (default_ack pid)) = pid_ok pid /\ valid v r (Pubcomp (default_ack pid)) = pid_ok pid.
Proof. exact @engine_acks_valid. Qed.

Theorem C02_pingreq_valid : forall (v : version) (r : resolution), valid v r Pingreq = true.
Proof. exact @pingreq_valid. Qed.

Theorem C02_connect_valid_iff : forall (v : version) (co : connect_opts) (cb : bool) (cid : option bytes), connect_typed co cid = true -> valid_connect v (connect_of co cb cid) = connect_checked v co cb cid.
Proof. exact @connect_valid_iff. Qed.

Theorem C02_connect_packet_valid_iff : forall (v : version) (r : resolution) (co : connect_opts) (cb : bool) (cid : option bytes), connect_typed co cid = true -> valid v r (Connect (connect_of co cb cid)) = true <-> connect_checked v co cb cid = true.
Proof. exact @connect_packet_valid_iff. Qed.

Theorem C02_connect_checked_satisfiable : bc_typed bc_ok && bc_checked V5 bc_ok && bc_checked V311 bc_ok && bc_valid V5 bc_ok && bc_valid V311 bc_ok = true.
Proof. exact @connect_checked_satisfiable. Qed.

Theorem C02_connect_clauses_necessary_both_versions : forallb (fun co : connect_opts => bc_typed co && negb (bc_checked V5 co) && negb (bc_checked V311 co) && negb (bc_valid V5 co) && negb (bc_valid V311 co)) [bc_co 0 (Some nul) None None None None None None; bc_co 0 (Some long) None None None None None None; bc_co 0 (Some [99]) (Some nul) None None None None None; bc_co 0 (Some [99]) (Some long) None None None None None; bc_co 0 (Some [99]) (Some [117]) (Some long) None None None None; bc_co 0 (Some [99]) None None None None (Some (bc_will nul None None None)) None; bc_co 0 (Some [99]) None None None None (Some (bc_will long None None None)) None; bc_co 0 (Some [99]) None None None None (Some (bc_will [119] (Some long) None None)) None] = true.
Proof. exact @connect_clauses_necessary_both_versions. Qed.

Theorem C02_connect_clauses_necessary_v5 : forallb (fun co : connect_opts => bc_typed co && negb (bc_checked V5 co) && negb (bc_valid V5 co) && bc_valid V311 co) [bc_co 0 (Some [99]) None None (Some 0) None None None; bc_co 0 (Some [99]) None None None (Some 0) None None; bc_co 0 (Some [99]) None None None None None (up1 [97] nul); bc_co 0 (Some [99]) None None None None None (up1 long [98]); bc_co 0 (Some [99]) None None None None (Some (bc_will [119] None (Some nul) None)) None; bc_co 0 (Some [99]) None None None None (Some (bc_will [119] None None (up1 nul [98]))) None] = true.
Proof. exact @connect_clauses_necessary_v5. Qed.

Theorem C02_connect_clauses_necessary_v311 : forallb (fun co : connect_opts => bc_typed co && negb (bc_checked V311 co) && negb (bc_valid V311 co) && bc_valid V5 co) [bc_co 0 (Some [99]) None (Some [112]) None None None None; bc_co 1 None None None None None None None; bc_co 1 (Some []) None None None None None None; bc_co 0 None None None None None None None] = true.
Proof. exact @connect_clauses_necessary_v311. Qed.

Theorem C02_create_connect_is_connect_of : forall (enc dec ores ires : Type) (cfg : config) (s : state enc dec ores ires), create_connect enc dec ores ires cfg s = Connect (connect_of (cf_connect cfg) (s_connected_before s) match co_client_id (cf_connect cfg) with | Some b => Some b | None => let? st := s_settings s in Some (st_client_id st) end).
Proof. exact @create_connect_eq. Qed.

Theorem C02_seated_packet_valid : forall (v : version) (sto : option settings) (co : connect_opts) (r : resolution) (p : packet), gseat v p -> validate_outbound_internal sto co r p = Ok tt -> res_le (Bv v) r -> valid v r p = true.
Proof. exact @seat_valid. Qed.

Theorem C02_decoded_packets_in_range : forall (v : version) (m : N) (d : decoder) (b : bytes), dgood d -> bytes_ok b = true -> dgood (fst (fst (decode_bytes v m d b))) /\ Forall (in_ok v) (snd (fst (decode_bytes v m d b))).
Proof. exact @decode_bytes_good. Qed.

Theorem C02_resolver_bound : forall (b : N) (o : ores) (a : option N) (t : bytes) (o' : ores) (r : resolution), b <= 65535 -> og b o -> ores_resolve o a t = Ok (o', r) -> og b o' /\ res_le b r.
Proof. exact @og_resolve. Qed.

Theorem C02_run_encodes_good : forall (enc : Type) (enc_reset : version -> packet -> resolution -> outcome enc) (enc_call : enc -> N -> N -> outcome (bytes * enc)) (enc_done : enc -> bool) (dec : Type) (dec_init : dec) (dec_feed : version -> N -> dec -> bytes -> dec * list packet * outcome unit) (ores : Type) (ores_reset : ores -> N -> ores) (ores_resolve : ores -> option N -> bytes -> outcome (ores * resolution)) (ires : Type) (ires_reset : ires -> ires) (ires_resolve : ires -> option N -> bytes -> outcome (ires * bytes)) (v_out : option settings -> connect_opts -> resolution -> packet -> outcome unit) (v_in : option settings -> packet -> outcome unit) (cfg : config) (HC : comps_ok enc enc_reset enc_call dec dec_init dec_feed ores ores_reset ores_resolve ires ires_reset ires_resolve v_out v_in), ok_cfg cfg -> forall (HW : wv_comps dec ores dec_init dec_feed ores_reset ores_resolve v_in (cf_version cfg) (cf_connect cfg)) (h : list event) (s : state enc dec ores ires), WFX enc enc_reset enc_call dec dec_init dec_feed ores ores_reset ores_resolve ires ires_reset ires_resolve v_out v_in cfg HC s -> GI enc dec dec_init dec_feed ores ores_reset ores_resolve ires v_in cfg HW s -> Forall ok_event h -> Forall sub_ev h -> Forall (pr_good v_out cfg) (encodes (run_olog enc enc_reset enc_call enc_done dec dec_init dec_feed ores ores_reset ores_resolve ires ires_reset ires_resolve v_out v_in cfg s h)).
Proof. exact @run_encodes_good. Qed.

Theorem C02_connect_opts_ok_configured : forall (v : version) (co : connect_opts) (i : bytes), co_client_id co = Some i -> connect_typed co (Some i) = true -> connect_checked v co false (Some i) = true -> connect_checked v co true (Some i) = true -> connect_opts_ok v co.
Proof. exact @connect_opts_ok_configured. Qed.

Theorem C02_connect_opts_ok_necessary : forall (v : version) (co : connect_opts) (cb : bool) (cid : option bytes) (r : resolution), cid_for co cid -> connect_typed co cid = true -> valid v r (Connect (connect_of co cb cid)) = false -> ~ connect_opts_ok v co.
Proof. exact @connect_opts_ok_necessary. Qed.

Theorem C02_instance_reach_good : forall cfg : config, ok_cfg cfg -> forall (k : resolver_kind) (Hco : connect_opts_ok (cf_version cfg) (cf_connect cfg)) (h : list event), Forall ok_event h -> Forall sub_ev h -> WFX enc impl_steps encode_call decoder decoder_init decode_bytes ores ores_reset ores_resolve Inbound.ires Inbound.ires_reset Inbound.ires_resolve validate_outbound_internal validate_inbound_internal cfg instance_comps_ok (fst (i_run cfg (i_init cfg k) h)) /\ GI enc decoder decoder_init decode_bytes ores ores_reset ores_resolve Inbound.ires validate_inbound_internal cfg (instance_wv (cf_version cfg) (cf_connect cfg) (connect_opts_cfg (cf_version cfg) (cf_connect cfg) Hco)) (fst (i_run cfg (i_init cfg k) h)).
Proof. exact @instance_reach_good. Qed.

Theorem C02_instance_encodes_valid : forall cfg : config, ok_cfg cfg -> forall k : resolver_kind, connect_opts_ok (cf_version cfg) (cf_connect cfg) -> forall h : list event, Forall ok_event h -> Forall sub_ev h -> Forall (pr_valid (cf_version cfg)) (encodes (i_olog cfg (i_init cfg k) h)).
Proof. exact @instance_encodes_valid. Qed.

Theorem C02_instance_wire_wellformed : forall cfg : config, ok_cfg cfg -> forall k : resolver_kind, connect_opts_ok (cf_version cfg) (cf_connect cfg) -> forall (h1 : list event) (now dl : N) (h2 : list event), Forall ok_event (h1 ++ EvOpen now dl :: h2) -> Forall sub_ev (h1 ++ EvOpen now dl :: h2) -> Forall not_open h2 -> let s1 := fst (i_run cfg (i_init cfg k) (h1 ++ [EvOpen now dl])) in let L := i_olog cfg s1 h2 in Forall (pr_valid (cf_version cfg)) (encodes L) /\ (exists frames part : list N, concat (map o_bytes (snd (i_run cfg s1 h2))) = frames ++ part /\ spec_decode_all (length (fst (packets_of L))) (cf_version cfg) frames = Some (map (pr_canon (cf_version cfg)) (fst (packets_of L))) /\ match snd (packets_of L) with | Some x => exists (bs : bytes) (rest : list N), impl_encode_all (cf_version cfg) (fst x) (snd x) = Ok bs /\ bs = part ++ rest /\ spec_decode (cf_version cfg) bs = Some (pr_canon (cf_version cfg) x, []) | None => part = [] end).
Proof. exact @instance_wire_wellformed. Qed.

Theorem C02_wire_wellformed_example : Forall (pr_valid V5) (encodes (i_olog ww_cfg ww_s2 ww_conn2)) /\ (exists frames part : list N, concat (map o_bytes (snd (i_run ww_cfg ww_s2 ww_conn2))) = frames ++ part /\ spec_decode_all (length (fst (packets_of (i_olog ww_cfg ww_s2 ww_conn2)))) V5 frames = Some (map (pr_canon V5) (fst (packets_of (i_olog ww_cfg ww_s2 ww_conn2)))) /\ match snd (packets_of (i_olog ww_cfg ww_s2 ww_conn2)) with | Some x => exists (bs : bytes) (rest : list N), impl_encode_all V5 (fst x) (snd x) = Ok bs /\ bs = part ++ rest /\ spec_decode V5 bs = Some (pr_canon V5 x, []) | None => part = [] end).
Proof. exact @ww_wellformed. Qed.

Theorem C02_unvalidated_submission_reaches_the_wire : is_ok (validate_outbound wv_bad_pub) = false /\ map (fun x : packet * resolution => valid V5 (snd x) (fst x)) (encodes (i_olog ww_cfg ww_s1 wv_bad_hist)) = [true; false] /\ last (map o_bytes (snd (i_run ww_cfg ww_s1 wv_bad_hist))) [] = [48; 4; 0; 0; 0; 1] /\ spec_decode V5 [48; 4; 0; 0; 0; 1] = None.
Proof. exact @unvalidated_submission_reaches_the_wire. Qed.

Theorem C02_unchecked_connect_options_reach_the_wire : let s1 := fst (i_run wv_bad_cfg (x_init wv_bad_cfg) [EvOpen 0 1000]) in map (fun x : packet * resolution => valid V311 (snd x) (fst x)) (encodes (i_olog wv_bad_cfg s1 [EvService 0 4096 0])) = [false] /\ spec_decode V311 (concat (map o_bytes (snd (i_run wv_bad_cfg s1 [EvService 0 4096 0])))) = None /\ connect_typed wv_bad_connect (Some [97; 97]) = true /\ connect_checked V311 wv_bad_connect false (Some [97; 97]) = false.
Proof. exact @unchecked_connect_options_reach_the_wire. Qed.

Theorem C02_bad_connect_options_excluded : ~ connect_opts_ok V311 wv_bad_connect.
Proof. exact @bad_connect_options_excluded. Qed.

