(* C02 — outbound packets are spec-conformant.  Only statements; proofs live in CodecProofs/Enc*.v *)
From GM Require Import Base.Prelude Base.Outcome Codec.Prim Codec.Packets Codec.Steps Codec.ImplEncode
  Codec.SpecDecodeC2S Codec.ValidC2S.
Open Scope N_scope.

Example C02_example :
  impl_encode_all V5 Pingreq no_resolution = Ok [192; 0] /\ spec_decode V5 [192; 0] = Some (Pingreq, []).
Proof. vm_compute. split; reflexivity. Qed.
