From GM Require Import Base.Prelude Base.Outcome Codec.Packets Codec.Prim Codec.ReasonCodes
  Codec.ImplDecode Codec.Framing Codec.SpecEncodeS2C Codec.StringsNoNul Properties.C03.
Open Scope N_scope.
Check C03_chunking_any_body : forall body max_size d a b,
  result_equiv (feed2 body max_size d a b) (decode_bytes_with body max_size d (a ++ b)).
Check C03_chunking : forall v max_size d a b,
  result_equiv (feed2 (impl_decode_packet v) max_size d a b) (decode_bytes v max_size d (a ++ b)).
Check C03_chunking_partition : forall v max_size chunks d, chunks <> [] ->
  result_equiv (feed (impl_decode_packet v) max_size d chunks) (decode_bytes v max_size d (concat chunks)).
Check C03_chunking_two_partitions : forall v max_size d c1 c2,
  c1 <> [] -> c2 <> [] -> concat c1 = concat c2 ->
  result_equiv (feed (impl_decode_packet v) max_size d c1) (feed (impl_decode_packet v) max_size d c2).
Check C03_driver_function : forall v max_size chunks d i, chunks <> [] ->
  let '(d', ps, r, j) := decode_chunks v max_size d chunks i in
  feed (impl_decode_packet v) max_size d chunks = (d', ps, r).
Check C03_packet_decoders_total : forall v first_byte body, is_panic (impl_decode_packet v first_byte body) = false.
Check C03_no_panic : forall v max_size d data, wf d ->
  let '(d', ps, r) := decode_bytes v max_size d data in is_panic r = false /\ wf d'.
Check C03_no_panic_stream : forall v max_size chunks,
  let '(d', ps, r, j) := decode_chunks v max_size decoder_init chunks 0 in is_panic r = false.
Check C03_size_gate : forall v max_size d first_byte cont last rl,
  d_state d = ReadPacketType -> d_scratch d = [] ->
  Forall (fun x => 128 <= x) cont -> (length cont <= 3)%nat ->
  decode_vli (cont ++ [last]) = VliValue rl [] ->
  effective_max max_size < rl + 1 + len (cont ++ [last]) ->
  (forall k, exists d', decode_bytes v max_size d (first_byte :: firstn k cont) = (d', [], Ok tt)
                        /\ d_scratch d' = firstn k cont) /\
  (forall rest, exists d',
      decode_bytes v max_size d (first_byte :: cont ++ last :: rest) = (d', [], Err EDecodingFailure)
      /\ d_state d' = TerminalError /\ d_scratch d' = cont ++ [last]).
Check C03_reason_codes_connack : forall b, b < 256 -> impl_connack_code_ok b = spec_connack_code_ok b.
Check C03_reason_codes_puback : forall b, b < 256 -> impl_puback_code_ok b = spec_puback_code_ok b.
Check C03_reason_codes_pubrec : forall b, b < 256 -> impl_pubrec_code_ok b = spec_pubrec_code_ok b.
Check C03_reason_codes_pubrel : forall b, b < 256 -> impl_pubrel_code_ok b = spec_pubrel_code_ok b.
Check C03_reason_codes_pubcomp : forall b, b < 256 -> impl_pubcomp_code_ok b = spec_pubcomp_code_ok b.
Check C03_reason_codes_suback : forall b, b < 256 -> impl_suback_code_ok b = spec_suback_code_ok b.
Check C03_reason_codes_disconnect : forall b, b < 256 -> impl_disconnect_code_ok b = spec_disconnect_code_ok b.
Check C03_reason_codes_auth : forall b, b < 256 -> impl_auth_code_ok b = spec_auth_code_ok b.
Check C03_reason_codes_connack311 : forall b, b < 256 -> impl_connack311_code_ok b = spec_connack311_code_ok b.
Check C03_reason_codes_suback311 : forall b, b < 256 -> impl_suback311_code_ok b = spec_suback311_code_ok b.
Check C03_reason_codes_qos : forall b, b < 256 -> impl_qos_ok b = spec_qos_ok b.
Check C03_reason_codes_pfi : forall b, b < 256 -> impl_pfi_ok b = spec_pfi_ok b.
Check C03_reason_codes_unsuback : forall b, b < 256 -> b <> 144 -> impl_unsuback_code_ok b = spec_unsuback_code_ok b.
Check C03_reason_codes_unsuback_only_144 : forall b, b < 256 ->
  impl_unsuback_code_ok b <> spec_unsuback_code_ok b -> b = 144.
Check C03_reason_codes_unsuback_144_lenient : spec_unsuback_code_ok 144 = false /\ impl_unsuback_code_ok 144 = true.
Check C03_reason_codes_unsuback_spec_accepted : forall b, b < 256 ->
  spec_unsuback_code_ok b = true -> impl_unsuback_code_ok b = true.
Check C03_faithful_packet : forall v p its compact first_byte body,
  legal_packet v p = true ->
  same_per_id (items_of p) its ->
  spec_body v p its compact = Some (first_byte, body) ->
  impl_decode_packet v first_byte body = Ok p.
Check C03_faithful_connack_v5 : forall c its compact fb body,
  legal_connack V5 c = true -> same_per_id (items_connack c) its ->
  spec_body V5 (Connack c) its compact = Some (fb, body) -> decode_connack_packet5 fb body = Ok (Connack c).
Check C03_faithful_publish_v5 : forall q its compact fb body,
  legal_publish V5 q = true -> same_per_id (items_publish q) its ->
  spec_body V5 (Publish q) its compact = Some (fb, body) -> decode_publish_packet5 fb body = Ok (Publish q) /\ fb / 16 = 3.
Check C03_faithful_disconnect_v5 : forall d its compact fb body,
  legal_disconnect V5 d = true -> same_per_id (items_disconnect d) its ->
  spec_body V5 (Disconnect d) its compact = Some (fb, body) -> decode_disconnect_packet5 fb body = Ok (Disconnect d).
Check C03_faithful_suback_v5 : forall s its compact fb body,
  legal_suback V5 s = true -> same_per_id (items_suback s) its ->
  spec_body V5 (Suback s) its compact = Some (fb, body) -> decode_suback_packet5 fb body = Ok (Suback s).
Check C03_faithful_unsuback_v5 : forall s its compact fb body,
  legal_unsuback V5 s = true -> same_per_id (items_unsuback s) its ->
  spec_body V5 (Unsuback s) its compact = Some (fb, body) -> decode_unsuback_packet5 fb body = Ok (Unsuback s).
Check C03_faithful_stream : forall v p order compact bs rest max_size,
  spec_encode_with v p order compact = Some bs ->
  len bs <= effective_max max_size ->
  decode_bytes v max_size decoder_init (bs ++ rest) =
  (let '(d2, ps, r) := decode_bytes v max_size decoder_init rest in (d2, p :: ps, r)).
Check C03_strings_no_nul : forall v first_byte body p,
  impl_decode_packet v first_byte body = Ok p -> packet_strings_no_nul p = true.
Check C03_strings_no_nul_stream : forall v max_size chunks d i,
  let '(d', ps, r, j) := decode_chunks v max_size d chunks i in
  Forall (fun p => packet_strings_no_nul p = true) ps.
Check C03_strings_no_nul_helpers :
  (forall b s rest, decode_length_prefixed_string b = Ok (s, rest) -> no_null s = true) /\
  (forall b s rest, decode_optional_length_prefixed_string b None = Ok (Some s, rest) -> no_null s = true) /\
  (forall b props name value l rest,
     decode_user_property b props = Ok (Some (l ++ [{| up_name := name; up_value := value |}]), rest) ->
     no_null name = true /\ no_null value = true).
Print Assumptions C03_chunking_any_body.
Print Assumptions C03_chunking.
Print Assumptions C03_chunking_partition.
Print Assumptions C03_chunking_two_partitions.
Print Assumptions C03_driver_function.
Print Assumptions C03_packet_decoders_total.
Print Assumptions C03_no_panic.
Print Assumptions C03_no_panic_stream.
Print Assumptions C03_size_gate.
Print Assumptions C03_reason_codes_connack.
Print Assumptions C03_reason_codes_puback.
Print Assumptions C03_reason_codes_pubrec.
Print Assumptions C03_reason_codes_pubrel.
Print Assumptions C03_reason_codes_pubcomp.
Print Assumptions C03_reason_codes_suback.
Print Assumptions C03_reason_codes_disconnect.
Print Assumptions C03_reason_codes_auth.
Print Assumptions C03_reason_codes_connack311.
Print Assumptions C03_reason_codes_suback311.
Print Assumptions C03_reason_codes_qos.
Print Assumptions C03_reason_codes_pfi.
Print Assumptions C03_reason_codes_unsuback.
Print Assumptions C03_reason_codes_unsuback_only_144.
Print Assumptions C03_reason_codes_unsuback_144_lenient.
Print Assumptions C03_reason_codes_unsuback_spec_accepted.
Print Assumptions C03_faithful_packet.
Print Assumptions C03_faithful_connack_v5.
Print Assumptions C03_faithful_publish_v5.
Print Assumptions C03_faithful_disconnect_v5.
Print Assumptions C03_faithful_suback_v5.
Print Assumptions C03_faithful_unsuback_v5.
Print Assumptions C03_faithful_stream.
Print Assumptions C03_strings_no_nul.
Print Assumptions C03_strings_no_nul_stream.
Print Assumptions C03_strings_no_nul_helpers.
