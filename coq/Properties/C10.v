(* C10 - ordering: statements only, proofs in EngineProofs/Order.v and AssocLemmas.v *)
From GM Require Import Base.Prelude Base.Outcome Codec.Packets Codec.Settings Engine.Model EngineProofs.AssocLemmas EngineProofs.Order.
From RecordUpdate Require Import RecordSet.
Open Scope N_scope.

Theorem C10_dequeue_priority : forall (enc dec ores ires : Type) (cfg : config) (s s' : state enc dec ores ires) (mode : bool) (id : N), dequeue enc dec ores ires cfg s mode = (s', Some id) -> s_pwc s = false /\ ((exists r : list N, s_hq s = id :: r /\ s_hq s' = r /\ s_rq s' = s_rq s /\ s_uq s' = s_uq s) \/ mode = true /\ s_hq s = [] /\ (exists r : list N, s_rq s = id :: r /\ s_rq s' = r /\ s_hq s' = [] /\ s_uq s' = s_uq s) \/ mode = true /\ s_hq s = [] /\ s_rq s = [] /\ (exists r : list N, s_uq s = id :: r /\ s_uq s' = r /\ s_hq s' = [] /\ s_rq s' = [])).
Proof. exact dequeue_priority. Qed.

Theorem C10_dequeue_none_unchanged : forall (enc dec ores ires : Type) (cfg : config) (s s' : state enc dec ores ires) (mode : bool), dequeue enc dec ores ires cfg s mode = (s', None) -> s' = s.
Proof. exact dequeue_none_unchanged. Qed.

Theorem C10_submit_appends : forall (enc dec ores ires : Type) (cfg : config) (s : state enc dec ores ires) (p : packet) (t : option N), is_disconnect p = false -> passes_now enc dec ores ires cfg s p = true -> s_uq (r_s (user_event enc dec ores ires cfg s p t)) = s_uq s ++ [s_next_id s] /\ s_next_id (r_s (user_event enc dec ores ires cfg s p t)) = s_next_id s + 1 /\ s_rq (r_s (user_event enc dec ores ires cfg s p t)) = s_rq s /\ s_hq (r_s (user_event enc dec ores ires cfg s p t)) = s_hq s.
Proof. exact submit_appends. Qed.

Theorem C10_session_sorts : forall (enc dec ores ires : Type) (cfg : config) (s : state enc dec ores ires) (sp : bool), is_panic (r_out (apply_session enc dec ores ires cfg s sp)) = false -> sorted_le (s_rq (r_s (apply_session enc dec ores ires cfg s sp))) /\ sorted_le (s_uq (r_s (apply_session enc dec ores ires cfg s sp))).
Proof. exact session_sorts. Qed.

Theorem C10_session_present_keeps_resubmits : forall (enc dec ores ires : Type) (cfg : config) (s : state enc dec ores ires), is_panic (r_out (apply_session enc dec ores ires cfg s true)) = false -> Permutation.Permutation (s_rq (r_s (apply_session enc dec ores ires cfg s true))) (s_rq s) /\ Permutation.Permutation (s_uq (r_s (apply_session enc dec ores ires cfg s true))) (s_uq s).
Proof. exact session_present_keeps_resubmits. Qed.

Theorem C10_sort_is_permutation : forall l : list N, Permutation.Permutation (sort l) l.
Proof. exact sort_perm. Qed.

Theorem C10_sort_is_sorted : forall l : list N, sorted_le (sort l).
Proof. exact sort_sorted. Qed.

