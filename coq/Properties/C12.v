(* C12 — lifecycle: well-formed event stream; stop always stops; the loop never dies.
   Only statements; proofs live in ClientProofs/ImplP.v and ClientProofs/LifecycleW.v.

   Models: Client/Impl.v (MqttClientImpl), Client/Driver.v (both event loops as one transition system
   over abstract driver events, flag thr = threaded).  The protocol engine is ABSTRACT in the first group
   of positive theorems; what they assume about it is exactly [engine_facts] (ClientProofs/ImplP.v): eight
   statements built from the executable predicates fact_* of Client/Impl.v, which the C12 driver
   evaluates on every call of the REAL engine it observes.  The second group (C12_composed_*, end of the
   file) DISCHARGES that hypothesis for the engine model (Engine/Instance.v: i_init / i_step): the adapter
   Client/ImplEngine.v satisfies the facts on every well-formed engine state (C12_engine_model_facts), so
   the theorems hold for the composed model client + engine with no premise but environment bounds
   (ok_cfg: finite ping timeout; the clock stays below 2^62 ms).  The regression theorems for the repaired
   defects D13 / D10b run the former counterexamples on the composed model. *)
From GM Require Import Base.Prelude Base.Outcome Codec.Packets Engine.Model Engine.Instance
  Client.Backoff Client.Impl Client.Driver Client.MiniEngine Client.ImplEngine
  ClientProofs.ImplP ClientProofs.LifecycleW ClientProofs.EngineFactsP ClientProofs.ComposedP.
From GM Require EngineProofs.WFDefs.
Notation ok_cfg := WFDefs.ok_cfg.
Open Scope N_scope.

(* compute_optional_state_transition, exhaustively: all 5 current x 5 desired x 3 stop-option shapes
   (75 cells; the driver regenerates the same 75 cells from the compiled implementation on every run) *)
Theorem C12_transition_table : forall cur des stop, cost cur des stop = cost_spec cur des stop.
Proof. exact cost_is_spec. Qed.

Theorem C12_transition_table_complete :
  length cost_domain = 75%nat /\ forall cur des stop, In (cur, des, stop) cost_domain.
Proof. split; [exact cost_domain_length | exact cost_domain_complete]. Qed.

(* every run of either driver — every list of driver events, i.e. every schedule, transport behaviour and
   request timing — emits a prefix of (Attempt (Failure | Success Disconnection))* with Stopped only between attempts *)
Theorem C12_event_grammar :
  forall E U D e_tag e_user e_disc e_reset e_opened e_closed e_data e_wc e_service e_nst,
  engine_facts E U D e_tag e_user e_disc e_reset e_opened e_closed e_data e_wc e_service ->
  forall thr e0 bc timeout h, e_tag e0 = TDisconnected ->
  grammar_ok (d_log (drun E U D e_tag e_user e_disc e_reset e_opened e_closed e_data e_wc e_service e_nst thr
                          (dinit E e0 bc timeout) h)) = true.
Proof. exact event_grammar_thm. Qed.

(* transition_to_state never returns Err from a reachable state: the loop never exits through a failed transition *)
Theorem C12_loop_alive :
  forall E U D e_tag e_user e_disc e_reset e_opened e_closed e_data e_wc e_service e_nst,
  engine_facts E U D e_tag e_user e_disc e_reset e_opened e_closed e_data e_wc e_service ->
  forall thr e0 bc timeout h, e_tag e0 = TDisconnected ->
  d_status (drun E U D e_tag e_user e_disc e_reset e_opened e_closed e_data e_wc e_service e_nst thr
                 (dinit E e0 bc timeout) h) <> Dead.
Proof. exact loop_alive_thm. Qed.

(* D10b (fixed by 8daf4ff): a connect_timeout of Duration::MAX no longer kills the loop — the former counterexample on
   the engine model, both drivers — and the saturating deadline addition is total whenever the clock itself is 2^32 s
   away from the end of the Instant range *)
Theorem C12_loop_alive_huge_timeout :
  d_status (i_drun w_cfg false w_init_huge [(0, DOp OpStart); (0, DConnOk)]) = Running /\
  cur (i_drun w_cfg false w_init_huge [(0, DOp OpStart); (0, DConnOk)]) = CConnected /\
  d_status (i_drun w_cfg true w_init_huge [(0, DOp OpStart); (0, DCheck); (0, DConnFail)]) = Running /\
  cur (i_drun w_cfg true w_init_huge [(0, DOp OpStart); (0, DCheck); (0, DConnFail)]) = CPendingReconnect.
Proof. exact huge_timeout_ok. Qed.

Theorem C12_deadline_total : forall site t d, t + U32S <= IMAX -> exists r, add_saturating site t d = Ok r.
Proof. exact add_saturating_total. Qed.

(* D13 (fixed by d52fbbc): the former counterexample — stop-with-DISCONNECT requested during the CONNECT/CONNACK
   handshake — on the engine model, both drivers: the client stops at the next check, one Stopped event, the attempt
   is reported as failed, no DISCONNECT is waited for *)
Theorem C12_stop_during_handshake_stops : forall thr,
  cur (i_drun w_cfg thr w_init w_d13_prefix) = CStopped /\
  d_status (i_drun w_cfg thr w_init w_d13_prefix) = Running /\
  c_stop (d_c (i_drun w_cfg thr w_init w_d13_prefix)) = SNone /\
  d_log (i_drun w_cfg thr w_init w_d13_prefix) = [EvAttempt; EvFailure EUserInitiatedDisconnect false; EvStopped].
Proof. exact stop_during_handshake_stops. Qed.

(* "stop stops", positive part: in EVERY reachable state of either driver (every history h) in which Stopped is desired and the
   client is not a live connection waiting for its DISCONNECT to be flushed, the next evaluation of
   compute_optional_state_transition — tokio: after every select! branch, hence right after the stop request itself;
   threaded: at the end of the current loop iteration — leaves the client Stopped, having emitted exactly one Stopped event
   (none if it already was Stopped) and no Attempt.  The excluded state is the designed wait of stop-with-DISCONNECT, which
   since d52fbbc is only entered with an ESTABLISHED connection whose engine has the DISCONNECT queued
   (C12_stop_waits_only_when_established below); it ends when that DISCONNECT is flushed or the connection ends. *)
Theorem C12_stop_stops :
  forall E U D e_tag e_user e_disc e_reset e_opened e_closed e_data e_wc e_service e_nst,
  engine_facts E U D e_tag e_user e_disc e_reset e_opened e_closed e_data e_wc e_service ->
  forall thr e0 bc timeout, e_tag e0 = TDisconnected -> forall h now,
  let s := reach E U D e_tag e_user e_disc e_reset e_opened e_closed e_data e_wc e_service e_nst thr e0 bc timeout h in
  d_status s = Running -> c_des (d_c s) = CStopped -> (cur s <> CConnected \/ c_stop (d_c s) <> SDisc) ->
  let s' := check E e_opened e_closed thr s now in
  d_status s' = Running /\ cur s' = CStopped /\ c_des (d_c s') = CStopped /\
  exists evs, d_log s' = d_log s ++ evs /\
              count_stopped evs = (if cstate_eqb (cur s) CStopped then 0 else 1)%nat /\
              existsb is_attempt_ev evs = false.
Proof. intros. eapply stop_stops_reach; eauto. Qed.

(* the two-event form: in EVERY reachable state at the start of a loop iteration (no flush pending), a stop request — with or
   without a DISCONNECT packet, unless it keeps the packet because a connection is established — followed by the end of that
   iteration leaves the client Stopped with exactly one Stopped event (none if it already was Stopped) and no Attempt.
   For tokio the first event alone already does it (the check follows every select! branch); DCheck is then a no-op. *)
Theorem C12_stop_stops_two_events :
  forall E U D e_tag e_user e_disc e_reset e_opened e_closed e_data e_wc e_service e_nst,
  engine_facts E U D e_tag e_user e_disc e_reset e_opened e_closed e_data e_wc e_service ->
  forall thr e0 bc timeout, e_tag e0 = TDisconnected -> forall h now now' d,
  let s := reach E U D e_tag e_user e_disc e_reset e_opened e_closed e_data e_wc e_service e_nst thr e0 bc timeout h in
  d_status s = Running -> d_flush s = false -> d_pos s = 0 ->
  c_stop (handle_op E U D e_tag e_user e_disc e_reset (d_c s) now (OpStop d)) <> SDisc ->
  let s2 := dstep E U D e_tag e_user e_disc e_reset e_opened e_closed e_data e_wc e_service e_nst thr
              (dstep E U D e_tag e_user e_disc e_reset e_opened e_closed e_data e_wc e_service e_nst thr s now (DOp (OpStop d)))
              now' DCheck in
  d_status s2 = Running /\ cur s2 = CStopped /\ c_des (d_c s2) = CStopped /\
  exists evs, d_log s2 = d_log s ++ evs /\
              count_stopped evs = (if cstate_eqb (cur s) CStopped then 0 else 1)%nat /\
              existsb is_attempt_ev evs = false.
Proof. intros. eapply stop_stops_two_reach; eauto. Qed.

(* since d52fbbc a stop request leaves the client waiting for a DISCONNECT only if a connection is established (the engine is
   Connected after the DISCONNECT was submitted, so it has queued it): in every reachable state of either driver *)
Theorem C12_stop_waits_only_when_established :
  forall E U D e_tag e_user e_disc e_reset e_opened e_closed e_data e_wc e_service e_nst,
  engine_facts E U D e_tag e_user e_disc e_reset e_opened e_closed e_data e_wc e_service ->
  forall thr e0 bc timeout, e_tag e0 = TDisconnected -> forall h now d,
  let s := reach E U D e_tag e_user e_disc e_reset e_opened e_closed e_data e_wc e_service e_nst thr e0 bc timeout h in
  d_status s = Running ->
  let c' := handle_op E U D e_tag e_user e_disc e_reset (d_c s) now (OpStop d) in
  c_stop c' = SDisc -> c_cur c' = CConnected /\ e_tag (c_eng c') = TConnected.
Proof. intros. eapply stop_waits_only_when_established; eauto. Qed.

(* restartable: whenever the client is Stopped and a start request has been handled, the next check starts an attempt *)
Theorem C12_restartable :
  forall E U D e_tag e_user e_disc e_reset e_opened e_closed e_data e_wc e_service e_nst thr e0 bc timeout h now,
  let s := reach E U D e_tag e_user e_disc e_reset e_opened e_closed e_data e_wc e_service e_nst thr e0 bc timeout h in
  d_status s = Running -> cur s = CStopped -> c_des (d_c s) = CConnected ->
  let s' := check E e_opened e_closed thr s now in
  cur s' = CConnecting /\ d_log s' = d_log s ++ [EvAttempt] /\ d_status s' <> Dead.
Proof. intros. eapply restartable_reach; eauto. Qed.

(* close is terminal: outside the wait-for-DISCONNECT state the next check after a close request ends the loop without a
   further Attempt, and an exited loop ignores every later event (a later start cannot revive it) *)
Theorem C12_close_terminal :
  forall E U D e_tag e_user e_disc e_reset e_opened e_closed e_data e_wc e_service e_nst,
  engine_facts E U D e_tag e_user e_disc e_reset e_opened e_closed e_data e_wc e_service ->
  forall thr e0 bc timeout, e_tag e0 = TDisconnected -> forall h now k,
  let s := reach E U D e_tag e_user e_disc e_reset e_opened e_closed e_data e_wc e_service e_nst thr e0 bc timeout h in
  d_status s = Running -> c_des (d_c s) = CShutdown -> (cur s <> CConnected \/ c_stop (d_c s) <> SDisc) ->
  let s' := check E e_opened e_closed thr s now in
  d_status s' = Exited /\
  existsb is_attempt_ev (skipn (length (d_log s)) (d_log s')) = false /\
  drun E U D e_tag e_user e_disc e_reset e_opened e_closed e_data e_wc e_service e_nst thr s' k = s'.
Proof. intros. eapply close_terminal_reach; eauto. Qed.

(* the engine MODEL (Engine/Instance.v) satisfies the ConnectionOpened fact in every state (the other facts are
   evaluated on the real engine at run time; see ClientProofs/EngineFactsP.v for what they would need) *)
Theorem C12_engine_model_opened : forall cfg e now dl,
  fact_opened (ie_tag e) (is_ok (snd (ie_opened cfg e now dl))) (ie_tag (fst (ie_opened cfg e now dl))) = true.
Proof. exact ie_fact_opened. Qed.

(* non-vacuity: the engine facts are satisfiable, and a stop-with-DISCONNECT on an ESTABLISHED connection stops *)
Example C12_engine_facts_satisfiable :
  engine_facts me unit unit me_tag me_user me_disc me_reset me_opened me_closed me_data me_wc me_service.
Proof. exact mini_engine_facts. Qed.


(* ================= the composed model: client implementation + event loop over the ENGINE MODEL =================
   E := istate (Engine/Instance.v), every engine entry point := the corresponding i_step call (Client/ImplEngine.v;
   client clock in ns, engine clock in ms, service buffer capacity 4096).  No engine hypothesis is left:
   [IWF cfg] is the engine's well-formedness invariant (EngineProofs/WFStep.v WFX on the instance), it holds of i_init and is
   preserved by every i_step; on the states satisfying it the adapter obeys all eight facts.  Proved from the protocol-state
   table (C07_protocol_state_table), the close spec (close returns Ok from every well-formed state but Disconnected: C11_close_clean)
   and EngineProofs/ConnackEvents.v (one IncomingData call reports at most one CONNACK, only while one is awaited, and a
   successful one ends the wait). *)
Theorem C12_engine_model_facts : forall cfg, ok_cfg cfg ->
  engine_facts_inv istate ImplEngine.U packet (IWF cfg) clock_ms_ok ie_tag (ie_user cfg) (ie_disc cfg) (ie_reset cfg)
    (ie_opened cfg) (ie_closed cfg) (ie_data cfg) (ie_wc cfg) (ie_service cfg).
Proof. exact ie_engine_facts. Qed.

Theorem C12_engine_model_init_wf : forall cfg k, IWF cfg (i_init cfg k) /\ ie_tag (i_init cfg k) = TDisconnected.
Proof. intros cfg k. split; [apply IWF_init|reflexivity]. Qed.

(* [i_clock_ok h]: every event of the history happens at a clock value of at most 2^62 ms (TMAX) *)
Theorem C12_composed_event_grammar : forall cfg, ok_cfg cfg -> forall k thr bc timeout h, i_clock_ok h ->
  grammar_ok (d_log (i_drun cfg thr (i_dinit cfg k bc timeout) h)) = true.
Proof. exact composed_event_grammar. Qed.

Theorem C12_composed_loop_alive : forall cfg, ok_cfg cfg -> forall k thr bc timeout h, i_clock_ok h ->
  d_status (i_drun cfg thr (i_dinit cfg k bc timeout) h) <> Dead.
Proof. exact composed_loop_alive. Qed.

Theorem C12_composed_stop_stops : forall cfg, ok_cfg cfg -> forall k thr bc timeout h now, i_clock_ok h ->
  let s := i_drun cfg thr (i_dinit cfg k bc timeout) h in
  d_status s = Running -> c_des (d_c s) = CStopped -> (cur s <> CConnected \/ c_stop (d_c s) <> SDisc) ->
  let s' := check istate (ie_opened cfg) (ie_closed cfg) thr s now in
  d_status s' = Running /\ cur s' = CStopped /\ c_des (d_c s') = CStopped /\
  exists evs, d_log s' = d_log s ++ evs /\
              count_stopped evs = (if cstate_eqb (cur s) CStopped then 0 else 1)%nat /\
              existsb is_attempt_ev evs = false.
Proof. exact composed_stop_stops. Qed.

Theorem C12_composed_stop_stops_two_events : forall cfg, ok_cfg cfg -> forall k thr bc timeout h now now' d, i_clock_ok h ->
  let s := i_drun cfg thr (i_dinit cfg k bc timeout) h in
  d_status s = Running -> d_flush s = false -> d_pos s = 0 ->
  c_stop (handle_op istate ImplEngine.U packet ie_tag (ie_user cfg) (ie_disc cfg) (ie_reset cfg) (d_c s) now (OpStop d)) <> SDisc ->
  let s2 := i_dstep cfg thr (i_dstep cfg thr s now (DOp (OpStop d))) now' DCheck in
  d_status s2 = Running /\ cur s2 = CStopped /\ c_des (d_c s2) = CStopped /\
  exists evs, d_log s2 = d_log s ++ evs /\
              count_stopped evs = (if cstate_eqb (cur s) CStopped then 0 else 1)%nat /\
              existsb is_attempt_ev evs = false.
Proof. exact composed_stop_stops_two_events. Qed.

(* the designed wait is entered only on an established connection: the engine model is Connected (it has queued the DISCONNECT) *)
Theorem C12_composed_stop_waits_only_when_established : forall cfg, ok_cfg cfg -> forall k thr bc timeout h now d, i_clock_ok h ->
  let s := i_drun cfg thr (i_dinit cfg k bc timeout) h in
  d_status s = Running ->
  let c' := handle_op istate ImplEngine.U packet ie_tag (ie_user cfg) (ie_disc cfg) (ie_reset cfg) (d_c s) now (OpStop d) in
  c_stop c' = SDisc -> c_cur c' = CConnected /\ s_st (c_eng c') = Connected.
Proof. exact composed_stop_waits_only_when_established. Qed.

Theorem C12_composed_restartable : forall cfg k thr bc timeout h now,
  let s := i_drun cfg thr (i_dinit cfg k bc timeout) h in
  d_status s = Running -> cur s = CStopped -> c_des (d_c s) = CConnected ->
  let s' := check istate (ie_opened cfg) (ie_closed cfg) thr s now in
  cur s' = CConnecting /\ d_log s' = d_log s ++ [EvAttempt] /\ d_status s' <> Dead.
Proof. exact composed_restartable. Qed.

Theorem C12_composed_close_terminal : forall cfg, ok_cfg cfg -> forall k thr bc timeout h now k', i_clock_ok h ->
  let s := i_drun cfg thr (i_dinit cfg k bc timeout) h in
  d_status s = Running -> c_des (d_c s) = CShutdown -> (cur s <> CConnected \/ c_stop (d_c s) <> SDisc) ->
  let s' := check istate (ie_opened cfg) (ie_closed cfg) thr s now in
  d_status s' = Exited /\
  existsb is_attempt_ev (skipn (length (d_log s)) (d_log s')) = false /\
  i_drun cfg thr s' k' = s'.
Proof. exact composed_close_terminal. Qed.

(* the engine inside every reachable running state of the composed model is well-formed (so no engine call made by the
   client panics: C11_reachable_no_panic's step lemma applies to it) *)
Theorem C12_composed_engine_wf : forall cfg, ok_cfg cfg -> forall k thr bc timeout h, i_clock_ok h ->
  d_status (i_drun cfg thr (i_dinit cfg k bc timeout) h) = Running ->
  IWF cfg (c_eng (d_c (i_drun cfg thr (i_dinit cfg k bc timeout) h))).
Proof. exact composed_engine_wf. Qed.

(* non-vacuity and an executable run of the composed model, both drivers: start; transport up; CONNECT written; the
   broker's CONNACK (bytes produced by the reference encoder Codec/SpecEncodeS2C); stop with a DISCONNECT packet (the client
   waits: SDisc, engine Connected); DISCONNECT written and flushed; EOF.  The premises ok_cfg / i_clock_ok hold of it. *)
Example C12_composed_run :
  ok_cfg w_cfg /\ i_clock_ok w_composed_history /\
  forall thr,
  w_connack_wire = [32; 3; 0; 0; 0] /\
  (let s := i_drun w_cfg thr w_init (firstn 11 w_composed_history) in
   d_log s = [EvAttempt; EvSuccess] /\ cur s = CConnected /\ c_stop (d_c s) = SDisc /\ s_st (c_eng (d_c s)) = Connected) /\
  (let s := i_drun w_cfg thr w_init w_composed_history in
   d_log s = [EvAttempt; EvSuccess; EvDisconnection EUserInitiatedDisconnect false; EvStopped] /\
   cur s = CStopped /\ d_status s = Running /\ s_st (c_eng (d_c s)) = Disconnected /\
   map fst (map fst (d_conns s)) = [[16; 15; 0; 4; 77; 81; 84; 84; 5; 2; 0; 0; 0; 0; 2; 97; 97; 224; 0]]).
Proof. split; [exact w_cfg_ok|]. split; [exact w_composed_history_clock_ok|exact composed_run]. Qed.
