(* C12 — lifecycle: well-formed event stream; stop always stops; the loop never dies.
   Only statements; proofs live in ClientProofs/ImplP.v and ClientProofs/LifecycleW.v.

   Models: Client/Impl.v (MqttClientImpl), Client/Driver.v (both event loops as one transition system
   over abstract driver events, flag thr = threaded).  The protocol engine is ABSTRACT in the positive
   theorems; what they assume about it is exactly [engine_facts] (ClientProofs/ImplP.v): eight
   statements built from the executable predicates fact_* of Client/Impl.v, which the C12 driver
   evaluates on every call of the REAL engine it observes.  The refutations use the engine MODEL
   (Engine/Instance.v) so that the engine's part of the failing behaviour is computed, not assumed. *)
From GM Require Import Base.Prelude Base.Outcome Codec.Packets Engine.Model Engine.Instance
  Client.Backoff Client.Impl Client.Driver Client.MiniEngine Client.ImplEngine
  ClientProofs.ImplP ClientProofs.LifecycleW.
Open Scope N_scope.

(* compute_optional_state_transition, exhaustively: all 5 current x 5 desired x 3 stop-option shapes
   (75 cells; the driver regenerates the same 75 cells from the compiled implementation on every run) *)
Theorem C12_transition_table : forall cur des stop, cost cur des stop = cost_spec cur des stop.
Proof. exact cost_is_spec. Qed.

Theorem C12_transition_table_complete :
  length cost_domain = 75%nat /\ forall cur des stop, In (cur, des, stop) cost_domain.
Proof. split; [exact cost_domain_length | exact cost_domain_complete]. Qed.

(* every run of either driver — every list of driver events, i.e. every schedule, transport behaviour and
   request timing — emits a prefix of (Attempt (Failure | Success Disconnection))* with Stopped only between attempts *)
Theorem C12_event_grammar :
  forall E U D e_tag e_user e_disc e_reset e_opened e_closed e_data e_wc e_service e_nst,
  engine_facts E U D e_tag e_user e_disc e_reset e_opened e_closed e_data e_wc e_service ->
  forall thr e0 bc timeout h, e_tag e0 = TDisconnected ->
  grammar_ok (d_log (drun E U D e_tag e_user e_disc e_reset e_opened e_closed e_data e_wc e_service e_nst thr
                          (dinit E e0 bc timeout) h)) = true.
Proof. exact event_grammar_thm. Qed.

(* transition_to_state never returns Err from a reachable state: the loop never exits through a failed transition *)
Theorem C12_loop_alive :
  forall E U D e_tag e_user e_disc e_reset e_opened e_closed e_data e_wc e_service e_nst,
  engine_facts E U D e_tag e_user e_disc e_reset e_opened e_closed e_data e_wc e_service ->
  forall thr e0 bc timeout h, e_tag e0 = TDisconnected ->
  d_status (drun E U D e_tag e_user e_disc e_reset e_opened e_closed e_data e_wc e_service e_nst thr
                 (dinit E e0 bc timeout) h) <> Dead.
Proof. exact loop_alive_thm. Qed.

(* ... but it dies by PANIC when connect_timeout is so large that `Instant + Duration` overflows (D10b):
   tokio at client/mod.rs:981 when the transport connects, threaded already at threaded/mod.rs:92 *)
Theorem C12_loop_alive_refuted_huge_timeout :
  d_status (i_drun w_cfg false w_init_huge [(0, DOp OpStart); (0, DConnOk)]) = Panicked /\
  d_status (i_drun w_cfg true w_init_huge [(0, DOp OpStart); (0, DCheck)]) = Panicked.
Proof. exact loop_alive_refuted_huge_timeout. Qed.

(* "stop always stops" is REFUTED (D13): a stop-with-DISCONNECT requested during the CONNECT/CONNACK handshake
   is never honoured — for both drivers and every number n of further healthy loop iterations the client is
   Connected, desires Stopped, has emitted no Stopped event and has written nothing but the CONNECT *)
Theorem C12_stop_stops_refuted : forall thr n,
  cur (i_drun w_cfg thr w_init (w_d13_prefix ++ w_idle n)) = CConnected /\
  d_status (i_drun w_cfg thr w_init (w_d13_prefix ++ w_idle n)) = Running /\
  c_des (d_c (i_drun w_cfg thr w_init (w_d13_prefix ++ w_idle n))) = CStopped /\
  count_stopped (d_log (i_drun w_cfg thr w_init (w_d13_prefix ++ w_idle n))) = 0%nat /\
  d_log (i_drun w_cfg thr w_init (w_d13_prefix ++ w_idle n)) = [EvAttempt; EvSuccess] /\
  d_wire (i_drun w_cfg thr w_init (w_d13_prefix ++ w_idle n)) = [16; 15; 0; 4; 77; 81; 84; 84; 5; 2; 0; 0; 0; 0; 2; 97; 97].
Proof. exact stop_stops_refuted. Qed.

(* "stop stops", positive part: in EVERY reachable state of either driver (every history h) in which Stopped is desired and the
   client is not a live connection waiting for its DISCONNECT to be flushed, the next evaluation of
   compute_optional_state_transition — tokio: after every select! branch, hence right after the stop request itself;
   threaded: at the end of the current loop iteration — leaves the client Stopped, having emitted exactly one Stopped event
   (none if it already was Stopped) and no Attempt.  The excluded state is the designed wait of stop-with-DISCONNECT; it ends
   as soon as the connection ends (the same theorem then applies in PendingReconnect's short-circuit), and D13 above is
   exactly the case where nothing ever ends it. *)
Theorem C12_stop_stops :
  forall E U D e_tag e_user e_disc e_reset e_opened e_closed e_data e_wc e_service e_nst,
  engine_facts E U D e_tag e_user e_disc e_reset e_opened e_closed e_data e_wc e_service ->
  forall thr e0 bc timeout, e_tag e0 = TDisconnected -> forall h now,
  let s := reach E U D e_tag e_user e_disc e_reset e_opened e_closed e_data e_wc e_service e_nst thr e0 bc timeout h in
  d_status s = Running -> c_des (d_c s) = CStopped -> (cur s <> CConnected \/ c_stop (d_c s) <> SDisc) ->
  let s' := check E e_opened e_closed thr s now in
  d_status s' = Running /\ cur s' = CStopped /\ c_des (d_c s') = CStopped /\
  exists evs, d_log s' = d_log s ++ evs /\
              count_stopped evs = (if cstate_eqb (cur s) CStopped then 0 else 1)%nat /\
              existsb is_attempt_ev evs = false.
Proof. intros. eapply stop_stops_reach; eauto. Qed.

(* restartable: whenever the client is Stopped and a start request has been handled, the next check starts an attempt *)
Theorem C12_restartable :
  forall E U D e_tag e_user e_disc e_reset e_opened e_closed e_data e_wc e_service e_nst thr e0 bc timeout h now,
  let s := reach E U D e_tag e_user e_disc e_reset e_opened e_closed e_data e_wc e_service e_nst thr e0 bc timeout h in
  d_status s = Running -> cur s = CStopped -> c_des (d_c s) = CConnected ->
  let s' := check E e_opened e_closed thr s now in
  cur s' = CConnecting /\ d_log s' = d_log s ++ [EvAttempt] /\ d_status s' <> Dead.
Proof. intros. eapply restartable_reach; eauto. Qed.

(* close is terminal: outside the wait-for-DISCONNECT state the next check after a close request ends the loop without a
   further Attempt, and an exited loop ignores every later event (a later start cannot revive it) *)
Theorem C12_close_terminal :
  forall E U D e_tag e_user e_disc e_reset e_opened e_closed e_data e_wc e_service e_nst,
  engine_facts E U D e_tag e_user e_disc e_reset e_opened e_closed e_data e_wc e_service ->
  forall thr e0 bc timeout, e_tag e0 = TDisconnected -> forall h now k,
  let s := reach E U D e_tag e_user e_disc e_reset e_opened e_closed e_data e_wc e_service e_nst thr e0 bc timeout h in
  d_status s = Running -> c_des (d_c s) = CShutdown -> (cur s <> CConnected \/ c_stop (d_c s) <> SDisc) ->
  let s' := check E e_opened e_closed thr s now in
  d_status s' = Exited /\
  existsb is_attempt_ev (skipn (length (d_log s)) (d_log s')) = false /\
  drun E U D e_tag e_user e_disc e_reset e_opened e_closed e_data e_wc e_service e_nst thr s' k = s'.
Proof. intros. eapply close_terminal_reach; eauto. Qed.

(* non-vacuity: the engine facts are satisfiable, and a stop-with-DISCONNECT on an ESTABLISHED connection stops *)
Example C12_engine_facts_satisfiable :
  engine_facts me unit unit me_tag me_user me_disc me_reset me_opened me_closed me_data me_wc me_service.
Proof. exact mini_engine_facts. Qed.
