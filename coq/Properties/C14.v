(* C14 — keep-alive: single-step contracts of service_keep_alive / handle_pingresp / CONNACK of the
   engine model, for ANY components.  Times in ms.  Proofs: EngineProofs/SvcKeepAlive.v. *)
From GM Require Import Base.Prelude Base.Outcome Codec.Packets Codec.Settings Alias.Outbound Engine.Model Engine.Instance.
From GM Require Import EngineProofs.SvcKeepAlive EngineProofs.IdsWitness.
From RecordUpdate Require Import RecordSet.
Import RecordSetNotations.
Open Scope N_scope.

Section Engine.
  Variable enc : Type.
  Variable enc_reset : version -> packet -> resolution -> outcome enc.
  Variable enc_call : enc -> N -> N -> outcome (bytes * enc).
  Variable enc_done : enc -> bool.
  Variable dec : Type.
  Variable dec_init : dec.
  Variable dec_feed : version -> N -> dec -> bytes -> dec * list packet * outcome unit.
  Variable ores : Type.
  Variable ores_reset : ores -> N -> ores.
  Variable ores_resolve : ores -> option N -> bytes -> outcome (ores * resolution).
  Variable ires : Type.
  Variable ires_reset : ires -> ires.
  Variable ires_resolve : ires -> option N -> bytes -> outcome (ires * bytes).
  Variable v_out : option settings -> connect_opts -> resolution -> packet -> outcome unit.
  Variable v_in : option settings -> packet -> outcome unit.
  Variable cfg : config.
  Notation state := (Model.state enc dec ores ires).
  Notation init := (Model.init enc dec dec_init ores ires).
  Notation step := (Model.step enc enc_reset enc_call enc_done dec dec_init dec_feed ores ores_reset ores_resolve ires ires_reset ires_resolve v_out v_in cfg).
  Notation run := (Model.run enc enc_reset enc_call enc_done dec dec_init dec_feed ores ores_reset ores_resolve ires ires_reset ires_resolve v_out v_in cfg).
  Notation service_keep_alive := (Model.service_keep_alive enc dec ores ires cfg).
  Notation service := (Model.service enc enc_reset enc_call enc_done dec ores ores_reset ores_resolve ires v_out cfg).
  Notation handle_pingresp := (Model.handle_pingresp enc dec ores ires).
  Notation handle_connack := (Model.handle_connack enc dec ores ores_reset ires ires_reset v_in cfg).
  Notation build_settings := (Model.build_settings enc dec ores ires cfg).

  (* a due ping: PINGREQ queued first, timeout armed at now + min(configured, K/2), next ping at now + K *)
  Theorem C14_deadline : forall (s : state) now np s',
    service_keep_alive s now = Ok s' -> s_ping_to s = None -> s_next_ping s = Some np -> np <= now ->
    exists st, s_settings s = Some st /\
      let k := st_server_keep_alive st in
      s_ping_to s' = Some (now + N.min (cf_ping_timeout cfg) (k * 500)) /\
      s_next_ping s' = (if 0 <? k then Some (now + k * 1000) else Some np) /\
      s_hq s' = s_next_id s :: s_hq s /\
      s_ops s' = s_ops s ++ [(s_next_id s, new_op Pingreq false None)] /\
      s_next_id s' = s_next_id s + 1.
  Proof. exact (keep_alive_due enc dec ores ires cfg). Qed.

  Theorem C14_idle : forall (s : state) now,
    (s_ping_to s = None /\ (s_next_ping s = None \/ exists np, s_next_ping s = Some np /\ now < np)) \/
    (exists pt, s_ping_to s = Some pt /\ now < pt) ->
    service_keep_alive s now = Ok s.
  Proof. exact (keep_alive_idle enc dec ores ires cfg). Qed.

  (* an unanswered PINGREQ fails the connection at the first service at or after the deadline *)
  Theorem C14_timeout : forall (s : state) now cap fill t,
    s_st s = Connected -> s_ping_to s = Some t -> t <= now ->
    let r := service s now cap fill in
    sr_out r = Err EConnectionClosed /\ sr_bytes r = [] /\ sr_done r = [] /\ sr_s r = s <| s_st := Halted |>.
  Proof. exact (ping_timeout_fails enc enc_reset enc_call enc_done dec ores ores_reset ores_resolve ires v_out cfg). Qed.

  (* a PINGRESP clears the timeout: a live peer is never timed out *)
  Theorem C14_live : forall (s : state) t,
    (s_st s = Connected \/ s_st s = PendingDisconnect) -> s_ping_to s = Some t ->
    handle_pingresp s = Model.mkHres (s <| s_ping_to := None |>) [] [] (Ok tt).
  Proof. exact (pingresp_clears enc dec ores ires). Qed.

  Theorem C14_live_no_timeout : forall (s : state) t now,
    (s_st s = Connected \/ s_st s = PendingDisconnect) -> s_ping_to s = Some t ->
    forall k, service_keep_alive (h_s (handle_pingresp s)) now <> Err k.
  Proof. exact (pingresp_then_no_timeout enc dec ores ires cfg). Qed.

  (* CONNACK arms the first ping from the negotiated value (server's overrides client's) *)
  Theorem C14_connack : forall (s : state) now c,
    h_out (handle_connack s now c) = Ok tt ->
    let s' := h_s (handle_connack s now c) in
    let k := st_server_keep_alive (build_settings s c) in
    s_settings s' = Some (build_settings s c) /\
    s_next_ping s' = (if 0 <? k then Some (now + k * 1000) else None) /\
    s_ping_to s' = None.
  Proof. exact (connack_arms_ping enc dec ores ores_reset ires ires_reset v_in cfg). Qed.

  Theorem C14_negotiated : forall (s : state) c,
    st_server_keep_alive (build_settings s c) =
    match ca_server_keep_alive c with Some k => k | None => match co_keep_alive (cf_connect cfg) with Some k => k | None => 0 end end.
  Proof. exact (negotiated_keep_alive enc dec ores ires cfg). Qed.

  (* keep-alive 0: no ping is scheduled, and no PINGREQ is created while none is scheduled *)
  Theorem C14_zero : forall (s : state) now c,
    h_out (handle_connack s now c) = Ok tt -> st_server_keep_alive (build_settings s c) = 0 ->
    s_next_ping (h_s (handle_connack s now c)) = None.
  Proof. exact (connack_keep_alive_zero enc dec ores ores_reset ires ires_reset v_in cfg). Qed.

  Theorem C14_zero_no_ping : forall (s : state) now s',
    s_next_ping s = None -> service_keep_alive s now = Ok s' -> s' = s.
  Proof. exact (keep_alive_zero_no_ping enc dec ores ires cfg). Qed.
End Engine.

(* non-vacuity (instance, keep-alive 3 s, ping timeout 10 s): PINGREQ (192 0) at 3000, unanswered,
   the service at the deadline 4500 = 3000 + min(10000, 1500) fails with ConnectionClosed *)
Example C14_example :
  map (fun o => (o_res o, o_bytes o)) (x_outs (x_cfg_full 0 false None 3)
     (x_connect_events x_connack_bytes ++ [EvService 3000 4096 0; EvWriteComplete 3000; EvService 4499 4096 0; EvService 4500 4096 0]))
  = [(Ok tt, []); (Ok tt, [16; 15; 0; 4; 77; 81; 84; 84; 5; 2; 0; 3; 0; 0; 2; 97; 97]); (Ok tt, []); (Ok tt, []);
     (Ok tt, [192; 0]); (Ok tt, []); (Ok tt, []); (Err EConnectionClosed, [])].
Proof. vm_compute. reflexivity. Qed.

(* ---- run level (EngineProofs/TimersRun*.v, TimersRunPing.v): statements about EVERY state reachable from init by any
   event history (hypotheses: comps_ok, ok_cfg, Forall ok_event); C14_instance_*: the concrete engine.
   C14_run_ka_connected: while Connected with negotiated keep-alive K > 0 a next-ping time exists and a pending ping
     deadline t satisfies t + K*1000 <= next_ping + min(ping timeout, K*500) (it is always due before the next ping);
     with K = 0 there is neither, and the keep-alive part of every service call is the identity (no PINGREQ, no failure);
   C14_run_ka_unconnected: no deadline of either kind in Disconnected / PendingConnack (none outlives its connection);
   C14_run_ping_deadline / C14_arm_ghost_spec: a pending deadline equals now0 + min(ping timeout, K*500) where now0 (ghost
     arm_ghost, by recursion over the history) is the time of the service call before which no deadline was pending and
     since which one has been pending without interruption (no PINGRESP processed since: that clears it);
   C14_run_timely_no_timeout: if every service call made while the PINGREQ sent at now0 is unanswered happens before
     now0 + min(ping timeout, K*500) -- i.e. the peer answers before the deadline -- no service call reports the
     keep-alive failure.  C14_run_example_*: vm_compute witnesses. ---- *)
From GM Require Import EngineProofs.WFDefs EngineProofs.TimersRunData EngineProofs.TimersRun EngineProofs.TimersRunThms EngineProofs.TimersRunPing EngineProofs.TimersRunInstance EngineProofs.TimersRunWitness.

Theorem C14_run_ka_connected : forall (enc : Type) (enc_reset : version -> packet -> resolution -> outcome enc) (enc_call : enc -> N -> N -> outcome (bytes * enc)) (enc_done : enc -> bool) (dec : Type) (dec_init : dec) (dec_feed : version -> N -> dec -> bytes -> dec * list packet * outcome unit) (ores : Type) (ores_reset : ores -> N -> ores) (ores_resolve : ores -> option N -> bytes -> outcome (ores * resolution)) (ires : Type) (ires_reset : ires -> ires) (ires_resolve : ires -> option N -> bytes -> outcome (ires * bytes)) (v_out : option settings -> connect_opts -> resolution -> packet -> outcome unit) (v_in : option settings -> packet -> outcome unit) (cfg : config) (HC : comps_ok enc enc_reset enc_call dec dec_init dec_feed ores ores_reset ores_resolve ires ires_reset ires_resolve v_out v_in), ok_cfg cfg -> forall (o0 : ores) (i0 : ires) (h : list event), @ores_inv enc enc_reset enc_call dec dec_init dec_feed ores ores_reset ores_resolve ires ires_reset ires_resolve v_out v_in HC o0 -> @ires_inv enc enc_reset enc_call dec dec_init dec_feed ores ores_reset ores_resolve ires ires_reset ires_resolve v_out v_in HC i0 -> @Forall event ok_event h -> @s_st enc dec ores ires (@fst (state enc dec ores ires) (list output) (run enc enc_reset enc_call enc_done dec dec_init dec_feed ores ores_reset ores_resolve ires ires_reset ires_resolve v_out v_in cfg (init enc dec dec_init ores ires o0 i0) h)) = Connected -> exists st : settings, @s_settings enc dec ores ires (@fst (state enc dec ores ires) (list output) (run enc enc_reset enc_call enc_done dec dec_init dec_feed ores ores_reset ores_resolve ires ires_reset ires_resolve v_out v_in cfg (init enc dec dec_init ores ires o0 i0) h)) = @Some settings st /\ (0 < st_server_keep_alive st -> exists n : N, @s_next_ping enc dec ores ires (@fst (state enc dec ores ires) (list output) (run enc enc_reset enc_call enc_done dec dec_init dec_feed ores ores_reset ores_resolve ires ires_reset ires_resolve v_out v_in cfg (init enc dec dec_init ores ires o0 i0) h)) = @Some N n /\ (forall t : N, @s_ping_to enc dec ores ires (@fst (state enc dec ores ires) (list output) (run enc enc_reset enc_call enc_done dec dec_init dec_feed ores ores_reset ores_resolve ires ires_reset ires_resolve v_out v_in cfg (init enc dec dec_init ores ires o0 i0) h)) = @Some N t -> t + st_server_keep_alive st * 1000 <= n + ka_final cfg (st_server_keep_alive st))) /\ (st_server_keep_alive st = 0 -> @s_next_ping enc dec ores ires (@fst (state enc dec ores ires) (list output) (run enc enc_reset enc_call enc_done dec dec_init dec_feed ores ores_reset ores_resolve ires ires_reset ires_resolve v_out v_in cfg (init enc dec dec_init ores ires o0 i0) h)) = @None N /\ @s_ping_to enc dec ores ires (@fst (state enc dec ores ires) (list output) (run enc enc_reset enc_call enc_done dec dec_init dec_feed ores ores_reset ores_resolve ires ires_reset ires_resolve v_out v_in cfg (init enc dec dec_init ores ires o0 i0) h)) = @None N /\ (forall now : N, service_keep_alive enc dec ores ires cfg (@fst (state enc dec ores ires) (list output) (run enc enc_reset enc_call enc_done dec dec_init dec_feed ores ores_reset ores_resolve ires ires_reset ires_resolve v_out v_in cfg (init enc dec dec_init ores ires o0 i0) h)) now = @Ok (state enc dec ores ires) (@fst (state enc dec ores ires) (list output) (run enc enc_reset enc_call enc_done dec dec_init dec_feed ores ores_reset ores_resolve ires ires_reset ires_resolve v_out v_in cfg (init enc dec dec_init ores ires o0 i0) h)))).
Proof. exact @run_ka_connected. Qed.

Theorem C14_run_ka_unconnected : forall (enc : Type) (enc_reset : version -> packet -> resolution -> outcome enc) (enc_call : enc -> N -> N -> outcome (bytes * enc)) (enc_done : enc -> bool) (dec : Type) (dec_init : dec) (dec_feed : version -> N -> dec -> bytes -> dec * list packet * outcome unit) (ores : Type) (ores_reset : ores -> N -> ores) (ores_resolve : ores -> option N -> bytes -> outcome (ores * resolution)) (ires : Type) (ires_reset : ires -> ires) (ires_resolve : ires -> option N -> bytes -> outcome (ires * bytes)) (v_out : option settings -> connect_opts -> resolution -> packet -> outcome unit) (v_in : option settings -> packet -> outcome unit) (cfg : config) (HC : comps_ok enc enc_reset enc_call dec dec_init dec_feed ores ores_reset ores_resolve ires ires_reset ires_resolve v_out v_in), ok_cfg cfg -> forall (o0 : ores) (i0 : ires) (h : list event), @ores_inv enc enc_reset enc_call dec dec_init dec_feed ores ores_reset ores_resolve ires ires_reset ires_resolve v_out v_in HC o0 -> @ires_inv enc enc_reset enc_call dec dec_init dec_feed ores ores_reset ores_resolve ires ires_reset ires_resolve v_out v_in HC i0 -> @Forall event ok_event h -> @s_st enc dec ores ires (@fst (state enc dec ores ires) (list output) (run enc enc_reset enc_call enc_done dec dec_init dec_feed ores ores_reset ores_resolve ires ires_reset ires_resolve v_out v_in cfg (init enc dec dec_init ores ires o0 i0) h)) = Disconnected \/ @s_st enc dec ores ires (@fst (state enc dec ores ires) (list output) (run enc enc_reset enc_call enc_done dec dec_init dec_feed ores ores_reset ores_resolve ires ires_reset ires_resolve v_out v_in cfg (init enc dec dec_init ores ires o0 i0) h)) = PendingConnack -> @s_next_ping enc dec ores ires (@fst (state enc dec ores ires) (list output) (run enc enc_reset enc_call enc_done dec dec_init dec_feed ores ores_reset ores_resolve ires ires_reset ires_resolve v_out v_in cfg (init enc dec dec_init ores ires o0 i0) h)) = @None N /\ @s_ping_to enc dec ores ires (@fst (state enc dec ores ires) (list output) (run enc enc_reset enc_call enc_done dec dec_init dec_feed ores ores_reset ores_resolve ires ires_reset ires_resolve v_out v_in cfg (init enc dec dec_init ores ires o0 i0) h)) = @None N.
Proof. exact @run_ka_unconnected. Qed.

Theorem C14_run_ping_deadline : forall (enc : Type) (enc_reset : version -> packet -> resolution -> outcome enc) (enc_call : enc -> N -> N -> outcome (bytes * enc)) (enc_done : enc -> bool) (dec : Type) (dec_init : dec) (dec_feed : version -> N -> dec -> bytes -> dec * list packet * outcome unit) (ores : Type) (ores_reset : ores -> N -> ores) (ores_resolve : ores -> option N -> bytes -> outcome (ores * resolution)) (ires : Type) (ires_reset : ires -> ires) (ires_resolve : ires -> option N -> bytes -> outcome (ires * bytes)) (v_out : option settings -> connect_opts -> resolution -> packet -> outcome unit) (v_in : option settings -> packet -> outcome unit) (cfg : config) (HC : comps_ok enc enc_reset enc_call dec dec_init dec_feed ores ores_reset ores_resolve ires ires_reset ires_resolve v_out v_in), ok_cfg cfg -> forall (o0 : ores) (i0 : ires) (h : list event), @ores_inv enc enc_reset enc_call dec dec_init dec_feed ores ores_reset ores_resolve ires ires_reset ires_resolve v_out v_in HC o0 -> @ires_inv enc enc_reset enc_call dec dec_init dec_feed ores ores_reset ores_resolve ires ires_reset ires_resolve v_out v_in HC i0 -> @Forall event ok_event h -> forall t : N, @s_ping_to enc dec ores ires (@fst (state enc dec ores ires) (list output) (run enc enc_reset enc_call enc_done dec dec_init dec_feed ores ores_reset ores_resolve ires ires_reset ires_resolve v_out v_in cfg (init enc dec dec_init ores ires o0 i0) h)) = @Some N t -> exists (now0 : N) (st : settings), arm_ghost enc enc_reset enc_call enc_done dec dec_init dec_feed ores ores_reset ores_resolve ires ires_reset ires_resolve v_out v_in cfg (init enc dec dec_init ores ires o0 i0) h (@None N) = @Some N now0 /\ @s_settings enc dec ores ires (@fst (state enc dec ores ires) (list output) (run enc enc_reset enc_call enc_done dec dec_init dec_feed ores ores_reset ores_resolve ires ires_reset ires_resolve v_out v_in cfg (init enc dec dec_init ores ires o0 i0) h)) = @Some settings st /\ t = now0 + N.min (cf_ping_timeout cfg) (st_server_keep_alive st * 500).
Proof. exact @run_ping_deadline. Qed.

Theorem C14_arm_ghost_spec : forall (enc : Type) (enc_reset : version -> packet -> resolution -> outcome enc) (enc_call : enc -> N -> N -> outcome (bytes * enc)) (enc_done : enc -> bool) (dec : Type) (dec_init : dec) (dec_feed : version -> N -> dec -> bytes -> dec * list packet * outcome unit) (ores : Type) (ores_reset : ores -> N -> ores) (ores_resolve : ores -> option N -> bytes -> outcome (ores * resolution)) (ires : Type) (ires_reset : ires -> ires) (ires_resolve : ires -> option N -> bytes -> outcome (ires * bytes)) (v_out : option settings -> connect_opts -> resolution -> packet -> outcome unit) (v_in : option settings -> packet -> outcome unit) (cfg : config) (h : list event) (s : state enc dec ores ires) (now0 : N), arm_ghost enc enc_reset enc_call enc_done dec dec_init dec_feed ores ores_reset ores_resolve ires ires_reset ires_resolve v_out v_in cfg s h (@None N) = @Some N now0 -> exists (h1 : list event) (cap fill : N) (h2 : list event), h = h1 ++ EvService now0 cap fill :: h2 /\ @s_ping_to enc dec ores ires (@fst (state enc dec ores ires) (list output) (run enc enc_reset enc_call enc_done dec dec_init dec_feed ores ores_reset ores_resolve ires ires_reset ires_resolve v_out v_in cfg s h1)) = @None N /\ (forall h2a h2b : list event, h2 = h2a ++ h2b -> @s_ping_to enc dec ores ires (@fst (state enc dec ores ires) (list output) (run enc enc_reset enc_call enc_done dec dec_init dec_feed ores ores_reset ores_resolve ires ires_reset ires_resolve v_out v_in cfg s (h1 ++ EvService now0 cap fill :: h2a))) <> @None N).
Proof. exact @arm_ghost_spec. Qed.

Theorem C14_run_timely_no_timeout : forall (enc : Type) (enc_reset : version -> packet -> resolution -> outcome enc) (enc_call : enc -> N -> N -> outcome (bytes * enc)) (enc_done : enc -> bool) (dec : Type) (dec_init : dec) (dec_feed : version -> N -> dec -> bytes -> dec * list packet * outcome unit) (ores : Type) (ores_reset : ores -> N -> ores) (ores_resolve : ores -> option N -> bytes -> outcome (ores * resolution)) (ires : Type) (ires_reset : ires -> ires) (ires_resolve : ires -> option N -> bytes -> outcome (ires * bytes)) (v_out : option settings -> connect_opts -> resolution -> packet -> outcome unit) (v_in : option settings -> packet -> outcome unit) (cfg : config) (HC : comps_ok enc enc_reset enc_call dec dec_init dec_feed ores ores_reset ores_resolve ires ires_reset ires_resolve v_out v_in), ok_cfg cfg -> forall (o0 : ores) (i0 : ires) (h : list event), @ores_inv enc enc_reset enc_call dec dec_init dec_feed ores ores_reset ores_resolve ires ires_reset ires_resolve v_out v_in HC o0 -> @ires_inv enc enc_reset enc_call dec dec_init dec_feed ores ores_reset ores_resolve ires ires_reset ires_resolve v_out v_in HC i0 -> @Forall event ok_event h -> timely enc enc_reset enc_call enc_done dec dec_init dec_feed ores ores_reset ores_resolve ires ires_reset ires_resolve v_out v_in cfg (init enc dec dec_init ores ires o0 i0) h (@None N) -> no_ka_timeout enc enc_reset enc_call enc_done dec dec_init dec_feed ores ores_reset ores_resolve ires ires_reset ires_resolve v_out v_in cfg (init enc dec dec_init ores ires o0 i0) h.
Proof. exact @run_timely_no_timeout. Qed.

Theorem C14_instance_ka_connected : forall cfg : config, ok_cfg cfg -> forall (k : resolver_kind) (h : list event), @Forall event ok_event h -> @s_st enc Framing.decoder ores Inbound.ires (@fst istate (list output) (i_run cfg (i_init cfg k) h)) = Connected -> exists st : settings, @s_settings enc Framing.decoder ores Inbound.ires (@fst istate (list output) (i_run cfg (i_init cfg k) h)) = @Some settings st /\ (0 < st_server_keep_alive st -> exists n : N, @s_next_ping enc Framing.decoder ores Inbound.ires (@fst istate (list output) (i_run cfg (i_init cfg k) h)) = @Some N n /\ (forall t : N, @s_ping_to enc Framing.decoder ores Inbound.ires (@fst istate (list output) (i_run cfg (i_init cfg k) h)) = @Some N t -> t + st_server_keep_alive st * 1000 <= n + ka_final cfg (st_server_keep_alive st))) /\ (st_server_keep_alive st = 0 -> @s_next_ping enc Framing.decoder ores Inbound.ires (@fst istate (list output) (i_run cfg (i_init cfg k) h)) = @None N /\ @s_ping_to enc Framing.decoder ores Inbound.ires (@fst istate (list output) (i_run cfg (i_init cfg k) h)) = @None N /\ (forall now : N, i_keep_alive cfg (@fst istate (list output) (i_run cfg (i_init cfg k) h)) now = @Ok istate (@fst istate (list output) (i_run cfg (i_init cfg k) h)))).
Proof. exact @instance_run_ka_connected. Qed.

Theorem C14_instance_ka_unconnected : forall cfg : config, ok_cfg cfg -> forall (k : resolver_kind) (h : list event), @Forall event ok_event h -> @s_st enc Framing.decoder ores Inbound.ires (@fst istate (list output) (i_run cfg (i_init cfg k) h)) = Disconnected \/ @s_st enc Framing.decoder ores Inbound.ires (@fst istate (list output) (i_run cfg (i_init cfg k) h)) = PendingConnack -> @s_next_ping enc Framing.decoder ores Inbound.ires (@fst istate (list output) (i_run cfg (i_init cfg k) h)) = @None N /\ @s_ping_to enc Framing.decoder ores Inbound.ires (@fst istate (list output) (i_run cfg (i_init cfg k) h)) = @None N.
Proof. exact @instance_run_ka_unconnected. Qed.

Theorem C14_instance_ping_deadline : forall cfg : config, ok_cfg cfg -> forall (k : resolver_kind) (h : list event), @Forall event ok_event h -> forall t : N, @s_ping_to enc Framing.decoder ores Inbound.ires (@fst istate (list output) (i_run cfg (i_init cfg k) h)) = @Some N t -> exists (now0 : N) (st : settings), i_arm_ghost cfg (i_init cfg k) h (@None N) = @Some N now0 /\ @s_settings enc Framing.decoder ores Inbound.ires (@fst istate (list output) (i_run cfg (i_init cfg k) h)) = @Some settings st /\ t = now0 + N.min (cf_ping_timeout cfg) (st_server_keep_alive st * 500).
Proof. exact @instance_run_ping_deadline. Qed.

Theorem C14_instance_timely_no_timeout : forall cfg : config, ok_cfg cfg -> forall (k : resolver_kind) (h : list event), @Forall event ok_event h -> i_timely cfg (i_init cfg k) h (@None N) -> i_no_ka_timeout cfg (i_init cfg k) h.
Proof. exact @instance_run_timely_no_timeout. Qed.

Theorem C14_run_example_ping : @Forall event ok_event t_hist5 /\ ok_cfg t_cfg3 /\ t_view (x_state t_cfg3 (x_connect_events x_connack_bytes)) = (Connected, [], [], [], [], @Some N 20000, @None N) /\ t_view (x_state t_cfg3 t_hist4) = (Connected, [], [], [], [(2, false, @None N, @Some N 20000, 0)], @Some N 40000, @Some N 30000) /\ i_arm_ghost t_cfg3 (x_init t_cfg3) t_hist4 (@None N) = @Some N 20000 /\ @map output (outcome unit) o_res (x_outs t_cfg3 t_hist5) = @repeat (outcome unit) (@Ok unit tt) 9 /\ @s_ping_to enc Framing.decoder ores Inbound.ires (x_state t_cfg3 t_hist5) = @None N /\ @map output (outcome unit) o_res (x_outs t_cfg3 (t_hist4 ++ [EvWriteComplete 20000; EvService 30000 4096 0])) = @repeat (outcome unit) (@Ok unit tt) 6 ++ [@Err unit EConnectionClosed] /\ t_view (x_state (x_cfg 0) (x_connect_events x_connack_bytes)) = (Connected, [], [], [], [], @None N, @None N).
Proof. exact @t_ping. Qed.

Theorem C14_run_example_timely : i_timely t_cfg3 (x_init t_cfg3) t_hist5 (@None N).
Proof. exact @t_timely. Qed.

