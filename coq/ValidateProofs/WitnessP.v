(* Concrete witnesses (vm_compute) for every rule the validation code does not enforce, and for the
   over-strict UNSUBSCRIBE behaviour.  The same inputs are in corpus/C16/witnesses.txt. *)
From GM Require Import Base.Prelude Base.Outcome Codec.Packets Codec.Prim Codec.Settings.
From GM Require Import Validate.Topic Validate.Rules Validate.Spec ValidateProofs.RulesP.
Open Scope N_scope.

Definition st_all : settings :=
  {| st_maximum_qos := 2; st_session_expiry_interval := 0; st_receive_maximum_from_server := 10;
     st_maximum_packet_size_to_server := 268435455; st_topic_alias_maximum_to_server := 0; st_server_keep_alive := 0;
     st_retain_available := true; st_wildcard_subscriptions_available := true;
     st_subscription_identifiers_available := true; st_shared_subscriptions_available := true;
     st_rejoined_session := false; st_client_id := [99] |}.
Definition st_nocaps : settings :=
  {| st_maximum_qos := 2; st_session_expiry_interval := 0; st_receive_maximum_from_server := 10;
     st_maximum_packet_size_to_server := 268435455; st_topic_alias_maximum_to_server := 0; st_server_keep_alive := 0;
     st_retain_available := true; st_wildcard_subscriptions_available := false;
     st_subscription_identifiers_available := false; st_shared_subscriptions_available := false;
     st_rejoined_session := false; st_client_id := [99] |}.
Definition co_default : connect_opts :=
  {| co_keep_alive := None; co_rejoin := 0; co_client_id := None; co_username := None; co_password := None;
     co_sei := None; co_rri := None; co_rpi := None; co_receive_max := None; co_tam := None; co_max_packet := None;
     co_will_delay := None; co_will := None; co_up := None |}.

Definition sub1 (f : bytes) (subid : option N) : packet :=
  Subscribe {| s_pid := 0; s_subs := [ {| sub_filter := f; sub_qos := 0; sub_no_local := false; sub_rap := false; sub_rh := 0 |} ];
               s_subid := subid; s_up := None |}.
Definition pub0 (t : bytes) : publish :=
  {| pub_pid := 0; pub_topic := t; pub_qos := 0; pub_dup := false; pub_retain := false; pub_payload := None;
     pub_pfi := None; pub_mei := None; pub_alias := None; pub_response_topic := None; pub_correlation := None;
     pub_subids := None; pub_content_type := None; pub_up := None |}.
Definition connect_will (t : bytes) : packet :=
  Connect {| con_keep_alive := 0; con_clean_start := true; con_client_id := Some [99]; con_username := None;
             con_password := None; con_sei := None; con_rri := None; con_rpi := None; con_receive_max := None;
             con_tam := None; con_max_packet := None; con_auth_method := None; con_auth_data := None;
             con_will_delay := None; con_will := Some (pub0 t); con_up := None |}.

(* accepted by both validations although the rule is violated *)
Definition accepted_violating (st : settings) (p : packet) (id : N) (rl : rule) : Prop :=
  qos_repr p /\ spec_remaining (bind_pid p id) no_resolution < 4294967296 /\
  validate_outbound p = Ok tt /\
  validate_outbound_internal (Some st) co_default no_resolution (bind_pid p id) = Ok tt /\
  In rl (violations st co_default no_resolution (bind_pid p id)).

Ltac witness := unfold accepted_violating; repeat split; try (vm_compute; (reflexivity || (intros; discriminate) || tauto)).

(* "$share/+/t": wildcard in the ShareName *)
Definition w_share_malformed : packet := sub1 (STR_SHARE ++ [47; 43; 47; 116]) None.
Lemma refuted_shared_filter_malformed : accepted_violating st_all w_share_malformed 1 RSharedFilterMalformed.
Proof. witness. Qed.

(* topic "a<NUL>b": was accepted (D23) before /repo a2fa1c5; now rejected at submission, as a topic
   name and as a topic filter *)
Definition w_topic_nul : packet := Publish (pub0 [97; 0; 98]).
Lemma fixed_topic_nul :
  validate_outbound w_topic_nul = Err EPacketValidationFailure /\
  is_valid_topic_filter_internal [97; 0; 98] (Some (true, true)) None = Ok false.
Proof. split; vm_compute; reflexivity. Qed.

(* reason string "<NUL>R<U+FFFD>" in a DISCONNECT (the C02 client-path witness of D28): was accepted by both
   validations before /repo cbc2d52; now rejected at submission; so are a NUL in a user property name / value
   and in the content type.  Binary fields may contain a zero byte. *)
Definition w_reason_nul : packet :=
  Disconnect {| d_rc := 152; d_sei := None; d_reason := Some [0; 82; 239; 191; 189]; d_up := None; d_server_ref := None |}.
Definition pub_with (ct : option bytes) (corr : option bytes) (up : option (list user_property)) : packet :=
  Publish {| pub_pid := 0; pub_topic := [97]; pub_qos := 0; pub_dup := false; pub_retain := false; pub_payload := Some [0];
             pub_pfi := None; pub_mei := None; pub_alias := None; pub_response_topic := None; pub_correlation := corr;
             pub_subids := None; pub_content_type := ct; pub_up := up |}.
Lemma fixed_string_nul :
  validate_outbound w_reason_nul = Err EPacketValidationFailure /\
  In RStringNul (violations st_all co_default no_resolution w_reason_nul) /\
  validate_outbound (pub_with (Some [116; 0]) None None) = Err EPacketValidationFailure /\
  validate_outbound (pub_with None None (Some [ {| up_name := [110; 0]; up_value := [118] |} ])) = Err EPacketValidationFailure /\
  validate_outbound (pub_with None None (Some [ {| up_name := [110]; up_value := [0; 118] |} ])) = Err EPacketValidationFailure /\
  validate_outbound (pub_with None (Some [0; 1]) None) = Ok tt /\
  conforms st_all co_default no_resolution (pub_with None (Some [0; 1]) None) = true.
Proof. repeat split; vm_compute; (reflexivity || tauto). Qed.

(* will topic "#" *)
Definition w_will_topic : packet := connect_will [35].
Lemma refuted_will_topic : accepted_violating st_all w_will_topic 1 RWillTopic.
Proof. witness. Qed.

(* subscription identifier although the server announced Subscription Identifiers Available = 0 *)
Definition w_subid_unavailable : packet := sub1 [97] (Some 5).
Lemma refuted_subscription_id_not_available :
  accepted_violating {| st_maximum_qos := 2; st_session_expiry_interval := 0; st_receive_maximum_from_server := 10;
     st_maximum_packet_size_to_server := 268435455; st_topic_alias_maximum_to_server := 0; st_server_keep_alive := 0;
     st_retain_available := true; st_wildcard_subscriptions_available := true;
     st_subscription_identifiers_available := false; st_shared_subscriptions_available := true;
     st_rejoined_session := false; st_client_id := [99] |} w_subid_unavailable 1 RSubscriptionIdNotAvailable.
Proof. witness. Qed.

(* over-strict: UNSUBSCRIBE "a/#" conforms but is rejected when wildcard subscriptions are not available *)
Definition w_unsub_wildcard : packet := Unsubscribe {| u_pid := 0; u_filters := [[97; 47; 35]]; u_up := None |}.
Lemma refuted_complete_unsubscribe :
  submitted w_unsub_wildcard /\
  conforms st_nocaps co_default no_resolution (bind_pid w_unsub_wildcard 1) = true /\
  validate_outbound w_unsub_wildcard = Ok tt /\
  validate_outbound_internal (Some st_nocaps) co_default no_resolution (bind_pid w_unsub_wildcard 1) = Err EPacketValidationFailure /\
  unsub_overstrict st_nocaps w_unsub_wildcard = true.
Proof. repeat split; vm_compute; reflexivity. Qed.

(* the code accepts "$share/+/t" as a filter although spec_filter rejects it *)
Lemma refuted_filter_grammar_share :
  is_valid_topic_filter_internal (STR_SHARE ++ [47; 43; 47; 116]) (Some (true, true)) None = Ok true /\
  spec_filter (STR_SHARE ++ [47; 43; 47; 116]) = false.
Proof. split; vm_compute; reflexivity. Qed.

(* non-vacuity: a conforming QoS 1 publish with packet id bound is accepted *)
Example accepted_example :
  let p := Publish {| pub_pid := 0; pub_topic := [97; 47; 98]; pub_qos := 1; pub_dup := false; pub_retain := true;
                      pub_payload := Some [1; 2; 3]; pub_pfi := None; pub_mei := None; pub_alias := Some 1;
                      pub_response_topic := None; pub_correlation := None; pub_subids := None;
                      pub_content_type := None; pub_up := Some [ {| up_name := [110]; up_value := [118] |} ] |} in
  validate_outbound p = Ok tt /\
  validate_outbound_internal (Some st_all) co_default {| r_skip_topic := false; r_alias := Some 1 |} (bind_pid p 7) = Ok tt /\
  conforms st_all co_default {| r_skip_topic := false; r_alias := Some 1 |} (bind_pid p 7) = true.
Proof. repeat split; vm_compute; reflexivity. Qed.
