(* C02 / C16 bridge, the four kinds of packets an application submits (PUBLISH, SUBSCRIBE, UNSUBSCRIBE, DISCONNECT),
   both protocol versions: a packet that passed BOTH validators of the library is valid for the wire specification.

   Which hypothesis implies which conjunct of Codec/ValidC2S.valid (S = submission-time validate_outbound on the erased
   packet, D = send-time validate_outbound_internal, T = typed, E = engine_ok, R = res_valid):

   PUBLISH   qos <= 2                                    T
             qos = 0 /\ ~dup  \/  qos > 0 /\ pid 1..65535 E (dup; pid <= 65535), D (pid <> 0 when qos > 0)
             topic (dropped: []) valid string            S (is_valid_topic: <= 65535, no U+0000), T (UTF-8)
             topic non-empty or an alias is sent         S (is_valid_topic: non-empty; D does NOT check it), R (dropped => alias)
             alias 1..65535                              R
             payload format <= 1, expiry < 2^32          T
             response topic / content type valid string  S, T;  correlation data <= 65535 bytes   S
             user properties valid strings               S, T
             no subscription identifier                  S
             remaining length <= 268435455               D (check_packet_size) + small
             3.1.1: topic valid and non-empty            S, T;  remaining length: D (the MQTT 5 length is the larger one)
   SUBSCRIBE pid 1..65535                                D (pid <> 0), E
             at least one subscription                   S (D does NOT check it)
             filters valid non-empty strings             D (is_valid_topic_filter_internal), T;  qos, retain handling  T
             subscription identifier 1..268435455        S (D only refuses > 268435455, through the length computation)
             user properties                             S, T;  remaining length  D
   UNSUBSCRIBE like SUBSCRIBE without options and identifier
   DISCONNECT (MQTT 5) reason code of Table 3-13, expiry < 2^32   T
             reason string / server reference / user properties  S, T;  remaining length  D
             (3.1.1: always valid, the packet has no variable part)

   Codec/ValidC2S.valid asks nothing about the topic-filter GRAMMAR (only "valid non-empty string"), so the known
   finding D8 (malformed `$share` filters accepted) and the unchecked Subscription Identifiers Available flag
   (D4, dynamic half) are no obstacles here: such packets are well-formed on the wire; they are protocol errors of
   another kind (C16). *)
From Coq Require Import Btauto.
From GM Require Import Base.Prelude Base.Outcome Codec.Packets Codec.Prim Codec.Settings Codec.SpecDecodeC2S Codec.ValidC2S.
From GM Require Import Validate.Topic Validate.Rules Validate.Spec ValidateProofs.TopicP ValidateProofs.SizeP ValidateProofs.RulesP
  ValidateProofs.BridgeDefs.
Open Scope N_scope.

Ltac hsplit :=
  repeat match goal with H : (_ && _) = true |- _ => apply andb_true_iff in H as [? ?] end.
Ltac gsplit := repeat match goal with |- (_ && _) = true => apply andb_true_iff; split end.

(* ---- PUBLISH ---- *)
Lemma pps_eq r p : pub_subids p = None -> publish_props_size r p = publish_props p r.
Proof.
  intros E. unfold publish_props_size, publish_props. rewrite E, !dsz_prop, oupsz_size.
  change 2 with (1 + 1) at 1. change 5 with (1 + 4). change 3 with (1 + 2). rewrite !fsz_prop. lia.
Qed.

Theorem bridge_publish v st co r p :
  typed_publish p = true ->
  validate_outbound (erase (Publish p)) = Ok tt ->
  validate_outbound_internal (Some st) co r (Publish p) = Ok tt ->
  small (Publish p) r -> engine_ok (Publish p) = true -> res_valid r = true ->
  (v = V311 -> r_skip_topic r = false) ->
  valid v r (Publish p) = true.
Proof.
  intros HT HS HD Hsm HE HR H311.
  apply static_of in HS. cbn [erase static_spec] in HS. unfold publish_static in HS. cbn [pub_pid pub_dup pub_topic pub_alias pub_subids
    pub_response_topic pub_up pub_correlation pub_content_type] in HS.
  assert (Esub : pub_subids p = None) by (hsplit; destruct (pub_subids p); [discriminate|reflexivity]).
  apply dynamic_of in HD; [|intros _; split; [cbn; rewrite Esub; reflexivity|split; [exact Hsm|exact I]]].
  cbn [dyn_spec] in HD. unfold publish_dyn, pid_dyn in HD. unfold typed_publish in HT. cbn [engine_ok] in HE. unfold res_valid in HR.
  hsplit.
  match goal with H : check_size_spec _ _ _ = true |- _ => apply check_size_remaining in H; rename H into Hrem end.
  cbn [spec_remaining spec_props] in Hrem. rewrite <- (pps_eq r p Esub) in Hrem. unfold str_size in Hrem.
  match goal with H : otopic_ok _ = true |- _ => unfold otopic_ok in H; apply andb_true_iff in H as [Hrt1 Hrt2] end.
  match goal with H : spec_topic (pub_topic p) = true |- _ => rename H into Htop end.
  match goal with H : Spec.no_nul (pub_topic p) = true |- _ => rename H into Htn end.
  match goal with H : utf8_ok (pub_topic p) = true |- _ => rename H into Htu end.
  destruct (spec_topic_valid _ Htop Htn Htu) as [Hsv Hne].
  cbn [valid]. unfold valid_publish. gsplit.
  - assumption.
  - destruct (pub_qos p =? 0) eqn:Eq; cbn [negb andb orb implb] in *.
    + match goal with H : negb (pub_dup p) = true |- _ => rewrite H end. reflexivity.
    + unfold pid_ok. apply andb_true_iff. split; [|assumption].
      match goal with H : negb ((pub_pid p =? 0) && true) = true |- _ => rewrite andb_true_r in H end.
      lia.
  - destruct v.
    + (* MQTT 5 *)
      set (topic := if r_skip_topic r then [] else pub_topic p) in *.
      assert (Htv : str_valid topic = true) by (subst topic; destruct (r_skip_topic r); [reflexivity|exact Hsv]).
      gsplit; try assumption.
      * subst topic. destruct (r_skip_topic r); cbn [implb] in *; [rewrite orb_true_iff; right; assumption|].
        rewrite Hne. reflexivity.
      * destruct (pub_response_topic p) as [t|] eqn:Ert; [|reflexivity]. cbn [opt_ok outf8] in *.
        exact (proj1 (spec_topic_valid t Hrt1 Hrt2 ltac:(assumption))).
      * apply ostr_valid_intro; assumption.
      * apply ups_valid_intro; assumption.
      * rewrite Esub. reflexivity.
      * rewrite vbisz_len. subst topic. destruct (pub_payload p); cbn [osz] in *; apply N.leb_le; exact Hrem.
    + (* MQTT 3.1.1 *)
      rewrite (H311 eq_refl) in Hrem. gsplit.
      * exact Hsv.
      * rewrite Hne. reflexivity.
      * pose proof (vbi_len_bounds (publish_props_size r p)). set (q := if pub_qos p =? 0 then 0 else 2) in *.
        destruct (pub_payload p); cbn [osz] in *; apply N.leb_le; lia.
Qed.

(* ---- SUBSCRIBE ---- *)
Lemma sps_eq s : subscribe_props_size s = subscribe_props s.
Proof. unfold subscribe_props_size, subscribe_props. rewrite oupsz_size. destruct (s_subid s); reflexivity. Qed.

Lemma filters_of_dyn st nl f : filter_dyn st nl f = true -> utf8_ok f = true -> filter_valid f = true.
Proof. unfold filter_dyn. intros H Hu. hsplit. apply plain_filter_valid; assumption. Qed.

Theorem bridge_subscribe v st co r s :
  typed_subscribe s = true ->
  validate_outbound (erase (Subscribe s)) = Ok tt ->
  validate_outbound_internal (Some st) co r (Subscribe s) = Ok tt ->
  small (Subscribe s) no_resolution -> engine_ok (Subscribe s) = true ->
  valid v r (Subscribe s) = true.
Proof.
  intros HT HS HD Hsm HE.
  apply static_of in HS. cbn [erase static_spec] in HS. unfold subscribe_static in HS. cbn [s_pid s_subs s_subid s_up] in HS.
  hsplit.
  assert (Hsid : subid_static (s_subid s) = true) by assumption.
  apply dynamic_of in HD; [|intros _; split; [reflexivity|split; [exact Hsm|]]].
  2:{ cbn. unfold subid_static in Hsid. destruct (s_subid s); [|exact I]. hsplit. lia. }
  cbn [dyn_spec] in HD. unfold subscribe_dyn in HD. unfold typed_subscribe in HT. cbn [engine_ok] in HE. hsplit.
  match goal with H : check_size_spec _ _ _ = true |- _ => apply check_size_remaining in H; rename H into Hrem end.
  cbn [spec_remaining spec_props] in Hrem. rewrite <- sps_eq, <- strsz_subs in Hrem.
  assert (Hsubs : forallb (subscription_valid v) (s_subs s) = true).
  { apply forallb_forall. intros x Hx.
    match goal with H : forallb typed_subscription _ = true |- _ => rewrite forallb_forall in H; specialize (H x Hx); unfold typed_subscription in H end.
    match goal with H : forallb (fun x => filter_dyn _ _ _) _ = true |- _ => rewrite forallb_forall in H; specialize (H x Hx) end.
    hsplit. unfold subscription_valid. gsplit; [eapply filters_of_dyn; eassumption|assumption|destruct v; [assumption|reflexivity]]. }
  cbn [valid]. unfold valid_subscribe. gsplit; try assumption.
  - unfold pid_ok. match goal with H : negb (s_pid s =? 0) = true |- _ => apply negb_true_iff in H end.
    apply andb_true_iff. split; [lia|assumption].
  - destruct v.
    + gsplit.
      * unfold subid_static in Hsid. destruct (s_subid s); [exact Hsid|reflexivity].
      * apply ups_valid_intro; assumption.
      * rewrite vbisz_len. lia.
    + pose proof (vbi_len_bounds (subscribe_props_size s)). lia.
Qed.

(* ---- UNSUBSCRIBE ---- *)
Theorem bridge_unsubscribe v st co r u :
  typed_unsubscribe u = true ->
  validate_outbound (erase (Unsubscribe u)) = Ok tt ->
  validate_outbound_internal (Some st) co r (Unsubscribe u) = Ok tt ->
  small (Unsubscribe u) no_resolution -> engine_ok (Unsubscribe u) = true ->
  valid v r (Unsubscribe u) = true.
Proof.
  intros HT HS HD Hsm HE.
  apply static_of in HS. cbn [erase static_spec] in HS. unfold unsubscribe_static in HS. cbn [u_pid u_filters u_up] in HS.
  apply dynamic_of in HD; [|intros _; split; [reflexivity|split; [exact Hsm|exact I]]].
  cbn [dyn_spec] in HD. unfold unsubscribe_dyn in HD. unfold typed_unsubscribe in HT. cbn [engine_ok] in HE. hsplit.
  match goal with H : check_size_spec _ _ _ = true |- _ => apply check_size_remaining in H; rename H into Hrem end.
  cbn [spec_remaining spec_props] in Hrem. rewrite <- oupsz_size, <- strsz_filters in Hrem.
  assert (Hfs : forallb filter_valid (u_filters u) = true).
  { apply forallb_forall. intros f Hf.
    match goal with H : forallb utf8_ok _ = true |- _ => rewrite forallb_forall in H; specialize (H f Hf) end.
    match goal with H : forallb (filter_dyn _ _) _ = true |- _ => rewrite forallb_forall in H; specialize (H f Hf) end.
    eapply filters_of_dyn; eassumption. }
  cbn [valid]. unfold valid_unsubscribe. gsplit; try assumption.
  - unfold pid_ok. match goal with H : negb (u_pid u =? 0) = true |- _ => apply negb_true_iff in H end.
    apply andb_true_iff. split; [lia|assumption].
  - destruct v.
    + gsplit; [apply ups_valid_intro; assumption|rewrite vbisz_len; lia].
    + pose proof (vbi_len_bounds (oupsz (u_up u))). lia.
Qed.

(* ---- DISCONNECT ---- *)
Lemma dps_eq d : disconnect_props_size d = disconnect_props d.
Proof.
  unfold disconnect_props_size, disconnect_props. rewrite !dsz_prop, oupsz_size. change 5 with (1 + 4). rewrite fsz_prop. lia.
Qed.

Theorem bridge_disconnect v st co r d :
  typed_disconnect d = true ->
  validate_outbound (Disconnect d) = Ok tt ->
  validate_outbound_internal (Some st) co r (Disconnect d) = Ok tt ->
  small (Disconnect d) no_resolution ->
  valid v r (Disconnect d) = true.
Proof.
  intros HT HS HD Hsm. destruct v; [|reflexivity].
  apply static_of in HS. cbn [static_spec] in HS. unfold disconnect_static in HS.
  apply dynamic_of in HD; [|intros _; split; [reflexivity|split; [exact Hsm|exact I]]].
  cbn [dyn_spec] in HD. unfold disconnect_dyn in HD. unfold typed_disconnect in HT. hsplit.
  match goal with H : check_size_spec _ _ _ = true |- _ => apply check_size_remaining in H; rename H into Hrem end.
  cbn [spec_remaining spec_props] in Hrem. rewrite <- dps_eq in Hrem.
  cbn [valid]. unfold valid_disconnect. gsplit; try assumption.
  - apply ostr_valid_intro; assumption.
  - apply ostr_valid_intro; assumption.
  - apply ups_valid_intro; assumption.
  - rewrite vbisz_len. destruct (disconnect_props_size d =? 0) eqn:E.
    + assert (disconnect_props_size d = 0) as -> by lia. cbn. reflexivity.
    + lia.
Qed.

(* ---- all four kinds ---- *)
Theorem bridge_user v st co r p :
  user_kind p = true -> typed p = true ->
  validate_outbound (erase p) = Ok tt ->
  validate_outbound_internal (Some st) co r p = Ok tt ->
  small p (res_of p r) -> engine_ok p = true -> res_valid r = true ->
  (v = V311 -> r_skip_topic r = false) ->
  valid v r p = true.
Proof.
  intros Hk HT HS HD Hsm HE HR H311. destruct p; try discriminate Hk; cbn [res_of typed] in *.
  - eapply bridge_publish; eassumption.
  - eapply bridge_subscribe; eassumption.
  - eapply bridge_unsubscribe; eassumption.
  - eapply bridge_disconnect; eassumption.
Qed.
