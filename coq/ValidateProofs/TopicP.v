(* C16_filter_grammar: the topic-name / topic-filter code of validate.rs (model: Validate/Topic.v)
   computes exactly the grammar of MQTT 5 section 4.7 / 4.8.2 (including [MQTT-4.7.3-2], no null
   character) as written in Validate/Spec.v, for ALL byte strings (induction over the string and over its list of levels). *)
From Coq Require Import Btauto.
From GM Require Import Base.Prelude Base.Outcome Codec.Packets Codec.Prim Validate.Topic Validate.Spec.
Open Scope N_scope.

(* ---- string equality functions are boolean equality ---- *)
Lemma beqb_seqb a b : beqb a b = seqb a b.
Proof. revert b; induction a; destruct b; cbn; auto. Qed.

Lemma seqb_eq a b : seqb a b = true <-> a = b.
Proof.
  revert b; induction a; destruct b; cbn; split; intros H; try discriminate; auto.
  - apply andb_true_iff in H as [H1 H2]. apply N.eqb_eq in H1. apply IHa in H2. now subst.
  - inversion H; subst. rewrite N.eqb_refl. cbn. now apply IHa.
Qed.

Lemma contains_wildcard_has s : contains_wildcard s = has_byte 35 s || has_byte 43 s.
Proof.
  unfold contains_wildcard, has_byte, HASH, PLUS. induction s; cbn; auto.
  rewrite IHs. btauto.
Qed.

(* ---- split('/') = levels ---- *)
Lemma levels_nonempty s : levels s <> [].
Proof. destruct s; cbn; try discriminate. destruct (n =? 47); try discriminate. destruct (levels s); discriminate. Qed.

Lemma split_slash_aux_levels s : forall cur,
  split_slash_aux cur s = match levels s with l :: ls => (rev cur ++ l) :: ls | [] => [] end.
Proof.
  induction s as [|b s IH]; intros cur; cbn.
  - now rewrite rev_append_rev, !app_nil_r.
  - unfold SLASH. destruct (b =? 47).
    + rewrite rev_append_rev, !app_nil_r. rewrite IH. cbn.
      destruct (levels s) eqn:E; [now apply levels_nonempty in E|]. reflexivity.
    + rewrite IH. cbn [rev]. destruct (levels s) eqn:E; [now apply levels_nonempty in E|].
      now rewrite <- app_assoc.
Qed.

Lemma split_slash_levels s : split_slash s = levels s.
Proof.
  unfold split_slash. rewrite split_slash_aux_levels. cbn.
  destruct (levels s) eqn:E; [now apply levels_nonempty in E|]. reflexivity.
Qed.

(* a byte other than '/' occurs in s iff it occurs in one of its levels *)
Lemma has_byte_levels c s : c <> 47 -> has_byte c s = existsb (has_byte c) (levels s).
Proof.
  intros Hc. unfold has_byte. induction s as [|b s IH]; [reflexivity|].
  cbn [levels existsb]. destruct (b =? 47) eqn:E.
  - apply N.eqb_eq in E; subst. cbn [existsb].
    replace (47 =? c) with false by (symmetry; apply N.eqb_neq; lia). cbn [orb]. exact IH.
  - destruct (levels s) eqn:EL; [now apply levels_nonempty in EL|]. cbn [existsb] in *. rewrite IH.
    now rewrite orb_assoc.
Qed.

(* ---- levels of length one ---- *)
Lemma len1 (l : bytes) : (len l =? 1) = true -> exists x, l = [x].
Proof.
  intros H. apply N.eqb_eq in H. destruct l as [|x [|y l]]; unfold len in H; cbn in H; try lia. now exists x.
Qed.

Lemma seqb_single_false (l : bytes) c : (len l =? 1) = false -> seqb l [c] = false.
Proof.
  intros H. destruct l as [|x [|y l]]; cbn; auto. 2: now rewrite andb_false_r.
  unfold len in H; cbn in H. discriminate.
Qed.

(* ---- the loop: validity ---- *)
Lemma tf_loop_valid : forall ls i s,
  ts_is_valid (tf_loop i ls s) =
  ts_is_valid s && match ls with [] => true | _ => negb (ts_seen_mlw s) && levels_ok ls end.
Proof.
  induction ls as [|l rest IH]; intros i s.
  - cbn. now rewrite andb_true_r.
  - cbn [tf_loop]. destruct (ts_seen_mlw s) eqn:Em.
    + cbn. now rewrite andb_false_r.
    + cbn [negb andb].
      assert (Hlo : levels_ok (l :: rest) = match rest with [] => level_ok l true | _ => level_ok l false && levels_ok rest end)
        by (destruct rest; reflexivity).
      rewrite Hlo. clear Hlo.
      destruct (len l =? 1) eqn:E1.
      * destruct (len1 l E1) as [x ->]. rewrite IH. cbn [ts_is_valid ts_seen_mlw].
        rewrite beqb_seqb. unfold level_ok, HASH, STR_HASH, STR_PLUS, has_byte. cbn [existsb seqb].
        rewrite !orb_false_r, !andb_true_r.
        destruct rest as [|l' rest'].
        -- destruct (x =? 35), (x =? 43); reflexivity.
        -- destruct (x =? 35) eqn:E35; cbn [negb andb].
           ++ now rewrite !andb_false_r.
           ++ destruct (x =? 43); cbn; reflexivity.
      * rewrite contains_wildcard_has. unfold level_ok, STR_HASH, STR_PLUS.
        rewrite (seqb_single_false l 35 E1), (seqb_single_false l 43 E1).
        destruct (has_byte 35 l) eqn:Eh, (has_byte 43 l) eqn:Ep; cbn [orb andb ts_is_valid].
        1-3: destruct rest; cbn; now rewrite ?andb_false_r.
        rewrite IH. cbn [ts_is_valid ts_seen_mlw negb andb]. destruct rest; reflexivity.
Qed.

(* ---- the loop: flags (meaningful when the result is valid, i.e. no `break` happened) ---- *)
Definition tf_step (i : N) (l : bytes) (s : tf_state) : tf_state :=
  let has_wildcard := contains_wildcard l in
  let has_share_prefix := if (i =? 0) && beqb l DOLLAR_SHARE then true else ts_has_share_prefix s in
  let has_share_name :=
    if (i =? 1) && has_share_prefix && negb (len l =? 0) && negb has_wildcard then true else ts_has_share_name s in
  {| ts_is_valid := ts_is_valid s;
     ts_is_shared := if has_share_name && (((i =? 2) && negb (len l =? 0)) || (2 <? i)) then true else ts_is_shared s;
     ts_has_wildcard := ts_has_wildcard s || has_wildcard;
     ts_has_share_prefix := has_share_prefix;
     ts_has_share_name := has_share_name;
     ts_seen_mlw := if len l =? 1 then (if beqb l [HASH] then true else false) else false |}.

Lemma tf_loop_step i l rest s :
  ts_is_valid (tf_loop i (l :: rest) s) = true ->
  tf_loop i (l :: rest) s = tf_loop (i + 1) rest (tf_step i l s).
Proof.
  cbn [tf_loop]. unfold tf_step. destruct (ts_seen_mlw s); [cbn; discriminate|].
  destruct (len l =? 1) eqn:E1; [reflexivity|].
  destruct (contains_wildcard l); [cbn; discriminate|]. reflexivity.
Qed.

Lemma tf_loop_wild : forall ls i s,
  ts_is_valid (tf_loop i ls s) = true ->
  ts_has_wildcard (tf_loop i ls s) = ts_has_wildcard s || existsb contains_wildcard ls.
Proof.
  induction ls as [|l rest IH]; intros i s Hv.
  - cbn. now rewrite orb_false_r.
  - pose proof Hv as Hv'. rewrite (tf_loop_step _ _ _ _ Hv) in Hv' |- *. rewrite IH by exact Hv'. cbn. now rewrite orb_assoc.
Qed.

Lemma tf_loop_shared_tail : forall ls i s, 2 < i ->
  ts_is_valid (tf_loop i ls s) = true ->
  ts_is_shared (tf_loop i ls s) = ts_is_shared s || (ts_has_share_name s && match ls with [] => false | _ => true end)
  /\ ts_has_share_name (tf_loop i ls s) = ts_has_share_name s.
Proof.
  induction ls as [|l rest IH]; intros i s Hi Hv.
  - cbn. now rewrite andb_false_r, orb_false_r.
  - pose proof Hv as Hv'. rewrite (tf_loop_step _ _ _ _ Hv) in Hv' |- *.
    destruct (IH (i + 1) (tf_step i l s) ltac:(lia) Hv') as [IH1 IH2]. rewrite IH1, IH2. clear IH1 IH2 IH.
    unfold tf_step. cbn [ts_is_shared ts_has_share_name].
    replace (i =? 0) with false by (symmetry; apply N.eqb_neq; lia).
    replace (i =? 1) with false by (symmetry; apply N.eqb_neq; lia).
    replace (i =? 2) with false by (symmetry; apply N.eqb_neq; lia).
    replace (2 <? i) with true by (symmetry; apply N.ltb_lt; lia).
    cbn [andb orb]. rewrite andb_true_r.
    destruct (ts_has_share_name s), (ts_is_shared s), rest; auto.
Qed.

Ltac ground_n :=
  repeat match goal with
  | |- context[N.eqb ?a ?b] =>
      let v := eval vm_compute in (N.eqb a b) in
      lazymatch v with true => change (N.eqb a b) with true | false => change (N.eqb a b) with false end
  | |- context[N.ltb ?a ?b] =>
      let v := eval vm_compute in (N.ltb a b) in
      lazymatch v with true => change (N.ltb a b) with true | false => change (N.ltb a b) with false end
  end.

Lemma len_zero_nil (l : bytes) : (len l =? 0) = match l with [] => true | _ => false end.
Proof. destruct l; [reflexivity|]. apply N.eqb_neq. rewrite len_cons. lia. Qed.

Lemma one_le_len (l : bytes) : (1 <=? len l) = negb (len l =? 0).
Proof. destruct (len l =? 0) eqn:E; cbn; [apply N.eqb_eq in E; apply N.leb_gt; lia | apply N.eqb_neq in E; apply N.leb_le; lia]. Qed.

(* shared flag computed by the loop from the start = the 4.8.2 form *)
Lemma tf_loop_shared ls :
  ts_is_valid (tf_loop 0 ls tf_initial) = true ->
  ts_is_shared (tf_loop 0 ls tf_initial) =
  match ls with
  | first :: name :: rest =>
      seqb first STR_SHARE && (1 <=? len name) && negb (has_byte 35 name) && negb (has_byte 43 name) &&
      match rest with [] => false | [[]] => false | _ => true end
  | _ => false
  end.
Proof.
  intros Hv.
  destruct ls as [|l0 ls]; [reflexivity|].
  pose proof Hv as Hv0. rewrite (tf_loop_step _ _ _ _ Hv) in Hv0 |- *. change (0 + 1) with 1 in *. clear Hv.
  destruct ls as [|l1 ls]; [cbn; unfold tf_step; ground_n; cbn; reflexivity|].
  pose proof Hv0 as Hv1. rewrite (tf_loop_step _ _ _ _ Hv0) in Hv1 |- *. change (1 + 1) with 2 in *.
  assert (Hname : ts_has_share_name (tf_step 1 l1 (tf_step 0 l0 tf_initial)) =
                  seqb l0 STR_SHARE && (1 <=? len l1) && negb (has_byte 35 l1) && negb (has_byte 43 l1)).
  { unfold tf_step. cbn [ts_has_share_name ts_has_share_prefix tf_initial]. ground_n. cbn [andb].
    rewrite beqb_seqb, contains_wildcard_has, one_le_len. unfold DOLLAR_SHARE, STR_SHARE.
    destruct (seqb l0 _), (len l1 =? 0), (has_byte 35 l1), (has_byte 43 l1); reflexivity. }
  assert (Hsh1 : ts_is_shared (tf_step 1 l1 (tf_step 0 l0 tf_initial)) = false).
  { unfold tf_step. cbn [ts_is_shared tf_initial]. ground_n. cbn. now rewrite !andb_false_r. }
  destruct ls as [|l2 ls].
  - cbn [tf_loop]. rewrite Hsh1. now rewrite andb_false_r.
  - pose proof Hv1 as Hv2. rewrite (tf_loop_step _ _ _ _ Hv1) in Hv2 |- *. change (2 + 1) with 3 in *.
    destruct (tf_loop_shared_tail ls 3 _ ltac:(lia) Hv2) as [H1 _]. rewrite H1. clear H1.
    set (s1 := tf_step 1 l1 (tf_step 0 l0 tf_initial)) in *.
    unfold tf_step at 1 2. cbn [ts_is_shared ts_has_share_name]. ground_n. cbn [andb orb].
    rewrite Hsh1, Hname. rewrite len_zero_nil.
    set (nm := seqb l0 STR_SHARE && (1 <=? len l1) && negb (has_byte 35 l1) && negb (has_byte 43 l1)).
    rewrite !orb_false_r.
    destruct nm, l2, ls; reflexivity.
Qed.

(* ---- str::contains('\0') ---- *)
Lemma contains_nul_no_nul s : contains_nul s = negb (no_nul s).
Proof. unfold no_nul, contains_nul, has_byte. now rewrite negb_involutive. Qed.

(* ---- the theorem ---- *)
Theorem filter_grammar : forall f,
  let p := topic_filter_properties f in
  tf_is_valid p = spec_plain_filter f && no_nul f /\
  (tf_is_valid p = true ->
     tf_is_shared p = spec_shared_filter f /\ tf_has_wildcard p = filter_has_wildcard f).
Proof.
  intros f p. subst p. unfold topic_filter_properties, spec_plain_filter, length_ok, MAXIMUM_STRING_PROPERTY_LENGTH.
  destruct ((len f =? 0) || (65535 <? len f)) eqn:E.
  - cbn [tf_is_valid]. split; [|discriminate].
    apply orb_true_iff in E as [E|E]; [apply N.eqb_eq in E | apply N.ltb_lt in E].
    + replace (1 <=? len f) with false by (symmetry; apply N.leb_gt; lia). reflexivity.
    + replace (len f <=? 65535) with false by (symmetry; apply N.leb_gt; lia). now rewrite andb_false_r.
  - rewrite contains_nul_no_nul. destruct (no_nul f); cbn [negb].
    2:{ cbn [tf_is_valid]. split; [now rewrite andb_false_r | discriminate]. }
    rewrite andb_true_r.
    apply orb_false_iff in E as [E0 E1]. apply N.eqb_neq in E0. apply N.ltb_ge in E1.
    replace (1 <=? len f) with true by (symmetry; apply N.leb_le; lia).
    replace (len f <=? 65535) with true by (symmetry; apply N.leb_le; lia).
    rewrite split_slash_levels. cbn [ts_props tf_is_valid tf_is_shared tf_has_wildcard andb].
    split.
    + rewrite tf_loop_valid. cbn [tf_initial ts_is_valid ts_seen_mlw negb andb].
      destruct (levels f) eqn:EL; [now apply levels_nonempty in EL|]. reflexivity.
    + intros Hv. split.
      * rewrite (tf_loop_shared _ Hv). unfold spec_shared_filter. reflexivity.
      * rewrite (tf_loop_wild _ _ _ Hv). cbn [tf_initial ts_has_wildcard orb].
        unfold filter_has_wildcard. rewrite (has_byte_levels 35), (has_byte_levels 43) by lia.
        clear Hv. induction (levels f) as [|l ls IHl]; [reflexivity|]. cbn [existsb]. rewrite IHl, contains_wildcard_has. btauto.
Qed.

(* a valid filter has no null character ([MQTT-4.7.3-2]) *)
Corollary filter_valid_no_nul f : tf_is_valid (topic_filter_properties f) = true -> no_nul f = true.
Proof. destruct (filter_grammar f) as [Hv _]. cbv zeta in Hv. rewrite Hv. intros H. now apply andb_true_iff in H. Qed.

(* ---- topic names ---- *)
Theorem topic_grammar : forall t, is_valid_topic t = spec_topic t && no_nul t.
Proof.
  intros t. unfold is_valid_topic, spec_topic, length_ok, MAXIMUM_STRING_PROPERTY_LENGTH.
  rewrite contains_wildcard_has, contains_nul_no_nul.
  destruct (len t =? 0) eqn:E0; cbn [orb].
  - apply N.eqb_eq in E0. replace (1 <=? len t) with false by (symmetry; apply N.leb_gt; lia). reflexivity.
  - apply N.eqb_neq in E0. replace (1 <=? len t) with true by (symmetry; apply N.leb_le; lia).
    destruct (65535 <? len t) eqn:E1.
    + apply N.ltb_lt in E1. replace (len t <=? 65535) with false by (symmetry; apply N.leb_gt; lia). reflexivity.
    + apply N.ltb_ge in E1. replace (len t <=? 65535) with true by (symmetry; apply N.leb_le; lia).
      destruct (has_byte 35 t), (has_byte 43 t), (no_nul t); reflexivity.
Qed.

(* a valid topic name has no null character ([MQTT-4.7.3-2]) *)
Corollary topic_valid_no_nul t : is_valid_topic t = true -> no_nul t = true.
Proof. rewrite topic_grammar. intros H. now apply andb_true_iff in H. Qed.

(* ---- the capability-dependent verdict ---- *)
Definition no_local_set (nl : option bool) : bool := match nl with Some b => b | None => false end.

Theorem filter_verdict : forall f sh wc nl,
  is_valid_topic_filter_internal f (Some (sh, wc)) nl =
  Ok (spec_plain_filter f && no_nul f &&
      (negb (spec_shared_filter f) || (sh && negb (no_local_set nl))) &&
      (negb (filter_has_wildcard f) || wc)).
Proof.
  intros f sh wc nl. unfold is_valid_topic_filter_internal.
  destruct (filter_grammar f) as [Hv Hf]. cbv zeta in Hv, Hf.
  rewrite <- Hv. destruct (tf_is_valid (topic_filter_properties f)) eqn:Ev; cbn [negb andb]; [|reflexivity].
  destruct (Hf eq_refl) as [Hs Hw]. rewrite Hs, Hw.
  destruct (spec_shared_filter f), sh, nl as [[|]|], (filter_has_wildcard f), wc; reflexivity.
Qed.

(* the code's verdict is the specification's verdict exactly on the filters that are not a
   malformed "$share/..." form; on those the code treats the filter as an ordinary one *)
Definition malformed_share (f : bytes) : bool := starts_with_share f && negb (spec_shared_filter f).

Lemma shared_starts f : spec_shared_filter f = true -> starts_with_share f = true.
Proof.
  unfold spec_shared_filter, starts_with_share. destruct (levels f) as [|a [|b r]]; try discriminate.
  intros H. repeat (apply andb_true_iff in H as [H ?]). exact H.
Qed.

Theorem filter_verdict_spec : forall f sh wc nl,
  malformed_share f = false ->
  is_valid_topic_filter_internal f (Some (sh, wc)) nl = Ok (spec_filter_verdict wc sh nl f).
Proof.
  intros f sh wc nl Hm. rewrite filter_verdict. f_equal. unfold spec_filter_verdict, spec_filter, malformed_share in *.
  pose proof (shared_starts f) as Hss.
  destruct (spec_plain_filter f), (no_nul f), (starts_with_share f), (spec_shared_filter f), sh, nl as [[|]|], (filter_has_wildcard f), wc;
    cbn in *; try reflexivity; try discriminate; try (specialize (Hss eq_refl); discriminate).
Qed.
