(* C02 bridge, CONNECT: a configuration that satisfies BridgeConnect.connect_checked exists (both versions), and every
   clause of connect_checked is necessary: for each clause a well-typed configuration that violates only that clause,
   whose CONNECT the library sends unchecked (connect options are never validated: known findings D17 / D25 / D29) and
   which the wire specification rejects.  (The Remaining Length clause needs a 256 MiB configuration: no witness.) *)
From GM Require Import Base.Prelude Base.Outcome Codec.Packets Codec.Prim Codec.Settings Codec.SpecDecodeC2S Codec.ValidC2S.
From GM Require Import ValidateProofs.BridgeDefs ValidateProofs.BridgeConnect.
Open Scope N_scope.

Definition bc_will (topic : bytes) (payload ct : option bytes) (up : option (list user_property)) : publish :=
  {| pub_pid := 0; pub_topic := topic; pub_qos := 1; pub_dup := false; pub_retain := true; pub_payload := payload;
     pub_pfi := Some 1; pub_mei := Some 60; pub_alias := None; pub_response_topic := Some [114]; pub_correlation := Some [1];
     pub_subids := None; pub_content_type := ct; pub_up := up |}.
Definition bc_will_ok : publish := bc_will [119] (Some [1; 2]) (Some [116]) (Some [{| up_name := [107]; up_value := [118] |}]).

Definition bc_co (rejoin : N) (cid user pass : option bytes) (rmax mpkt : option N) (will : option publish)
  (up : option (list user_property)) : connect_opts :=
  {| co_keep_alive := Some 60; co_rejoin := rejoin; co_client_id := cid; co_username := user; co_password := pass;
     co_sei := Some 30; co_rri := Some true; co_rpi := None; co_receive_max := rmax; co_tam := Some 8; co_max_packet := mpkt;
     co_will_delay := Some 5; co_will := will; co_up := up |}.

Definition bc_ok : connect_opts :=
  bc_co 0 (Some [99]) (Some [117]) (Some [112]) (Some 10) (Some 1000) (Some bc_will_ok) (Some [{| up_name := [97]; up_value := [98] |}]).

(* a configuration is judged on the CONNECT of a first and of a later connection, with the configured client id *)
Definition bc_valid (v : version) (co : connect_opts) : bool :=
  valid v no_resolution (Connect (connect_of co false (co_client_id co)))
  && valid v no_resolution (Connect (connect_of co true (co_client_id co))).
Definition bc_checked (v : version) (co : connect_opts) : bool :=
  connect_checked v co false (co_client_id co) && connect_checked v co true (co_client_id co).
Definition bc_typed (co : connect_opts) : bool := connect_typed co (co_client_id co).

Example connect_checked_satisfiable :
  bc_typed bc_ok && bc_checked V5 bc_ok && bc_checked V311 bc_ok && bc_valid V5 bc_ok && bc_valid V311 bc_ok = true.
Proof. vm_compute. reflexivity. Qed.

Definition nul : bytes := [97; 0].
Definition long : bytes := repeat 97 (N.to_nat 65536).
Definition up1 (n v : bytes) := Some [{| up_name := n; up_value := v |}].

(* well-typed configurations the library sends unchecked and both protocol versions reject *)
Example connect_clauses_necessary_both_versions :
  forallb (fun co => bc_typed co && negb (bc_checked V5 co) && negb (bc_checked V311 co) && negb (bc_valid V5 co) && negb (bc_valid V311 co))
    [ bc_co 0 (Some nul) None None None None None None;                               (* U+0000 in the client id *)
      bc_co 0 (Some long) None None None None None None;                              (* client id of 65536 bytes *)
      bc_co 0 (Some [99]) (Some nul) None None None None None;                        (* U+0000 in the user name *)
      bc_co 0 (Some [99]) (Some long) None None None None None;                       (* user name of 65536 bytes *)
      bc_co 0 (Some [99]) (Some [117]) (Some long) None None None None;               (* password of 65536 bytes *)
      bc_co 0 (Some [99]) None None None None (Some (bc_will nul None None None)) None;   (* U+0000 in the will topic *)
      bc_co 0 (Some [99]) None None None None (Some (bc_will long None None None)) None;  (* will topic of 65536 bytes *)
      bc_co 0 (Some [99]) None None None None (Some (bc_will [119] (Some long) None None)) None  (* will payload of 65536 bytes *)
    ] = true.
Proof. vm_compute. reflexivity. Qed.

(* MQTT 5 only: Receive Maximum 0, Maximum Packet Size 0, U+0000 in a user property, in a will property *)
Example connect_clauses_necessary_v5 :
  forallb (fun co => bc_typed co && negb (bc_checked V5 co) && negb (bc_valid V5 co) && bc_valid V311 co)
    [ bc_co 0 (Some [99]) None None (Some 0) None None None;
      bc_co 0 (Some [99]) None None None (Some 0) None None;
      bc_co 0 (Some [99]) None None None None None (up1 [97] nul);
      bc_co 0 (Some [99]) None None None None None (up1 long [98]);
      bc_co 0 (Some [99]) None None None None (Some (bc_will [119] None (Some nul) None)) None;
      bc_co 0 (Some [99]) None None None None (Some (bc_will [119] None None (up1 nul [98]))) None
    ] = true.
Proof. vm_compute. reflexivity. Qed.

(* MQTT 3.1.1 only: a password without a user name (D29); no / an empty client id while the session is kept (D25:
   rejoin policy Always, or PostSuccess on a reconnect) *)
Example connect_clauses_necessary_v311 :
  forallb (fun co => bc_typed co && negb (bc_checked V311 co) && negb (bc_valid V311 co) && bc_valid V5 co)
    [ bc_co 0 (Some [99]) None (Some [112]) None None None None;
      bc_co 1 None None None None None None None;
      bc_co 1 (Some []) None None None None None None;
      bc_co 0 None None None None None None None
    ] = true.
Proof. vm_compute. reflexivity. Qed.
