(* C16: the validation code (model: Validate/Rules.v) against the specification predicate
   (Validate/Spec.v).  Step 1 characterises each validation function as a boolean in the
   specification's vocabulary ([is_ok (validate ...) = ..._spec]); step 2 is boolean reasoning. *)
From Coq Require Import Btauto.
From GM Require Import Base.Prelude Base.Outcome Codec.Packets Codec.Prim Codec.Steps Codec.ImplEncode Codec.Settings.
From GM Require Import Validate.Topic Validate.Rules Validate.Spec ValidateProofs.TopicP ValidateProofs.SizeP.
Open Scope N_scope.

(* ---- outcomes of type unit ---- *)
Lemma is_ok_tt (o : outcome unit) : o = Ok tt <-> is_ok o = true.
Proof. destruct o as [[]| |]; cbn; split; intros; try discriminate; reflexivity. Qed.

Lemma is_ok_bind (a : outcome unit) (b : outcome unit) : is_ok (do _ <- a; b) = is_ok a && is_ok b.
Proof. destruct a; reflexivity. Qed.

Lemma is_ok_bindA {A} (a : outcome A) (b : A -> outcome unit) x : a = Ok x -> is_ok (obind a b) = is_ok (b x).
Proof. intros ->. reflexivity. Qed.

Lemma is_ok_if (c : bool) (b : outcome unit) : is_ok (if c then vfail else b) = negb c && is_ok b.
Proof. destruct c; reflexivity. Qed.

Lemma is_ok_if_tt (c : bool) : is_ok (if c then @vfail unit else Ok tt) = negb c.
Proof. destruct c; reflexivity. Qed.

(* ---- primitive checks ---- *)
Lemma gt_not_le a b : negb (b <? a) = (a <=? b).
Proof. destruct (b <? a) eqn:E, (a <=? b) eqn:F; cbn; auto; lia. Qed.

(* after the repair of D28 (/repo cbc2d52) the string helpers also reject U+0000 *)
Lemma is_ok_vsl s : is_ok (validate_string_length s) = str_ok s && no_nul s.
Proof.
  unfold validate_string_length, str_ok, MAXIMUM_STRING_PROPERTY_LENGTH.
  rewrite is_ok_if, is_ok_if_tt, contains_nul_no_nul, negb_involutive. f_equal. apply gt_not_le.
Qed.

Lemma is_ok_vosl o : is_ok (validate_optional_string_length o) = ostr_ok o && onul_ok o.
Proof. destruct o as [s|]; [|reflexivity]. exact (is_ok_vsl s). Qed.

Lemma is_ok_vobl o : is_ok (validate_optional_binary_length o) = ostr_ok o.
Proof. destruct o; cbn; [|reflexivity]. unfold str_ok, MAXIMUM_BINARY_PROPERTY_LENGTH. rewrite is_ok_if_tt. apply gt_not_le. Qed.

Definition nz_ok (o : option N) : bool := match o with Some v => negb (v =? 0) | None => true end.
Lemma is_ok_nz o : is_ok (validate_optional_integer_non_zero o) = nz_ok o.
Proof. destruct o; cbn; [|reflexivity]. apply is_ok_if_tt. Qed.

Definition ups_ok (o : option (list user_property)) : bool :=
  match o with
  | Some l => forallb (fun p => str_ok (up_name p)) l && forallb (fun p => str_ok (up_value p)) l &&
              forallb (fun p => no_nul (up_name p) && no_nul (up_value p)) l
  | None => true
  end.

Lemma is_ok_vup o : is_ok (validate_user_properties o) = ups_ok o.
Proof.
  destruct o as [l|]; [|reflexivity]. cbn. induction l as [|p l IH]; [reflexivity|].
  cbn [validate_user_properties_list forallb]. rewrite !is_ok_bind, !is_ok_vsl, IH. btauto.
Qed.

Lemma ups_rules_ok o : ups_ok o = true <-> ups_rules o = [].
Proof.
  destruct o as [l|]; cbn; [|tauto]. unfold req.
  destruct (forallb (fun p => str_ok (up_name p)) l), (forallb (fun p => str_ok (up_value p)) l),
           (forallb (fun p => no_nul (up_name p) && no_nul (up_value p)) l); cbn; split; intros; try discriminate; auto.
Qed.

(* ---- static validation ---- *)
Definition alias_nz (o : option N) : bool := match o with Some a => negb (a =? 0) | None => true end.
Definition is_none {A} (o : option A) : bool := match o with Some _ => false | None => true end.
Definition otopic_ok (o : option bytes) : bool :=
  match o with Some t => spec_topic t | None => true end && match o with Some t => no_nul t | None => true end.

Definition publish_static (p : publish) : bool :=
  (pub_pid p =? 0) && negb (pub_dup p) && spec_topic (pub_topic p) && no_nul (pub_topic p) && alias_nz (pub_alias p) &&
  is_none (pub_subids p) && otopic_ok (pub_response_topic p) && ups_ok (pub_up p) &&
  ostr_ok (pub_correlation p) && ostr_ok (pub_content_type p) && onul_ok (pub_content_type p).

Lemma spec_topic_str_ok t : spec_topic t = true -> str_ok t = true.
Proof. unfold spec_topic, length_ok, str_ok. intros H. repeat (apply andb_true_iff in H as [H ?]). assumption. Qed.

Lemma is_ok_publish_static p : is_ok (validate_publish_packet_outbound p) = publish_static p.
Proof.
  unfold validate_publish_packet_outbound, publish_static.
  destruct (pub_pid p =? 0); cbn [negb andb]; [|reflexivity].
  destruct (pub_dup p); cbn [negb andb]; [reflexivity|].
  rewrite is_ok_bind, is_ok_vsl, topic_grammar.
  destruct (spec_topic (pub_topic p)) eqn:Et; cbn [negb andb]; [|now rewrite andb_false_r].
  destruct (no_nul (pub_topic p)); cbn [negb andb]; [|now rewrite !andb_false_r].
  rewrite (spec_topic_str_ok _ Et). cbn [andb].
  rewrite is_ok_bind.
  assert (Ha : is_ok (match pub_alias p with Some a => if a =? 0 then vfail else Ok tt | None => Ok tt end) = alias_nz (pub_alias p))
    by (destruct (pub_alias p); cbn; [apply is_ok_if_tt|reflexivity]).
  rewrite Ha. destruct (alias_nz (pub_alias p)); cbn [andb]; [|reflexivity].
  destruct (pub_subids p); cbn [is_none andb]; [reflexivity|].
  rewrite !is_ok_bind, is_ok_vup, ?is_ok_vobl, ?is_ok_vosl.
  assert (Hr : is_ok (match pub_response_topic p with
                      | Some rt => if negb (is_valid_topic rt) then vfail else validate_string_length rt
                      | None => Ok tt end) = otopic_ok (pub_response_topic p)).
  { destruct (pub_response_topic p) as [rt|]; [|reflexivity]. unfold otopic_ok. rewrite topic_grammar.
    destruct (spec_topic rt) eqn:E; cbn [andb negb]; [|reflexivity].
    destruct (no_nul rt) eqn:En; cbn [andb negb]; [|reflexivity]. rewrite is_ok_vsl, En, andb_true_r. now apply spec_topic_str_ok. }
  rewrite Hr. btauto.
Qed.

Definition subid_static (o : option N) : bool := match o with Some v => (1 <=? v) && (v <=? VLI_MAX) | None => true end.

Definition subscribe_static (s : subscribe) : bool :=
  (s_pid s =? 0) && negb (len (s_subs s) =? 0) && subid_static (s_subid s) && ups_ok (s_up s).

Lemma len_zero_nil' {A} (l : list A) : (len l =? 0) = match l with [] => true | _ => false end.
Proof. destruct l; [reflexivity|]. apply N.eqb_neq. rewrite len_cons. lia. Qed.

Lemma is_ok_subscribe_static s : is_ok (validate_subscribe_packet_outbound s) = subscribe_static s.
Proof.
  unfold validate_subscribe_packet_outbound, subscribe_static. rewrite len_zero_nil'.
  destruct (s_pid s =? 0); cbn [negb andb]; [|reflexivity].
  destruct (s_subs s); cbn [negb andb]; [reflexivity|].
  rewrite is_ok_bind, is_ok_vup. f_equal.
  destruct (s_subid s) as [v|]; [|reflexivity]. cbn [subid_static]. rewrite is_ok_if_tt. unfold VLI_MAX.
  destruct (v =? 0) eqn:E1, (268435455 <? v) eqn:E2, (1 <=? v) eqn:E3, (v <=? 268435455) eqn:E4; cbn; auto; lia.
Qed.

Definition unsubscribe_static (u : unsubscribe) : bool :=
  (u_pid u =? 0) && negb (len (u_filters u) =? 0) && ups_ok (u_up u).

Lemma is_ok_unsubscribe_static u : is_ok (validate_unsubscribe_packet_outbound u) = unsubscribe_static u.
Proof.
  unfold validate_unsubscribe_packet_outbound, unsubscribe_static. rewrite len_zero_nil'.
  destruct (u_pid u =? 0); cbn [negb andb]; [|reflexivity].
  destruct (u_filters u); cbn [negb andb]; [reflexivity|]. apply is_ok_vup.
Qed.

Definition disconnect_static (d : disconnect) : bool :=
  ostr_ok (d_reason d) && onul_ok (d_reason d) && ups_ok (d_up d) && ostr_ok (d_server_ref d) && onul_ok (d_server_ref d).
Lemma is_ok_disconnect_static d : is_ok (validate_disconnect_packet_outbound d) = disconnect_static d.
Proof. unfold validate_disconnect_packet_outbound, disconnect_static. rewrite !is_ok_bind, !is_ok_vosl, is_ok_vup. btauto. Qed.

Definition ack_static (a : ack) : bool := ostr_ok (ack_reason a) && onul_ok (ack_reason a) && ups_ok (ack_up a).
Lemma is_ok_ack_static a : is_ok (validate_ack_outbound a) = ack_static a.
Proof. unfold validate_ack_outbound, ack_static. now rewrite is_ok_bind, is_ok_vosl, is_ok_vup. Qed.

Definition auth_static (a : auth) : bool :=
  negb (is_none (au_method a)) && ostr_ok (au_method a) && onul_ok (au_method a) && ostr_ok (au_data a) &&
  ostr_ok (au_reason a) && onul_ok (au_reason a) && ups_ok (au_up a).
Lemma is_ok_auth_static a : is_ok (validate_auth_packet_outbound a) = auth_static a.
Proof.
  unfold validate_auth_packet_outbound, auth_static. destruct (au_method a) eqn:E; [|reflexivity].
  rewrite !is_ok_bind, ?is_ok_vosl, ?is_ok_vobl, is_ok_vup. cbn. btauto.
Qed.

Definition auth_data_ok (c : connect) : bool :=
  match con_auth_data c, con_auth_method c with Some _, None => false | _, _ => true end.

Definition will_static (w : publish) : bool :=
  ostr_ok (pub_content_type w) && onul_ok (pub_content_type w) &&
  ostr_ok (pub_response_topic w) && onul_ok (pub_response_topic w) && ostr_ok (pub_correlation w) &&
  ups_ok (pub_up w) && str_ok (pub_topic w) && no_nul (pub_topic w) && ostr_ok (pub_payload w).

Definition connect_static (c : connect) : bool :=
  ostr_ok (con_client_id c) && onul_ok (con_client_id c) && nz_ok (con_receive_max c) && nz_ok (con_max_packet c) && auth_data_ok c &&
  ostr_ok (con_auth_method c) && onul_ok (con_auth_method c) && ostr_ok (con_auth_data c) &&
  ostr_ok (con_username c) && onul_ok (con_username c) && ostr_ok (con_password c) &&
  ups_ok (con_up c) && match con_will c with Some w => will_static w | None => true end.

Lemma is_ok_connect_static c : is_ok (validate_connect_packet_outbound c) = connect_static c.
Proof.
  unfold validate_connect_packet_outbound, connect_static, will_static.
  rewrite !is_ok_bind, ?is_ok_vosl, ?is_ok_vobl, !is_ok_nz, is_ok_vup.
  assert (Ha : is_ok (match con_auth_data c, con_auth_method c with Some _, None => @vfail unit | _, _ => Ok tt end) = auth_data_ok c)
    by (unfold auth_data_ok; destruct (con_auth_data c), (con_auth_method c); reflexivity).
  rewrite Ha. destruct (con_will c) as [w|]; [|cbn [is_ok]; btauto].
  rewrite !is_ok_bind, ?is_ok_vosl, ?is_ok_vobl, is_ok_vup, is_ok_vsl. btauto.
Qed.

Definition static_spec (p : packet) : bool :=
  match p with
  | Auth a => auth_static a
  | Connect c => connect_static c
  | Disconnect d => disconnect_static d
  | Pingreq => true
  | Puback a | Pubcomp a | Pubrec a | Pubrel a => ack_static a
  | Publish x => publish_static x
  | Subscribe s => subscribe_static s
  | Unsubscribe u => unsubscribe_static u
  | Connack _ | Suback _ | Unsuback _ | Pingresp => false
  end.

Theorem is_ok_static p : is_ok (validate_outbound p) = static_spec p.
Proof.
  destruct p; cbn [validate_outbound static_spec]; try reflexivity;
    auto using is_ok_connect_static, is_ok_publish_static, is_ok_ack_static, is_ok_subscribe_static,
               is_ok_unsubscribe_static, is_ok_disconnect_static, is_ok_auth_static.
Qed.

(* ---- send-time validation ---- *)
Definition size_hyps (p : packet) (r : resolution) : Prop :=
  sized_kind p = true /\ spec_remaining p r < 4294967296 /\ subid_in_range p.

Lemma check_size_char st p r (f : settings -> outcome unit) :
  size_hyps p r ->
  is_ok (do s <- check_packet_size (Some st) p r; f s) = check_size_spec st p r && is_ok (f st).
Proof.
  intros (Hk & Hsm & Hsub). unfold check_packet_size.
  destruct (check_size_spec st p r) eqn:Ec.
  - destruct (impl_total_ok p r st Hk Hsub Ec) as (pl & H1 & H2 & H3).
    rewrite H1. cbn [obind]. rewrite H2. cbn [obind].
    replace (1 + spec_remaining p r + vbi_len (spec_remaining p r)) with (1 + spec_remaining p r + vbi_len (spec_remaining p r)) by reflexivity.
    rewrite H3. reflexivity.
  - cbn [andb].
    destruct (impl_lengths5 p r) as [[rem pl]| |] eqn:E1; cbn [obind]; try reflexivity.
    destruct (vli_size rem) as [sz| |] eqn:E2; cbn [obind]; try reflexivity.
    destruct (st_maximum_packet_size_to_server st <? 1 + rem + sz) eqn:E3; [reflexivity|].
    rewrite (impl_total_inv p r st rem pl sz Hk Hsm E1 E2 E3) in Ec. discriminate.
Qed.

Definition pid_dyn (pid qos : N) : bool := negb ((pid =? 0) && negb (qos =? 0)).
Definition qos_dyn (maxq qos : N) : bool :=
  if maxq =? 0 then (qos =? 0) else if maxq =? 1 then negb (qos =? 2) else true.

Definition publish_dyn (st : settings) (r : resolution) (p : publish) : bool :=
  check_size_spec st (Publish p) r && pid_dyn (pub_pid p) (pub_qos p) &&
  (negb (pub_retain p) || st_retain_available st) && qos_dyn (st_maximum_qos st) (pub_qos p).

Lemma is_ok_publish_dyn st r p : size_hyps (Publish p) r ->
  is_ok (validate_publish_packet_outbound_internal (Some st) r p) = publish_dyn st r p.
Proof.
  intros H. unfold validate_publish_packet_outbound_internal, publish_dyn. rewrite check_size_char by exact H.
  rewrite <- !andb_assoc. f_equal. unfold pid_dyn, qos_dyn.
  destruct ((pub_pid p =? 0) && negb (pub_qos p =? 0)); cbn [negb andb]; [reflexivity|].
  destruct (pub_retain p), (st_retain_available st); cbn [negb andb orb]; try reflexivity;
  (destruct (st_maximum_qos st =? 0); [apply is_ok_if_tt' || (destruct (pub_qos p =? 0); reflexivity)|];
   destruct (st_maximum_qos st =? 1); [destruct (pub_qos p =? 2); reflexivity | reflexivity]).
Qed.

Definition ack_dyn (st : settings) (p : packet) (a : ack) : bool :=
  check_size_spec st p no_resolution && negb (ack_pid a =? 0).
Lemma is_ok_ack_dyn st p a : size_hyps p no_resolution ->
  is_ok (validate_ack_outbound_internal (Some st) p a) = ack_dyn st p a.
Proof.
  intros H. unfold validate_ack_outbound_internal, ack_dyn. rewrite check_size_char by exact H.
  now rewrite is_ok_if_tt.
Qed.

Definition auth_dyn (st : settings) (a : auth) : bool := check_size_spec st (Auth a) no_resolution.
Lemma is_ok_auth_dyn st a : size_hyps (Auth a) no_resolution ->
  is_ok (validate_auth_packet_outbound_internal (Some st) a) = auth_dyn st a.
Proof.
  intros H. unfold validate_auth_packet_outbound_internal, auth_dyn. rewrite check_size_char by exact H.
  cbn. now rewrite andb_true_r.
Qed.

Definition sei_dyn (co : connect_opts) (d : disconnect) : bool :=
  match d_sei d with
  | Some v => (v =? 0) || negb (match co_sei co with Some c => c | None => 0 end =? 0)
  | None => true
  end.
Definition disconnect_dyn (st : settings) (co : connect_opts) (d : disconnect) : bool :=
  check_size_spec st (Disconnect d) no_resolution && sei_dyn co d.
Lemma is_ok_disconnect_dyn st co d : size_hyps (Disconnect d) no_resolution ->
  is_ok (validate_disconnect_packet_outbound_internal (Some st) co d) = disconnect_dyn st co d.
Proof.
  intros H. unfold validate_disconnect_packet_outbound_internal, disconnect_dyn. rewrite check_size_char by exact H.
  f_equal. rewrite is_ok_if_tt. unfold sei_dyn.
  destruct (d_sei d) as [v|], (co_sei co) as [c|]; cbn.
  - destruct (c =? 0) eqn:E1, (0 <? v) eqn:E2, (v =? 0) eqn:E3; cbn; auto; lia.
  - destruct (0 <? v) eqn:E2, (v =? 0) eqn:E3; cbn; auto; lia.
  - destruct (c =? 0) eqn:E1, (0 <? c) eqn:E2; cbn; auto; lia.
  - reflexivity.
Qed.

(* filters *)
Definition filter_dyn (st : settings) (nl : option bool) (f : bytes) : bool :=
  spec_plain_filter f && no_nul f &&
  (negb (spec_shared_filter f) || (st_shared_subscriptions_available st && negb (no_local_set nl))) &&
  (negb (filter_has_wildcard f) || st_wildcard_subscriptions_available st).

Lemma is_ok_subscriptions st l :
  is_ok (validate_subscriptions (Some st) l) = forallb (fun x => filter_dyn st (Some (sub_no_local x)) (sub_filter x)) l.
Proof.
  induction l as [|x l IH]; [reflexivity|]. cbn [validate_subscriptions forallb filter_caps].
  rewrite filter_verdict. cbn [obind]. rewrite is_ok_if, negb_involutive, IH. reflexivity.
Qed.

Lemma is_ok_unsub_filters st l :
  is_ok (validate_unsubscribe_filters (Some st) l) = forallb (filter_dyn st None) l.
Proof.
  induction l as [|x l IH]; [reflexivity|]. cbn [validate_unsubscribe_filters forallb filter_caps].
  rewrite filter_verdict. cbn [obind]. rewrite is_ok_if, negb_involutive, IH. reflexivity.
Qed.

Definition subscribe_dyn (st : settings) (s : subscribe) : bool :=
  check_size_spec st (Subscribe s) no_resolution && negb (s_pid s =? 0) &&
  forallb (fun x => filter_dyn st (Some (sub_no_local x)) (sub_filter x)) (s_subs s).
Lemma is_ok_subscribe_dyn st s : size_hyps (Subscribe s) no_resolution ->
  is_ok (validate_subscribe_packet_outbound_internal (Some st) s) = subscribe_dyn st s.
Proof.
  intros H. unfold validate_subscribe_packet_outbound_internal, subscribe_dyn. rewrite check_size_char by exact H.
  rewrite is_ok_if, is_ok_subscriptions. now rewrite andb_assoc.
Qed.

Definition unsubscribe_dyn (st : settings) (u : unsubscribe) : bool :=
  check_size_spec st (Unsubscribe u) no_resolution && negb (u_pid u =? 0) &&
  forallb (filter_dyn st None) (u_filters u).
Lemma is_ok_unsubscribe_dyn st u : size_hyps (Unsubscribe u) no_resolution ->
  is_ok (validate_unsubscribe_packet_outbound_internal (Some st) u) = unsubscribe_dyn st u.
Proof.
  intros H. unfold validate_unsubscribe_packet_outbound_internal, unsubscribe_dyn. rewrite check_size_char by exact H.
  rewrite is_ok_if, is_ok_unsub_filters. now rewrite andb_assoc.
Qed.

Definition dyn_spec (st : settings) (co : connect_opts) (r : resolution) (p : packet) : bool :=
  match p with
  | Auth a => auth_dyn st a
  | Connect _ => true
  | Disconnect d => disconnect_dyn st co d
  | Pingreq => true
  | Puback a | Pubcomp a | Pubrec a | Pubrel a => ack_dyn st p a
  | Publish x => publish_dyn st r x
  | Subscribe s => subscribe_dyn st s
  | Unsubscribe u => unsubscribe_dyn st u
  | Connack _ | Suback _ | Unsuback _ | Pingresp => false
  end.

(* the resolution only matters for PUBLISH *)
Definition res_of (p : packet) (r : resolution) : resolution :=
  match p with Publish _ => r | _ => no_resolution end.

Lemma spec_remaining_res p r : spec_remaining p (res_of p r) = spec_remaining p r.
Proof. destruct p; reflexivity. Qed.

Definition needs_size (p : packet) : bool :=
  match p with Connect _ | Pingreq | Connack _ | Suback _ | Unsuback _ | Pingresp => false | _ => true end.

Theorem is_ok_dynamic st co r p :
  (needs_size p = true -> size_hyps p (res_of p r)) ->
  is_ok (validate_outbound_internal (Some st) co r p) = dyn_spec st co r p.
Proof.
  intros H. destruct p; cbn [validate_outbound_internal dyn_spec needs_size res_of] in *; try reflexivity;
    auto using is_ok_publish_dyn, is_ok_ack_dyn, is_ok_subscribe_dyn, is_ok_unsubscribe_dyn, is_ok_disconnect_dyn, is_ok_auth_dyn.
Qed.

(* ================= soundness ================= *)

(* rules the validation code does not enforce (known findings D8, D17, D4-dynamic) *)
Definition known_holes : list rule :=
  [RSharedFilterMalformed; RWillTopic; RSubscriptionIdNotAvailable].

(* QoS is a three-valued Rust enum *)
Definition qos_repr (p : packet) : Prop :=
  match p with Publish x => pub_qos x <= 2 | _ => True end.

Ltac split_and :=
  repeat match goal with H : (_ && _) = true |- _ => apply andb_true_iff in H as [? ?] end.

Ltac in_cases :=
  repeat match goal with H : In _ (_ ++ _) |- _ => apply in_app_or in H; destruct H as [H|H] end.

Lemma in_req rl R c : In rl (req R c) -> c = false /\ rl = R.
Proof. unfold req. destruct c; cbn; [tauto|]. intros [<-|[]]. auto. Qed.

Lemma check_size_res st p r : check_size_spec st p (res_of p r) = check_size_spec st p r.
Proof. destruct p; reflexivity. Qed.

Lemma size_rules_res st p r : size_rules st p (res_of p r) = size_rules st p r.
Proof. destruct p; reflexivity. Qed.

Lemma pid_rule pid qos : pid_dyn pid qos = true -> (qos =? 0) || negb (pid =? 0) = true.
Proof. unfold pid_dyn. destruct (pid =? 0), (qos =? 0); cbn; auto. Qed.

Lemma qos_rule maxq qos : qos <= 2 -> qos_dyn maxq qos = true -> (qos <=? maxq) = true.
Proof.
  unfold qos_dyn. intros Hq.
  destruct (maxq =? 0) eqn:E0; [intros; lia|].
  destruct (maxq =? 1) eqn:E1; [destruct (qos =? 2) eqn:E2; cbn; intros; try discriminate; lia|].
  intros _. lia.
Qed.

Lemma filter_dyn_rules st x :
  filter_dyn st (Some (sub_no_local x)) (sub_filter x) = true ->
  forall rl, In rl (subscription_rules st x) -> In rl known_holes.
Proof.
  unfold filter_dyn, subscription_rules, no_local_set. intros H rl Hin. split_and. in_cases;
    apply in_req in Hin as [Hc ->]; try (cbn; tauto); exfalso; try congruence.
  - destruct (spec_shared_filter (sub_filter x)), (st_shared_subscriptions_available st); cbn in *; congruence.
  - destruct (spec_shared_filter (sub_filter x)), (st_shared_subscriptions_available st), (sub_no_local x); cbn in *; congruence.
Qed.

Lemma filter_dyn_unsub_rules st f :
  filter_dyn st None f = true -> forall rl, In rl (unsubscribe_filter_rules f) -> In rl known_holes.
Proof.
  unfold filter_dyn, unsubscribe_filter_rules. intros H rl Hin. split_and. in_cases;
    apply in_req in Hin as [Hc ->]; try (cbn; tauto); exfalso; congruence.
Qed.

Lemma flat_map_holes {A} (f : A -> list rule) (P : A -> bool) l :
  (forall x, P x = true -> forall rl, In rl (f x) -> In rl known_holes) ->
  forallb P l = true -> forall rl, In rl (flat_map f l) -> In rl known_holes.
Proof.
  intros Hf Hall rl Hin. apply in_flat_map in Hin as (x & Hx & Hin).
  rewrite forallb_forall in Hall. eapply Hf; eauto.
Qed.

Lemma ups_in o rl : ups_ok o = true -> In rl (ups_rules o) -> False.
Proof. intros H Hin. apply ups_rules_ok in H. rewrite H in Hin. exact Hin. Qed.

Ltac ups_done := match goal with
  | H : In _ (ups_rules ?o) |- _ => exfalso; exact (ups_in o _ ltac:(assumption) H)
  | H : In _ [] |- _ => destruct H end.

Ltac size_tac := intros _; split; [reflexivity | split; [now rewrite spec_remaining_res | exact I]].

Ltac finish :=
  match goal with Hin : In _ (req _ _) |- _ =>
    let Hc := fresh "Hc" in
    apply in_req in Hin as [Hc ->]; try (cbn; tauto); exfalso; try congruence;
    repeat match goal with H : ?c = true |- _ => rewrite H in Hc end; cbn in Hc; try discriminate; try congruence
  end.

Ltac ack_case Hs Hd :=
  unfold ack_static in Hs; split_and;
  rewrite is_ok_dynamic in Hd by size_tac;
  cbn [bind_pid dyn_spec violations res_of] in *;
  unfold ack_dyn, ack_rules, size_rules, check_size_spec in *; split_and;
  in_cases; try ups_done; finish.

Lemma violations_res st co r p id :
  violations st co r (bind_pid p id) = violations st co (res_of (bind_pid p id) r) (bind_pid p id).
Proof. destruct p; cbn [bind_pid violations res_of]; try reflexivity. destruct (pub_qos p =? 0); reflexivity. Qed.

(* the statement of soundness for one packet, after the two validations were characterised *)
Definition sound_for (st : settings) (co : connect_opts) (r : resolution) (p : packet) (id : N) : Prop :=
  qos_repr p -> spec_remaining (bind_pid p id) r < 4294967296 ->
  static_spec p = true ->
  is_ok (validate_outbound_internal (Some st) co r (bind_pid p id)) = true ->
  forall rl, In rl (violations st co (res_of (bind_pid p id) r) (bind_pid p id)) -> In rl known_holes.

Lemma sound_connect st co r c id : sound_for st co r (Connect c) id.
Proof.
  intros Hq Hsm Hs Hd rl Hin. cbn [static_spec] in Hs.
  cbn [bind_pid violations] in *. clear Hd. unfold connect_static, connect_rules, auth_data_ok, nz_ok in *. split_and.
  destruct (con_will c) as [w|]; [unfold will_static in *; split_and|];
  in_cases; try ups_done;
  apply in_req in Hin as [Hc ->]; try (cbn; tauto); exfalso;
  repeat match goal with H : ?c = true |- _ => rewrite H in Hc end; cbn in Hc; try discriminate; congruence.
Qed.

Lemma publish_sound_core st co r q :
  pub_qos q <= 2 -> spec_remaining (Publish q) r < 4294967296 ->
  negb (pub_dup q) = true -> spec_topic (pub_topic q) = true -> no_nul (pub_topic q) = true ->
  alias_nz (pub_alias q) = true -> is_none (pub_subids q) = true -> otopic_ok (pub_response_topic q) = true ->
  ups_ok (pub_up q) = true -> ostr_ok (pub_correlation q) = true -> ostr_ok (pub_content_type q) = true ->
  onul_ok (pub_content_type q) = true ->
  is_ok (validate_outbound_internal (Some st) co r (Publish q)) = true ->
  violations st co r (Publish q) = [].
Proof.
  intros Hq Hsm Hdup Ht Hn Ha Hsi Hrt Hup Hco Hct Hcn Hd.
  assert (Hsub : pub_subids q = None) by (destruct (pub_subids q); [discriminate|reflexivity]).
  rewrite (is_ok_dynamic st co r (Publish q)) in Hd.
  2:{ intros _. split; [|split]; [cbn; now rewrite Hsub | exact Hsm | exact I]. }
  cbn [dyn_spec] in Hd. unfold publish_dyn, check_size_spec in Hd.
  unfold otopic_ok, alias_nz in *. split_and.
  match goal with H : pid_dyn _ _ = true |- _ => apply pid_rule in H; rename H into Hpid end.
  match goal with H : qos_dyn _ _ = true |- _ => apply (qos_rule _ _ Hq) in H; rename H into Hqos end.
  apply ups_rules_ok in Hup.
  cbn [violations]. unfold publish_rules, size_rules.
  rewrite Ht, Hn, Ha, Hdup, Hsub, Hco, Hct, Hcn, Hup, Hpid, Hqos.
  repeat match goal with H : ?c = true |- _ => rewrite H; clear H end.
  reflexivity.
Qed.

Lemma sound_publish st co r p id : sound_for st co r (Publish p) id.
Proof.
  intros Hq Hsm Hs Hd rl Hin. cbn [static_spec] in Hs. cbn [qos_repr] in Hq.
  unfold publish_static in Hs. split_and.
  revert Hsm Hd rl Hin. cbn [bind_pid].
  destruct (pub_qos p =? 0); cbn [res_of]; intros Hsm Hd rl Hin;
    (erewrite publish_sound_core in Hin; [destruct Hin | ..]; assumption).
Qed.

Lemma sound_puback st co r a id : sound_for st co r (Puback a) id.
Proof. intros Hq Hsm Hs Hd rl Hin. cbn [static_spec] in Hs. ack_case Hs Hd. Qed.
Lemma sound_pubrec st co r a id : sound_for st co r (Pubrec a) id.
Proof. intros Hq Hsm Hs Hd rl Hin. cbn [static_spec] in Hs. ack_case Hs Hd. Qed.
Lemma sound_pubrel st co r a id : sound_for st co r (Pubrel a) id.
Proof. intros Hq Hsm Hs Hd rl Hin. cbn [static_spec] in Hs. ack_case Hs Hd. Qed.
Lemma sound_pubcomp st co r a id : sound_for st co r (Pubcomp a) id.
Proof. intros Hq Hsm Hs Hd rl Hin. cbn [static_spec] in Hs. ack_case Hs Hd. Qed.

Lemma sound_subscribe st co r p id : sound_for st co r (Subscribe p) id.
Proof.
  intros Hq Hsm Hs Hd rl Hin. cbn [static_spec] in Hs.
  unfold subscribe_static in Hs. split_and.
  rewrite is_ok_dynamic in Hd.
  2:{ intros _. split; [reflexivity|split; [now rewrite spec_remaining_res|]].
      cbn. unfold subid_static in *. destruct (s_subid p); [split_and; lia|exact I]. }
  cbn [bind_pid dyn_spec violations res_of] in *.
  unfold subscribe_dyn, subscribe_rules, size_rules, check_size_spec, subid_static in *.
  cbn [s_pid s_subs s_subid s_up] in *. split_and. in_cases; try ups_done.
  2:{ eapply flat_map_holes; [|eassumption|eassumption]. intros x Hx. now apply filter_dyn_rules. }
  all: finish.
Qed.

Lemma sound_unsubscribe st co r p id : sound_for st co r (Unsubscribe p) id.
Proof.
  intros Hq Hsm Hs Hd rl Hin. cbn [static_spec] in Hs.
  unfold unsubscribe_static in Hs. split_and.
  rewrite is_ok_dynamic in Hd by size_tac.
  cbn [bind_pid dyn_spec violations res_of] in *.
  unfold unsubscribe_dyn, unsubscribe_rules, size_rules, check_size_spec in *.
  cbn [u_pid u_filters u_up] in *. split_and. in_cases; try ups_done.
  2:{ eapply flat_map_holes; [|eassumption|eassumption]. intros x Hx. now apply (filter_dyn_unsub_rules st). }
  all: finish.
Qed.

Lemma sound_disconnect st co r p id : sound_for st co r (Disconnect p) id.
Proof.
  intros Hq Hsm Hs Hd rl Hin. cbn [static_spec] in Hs.
  unfold disconnect_static in Hs. split_and.
  rewrite is_ok_dynamic in Hd by size_tac.
  cbn [bind_pid dyn_spec violations res_of] in *.
  unfold disconnect_dyn, disconnect_rules, size_rules, check_size_spec, sei_dyn in *. split_and.
  in_cases; try ups_done; finish.
Qed.

Lemma sound_auth st co r p id : sound_for st co r (Auth p) id.
Proof.
  intros Hq Hsm Hs Hd rl Hin. cbn [static_spec] in Hs.
  unfold auth_static in Hs. split_and.
  rewrite is_ok_dynamic in Hd by size_tac.
  cbn [bind_pid dyn_spec violations res_of] in *.
  unfold auth_dyn, auth_rules, size_rules, check_size_spec, is_none in *. split_and.
  in_cases; try ups_done; finish.
  destruct (au_method p); discriminate.
Qed.

Theorem sound_rules : forall st co r p id,
  qos_repr p -> spec_remaining (bind_pid p id) r < 4294967296 ->
  validate_outbound p = Ok tt ->
  validate_outbound_internal (Some st) co r (bind_pid p id) = Ok tt ->
  forall rl, In rl (violations st co r (bind_pid p id)) -> In rl known_holes.
Proof.
  intros st co r p id Hq Hsm Hs Hd rl Hin.
  apply is_ok_tt in Hs, Hd. rewrite is_ok_static in Hs. rewrite violations_res in Hin.
  revert Hq Hsm Hs Hd rl Hin. change (sound_for st co r p id).
  destruct p; try (intros _ _ Hs; cbn [static_spec] in Hs; discriminate Hs).
  - apply sound_connect.
  - apply sound_publish.
  - apply sound_puback.
  - apply sound_pubrec.
  - apply sound_pubrel.
  - apply sound_pubcomp.
  - apply sound_subscribe.
  - apply sound_unsubscribe.
  - (* PINGREQ *) intros _ _ _ _ rl [].
  - apply sound_disconnect.
  - apply sound_auth.
Qed.

Theorem sound_conforms : forall st co r p id,
  qos_repr p -> spec_remaining (bind_pid p id) r < 4294967296 ->
  existsb (fun rl => existsb (rule_eqb rl) known_holes) (violations st co r (bind_pid p id)) = false ->
  validate_outbound p = Ok tt ->
  validate_outbound_internal (Some st) co r (bind_pid p id) = Ok tt ->
  conforms st co r (bind_pid p id) = true.
Proof.
  intros st co r p id Hq Hsm Hk Hs Hd. unfold conforms.
  pose proof (sound_rules st co r p id Hq Hsm Hs Hd) as H.
  destruct (violations st co r (bind_pid p id)) as [|rl l]; [reflexivity|]. exfalso.
  specialize (H rl (or_introl eq_refl)). cbn [existsb] in Hk. apply orb_false_iff in Hk as [Hk _].
  cbn in H. destruct H as [<-|[<-|[<-|[]]]]; cbn in Hk; discriminate.
Qed.

(* ================= completeness ================= *)

(* the packet id of a submitted packet is unset (the field is pub(crate)) *)
Definition submitted (p : packet) : Prop :=
  match p with
  | Publish x => pub_pid x = 0
  | Subscribe s => s_pid s = 0
  | Unsubscribe u => u_pid u = 0
  | _ => True
  end.

(* known over-strict behaviour: an UNSUBSCRIBE filter with a wildcard / of shared form is rejected when
   the server announced that it does not support wildcard / shared SUBSCRIPTIONS *)
Definition unsub_overstrict (st : settings) (p : packet) : bool :=
  match p with
  | Unsubscribe u =>
      existsb (fun f => (filter_has_wildcard f && negb (st_wildcard_subscriptions_available st)) ||
                        (spec_shared_filter f && negb (st_shared_subscriptions_available st))) (u_filters u)
  | _ => false
  end.

Lemma req_nil_inv R c : req R c = [] -> c = true.
Proof. destruct c; [reflexivity|discriminate]. Qed.

Ltac nil_facts :=
  repeat match goal with
  | H : _ ++ _ = [] |- _ => apply app_eq_nil in H as [? ?]
  | H : req _ _ = [] |- _ => apply req_nil_inv in H
  | H : ups_rules _ = [] |- _ => apply ups_rules_ok in H
  end.

Lemma flat_map_nil {A} (f : A -> list rule) l : flat_map f l = [] -> forall x, In x l -> f x = [].
Proof.
  induction l as [|a l IH]; cbn; [tauto|]. intros H x [<-|Hx]; apply app_eq_nil in H as [H1 H2]; auto.
Qed.

Lemma existsb_false {A} (f : A -> bool) l : existsb f l = false -> forall x, In x l -> f x = false.
Proof.
  induction l as [|a l IH]; cbn; [tauto|]. intros H x [<-|Hx]; apply orb_false_iff in H as [H1 H2]; auto.
Qed.

Lemma qos_rule_inv maxq qos : (qos <=? maxq) = true -> qos_dyn maxq qos = true.
Proof.
  unfold qos_dyn. intros H. destruct (maxq =? 0) eqn:E0; [lia|].
  destruct (maxq =? 1) eqn:E1; [|reflexivity]. destruct (qos =? 2) eqn:E2; cbn; [lia|reflexivity].
Qed.

Ltac conj_goal := repeat match goal with |- (_ && _) = true => apply andb_true_iff; split end.

Ltac ack_complete Hv :=
  cbn [violations res_of] in Hv; unfold ack_rules, size_rules in Hv; nil_facts;
  rewrite is_ok_dynamic;
  [ cbn [static_spec dyn_spec bind_pid]; split; [unfold ack_static | unfold ack_dyn, check_size_spec]; conj_goal; assumption
  | cbn [bind_pid]; intros _; split; [reflexivity|split; [cbn [res_of bind_pid]; unfold VLI_MAX in *; lia|exact I]] ].

Theorem complete_rules : forall st co r p id,
  submitted p -> unsub_overstrict st p = false ->
  violations st co r (bind_pid p id) = [] ->
  validate_outbound p = Ok tt /\ validate_outbound_internal (Some st) co r (bind_pid p id) = Ok tt.
Proof.
  intros st co r p id Hsub Hov Hv.
  assert (Hv' : violations st co (res_of (bind_pid p id) r) (bind_pid p id) = []).
  { rewrite <- Hv. destruct p; cbn [bind_pid violations res_of]; try reflexivity. destruct (pub_qos p =? 0); reflexivity. }
  clear Hv. rename Hv' into Hv.
  rewrite !is_ok_tt, is_ok_static.
  destruct p; cbn [bind_pid violations] in Hv; try discriminate Hv.
  - (* CONNECT *)
    split; [|reflexivity]. cbn [static_spec]. unfold connect_rules, connect_static, auth_data_ok, nz_ok in *.
    destruct (con_will p) as [w|]; nil_facts; split_and; [unfold will_static|]; conj_goal; try assumption; try reflexivity.
    now apply spec_topic_str_ok.
  - (* PUBLISH *)
    assert (Hf : publish_rules st r (if pub_qos p =? 0 then p else
                   {| pub_pid := id; pub_topic := pub_topic p; pub_qos := pub_qos p; pub_dup := pub_dup p;
                      pub_retain := pub_retain p; pub_payload := pub_payload p; pub_pfi := pub_pfi p;
                      pub_mei := pub_mei p; pub_alias := pub_alias p; pub_response_topic := pub_response_topic p;
                      pub_correlation := pub_correlation p; pub_subids := pub_subids p;
                      pub_content_type := pub_content_type p; pub_up := pub_up p |}) = [] /\
                 size_rules st (bind_pid (Publish p) id) r = []).
    { cbn [bind_pid]. destruct (pub_qos p =? 0); cbn [violations res_of] in Hv; apply app_eq_nil in Hv; exact Hv. }
    clear Hv. destruct Hf as [Hr Hz]. cbn [submitted] in Hsub.
    assert (Hsubids : pub_subids p = None).
    { unfold publish_rules in Hr. destruct (pub_qos p =? 0); cbn [pub_subids] in Hr; nil_facts; destruct (pub_subids p); try discriminate; reflexivity. }
    unfold size_rules in Hz. nil_facts.
    rewrite is_ok_dynamic.
    2:{ intros _. split; [|split].
        - cbn. destruct (pub_qos p =? 0); cbn; now rewrite Hsubids.
        - rewrite spec_remaining_res. unfold VLI_MAX in *. lia.
        - cbn. destruct (pub_qos p =? 0); exact I. }
    cbn [bind_pid] in *. unfold publish_rules in Hr.
    destruct (pub_qos p =? 0) eqn:Eq; cbn [static_spec dyn_spec] in *;
    cbn [pub_pid pub_topic pub_qos pub_dup pub_retain pub_payload pub_pfi pub_mei pub_alias pub_response_topic
         pub_correlation pub_subids pub_content_type pub_up] in *; nil_facts;
    (split; [unfold publish_static, alias_nz, is_none, otopic_ok | unfold publish_dyn, check_size_spec, pid_dyn]);
    cbn [pub_pid pub_topic pub_qos pub_dup pub_retain pub_payload pub_pfi pub_mei pub_alias pub_response_topic
         pub_correlation pub_subids pub_content_type pub_up];
    conj_goal; try assumption; try (now apply qos_rule_inv); try (rewrite Hsub; reflexivity).
    + rewrite Eq. cbn. now rewrite andb_false_r.
    + match goal with H : (_ || negb (id =? 0)) = true |- _ => rewrite Eq in H; cbn in H; rewrite negb_true_iff in H; rewrite H end.
      reflexivity.
  - (* PUBACK *) ack_complete Hv.
  - (* PUBREC *) ack_complete Hv.
  - (* PUBREL *) ack_complete Hv.
  - (* PUBCOMP *) ack_complete Hv.
  - (* SUBSCRIBE *)
    cbn [violations res_of] in Hv. unfold subscribe_rules, size_rules in Hv. cbn [s_pid s_subs s_subid s_up] in Hv. nil_facts.
    cbn [submitted] in Hsub.
    rewrite is_ok_dynamic.
    2:{ intros _. split; [reflexivity|split; [cbn [res_of bind_pid]; unfold VLI_MAX in *; lia|]].
        cbn. destruct (s_subid p); [split_and; lia|exact I]. }
    cbn [static_spec dyn_spec bind_pid]. split; [unfold subscribe_static, subid_static | unfold subscribe_dyn, check_size_spec; cbn [s_pid s_subs]];
    conj_goal; try assumption; try (rewrite Hsub; reflexivity).
    apply forallb_forall. intros x Hx.
    match goal with H : flat_map _ _ = [] |- _ => pose proof (flat_map_nil _ _ H x Hx) as Hx' end.
    unfold subscription_rules in Hx'. nil_facts. unfold filter_dyn, no_local_set. conj_goal; try assumption.
    destruct (spec_shared_filter (sub_filter x)), (st_shared_subscriptions_available st), (sub_no_local x); cbn in *; congruence.
  - (* UNSUBSCRIBE *)
    cbn [violations res_of] in Hv. unfold unsubscribe_rules, size_rules in Hv. cbn [u_pid u_filters u_up] in Hv. nil_facts.
    cbn [submitted] in Hsub. cbn [unsub_overstrict] in Hov.
    rewrite is_ok_dynamic.
    2:{ intros _. split; [reflexivity|split; [cbn [res_of bind_pid]; unfold VLI_MAX in *; lia|exact I]]. }
    cbn [static_spec dyn_spec bind_pid]. split; [unfold unsubscribe_static | unfold unsubscribe_dyn, check_size_spec; cbn [u_pid u_filters]];
    conj_goal; try assumption; try (rewrite Hsub; reflexivity).
    apply forallb_forall. intros x Hx.
    match goal with H : flat_map _ _ = [] |- _ => pose proof (flat_map_nil _ _ H x Hx) as Hx' end.
    unfold unsubscribe_filter_rules in Hx'. nil_facts.
    pose proof (existsb_false _ _ Hov x Hx) as Ho. cbn beta in Ho.
    unfold filter_dyn, no_local_set. conj_goal; try assumption;
    destruct (spec_shared_filter x), (st_shared_subscriptions_available st), (filter_has_wildcard x), (st_wildcard_subscriptions_available st);
      cbn in *; congruence.
  - (* PINGREQ *) split; reflexivity.
  - (* DISCONNECT *)
    cbn [violations res_of] in Hv. unfold disconnect_rules, size_rules in Hv. nil_facts. split_and.
    rewrite is_ok_dynamic.
    2:{ intros _. split; [reflexivity|split; [cbn [res_of bind_pid]; unfold VLI_MAX in *; lia|exact I]]. }
    cbn [static_spec dyn_spec bind_pid]. split; [unfold disconnect_static | unfold disconnect_dyn, check_size_spec, sei_dyn];
    conj_goal; assumption.
  - (* AUTH *)
    cbn [violations res_of] in Hv. unfold auth_rules, size_rules in Hv. nil_facts. split_and.
    rewrite is_ok_dynamic.
    2:{ intros _. split; [reflexivity|split; [cbn [res_of bind_pid]; unfold VLI_MAX in *; lia|exact I]]. }
    cbn [static_spec dyn_spec bind_pid]. split; [unfold auth_static, is_none | unfold auth_dyn, check_size_spec];
    conj_goal; try assumption. destruct (au_method p); [reflexivity|discriminate].
Qed.
