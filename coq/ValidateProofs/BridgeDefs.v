(* C02 / C16 bridge, vocabulary: from "the validators accepted the packet" (Validate/Rules.v) to "the packet is valid
   for the wire specification" (Codec/ValidC2S.valid, the premise of every per-packet theorem of C02).

   The two sides speak about different things.  [ValidC2S.valid] is about the byte-level packet records of
   Codec/Packets.v, where every field is an unbounded N / an arbitrary byte list; the validators of gneiss-mqtt work
   on Rust values: a `String` IS well-formed UTF-8, a `QualityOfService` IS 0, 1 or 2, a `u32` IS below 2^32.  What
   the type system guarantees is collected in [typed] (a predicate about representability, not a check anybody
   performs); everything else must come from a check of the library:

   - [validate_outbound (erase p) = Ok tt]: the submission-time check `validate_packet_outbound` the clients run on
     the packet the application supplied ([erase] = the packet id and the duplicate flag, which the engine sets
     later, put back to 0 / false);
   - [validate_outbound_internal (Some st) co r p = Ok tt]: the send-time check the engine runs when it seats the
     packet, with the negotiated settings and the outbound alias resolution;
   - engine facts [engine_ok]: the packet id was allocated by the engine (at most 65535), the duplicate flag is
     only set on QoS >= 1 publishes;
   - resolver facts [res_valid]: an alias is 1..65535 and the topic is only dropped together with an alias;
   - [small]: the packet is shorter than 4 GiB (the u32 length arithmetic of the library wraps beyond). *)
From Coq Require Import Btauto.
From GM Require Import Base.Prelude Base.Outcome Codec.Packets Codec.Prim Codec.Settings Codec.SpecDecodeC2S Codec.ValidC2S.
From GM Require Import Validate.Topic Validate.Rules Validate.Spec ValidateProofs.TopicP ValidateProofs.SizeP ValidateProofs.RulesP.
Open Scope N_scope.

(* ---- the packet the application supplied: packet id and duplicate flag erased ---- *)
Definition erase (p : packet) : packet :=
  match p with
  | Publish pb =>
      Publish {| pub_pid := 0; pub_topic := pub_topic pb; pub_qos := pub_qos pb; pub_dup := false;
                 pub_retain := pub_retain pb; pub_payload := pub_payload pb; pub_pfi := pub_pfi pb; pub_mei := pub_mei pb;
                 pub_alias := pub_alias pb; pub_response_topic := pub_response_topic pb; pub_correlation := pub_correlation pb;
                 pub_subids := pub_subids pb; pub_content_type := pub_content_type pb; pub_up := pub_up pb |}
  | Subscribe x => Subscribe {| s_pid := 0; s_subs := s_subs x; s_subid := s_subid x; s_up := s_up x |}
  | Unsubscribe x => Unsubscribe {| u_pid := 0; u_filters := u_filters x; u_up := u_up x |}
  | _ => p
  end.

Lemma erase_idem p : erase (erase p) = erase p.
Proof. destruct p; reflexivity. Qed.

(* ---- what the Rust types guarantee ---- *)
Definition outf8 (o : option bytes) : bool := match o with Some s => utf8_ok s | None => true end.
Definition ups_utf8 (o : option (list user_property)) : bool :=
  match o with Some l => forallb (fun p => utf8_ok (up_name p) && utf8_ok (up_value p)) l | None => true end.

(* PublishPacket: topic / response_topic / content_type : String, qos : QualityOfService, payload_format :
   PayloadFormatIndicator, message_expiry_interval_seconds : u32 *)
Definition typed_publish (p : publish) : bool :=
  (pub_qos p <=? 2) && utf8_ok (pub_topic p) && opt_ok (fun x => x <=? 1) (pub_pfi p) && opt_ok (fun x => x <=? U32_MAX) (pub_mei p)
  && outf8 (pub_response_topic p) && outf8 (pub_content_type p) && ups_utf8 (pub_up p).
(* Subscription: topic_filter : String, qos : QualityOfService, retain_handling_type : RetainHandlingType *)
Definition typed_subscription (x : subscription) : bool :=
  utf8_ok (sub_filter x) && (sub_qos x <=? 2) && (sub_rh x <=? 2).
Definition typed_subscribe (s : subscribe) : bool := forallb typed_subscription (s_subs s) && ups_utf8 (s_up s).
Definition typed_unsubscribe (u : unsubscribe) : bool := forallb utf8_ok (u_filters u) && ups_utf8 (u_up u).
(* DisconnectPacket: reason_code : DisconnectReasonCode (the enum has exactly the values of Table 3-13),
   session_expiry_interval_seconds : u32, reason_string / server_reference : String *)
Definition typed_disconnect (d : disconnect) : bool :=
  SpecDecodeC2S.mem (d_rc d) rc_disconnect && opt_ok (fun x => x <=? U32_MAX) (d_sei d)
  && outf8 (d_reason d) && outf8 (d_server_ref d) && ups_utf8 (d_up d).

Definition typed (p : packet) : bool :=
  match p with
  | Publish x => typed_publish x
  | Subscribe s => typed_subscribe s
  | Unsubscribe u => typed_unsubscribe u
  | Disconnect d => typed_disconnect d
  | _ => true
  end.

Lemma typed_erase p : typed (erase p) = typed p.
Proof. destruct p; reflexivity. Qed.

(* the four kinds of packets an application submits *)
Definition user_kind (p : packet) : bool :=
  match p with Publish _ | Subscribe _ | Unsubscribe _ | Disconnect _ => true | _ => false end.

(* ---- what the engine guarantees about the fields it sets ---- *)
Definition engine_ok (p : packet) : bool :=
  match p with
  | Publish x => (pub_pid x <=? U16_MAX) && implb (pub_qos x =? 0) (negb (pub_dup x))
  | Subscribe s => s_pid s <=? U16_MAX
  | Unsubscribe u => u_pid u <=? U16_MAX
  | _ => true
  end.

(* ---- what an outbound alias resolver guarantees (AliasProofs/OutboundP.v, EngineProofs/AliasRun*.v) ---- *)
Definition res_valid (r : resolution) : bool :=
  opt_ok (fun a => (1 <=? a) && (a <=? U16_MAX)) (r_alias r) && implb (r_skip_topic r) (is_some (r_alias r)).

(* ---- shorter than 4 GiB ---- *)
Definition small (p : packet) (r : resolution) : Prop := spec_remaining p r < 4294967296.

(* ================= string fields ================= *)
Lemma no_nul_same s : Spec.no_nul s = SpecDecodeC2S.no_nul s.
Proof.
  unfold Spec.no_nul, has_byte, SpecDecodeC2S.no_nul. induction s as [|b s IH]; [reflexivity|].
  cbn [existsb forallb]. rewrite <- IH. destruct (b =? 0), (existsb (fun b0 => b0 =? 0) s); reflexivity.
Qed.

Lemma str_valid_intro s : Spec.str_ok s = true -> Spec.no_nul s = true -> utf8_ok s = true -> str_valid s = true.
Proof.
  intros H1 H2 H3. unfold str_valid, SpecDecodeC2S.str_ok, U16_MAX. rewrite <- no_nul_same, H2, H3.
  unfold Spec.str_ok in H1. rewrite H1. reflexivity.
Qed.

Lemma ostr_valid_intro o : ostr_ok o = true -> onul_ok o = true -> outf8 o = true -> opt_ok str_valid o = true.
Proof. destruct o as [s|]; [|reflexivity]. apply str_valid_intro. Qed.

Lemma obin_valid_intro o : ostr_ok o = true -> opt_ok bin_valid o = true.
Proof. destruct o as [s|]; [|reflexivity]. exact (fun H => H). Qed.

Lemma ups_valid_intro o : ups_ok o = true -> ups_utf8 o = true -> ups_valid o = true.
Proof.
  destruct o as [l|]; [|reflexivity]. cbn [ups_ok ups_utf8 ups_valid opt_ok]. induction l as [|p l IH]; [reflexivity|].
  cbn [forallb]. intros H1 H2.
  repeat match goal with H : (_ && _) = true |- _ => apply andb_true_iff in H as [? ?] end.
  apply andb_true_iff. split; [|apply IH; [repeat (apply andb_true_iff; split)|]; assumption].
  unfold up_valid. apply andb_true_iff. split; apply str_valid_intro; assumption.
Qed.

(* a topic / topic filter the validators accepted is a valid, non-empty string *)
Lemma spec_topic_valid t : spec_topic t = true -> Spec.no_nul t = true -> utf8_ok t = true ->
  str_valid t = true /\ (len t =? 0) = false.
Proof.
  intros H1 H2 H3. split; [apply str_valid_intro; [apply spec_topic_str_ok|..]; assumption|].
  unfold spec_topic, length_ok in H1. repeat (apply andb_true_iff in H1 as [H1 ?]). lia.
Qed.

Lemma plain_filter_valid f : spec_plain_filter f = true -> Spec.no_nul f = true -> utf8_ok f = true -> filter_valid f = true.
Proof.
  intros H1 H2 H3. unfold spec_plain_filter, length_ok in H1. repeat (apply andb_true_iff in H1 as [H1 ?]).
  unfold filter_valid. apply andb_true_iff. split.
  - apply str_valid_intro; [unfold Spec.str_ok; lia|assumption..].
  - apply negb_true_iff. lia.
Qed.

(* ================= sizes: the layouts of ValidC2S.v are the sizes of Validate/Spec.v ================= *)
Lemma vbisz_len n : vbisz n = vbi_len n.
Proof. reflexivity. Qed.
Lemma dsz_prop o : dsz o = ostr_prop o.
Proof. destruct o; cbn; unfold str_size; lia. Qed.
Lemma upsz_size l : upsz l = ups_size l.
Proof. induction l as [|p l IH]; [reflexivity|]. cbn [upsz ups_size]. rewrite IH. unfold str_size. lia. Qed.
Lemma oupsz_size o : oupsz o = oups_size o.
Proof. destruct o; [apply upsz_size|reflexivity]. Qed.
Lemma fsz_prop {A} n (o : option A) : fsz (1 + n) o = ofix_prop n o.
Proof. destruct o; reflexivity. Qed.
Lemma strsz_filters l : strsz l = fold_right (fun f acc => str_size f + acc) 0 l.
Proof. induction l as [|f l IH]; [reflexivity|]. cbn [strsz fold_right]. rewrite IH. unfold str_size. lia. Qed.
Lemma strsz_subs l : strsz (map sub_filter l) + len l = fold_right (fun x acc => str_size (sub_filter x) + 1 + acc) 0 l.
Proof.
  induction l as [|x l IH]; [reflexivity|]. cbn [map strsz fold_right]. rewrite <- IH, len_cons. unfold str_size. lia.
Qed.

Lemma check_size_remaining st p r : check_size_spec st p r = true -> spec_remaining p r <= VLI_MAX.
Proof. unfold check_size_spec. intros H. apply andb_true_iff in H as [H _]. lia. Qed.

(* the two validators as booleans (RulesP.is_ok_static / is_ok_dynamic) *)
Lemma static_of p : validate_outbound p = Ok tt -> static_spec p = true.
Proof. intros H. rewrite <- is_ok_static. apply is_ok_tt. exact H. Qed.

Lemma dynamic_of st co r p :
  validate_outbound_internal (Some st) co r p = Ok tt -> (needs_size p = true -> size_hyps p (res_of p r)) ->
  dyn_spec st co r p = true.
Proof. intros H Hs. rewrite <- (is_ok_dynamic st co r p Hs). apply is_ok_tt. exact H. Qed.
