(* C02 / C16 bridge: the hypotheses of BridgePackets.bridge_user are satisfiable (non-vacuity) and each of them is
   necessary: for every hypothesis there is a packet that satisfies all the others and is NOT valid for the wire
   specification.  In particular the send-time validator alone (the only check the engine performs when it seats a
   packet) does not make a packet well-formed: it relies on the clients having run the submission-time validator. *)
From GM Require Import Base.Prelude Base.Outcome Codec.Packets Codec.Prim Codec.Settings Codec.SpecDecodeC2S Codec.ValidC2S.
From GM Require Import Validate.Topic Validate.Rules Validate.Spec ValidateProofs.SizeP ValidateProofs.RulesP
  ValidateProofs.BridgeDefs ValidateProofs.BridgePackets.
Open Scope N_scope.

(* the settings of a server that allows everything, a CONNECT without session expiry *)
Definition bw_st : settings :=
  {| st_maximum_qos := 2; st_session_expiry_interval := 0; st_receive_maximum_from_server := 65535;
     st_maximum_packet_size_to_server := 268435455; st_topic_alias_maximum_to_server := 10; st_server_keep_alive := 60;
     st_retain_available := true; st_wildcard_subscriptions_available := true;
     st_subscription_identifiers_available := true; st_shared_subscriptions_available := true;
     st_rejoined_session := false; st_client_id := [99] |}.
Definition bw_co : connect_opts :=
  {| co_keep_alive := Some 60; co_rejoin := 0; co_client_id := Some [99]; co_username := None; co_password := None;
     co_sei := None; co_rri := None; co_rpi := None; co_receive_max := None; co_tam := None; co_max_packet := None;
     co_will_delay := None; co_will := None; co_up := None |}.

Definition bw_pub (pid : N) (topic : bytes) (qos : N) (dup : bool) : publish :=
  {| pub_pid := pid; pub_topic := topic; pub_qos := qos; pub_dup := dup; pub_retain := false; pub_payload := Some [1; 2; 3];
     pub_pfi := Some 1; pub_mei := Some 30; pub_alias := None; pub_response_topic := Some [114]; pub_correlation := Some [0; 255];
     pub_subids := None; pub_content_type := Some [116]; pub_up := Some [{| up_name := [107]; up_value := [118] |}] |}.
Definition bw_sub (pid : N) (subs : list subscription) (subid : option N) : subscribe :=
  {| s_pid := pid; s_subs := subs; s_subid := subid; s_up := None |}.
Definition bw_filter (f : bytes) : subscription := {| sub_filter := f; sub_qos := 1; sub_no_local := false; sub_rap := false; sub_rh := 0 |}.
Definition bw_unsub (pid : N) (fs : list bytes) : unsubscribe := {| u_pid := pid; u_filters := fs; u_up := None |}.
Definition bw_disc (reason : option bytes) : disconnect :=
  {| d_rc := 4; d_sei := None; d_reason := reason; d_up := None; d_server_ref := None |}.

(* all the premises of bridge_user as one boolean, the submission-time check [S] and the send-time check [D] apart *)
Definition bw_S (p : packet) : bool := is_ok (validate_outbound (erase p)).
Definition bw_D (r : resolution) (p : packet) : bool := is_ok (validate_outbound_internal (Some bw_st) bw_co r p).
Definition bw_small (p : packet) (r : resolution) : bool := spec_remaining p r <? 4294967296.
Definition bw_rest (r : resolution) (p : packet) : bool :=
  user_kind p && typed p && bw_small p (res_of p r) && engine_ok p && res_valid r.

Definition bw_alias : resolution := {| r_skip_topic := true; r_alias := Some 3 |}.

(* ---- non-vacuity: packets of all four kinds that satisfy every premise (and hence are valid, both versions) ---- *)
Example bridge_premises_satisfiable :
  forallb (fun x => bw_S (snd x) && bw_D (fst x) (snd x) && bw_rest (fst x) (snd x) && valid V5 (fst x) (snd x))
    [(no_resolution, Publish (bw_pub 0 [116] 0 false)); (bw_alias, Publish (bw_pub 7 [116] 1 true));
     (no_resolution, Subscribe (bw_sub 8 [bw_filter [97; 47; 35]] (Some 5))); (no_resolution, Unsubscribe (bw_unsub 9 [[97; 47; 43]]));
     (no_resolution, Disconnect (bw_disc (Some [98; 121; 101])))] = true.
Proof. vm_compute. reflexivity. Qed.

Example bridge_user_applies : valid V311 no_resolution (Publish (bw_pub 7 [116] 2 true)) = true.
Proof.
  apply (bridge_user V311 bw_st bw_co); vm_compute; reflexivity.
Qed.

(* ---- the submission-time check is necessary: packets the SEND-TIME validator accepts (every other premise holds)
        that are not valid for the wire specification ---- *)
Definition not_wire_valid (x : resolution * packet) : bool :=
  negb (bw_S (snd x)) && bw_D (fst x) (snd x) && bw_rest (fst x) (snd x) && negb (valid V5 (fst x) (snd x)).

Example send_time_check_alone_insufficient :
  forallb not_wire_valid
    [ (* PUBLISH with an empty topic and no alias: the send-time validator never looks at the topic *)
      (no_resolution, Publish (bw_pub 0 [] 0 false));
      (* U+0000 in the topic *)
      (no_resolution, Publish (bw_pub 0 [116; 0] 0 false));
      (* correlation data of 65536 bytes *)
      (no_resolution, Publish {| pub_pid := 0; pub_topic := [116]; pub_qos := 0; pub_dup := false; pub_retain := false; pub_payload := None;
                                 pub_pfi := None; pub_mei := None; pub_alias := None; pub_response_topic := None;
                                 pub_correlation := Some (repeat 1 (N.to_nat 65536)); pub_subids := None; pub_content_type := None; pub_up := None |});
      (* a subscription identifier in a client's PUBLISH *)
      (no_resolution, Publish {| pub_pid := 0; pub_topic := [116]; pub_qos := 0; pub_dup := false; pub_retain := false; pub_payload := None;
                                 pub_pfi := None; pub_mei := None; pub_alias := None; pub_response_topic := None;
                                 pub_correlation := None; pub_subids := Some [1]; pub_content_type := None; pub_up := None |});
      (* SUBSCRIBE without subscriptions; subscription identifier 0 *)
      (no_resolution, Subscribe (bw_sub 8 [] None));
      (no_resolution, Subscribe (bw_sub 8 [bw_filter [97]] (Some 0)));
      (* UNSUBSCRIBE without filters *)
      (no_resolution, Unsubscribe (bw_unsub 9 []));
      (* U+0000 in the reason string of a DISCONNECT *)
      (no_resolution, Disconnect (bw_disc (Some [0]))) ] = true.
Proof. vm_compute. reflexivity. Qed.

(* ---- the send-time check is necessary: a packet the submission-time validator accepts, before the engine bound a
        packet id ---- *)
Example submission_check_alone_insufficient :
  let x := (no_resolution, Publish (bw_pub 0 [116] 1 false)) in
  bw_S (snd x) && negb (bw_D (fst x) (snd x)) && bw_rest (fst x) (snd x) && negb (valid V5 (fst x) (snd x)) = true.
Proof. vm_compute. reflexivity. Qed.

(* ---- the engine facts are necessary: DUP on a QoS 0 publish; a packet id above 65535 ---- *)
Example engine_facts_necessary :
  forallb (fun x => bw_S (snd x) && bw_D (fst x) (snd x) && negb (engine_ok (snd x)) && negb (valid V5 (fst x) (snd x)))
    [(no_resolution, Publish (bw_pub 0 [116] 0 true)); (no_resolution, Publish (bw_pub 65536 [116] 1 false));
     (no_resolution, Subscribe (bw_sub 65536 [bw_filter [97]] None)); (no_resolution, Unsubscribe (bw_unsub 65536 [[97]]))] = true.
Proof. vm_compute. reflexivity. Qed.

(* ---- the resolver facts are necessary: topic dropped without an alias; alias 0; alias 65536 ---- *)
Example resolver_facts_necessary :
  forallb (fun r => bw_S (Publish (bw_pub 0 [116] 0 false)) && bw_D r (Publish (bw_pub 0 [116] 0 false)) && negb (res_valid r)
                    && negb (valid V5 r (Publish (bw_pub 0 [116] 0 false))))
    [{| r_skip_topic := true; r_alias := None |}; {| r_skip_topic := false; r_alias := Some 0 |};
     {| r_skip_topic := false; r_alias := Some 65536 |}] = true.
Proof. vm_compute. reflexivity. Qed.

(* ---- the type invariants are necessary (values no Rust packet can hold): QoS 3; ill-formed UTF-8 in the topic;
        retain handling 3; a reason code that is not in Table 3-13 ---- *)
Example type_invariants_necessary :
  forallb (fun p => bw_S p && bw_D no_resolution p && negb (typed p) && negb (valid V5 no_resolution p))
    [Publish (bw_pub 5 [116] 3 false); Publish (bw_pub 0 [255] 0 false);
     Subscribe (bw_sub 8 [{| sub_filter := [97]; sub_qos := 1; sub_no_local := false; sub_rap := false; sub_rh := 3 |}] None);
     Disconnect {| d_rc := 1; d_sei := None; d_reason := None; d_up := None; d_server_ref := None |}] = true.
Proof. vm_compute. reflexivity. Qed.

(* ---- MQTT 3.1.1: the send-time length check is the MQTT 5 one and does not count a dropped topic; the premise
        "no topic is dropped in 3.1.1" of bridge_publish cannot be removed by boolean reasoning alone, but a
        3.1.1 packet that violates it would need 256 MiB of payload (no witness is computed) ---- *)
