(* C02 bridge, the packets the engine builds itself.

   1. PUBACK / PUBREC / PUBREL / PUBCOMP: the engine only ever builds [default_ack pid] (reason code 0 = Success, no
      reason string, no user properties); such a packet is valid for the wire specification, in both protocol
      versions, iff pid is a real packet identifier (1..65535).  PINGREQ is always valid.
   2. CONNECT: the engine sends [to_connect_packet options connected_before] with the client id replaced by the one
      the server assigned earlier when none is configured ([connect_of]).  The library validates connect options
      NOWHERE (validate_connect_packet_outbound has no caller: known findings D17 / D25 / D29), so validity of the
      CONNECT is a property of the configuration: [connect_checked] spells out, clause by clause, what the
      configuration must satisfy; under the type invariants [connect_typed] (String = UTF-8, u16 / u32 ranges, QoS)
      the CONNECT is valid IFF connect_checked holds, and every clause has a witness configuration. *)
From Coq Require Import Btauto.
From GM Require Import Base.Prelude Base.Outcome Codec.Packets Codec.Prim Codec.Settings Codec.SpecDecodeC2S Codec.ValidC2S.
From GM Require Import ValidateProofs.BridgeDefs.
Open Scope N_scope.

(* ================= acks and PINGREQ ================= *)
Lemma default_ack_valid v codes pid : SpecDecodeC2S.mem 0 codes = true -> valid_ack v codes (default_ack pid) = pid_ok pid.
Proof.
  intros Hc. unfold valid_ack. cbn [default_ack ack_pid ack_rc ack_reason ack_up]. destruct v; [|apply andb_true_r].
  rewrite Hc. cbn. apply andb_true_r.
Qed.

Theorem engine_acks_valid v r pid :
  valid v r (Puback (default_ack pid)) = pid_ok pid /\ valid v r (Pubrec (default_ack pid)) = pid_ok pid /\
  valid v r (Pubrel (default_ack pid)) = pid_ok pid /\ valid v r (Pubcomp (default_ack pid)) = pid_ok pid.
Proof. cbn [valid]. repeat split; apply default_ack_valid; reflexivity. Qed.

Theorem pingreq_valid v r : valid v r Pingreq = true.
Proof. reflexivity. Qed.

(* ================= CONNECT ================= *)
Definition with_client_id (c : connect) (cid : option bytes) : connect :=
  {| con_keep_alive := con_keep_alive c; con_clean_start := con_clean_start c; con_client_id := cid;
     con_username := con_username c; con_password := con_password c; con_sei := con_sei c; con_rri := con_rri c;
     con_rpi := con_rpi c; con_receive_max := con_receive_max c; con_tam := con_tam c; con_max_packet := con_max_packet c;
     con_auth_method := con_auth_method c; con_auth_data := con_auth_data c; con_will_delay := con_will_delay c;
     con_will := con_will c; con_up := con_up c |}.

(* the CONNECT of a connection: [cb] = a connection was established before, [cid] = the client id on the wire *)
Definition connect_of (co : connect_opts) (cb : bool) (cid : option bytes) : connect :=
  with_client_id (to_connect_packet co cb) cid.

(* "at most 65535 bytes and no U+0000": the part of string validity the type system does not give *)
Definition sl_ok (s : bytes) : bool := (len s <=? U16_MAX) && SpecDecodeC2S.no_nul s.
Definition ups_sl (o : option (list user_property)) : bool :=
  opt_ok (forallb (fun p => sl_ok (up_name p) && sl_ok (up_value p))) o.

Lemma str_valid_split s : str_valid s = sl_ok s && utf8_ok s.
Proof. unfold str_valid, sl_ok, SpecDecodeC2S.str_ok. btauto. Qed.
Lemma ostr_valid_split o : opt_ok str_valid o = opt_ok sl_ok o && outf8 o.
Proof. destruct o; [apply str_valid_split|reflexivity]. Qed.
Lemma ups_valid_split o : ups_valid o = ups_sl o && ups_utf8 o.
Proof.
  destruct o as [l|]; [|reflexivity]. cbn [ups_valid ups_sl ups_utf8 opt_ok]. induction l as [|p l IH]; [reflexivity|].
  cbn [forallb]. rewrite IH. unfold up_valid. rewrite !str_valid_split. btauto.
Qed.

(* ---- what the Rust types of ConnectOptions / the will PublishPacket guarantee ---- *)
Definition will_typed (co : connect_opts) (w : publish) : bool :=
  (pub_qos w <=? 2) && utf8_ok (pub_topic w) && opt_ok (fun x => x <=? U32_MAX) (co_will_delay co)
  && opt_ok (fun x => x <=? 1) (pub_pfi w) && opt_ok (fun x => x <=? U32_MAX) (pub_mei w)
  && outf8 (pub_content_type w) && outf8 (pub_response_topic w) && ups_utf8 (pub_up w).
Definition connect_typed (co : connect_opts) (cid : option bytes) : bool :=
  (match co_keep_alive co with Some k => k | None => 0 end <=? U16_MAX)         (* keep_alive_interval_seconds : u16 *)
  && outf8 cid && outf8 (co_username co)
  && opt_ok (will_typed co) (co_will co)
  && opt_ok (fun x => x <=? U32_MAX) (co_sei co)                                  (* u32 *)
  && opt_ok (fun x => x <=? U16_MAX) (co_receive_max co)                          (* u16 *)
  && opt_ok (fun x => x <=? U32_MAX) (co_max_packet co)                           (* u32 *)
  && opt_ok (fun x => x <=? U16_MAX) (co_tam co)                                  (* u16 *)
  && ups_utf8 (co_up co).

(* ---- what nobody checks: the requirements on the configuration, clause by clause ---- *)
Definition clean_start_of (co : connect_opts) (cb : bool) : bool :=
  if co_rejoin co =? 0 then negb cb else if co_rejoin co =? 1 then false else true.

Definition will_checked (v : version) (w : publish) : bool :=
  sl_ok (pub_topic w)                                            (* will topic: at most 65535 bytes, no U+0000 *)
  && opt_ok bin_valid (pub_payload w)                            (* will payload: at most 65535 bytes (3.1.3.4) *)
  && match v with
     | V5 => opt_ok sl_ok (pub_content_type w) && opt_ok sl_ok (pub_response_topic w)
             && opt_ok bin_valid (pub_correlation w) && ups_sl (pub_up w)
     | V311 => true
     end.

(* Remaining Length of the CONNECT (3.1.2, 3.1.3) *)
Definition connect_remaining (v : version) (c : connect) : N :=
  match v with
  | V5 => 10 + vbisz (connect_props_size c) + connect_props_size c + 2 + osz (con_client_id c)
          + (match con_will c with
             | Some w => vbisz (will_props_size c w) + will_props_size c w + 2 + len (pub_topic w) + 2 + osz (pub_payload w)
             | None => 0 end)
          + lpsz (con_username c) + lpsz (con_password c)
  | V311 => 10 + 2 + osz (con_client_id c)
            + (match con_will c with Some w => 2 + len (pub_topic w) + 2 + osz (pub_payload w) | None => 0 end)
            + lpsz (con_username c) + lpsz (con_password c)
  end.

Definition connect_checked (v : version) (co : connect_opts) (cb : bool) (cid : option bytes) : bool :=
  opt_ok sl_ok cid                                               (* client id: at most 65535 bytes, no U+0000 *)
  && opt_ok sl_ok (co_username co)                               (* user name: the same *)
  && opt_ok bin_valid (co_password co)                           (* password: at most 65535 bytes *)
  && opt_ok (will_checked v) (co_will co)
  && (connect_remaining v (connect_of co cb cid) <=? VLI_MAX)    (* the packet fits a Remaining Length *)
  && match v with
     | V5 => opt_ok (fun x => 1 <=? x) (co_receive_max co)       (* Receive Maximum 0 is a protocol error (3.1.2.11.3) *)
             && opt_ok (fun x => 1 <=? x) (co_max_packet co)     (* Maximum Packet Size 0 is a protocol error (3.1.2.11.4) *)
             && ups_sl (co_up co)
     | V311 => (is_some (co_username co) || negb (is_some (co_password co)))      (* [MQTT-3.1.2-22], D29 *)
               && (negb (osz cid =? 0) || clean_start_of co cb)                   (* [MQTT-3.1.3-7], D25 *)
     end.

Lemma range_split (f : N) (o : option N) :
  opt_ok (fun x => (1 <=? x) && (x <=? f)) o = opt_ok (fun x => 1 <=? x) o && opt_ok (fun x => x <=? f) o.
Proof. destruct o; reflexivity. Qed.

Ltac tsplit := repeat match goal with H : (_ && _) = true |- _ => apply andb_true_iff in H as [? ?] end.
Ltac trewrite := repeat match goal with H : ?b = true |- _ => rewrite H; clear H end.

Lemma will_valid_iff v co cb cid w :
  will_typed co w = true -> valid_will v (connect_of co cb cid) w = will_checked v w.
Proof.
  intros HT. unfold will_typed in HT. tsplit. unfold valid_will, will_checked.
  cbn [connect_of with_client_id to_connect_packet con_will_delay].
  rewrite !str_valid_split, !ostr_valid_split, !ups_valid_split.
  destruct v; trewrite; btauto.
Qed.

(* the CONNECT is valid for the wire specification iff the configuration satisfies connect_checked *)
Theorem connect_valid_iff v co cb cid :
  connect_typed co cid = true -> valid_connect v (connect_of co cb cid) = connect_checked v co cb cid.
Proof.
  intros HT. unfold connect_typed in HT. tsplit.
  assert (Hw : opt_ok (valid_will v (connect_of co cb cid)) (co_will co) = opt_ok (will_checked v) (co_will co)).
  { destruct (co_will co) as [w|]; [|reflexivity]. cbn [opt_ok] in *. apply will_valid_iff. assumption. }
  unfold valid_connect, connect_checked.
  change (con_will (connect_of co cb cid)) with (co_will co). rewrite Hw.
  change (con_keep_alive (connect_of co cb cid)) with (match co_keep_alive co with Some k => k | None => 0 end).
  change (con_client_id (connect_of co cb cid)) with cid.
  change (con_username (connect_of co cb cid)) with (co_username co).
  change (con_password (connect_of co cb cid)) with (co_password co).
  destruct v.
  - change (con_sei (connect_of co cb cid)) with (co_sei co). change (con_receive_max (connect_of co cb cid)) with (co_receive_max co).
    change (con_max_packet (connect_of co cb cid)) with (co_max_packet co). change (con_tam (connect_of co cb cid)) with (co_tam co).
    change (con_auth_method (connect_of co cb cid)) with (@None bytes). change (con_auth_data (connect_of co cb cid)) with (@None bytes).
    change (con_up (connect_of co cb cid)) with (co_up co).
    change (opt_ok str_valid (@None bytes)) with true. change (opt_ok bin_valid (@None bytes)) with true.
    change (is_some (@None bytes)) with false. cbn [negb orb].
    rewrite !ostr_valid_split, !range_split, ups_valid_split.
    match goal with |- context [?a <=? VLI_MAX] => change (a <=? VLI_MAX) with (connect_remaining V5 (connect_of co cb cid) <=? VLI_MAX) end.
    trewrite. btauto.
  - change (con_clean_start (connect_of co cb cid)) with (clean_start_of co cb). rewrite !ostr_valid_split.
    match goal with |- context [?a <=? VLI_MAX] => change (a <=? VLI_MAX) with (connect_remaining V311 (connect_of co cb cid) <=? VLI_MAX) end.
    trewrite. btauto.
Qed.

Corollary connect_packet_valid_iff v r co cb cid :
  connect_typed co cid = true -> (valid v r (Connect (connect_of co cb cid)) = true <-> connect_checked v co cb cid = true).
Proof. intros HT. cbn [valid]. rewrite (connect_valid_iff v co cb cid HT). tauto. Qed.
