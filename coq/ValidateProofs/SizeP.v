(* The MQTT 5 length computations of the implementation (Codec/ImplEncode.v impl_lengths5, used by
   the send-time size check) against the specification's sizes (Validate/Spec.v). *)
From GM Require Import Base.Prelude Base.Outcome Codec.Packets Codec.Prim Codec.Steps Codec.ImplEncode Codec.Settings.
From GM Require Import Validate.Spec.
Open Scope N_scope.

Lemma vli_size_ok v : v <= VLI_MAX -> vli_size v = Ok (vbi_len v).
Proof.
  unfold VLI_MAX, vli_size, vbi_len. intros H.
  destruct (v <? 128); auto. destruct (v <? 16384); auto. destruct (v <? 2097152); auto.
  replace (v <? 268435456) with true by (symmetry; apply N.ltb_lt; lia). reflexivity.
Qed.

Lemma vli_size_inv v sz : vli_size v = Ok sz -> v <= VLI_MAX /\ sz = vbi_len v.
Proof.
  unfold VLI_MAX, vli_size, vbi_len.
  destruct (v <? 128) eqn:E1; [intros H; inversion H; apply N.ltb_lt in E1; split; [lia|reflexivity]|].
  destruct (v <? 16384) eqn:E2; [intros H; inversion H; apply N.ltb_lt in E2; split; [lia|reflexivity]|].
  destruct (v <? 2097152) eqn:E3; [intros H; inversion H; apply N.ltb_lt in E3; split; [lia|reflexivity]|].
  destruct (v <? 268435456) eqn:E4; [intros H; inversion H; apply N.ltb_lt in E4; split; [lia|reflexivity]|].
  discriminate.
Qed.

Lemma vbi_len_bounds v : 1 <= vbi_len v <= 4.
Proof. unfold vbi_len. destruct (v <? 128), (v <? 16384), (v <? 2097152); lia. Qed.

Lemma u32_small x : x < 4294967296 -> u32 x = x.
Proof. intros H. unfold u32. now apply N.mod_small. Qed.

Lemma ups_size_up l : ups_size l = len l * 5 + up_sum l.
Proof.
  induction l as [|p l IH]; [reflexivity|]. cbn [ups_size up_sum]. rewrite IH, len_cons. unfold str_size. lia.
Qed.

Lemma oups_size_up o : up_length o = oups_size o.
Proof. destruct o; cbn; [now rewrite ups_size_up|reflexivity]. Qed.

Lemma opt_data_prop o : opt_data_prop_len o = ostr_prop o.
Proof. destruct o; cbn; unfold str_size; lia. Qed.

Lemma subs_sum l :
  fold_right (fun x acc => str_size (sub_filter x) + 1 + acc) 0 l = len l * 3 + filters_sum (map sub_filter l).
Proof. induction l as [|x l IH]; [reflexivity|]. cbn [fold_right map filters_sum]. rewrite IH, len_cons. unfold str_size. lia. Qed.

Lemma filters_sum_spec l :
  fold_right (fun f acc => str_size f + acc) 0 l = len l * 2 + filters_sum l.
Proof. induction l as [|x l IH]; [reflexivity|]. cbn [fold_right filters_sum]. rewrite IH, len_cons. unfold str_size. lia. Qed.

(* client packets that have an MQTT 5 length function *)
Definition sized_kind (p : packet) : bool :=
  match p with
  | Publish x => match pub_subids x with None => true | Some _ => false end
  | Puback _ | Pubrec _ | Pubrel _ | Pubcomp _ | Subscribe _ | Unsubscribe _ | Disconnect _ | Auth _ => true
  | _ => false
  end.

Ltac case_vli H :=
  match type of H with
  | context[vli_size ?v] =>
      let E := fresh "Ev" in let sz := fresh "sz" in
      destruct (vli_size v) as [sz| |] eqn:E; cbn [obind] in H; try discriminate;
      apply vli_size_inv in E as [? ->]
  end.

(* what the implementation computes, when it computes something, is the specification's
   Remaining Length truncated to u32 *)
Lemma impl_lengths_inv p r rem pl :
  sized_kind p = true -> impl_lengths5 p r = Ok (rem, pl) -> rem = u32 (spec_remaining p r).
Proof.
  intros Hk H. destruct p; try discriminate Hk; cbn [impl_lengths5] in H.
  - (* publish *)
    unfold publish_lengths5 in H. cbn [sized_kind] in Hk. destruct (pub_subids p) eqn:Es; [discriminate|].
    cbn [obind] in H. case_vli H. inversion H; subst; clear H. f_equal.
    unfold spec_remaining, spec_props, publish_props. rewrite Es.
    rewrite !oups_size_up, !opt_data_prop in *.
    set (pl := oups_size (pub_up p) + opt_fixed_len 2 (pub_pfi p) + opt_fixed_len 5 (pub_mei p) +
               opt_fixed_len 3 (r_alias r) + ostr_prop (pub_content_type p) + ostr_prop (pub_response_topic p) +
               ostr_prop (pub_correlation p)) in *.
    assert (Hpl : ofix_prop 1 (pub_pfi p) + ofix_prop 4 (pub_mei p) + ofix_prop 2 (r_alias r) +
                  ostr_prop (pub_response_topic p) + ostr_prop (pub_correlation p) + ostr_prop (pub_content_type p) + 0 +
                  oups_size (pub_up p) = pl).
    { subst pl. destruct (pub_pfi p), (pub_mei p), (r_alias r); cbn; lia. }
    rewrite Hpl. unfold str_size.
    destruct (r_skip_topic r), (pub_qos p =? 0), (pub_payload p); rewrite ?len_nil; lia.
  - unfold ack_lengths in H. rewrite oups_size_up, opt_data_prop in H.
    unfold spec_remaining, spec_props, ack_props.
    replace (ostr_prop (ack_reason p) + oups_size (ack_up p)) with (oups_size (ack_up p) + ostr_prop (ack_reason p)) by lia.
    destruct (_ =? 0).
    + destruct (ack_rc p =? 0); inversion H; reflexivity.
    + case_vli H. inversion H; subst. f_equal; lia.
  - unfold ack_lengths in H. rewrite oups_size_up, opt_data_prop in H.
    unfold spec_remaining, spec_props, ack_props.
    replace (ostr_prop (ack_reason p) + oups_size (ack_up p)) with (oups_size (ack_up p) + ostr_prop (ack_reason p)) by lia.
    destruct (_ =? 0).
    + destruct (ack_rc p =? 0); inversion H; reflexivity.
    + case_vli H. inversion H; subst. f_equal; lia.
  - unfold ack_lengths in H. rewrite oups_size_up, opt_data_prop in H.
    unfold spec_remaining, spec_props, ack_props.
    replace (ostr_prop (ack_reason p) + oups_size (ack_up p)) with (oups_size (ack_up p) + ostr_prop (ack_reason p)) by lia.
    destruct (_ =? 0).
    + destruct (ack_rc p =? 0); inversion H; reflexivity.
    + case_vli H. inversion H; subst. f_equal; lia.
  - unfold ack_lengths in H. rewrite oups_size_up, opt_data_prop in H.
    unfold spec_remaining, spec_props, ack_props.
    replace (ostr_prop (ack_reason p) + oups_size (ack_up p)) with (oups_size (ack_up p) + ostr_prop (ack_reason p)) by lia.
    destruct (_ =? 0).
    + destruct (ack_rc p =? 0); inversion H; reflexivity.
    + case_vli H. inversion H; subst. f_equal; lia.
  - (* subscribe *)
    unfold subscribe_lengths5 in H. rewrite oups_size_up in H.
    unfold spec_remaining, spec_props, subscribe_props. rewrite subs_sum.
    destruct (s_subid p) as [id|]; cbn [obind] in H.
    + case_vli H. case_vli H. inversion H; subst. f_equal.
      replace (1 + vbi_len id + oups_size (s_up p)) with (oups_size (s_up p) + (1 + vbi_len id)) by lia. lia.
    + case_vli H. inversion H; subst. f_equal. rewrite N.add_0_l. lia.
  - (* unsubscribe *)
    unfold unsubscribe_lengths5 in H. rewrite oups_size_up in H.
    unfold spec_remaining, spec_props. rewrite filters_sum_spec.
    case_vli H. inversion H; subst. f_equal; lia.
  - (* disconnect *)
    unfold disconnect_lengths in H. rewrite oups_size_up, !opt_data_prop in H.
    unfold spec_remaining, spec_props, disconnect_props.
    replace (ofix_prop 4 (d_sei p) + ostr_prop (d_reason p) + ostr_prop (d_server_ref p) + oups_size (d_up p))
      with (oups_size (d_up p) + opt_fixed_len 5 (d_sei p) + ostr_prop (d_reason p) + ostr_prop (d_server_ref p))
      by (destruct (d_sei p); cbn; lia).
    destruct (_ =? 0).
    + destruct (d_rc p =? 0); inversion H; reflexivity.
    + case_vli H. inversion H; subst. f_equal; lia.
  - (* auth *)
    unfold auth_lengths in H. rewrite oups_size_up, !opt_data_prop in H.
    unfold spec_remaining, spec_props, auth_props.
    replace (ostr_prop (au_method p) + ostr_prop (au_data p) + ostr_prop (au_reason p) + oups_size (au_up p))
      with (oups_size (au_up p) + ostr_prop (au_method p) + ostr_prop (au_data p) + ostr_prop (au_reason p)) by lia.
    destruct ((_ =? 0) && _).
    + inversion H; reflexivity.
    + case_vli H. inversion H; subst. f_equal; lia.
Qed.

Definition subid_in_range (p : packet) : Prop :=
  match p with
  | Subscribe s => match s_subid s with Some v => v <= VLI_MAX | None => True end
  | _ => True
  end.

(* ... and it does compute something whenever the specification's Remaining Length is encodable *)
Lemma impl_lengths_total p r :
  sized_kind p = true -> spec_remaining p r <= VLI_MAX -> subid_in_range p ->
  exists rem pl, impl_lengths5 p r = Ok (rem, pl).
Proof.
  intros Hk Hb Hs. destruct p; try discriminate Hk; cbn [impl_lengths5].
  - unfold publish_lengths5. cbn [sized_kind] in Hk. destruct (pub_subids p) eqn:Es; [discriminate|]. cbn [obind].
    unfold spec_remaining, spec_props, publish_props in Hb. rewrite Es in Hb.
    rewrite !oups_size_up, !opt_data_prop.
    set (pl := oups_size (pub_up p) + opt_fixed_len 2 (pub_pfi p) + opt_fixed_len 5 (pub_mei p) +
               opt_fixed_len 3 (r_alias r) + ostr_prop (pub_content_type p) + ostr_prop (pub_response_topic p) +
               ostr_prop (pub_correlation p)) in *.
    assert (Hpl : ofix_prop 1 (pub_pfi p) + ofix_prop 4 (pub_mei p) + ofix_prop 2 (r_alias r) +
                  ostr_prop (pub_response_topic p) + ostr_prop (pub_correlation p) + ostr_prop (pub_content_type p) + 0 +
                  oups_size (pub_up p) = pl).
    { subst pl. destruct (pub_pfi p), (pub_mei p), (r_alias r); cbn; lia. }
    rewrite Hpl in Hb. rewrite vli_size_ok by lia. cbn [obind]. eauto.
  - unfold ack_lengths. rewrite oups_size_up, opt_data_prop.
    unfold spec_remaining, spec_props, ack_props in Hb.
    replace (ostr_prop (ack_reason p) + oups_size (ack_up p)) with (oups_size (ack_up p) + ostr_prop (ack_reason p)) in Hb by lia.
    destruct (_ =? 0); [destruct (ack_rc p =? 0); eauto|]. rewrite vli_size_ok by lia. cbn [obind]. eauto.
  - unfold ack_lengths. rewrite oups_size_up, opt_data_prop.
    unfold spec_remaining, spec_props, ack_props in Hb.
    replace (ostr_prop (ack_reason p) + oups_size (ack_up p)) with (oups_size (ack_up p) + ostr_prop (ack_reason p)) in Hb by lia.
    destruct (_ =? 0); [destruct (ack_rc p =? 0); eauto|]. rewrite vli_size_ok by lia. cbn [obind]. eauto.
  - unfold ack_lengths. rewrite oups_size_up, opt_data_prop.
    unfold spec_remaining, spec_props, ack_props in Hb.
    replace (ostr_prop (ack_reason p) + oups_size (ack_up p)) with (oups_size (ack_up p) + ostr_prop (ack_reason p)) in Hb by lia.
    destruct (_ =? 0); [destruct (ack_rc p =? 0); eauto|]. rewrite vli_size_ok by lia. cbn [obind]. eauto.
  - unfold ack_lengths. rewrite oups_size_up, opt_data_prop.
    unfold spec_remaining, spec_props, ack_props in Hb.
    replace (ostr_prop (ack_reason p) + oups_size (ack_up p)) with (oups_size (ack_up p) + ostr_prop (ack_reason p)) in Hb by lia.
    destruct (_ =? 0); [destruct (ack_rc p =? 0); eauto|]. rewrite vli_size_ok by lia. cbn [obind]. eauto.
  - unfold subscribe_lengths5. rewrite oups_size_up.
    unfold spec_remaining, spec_props, subscribe_props in Hb. cbn [subid_in_range] in Hs.
    destruct (s_subid p) as [id|]; cbn [obind].
    + rewrite (vli_size_ok id) by exact Hs. cbn [obind].
      replace (1 + vbi_len id + oups_size (s_up p)) with (oups_size (s_up p) + (1 + vbi_len id)) in Hb by lia.
      rewrite vli_size_ok by lia. cbn [obind]. eauto.
    + rewrite N.add_0_l in Hb. rewrite vli_size_ok by lia. cbn [obind]. eauto.
  - unfold unsubscribe_lengths5. rewrite oups_size_up.
    unfold spec_remaining, spec_props in Hb. rewrite vli_size_ok by lia. cbn [obind]. eauto.
  - unfold disconnect_lengths. rewrite oups_size_up, !opt_data_prop.
    unfold spec_remaining, spec_props, disconnect_props in Hb.
    replace (ofix_prop 4 (d_sei p) + ostr_prop (d_reason p) + ostr_prop (d_server_ref p) + oups_size (d_up p))
      with (oups_size (d_up p) + opt_fixed_len 5 (d_sei p) + ostr_prop (d_reason p) + ostr_prop (d_server_ref p)) in Hb
      by (destruct (d_sei p); cbn; lia).
    destruct (_ =? 0); [destruct (d_rc p =? 0); eauto|]. rewrite vli_size_ok by lia. cbn [obind]. eauto.
  - unfold auth_lengths. rewrite oups_size_up, !opt_data_prop.
    unfold spec_remaining, spec_props, auth_props in Hb.
    replace (ostr_prop (au_method p) + ostr_prop (au_data p) + ostr_prop (au_reason p) + oups_size (au_up p))
      with (oups_size (au_up p) + ostr_prop (au_method p) + ostr_prop (au_data p) + ostr_prop (au_reason p)) in Hb by lia.
    destruct ((_ =? 0) && _); [eauto|]. rewrite vli_size_ok by lia. cbn [obind]. eauto.
Qed.

(* the size check of the send-time validation, both directions *)
Definition check_size_spec (st : settings) (p : packet) (r : resolution) : bool :=
  (spec_remaining p r <=? VLI_MAX) && (spec_total_size p r <=? st_maximum_packet_size_to_server st).

Lemma impl_total_ok p r st :
  sized_kind p = true -> subid_in_range p -> check_size_spec st p r = true ->
  exists pl, impl_lengths5 p r = Ok (spec_remaining p r, pl) /\
             vli_size (spec_remaining p r) = Ok (vbi_len (spec_remaining p r)) /\
             (st_maximum_packet_size_to_server st <? 1 + spec_remaining p r + vbi_len (spec_remaining p r)) = false.
Proof.
  intros Hk Hs Hc. unfold check_size_spec in Hc. apply andb_true_iff in Hc as [H1 H2].
  apply N.leb_le in H1, H2.
  destruct (impl_lengths_total p r Hk H1 Hs) as (rem & pl & H).
  pose proof (impl_lengths_inv p r rem pl Hk H) as ->. rewrite u32_small in H by (unfold VLI_MAX in H1; lia).
  exists pl. split; [exact H|]. split; [now apply vli_size_ok|].
  apply N.ltb_ge. unfold spec_total_size in H2. lia.
Qed.

Lemma impl_total_inv p r st rem pl sz :
  sized_kind p = true -> spec_remaining p r < 4294967296 ->
  impl_lengths5 p r = Ok (rem, pl) -> vli_size rem = Ok sz ->
  (st_maximum_packet_size_to_server st <? 1 + rem + sz) = false ->
  check_size_spec st p r = true.
Proof.
  intros Hk Hsmall H Hv Hm. pose proof (impl_lengths_inv p r rem pl Hk H) as ->.
  rewrite u32_small in * by exact Hsmall. apply vli_size_inv in Hv as [Hb ->].
  unfold check_size_spec, spec_total_size. apply N.ltb_ge in Hm.
  apply andb_true_iff. split; apply N.leb_le; lia.
Qed.
