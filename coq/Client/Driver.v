(* The client event loop as a transition system over abstract driver events — one model for
   both drivers, with the flag [thr] where they differ:
     tokio     client/asynchronous/tokio/mod.rs 49-320   (select!: ONE branch per iteration)
     threaded  client/synchronous/threaded/mod.rs 65-395 (polling: op, read, service, write in a
                                                          fixed order within ONE iteration)
   Both have the shape  loop { next := process_<current>(); transition_to_state(next) or exit }.

   A driver event is one thing the environment (operation channel, connection factory,
   transport, clock, scheduler) does to the loop.  Schedules, select!'s branch choice, thread
   interleavings and OS write semantics are therefore event ORDERS, and the theorems quantify
   over all of them as lists.  What is kept from the code:
   * every process_* function handles the event, and leaves with the state the event forces
     (connect result, timer, any error => PendingReconnect) or else with what
     compute_optional_state_transition says — tokio asks after every select! branch, threaded
     only at the end of an iteration ([DCheck]), after op / read / service / write in that order
     ([d_pos] enforces the order; an event that cannot happen at that point is ignored);
   * process_connected: outbound buffer + cumulative-bytes-written cursor; service APPENDS to
     the buffer; the unwritten tail is offered to the transport; when the cursor reaches the
     end: clear, flush, and only then engine write completion; the flush belongs to the same
     iteration as the write that completed the batch ([d_flush]: nothing else can happen in
     between);
   * differences: threaded treats write Ok(0) as an error (WriteZero), tokio just tries again;
     threaded ignores WouldBlock / Interrupted on write, for tokio an Interrupted write is an
     error (would-block is `Pending`: no event); EOF is ConnectionClosed for tokio and
     classified by is_connection_established for threaded; threaded computes
     add_duration_saturating(Instant::now(), connect_timeout / reconnect wait) on entering Connecting /
     PendingReconnect (threaded/mod.rs:92,333; saturating since fix 8daf4ff);
   * the loop exits when a transition returns Err ([Dead]), when the requested or reached
     state is Shutdown ([Exited]); a panic kills the task / thread ([Panicked]).
   Ghost fields record what the transport and the engine saw, per connection. *)
From GM Require Import Base.Prelude Base.Outcome Client.Backoff Client.Impl.
Open Scope N_scope.

Inductive wres :=
| WOk (n : N)          (* the transport accepted n bytes of the offered tail (n may be 0) *)
| WBlocked             (* WouldBlock (threaded) / Pending (tokio) *)
| WInterrupted         (* ErrorKind::Interrupted *)
| WErr.                (* any other error *)

Inductive lstatus := Running | Exited | Dead | Panicked.
Definition lstatus_eqb (a b : lstatus) : bool :=
  match a, b with Running, Running | Exited, Exited | Dead, Dead | Panicked, Panicked => true | _, _ => false end.

Section Driver.

  Variable E U D : Type.
  Variable e_tag : E -> etag.
  Variable e_user : E -> N -> U -> E.
  Variable e_disc : E -> N -> D -> E.
  Variable e_reset : E -> N -> E.
  Variable e_opened : E -> N -> N -> E * outcome unit.
  Variable e_closed : E -> N -> E * outcome unit.
  Variable e_data : E -> N -> bytes -> E * list pevent * outcome unit.
  Variable e_wc : E -> N -> E * outcome unit.
  Variable e_service : E -> N -> N -> E * bytes * outcome unit.
  Variable e_nst : E -> N -> option N.

  Variable thr : bool.                  (* true = threaded client, false = tokio client *)

  Inductive dev :=
  | DOp (o : cop U D)                   (* an operation is received from the channel *)
  | DConnOk | DConnFail | DConnTimeout  (* connection factory result / connect timeout *)
  | DRead (data : bytes)                (* a non-empty read *)
  | DReadEof | DReadBlocked | DReadErr
  | DService                            (* the service timer fires / the polling loop looks at the service time *)
  | DWrite (r : wres)
  | DFlush (ok : bool)
  | DTimer                              (* reconnect timer *)
  | DCheck.                             (* end of a loop iteration (wake-up without anything to do for tokio) *)

  Record dstate := mkD {
    d_c : st E;
    d_buf : bytes;                      (* outbound_data *)
    d_cursor : N;                       (* cumulative_bytes_written *)
    d_flush : bool;                     (* should_flush *)
    d_pos : N;                          (* threaded: position within the iteration *)
    d_status : lstatus;
    (* ghost *)
    d_log : list cev;                   (* client events emitted so far *)
    d_wire : bytes;                     (* bytes the transport accepted on the current connection *)
    d_outs : list bytes;                (* engine outputs (service calls) on the current connection *)
    d_fed : list bytes;                 (* fragments handed to the engine on the current connection *)
    d_wcs : list bytes;                 (* value of d_wire at every write completion reported *)
    d_conns : list (bytes * list bytes * list bytes) }.   (* finished connections: (wire, outs, wcs) *)

  Definition upd_c (s : dstate) (c : st E) (evs : list cev) : dstate :=
    mkD c (d_buf s) (d_cursor s) (d_flush s) (d_pos s) (d_status s) (d_log s ++ evs)
        (d_wire s) (d_outs s) (d_fed s) (d_wcs s) (d_conns s).
  Definition set_status (s : dstate) (x : lstatus) : dstate :=
    mkD (d_c s) (d_buf s) (d_cursor s) (d_flush s) (d_pos s) x (d_log s)
        (d_wire s) (d_outs s) (d_fed s) (d_wcs s) (d_conns s).
  Definition set_pos (s : dstate) (p : N) : dstate :=
    mkD (d_c s) (d_buf s) (d_cursor s) (d_flush s) p (d_status s) (d_log s)
        (d_wire s) (d_outs s) (d_fed s) (d_wcs s) (d_conns s).

  Definition dinit (e : E) (bc : Backoff.cfg) (timeout : N) : dstate :=
    mkD (Impl.init e bc timeout) [] 0 false 0 Running [] [] [] [] [] [].

  Definition cur (s : dstate) : cstate := c_cur (d_c s).

  (* what a process_* function does when it is entered *)
  Definition enter (s : dstate) (now : N) (old : cstate) : dstate :=
    let s0 := set_pos s 0 in
    let ended := if cstate_eqb old CConnected && negb (cstate_eqb (cur s) CConnected)
                 then d_conns s ++ [(d_wire s, d_outs s, d_wcs s)] else d_conns s in
    match cur s0 with
    | CConnected =>
        mkD (d_c s0) [] 0 false 0 (d_status s0) (d_log s0) [] [] [] [] ended
    | CConnecting =>
        let s1 := mkD (d_c s0) (d_buf s0) (d_cursor s0) false 0 (d_status s0) (d_log s0)
                      (d_wire s0) (d_outs s0) (d_fed s0) (d_wcs s0) ended in
        if thr then match add_saturating 92 now (c_timeout (d_c s0)) with
                    | Ok _ => s1 | _ => set_status s1 Panicked end
        else s1
    | CPendingReconnect =>
        (* client_event_loop: advance_reconnect_period, then process_pending_reconnect(wait) *)
        let (c', wait) := advance_reconnect_period E (d_c s0) now in
        let s1 := mkD c' (d_buf s0) (d_cursor s0) false 0 (d_status s0) (d_log s0)
                      (d_wire s0) (d_outs s0) (d_fed s0) (d_wcs s0) ended in
        if thr then match add_saturating 333 now wait with
                    | Ok _ => s1 | _ => set_status s1 Panicked end
        else s1
    | CShutdown =>
        set_status (mkD (d_c s0) (d_buf s0) (d_cursor s0) false 0 (d_status s0) (d_log s0)
                        (d_wire s0) (d_outs s0) (d_fed s0) (d_wcs s0) ended) Exited
    | CStopped =>
        mkD (d_c s0) (d_buf s0) (d_cursor s0) false 0 (d_status s0) (d_log s0)
            (d_wire s0) (d_outs s0) (d_fed s0) (d_wcs s0) ended
    end.

  (* client_event_loop: transition_to_state(next); exit on Err or when next = Shutdown *)
  Definition leave (s : dstate) (now : N) (target : cstate) : dstate :=
    let old := cur s in
    match transition E e_opened e_closed (d_c s) now target with
    | (c', evs, Ok _) =>
        let s1 := upd_c s c' evs in
        if cstate_eqb target CShutdown then set_status (enter s1 now old) Exited
        else if cstate_eqb old (c_cur c') then s1 else enter s1 now old
    | (c', evs, Err _) => set_status (upd_c s c' evs) Dead
    | (c', evs, Panic _) => set_status (upd_c s c' evs) Panicked
    end.

  Definition check (s : dstate) (now : N) : dstate :=
    match compute_optional_state_transition (d_c s) with
    | Some t => leave s now t
    | None => set_pos s 0
    end.

  (* tokio evaluates compute_optional_state_transition after every select! branch *)
  Definition after_event (s : dstate) (now : N) : dstate := if thr then s else check s now.

  Definition fail_with (s : dstate) (now : N) (k : errkind) : dstate :=
    leave (upd_c s (apply_error (d_c s) k) []) now CPendingReconnect.

  (* errors of the transport are classified by is_connection_established *)
  Definition io_error_kind (s : dstate) : errkind :=
    if etag_eqb (e_tag (c_eng (d_c s))) TConnected then EConnectionClosed else EConnectionEstablishmentFailure.

  (* threaded: the fixed order of one iteration *)
  Definition phase (e : dev) : N :=
    match e with
    | DOp _ => 0
    | DConnOk | DConnFail | DRead _ | DReadEof | DReadBlocked | DReadErr => 1
    | DConnTimeout | DTimer => 2
    | DService => 3
    | DWrite _ => 4
    | DFlush _ => 5
    | DCheck => 6
    end.
  Definition in_order (s : dstate) (e : dev) : bool := negb thr || (d_pos s <=? phase e).
  Definition advance_pos (s : dstate) (e : dev) : dstate := if thr then set_pos s (phase e + 1) else s.

  Definition do_op (s : dstate) (now : N) (o : cop U D) : dstate :=
    after_event (upd_c s (handle_op E U D e_tag e_user e_disc e_reset (d_c s) now o) []) now.

  Definition with_buf (s : dstate) (c : st E) (buf : bytes) (cursor : N) (fl : bool) (wire : bytes)
                      (outs fed wcs : list bytes) : dstate :=
    mkD c buf cursor fl (d_pos s) (d_status s) (d_log s) wire outs fed wcs (d_conns s).

  Definition step_connected (s : dstate) (now : N) (e : dev) : dstate :=
    if d_flush s then
      (* the flush of the batch that was just completed *)
      match e with
      | DFlush ok =>
          let s0 := with_buf s (d_c s) (d_buf s) (d_cursor s) false (d_wire s) (d_outs s) (d_fed s) (d_wcs s) in
          if ok then
            match handle_write_completion E e_wc (d_c s0) now with
            | (c', r) =>
                let s1 := with_buf s0 c' (d_buf s0) (d_cursor s0) false (d_wire s0) (d_outs s0) (d_fed s0)
                                   (d_wcs s0 ++ [d_wire s0]) in
                match r with
                | Ok _ => after_event s1 now
                | Err k => fail_with s1 now k
                | Panic _ => set_status s1 Panicked
                end
            end
          else fail_with s0 now (io_error_kind s0)
      | _ => s
      end
    else
    match e with
    | DOp o => do_op s now o
    | DRead data =>
        match data with
        | [] => s                                   (* a read of 0 bytes is [DReadEof] *)
        | _ =>
          match handle_incoming_bytes E e_data (d_c s) now data with
          | (c', evs, r) =>
              let s1 := upd_c (with_buf s (d_c s) (d_buf s) (d_cursor s) false (d_wire s) (d_outs s)
                                        (d_fed s ++ [data]) (d_wcs s)) c' evs in
              match r with
              | Ok _ => after_event s1 now
              | Err k => fail_with s1 now k
              | Panic _ => set_status s1 Panicked
              end
          end
        end
    | DReadEof =>
        fail_with s now (if thr then io_error_kind s else EConnectionClosed)
    | DReadErr => fail_with s now (io_error_kind s)
    | DReadBlocked => after_event s now
    | DService =>
        match next_service_time E e_nst (d_c s) now with
        | Some t =>
            if t <=? now then
              match handle_service E e_service (d_c s) now (len (d_buf s)) with
              | (c', out, r) =>
                  let s1 := with_buf s c' (d_buf s ++ out) (d_cursor s) false (d_wire s)
                                     (d_outs s ++ [out]) (d_fed s) (d_wcs s) in
                  match r with
                  | Ok _ => after_event s1 now
                  | Err k => fail_with s1 now k
                  | Panic _ => set_status s1 Panicked
                  end
              end
            else after_event s now
        | None => after_event s now
        end
    | DWrite r =>
        if d_cursor s <? len (d_buf s) then
          match r with
          | WOk n =>
              if len (d_buf s) - d_cursor s <? n then s     (* a transport cannot accept more than it was offered *)
              else if n =? 0 then
                (if thr then fail_with s now (io_error_kind s) else after_event s now)
              else
                let written := firstn (N.to_nat n) (skipn (N.to_nat (d_cursor s)) (d_buf s)) in
                let cursor' := d_cursor s + n in
                if cursor' =? len (d_buf s)
                then with_buf s (d_c s) [] 0 true (d_wire s ++ written) (d_outs s) (d_fed s) (d_wcs s)
                else after_event (with_buf s (d_c s) (d_buf s) cursor' false (d_wire s ++ written)
                                           (d_outs s) (d_fed s) (d_wcs s)) now
          | WBlocked => after_event s now
          | WInterrupted => if thr then after_event s now else fail_with s now (io_error_kind s)
          | WErr => fail_with s now (io_error_kind s)
          end
        else s
    | DCheck => check s now
    | _ => s
    end.

  Definition dstep (s : dstate) (now : N) (e : dev) : dstate :=
    match d_status s with
    | Running =>
        if negb (in_order s e) then s else
        let s := advance_pos s e in
        match cur s with
        | CStopped =>
            match e with
            | DOp o => do_op s now o
            | DCheck => check s now
            | _ => s
            end
        | CConnecting =>
            match e with
            | DOp o => do_op s now o
            | DConnOk => leave s now CConnected
            | DConnFail | DConnTimeout => fail_with s now EConnectionEstablishmentFailure
            | DCheck => check s now
            | _ => s
            end
        | CConnected => step_connected s now e
        | CPendingReconnect =>
            match e with
            | DOp o => do_op s now o
            | DTimer => leave s now CConnecting
            | DCheck => check s now
            | _ => s
            end
        | CShutdown => set_status s Exited
        end
    | _ => s
    end.

  Fixpoint drun (s : dstate) (h : list (N * dev)) : dstate :=
    match h with
    | [] => s
    | (now, e) :: r => drun (dstep s now e) r
    end.

End Driver.

Arguments DOp {U D} o.
Arguments DConnOk {U D}.
Arguments DConnFail {U D}.
Arguments DConnTimeout {U D}.
Arguments DRead {U D} data.
Arguments DReadEof {U D}.
Arguments DReadBlocked {U D}.
Arguments DReadErr {U D}.
Arguments DService {U D}.
Arguments DWrite {U D} r.
Arguments DFlush {U D} ok.
Arguments DTimer {U D}.
Arguments DCheck {U D}.
Arguments d_c {E} _.
Arguments d_buf {E} _.
Arguments d_cursor {E} _.
Arguments d_flush {E} _.
Arguments d_pos {E} _.
Arguments d_status {E} _.
Arguments d_log {E} _.
Arguments d_wire {E} _.
Arguments d_outs {E} _.
Arguments d_fed {E} _.
Arguments d_wcs {E} _.
Arguments d_conns {E} _.
Arguments cur {E} _.

(* ---- the lifecycle grammar: prefixes of (Attempt (Failure | Success Disconnection))* with
   Stopped only between attempts; PublishReceived events are not lifecycle events ---- *)
Inductive gphase := GIdle | GAttempting | GUp.
Definition gstep (p : option gphase) (e : cev) : option gphase :=
  match p with
  | None => None
  | Some ph =>
      match e with
      | EvPublish => Some ph
      | EvAttempt => match ph with GIdle => Some GAttempting | _ => None end
      | EvStopped => match ph with GIdle => Some GIdle | _ => None end
      | EvFailure _ _ => match ph with GAttempting => Some GIdle | _ => None end
      | EvSuccess => match ph with GAttempting => Some GUp | _ => None end
      | EvDisconnection _ _ => match ph with GUp => Some GIdle | _ => None end
      end
  end.
Definition gphase_of (l : list cev) : option gphase := fold_left gstep l (Some GIdle).
Definition grammar_ok (l : list cev) : bool := match gphase_of l with Some _ => true | None => false end.

Definition is_stopped_ev (e : cev) : bool := match e with EvStopped => true | _ => false end.
Definition is_attempt_ev (e : cev) : bool := match e with EvAttempt => true | _ => false end.
Definition count_stopped (l : list cev) : nat := length (filter is_stopped_ev l).
(* no Attempt after the first Stopped *)
Fixpoint no_attempt_after_stopped (l : list cev) : bool :=
  match l with
  | [] => true
  | EvStopped :: r => negb (existsb is_attempt_ev r)
  | _ :: r => no_attempt_after_stopped r
  end.
