(* Model of the reconnect back-off of MqttClientImpl (client/mod.rs: new 605-643,
   clamp_reconnect_period / compute_uniform_jitter_period / advance_reconnect_period 809-835,
   reset rule in transition_to_state 1015-1021; client/config.rs ReconnectOptions::normalize
   836-846).  Durations are N nanoseconds, bounded by DMAX = Duration::MAX; instants are N
   nanoseconds on an arbitrary monotone clock. *)
From GM Require Import Base.Prelude.
Open Scope N_scope.

Definition NANOS : N := 1000000000.
Definition U64MAX : N := 18446744073709551615.
Definition DMAX : N := U64MAX * NANOS + 999999999.   (* Duration::MAX in ns *)

Inductive jitter := JNone | JUniform.

Record cfg := { c_jit : jitter; c_base : N; c_max : N; c_stab : N }.

Definition cfg_ok (c : cfg) : bool :=
  (c_base c <=? DMAX) && (c_max c <=? DMAX) && (c_stab c <=? DMAX).

(* ReconnectOptions::normalize *)
Definition normalize (c : cfg) : cfg :=
  let (b, m) := if c_max c <? c_base c then (c_max c, c_base c) else (c_base c, c_max c) in
  let m' := if m <? NANOS then NANOS else m in
  {| c_jit := c_jit c; c_base := b; c_max := m'; c_stab := c_stab c |}.

Record st := {
  s_cfg : cfg;               (* normalised options *)
  s_next : N;                (* next_reconnect_period *)
  s_succ : option N          (* successful_connect_time *)
}.

(* MqttClientImpl::new: options normalised, then next := base *)
Definition init (c : cfg) : st :=
  let c' := normalize c in
  {| s_cfg := c'; s_next := c_base c'; s_succ := None |}.

(* next * 2, saturating at Duration::MAX *)
Definition double_sat (d : N) : N := if DMAX <? d * 2 then DMAX else d * 2.

Definition clamp (c : cfg) (d : N) : N := if c_max c <? d then c_max c else d.

(* Outcome of one wait computation.  [j] is the oracle for rng.gen_range(0..period_ns):
   any value; the model reduces it into range, an empty range yields 0 *)
Definition jittered (period j : N) : N :=
  if period =? 0 then 0 else (j mod period) mod (2 ^ 64).

Definition advance (s : st) (j : N) : st * N :=
  let r := s_next s in
  let s' := {| s_cfg := s_cfg s; s_next := clamp (s_cfg s) (double_sat r); s_succ := s_succ s |} in
  match c_jit (s_cfg s) with
  | JNone => (s', r)
  | JUniform => (s', jittered r j)
  end.

(* events of the client implementation that touch the back-off state *)
Inductive ev :=
| Wait (j : N)            (* entering PendingReconnect: advance_reconnect_period *)
| Success (t : N)         (* successful CONNACK dispatched at time t *)
| ConnEnd (t : N).        (* leaving Connected at time t *)

Definition step (s : st) (e : ev) : st * list N :=
  match e with
  | Wait j => let (s', w) := advance s j in (s', [w])
  | Success t => ({| s_cfg := s_cfg s; s_next := s_next s; s_succ := Some t |}, [])
  | ConnEnd t =>
      let nx := match s_succ s with
                | Some t0 => if c_stab (s_cfg s) <? (t - t0) then c_base (s_cfg s) else s_next s
                | None => s_next s
                end in
      ({| s_cfg := s_cfg s; s_next := nx; s_succ := None |}, [])
  end.

Fixpoint run (s : st) (h : list ev) : st * list N :=
  match h with
  | [] => (s, [])
  | e :: h' => let (s1, o1) := step s e in
               let (s2, o2) := run s1 h' in (s2, o1 ++ o2)
  end.

Definition waits (c : cfg) (h : list ev) : list N := snd (run (init c) h).

(* ---- specification side: the formula of the property ---- *)

(* upper bound of the k-th consecutive wait: min(base' * 2^k, max') *)
Definition kth_bound (c : cfg) (k : N) : N :=
  let c' := normalize c in N.min (c_base c' * 2 ^ k) (c_max c').

(* spec run: k = number of waits since start / the last stable connection *)
Fixpoint spec_run (c : cfg) (k : N) (succ : option N) (h : list ev) : list N :=
  match h with
  | [] => []
  | Wait j :: h' =>
      let b := kth_bound c k in
      (match c_jit c with JNone => b | JUniform => jittered b j end) :: spec_run c (k + 1) succ h'
  | Success t :: h' => spec_run c k (Some t) h'
  | ConnEnd t :: h' =>
      let k' := match succ with
                | Some t0 => if c_stab c <? (t - t0) then 0 else k
                | None => k
                end in
      spec_run c k' None h'
  end.

(* k consecutive failed attempts from the start *)
Fixpoint n_waits (k : nat) : list ev := match k with O => [] | S k' => Wait 0 :: n_waits k' end.
